(* C07: what every cue of both writers carries — structural facts, for every snapshot sequence:
   tags come in matching open/close pairs, properly nested, around the content of the span that produced them;
   no tag at all when SRT text formatting is disabled. *)
From TT Require Import Model.Doc Gen.StyleTables Model.Isd Model.SigTimes Model.TimeCode Model.IsdFilters Gen.CueTables Model.CueWriter.
From TT Require Import Model.CueTriggers Proofs.Common.ElemInd Proofs.C06.Inline Proofs.C06.Loop.

(* ---- a property of every cue the loops produce ----------------------------------------------------------------------------- *)
Section CueForall.
  Variable Q : cue -> Prop.
  (* Q looks at the items only *)
  Hypothesis Q_items : forall c c', c_items c = c_items c' -> Q c -> Q c'.

  Lemma srt_block_forall fmt b en :
    (forall cs0, Q (mkCue None b en (flat_map (srt_inline fmt) cs0) None None)) ->
    forall e n cs n', srt_block fmt b en e n = (cs, n') -> Forall Q cs.
  Proof.
    intros HQ. induction e as [a cs0 IH] using elem_ind2. intros n cs n' H. rewrite srt_block_node in H.
    destruct (e_kind a); try (injection H as <- <-; constructor).
    - (* div *)
      revert n cs n' H. induction cs0 as [|e cs0 IHl]; intros n cs n' H; cbn [srt_blocks] in H.
      + injection H as <- <-. constructor.
      + inversion IH as [|? ? He Hl]; subst. destruct (srt_block fmt b en e n) as [x n1] eqn:Ex.
        destruct (srt_blocks fmt b en cs0 n1) as [y n2] eqn:Ey. injection H as <- <-.
        apply Forall_app. split; [exact (He _ _ _ Ex) | exact (IHl Hl _ _ _ Ey)].
    - (* p *)
      cbv zeta in H. destruct (srt_blank _); injection H as <- <-; [constructor|]. constructor; [|constructor].
      eapply Q_items; [|apply (HQ cs0)]. reflexivity.
  Qed.
  Lemma srt_blocks_forall fmt b en :
    (forall cs0, Q (mkCue None b en (flat_map (srt_inline fmt) cs0) None None)) ->
    forall l n cs n', srt_blocks fmt b en l n = (cs, n') -> Forall Q cs.
  Proof.
    intros HQ. induction l as [|e l IH]; intros n cs n' H; cbn [srt_blocks] in H.
    - injection H as <- <-. constructor.
    - destruct (srt_block fmt b en e n) as [x n1] eqn:Ex. destruct (srt_blocks fmt b en l n1) as [y n2] eqn:Ey. injection H as <- <-.
      apply Forall_app. split; [exact (srt_block_forall fmt b en HQ _ _ _ _ Ex) | exact (IH _ _ _ Ey)].
  Qed.
  Lemma default_end_Q c : Q c -> Q (default_end c).
  Proof. intros H. eapply Q_items; [|exact H]. unfold default_end. destruct (c_end c); reflexivity. Qed.
  Lemma finish_forall fill blank : forall cs, Forall Q cs -> Forall Q (finish_cues fill blank cs).
  Proof.
    induction cs as [|c cs IH]; intros H; [constructor|]. inversion H as [|? ? Hc Hcs]; subst. destruct cs as [|c' cs'].
    - cbn [finish_cues]. destruct (c_end c); [exact H|]. destruct (blank c); [constructor|].
      constructor; [|constructor]. apply default_end_Q, Hc.
    - change (finish_cues fill blank (c :: c' :: cs')) with ((if fill then default_end c else c) :: finish_cues fill blank (c' :: cs')).
      constructor; [destruct fill; [apply default_end_Q, Hc | exact Hc] | apply IH, Hcs].
  Qed.
  Theorem srt_cues_forall fmt :
    (forall b en cs0, Q (mkCue None b en (flat_map (srt_inline fmt) cs0) None None)) ->
    forall seq cs, srt_cues fmt seq = Ok cs -> Forall Q cs.
  Proof.
    intros HQ seq cs H. unfold srt_cues in H. destruct (srt_loop fmt seq 0) as [cs0|] eqn:E; [|discriminate]. cbn [bind] in H.
    injection H as <-. apply finish_forall. revert E. generalize 0. revert cs0.
    induction seq as [|[t regions] seq IH]; intros cs0 n E; cbn [srt_loop] in E.
    - injection E as <-. constructor.
    - destruct (q_ms t) as [b|]; [|discriminate]. cbn [bind] in E.
      destruct (oq_ms _) as [en|]; [|discriminate]. cbn [bind] in E.
      destruct (srt_add_isd fmt b en (apply_filters srt_filters regions) n) as [x n1] eqn:Ex.
      destruct (srt_loop fmt seq n1) as [rest|] eqn:Er; [|discriminate]. cbn [bind] in E. injection E as <-.
      apply Forall_app. split; [exact (srt_blocks_forall fmt b en (HQ b en) _ _ _ _ Ex) | exact (IH _ _ Er)].
  Qed.

  Theorem vtt_cues_forall cfg :
    (forall b en cs0 s, Q (mkCue None b en (fst (vtt_inlines cs0 s)) None None)) ->
    forall seq cs css, vtt_cues cfg seq = Ok (cs, css) -> Forall Q cs.
  Proof.
    intros HQ seq cs css H. unfold vtt_cues in H. destruct (vtt_filters cfg) as [fs|]; [|discriminate].
    destruct (vtt_loop cfg fs seq (mkVttState 0 [])) as [[cs0 st]|] eqn:E; [|discriminate]. cbn [bind fst snd] in H.
    injection H as <- _. apply finish_forall. revert E. generalize (mkVttState 0 []). revert cs0 st.
    assert (Hp : forall ra b en p st0 x s1, vtt_process_p cfg ra b en p st0 = Ok (x, s1) -> Forall Q x).
    { intros ra b en p st0 x s1 Hx. unfold vtt_process_p in Hx.
      destruct (if line_position cfg then _ else _) as [line|]; [|discriminate]. cbn [bind] in Hx.
      destruct (vtt_inlines (echildren p) (v_css st0)) as [items css0] eqn:Ei.
      destruct (vtt_blank _); injection Hx as <- _; [constructor|]. constructor; [|constructor].
      eapply Q_items; [|apply (HQ b en (echildren p) (v_css st0))]. cbn [c_items]. rewrite Ei. reflexivity. }
    assert (Hbs : forall ra b en l, Forall (fun e => forall st0 x s1, vtt_block cfg ra b en e st0 = Ok (x, s1) -> Forall Q x) l ->
                  forall st0 x s1, vtt_blocks cfg ra b en l st0 = Ok (x, s1) -> Forall Q x).
    { intros ra b en. induction l as [|e l IH]; intros Hl st0 x s1 Hx; cbn [vtt_blocks] in Hx.
      - injection Hx as <- _. constructor.
      - inversion Hl as [|? ? He Hl']; subst.
        destruct (vtt_block cfg ra b en e st0) as [[x1 sa]|] eqn:E1; [|discriminate]. cbn [bind fst snd] in Hx.
        destruct (vtt_blocks cfg ra b en l sa) as [[x2 sb]|] eqn:E2; [|discriminate]. cbn [bind fst snd] in Hx.
        injection Hx as <- _. apply Forall_app. split; [exact (He _ _ _ E1) | exact (IH Hl' _ _ _ E2)]. }
    assert (Hb : forall ra b en e st0 x s1, vtt_block cfg ra b en e st0 = Ok (x, s1) -> Forall Q x).
    { intros ra b en. induction e as [a cs1 IH] using elem_ind2. intros st0 x s1 Hx. rewrite vtt_block_node in Hx.
      destruct (e_kind a); try (injection Hx as <- _; constructor).
      - exact (Hbs ra b en cs1 IH _ _ _ Hx).
      - exact (Hp _ _ _ _ _ _ _ Hx). }
    assert (Hr : forall b en rs st0 x s1, vtt_regions cfg b en rs st0 = Ok (x, s1) -> Forall Q x).
    { intros b en. induction rs as [|r rs IH]; intros st0 x s1 Hx; cbn [vtt_regions] in Hx.
      - injection Hx as <- _. constructor.
      - destruct (vtt_blocks cfg (eattrs r) b en _ st0) as [[x1 sa]|] eqn:E1; [|discriminate]. cbn [bind fst snd] in Hx.
        destruct (vtt_regions cfg b en rs sa) as [[x2 sb]|] eqn:E2; [|discriminate]. cbn [bind fst snd] in Hx.
        injection Hx as <- _. apply Forall_app. split; [|exact (IH _ _ _ E2)].
        exact (Hbs _ _ _ _ (proj2 (Forall_forall _ _) (fun e _ => Hb (eattrs r) b en e)) _ _ _ E1). }
    induction seq as [|[t regions] seq IH]; intros cs0 st st0 E; cbn [vtt_loop] in E.
    - injection E as <- _. constructor.
    - destruct (q_ms t) as [b|]; [|discriminate]. cbn [bind] in E.
      destruct (oq_ms _) as [en|]; [|discriminate]. cbn [bind] in E.
      destruct (vtt_regions cfg b en (apply_filters fs regions) st0) as [[x s1]|] eqn:Ex; [|discriminate]. cbn [bind fst snd] in E.
      destruct (vtt_loop cfg fs seq s1) as [[rest s2]|] eqn:Er; [|discriminate]. cbn [bind fst snd] in E. injection E as <- _.
      apply Forall_app. split; [exact (Hr _ _ _ _ _ _ Ex) | exact (IH _ _ _ Er)].
  Qed.
End CueForall.

(* ---- balanced, properly nested tags ------------------------------------------------------------------------------------------- *)
(* `pair o c`: c is the closing tag of the opening tag o *)
Inductive nested (pair : text -> text -> Prop) : list item -> Prop :=
| n_nil : nested pair []
| n_chr c : nested pair [IChr c]
| n_app l1 l2 : nested pair l1 -> nested pair l2 -> nested pair (l1 ++ l2)
| n_tag o c l : pair o c -> nested pair l -> nested pair (ITag o :: l ++ [ITag c]).

Definition srt_pair (o c : text) : Prop :=
  (o = srt_BOLD_TAG_IN /\ c = srt_BOLD_TAG_OUT) \/ (o = srt_ITALIC_TAG_IN /\ c = srt_ITALIC_TAG_OUT) \/
  (o = srt_UNDERLINE_TAG_IN /\ c = srt_UNDERLINE_TAG_OUT) \/
  (exists rgba, o = srt_FONT_COLOR_TAG_IN_pre ++ color_string rgba ++ srt_FONT_COLOR_TAG_IN_suf /\ c = srt_FONT_COLOR_TAG_OUT).
Definition vtt_pair (o c : text) : Prop :=
  (o = vtt_BOLD_TAG_IN /\ c = vtt_BOLD_TAG_OUT) \/ (o = vtt_ITALIC_TAG_IN /\ c = vtt_ITALIC_TAG_OUT) \/
  (o = vtt_UNDERLINE_TAG_IN /\ c = vtt_UNDERLINE_TAG_OUT) \/
  (exists rgba, o = vtt_COLOR_TAG_IN_pre ++ class_name false rgba ++ vtt_COLOR_TAG_IN_suf /\ c = vtt_COLOR_TAG_OUT) \/
  (exists rgba, o = vtt_BG_COLOR_TAG_IN_pre ++ class_name true rgba ++ vtt_BG_COLOR_TAG_IN_suf /\ c = vtt_BG_COLOR_TAG_OUT).

(* an optional pair of tags around l *)
Definition wrap (t : option (text * text)) (l : list item) : list item :=
  match t with Some (o, c) => ITag o :: l ++ [ITag c] | None => l end.
Lemma nested_wrap pair t l : match t with Some (o, c) => pair o c | None => True end -> nested pair l -> nested pair (wrap t l).
Proof. destruct t as [[o c]|]; intros H Hl; [apply n_tag; assumption | exact Hl]. Qed.
Lemma nested_flat_map {A} pair (f : A -> list item) l : (forall x, In x l -> nested pair (f x)) -> nested pair (flat_map f l).
Proof.
  induction l as [|x l IH]; intros H; [constructor|]. cbn [flat_map]. apply n_app; [apply H; left; reflexivity|].
  apply IH. intros y Hy. apply H. right. exact Hy.
Qed.
Lemma nested_chars pair t : nested pair (map IChr t).
Proof. induction t as [|c t IH]; [constructor|]. change (map IChr (c :: t)) with ([IChr c] ++ map IChr t). apply n_app; [constructor | exact IH]. Qed.

Lemma srt_span_wrap fmt a cs :
  srt_inline fmt (Elem a cs) =
  match e_kind a with
  | KSpan =>
      wrap (if fmt then match get_color_of a p_Color with
                        | Some c => Some (srt_FONT_COLOR_TAG_IN_pre ++ color_string c ++ srt_FONT_COLOR_TAG_IN_suf, srt_FONT_COLOR_TAG_OUT)
                        | None => None
                        end else None)
        (wrap (if fmt && is_element_bold a then Some (srt_BOLD_TAG_IN, srt_BOLD_TAG_OUT) else None)
           (wrap (if fmt && is_element_italic a then Some (srt_ITALIC_TAG_IN, srt_ITALIC_TAG_OUT) else None)
              (wrap (if fmt && is_element_underlined a then Some (srt_UNDERLINE_TAG_IN, srt_UNDERLINE_TAG_OUT) else None)
                 (flat_map (srt_inline fmt) cs))))
  | KRuby | KRbc | KRb => flat_map (srt_inline fmt) cs
  | KBr => [IChr 10]
  | KText => map IChr (e_text a)
  | _ => []
  end.
Proof.
  cbn [srt_inline]. destruct (e_kind a); try reflexivity.
  assert (G : (fix go (l : list elem) : list item := match l with [] => [] | c :: l' => srt_inline fmt c ++ go l' end) cs
              = flat_map (srt_inline fmt) cs) by reflexivity.
  rewrite G. generalize (flat_map (srt_inline fmt) cs). intros inner.
  destruct fmt; cbn [andb]; [|cbn [wrap app]; rewrite app_nil_r; reflexivity].
  destruct (get_color_of a p_Color), (is_element_bold a), (is_element_italic a), (is_element_underlined a);
    cbn [wrap app]; rewrite <- ?app_assoc; cbn [app]; rewrite ?app_nil_r; reflexivity.
Qed.

Theorem srt_inline_nested fmt : forall e, nested srt_pair (srt_inline fmt e).
Proof.
  induction e as [a cs IH] using elem_ind2. rewrite srt_span_wrap. rewrite Forall_forall in IH.
  destruct (e_kind a); try (apply nested_flat_map; exact IH); try constructor; try apply nested_chars.
  repeat apply nested_wrap; try apply nested_flat_map; try exact IH.
  - destruct fmt; [|exact I]. destruct (get_color_of a p_Color) as [c|]; [|exact I]. right. right. right. exists c. split; reflexivity.
  - destruct (fmt && is_element_bold a); [|exact I]. left. split; reflexivity.
  - destruct (fmt && is_element_italic a); [|exact I]. right. left. split; reflexivity.
  - destruct (fmt && is_element_underlined a); [|exact I]. right. right. left. split; reflexivity.
Qed.

Lemma vtt_span_wrap a cs s :
  fst (vtt_inline (Elem a cs) s) =
  match e_kind a with
  | KSpan =>
      let s1 := match get_color_of a p_Color with Some c => css_add s false c | None => s end in
      let s2 := match get_color_of a p_BackgroundColor with Some c => css_add s1 true c | None => s1 end in
      (* the closing tags of the two classes are the same string, written colour first *)
      wrap (match get_color_of a p_Color, get_color_of a p_BackgroundColor with
            | Some c, Some _ => Some (vtt_COLOR_TAG_IN_pre ++ class_name false c ++ vtt_COLOR_TAG_IN_suf, vtt_BG_COLOR_TAG_OUT)
            | Some c, None => Some (vtt_COLOR_TAG_IN_pre ++ class_name false c ++ vtt_COLOR_TAG_IN_suf, vtt_COLOR_TAG_OUT)
            | None, _ => None
            end)
        (wrap (match get_color_of a p_BackgroundColor with
               | Some c => Some (vtt_BG_COLOR_TAG_IN_pre ++ class_name true c ++ vtt_BG_COLOR_TAG_IN_suf,
                                 match get_color_of a p_Color with Some _ => vtt_COLOR_TAG_OUT | None => vtt_BG_COLOR_TAG_OUT end)
               | None => None
               end)
           (wrap (if is_element_bold a then Some (vtt_BOLD_TAG_IN, vtt_BOLD_TAG_OUT) else None)
              (wrap (if is_element_italic a then Some (vtt_ITALIC_TAG_IN, vtt_ITALIC_TAG_OUT) else None)
                 (wrap (if is_element_underlined a then Some (vtt_UNDERLINE_TAG_IN, vtt_UNDERLINE_TAG_OUT) else None)
                    (fst (vtt_inlines cs s2))))))
  | KRuby | KRbc | KRb => fst (vtt_inlines cs s)
  | KBr => [IChr 10]
  | KText => map IChr (e_text a)
  | _ => []
  end.
Proof.
  cbn [vtt_inline]. destruct (e_kind a); try reflexivity; try (rewrite vtt_inline_go_eq; reflexivity). cbv zeta. rewrite vtt_inline_go_eq.
  match goal with |- context [vtt_inlines cs ?s0] => destruct (vtt_inlines cs s0) as [inner s3] end. cbn [fst].
  destruct (get_color_of a p_Color), (get_color_of a p_BackgroundColor), (is_element_bold a), (is_element_italic a), (is_element_underlined a);
    cbn [wrap app]; rewrite <- ?app_assoc; cbn [app]; rewrite ?app_nil_r; reflexivity.
Qed.
Lemma vtt_out_tags_equal : vtt_COLOR_TAG_OUT = vtt_BG_COLOR_TAG_OUT.
Proof. reflexivity. Qed.

Lemma vtt_inlines_nested_from : forall l s,
  (forall c, In c l -> forall s, nested vtt_pair (fst (vtt_inline c s))) -> nested vtt_pair (fst (vtt_inlines l s)).
Proof.
  induction l as [|c l IH]; intros s H; [constructor|]. cbn [vtt_inlines].
  destruct (vtt_inline c s) as [x sa] eqn:Ec. destruct (vtt_inlines l sa) as [y sb] eqn:El. cbn [fst]. apply n_app.
  - specialize (H c (or_introl eq_refl) s). rewrite Ec in H. exact H.
  - specialize (IH sa (fun c' Hc' => H c' (or_intror Hc'))). rewrite El in IH. exact IH.
Qed.
Theorem vtt_inline_nested : forall e s, nested vtt_pair (fst (vtt_inline e s)).
Proof.
  induction e as [a cs IH] using elem_ind2. intros s. rewrite vtt_span_wrap. rewrite Forall_forall in IH.
  destruct (e_kind a); try (apply vtt_inlines_nested_from; exact IH); try constructor; try apply nested_chars. cbv zeta.
  repeat apply nested_wrap; try (apply vtt_inlines_nested_from; exact IH).
  - destruct (get_color_of a p_Color) as [c|]; [|exact I].
    destruct (get_color_of a p_BackgroundColor); right; right; right; left; exists c; split; reflexivity.
  - destruct (get_color_of a p_BackgroundColor) as [c|]; [|exact I]. right. right. right. right. exists c.
    split; [reflexivity | destruct (get_color_of a p_Color); reflexivity].
  - destruct (is_element_bold a); [|exact I]. left. split; reflexivity.
  - destruct (is_element_italic a); [|exact I]. right. left. split; reflexivity.
  - destruct (is_element_underlined a); [|exact I]. right. right. left. split; reflexivity.
Qed.

Theorem srt_cues_nested fmt seq cs : srt_cues fmt seq = Ok cs -> Forall (fun c => nested srt_pair (c_items c)) cs.
Proof.
  apply (srt_cues_forall (fun c => nested srt_pair (c_items c))).
  - intros c c' E H. rewrite <- E. exact H.
  - intros b en cs0. cbn [c_items]. apply nested_flat_map. intros e _. apply srt_inline_nested.
Qed.
Theorem vtt_cues_nested cfg seq cs css : vtt_cues cfg seq = Ok (cs, css) -> Forall (fun c => nested vtt_pair (c_items c)) cs.
Proof.
  apply (vtt_cues_forall (fun c => nested vtt_pair (c_items c))).
  - intros c c' E H. rewrite <- E. exact H.
  - intros b en cs0 s. cbn [c_items]. apply vtt_inlines_nested_from. intros e _ s'. apply vtt_inline_nested.
Qed.

(* ---- no tags when text formatting is disabled ----------------------------------------------------------------------------------- *)
Definition no_tags (l : list item) : Prop := Forall (fun i => is_tag i = false) l.
Lemma no_tags_flat l : no_tags l -> flat esc_none l = chars_of l.
Proof.
  induction l as [|[t|c] l IH]; intros H; [reflexivity | inversion H; discriminate |]. inversion H; subst.
  unfold flat, chars_of in *. cbn [flat_map]. rewrite IH by assumption. reflexivity.
Qed.
Theorem srt_inline_no_tags : forall e, no_tags (srt_inline false e).
Proof.
  induction e as [a cs IH] using elem_ind2. rewrite srt_span_wrap.
  assert (G : no_tags (flat_map (srt_inline false) cs)).
  { unfold no_tags. rewrite Forall_forall. intros i Hi. apply in_flat_map in Hi as (c & Hc & Hi).
    rewrite Forall_forall in IH. specialize (IH c Hc). unfold no_tags in IH. rewrite Forall_forall in IH. apply IH, Hi. }
  destruct (e_kind a) eqn:Ek; try (constructor; fail); try exact G.
  - (* br *) constructor; [reflexivity | constructor].
  - (* text *) unfold no_tags. rewrite Forall_forall. intros i Hi. apply in_map_iff in Hi as (c & <- & _). reflexivity.
Qed.
Theorem srt_cues_no_tags seq cs : srt_cues false seq = Ok cs ->
  Forall (fun c => no_tags (c_items c) /\ cue_text esc_none c = normalize_eol (cue_chars c)) cs.
Proof.
  apply (srt_cues_forall (fun c => no_tags (c_items c) /\ cue_text esc_none c = normalize_eol (cue_chars c))).
  - intros c c' E [H1 H2]. unfold cue_text, cue_chars in *. rewrite <- E. split; assumption.
  - intros b en cs0.
    assert (G : no_tags (flat_map (srt_inline false) cs0)).
    { unfold no_tags. rewrite Forall_forall. intros i Hi. apply in_flat_map in Hi as (c & _ & Hi).
      pose proof (srt_inline_no_tags c) as Hn. unfold no_tags in Hn. rewrite Forall_forall in Hn. apply Hn, Hi. }
    split; [exact G|]. unfold cue_text, cue_chars. cbn [c_items]. rewrite (no_tags_flat _ G). reflexivity.
Qed.
