(* C07: the SubRip writer writes at most one cue per snapshot (regions and paragraphs are merged first), so SubRip cues never
   overlap: each ends no later than the next begins.  For snapshots in which every region holds at most one body and the
   children of bodies are divisions — which holds for the snapshots of every document that follows the content model
   (`strict_shape`, proved from `doc_block_wf` below). *)
From Coq Require Import Sorting.Sorted.
From TT Require Import Model.Doc Gen.StyleTables Model.Isd Model.SigTimes Model.TimeCode Model.IsdFilters Gen.CueTables Model.CueWriter.
From TT Require Import Model.CueTriggers Spec.IsdSpec Spec.CueSpec Proofs.Common.ElemInd Proofs.C02.Complete.
From TT Require Import Proofs.C06.Filters Proofs.C06.Inline Proofs.C06.Loop Proofs.C06.Text Proofs.C06.Shape Proofs.C07.Order.

(* the paragraphs the SubRip dispatch reaches below an element *)
Fixpoint srt_p_count (e : elem) : nat :=
  match e with
  | Elem a cs =>
      match e_kind a with
      | KDiv => (fix go (l : list elem) : nat := match l with [] => O | c :: l' => (srt_p_count c + go l')%nat end) cs
      | KP => 1%nat
      | _ => O
      end
  end.
Definition sum_count (l : list elem) : nat := fold_right (fun c n => (srt_p_count c + n)%nat) O l.
Lemma srt_p_count_node a cs :
  srt_p_count (Elem a cs) = match e_kind a with KDiv => sum_count cs | KP => 1%nat | _ => O end.
Proof. cbn [srt_p_count]. destruct (e_kind a); reflexivity. Qed.
Lemma sum_count_app x y : sum_count (x ++ y) = (sum_count x + sum_count y)%nat.
Proof. unfold sum_count. induction x as [|c x IH]; [reflexivity|]. cbn [app fold_right]. rewrite IH. lia. Qed.

Lemma srt_blocks_count fmt b en : forall l,
  Forall (fun e => forall n, (length (fst (srt_block fmt b en e n)) <= srt_p_count e)%nat) l ->
  forall n, (length (fst (srt_blocks fmt b en l n)) <= sum_count l)%nat.
Proof.
  induction l as [|e l IH]; intros Hl n; [cbn; lia|]. inversion Hl as [|? ? He Hl']; subst. cbn [srt_blocks].
  specialize (He n). destruct (srt_block fmt b en e n) as [x n1]. specialize (IH Hl' n1). destruct (srt_blocks fmt b en l n1) as [y n2].
  cbn [fst sum_count fold_right] in *. rewrite app_length. fold (sum_count l). lia.
Qed.
Lemma srt_block_count fmt b en : forall e n, (length (fst (srt_block fmt b en e n)) <= srt_p_count e)%nat.
Proof.
  induction e as [a cs IH] using elem_ind2. intros n. rewrite srt_block_node, srt_p_count_node.
  destruct (e_kind a); try (cbn; lia).
  - exact (srt_blocks_count fmt b en cs IH n).
  - cbv zeta. destruct (srt_blank _); cbn; lia.
Qed.

(* ---- counting through the filters ------------------------------------------------------------------------------------------- *)
Lemma count_paragraphs : forall e, e_kind (eattrs e) = KDiv -> srt_p_count e = length (get_paragraphs e).
Proof.
  induction e as [a cs IH] using elem_ind2. intros Hk. cbn [eattrs] in Hk. rewrite srt_p_count_node, Hk, get_paragraphs_node.
  induction cs as [|c cs IHcs]; [reflexivity|]. inversion IH as [|? ? Hc Hcs]; subst. cbn [sum_count fold_right flat_map].
  rewrite app_length. fold (sum_count cs). rewrite (IHcs Hcs). f_equal.
  destruct c as [ac cc]. cbn [eattrs] in *. destruct (e_kind ac) eqn:Ek; try (rewrite srt_p_count_node, Ek; reflexivity).
  apply Hc. reflexivity.
Qed.
Definition all_divs (l : list elem) : bool := forallb (is_kind KDiv) l.
Lemma sum_count_paragraphs l : all_divs l = true -> sum_count l = length (flat_map get_paragraphs l).
Proof.
  induction l as [|c l IH]; intros H; [reflexivity|]. cbn [all_divs forallb] in H. apply andb_true_iff in H as [H1 H2].
  cbn [sum_count fold_right flat_map]. rewrite app_length. fold (sum_count l). rewrite (IH H2). f_equal.
  apply count_paragraphs. apply kind_eqb_eq. exact H1.
Qed.
Lemma merge_paragraphs_body_count b : all_divs (echildren b) = true -> (sum_count (echildren (merge_paragraphs_body b)) <= 1)%nat.
Proof.
  intros H. unfold merge_paragraphs_body. destruct (Z.of_nat (length (flat_map get_paragraphs (echildren b))) <=? 1) eqn:E.
  - rewrite (sum_count_paragraphs _ H). lia.
  - cbn. lia.
Qed.
Lemma merge_paragraphs_body_divs b : all_divs (echildren b) = true -> all_divs (echildren (merge_paragraphs_body b)) = true.
Proof. intros H. unfold merge_paragraphs_body. destruct (_ <=? 1); [exact H | reflexivity]. Qed.

(* the style filters keep kinds, hence counts *)
Lemma filter_supported_count cfg : forall e, srt_p_count (filter_supported cfg e) = srt_p_count e.
Proof.
  induction e as [a cs IH] using elem_ind2. rewrite filter_supported_node, !srt_p_count_node. cbn [with_styles e_kind].
  destruct (e_kind a); try reflexivity. induction cs as [|c cs IHcs]; [reflexivity|]. inversion IH as [|? ? Hc Hcs]; subst.
  cbn [map sum_count fold_right]. fold (sum_count (map (filter_supported cfg) cs)) (sum_count cs). rewrite Hc, (IHcs Hcs). reflexivity.
Qed.
Lemma filter_defaults_count dfl : forall e par, srt_p_count (filter_defaults dfl par e) = srt_p_count e.
Proof.
  induction e as [a cs IH] using elem_ind2. intros par. rewrite filter_defaults_node. cbv zeta. rewrite !srt_p_count_node. cbn [with_styles e_kind].
  destruct (e_kind a); try reflexivity. generalize (Some (filter (fun kv => negb (default_removed dfl par kv)) (e_styles a))). intros p'.
  induction cs as [|c cs IHcs]; [reflexivity|]. inversion IH as [|? ? Hc Hcs]; subst.
  cbn [map sum_count fold_right]. fold (sum_count (map (filter_defaults dfl p') cs)) (sum_count cs). rewrite Hc, (IHcs Hcs). reflexivity.
Qed.

(* ---- snapshots: every region holds at most one body, the children of bodies are divisions ------------------------------------ *)
Definition strict_shape (rs : list elem) : bool :=
  forallb (fun r => (Z.of_nat (length (echildren r)) <=? 1) && forallb (fun b => all_divs (echildren b)) (echildren r)) rs.
(* the children of the bodies of all regions *)
Definition total_count (rs : list elem) : nat := sum_count (body_children rs).

Lemma sum_count_map f l : (forall e, srt_p_count (f e) = srt_p_count e) -> sum_count (map f l) = sum_count l.
Proof. intros H. unfold sum_count. induction l as [|c l IH]; [reflexivity|]. cbn [map fold_right]. rewrite H, IH. reflexivity. Qed.
(* the style filters keep the count below every region *)
Lemma fd_region_count d par r :
  sum_count (flat_map echildren (echildren (filter_defaults d par r))) = sum_count (flat_map echildren (echildren r)).
Proof.
  destruct r as [a cs]. rewrite filter_defaults_node. cbv zeta. cbn [echildren].
  generalize (Some (filter (fun kv => negb (default_removed d par kv)) (e_styles a))). intros p1.
  induction cs as [|b cs IH]; [reflexivity|]. cbn [map flat_map]. rewrite !sum_count_app, IH. f_equal.
  destruct b as [ab cb]. rewrite filter_defaults_node. cbv zeta. cbn [echildren]. apply sum_count_map. intros e. apply filter_defaults_count.
Qed.
Lemma fs_region_count c r :
  sum_count (flat_map echildren (echildren (filter_supported c r))) = sum_count (flat_map echildren (echildren r)).
Proof.
  destruct r as [a cs]. rewrite filter_supported_node. cbn [echildren].
  induction cs as [|b cs IH]; [reflexivity|]. cbn [map flat_map]. rewrite !sum_count_app, IH. f_equal.
  destruct b as [ab cb]. rewrite filter_supported_node. cbn [echildren]. apply sum_count_map. apply filter_supported_count.
Qed.
Lemma total_count_map f rs :
  (forall r, sum_count (flat_map echildren (echildren (f r))) = sum_count (flat_map echildren (echildren r))) ->
  total_count (map f rs) = total_count rs.
Proof.
  intros H. unfold total_count, body_children. induction rs as [|r rs IH]; [reflexivity|]. cbn [map flat_map].
  rewrite !sum_count_app, IH, H. reflexivity.
Qed.

(* after paragraph merging every body counts at most one *)
Lemma merge_paragraphs_total rs : strict_shape rs = true ->
  (total_count (merge_paragraphs rs) <= length (flat_map echildren rs))%nat.
Proof.
  unfold strict_shape, total_count, body_children, merge_paragraphs. intros H. induction rs as [|r rs IH]; [cbn; lia|].
  cbn [forallb] in H. apply andb_true_iff in H as [Hr Hrs]. apply andb_true_iff in Hr as [_ Hb].
  cbn [map flat_map]. rewrite sum_count_app, app_length. specialize (IH Hrs). cbn [echildren].
  assert (G : (sum_count (flat_map echildren (map merge_paragraphs_body (echildren r))) <= length (echildren r))%nat).
  { clear - Hb. induction (echildren r) as [|b l IHl]; [cbn; lia|]. cbn [forallb] in Hb. apply andb_true_iff in Hb as [H1 H2].
    cbn [map flat_map length]. rewrite sum_count_app. pose proof (merge_paragraphs_body_count b H1). specialize (IHl H2). lia. }
  lia.
Qed.

Lemma fold_left_count rs k : fold_left (fun n r => n + Z.of_nat (length (echildren r))) rs k = k + Z.of_nat (length (flat_map echildren rs)).
Proof.
  revert k. induction rs as [|r rs IH]; intros k; [cbn; lia|]. cbn [fold_left flat_map]. rewrite IH, app_length, Nat2Z.inj_add. lia.
Qed.
Lemma merge_regions_strict rs : strict_shape rs = true ->
  strict_shape (merge_regions rs) = true /\ (length (flat_map echildren (merge_regions rs)) <= 1)%nat.
Proof.
  intros H. unfold merge_regions. rewrite fold_left_count.
  destruct ((Z.of_nat (length rs) <=? 1) || (0 + Z.of_nat (length (flat_map echildren rs)) <=? 1)) eqn:E.
  - split; [exact H|]. apply orb_true_iff in E as [E|E]; [|lia].
    destruct rs as [|r [|r' rs']]; [cbn; lia | | cbn [length] in E; lia].
    cbn [flat_map]. rewrite app_nil_r. unfold strict_shape in H. cbn [forallb] in H. apply andb_true_iff in H as [H _].
    apply andb_true_iff in H as [H _]. lia.
  - split; [|cbn; lia]. unfold strict_shape. cbn [forallb echildren length]. rewrite !andb_true_r. cbn [andb].
    unfold all_divs. apply forallb_forall. intros c Hc. apply in_flat_map in Hc as (r & Hr & Hc). apply in_flat_map in Hc as (b & Hb & Hc).
    unfold strict_shape in H. rewrite forallb_forall in H. specialize (H r Hr). apply andb_true_iff in H as [_ H].
    rewrite forallb_forall in H. specialize (H b Hb). unfold all_divs in H. rewrite forallb_forall in H. apply H, Hc.
Qed.

(* the SubRip filter list leaves at most one paragraph for the dispatch *)
Theorem srt_filters_single rs : strict_shape rs = true -> (total_count (apply_filters srt_filters rs) <= 1)%nat.
Proof.
  intros H. destruct srt_filters_form as (c & d & Hf). rewrite Hf. unfold writer_filters, apply_filters. cbn [app fold_left apply_filter].
  rewrite (total_count_map _ _ (fd_region_count d None)), (total_count_map _ _ (fs_region_count c)).
  destruct (merge_regions_strict rs H) as [Hs Hl]. pose proof (merge_paragraphs_total _ Hs). unfold total_count in *. lia.
Qed.

(* ---- at most one cue per snapshot, hence strict order --------------------------------------------------------------------------- *)
Theorem srt_snapshot_single fmt b en regions n cs n' : strict_shape regions = true ->
  srt_add_isd fmt b en (apply_filters srt_filters regions) n = (cs, n') -> (length cs <= 1)%nat.
Proof.
  intros Hs H. unfold srt_add_isd in H. fold (body_children (apply_filters srt_filters regions)) in H.
  pose proof (srt_blocks_count fmt b en (body_children (apply_filters srt_filters regions))
                (proj2 (Forall_forall _ _) (fun e _ => srt_block_count fmt b en e)) n) as G.
  rewrite H in G. cbn [fst] in G. pose proof (srt_filters_single regions Hs). unfold total_count in *. lia.
Qed.

(* ---- the snapshots of a document that follows the content model are strict ------------------------------------------------------ *)
Lemma proc_body_divs d t sel b inh par pb pe r :
  src_body_ok b = true -> proc d t sel inh par pb pe b = Ok (Some r) -> all_divs (echildren r) = true.
Proof.
  unfold src_body_ok, is_kind. intros Hs H. apply andb_true_iff in Hs as [Hk Hs]. apply kind_eqb_eq in Hk.
  destruct (proc_inv _ _ _ _ _ _ _ _ _ H) as [_ Hc]. rewrite Hk in Hc. destruct Hc as (assoc & par' & pb' & pe' & Hsub).
  clear H. unfold all_divs. induction Hsub as [|c cs0 rs _ IHs|c x cs0 rs Hx _ IHs]; [reflexivity | |];
    cbn [forallb] in Hs; apply andb_true_iff in Hs as [Hs1 Hs2]; [apply IHs, Hs2|].
  cbn [forallb]. rewrite (IHs Hs2), andb_true_r. apply andb_true_iff in Hs1 as [Hk1 _].
  destruct (proc_inv _ _ _ _ _ _ _ _ _ Hx) as [Hkx _]. unfold is_kind in *. rewrite Hkx. exact Hk1.
Qed.
Lemma proc_region_strict d t sel r res :
  e_kind (eattrs r) = KRegion -> match d_body d with Some b => src_body_ok b = true | None => True end ->
  proc_region d t sel r = Ok (Some res) ->
  (Z.of_nat (length (echildren res)) <=? 1) && forallb (fun b => all_divs (echildren b)) (echildren res) = true.
Proof.
  intros Hk Hb H. unfold proc_region in H. destruct (negb (active_at t _)); [discriminate|].
  destruct (style_phase d t _ None _) as [st|]; [|discriminate]. cbn [bind] in H.
  destruct (display_none st); [discriminate|].
  match type of H with bind ?g _ = _ => destruct g as [children|] eqn:Eg end; [|discriminate]. cbn [bind] in H.
  destruct (finish_element_kind _ _ _ _ H) as [_ Hc]. rewrite Hk in Hc. rewrite Hc.
  destruct (d_body d) as [b|]; [|injection Eg as <-; reflexivity].
  destruct (proc d t sel None _ None None b) as [[x|]|] eqn:Eb; cbn [bind] in Eg; try discriminate; injection Eg as <-; [|reflexivity].
  cbn [length forallb]. rewrite (proc_body_divs _ _ _ _ _ _ _ _ _ Hb Eb). reflexivity.
Qed.
Theorem isd_strict d t rs : doc_block_wf d = true -> isd d t = Ok rs -> strict_shape rs = true.
Proof.
  unfold doc_block_wf. intros Hw H. apply andb_true_iff in Hw as [Hr Hb].
  assert (Hb' : match d_body d with Some b => src_body_ok b = true | None => True end) by (destruct (d_body d); [exact Hb | exact I]).
  assert (G : forall (l : list elem) (sel : elem -> option text) rs0,
              (forall r, In r l -> e_kind (eattrs r) = KRegion) ->
              collect_regions (map (fun r => proc_region d t (sel r) r) l) = Ok rs0 -> strict_shape rs0 = true).
  { induction l as [|r l IH]; intros sel rs0 Hl Hc; cbn [map collect_regions] in Hc.
    - injection Hc as <-. reflexivity.
    - destruct (proc_region d t (sel r) r) as [o|] eqn:Ep; [|discriminate]. cbn [bind] in Hc.
      destruct (collect_regions (map (fun r0 => proc_region d t (sel r0) r0) l)) as [xs|] eqn:Ex; [|discriminate]. cbn [bind] in Hc.
      injection Hc as <-. specialize (IH sel xs (fun r' Hr' => Hl r' (or_intror Hr')) Ex).
      destruct o as [x|]; [|exact IH]. unfold strict_shape. cbn [forallb].
      rewrite (proc_region_strict d t (sel r) r x (Hl r (or_introl eq_refl)) Hb' Ep). exact IH. }
  unfold isd in H. destruct (d_regions d) as [|r0 l0] eqn:Er.
  - change [proc_region d t None default_region] with (map (fun r => proc_region d t ((fun _ => None) r) r) [default_region]) in H.
    apply (G [default_region] (fun _ => None) rs); [intros r [<-|[]]; reflexivity | exact H].
  - apply (G (r0 :: l0) (fun r => e_id (eattrs r)) rs); [|exact H]. intros r Hin. rewrite forallb_forall in Hr.
    apply kind_eqb_eq. apply (Hr r Hin).
Qed.
Lemma strict_shape_app a b : strict_shape (a ++ b) = strict_shape a && strict_shape b.
Proof. apply forallb_app. Qed.
Theorem isd_cached_strict d t rs : doc_block_wf d = true -> isd_cached d t = Ok rs -> strict_shape rs = true.
Proof.
  intros Hw H. unfold isd_cached in H. destruct (cached_docs d) as [ds|] eqn:Ed; [|discriminate]. cbn [bind] in H.
  pose proof (cached_docs_wf d ds Hw Ed) as Hds. clear Ed. revert rs H. induction ds as [|c ds IH]; intros rs H; cbn [isd_cached_docs] in H.
  - injection H as <-. reflexivity.
  - inversion Hds as [|? ? Hc Hds']; subst. destruct (skip_cached t (content_interval c)); [exact (IH Hds' rs H)|].
    destruct (isd c t) as [r1|] eqn:E1; [|discriminate]. cbn [bind] in H.
    destruct (isd_cached_docs t ds) as [r2|] eqn:E2; [|discriminate]. cbn [bind] in H. injection H as <-.
    rewrite strict_shape_app, (isd_strict c t r1 Hc E1), (IH Hds' r2 eq_refl). reflexivity.
Qed.
Theorem sequence_strict d seq : doc_block_wf d = true -> isd_sequence d = Ok seq -> forallb (fun x => strict_shape (snd x)) seq = true.
Proof.
  intros Hw H. destruct (sequence_spec d seq H) as (l & _ & _ & Hf). apply forallb_forall. intros x Hx.
  rewrite Forall_forall in Hf. exact (isd_cached_strict d (fst x) (snd x) Hw (Hf x Hx)).
Qed.

(* ---- SubRip cues never overlap ---------------------------------------------------------------------------------------------------- *)
Definition single_ok (t : Q) (next : option Q) (regions : list elem) (cs : list cue) : Prop :=
  Forall (times_ok t next) cs /\ Forall (kept srt_blank) cs /\ (length cs <= 1)%nat.

Lemma srt_loop_single fmt : forall seq n cs,
  forallb (fun x => strict_shape (snd x)) seq = true -> srt_loop fmt seq n = Ok cs -> cue_groups single_ok seq cs.
Proof.
  induction seq as [|[t regions] seq IH]; intros n cs Hs H; cbn [srt_loop] in H.
  - injection H as <-. constructor.
  - cbn [forallb snd] in Hs. apply andb_true_iff in Hs as [Hs1 Hs2].
    destruct (q_ms t) as [b|] eqn:Eb; [|discriminate]. cbn [bind] in H.
    fold (next_time seq) in H. destruct (oq_ms (next_time seq)) as [en|] eqn:Een; [|discriminate]. cbn [bind] in H.
    destruct (srt_add_isd fmt b en (apply_filters srt_filters regions) n) as [x n1] eqn:Ex.
    destruct (srt_loop fmt seq n1) as [rest|] eqn:Er; [|discriminate]. cbn [bind] in H. injection H as <-.
    constructor; [|exact (IH _ _ Hs2 Er)].
    destruct (srt_add_isd_spec _ _ _ _ _ _ _ Ex) as [Hat _]. apply q_ms_round in Eb. apply oq_ms_round in Een. subst b en.
    split; [|split; [|exact (srt_snapshot_single _ _ _ _ _ _ _ Hs1 Ex)]].
    + eapply Forall_impl; [|exact Hat]. intros c (Hc1 & Hc2 & _). split; [exact Hc1|]. destruct (next_time seq); cbn [option_map] in Hc2; [exact Hc2 | right; exact Hc2].
    + eapply Forall_impl; [|exact Hat]. intros c (_ & _ & Hc). exact Hc.
Qed.
Lemma finish_single fill : forall seq cs, cue_groups single_ok seq cs -> cue_groups single_ok seq (finish_cues fill srt_blank cs).
Proof.
  intros seq cs G. induction G as [|t regions seq cs rest (Hr & Hk & Hl) G IH]; [constructor|].
  destruct rest as [|r0 rest'].
  - rewrite app_nil_r. rewrite <- (app_nil_r (finish_cues fill srt_blank cs)). constructor; [|exact G].
    destruct (finish_last_group fill srt_blank t (next_time seq) (cue_blank_items _ _) cs Hr Hk) as (F1 & F2 & F3).
    split; [exact F1|]. split; [exact F2|]. rewrite <- (map_length cue_chars), F3, map_length. exact Hl.
  - rewrite finish_cues_app by discriminate. constructor; [|exact IH].
    destruct (next_time seq) as [t'|] eqn:En; [|destruct seq as [|[t1 r1] seq']; [inversion G | discriminate En]].
    assert (E : map (fun c => if fill then default_end c else c) cs = cs).
    { destruct fill; [|apply map_id]. clear - Hr. induction cs as [|c cs IHc]; [reflexivity|]. inversion Hr as [|? ? Hc Hcs]; subst.
      cbn [map]. rewrite (default_end_bounded _ _ _ Hc), (IHc Hcs). reflexivity. }
    rewrite E. split; [exact Hr|]. split; assumption.
Qed.

(* an earlier cue ends no later than a later cue begins *)
Definition strictly_before (c1 c2 : cue) : Prop := forall e1, c_end c1 = Some e1 -> e1 <= c_begin c2.

Theorem single_groups_ordered : forall seq cs, cue_groups single_ok seq cs -> StronglySorted Qlt (map fst seq) ->
  Forall (fun c => c_end c <> None) cs -> ForallOrdPairs strictly_before cs.
Proof.
  intros seq cs G. induction G as [|t regions seq cs rest (Hr & _ & Hl) G IH]; intros Hs Hne; [constructor|].
  cbn [map fst] in Hs. inversion Hs as [|? ? Hs' Hlt]; subst. apply Forall_app in Hne as [Hne1 Hne2]. apply FOP_app; [|exact (IH Hs' Hne2)|].
  - destruct cs as [|c [|c' cs']]; [constructor | constructor; constructor | cbn [length] in Hl; lia].
  - intros c1 c2 H1 H2 e1 E1. rewrite Forall_forall in Hr. destruct (Hr c1 H1) as [_ He1].
    destruct seq as [|[t1 r1] seq'] eqn:Eseq; [inversion G; subst; destruct H2|].
    cbn [next_time] in He1. rewrite E1 in He1. injection He1 as ->.
    assert (G' : cue_groups times_only ((t1, r1) :: seq') rest) by (eapply cue_groups_impl; [|exact G]; intros ? ? ? ? [Hx _]; exact Hx).
    pose proof (groups_lower_bound _ _ G' Hs' t1 (ex_intro _ r1 (ex_intro _ seq' eq_refl))) as L. rewrite Forall_forall in L. apply L, H2.
Qed.

Theorem srt_cues_strict d fmt seq cs ss :
  doc_block_wf d = true -> isd_sequence d = Ok seq -> srt_cues fmt seq = Ok cs -> srt_strings 1 cs = Ok ss ->
  ForallOrdPairs strictly_before cs.
Proof.
  intros Hw Hd Hc Hs. unfold srt_cues in Hc. destruct (srt_loop fmt seq 0) as [cs0|] eqn:E; [|discriminate]. cbn [bind] in Hc.
  injection Hc as <-. apply (single_groups_ordered seq).
  - apply finish_single. exact (srt_loop_single fmt seq 0 cs0 (sequence_strict d seq Hw Hd) E).
  - exact (sequence_sorted d seq Hd).
  - eapply Forall_impl; [|exact (srt_strings_spans _ _ _ Hs)]. intros c (e & He & _). rewrite He. discriminate.
Qed.

(* ---- every cue gets an end: the writers fail only on a collapsed interval ------------------------------------------------------ *)
Definition has_end (c : cue) : Prop := c_end c <> None.
Lemma default_end_has_end c : has_end (default_end c).
Proof. unfold has_end, default_end. destruct (c_end c) eqn:E; [rewrite E|]; discriminate. Qed.
Lemma has_end_unbounded cs : Forall has_end cs -> trig_unbounded cs = false.
Proof.
  intros H. unfold trig_unbounded. apply not_true_iff_false. intros E. apply existsb_exists in E as (c & Hc & E).
  rewrite Forall_forall in H. specialize (H c Hc). unfold has_end in H. destruct (c_end c); [discriminate | contradiction].
Qed.
(* WebVTT: finish() reaches every cue *)
Lemma finish_all_ends blank : forall cs, Forall (fun c => blank c = false) cs -> Forall has_end (finish_cues true blank cs).
Proof.
  induction cs as [|c cs IH]; intros H; [constructor|]. inversion H as [|? ? Hc Hcs]; subst. destruct cs as [|c' cs'].
  - cbn [finish_cues]. destruct (c_end c) eqn:E; [constructor; [unfold has_end; rewrite E; discriminate | constructor]|].
    rewrite Hc. constructor; [apply default_end_has_end | constructor].
  - rewrite finish_cues_cons. constructor; [apply default_end_has_end | apply IH, Hcs].
Qed.
Theorem vtt_cues_bounded cfg seq cs css : vtt_cues cfg seq = Ok (cs, css) -> trig_unbounded cs = false.
Proof.
  intros H. unfold vtt_cues in H. destruct (vtt_filters cfg) as [fs|] eqn:Hfs; [|discriminate].
  destruct (vtt_loop cfg fs seq (mkVttState 0 [])) as [[cs0 st]|] eqn:E; [|discriminate]. cbn [bind fst snd] in H. injection H as <- _.
  apply has_end_unbounded, finish_all_ends.
  pose proof (vtt_loop_spec cfg fs seq _ cs0 st E) as B. clear - B.
  induction B as [|t regions seq b en cs rest _ _ [Hat _] _ IH]; [constructor|]. apply Forall_app. split; [|exact IH].
  eapply Forall_impl; [|exact Hat]. intros x (_ & _ & Hx & _). exact Hx.
Qed.
(* SubRip: finish() looks at the last cue only, and the unbounded last interval has at most one *)
Lemma finish_single_ends : forall seq cs, cue_groups single_ok seq cs -> Forall has_end (finish_cues false srt_blank cs).
Proof.
  intros seq cs G. induction G as [|t regions seq cs rest (Hr & Hk & Hl) G IH]; [constructor|].
  destruct rest as [|r0 rest'].
  - rewrite app_nil_r. destruct cs as [|c [|c' cs']]; [constructor | | cbn [length] in Hl; lia].
    cbn [finish_cues]. inversion Hk as [|? ? [Kc _] _]; subst. destruct (c_end c) eqn:E; [constructor; [unfold has_end; rewrite E; discriminate | constructor]|].
    rewrite Kc. constructor; [apply default_end_has_end | constructor].
  - rewrite finish_cues_app by discriminate. rewrite map_id. apply Forall_app. split; [|exact IH].
    destruct (next_time seq) as [t'|] eqn:En; [|destruct seq as [|[t1 r1] seq']; [inversion G | discriminate En]].
    eapply Forall_impl; [|exact Hr]. intros c [_ Hc]. unfold has_end. rewrite Hc. discriminate.
Qed.
Theorem srt_cues_bounded d fmt seq cs :
  doc_block_wf d = true -> isd_sequence d = Ok seq -> srt_cues fmt seq = Ok cs -> trig_unbounded cs = false.
Proof.
  intros Hw Hd Hc. unfold srt_cues in Hc. destruct (srt_loop fmt seq 0) as [cs0|] eqn:E; [|discriminate]. cbn [bind] in Hc.
  injection Hc as <-. apply has_end_unbounded, (finish_single_ends seq). exact (srt_loop_single fmt seq 0 cs0 (sequence_strict d seq Hw Hd) E).
Qed.
(* hence: the writers return a string unless an interval collapses after rounding to the millisecond *)
Theorem vtt_total_collapsed cfg seq cs css : vtt_cues cfg seq = Ok (cs, css) -> trig_collapsed cs = false -> exists out, vtt_of_seq cfg (Ok seq) = Ok out.
Proof. intros Hc H1. exact (vtt_total cfg seq cs css Hc H1 (vtt_cues_bounded cfg seq cs css Hc)). Qed.
Theorem srt_total_collapsed d fmt seq cs :
  doc_block_wf d = true -> isd_sequence d = Ok seq -> srt_cues fmt seq = Ok cs -> trig_collapsed cs = false -> exists out, srt_of_seq fmt (Ok seq) = Ok out.
Proof. intros Hw Hd Hc H1. exact (srt_total fmt seq cs Hc H1 (srt_cues_bounded d fmt seq cs Hw Hd Hc)). Qed.
