(* C07: & and < in text are escaped in WebVTT — what a content character prints as. *)
From TT Require Import Model.Doc Model.Isd Model.SigTimes Model.TimeCode Model.IsdFilters Gen.CueTables Model.CueWriter Spec.CueSpec.

Definition amp_ref : text := [38; 97; 109; 112; 59].   (* &amp; *)
Definition lt_ref : text := [38; 108; 116; 59].        (* &lt; *)

Theorem esc_vtt_cases c :
  (c = 38 /\ esc_vtt c = amp_ref) \/ (c = 60 /\ esc_vtt c = lt_ref) \/ (c <> 38 /\ c <> 60 /\ esc_vtt c = [c]).
Proof.
  unfold esc_vtt. destruct (c =? 38) eqn:E1; [left; split; [lia | reflexivity]|].
  destruct (c =? 60) eqn:E2; [right; left; split; [lia | reflexivity]|]. right. right. repeat split; lia.
Qed.
(* the printed form of content never holds "<", and holds "&" only as the first character of &amp; or &lt; *)
Theorem esc_vtt_no_markup c : ~ In 60 (esc_vtt c) /\ (In 38 (esc_vtt c) -> esc_vtt c = amp_ref \/ esc_vtt c = lt_ref).
Proof.
  destruct (esc_vtt_cases c) as [[-> E]|[[-> E]|(H1 & H2 & E)]]; rewrite E; split.
  - cbn. intros [H|[H|[H|[H|[H|[]]]]]]; discriminate.
  - intros _. left. reflexivity.
  - cbn. intros [H|[H|[H|[H|[]]]]]; discriminate.
  - intros _. right. reflexivity.
  - cbn. intros [H|[]]. congruence.
  - cbn. intros [H|[]]. congruence.
Qed.
(* chars_of undoes the escaping: decoding &amp; and &lt; gives the character back (the decoder of Spec/CueSpec.v is vtt_escape) *)
Theorem esc_vtt_decodes c :
  match esc_vtt c with
  | 38 :: r => exists name, r = name ++ [59] /\ vtt_escape name = Some c
  | _ => esc_vtt c = [c]
  end.
Proof.
  destruct (esc_vtt_cases c) as [[-> E]|[[-> E]|(H1 & H2 & E)]]; rewrite E.
  - exists [97; 109; 112]. split; reflexivity.
  - exists [108; 116]. split; reflexivity.
  - destruct c as [|p|p]; try reflexivity. repeat (destruct p as [p|p|]; try reflexivity); congruence.
Qed.
