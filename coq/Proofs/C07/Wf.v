(* C07: the SubRip file the model prints is accepted by the file-level recogniser srt_wf of Spec/CueSpec.v — lines, blocks, counter
   line, timing line read back to the very millisecond counts, payload lines, counters 1, 2, 3, ..., begin < end, order, tags —
   outside the recorded findings (a payload line that is blank or holds "-->": blank-looking-line-in-payload, arrow-in-payload), for
   payloads without carriage return and without "<" in the text (SubRip has no escape mechanism), and for numbers within the digits
   the model's printers provide (fuel: 40 digits for counters, 20 for hours). *)
From Coq Require Import Sorting.Sorted.
From TT Require Import Model.Doc Gen.StyleTables Model.Isd Model.SigTimes Model.TimeCode Model.IsdFilters Gen.CueTables Model.CueWriter.
From TT Require Import Model.CueTriggers Spec.IsdSpec Spec.CueSpec Proofs.C12.Derived.
From TT Require Import Proofs.C06.Filters Proofs.C06.Inline Proofs.C06.Strip Proofs.C06.Loop Proofs.C06.Text Proofs.C06.Shape Proofs.C07.Order Proofs.C07.Single Proofs.C07.Runs Proofs.C06.Fixed.

(* ---- decimal digits --------------------------------------------------------------------------------------------------------------- *)
Lemma digits_fuel_app : forall f n acc, digits_fuel f n acc = digits_fuel f n [] ++ acc.
Proof.
  induction f as [|f IH]; intros n acc; [reflexivity|]. cbn [digits_fuel]. destruct (n <? 10); [reflexivity|].
  rewrite (IH (n / 10) (digit (n mod 10) :: acc)), (IH (n / 10) [digit (n mod 10)]), <- app_assoc. reflexivity.
Qed.
Lemma num_of_app : forall x y a, num_of a (x ++ y) = num_of (num_of a x) y.
Proof. induction x as [|c x IH]; intros y a; [reflexivity|]. cbn [app num_of]. apply IH. Qed.
Lemma is_dig_digit d : 0 <= d <= 9 -> is_dig (digit d) = true.
Proof. intros H. unfold is_dig, digit. lia. Qed.
Definition dec_ok (n : Z) (t : text) : Prop :=
  forallb is_dig t = true /\ num_of 0 t = n /\ t <> [] /\ (1 <= n -> hd 0 t <> 48) /\ (n = 0 -> t = [48]).
Lemma digits_fuel_ok : forall f n, 0 <= n < 10 ^ Z.of_nat (S f) -> dec_ok n (digits_fuel (S f) n []).
Proof.
  induction f as [|f IH]; intros n H.
  - change (10 ^ Z.of_nat 1) with 10 in H. cbn [digits_fuel]. replace (n <? 10) with true by lia.
    repeat split; [cbn [forallb]; rewrite is_dig_digit by lia; reflexivity | unfold digit; cbn [num_of]; lia | discriminate | cbn [hd]; unfold digit; lia | intros ->; reflexivity].
  - change (digits_fuel (S (S f)) n []) with (if n <? 10 then [digit n] else digits_fuel (S f) (n / 10) [digit (n mod 10)]).
    destruct (n <? 10) eqn:E.
    + repeat split; [cbn [forallb]; rewrite is_dig_digit by lia; reflexivity | unfold digit; cbn [num_of]; lia | discriminate | cbn [hd]; unfold digit; lia | intros ->; reflexivity].
    + assert (Hq : 0 <= n / 10 < 10 ^ Z.of_nat (S f)).
      { rewrite Nat2Z.inj_succ, Z.pow_succ_r in H by lia. split; [lia|]. apply Z.div_lt_upper_bound; lia. }
      destruct (IH (n / 10) Hq) as (D1 & D2 & D3 & D4 & D5). rewrite digits_fuel_app. generalize dependent (digits_fuel (S f) (n / 10) []). intros t D1 D2 D3 D4 D5.
      repeat split.
      * rewrite forallb_app, D1. cbn [forallb]. rewrite is_dig_digit by lia. reflexivity.
      * rewrite num_of_app, D2. unfold digit. cbn [num_of]. lia.
      * intros E0. apply app_eq_nil in E0 as [_ E0]. discriminate.
      * intros _. destruct t as [|c t]; [contradiction|]. cbn [app hd]. cbn [hd] in D4. apply D4. lia.
      * intros ->. discriminate.
Qed.
Lemma print_z_ok k : 0 <= k < 10 ^ 40 -> dec_ok k (print_z k).
Proof. intros H. unfold print_z. replace (k <? 0) with false by lia. exact (digits_fuel_ok 39 k H). Qed.

Lemma pad3_three n : 0 <= n < 1000 -> pad3 n = [digit (n / 100); digit ((n / 10) mod 10); digit (n mod 10)].
Proof.
  intros H. unfold pad3. destruct (n <? 10) eqn:E1.
  - replace (n / 100) with 0 by lia. replace (n / 10) with 0 by lia. replace (n mod 10) with n by lia. reflexivity.
  - destruct (n <? 100) eqn:E2.
    + cbn [digits_fuel]. rewrite E1. replace (n / 10 <? 10) with true by lia. replace (n / 100) with 0 by lia.
      replace ((n / 10) mod 10) with (n / 10) by lia. reflexivity.
    + cbn [digits_fuel]. rewrite E1. replace (n / 10 <? 10) with false by lia. replace (n / 10 / 10 <? 10) with true by lia.
      replace (n / 10 / 10) with (n / 100) by lia. reflexivity.
Qed.
Lemma pad2_ok n : 0 <= n < 10 ^ 20 -> forallb is_dig (pad2 n) = true /\ num_of 0 (pad2 n) = n /\ (2 <= length (pad2 n))%nat.
Proof.
  intros H. unfold pad2. destruct (n <? 10) eqn:E.
  - cbn [forallb num_of length]. rewrite is_dig_digit by lia. unfold digit. split; [reflexivity|]. split; lia.
  - destruct (digits_fuel_ok 19 n H) as (D1 & D2 & D3 & _). split; [exact D1|]. split; [exact D2|].
    change (digits_fuel 20 n []) with (if n <? 10 then [digit n] else digits_fuel 19 (n / 10) [digit (n mod 10)]). rewrite E.
    rewrite digits_fuel_app, app_length. cbn [length].
    assert (Hq : 0 <= n / 10 < 10 ^ Z.of_nat 19) by (split; [lia | apply Z.div_lt_upper_bound; lia]).
    destruct (digits_fuel_ok 18 (n / 10) Hq) as (_ & _ & D3' & _). destruct (digits_fuel 19 (n / 10) []); [contradiction | cbn [length]; lia].
Qed.

(* ---- timestamps --------------------------------------------------------------------------------------------------------------------- *)
Lemma take_pred_app f : forall a b, forallb f a = true -> (match b with c :: _ => f c = false | [] => True end) -> take_pred f (a ++ b) = a.
Proof.
  induction a as [|c a IH]; intros b Ha Hb.
  - destruct b as [|c b]; [reflexivity|]. cbn [app take_pred]. rewrite Hb. reflexivity.
  - cbn [forallb] in Ha. apply andb_true_iff in Ha as [H1 H2]. cbn [app take_pred]. rewrite H1, (IH b H2 Hb). reflexivity.
Qed.
Lemma skipn_app_len {A} (a b : list A) : skipn (length a) (a ++ b) = b.
Proof. induction a; [reflexivity | exact IHa]. Qed.
Definition ms_ok (ms : Z) : Prop := 0 <= ms < 3600000 * 10 ^ 20.
Lemma parse_print_ts sep ms rest : ms_ok ms -> (match rest with c :: _ => is_dig c = false | [] => True end) ->
  parse_ts sep (print_ms sep ms ++ rest) = Some (ms, rest).
Proof.
  intros [H0 H1] Hr. unfold print_ms, print_clock, clock_fields.
  assert (Hh : 0 <= ms / 3600000 < 10 ^ 20) by (split; [lia | apply Z.div_lt_upper_bound; lia]).
  destruct (pad2_ok _ Hh) as (P1 & P2 & P3).
  rewrite (pad2_two ((ms / 60000) mod 60)), (pad2_two ((ms / 1000) mod 60)), (pad3_three (ms mod 1000)) by lia.
  set (hh := pad2 (ms / 3600000)) in *. unfold parse_ts. rewrite <- !app_assoc. cbn [app].
  rewrite (take_pred_app is_dig hh) by (exact P1 || reflexivity).
  replace (length hh <? 2)%nat with false by (symmetry; apply Nat.ltb_ge; exact P3).
  rewrite skipn_app_len. unfold colon. rewrite !Z.eqb_refl. cbn [andb forallb].
  rewrite !is_dig_digit by lia. cbn [andb]. unfold digit. cbn [num_of]. rewrite P2.
  replace (((0 * 10 + (48 + (ms / 60000) mod 60 / 10 - 48)) * 10 + (48 + ((ms / 60000) mod 60) mod 10 - 48)) <? 60) with true by lia.
  replace (((0 * 10 + (48 + (ms / 1000) mod 60 / 10 - 48)) * 10 + (48 + ((ms / 1000) mod 60) mod 10 - 48)) <? 60) with true by lia.
  cbn [andb]. f_equal. f_equal. lia.
Qed.

Lemma print_ms_head sep ms : ms_ok ms -> exists c t, print_ms sep ms = c :: t /\ is_dig c = true.
Proof.
  intros [H0 H1]. unfold print_ms, print_clock, clock_fields.
  assert (Hh : 0 <= ms / 3600000 < 10 ^ 20) by (split; [lia | apply Z.div_lt_upper_bound; lia]).
  destruct (pad2_ok _ Hh) as (P1 & _ & P3). destruct (pad2 (ms / 3600000)) as [|c t]; [cbn in P3; lia|].
  cbn [forallb] in P1. apply andb_true_iff in P1 as [P1 _]. eexists. eexists. split; [reflexivity | exact P1].
Qed.
(* the timing line "begin --> end" is read back to the two millisecond counts *)
Lemma parse_print_timing sep b e : ms_ok b -> ms_ok e ->
  parse_timing sep (print_ms sep b ++ arrow ++ print_ms sep e) = Some (b, e, []).
Proof.
  intros Hb He. unfold parse_timing. rewrite (parse_print_ts sep b _ Hb) by reflexivity.
  destruct (print_ms_head sep e He) as (c & t & Ee & Hc).
  assert (Hbl : is_blank_sp c = false).
  { unfold is_dig in Hc. unfold is_blank_sp. apply andb_true_iff in Hc as [H1 H2]. apply orb_false_iff. split; apply Z.eqb_neq; lia. }
  set (pe := print_ms sep e) in *.
  assert (R2 : drop_pred is_blank_sp (arrow ++ pe) = 45 :: 45 :: 62 :: 32 :: pe) by reflexivity. rewrite R2.
  assert (L1 : Nat.ltb (length (45 :: 45 :: 62 :: 32 :: pe)) (length (arrow ++ pe)) = true) by (apply Nat.ltb_lt; cbn [arrow app length]; lia). rewrite L1.
  assert (P : has_prefix arrow3 (45 :: 45 :: 62 :: 32 :: pe) = true) by reflexivity. rewrite P. cbn [andb].
  assert (R3 : skipn 3 (45 :: 45 :: 62 :: 32 :: pe) = 32 :: pe) by reflexivity. rewrite R3.
  assert (R4 : drop_pred is_blank_sp (32 :: pe) = pe) by (rewrite Ee; cbn [drop_pred is_blank_sp Z.eqb Pos.eqb orb]; rewrite Hbl; reflexivity). rewrite R4.
  assert (L2 : Nat.ltb (length pe) (length (32 :: pe)) = true) by (apply Nat.ltb_lt; cbn [length]; lia). rewrite L2.
  unfold pe. rewrite <- (app_nil_r (print_ms sep e)), (parse_print_ts sep e [] He I). reflexivity.
Qed.

(* ---- lines --------------------------------------------------------------------------------------------------------------------------- *)
Definition no_cr (t : text) : Prop := ~ In 13 t.
Lemma split_lines_go_app : forall x cur rest, no_cr x -> split_lines_go cur (x ++ 10 :: rest) = split_lines_go cur x ++ split_lines_go [] rest.
Proof.
  induction x as [|c x IH]; intros cur rest H; [reflexivity|]. cbn [app split_lines_go].
  assert (Hx : no_cr x) by (intros Hi; apply H; right; exact Hi).
  destruct (c =? 10) eqn:E1; [rewrite (IH [] rest Hx); reflexivity|].
  replace (c =? 13) with false by (symmetry; apply Z.eqb_neq; intros ->; apply H; left; reflexivity). exact (IH (c :: cur) rest Hx).
Qed.
Definition no_eol_t (t : text) : Prop := forall x, In x t -> x <> 10 /\ x <> 13.
Lemma split_lines_go_plain : forall x cur, no_eol_t x -> split_lines_go cur x = [rev cur ++ x].
Proof.
  induction x as [|c x IH]; intros cur H; [cbn; rewrite app_nil_r; reflexivity|]. destruct (H c (or_introl eq_refl)) as [H1 H2].
  cbn [split_lines_go]. replace (c =? 10) with false by (symmetry; apply Z.eqb_neq; exact H1).
  replace (c =? 13) with false by (symmetry; apply Z.eqb_neq; exact H2).
  rewrite IH by (intros y Hy; apply H; right; exact Hy). cbn [rev]. rewrite <- app_assoc. reflexivity.
Qed.
Lemma no_eol_no_cr t : no_eol_t t -> no_cr t.
Proof. intros H Hi. destruct (H 13 Hi) as [_ E]. apply E. reflexivity. Qed.
Lemma split_lines_line x rest : no_eol_t x -> split_lines (x ++ 10 :: rest) = x :: split_lines rest.
Proof. intros H. unfold split_lines. rewrite split_lines_go_app by (apply no_eol_no_cr, H). rewrite split_lines_go_plain by exact H. reflexivity. Qed.
(* joining the lines of a text without carriage return gives the text back *)
Lemma join_lines_go : forall x cur, no_cr x ->
  (fix join (l : list text) : text := match l with [] => [] | [y] => y | y :: l' => y ++ 10 :: join l' end) (split_lines_go cur x) = rev cur ++ x.
Proof.
  induction x as [|c x IH]; intros cur H; [cbn; rewrite app_nil_r; reflexivity|].
  assert (Hx : no_cr x) by (intros Hi; apply H; right; exact Hi). cbn [split_lines_go].
  destruct (c =? 10) eqn:E1.
  - apply Z.eqb_eq in E1. subst c. specialize (IH [] Hx). cbn [rev app] in IH.
    destruct (split_lines_go [] x) as [|y l] eqn:Es; [destruct x; discriminate Es || (cbn in Es; destruct (z =? 10); try discriminate; destruct (z =? 13); discriminate)|].
    rewrite IH. reflexivity.
  - replace (c =? 13) with false by (symmetry; apply Z.eqb_neq; intros ->; apply H; left; reflexivity).
    rewrite (IH (c :: cur) Hx). cbn [rev]. rewrite <- app_assoc. reflexivity.
Qed.

(* ---- blocks --------------------------------------------------------------------------------------------------------------------------- *)
Lemma split_lines_go_nonempty : forall x cur, split_lines_go cur x <> [].
Proof. induction x as [|c x IH]; intros cur; cbn [split_lines_go]; [discriminate|]. destruct (c =? 10); [discriminate|]. destruct (c =? 13); [discriminate | apply IH]. Qed.
Definition group_ok (G : list text) : Prop := G <> [] /\ forallb (fun l => negb (srt_blank_line l)) G = true.
Lemma take_block_group G rest : forallb (fun l => negb (srt_blank_line l)) G = true -> take_block srt_blank_line (G ++ [] :: rest) = (G, [] :: rest).
Proof.
  induction G as [|g G IH]; intros H; [reflexivity|]. cbn [forallb] in H. apply andb_true_iff in H as [H1 H2]. apply negb_true_iff in H1.
  cbn [app take_block]. rewrite H1, (IH H2). reflexivity.
Qed.
Lemma blocks_fuel_skip k X : blocks_fuel (S k) srt_blank_line ([] :: X) = blocks_fuel (S k) srt_blank_line X.
Proof. reflexivity. Qed.
Lemma blocks_groups : forall Gs fuel, Forall group_ok Gs -> (length Gs < fuel)%nat ->
  blocks_fuel fuel srt_blank_line (flat_map (fun G => G ++ [[]]) Gs) = Gs.
Proof.
  induction Gs as [|G Gs IH]; intros fuel H Hf.
  - destruct fuel; reflexivity.
  - inversion H as [|? ? [Hne Hnb] HGs]; subst. destruct fuel as [|k]; [cbn in Hf; lia|]. cbn [flat_map]. rewrite <- app_assoc. cbn [app].
    destruct G as [|g G']; [contradiction|]. cbn [blocks_fuel app drop_blank].
    pose proof Hnb as Hnb'. cbn [forallb] in Hnb'. apply andb_true_iff in Hnb' as [Hg _]. apply negb_true_iff in Hg. rewrite Hg.
    change (g :: G' ++ [] :: flat_map (fun G => G ++ [[]]) Gs) with ((g :: G') ++ [] :: flat_map (fun G => G ++ [[]]) Gs).
    rewrite (take_block_group (g :: G') _ Hnb). f_equal.
    destruct k as [|k']; [cbn in Hf; destruct Gs; [reflexivity | cbn in Hf; lia]|].
    rewrite blocks_fuel_skip. apply IH; [exact HGs | cbn [length] in Hf; lia].
Qed.

(* ---- one record: counter line, timing line, payload ------------------------------------------------------------------------------------ *)
Record srec := mkRec { sr_k : Z ; sr_b : Z ; sr_e : Z ; sr_t : text }.
Definition sr_string (r : srec) : text :=
  print_z (sr_k r) ++ [10] ++ print_ms 44 (sr_b r) ++ arrow ++ print_ms 44 (sr_e r) ++ [10] ++ sr_t r ++ [10].
Definition sr_timing (r : srec) : text := print_ms 44 (sr_b r) ++ arrow ++ print_ms 44 (sr_e r).
Definition sr_group (r : srec) : list text := [print_z (sr_k r); sr_timing r] ++ split_lines (sr_t r).
Definition payload_ok (t : text) : Prop :=
  no_cr t /\ forallb (fun l => negb (srt_blank_line l) && negb (contains arrow3 l)) (split_lines t) = true /\ srt_runs t <> None.
Definition srec_ok (r : srec) : Prop := 0 <= sr_k r < 10 ^ 40 /\ ms_ok (sr_b r) /\ ms_ok (sr_e r) /\ payload_ok (sr_t r).

Lemma dig_not_eol t : forallb is_dig t = true -> no_eol_t t.
Proof. intros H x Hx. rewrite forallb_forall in H. specialize (H x Hx). unfold is_dig in H. lia. Qed.
Lemma dig_not_blank t : t <> [] -> forallb is_dig t = true -> srt_blank_line t = false.
Proof. intros Hn H. destruct t as [|c t]; [contradiction|]. cbn [forallb] in *. apply andb_true_iff in H as [H _]. unfold srt_blank_line. cbn [forallb].
  replace (blank_char c) with false; [reflexivity|]. unfold is_dig in H. symmetry. apply not_true_iff_false. intros E. unfold blank_char in E.
  apply existsb_exists in E as (x & Hx & E). apply Z.eqb_eq in E. subst x. cbn [blank_points In] in Hx. lia. Qed.
Lemma print_ms_chars sep ms : ms_ok ms -> sep = 44 -> forall x, In x (print_ms sep ms) -> is_dig x = true \/ x = 58 \/ x = 44.
Proof.
  intros [H0 H1] -> x. unfold print_ms, print_clock, clock_fields.
  assert (Hh : 0 <= ms / 3600000 < 10 ^ 20) by (split; [lia | apply Z.div_lt_upper_bound; lia]).
  destruct (pad2_ok _ Hh) as (P1 & _ & _).
  rewrite (pad2_two ((ms / 60000) mod 60)), (pad2_two ((ms / 1000) mod 60)), (pad3_three (ms mod 1000)) by lia.
  intros Hx. apply in_app_iff in Hx as [Hx|Hx]; [left; rewrite forallb_forall in P1; exact (P1 x Hx)|].
  cbn [app In colon] in Hx. repeat (destruct Hx as [<-|Hx]; [first [right; left; reflexivity | right; right; reflexivity | left; apply is_dig_digit; lia]|]). destruct Hx.
Qed.
Lemma sr_timing_no_eol r : ms_ok (sr_b r) -> ms_ok (sr_e r) -> no_eol_t (sr_timing r) /\ srt_blank_line (sr_timing r) = false.
Proof.
  intros Hb He. split.
  - intros x Hx. unfold sr_timing in Hx. apply in_app_iff in Hx as [Hx|Hx]; [|apply in_app_iff in Hx as [Hx|Hx]].
    + destruct (print_ms_chars 44 _ Hb eq_refl x Hx) as [H | [ -> | -> ] ]; [unfold is_dig in H; lia | split; discriminate | split; discriminate].
    + cbn [arrow In] in Hx. repeat (destruct Hx as [<-|Hx]; [split; discriminate|]). destruct Hx.
    + destruct (print_ms_chars 44 _ He eq_refl x Hx) as [H | [ -> | -> ] ]; [unfold is_dig in H; lia | split; discriminate | split; discriminate].
  - unfold sr_timing. destruct (print_ms_head 44 _ Hb) as (c & t & -> & Hc). cbn [app]. unfold srt_blank_line. cbn [forallb].
    replace (blank_char c) with false; [reflexivity|]. unfold is_dig in Hc. symmetry. apply not_true_iff_false. intros E. unfold blank_char in E.
    apply existsb_exists in E as (x & Hx & E). apply Z.eqb_eq in E. subst x. cbn [blank_points In] in Hx. lia.
Qed.

Lemma sr_group_ok r : srec_ok r -> group_ok (sr_group r).
Proof.
  intros (Hk & Hb & He & Hcr & Hl & _). split; [discriminate|]. unfold sr_group. cbn [app forallb].
  destruct (print_z_ok _ Hk) as (D1 & _ & D3 & _). rewrite (dig_not_blank _ D3 D1), (proj2 (sr_timing_no_eol r Hb He)). cbn [negb andb].
  apply forallb_forall. intros l Hin. rewrite forallb_forall in Hl. specialize (Hl l Hin). apply andb_true_iff in Hl as [Hl _]. exact Hl.
Qed.
Lemma sr_block_cue r : srec_ok r ->
  srt_block_cue (sr_group r) = Some (mkRCue (Some (print_z (sr_k r))) (sr_b r) (sr_e r) [] (split_lines (sr_t r))).
Proof.
  intros (Hk & Hb & He & Hcr & Hl & _). unfold sr_group, srt_block_cue. cbn [app].
  destruct (split_lines (sr_t r)) as [|p1 ps] eqn:Es; [exfalso; exact (split_lines_go_nonempty _ _ Es)|].
  destruct (print_z_ok _ Hk) as (D1 & _ & D3 & _).
  assert (A : all_digits (print_z (sr_k r)) = true) by (unfold all_digits; destruct (print_z (sr_k r)); [contradiction | exact D1]).
  rewrite A. unfold sr_timing. rewrite (parse_print_timing 44 _ _ Hb He). cbn [forallb andb].
  replace (existsb (contains arrow3) (p1 :: ps)) with false; [reflexivity|]. symmetry. apply not_true_iff_false. intros E.
  apply existsb_exists in E as (l & Hin & E). rewrite forallb_forall in Hl. specialize (Hl l Hin). rewrite E in Hl. rewrite andb_false_r in Hl. discriminate.
Qed.

(* ---- the file ---------------------------------------------------------------------------------------------------------------------------- *)
Lemma sr_string_lines r Z0 : srec_ok r ->
  split_lines (sr_string r ++ Z0) = [print_z (sr_k r); sr_timing r] ++ split_lines (sr_t r) ++ split_lines Z0.
Proof.
  intros (Hk & Hb & He & Hcr & _). unfold sr_string. destruct (print_z_ok _ Hk) as (D1 & _).
  rewrite <- !app_assoc. cbn [app]. rewrite split_lines_line by (apply dig_not_eol, D1).
  change (print_ms 44 (sr_b r) ++ arrow ++ print_ms 44 (sr_e r) ++ 10 :: sr_t r ++ 10 :: Z0)
    with (print_ms 44 (sr_b r) ++ arrow ++ print_ms 44 (sr_e r) ++ 10 :: (sr_t r ++ 10 :: Z0)).
  rewrite !app_assoc. rewrite <- (app_assoc (print_ms 44 (sr_b r))). fold (sr_timing r).
  rewrite split_lines_line by (apply (sr_timing_no_eol r Hb He)). unfold split_lines at 1. rewrite split_lines_go_app by exact Hcr. reflexivity.
Qed.
Lemma file_lines : forall rs, Forall srec_ok rs -> rs <> [] ->
  split_lines (join_text [10] (map sr_string rs)) = flat_map (fun G => G ++ [[]]) (map sr_group rs).
Proof.
  induction rs as [|r rs IH]; intros H Hne; [contradiction|]. inversion H as [|? ? Hr Hrs]; subst. destruct rs as [|r2 rs'].
  - cbn [map join_text flat_map]. rewrite <- (app_nil_r (sr_string r)), (sr_string_lines r [] Hr). unfold sr_group. rewrite <- !app_assoc, app_nil_r. reflexivity.
  - change (join_text [10] (map sr_string (r :: r2 :: rs'))) with (sr_string r ++ [10] ++ join_text [10] (map sr_string (r2 :: rs'))).
    rewrite (sr_string_lines r _ Hr). change (split_lines ([10] ++ join_text [10] (map sr_string (r2 :: rs'))))
      with ([] :: split_lines (join_text [10] (map sr_string (r2 :: rs')))). rewrite (IH Hrs) by discriminate.
    cbn [map flat_map]. unfold sr_group at 1. rewrite <- !app_assoc. reflexivity.
Qed.

Definition sr_cue (r : srec) : rcue := mkRCue (Some (print_z (sr_k r))) (sr_b r) (sr_e r) [] (split_lines (sr_t r)).
Theorem srt_parse_file rs : Forall srec_ok rs -> srt_parse (join_text [10] (map sr_string rs)) = Some (map sr_cue rs).
Proof.
  intros H. destruct rs as [|r0 rs0] eqn:Er; [reflexivity|]. rewrite <- Er in *. assert (Hne : rs <> []) by (rewrite Er; discriminate).
  unfold srt_parse. rewrite (file_lines rs H Hne).
  assert (HG : Forall group_ok (map sr_group rs)) by (apply Forall_forall; intros G HG; apply in_map_iff in HG as (r & <- & Hr); rewrite Forall_forall in H; apply sr_group_ok, H, Hr).
  assert (B : blocks srt_blank_line (flat_map (fun G => G ++ [[]]) (map sr_group rs)) = map sr_group rs).
  { unfold blocks. apply blocks_groups; [exact HG|]. rewrite map_length. apply Nat.lt_succ_r.
    clear. induction rs as [|r rs IH]; [apply Nat.le_0_l|]. cbn [map flat_map]. rewrite !app_length. cbn [length].
    apply le_n_S in IH. eapply Nat.le_trans; [exact IH|]. rewrite Nat.add_1_r, (Nat.add_comm (S _)), Nat.add_succ_r.
    apply le_n_S, Nat.le_add_r. }
  rewrite B. rewrite Er at 1. cbn [map flat_map]. unfold sr_group at 1. cbn [app].
  assert (Hr0 : srec_ok r0) by (rewrite Er in H; inversion H; assumption). destruct Hr0 as (Hk & _).
  destruct (print_z_ok _ Hk) as (D1 & _ & D3 & _). rewrite (dig_not_blank _ D3 D1). cbn [andb].
  rewrite map_map. clear - H. induction rs as [|r rs IH]; [reflexivity|]. inversion H; subst. cbn [map all_some]. rewrite sr_block_cue by assumption.
  rewrite IH by assumption. reflexivity.
Qed.

(* ---- srt_wf of a file of records ------------------------------------------------------------------------------------------------------ *)
Lemma payload_text_lines t : no_cr t -> payload_text (mkRCue None 0 0 [] (split_lines t)) = t.
Proof. intros H. unfold payload_text, split_lines. cbn [r_payload]. exact (join_lines_go t [] H). Qed.
Lemma counters_records : forall rs k, Forall srec_ok rs -> 1 <= k -> map sr_k rs = zseq k (length rs) -> counters_from k (map sr_cue rs) = true.
Proof.
  induction rs as [|r rs IH]; intros k H Hk Hs; [reflexivity|]. inversion H as [|? ? Hr Hrs]; subst. cbn [map length zseq] in Hs. injection Hs as E1 E2.
  cbn [map counters_from sr_cue r_ident]. destruct Hr as (Hr & _). destruct (print_z_ok _ Hr) as (D1 & D2 & D3 & D4 & _).
  assert (A : all_digits (print_z (sr_k r)) = true) by (unfold all_digits; destruct (print_z (sr_k r)); [contradiction | exact D1]).
  assert (P : has_prefix [48] (print_z (sr_k r)) = false).
  { destruct (print_z (sr_k r)) as [|c t]; [contradiction|]. cbn [has_prefix hd] in *. replace (48 =? c) with false; [reflexivity|].
    symmetry. apply Z.eqb_neq. intros E. apply D4; [lia | symmetry; exact E]. }
  rewrite A, D2, P, E1, Z.eqb_refl. cbn [andb negb]. apply IH; [exact Hrs | lia | exact E2].
Qed.
Lemma ordered_records : forall rs prev, Forall (fun r => sr_b r < sr_e r) rs ->
  (match prev with Some (pb, pe) => Forall (fun r => pe <= sr_b r) rs | None => True end) ->
  ForallOrdPairs (fun r1 r2 => sr_e r1 <= sr_b r2) rs -> ordered false prev (map sr_cue rs) = true.
Proof.
  induction rs as [|r rs IH]; intros prev H1 H2 H3; [reflexivity|]. inversion H1 as [|? ? Hr Hrs]; subst. inversion H3 as [|? ? Hfo Hop]; subst.
  cbn [map ordered sr_cue r_begin r_end]. replace (sr_b r <? sr_e r) with true by lia. cbn [andb].
  assert (P : match prev with Some (pb, pe) => (pe <=? sr_b r) || false && (pb =? sr_b r) && (pe =? sr_e r) | None => true end = true).
  { destruct prev as [[pb pe]|]; [|reflexivity]. inversion H2; subst. cbn [andb]. rewrite orb_false_r. apply Z.leb_le. assumption. }
  cbn [andb] in *. rewrite P. cbn [andb]. apply IH; [exact Hrs | exact Hfo | exact Hop].
Qed.
Theorem srt_wf_records rs : Forall srec_ok rs -> map sr_k rs = zseq 1 (length rs) -> Forall (fun r => sr_b r < sr_e r) rs ->
  ForallOrdPairs (fun r1 r2 => sr_e r1 <= sr_b r2) rs -> srt_wf (join_text [10] (map sr_string rs)) = true.
Proof.
  intros H Hk Hs Ho. unfold srt_wf. rewrite (srt_parse_file rs H).
  rewrite (counters_records rs 1 H ltac:(lia) Hk), (ordered_records rs None Hs I Ho). cbn [andb].
  apply forallb_forall. intros c Hc. apply in_map_iff in Hc as (r & <- & Hr). rewrite Forall_forall in H. destruct (H r Hr) as (_ & _ & _ & Hcr & _ & Hrun).
  assert (E : payload_text (sr_cue r) = sr_t r) by (exact (payload_text_lines (sr_t r) Hcr)). rewrite E.
  destruct (srt_runs (sr_t r)); [reflexivity | contradiction].
Qed.

(* ---- the model's file ------------------------------------------------------------------------------------------------------------------- *)
(* what the recorded findings and the limits of the statement exclude, per cue (executable): a payload line that is blank or holds
   the arrow, a carriage return in the payload, "<" in the text; times within the printers' digits *)
Definition srt_cue_printable (c : cue) : bool :=
  let t := cue_text esc_none c in
  negb (existsb (Z.eqb 13) t) && forallb (fun l => negb (srt_blank_line l) && negb (contains arrow3 l)) (split_lines t) &&
  negb (existsb (Z.eqb 60) (cue_chars c)) && (0 <=? c_begin c) && match c_end c with Some e => e <? 3600000 * 10 ^ 20 | None => false end.
Fixpoint records (k : Z) (cs : list cue) : list srec :=
  match cs with [] => [] | c :: cs' => mkRec k (c_begin c) (match c_end c with Some e => e | None => 0 end) (cue_text esc_none c) :: records (k + 1) cs' end.
Lemma records_k : forall cs k, map sr_k (records k cs) = zseq k (length cs).
Proof. induction cs as [|c cs IH]; intros k; [reflexivity|]. cbn [records map length zseq sr_k]. rewrite IH. reflexivity. Qed.
Lemma records_length cs k : length (records k cs) = length cs.
Proof. revert k. induction cs as [|c cs IH]; intros k; [reflexivity|]. cbn [records length]. rewrite IH. reflexivity. Qed.
Lemma srt_strings_records : forall cs k ss, srt_strings k cs = Ok ss -> Forall (fun c => cue_text esc_none c <> []) cs -> ss = map sr_string (records k cs).
Proof.
  induction cs as [|c cs IH]; intros k ss H Hne; cbn [srt_strings] in H; [injection H as <-; reflexivity|]. inversion Hne as [|? ? Hc Hcs]; subst.
  destruct (srt_to_string k c) as [s|] eqn:Es; [|discriminate]. cbn [bind] in H. destruct (srt_strings (k + 1) cs) as [r|] eqn:Er; [|discriminate].
  cbn [bind] in H. injection H as <-. cbn [records map]. rewrite <- (IH _ _ Er Hcs). f_equal.
  unfold srt_to_string in Es. destruct (checked_end c) as [e|] eqn:Ee; [|discriminate]. cbn [bind] in Es. injection Es as <-.
  apply checked_end_ok in Ee as [Ee _]. unfold sr_string. cbn [sr_k sr_b sr_e sr_t]. rewrite Ee.
  destruct (cue_text esc_none c) as [|x t] eqn:Et; [contradiction|]. rewrite <- ?app_assoc. reflexivity.
Qed.

Theorem srt_wf_model d fmt seq cs out :
  doc_block_wf d = true -> isd_sequence d = Ok seq -> srt_cues fmt seq = Ok cs -> srt_of_seq fmt (Ok seq) = Ok out ->
  forallb srt_cue_printable cs = true -> Z.of_nat (length cs) < 10 ^ 40 -> srt_wf out = true.
Proof.
  intros Hw Hd Hc Ho Hp Hlen. destruct (srt_file_shape fmt seq out Ho) as (cs' & ss & Hc' & Hss & ->). rewrite Hc in Hc'. injection Hc' as <-.
  pose proof (srt_cues_groups fmt seq cs Hc) as G.
  assert (Hkept : Forall (kept srt_blank) cs).
  { clear - G. induction G as [|t regions seq cs rest (_ & Hk & _) G IH]; [constructor|]. apply Forall_app. split; assumption. }
  assert (Hne : Forall (fun c => cue_text esc_none c <> []) cs).
  { eapply Forall_impl; [|exact Hkept]. intros c [Hb _] E. unfold srt_blank, cue_blank in Hb. rewrite E in Hb. discriminate. }
  rewrite (srt_strings_records cs 1 ss Hss Hne).
  pose proof (srt_strings_spans _ _ _ Hss) as Hspan. pose proof (srt_cues_strict d fmt seq cs ss Hw Hd Hc Hss) as Hord.
  pose proof (srt_cues_runs fmt seq cs Hc) as Hruns. rewrite forallb_forall in Hp.
  apply srt_wf_records.
  - (* every record is fine *)
    assert (Gk : forall k, 1 <= k -> k + Z.of_nat (length cs) <= 10 ^ 40 -> Forall srec_ok (records k cs)).
    { clear Hss Hord Hlen G Hc Ho. induction cs as [|c cs IH]; intros k Hk1 Hk2; [constructor|].
      inversion Hspan as [|? ? (e & He & Hbe) Hspan']; subst. inversion Hruns as [|? ? Hr Hruns']; subst.
      inversion Hkept; subst. inversion Hne; subst. cbn [length] in Hk2. rewrite Nat2Z.inj_succ in Hk2.
      cbn [records]. constructor; [|apply IH; try assumption; [intros x Hx; apply Hp; right; exact Hx | lia | lia]].
      specialize (Hp c (or_introl eq_refl)). unfold srt_cue_printable in Hp. rewrite He in Hp.
      repeat (apply andb_true_iff in Hp as [Hp ?]).
      repeat match goal with H : negb _ = true |- _ => apply negb_true_iff in H end.
      unfold srec_ok. cbn [sr_k sr_b sr_e sr_t]. rewrite He. split; [lia|]. split; [unfold ms_ok; lia|]. split; [unfold ms_ok; lia|].
      split; [intros Hi; assert (E : existsb (Z.eqb 13) (cue_text esc_none c) = true) by (apply existsb_exists; exists 13; split; [exact Hi | reflexivity]); congruence|].
      split; [assumption|].
      assert (Hn60 : ~ In 60 (cue_chars c)).
      { intros Hi. assert (E : existsb (Z.eqb 60) (cue_chars c) = true) by (apply existsb_exists; exists 60; split; [exact Hi | reflexivity]). congruence. }
      destruct (Hr Hn60) as (cs0 & r & _ & Hrr & _). rewrite Hrr. discriminate. }
    apply Gk; lia.
  - rewrite records_length. apply records_k.
  - clear - Hspan. generalize 1. induction cs as [|c cs IH]; intros k; [constructor|]. inversion Hspan as [|? ? (e & He & Hbe) Hs]; subst.
    cbn [records]. constructor; [cbn [sr_b sr_e]; rewrite He; exact Hbe | apply IH, Hs].
  - clear - Hspan Hord. generalize 1. induction cs as [|c cs IH]; intros k; [constructor|]. inversion Hspan as [|? ? (e & He & Hbe) Hs]; subst.
    inversion Hord as [|? ? Hf Ho]; subst. cbn [records]. constructor; [|apply IH; assumption].
    clear - Hf He. generalize (k + 1). induction cs as [|c2 cs IH]; intros k2; [constructor|]. inversion Hf as [|? ? H2 Hf']; subst.
    cbn [records]. constructor; [cbn [sr_b sr_e]; rewrite He; apply H2, He | apply IH, Hf'].
Qed.

(* the hypotheses are satisfiable: the ruby witness document *)
Lemma srt_wf_example : exists seq cs out,
  doc_block_wf w_ruby = true /\ isd_sequence w_ruby = Ok seq /\ srt_cues true seq = Ok cs /\
  srt_of_seq true (Ok seq) = Ok out /\ forallb srt_cue_printable cs = true /\ cs <> [] /\ srt_wf out = true.
Proof.
  eexists. eexists. eexists. split; [vm_compute; reflexivity|]. split; [vm_compute; reflexivity|]. split; [vm_compute; reflexivity|].
  split; [vm_compute; reflexivity|]. split; [vm_compute; reflexivity|]. split; [discriminate | vm_compute; reflexivity].
Qed.
