(* C07: cue settings.  The line and align settings the WebVTT writer computes are the ones Spec/CueSettings.v prescribes for the
   region / paragraph element they are computed from (process_p), the region geometry survives the style filters when line
   positions are written, and every cue of the output gets its settings from a region and an element of its own snapshot.
   What is NOT proved: that the element handed to process_p is the paragraph(s) of the scope — false of the faithful model
   when paragraphs are merged (recorded finding align-lost-when-paragraphs-merged, Findings/C07.v). *)
From Coq Require Import Qabs.
From TT Require Import Model.Doc Gen.StyleTables Model.Isd Model.SigTimes Model.TimeCode Model.IsdFilters Gen.CueTables Model.CueWriter.
From TT Require Import Model.CueTriggers Spec.IsdSpec Spec.CueSpec Spec.CueSettings Proofs.C12.Derived Proofs.C06.Text.

(* ---- line ------------------------------------------------------------------------------------------------------------------- *)
Lemma round_q_whole_percent q : whole_percent q (clamp_pct (round_q q)) = true.
Proof.
  unfold whole_percent, round_q, clamp_pct, clamp_q. destruct q as [a b]. cbn [Qnum Qden].
  destruct (round_he_cases a (Zpos b) eq_refl) as (_ & H & _). set (m := round_he a (Zpos b)) in *. clearbody m.
  assert (Hb : 0 < Zpos b) by lia.
  assert (R1 : 0 <=? Z.max 0 (Z.min 100 m) = true) by (apply Z.leb_le; lia).
  assert (R2 : Z.max 0 (Z.min 100 m) <=? 100 = true) by (apply Z.leb_le; lia).
  rewrite R1, R2. cbn [andb].
  assert (Q1 : Qle_bool (a # b) (inject_Z 0) = (a * 1 <=? 0 * Z.pos b)) by reflexivity.
  assert (Q2 : Qle_bool (inject_Z 100) (a # b) = (100 * Z.pos b <=? a * 1)) by reflexivity.
  rewrite Q1, Q2. clear Q1 Q2. destruct (a * 1 <=? 0 * Z.pos b) eqn:E1.
  - apply Z.leb_le in E1. assert (Hm : m <= 0) by nia. replace (Z.max 0 (Z.min 100 m)) with 0 by lia. reflexivity.
  - apply Z.leb_gt in E1. destruct (100 * Z.pos b <=? a * 1) eqn:E2.
    + apply Z.leb_le in E2. assert (Hm : 100 <= m) by nia. replace (Z.max 0 (Z.min 100 m)) with 100 by lia. reflexivity.
    + apply Z.leb_gt in E2. assert (Hm : 0 <= m <= 100) by nia. replace (Z.max 0 (Z.min 100 m)) with m by lia.
      unfold Qle_bool, Qabs, Qminus, Qplus, Qopp, inject_Z. cbn [Qnum Qden]. apply Z.leb_le.
      rewrite Pos2Z.inj_mul. change (Zpos 1) with 1. replace (a * 1 + - m * Zpos b) with (- (m * Zpos b - a)) by ring.
      rewrite Z.abs_opp. cbn [Pos.mul]. nia.
Qed.

Theorem line_setting_spec ra n k da :
  sget (e_styles ra) p_DisplayAlign = Some (VEnum da) -> line_setting ra = Ok (n, k) ->
  exists q a, spec_line ra = Some (q, a) /\ whole_percent q n = true /\ nth (Z.to_nat k) vtt_line_alignment [] = a.
Proof.
  unfold line_setting, spec_line. intros Hda H. rewrite Hda in *.
  destruct (sget (e_styles ra) p_Position) as [[]|]; try discriminate.
  destruct (sget (e_styles ra) p_Extent) as [[]|]; try discriminate.
  destruct (da =? e_DisplayAlignType_after) eqn:E1.
  - injection H as <- <-. apply Z.eqb_eq in E1. subst da. cbn [Z.eqb e_DisplayAlignType_after e_DisplayAlignType_before].
    eexists. eexists. split; [reflexivity|]. split; [apply round_q_whole_percent | reflexivity].
  - destruct (da =? e_DisplayAlignType_before) eqn:E2; injection H as <- <-;
      (eexists; eexists; split; [reflexivity|]; split; [apply round_q_whole_percent | reflexivity]).
Qed.

(* ---- align ------------------------------------------------------------------------------------------------------------------ *)
Theorem textalign_setting_spec p :
  spec_align p = option_map (fun k => nth (Z.to_nat k) vtt_text_alignment []) (textalign_setting p).
Proof.
  unfold spec_align, textalign_setting. destruct (sget (e_styles p) p_TextAlign) as [[]|]; try reflexivity.
  destruct (tag =? e_TextAlignType_center); [reflexivity|].
  destruct (match sget (e_styles p) p_Direction with Some (VEnum x) => x =? e_DirectionType_rtl | _ => false end);
    destruct (tag =? e_TextAlignType_start); try reflexivity; destruct (tag =? e_TextAlignType_end); reflexivity.
Qed.

(* ---- the region geometry survives the style filters ------------------------------------------------------------------------------ *)
Lemma sget_filter (f : Z * value -> bool) p : forall m, (forall v, f (p, v) = true) -> sget (filter f m) p = sget m p.
Proof.
  intros m Hf. induction m as [|[k w] m IH]; [reflexivity|]. cbn [filter sget]. destruct (k =? p) eqn:E.
  - apply Z.eqb_eq in E. subst k. rewrite Hf. cbn [sget]. rewrite Z.eqb_refl. reflexivity.
  - destruct (f (k, w)); [cbn [sget]; rewrite E|]; exact IH.
Qed.
Definition geometry_prop (p : Z) : Prop := p = p_Position \/ p = p_Extent \/ p = p_DisplayAlign.
(* in every configuration with line positions: supported with any value, no default *)
Lemma geometry_kept cfg fs c d : line_position cfg = true -> vtt_filters cfg = Some fs -> fs = writer_filters false c d ->
  forall p, geometry_prop p -> (forall v, is_supported c (p, v) = true) /\ sget d p = None.
Proof.
  intros Hlp Hfs Hf p Hp. destruct cfg as [lp ta ci]. cbn [line_position] in Hlp. subst lp.
  destruct ta, ci; vm_compute in Hfs; injection Hfs as <-; unfold writer_filters in Hf; cbn [app] in Hf; injection Hf as <- <-;
    destruct Hp as [-> | [-> | ->]]; split; reflexivity.
Qed.

Lemma region_geometry_filtered cfg fs p : line_position cfg = true -> vtt_filters cfg = Some fs -> geometry_prop p ->
  forall rs r', In r' (apply_filters fs rs) -> exists r, In r rs /\ sget (e_styles (eattrs r')) p = sget (e_styles (eattrs r)) p.
Proof.
  intros Hlp Hfs Hp rs r' Hin. destruct (vtt_filters_form cfg fs Hfs) as (c & d & Hf). rewrite Hlp in Hf. cbn [negb] in Hf.
  destruct (geometry_kept cfg fs c d Hlp Hfs Hf p Hp) as [Hsup Hdef].
  rewrite Hf in Hin. unfold writer_filters, apply_filters in Hin. cbn [app fold_left apply_filter] in Hin.
  apply in_map_iff in Hin as (r1 & <- & Hin). apply in_map_iff in Hin as (r2 & <- & Hin).
  unfold merge_paragraphs in Hin. apply in_map_iff in Hin as (r3 & <- & Hin). exists r3. split; [exact Hin|].
  destruct r3 as [a3 cs3]. rewrite Proofs.C06.Filters.filter_supported_node, Proofs.C06.Filters.filter_defaults_node. cbv zeta.
  cbn [eattrs with_styles e_styles].
  rewrite sget_filter.
  - apply sget_filter. exact Hsup.
  - intros v. unfold default_removed. rewrite Hdef. rewrite andb_false_r. reflexivity.
Qed.

(* ---- every cue takes its settings from a region and an element of its own snapshot ------------------------------------------- *)
Definition settings_from (cfg : vtt_config) (r p : elem) (c : cue) : Prop :=
  (if line_position cfg then exists x, line_setting (eattrs r) = Ok x /\ c_line c = Some x else c_line c = None) /\
  c_textalign c = (if text_align cfg then textalign_setting (eattrs p) else None).

Lemma vtt_process_p_settings cfg r b en p st cs st' :
  vtt_process_p cfg (eattrs r) b en p st = Ok (cs, st') -> Forall (settings_from cfg r p) cs.
Proof.
  unfold vtt_process_p. intros H.
  destruct (line_position cfg) eqn:Elp.
  - destruct (line_setting (eattrs r)) as [x|] eqn:El; [|discriminate]. cbn [bind] in H.
    destruct (vtt_inlines (echildren p) (v_css st)) as [items css].
    destruct (vtt_blank _); injection H as <- _; constructor; [|constructor].
    unfold settings_from. rewrite Elp. cbn [c_line c_textalign]. split; [exists x; split; [exact El | reflexivity] | reflexivity].
  - cbn [bind] in H. destruct (vtt_inlines (echildren p) (v_css st)) as [items css].
    destruct (vtt_blank _); injection H as <- _; constructor; [|constructor].
    unfold settings_from. rewrite Elp. cbn [c_line c_textalign]. split; reflexivity.
Qed.

(* the paragraphs process_div reaches below an element: through divisions *)
Fixpoint block_ps (e : elem) : list elem :=
  match e with
  | Elem a cs =>
      match e_kind a with
      | KDiv => (fix go (l : list elem) : list elem := match l with [] => [] | c :: l' => block_ps c ++ go l' end) cs
      | KP => [e]
      | _ => []
      end
  end.
Lemma block_ps_node a cs : block_ps (Elem a cs) = match e_kind a with KDiv => flat_map block_ps cs | KP => [Elem a cs] | _ => [] end.
Proof.
  cbn [block_ps]. destruct (e_kind a); reflexivity.
Qed.
Definition cue_settings_sound (cfg : vtt_config) (fs : list isd_filter) (seq : list (Q * list elem)) (c : cue) : Prop :=
  exists t regions r p, In (t, regions) seq /\ In r (apply_filters fs regions) /\
                        In p (flat_map block_ps (flat_map echildren (echildren r))) /\ settings_from cfg r p c.

Lemma finish_settings fill blank (P : cue -> Prop) :
  (forall c e, P c -> P (mkCue (c_id c) (c_begin c) (Some e) (c_items c) (c_line c) (c_textalign c))) ->
  forall cs, Forall P cs -> Forall P (finish_cues fill blank cs).
Proof.
  intros HP. assert (HD : forall c, P c -> P (default_end c)) by (intros c Hc; unfold default_end; destruct (c_end c); [exact Hc | apply HP, Hc]).
  induction cs as [|c cs IH]; intros H; [constructor|]. inversion H as [|? ? Hc Hcs]; subst. destruct cs as [|c' cs'].
  - cbn [finish_cues]. destruct (c_end c); [exact H|]. destruct (blank c); [constructor|]. constructor; [apply HD, Hc | constructor].
  - change (finish_cues fill blank (c :: c' :: cs')) with ((if fill then default_end c else c) :: finish_cues fill blank (c' :: cs')).
    constructor; [destruct fill; [apply HD, Hc | exact Hc] | apply IH, Hcs].
Qed.

Theorem vtt_cues_settings cfg fs seq cs css :
  vtt_filters cfg = Some fs -> vtt_cues cfg seq = Ok (cs, css) -> Forall (cue_settings_sound cfg fs seq) cs.
Proof.
  intros Hfs H. unfold vtt_cues in H. rewrite Hfs in H.
  destruct (vtt_loop cfg fs seq (mkVttState 0 [])) as [[cs0 st]|] eqn:E; [|discriminate]. cbn [bind fst snd] in H. injection H as <- _.
  apply finish_settings.
  { intros c e (t & regions & r & p & H1 & H2 & H3 & H4). exists t, regions, r, p. repeat split; try assumption; apply H4. }
  assert (Hbs : forall r b en l,
                Forall (fun e => forall st0 x s1, Model.CueWriter.vtt_block cfg (eattrs r) b en e st0 = Ok (x, s1) ->
                                 Forall (fun c => exists p, In p (block_ps e) /\ settings_from cfg r p c) x) l ->
                forall st0 x s1, vtt_blocks cfg (eattrs r) b en l st0 = Ok (x, s1) ->
                Forall (fun c => exists p, In p (flat_map block_ps l) /\ settings_from cfg r p c) x).
  { intros r b en. induction l as [|e l IH]; intros Hl st0 x s1 Hx; cbn [vtt_blocks] in Hx.
    - injection Hx as <- _. constructor.
    - inversion Hl as [|? ? He Hl']; subst.
      destruct (Model.CueWriter.vtt_block cfg (eattrs r) b en e st0) as [[x1 sa]|] eqn:E1; [|discriminate]. cbn [bind fst snd] in Hx.
      destruct (vtt_blocks cfg (eattrs r) b en l sa) as [[x2 sb]|] eqn:E2; [|discriminate]. cbn [bind fst snd] in Hx.
      injection Hx as <- _. cbn [flat_map]. apply Forall_app. split.
      + eapply Forall_impl; [|exact (He _ _ _ E1)]. intros c (p & Hp & Hc). exists p. split; [apply in_or_app; left; exact Hp | exact Hc].
      + eapply Forall_impl; [|exact (IH Hl' _ _ _ E2)]. intros c (p' & Hp' & Hc). exists p'. split; [apply in_or_app; right; exact Hp' | exact Hc]. }
  assert (Hb : forall r b en e st0 x s1, Model.CueWriter.vtt_block cfg (eattrs r) b en e st0 = Ok (x, s1) ->
               Forall (fun c => exists p, In p (block_ps e) /\ settings_from cfg r p c) x).
  { intros r b en. induction e as [a cs1 IH] using Proofs.Common.ElemInd.elem_ind2. intros st0 x s1 Hx.
    rewrite Proofs.C06.Loop.vtt_block_node in Hx. rewrite block_ps_node.
    destruct (e_kind a); try (injection Hx as <- _; constructor).
    - exact (Hbs r b en cs1 IH _ _ _ Hx).
    - eapply Forall_impl; [|exact (vtt_process_p_settings _ _ _ _ _ _ _ _ Hx)]. intros c Hc. exists (Elem a cs1). split; [left; reflexivity | exact Hc]. }
  assert (Hr : forall b en rs st0 x s1, vtt_regions cfg b en rs st0 = Ok (x, s1) ->
               Forall (fun c => exists r p, In r rs /\ In p (flat_map block_ps (flat_map echildren (echildren r))) /\ settings_from cfg r p c) x).
  { intros b en. induction rs as [|r rs IH]; intros st0 x s1 Hx; cbn [vtt_regions] in Hx.
    - injection Hx as <- _. constructor.
    - destruct (vtt_blocks cfg (eattrs r) b en _ st0) as [[x1 sa]|] eqn:E1; [|discriminate]. cbn [bind fst snd] in Hx.
      destruct (vtt_regions cfg b en rs sa) as [[x2 sb]|] eqn:E2; [|discriminate]. cbn [bind fst snd] in Hx.
      injection Hx as <- _. apply Forall_app. split.
      + eapply Forall_impl; [|exact (Hbs r b en _ (proj2 (Forall_forall _ _) (fun e _ => Hb r b en e)) _ _ _ E1)].
        intros c (p & Hp & Hc). exists r, p. split; [left; reflexivity|]. split; assumption.
      + eapply Forall_impl; [|exact (IH _ _ _ E2)]. intros c (r' & p & Hr' & Hp & Hc). exists r', p. split; [right; exact Hr'|]. split; assumption. }
  revert E. generalize (mkVttState 0 []). revert cs0 st.
  induction seq as [|[t regions] seq IH]; intros cs0 st st0 E; cbn [vtt_loop] in E.
  - injection E as <- _. constructor.
  - destruct (q_ms t) as [b|]; [|discriminate]. cbn [bind] in E. destruct (oq_ms _) as [en|]; [|discriminate]. cbn [bind] in E.
    destruct (vtt_regions cfg b en (apply_filters fs regions) st0) as [[x s1]|] eqn:Ex; [|discriminate]. cbn [bind fst snd] in E.
    destruct (vtt_loop cfg fs seq s1) as [[rest s2]|] eqn:Er; [|discriminate]. cbn [bind fst snd] in E. injection E as <- _.
    apply Forall_app. split.
    + eapply Forall_impl; [|exact (Hr _ _ _ _ _ _ Ex)]. intros c (r & p & H1 & H2 & H3). exists t, regions, r, p.
      split; [left; reflexivity|]. split; [exact H1|]. split; assumption.
    + eapply Forall_impl; [|exact (IH _ _ _ Er)]. intros c (t' & regions' & r & p & H1 & H2 & H3 & H4). exists t', regions', r, p.
      split; [right; exact H1|]. split; [exact H2|]. split; assumption.
Qed.
