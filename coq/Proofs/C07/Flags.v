(* C07: from the tags to the style values.  (1) In a paragraph without nested resets (no span is non-bold inside a bold span, ...)
   the bold / italic / underline flags the tag-stack walk gives a character are the flags of the innermost span around it — the
   span whose computed style TTML makes the character's style.  (2) The writers' style filters (supported values, default values;
   lists regenerated from the code) keep the bold / italic / underline flag of every element.  Together with Proofs/C07/Runs.v:
   b / i / u tags enclose exactly the characters whose innermost span is bold / italic / underlined, outside the recorded finding
   nested-span-resets-style.  Colours are compared on generated documents only. *)
From TT Require Import Model.Doc Gen.StyleTables Model.Isd Model.SigTimes Model.TimeCode Model.IsdFilters Gen.CueTables Model.CueWriter.
From TT Require Import Model.CueTriggers Spec.IsdSpec Spec.CueSpec Proofs.Common.ElemInd.
From TT Require Import Proofs.C06.Filters Proofs.C06.Inline Proofs.C06.Strip Proofs.C06.Loop Proofs.C06.Text Proofs.C07.Tags Proofs.C07.Runs.

Definition flags := (bool * bool * bool)%type.
Definition span_flags (a : attrs) : flags := (is_element_bold a, is_element_italic a, is_element_underlined a).
Definition stack_flags (st : list (tagname * list text)) : flags :=
  let r := style_of_stack st in (rs_b r, rs_i r, rs_u r).
Definition run_flags (r : list (Z * rstyle)) : list (Z * flags) := map (fun x => (fst x, (rs_b (snd x), rs_i (snd x), rs_u (snd x)))) r.

(* the characters below an element, each with the flags of the innermost span around it (cur: outside any span) *)
Fixpoint inner_flags (cur : flags) (e : elem) : list (Z * flags) :=
  match e with
  | Elem a cs =>
      match e_kind a with
      | KSpan => (fix go (l : list elem) : list (Z * flags) := match l with [] => [] | c :: l' => inner_flags (span_flags a) c ++ go l' end) cs
      | KRuby | KRbc | KRb => (fix go (l : list elem) : list (Z * flags) := match l with [] => [] | c :: l' => inner_flags cur c ++ go l' end) cs
      | KBr => [(10, cur)]
      | KText => map (fun c => (c, cur)) (e_text a)
      | _ => []
      end
  end.
Lemma inner_flags_node cur a cs :
  inner_flags cur (Elem a cs) =
  match e_kind a with
  | KSpan => flat_map (inner_flags (span_flags a)) cs
  | KRuby | KRbc | KRb => flat_map (inner_flags cur) cs
  | KBr => [(10, cur)]
  | KText => map (fun c => (c, cur)) (e_text a)
  | _ => []
  end.
Proof. cbn [inner_flags]. destruct (e_kind a); reflexivity. Qed.

(* no nested reset: below a span that is bold (italic, underlined) every span is *)
Definition implb3 (o f : flags) : bool :=
  let '(ob, oi, ou) := o in let '(b, i, u) := f in implb ob b && implb oi i && implb ou u.
Fixpoint no_reset (o : flags) (e : elem) : bool :=
  match e with
  | Elem a cs =>
      match e_kind a with
      | KSpan => implb3 o (span_flags a) && (fix go (l : list elem) : bool := match l with [] => true | c :: l' => no_reset (span_flags a) c && go l' end) cs
      | _ => (fix go (l : list elem) : bool := match l with [] => true | c :: l' => no_reset o c && go l' end) cs
      end
  end.
Lemma no_reset_node o a cs :
  no_reset o (Elem a cs) = match e_kind a with
                           | KSpan => implb3 o (span_flags a) && forallb (no_reset (span_flags a)) cs
                           | _ => forallb (no_reset o) cs
                           end.
Proof. cbn [no_reset]. destruct (e_kind a); reflexivity. Qed.

Lemma existsb_app_rev {A} (f : A -> bool) x y : existsb f (rev x ++ y) = existsb f x || existsb f y.
Proof. rewrite existsb_app. f_equal. induction x as [|c x IH]; [reflexivity|]. cbn [rev existsb]. rewrite existsb_app, IH. cbn [existsb]. rewrite orb_false_r. apply orb_comm. Qed.

Section Opens.
  Variable opens : attrs -> list (tagname * list text).
  (* the b / i / u tags a span opens are its flags *)
  Hypothesis opens_flags : forall a,
    (existsb (fun x => tagname_eqb (fst x) TgB) (opens a), existsb (fun x => tagname_eqb (fst x) TgI) (opens a),
     existsb (fun x => tagname_eqb (fst x) TgU) (opens a)) = span_flags a.

  Theorem no_reset_inner : forall e st, no_reset (stack_flags st) e = true ->
    run_flags (tree_runs opens st e) = inner_flags (stack_flags st) e.
  Proof.
    induction e as [a cs IH] using elem_ind2. intros st H. rewrite tree_runs_node, inner_flags_node. rewrite no_reset_node in H.
    rewrite Forall_forall in IH.
    assert (G : forall st0, forallb (no_reset (stack_flags st0)) cs = true ->
                run_flags (flat_map (tree_runs opens st0) cs) = flat_map (inner_flags (stack_flags st0)) cs).
    { intros st0 H0. unfold run_flags. rewrite flat_map_concat_map, concat_map, map_map, <- flat_map_concat_map.
      apply flat_map_ext_in. intros c Hc. rewrite forallb_forall in H0. apply (IH c Hc st0 (H0 c Hc)). }
    destruct (e_kind a); try reflexivity; try (apply G, H).
    - (* span *) apply andb_true_iff in H as [H1 H2].
      assert (E : stack_flags (rev (opens a) ++ st) = span_flags a).
      { unfold stack_flags, style_of_stack. cbn [rs_b rs_i rs_u]. rewrite !existsb_app_rev. pose proof (opens_flags a) as F.
        unfold span_flags in *. injection F as F1 F2 F3. rewrite F1, F2, F3.
        unfold implb3, stack_flags, style_of_stack in H1. cbn [rs_b rs_i rs_u] in H1. unfold span_flags in H1.
        destruct (is_element_bold a), (is_element_italic a), (is_element_underlined a),
          (existsb (fun x => tagname_eqb (fst x) TgB) st), (existsb (fun x => tagname_eqb (fst x) TgI) st), (existsb (fun x => tagname_eqb (fst x) TgU) st);
          try reflexivity; discriminate H1. }
      rewrite <- E. apply G. rewrite E. exact H2.
    - (* text *) unfold run_flags. rewrite map_map. reflexivity.
  Qed.
End Opens.

Lemma srt_opens_flags a :
  (existsb (fun x => tagname_eqb (fst x) TgB) (srt_span_opens true a), existsb (fun x => tagname_eqb (fst x) TgI) (srt_span_opens true a),
   existsb (fun x => tagname_eqb (fst x) TgU) (srt_span_opens true a)) = span_flags a.
Proof.
  unfold srt_span_opens, span_flags. destruct (get_color_of a p_Color), (is_element_bold a), (is_element_italic a), (is_element_underlined a); reflexivity.
Qed.
Lemma vtt_opens_flags a :
  (existsb (fun x => tagname_eqb (fst x) TgB) (vtt_span_opens a), existsb (fun x => tagname_eqb (fst x) TgI) (vtt_span_opens a),
   existsb (fun x => tagname_eqb (fst x) TgU) (vtt_span_opens a)) = span_flags a.
Proof.
  unfold vtt_span_opens, span_flags.
  destruct (get_color_of a p_Color), (get_color_of a p_BackgroundColor), (is_element_bold a), (is_element_italic a), (is_element_underlined a); reflexivity.
Qed.
Definition plain_flags : flags := (false, false, false).
(* every paragraph without nested resets, both writers: b / i / u = the innermost span's *)
Theorem srt_paragraph_flags cs0 : forallb (no_reset plain_flags) cs0 = true ->
  run_flags (flat_map (tree_runs (srt_span_opens true) []) cs0) = flat_map (inner_flags plain_flags) cs0.
Proof.
  intros H. unfold run_flags. rewrite flat_map_concat_map, concat_map, map_map, <- flat_map_concat_map. apply flat_map_ext_in. intros c Hc.
  rewrite forallb_forall in H. exact (no_reset_inner (srt_span_opens true) srt_opens_flags c [] (H c Hc)).
Qed.
Theorem vtt_paragraph_flags cs0 : forallb (no_reset plain_flags) cs0 = true ->
  run_flags (flat_map (tree_runs vtt_span_opens []) cs0) = flat_map (inner_flags plain_flags) cs0.
Proof.
  intros H. unfold run_flags. rewrite flat_map_concat_map, concat_map, map_map, <- flat_map_concat_map. apply flat_map_ext_in. intros c Hc.
  rewrite forallb_forall in H. exact (no_reset_inner vtt_span_opens vtt_opens_flags c [] (H c Hc)).
Qed.

(* ---- the style filters keep the flags -------------------------------------------------------------------------------------------------- *)
(* style maps hold one binding per property (they are Python dicts) *)
Definition smap_ok (m : smap) : Prop := NoDup (map fst m).
Lemma sget_none_notin p : forall m : smap, ~ In p (map fst m) -> sget m p = None.
Proof.
  induction m as [|[k w] m IH]; intros H; [reflexivity|]. cbn [sget]. destruct (k =? p) eqn:E.
  - apply Z.eqb_eq in E. subst k. exfalso. apply H. left. reflexivity.
  - apply IH. intros Hi. apply H. right. exact Hi.
Qed.
Lemma filter_fst_in (f : Z * value -> bool) p (m : smap) : In p (map fst (filter f m)) -> In p (map fst m).
Proof. intros H. apply in_map_iff in H as (x & <- & Hx). apply filter_In in Hx as [Hx _]. apply in_map. exact Hx. Qed.
Lemma sget_filter_nodup (f : Z * value -> bool) p : forall m, smap_ok m ->
  sget (filter f m) p = match sget m p with Some v => if f (p, v) then Some v else None | None => None end.
Proof.
  induction m as [|[k w] m IH]; intros H; [reflexivity|]. inversion H as [|? ? Hn Hm]; subst. cbn [filter sget]. destruct (k =? p) eqn:E.
  - apply Z.eqb_eq in E. subst k. destruct (f (p, w)); [cbn [sget]; rewrite Z.eqb_refl; reflexivity|].
    apply sget_none_notin. intros Hi. apply Hn. exact (filter_fst_in f p m Hi).
  - destruct (f (k, w)); [cbn [sget]; rewrite E|]; exact (IH Hm).
Qed.
(* a filter on the style map keeps the flags when what it removes for the three properties is not bold / italic / underline *)
Definition keeps_flag_values (f : Z * value -> bool) : Prop :=
  (forall w, f (p_FontWeight, VEnum w) = false -> (w =? e_FontWeightType_bold) = false) /\
  (forall s, f (p_FontStyle, VEnum s) = false -> (s =? e_FontStyleType_italic) = false) /\
  (forall u l o, f (p_TextDecoration, VTextDec u l o) = false -> (u =? 1) = false).
Lemma filter_keeps_flags f a : smap_ok (e_styles a) -> keeps_flag_values f -> span_flags (with_styles a (filter f (e_styles a))) = span_flags a.
Proof.
  intros Hm (K1 & K2 & K3). unfold span_flags, is_element_bold, is_element_italic, is_element_underlined. cbn [with_styles e_styles].
  rewrite !(sget_filter_nodup f _ _ Hm). f_equal; [f_equal|].
  - destruct (sget (e_styles a) p_FontWeight) as [v|]; [|reflexivity]. destruct (f (p_FontWeight, v)) eqn:Ef; [reflexivity|].
    destruct v; try reflexivity. symmetry. exact (K1 _ Ef).
  - destruct (sget (e_styles a) p_FontStyle) as [v|]; [|reflexivity]. destruct (f (p_FontStyle, v)) eqn:Ef; [reflexivity|].
    destruct v; try reflexivity. symmetry. exact (K2 _ Ef).
  - destruct (sget (e_styles a) p_TextDecoration) as [v|]; [|reflexivity]. destruct (f (p_TextDecoration, v)) eqn:Ef; [reflexivity|].
    destruct v; try reflexivity. symmetry. exact (K3 _ _ _ Ef).
Qed.
Lemma filter_smap_ok (f : Z * value -> bool) m : smap_ok m -> smap_ok (filter f m).
Proof.
  unfold smap_ok. induction m as [|[k w] m IH]; intros H; [constructor|]. inversion H as [|? ? Hn Hm]; subst. cbn [filter].
  destruct (f (k, w)); [|exact (IH Hm)]. cbn [map fst]. constructor; [|exact (IH Hm)]. intros Hi. apply Hn. exact (filter_fst_in f k m Hi).
Qed.

(* the two style filters of every configuration of both writers (the generated lists) *)
Definition cfg_keeps (c : supported_cfg) : Prop := keeps_flag_values (is_supported c).
Definition dfl_keeps (d : smap) : Prop := forall par, keeps_flag_values (fun kv => negb (default_removed d par kv)).
Lemma srt_cfg_keeps : forall c d, srt_filters = writer_filters true c d -> cfg_keeps c /\ dfl_keeps d.
Proof.
  intros c d H. unfold writer_filters in H. cbn [app] in H. injection H as <- <-. split.
  - unfold cfg_keeps, keeps_flag_values, is_supported. cbn [assoc_z fst snd]. repeat split; intros; try discriminate.
    cbn in H. destruct (s =? 0) eqn:E0; [discriminate|]. destruct (s =? 1) eqn:E1; [discriminate|]. cbn in *. exact E1.
  - intros par. unfold keeps_flag_values, default_removed. repeat split; intros.
    + apply negb_false_iff, andb_true_iff in H as [_ H]. cbn in H. destruct (w =? 0) eqn:E0; [apply Z.eqb_eq in E0; subst w; reflexivity | discriminate].
    + apply negb_false_iff, andb_true_iff in H as [_ H]. cbn in H. destruct (s =? 0) eqn:E0; [apply Z.eqb_eq in E0; subst s; reflexivity | discriminate].
    + apply negb_false_iff, andb_true_iff in H as [_ H]. cbn in H. discriminate.
Qed.

(* every element of a filtered tree has the flags it had before: the style filters change style maps only, node by node *)
Theorem filter_supported_flags c a : smap_ok (e_styles a) -> cfg_keeps c ->
  span_flags (with_styles a (filter (is_supported c) (e_styles a))) = span_flags a.
Proof. intros Hm Hc. exact (filter_keeps_flags _ a Hm Hc). Qed.
Theorem filter_defaults_flags d par a : smap_ok (e_styles a) -> dfl_keeps d ->
  span_flags (with_styles a (filter (fun kv => negb (default_removed d par kv)) (e_styles a))) = span_flags a.
Proof. intros Hm Hd. exact (filter_keeps_flags _ a Hm (Hd par)). Qed.
Lemma vtt_cfg_keeps cfg fs c d : vtt_filters cfg = Some fs -> fs = writer_filters (negb (line_position cfg)) c d -> cfg_keeps c /\ dfl_keeps d.
Proof.
  intros Hfs Hf. destruct cfg as [[|] [|] [|]]; vm_compute in Hfs; injection Hfs as <-; unfold writer_filters in Hf; cbn [negb app] in Hf; injection Hf as <- <-.
  all: split;
    [ unfold cfg_keeps, keeps_flag_values, is_supported; cbn [assoc_z fst snd]; repeat split; intros; try discriminate;
      cbn in H; destruct (s =? 0) eqn:E0; [discriminate|]; destruct (s =? 1) eqn:E1; [discriminate|]; cbn in *; exact E1
    | intros par; unfold keeps_flag_values, default_removed; repeat split; intros;
      [ apply negb_false_iff, andb_true_iff in H as [_ H]; cbn in H; destruct (w =? 0) eqn:E0; [apply Z.eqb_eq in E0; subst w; reflexivity | discriminate]
      | apply negb_false_iff, andb_true_iff in H as [_ H]; cbn in H; destruct (s =? 0) eqn:E0; [apply Z.eqb_eq in E0; subst s; reflexivity | discriminate]
      | apply negb_false_iff, andb_true_iff in H as [_ H]; cbn in H; discriminate ] ].
Qed.
