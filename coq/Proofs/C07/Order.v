(* C07: counters / cue identifiers are 1, 2, 3, ...; every written cue has begin < end; cues are in non-decreasing,
   non-overlapping order (two cues overlap only when they cover the very same interval: one cue per region with WebVTT
   line positions) — for every document, whenever the writer returns a string. *)
From Coq Require Import Sorting.Sorted.
From TT Require Import Model.Doc Gen.StyleTables Model.Isd Model.SigTimes Model.TimeCode Model.IsdFilters Gen.CueTables Model.CueWriter.
From TT Require Import Model.CueTriggers Spec.IsdSpec Spec.CueSpec Proofs.C12.Derived Proofs.C02.Sig Proofs.C02.Complete.
From TT Require Import Proofs.C06.Filters Proofs.C06.Inline Proofs.C06.Loop Proofs.C06.Text.

Fixpoint zseq (k : Z) (n : nat) : list Z := match n with O => [] | S n' => k :: zseq (k + 1) n' end.
Lemma zseq_app k n m : zseq k (n + m) = zseq k n ++ zseq (k + Z.of_nat n) m.
Proof.
  revert k. induction n as [|n IH]; intros k; [cbn; rewrite Z.add_0_r; reflexivity|].
  cbn [Nat.add zseq app]. rewrite IH. f_equal. f_equal. f_equal. lia.
Qed.

(* ---- SubRip counters -------------------------------------------------------------------------------------------------------- *)
Theorem srt_strings_counters : forall cs k ss, srt_strings k cs = Ok ss ->
  Forall2 (fun i s => exists rest, s = print_z i ++ 10 :: rest) (zseq k (length cs)) ss.
Proof.
  induction cs as [|c cs IH]; intros k ss H; cbn [srt_strings] in H.
  - injection H as <-. constructor.
  - destruct (srt_to_string k c) as [s|] eqn:Es; [|discriminate]. cbn [bind] in H.
    destruct (srt_strings (k + 1) cs) as [r|] eqn:Er; [|discriminate]. cbn [bind] in H. injection H as <-.
    cbn [length zseq]. constructor; [|exact (IH _ _ Er)].
    unfold srt_to_string in Es. destruct (checked_end c) as [e|]; [|discriminate]. cbn [bind] in Es. injection Es as <-.
    eexists. reflexivity.
Qed.

(* ---- WebVTT cue identifiers ---------------------------------------------------------------------------------------------------- *)
Definition ids_from (k : Z) (cs : list cue) : Prop := map c_id cs = map Some (zseq (k + 1) (length cs)).
Lemma ids_from_app k x y : ids_from k x -> ids_from (k + Z.of_nat (length x)) y -> ids_from k (x ++ y).
Proof.
  unfold ids_from. intros Hx Hy. rewrite map_app, app_length, zseq_app, map_app, Hx. f_equal.
  rewrite Hy. f_equal. f_equal. lia.
Qed.

Lemma vtt_process_p_ids cfg ra b en p st cs st' : cue_id cfg = true ->
  vtt_process_p cfg ra b en p st = Ok (cs, st') -> ids_from (v_counter st) cs /\ v_counter st' = v_counter st + Z.of_nat (length cs).
Proof.
  intros Hid H. unfold vtt_process_p in H. destruct (if line_position cfg then _ else _) as [line|]; [|discriminate]. cbn [bind] in H.
  destruct (vtt_inlines (echildren p) (v_css st)) as [items css]. rewrite Hid in H.
  destruct (vtt_blank _); injection H as <- <-; cbn [v_counter length]; split; try reflexivity; lia.
Qed.
Lemma vtt_blocks_ids cfg ra b en : cue_id cfg = true -> forall l,
  Forall (fun e => forall st cs st', Model.CueWriter.vtt_block cfg ra b en e st = Ok (cs, st') ->
                   ids_from (v_counter st) cs /\ v_counter st' = v_counter st + Z.of_nat (length cs)) l ->
  forall st cs st', vtt_blocks cfg ra b en l st = Ok (cs, st') -> ids_from (v_counter st) cs /\ v_counter st' = v_counter st + Z.of_nat (length cs).
Proof.
  intros Hid. induction l as [|e l IH]; intros Hl st cs st' H; cbn [vtt_blocks] in H.
  - injection H as <- <-. split; [reflexivity | cbn; lia].
  - inversion Hl as [|? ? He Hl']; subst.
    destruct (Model.CueWriter.vtt_block cfg ra b en e st) as [[x s1]|] eqn:E1; [|discriminate]. cbn [bind fst snd] in H.
    destruct (vtt_blocks cfg ra b en l s1) as [[y s2]|] eqn:E2; [|discriminate]. cbn [bind fst snd] in H. injection H as <- <-.
    destruct (He _ _ _ E1) as [A1 A2]. destruct (IH Hl' _ _ _ E2) as [B1 B2]. rewrite A2 in B1.
    split; [apply ids_from_app; assumption|]. rewrite app_length, Nat2Z.inj_add. lia.
Qed.
Lemma vtt_block_ids cfg ra b en : cue_id cfg = true -> forall e st cs st',
  Model.CueWriter.vtt_block cfg ra b en e st = Ok (cs, st') -> ids_from (v_counter st) cs /\ v_counter st' = v_counter st + Z.of_nat (length cs).
Proof.
  intros Hid. induction e as [a cs0 IH] using Proofs.Common.ElemInd.elem_ind2. intros st cs st' H. rewrite vtt_block_node in H.
  destruct (e_kind a); try (injection H as <- <-; split; [reflexivity | cbn; lia]).
  - exact (vtt_blocks_ids cfg ra b en Hid cs0 IH _ _ _ H).
  - exact (vtt_process_p_ids _ _ _ _ _ _ _ _ Hid H).
Qed.
Lemma vtt_regions_ids cfg b en : cue_id cfg = true -> forall rs st cs st',
  vtt_regions cfg b en rs st = Ok (cs, st') -> ids_from (v_counter st) cs /\ v_counter st' = v_counter st + Z.of_nat (length cs).
Proof.
  intros Hid. induction rs as [|r rs IH]; intros st cs st' H; cbn [vtt_regions] in H.
  - injection H as <- <-. split; [reflexivity | cbn; lia].
  - destruct (vtt_blocks cfg (eattrs r) b en _ st) as [[x s1]|] eqn:E1; [|discriminate]. cbn [bind fst snd] in H.
    destruct (vtt_regions cfg b en rs s1) as [[y s2]|] eqn:E2; [|discriminate]. cbn [bind fst snd] in H. injection H as <- <-.
    destruct (vtt_blocks_ids cfg (eattrs r) b en Hid _ (proj2 (Forall_forall _ _) (fun e _ => vtt_block_ids cfg (eattrs r) b en Hid e)) _ _ _ E1) as [A1 A2].
    destruct (IH _ _ _ E2) as [B1 B2]. rewrite A2 in B1.
    split; [apply ids_from_app; assumption|]. rewrite app_length, Nat2Z.inj_add. lia.
Qed.
Lemma vtt_loop_ids cfg fs : cue_id cfg = true -> forall seq st cs st',
  vtt_loop cfg fs seq st = Ok (cs, st') -> ids_from (v_counter st) cs /\ v_counter st' = v_counter st + Z.of_nat (length cs).
Proof.
  intros Hid. induction seq as [|[t regions] seq IH]; intros st cs st' H; cbn [vtt_loop] in H.
  - injection H as <- <-. split; [reflexivity | cbn; lia].
  - destruct (q_ms t) as [b|]; [|discriminate]. cbn [bind] in H. destruct (oq_ms _) as [en|]; [|discriminate]. cbn [bind] in H.
    destruct (vtt_regions cfg b en (apply_filters fs regions) st) as [[x s1]|] eqn:E1; [|discriminate]. cbn [bind fst snd] in H.
    destruct (vtt_loop cfg fs seq s1) as [[y s2]|] eqn:E2; [|discriminate]. cbn [bind fst snd] in H. injection H as <- <-.
    destruct (vtt_regions_ids _ _ _ Hid _ _ _ _ E1) as [A1 A2]. destruct (IH _ _ _ E2) as [B1 B2]. rewrite A2 in B1.
    split; [apply ids_from_app; assumption|]. rewrite app_length, Nat2Z.inj_add. lia.
Qed.
Lemma default_end_id c : c_id (default_end c) = c_id c.
Proof. unfold default_end. destruct (c_end c); reflexivity. Qed.
Lemma map_fill_ids (fill : bool) cs : map c_id (map (fun c => if fill then default_end c else c) cs) = map c_id cs.
Proof. rewrite map_map. apply map_ext. intros c. destruct fill; [apply default_end_id | reflexivity]. Qed.
Lemma finish_ids fill blank k : forall cs, Forall (fun c => blank c = false) cs -> ids_from k cs -> ids_from k (finish_cues fill blank cs).
Proof.
  induction cs as [|c cs IH] using rev_ind; intros Hk H; [exact H|].
  assert (Hf : finish_cues fill blank (cs ++ [c]) = map (fun c => if fill then default_end c else c) cs ++ finish_cues fill blank [c])
    by (apply finish_cues_app; discriminate).
  apply Forall_app in Hk as [_ Hc]. inversion Hc as [|? ? Hb _]; subst.
  rewrite Hf. unfold ids_from in *. cbn [finish_cues]. rewrite Hb.
  assert (E : (match c_end c with None => [default_end c] | Some _ => [c] end) = [default_end c])
    by (unfold default_end; destruct (c_end c); reflexivity).
  rewrite E, map_app, map_fill_ids, app_length, map_length. cbn [map length]. rewrite default_end_id.
  rewrite map_app, app_length in H. exact H.
Qed.
Theorem vtt_cues_ids cfg seq cs css : cue_id cfg = true -> vtt_cues cfg seq = Ok (cs, css) ->
  map c_id cs = map Some (zseq 1 (length cs)).
Proof.
  intros Hid H. unfold vtt_cues in H. destruct (vtt_filters cfg) as [fs|] eqn:Hfs; [|discriminate].
  destruct (vtt_loop cfg fs seq (mkVttState 0 [])) as [[cs0 st]|] eqn:E; [|discriminate]. cbn [bind fst snd] in H. injection H as <- _.
  destruct (vtt_loop_ids cfg fs Hid _ _ _ _ E) as [A _]. apply (finish_ids true vtt_blank 0); [|exact A].
  (* every cue of the loop passed the blank test *)
  destruct (vtt_filters_form cfg fs) as (c0 & d0 & Hf); [assumption|].
  pose proof (vtt_loop_spec cfg fs seq _ cs0 st E) as B. clear - B.
  induction B as [|t regions seq b en cs rest _ _ [Hat _] _ IH]; [constructor|]. apply Forall_app. split; [|exact IH].
  eapply Forall_impl; [|exact Hat]. intros x (_ & _ & Hx & _). exact Hx.
Qed.
(* ... and what is printed in front of each cue is that identifier *)
Theorem vtt_strings_ids : forall cs ss, vtt_strings cs = Ok ss ->
  Forall2 (fun c s => match c_id c with Some k => exists rest, s = print_z k ++ 10 :: rest | None => True end) cs ss.
Proof.
  induction cs as [|c cs IH]; intros ss H; cbn [vtt_strings] in H.
  - injection H as <-. constructor.
  - destruct (vtt_to_string c) as [s|] eqn:Es; [|discriminate]. cbn [bind] in H.
    destruct (vtt_strings cs) as [r|] eqn:Er; [|discriminate]. cbn [bind] in H. injection H as <-.
    constructor; [|exact (IH _ eq_refl)]. unfold vtt_to_string in Es. destruct (checked_end c) as [e|]; [|discriminate]. cbn [bind] in Es.
    injection Es as <-. destruct (c_id c); [|exact I]. eexists. rewrite <- app_assoc. reflexivity.
Qed.

(* ---- begin < end, ordering -------------------------------------------------------------------------------------------------------- *)
Definition span_ok (c : cue) : Prop := exists e, c_end c = Some e /\ c_begin c < e.
Lemma checked_end_ok c e : checked_end c = Ok e -> c_end c = Some e /\ c_begin c < e.
Proof.
  unfold checked_end. destruct (c_end c) as [x|]; [|discriminate]. destruct (x <=? c_begin c) eqn:E; [discriminate|].
  intros H. injection H as <-. split; [reflexivity | lia].
Qed.
Lemma srt_strings_spans : forall cs k ss, srt_strings k cs = Ok ss -> Forall span_ok cs.
Proof.
  induction cs as [|c cs IH]; intros k ss H; [constructor|]. cbn [srt_strings] in H.
  destruct (srt_to_string k c) as [s|] eqn:Es; [|discriminate]. cbn [bind] in H.
  destruct (srt_strings (k + 1) cs) as [r|] eqn:Er; [|discriminate]. constructor; [|exact (IH _ _ Er)].
  unfold srt_to_string in Es. destruct (checked_end c) as [e|] eqn:Ee; [|discriminate]. exists e. apply checked_end_ok, Ee.
Qed.
Lemma vtt_strings_spans : forall cs ss, vtt_strings cs = Ok ss -> Forall span_ok cs.
Proof.
  induction cs as [|c cs IH]; intros ss H; [constructor|]. cbn [vtt_strings] in H.
  destruct (vtt_to_string c) as [s|] eqn:Es; [|discriminate]. cbn [bind] in H.
  destruct (vtt_strings cs) as [r|] eqn:Er; [|discriminate]. constructor; [|exact (IH _ eq_refl)].
  unfold vtt_to_string in Es. destruct (checked_end c) as [e|] eqn:Ee; [|discriminate]. exists e. apply checked_end_ok, Ee.
Qed.

(* an earlier cue ends no later than a later cue begins, unless both cover the very same interval *)
Definition before (c1 c2 : cue) : Prop :=
  forall e1 e2, c_end c1 = Some e1 -> c_end c2 = Some e2 -> (c_begin c1 = c_begin c2 /\ e1 = e2) \/ e1 <= c_begin c2.

Lemma round_ms_clock t : round_ms t = clock_ms (Qnum t) (Zpos (Qden t)).
Proof. reflexivity. Qed.
Lemma round_ms_monotone a b : Qle a b -> round_ms a <= round_ms b.
Proof. intros H. rewrite !round_ms_clock. apply clock_monotone; try reflexivity. exact H. Qed.

Definition times_only (t : Q) (next : option Q) (regions : list elem) (cs : list cue) : Prop := Forall (times_ok t next) cs.

Lemma groups_lower_bound : forall seq cs, cue_groups times_only seq cs -> StronglySorted Qlt (map fst seq) ->
  forall t0, (exists r0 seq', seq = (t0, r0) :: seq') -> Forall (fun c => round_ms t0 <= c_begin c) cs.
Proof.
  intros seq cs G. induction G as [|t regions seq cs rest Hr G IH]; intros Hs t0 (r0 & seq' & E); [discriminate|].
  injection E as -> -> ->. apply Forall_app. split.
  - eapply Forall_impl; [|exact Hr]. intros c [Hb _]. rewrite Hb. lia.
  - cbn [map fst] in Hs. inversion Hs as [|? ? Hs' Hlt]; subst. destruct seq' as [|[t1 r1] seq''].
    + inversion G. constructor.
    + specialize (IH Hs' t1 (ex_intro _ r1 (ex_intro _ seq'' eq_refl))). eapply Forall_impl; [|exact IH].
      intros c Hc. cbn [map fst] in Hlt. inversion Hlt as [|? ? Hlt1 _]; subst.
      pose proof (round_ms_monotone t0 t1 (Qlt_le_weak _ _ Hlt1)). lia.
Qed.

Lemma FOP_app {A} (R : A -> A -> Prop) x y :
  ForallOrdPairs R x -> ForallOrdPairs R y -> (forall a b, In a x -> In b y -> R a b) -> ForallOrdPairs R (x ++ y).
Proof.
  induction x as [|a x IH]; intros Hx Hy H; [exact Hy|]. inversion Hx as [|? ? Ha Hx']; subst. cbn [app]. constructor.
  - apply Forall_app. split; [exact Ha|]. apply Forall_forall. intros b Hb. apply H; [left; reflexivity | exact Hb].
  - apply IH; [exact Hx' | exact Hy|]. intros a' b Ha' Hb. apply H; [right; exact Ha' | exact Hb].
Qed.

Theorem groups_ordered : forall seq cs, cue_groups times_only seq cs -> StronglySorted Qlt (map fst seq) -> ForallOrdPairs before cs.
Proof.
  intros seq cs G. induction G as [|t regions seq cs rest Hr G IH]; intros Hs; [constructor|].
  cbn [map fst] in Hs. inversion Hs as [|? ? Hs' Hlt]; subst. apply FOP_app; [|exact (IH Hs')|].
  - (* within a group: the same interval *)
    clear - Hr. unfold times_only in Hr. induction cs as [|c cs IHc]; [constructor|]. inversion Hr as [|? ? Hc Hcs]; subst.
    constructor; [|exact (IHc Hcs)]. eapply Forall_impl; [|exact Hcs]. intros c2 [Hb2 He2] e1 e2 E1 E2. left.
    destruct Hc as [Hb1 He1]. split; [congruence|]. destruct (next_time seq); [congruence|].
    destruct He1 as [He1|He1], He2 as [He2|He2]; congruence.
  - (* across groups: the earlier cue ends at the next significant time, which bounds every later cue from below *)
    intros c1 c2 H1 H2 e1 e2 E1 E2. right. unfold times_only in Hr. rewrite Forall_forall in Hr. destruct (Hr c1 H1) as [_ He1].
    destruct seq as [|[t1 r1] seq'] eqn:Eseq; [inversion G; subst; destruct H2|].
    cbn [next_time] in He1. rewrite E1 in He1. injection He1 as ->.
    pose proof (groups_lower_bound _ _ G Hs' t1 (ex_intro _ r1 (ex_intro _ seq' eq_refl))) as L. rewrite Forall_forall in L. apply L, H2.
Qed.

Lemma sequence_sorted d seq : isd_sequence d = Ok seq -> StronglySorted Qlt (map fst seq).
Proof.
  intros H. destruct (sequence_spec d seq H) as (l & Hl & Hm & _). rewrite Hm. apply (sig_sorted false d l Hl).
Qed.

(* the cue lists of both writers, whenever the writer gets as far as a string *)
Theorem srt_cues_wf d fmt seq cs ss :
  isd_sequence d = Ok seq -> srt_cues fmt seq = Ok cs -> srt_strings 1 cs = Ok ss ->
  Forall span_ok cs /\ ForallOrdPairs before cs /\
  Forall2 (fun i s => exists rest, s = print_z i ++ 10 :: rest) (zseq 1 (length cs)) ss.
Proof.
  intros Hd Hc Hs. split; [exact (srt_strings_spans _ _ _ Hs)|]. split; [|exact (srt_strings_counters _ _ _ Hs)].
  apply (groups_ordered seq); [|exact (sequence_sorted d seq Hd)].
  eapply cue_groups_impl; [|exact (srt_cues_groups fmt seq cs Hc)]. intros t n r x [H _]. exact H.
Qed.
Theorem vtt_cues_wf d cfg seq cs css ss :
  isd_sequence d = Ok seq -> vtt_cues cfg seq = Ok (cs, css) -> vtt_strings cs = Ok ss ->
  Forall span_ok cs /\ ForallOrdPairs before cs /\
  (cue_id cfg = true -> map c_id cs = map Some (zseq 1 (length cs))) /\
  Forall2 (fun c s => match c_id c with Some k => exists rest, s = print_z k ++ 10 :: rest | None => True end) cs ss.
Proof.
  intros Hd Hc Hs. split; [exact (vtt_strings_spans _ _ Hs)|].
  assert (Hfs : exists fs, vtt_filters cfg = Some fs) by (unfold vtt_cues in Hc; destruct (vtt_filters cfg) as [fs|]; [eexists; reflexivity | discriminate]).
  destruct Hfs as [fs Hfs]. split; [|split; [|exact (vtt_strings_ids _ _ Hs)]].
  - apply (groups_ordered seq); [|exact (sequence_sorted d seq Hd)].
    eapply cue_groups_impl; [|exact (vtt_cues_groups cfg fs seq cs css Hfs Hc)]. intros t n r x [H _]. exact H.
  - intros Eid. exact (vtt_cues_ids cfg seq cs css Eid Hc).
Qed.

(* ---- the writers return a string unless a cue is left without an end or collapses (the two recorded findings) -------------------- *)
Lemma checked_end_total c : trig_collapsed [c] = false -> trig_unbounded [c] = false -> exists e, checked_end c = Ok e.
Proof.
  unfold trig_collapsed, trig_unbounded, checked_end. cbn [existsb]. rewrite !orb_false_r. destruct (c_end c) as [e|]; [|discriminate].
  intros H _. rewrite H. eexists. reflexivity.
Qed.
Theorem srt_strings_total : forall cs k, trig_collapsed cs = false -> trig_unbounded cs = false -> exists ss, srt_strings k cs = Ok ss.
Proof.
  induction cs as [|c cs IH]; intros k H1 H2; [eexists; reflexivity|].
  unfold trig_collapsed in H1. unfold trig_unbounded in H2. cbn [existsb] in H1, H2.
  apply orb_false_iff in H1 as [H1a H1b]. apply orb_false_iff in H2 as [H2a H2b].
  destruct (checked_end_total c) as [e He]; [unfold trig_collapsed; cbn [existsb]; rewrite H1a; reflexivity
                                            | unfold trig_unbounded; cbn [existsb]; rewrite H2a; reflexivity|].
  destruct (IH (k + 1) H1b H2b) as [ss Hss]. cbn [srt_strings]. unfold srt_to_string. rewrite He. cbn [bind]. rewrite Hss. cbn [bind].
  eexists. reflexivity.
Qed.
Theorem vtt_strings_total : forall cs, trig_collapsed cs = false -> trig_unbounded cs = false -> exists ss, vtt_strings cs = Ok ss.
Proof.
  induction cs as [|c cs IH]; intros H1 H2; [eexists; reflexivity|].
  unfold trig_collapsed in H1. unfold trig_unbounded in H2. cbn [existsb] in H1, H2.
  apply orb_false_iff in H1 as [H1a H1b]. apply orb_false_iff in H2 as [H2a H2b].
  destruct (checked_end_total c) as [e He]; [unfold trig_collapsed; cbn [existsb]; rewrite H1a; reflexivity
                                            | unfold trig_unbounded; cbn [existsb]; rewrite H2a; reflexivity|].
  destruct (IH H1b H2b) as [ss Hss]. cbn [vtt_strings]. unfold vtt_to_string. rewrite He. cbn [bind]. rewrite Hss. cbn [bind].
  eexists. reflexivity.
Qed.
Theorem srt_total fmt seq cs : srt_cues fmt seq = Ok cs -> trig_collapsed cs = false -> trig_unbounded cs = false ->
  exists out, srt_of_seq fmt (Ok seq) = Ok out.
Proof.
  intros Hc H1 H2. destruct (srt_strings_total cs 1 H1 H2) as [ss Hss]. unfold srt_of_seq. cbn [bind]. rewrite Hc. cbn [bind].
  rewrite Hss. cbn [bind]. eexists. reflexivity.
Qed.
Theorem vtt_total cfg seq cs css : vtt_cues cfg seq = Ok (cs, css) -> trig_collapsed cs = false -> trig_unbounded cs = false ->
  exists out, vtt_of_seq cfg (Ok seq) = Ok out.
Proof.
  intros Hc H1 H2. destruct (vtt_strings_total cs H1 H2) as [ss Hss]. unfold vtt_of_seq. cbn [bind]. rewrite Hc. cbn [bind fst snd].
  rewrite Hss. cbn [bind]. eexists. reflexivity.
Qed.

(* ---- the shape of the files ----------------------------------------------------------------------------------------------------------- *)
Theorem vtt_file_shape cfg seq out : vtt_of_seq cfg (Ok seq) = Ok out ->
  exists cs css ss, vtt_cues cfg seq = Ok (cs, css) /\ vtt_strings cs = Ok ss /\ out = webvtt_header ++ style_block css ++ join_text [10] ss.
Proof.
  unfold vtt_of_seq. cbn [bind]. destruct (vtt_cues cfg seq) as [[cs css]|] eqn:E1; [|discriminate]. cbn [bind fst snd].
  destruct (vtt_strings cs) as [ss|] eqn:E2; [|discriminate]. cbn [bind]. intros H. injection H as <-. exists cs, css, ss.
  split; [reflexivity|]. split; [exact E2 | reflexivity].
Qed.
Theorem srt_file_shape fmt seq out : srt_of_seq fmt (Ok seq) = Ok out ->
  exists cs ss, srt_cues fmt seq = Ok cs /\ srt_strings 1 cs = Ok ss /\ out = join_text [10] ss.
Proof.
  unfold srt_of_seq. cbn [bind]. destruct (srt_cues fmt seq) as [cs|] eqn:E1; [|discriminate]. cbn [bind].
  destruct (srt_strings 1 cs) as [ss|] eqn:E2; [|discriminate]. cbn [bind]. intros H. injection H as <-. exists cs, ss.
  split; [reflexivity|]. split; [exact E2 | reflexivity].
Qed.
(* the example of Proofs/C06/Text.v goes through both writers *)
Lemma c07_example_ok :
  exists cs, srt_cues true c06_example = Ok cs /\ trig_collapsed cs = false /\ trig_unbounded cs = false /\ cs <> [].
Proof. eexists. split; [reflexivity|]. split; [reflexivity|]. split; [reflexivity | discriminate]. Qed.
