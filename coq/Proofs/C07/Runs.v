(* C07: the payload of every cue, read back by the lexers and the tag-stack walk of Spec/CueSpec.v (`srt_runs`, `vtt_runs`), gives
   every character the style of the tags of its enclosing spans — for every paragraph, for both writers:
     srt_runs (cue_text esc_none c) = Some r   and   visible_only r = visible_only (the characters of the paragraph, each with the
                                                      style of the stack of the tags of the spans that enclose it)
   i.e. the tags are balanced, properly nested, recognised by the format's grammar, and enclose exactly the characters of the spans
   that carry the style value.  WebVTT: for every text (it is escaped).  SubRip: for text without "<" (no escape mechanism).
   Layers: (1) the lexers map the flattened item list back to one token per item; (2) normalize_eol only deletes line terminators,
   which no comparison looks at; (3) the tag-stack walk over the tokens of a span is the walk over its children under the span's
   tags. *)
From TT Require Import Model.Doc Gen.StyleTables Model.Isd Model.SigTimes Model.TimeCode Model.IsdFilters Gen.CueTables Model.CueWriter.
From TT Require Import Model.CueTriggers Spec.IsdSpec Spec.CueSpec Proofs.Common.ElemInd.
From TT Require Import Proofs.C06.Filters Proofs.C06.Inline Proofs.C06.Strip Proofs.C06.Loop Proofs.C07.Tags.

(* ---- items to tokens -------------------------------------------------------------------------------------------------------- *)
Definition item_tok (tok : text -> ptok) (i : item) : ptok := match i with ITag t => tok t | IChr c => PChar c end.
Definition toks (tok : text -> ptok) (l : list item) : list ptok := map (item_tok tok) l.
Lemma toks_app tok a b : toks tok (a ++ b) = toks tok a ++ toks tok b.
Proof. apply map_app. Qed.

(* the token a tag string stands for: what the format's tag recogniser says about the text between "<" and ">" *)
Definition tag_inner (t : text) : text := removelast (tl t).
Definition srt_tok (t : text) : ptok := match srt_tag (tag_inner t) with Some p => p | None => PChar 0 end.
Definition vtt_tok (t : text) : ptok := match vtt_tag (tag_inner t) with Some p => p | None => PChar 0 end.

(* ---- SubRip lexer ------------------------------------------------------------------------------------------------------------- *)
Lemma srt_lex_ltag : forall inner buf rest, (forall x, In x inner -> x <> 60 /\ x <> 62) ->
  srt_lex (LTag buf) (inner ++ 62 :: rest) =
  match srt_tag (rev buf ++ inner) with
  | Some p => p :: srt_lex LText rest
  | None => chars_of_buf (rev inner ++ buf) ++ PChar 62 :: srt_lex LText rest
  end.
Proof.
  induction inner as [|c inner IH]; intros buf rest H.
  - cbn [app srt_lex Z.eqb Pos.eqb]. rewrite app_nil_r. reflexivity.
  - destruct (H c (or_introl eq_refl)) as [H1 H2]. cbn [app srt_lex].
    replace (c =? 62) with false by (symmetry; apply Z.eqb_neq; exact H2).
    replace (c =? 60) with false by (symmetry; apply Z.eqb_neq; exact H1).
    rewrite IH by (intros x Hx; apply H; right; exact Hx). cbn [rev]. rewrite <- !app_assoc. reflexivity.
Qed.
(* a tag the lexer recognises: "<" inner ">", no "<" or ">" inside, and the recogniser knows inner *)
Definition srt_tag_lex (t : text) : Prop :=
  exists inner p, t = 60 :: inner ++ [62] /\ (forall x, In x inner -> x <> 60 /\ x <> 62) /\ srt_tag inner = Some p.
Lemma tag_inner_shape inner : tag_inner (60 :: inner ++ [62]) = inner.
Proof. unfold tag_inner. cbn [tl]. apply removelast_last. Qed.
Lemma srt_lex_tag t rest : srt_tag_lex t -> srt_lex LText (t ++ rest) = srt_tok t :: srt_lex LText rest.
Proof.
  intros (inner & p & -> & Hi & Hp). unfold srt_tok. rewrite tag_inner_shape, Hp. cbn [app srt_lex Z.eqb Pos.eqb].
  rewrite <- app_assoc. cbn [app]. rewrite srt_lex_ltag by exact Hi. cbn [rev app]. rewrite Hp. reflexivity.
Qed.
Lemma srt_lex_chr c rest : c <> 60 -> srt_lex LText (c :: rest) = PChar c :: srt_lex LText rest.
Proof. intros H. cbn [srt_lex]. replace (c =? 60) with false by (symmetry; apply Z.eqb_neq; exact H). reflexivity. Qed.
Theorem srt_lex_flat : forall l, items_ok srt_tag_lex l -> ~ In 60 (chars_of l) -> srt_lex LText (flat esc_none l) = toks srt_tok l.
Proof.
  induction l as [|i l IH]; intros Hl Hc; [reflexivity|]. inversion Hl as [|? ? Hi Hl']; subst. destruct i as [t|c].
  - change (flat esc_none (ITag t :: l)) with (t ++ flat esc_none l). rewrite (srt_lex_tag t _ Hi), (IH Hl' Hc). reflexivity.
  - change (flat esc_none (IChr c :: l)) with (c :: flat esc_none l). change (chars_of (IChr c :: l)) with (c :: chars_of l) in Hc.
    rewrite srt_lex_chr by (intros E; apply Hc; left; rewrite E; reflexivity).
    assert (Hc' : ~ In 60 (chars_of l)) by (intros Hx; apply Hc; right; exact Hx).
    rewrite (IH Hl' Hc'). reflexivity.
Qed.

Lemma existsb_not_in q v : ~ In q v -> existsb (Z.eqb q) v = false.
Proof.
  intros H. apply not_true_iff_false. intros E. apply existsb_exists in E as (x & Hx & E). apply Z.eqb_eq in E. subst x. exact (H Hx).
Qed.
Lemma srt_tag_font v : ~ In 34 v ->
  srt_tag ([102; 111; 110; 116; 32; 99; 111; 108; 111; 114; 61; 34] ++ v ++ [34]) = Some (POpen TgFont [v]).
Proof.
  intros Hv. unfold srt_tag. set (inner := [102; 111; 110; 116; 32; 99; 111; 108; 111; 114; 61; 34] ++ v ++ [34]).
  assert (E1 : text_eqb inner t_b = false) by reflexivity. assert (E2 : text_eqb inner t_i = false) by reflexivity.
  assert (E3 : text_eqb inner t_u = false) by reflexivity. assert (E4 : text_eqb inner (47 :: t_b) = false) by reflexivity.
  assert (E5 : text_eqb inner (47 :: t_i) = false) by reflexivity. assert (E6 : text_eqb inner (47 :: t_u) = false) by reflexivity.
  assert (E7 : text_eqb inner (47 :: t_font) = false) by reflexivity.
  rewrite E1, E2, E3, E4, E5, E6, E7.
  assert (E8 : has_prefix (t_font ++ [32; 99; 111; 108; 111; 114; 61; 34]) inner = true) by reflexivity. rewrite E8.
  assert (E9 : skipn (length (t_font ++ [32; 99; 111; 108; 111; 114; 61; 34])) inner = v ++ [34]) by reflexivity. rewrite E9.
  rewrite rev_unit, Z.eqb_refl, existsb_not_in by (intros Hx; apply Hv, in_rev, Hx). cbn [negb andb]. rewrite rev_involutive. reflexivity.
Qed.
(* the tags the SubRip writer emits are such tags *)
Lemma srt_tag_ok_lex t : srt_tag_ok t -> srt_tag_lex t.
Proof.
  intros H. unfold srt_tag_ok in H.
  assert (F : forall inner p, (forall x, In x inner -> x <> 60 /\ x <> 62) -> srt_tag inner = Some p -> srt_tag_lex (60 :: inner ++ [62]))
    by (intros inner p H1 H2; exists inner, p; split; [reflexivity | split; assumption]).
  assert (S : forall inner : text, forallb (fun x => negb (x =? 60) && negb (x =? 62)) inner = true -> forall x, In x inner -> x <> 60 /\ x <> 62).
  { intros inner Hb x Hx. rewrite forallb_forall in Hb. specialize (Hb x Hx). apply andb_true_iff in Hb as [B1 B2].
    split; apply Z.eqb_neq, negb_true_iff; assumption. }
  destruct H as [->|[->|[->|[->|[->|[->|[->|[rgba ->]]]]]]]].
  - exact (F [98] _ (S [98] eq_refl) eq_refl).
  - exact (F [47; 98] _ (S [47; 98] eq_refl) eq_refl).
  - exact (F [105] _ (S [105] eq_refl) eq_refl).
  - exact (F [47; 105] _ (S [47; 105] eq_refl) eq_refl).
  - exact (F [117] _ (S [117] eq_refl) eq_refl).
  - exact (F [47; 117] _ (S [47; 117] eq_refl) eq_refl).
  - exact (F [47; 102; 111; 110; 116] _ (S [47; 102; 111; 110; 116] eq_refl) eq_refl).
  - destruct (hex8_shape rgba) as (h1 & h2 & h3 & h4 & h5 & h6 & h7 & h8 & E). pose proof (hex8_plain rgba) as Hp. rewrite E in Hp.
    repeat (apply Forall_cons_iff in Hp as [? Hp]). unfold plain_char in *.
    set (val := [35; h1; h2; h3; h4; h5; h6; h7; h8]).
    unfold color_string. rewrite E.
    change (srt_FONT_COLOR_TAG_IN_pre ++ (35 :: [h1; h2; h3; h4; h5; h6; h7; h8]) ++ srt_FONT_COLOR_TAG_IN_suf)
      with (60 :: ([102; 111; 110; 116; 32; 99; 111; 108; 111; 114; 61; 34] ++ val ++ [34]) ++ [62]).
    apply (F ([102; 111; 110; 116; 32; 99; 111; 108; 111; 114; 61; 34] ++ val ++ [34]) (POpen TgFont [val])).
    + intros x Hx. apply in_app_iff in Hx as [Hx|Hx]; [exact (S [102; 111; 110; 116; 32; 99; 111; 108; 111; 114; 61; 34] eq_refl x Hx)|]. apply in_app_iff in Hx as [Hx|Hx]; [|exact (S [34] eq_refl x Hx)].
      unfold val in Hx. cbn [In] in Hx.
      destruct Hx as [Hx|[Hx|[Hx|[Hx|[Hx|[Hx|[Hx|[Hx|[Hx|[]]]]]]]]]]; subst x; split; try discriminate; tauto.
    + apply srt_tag_font. unfold val. cbn [In]. intros [Hx|[Hx|[Hx|[Hx|[Hx|[Hx|[Hx|[Hx|[Hx|[]]]]]]]]]]; try discriminate; subst; tauto.
Qed.
Lemma items_ok_impl (P Q : text -> Prop) l : (forall t, P t -> Q t) -> items_ok P l -> items_ok Q l.
Proof. intros H Hl. eapply Forall_impl; [|exact Hl]. intros [t|c] Hi; [apply H, Hi | exact I]. Qed.

(* ---- WebVTT lexer -------------------------------------------------------------------------------------------------------------- *)
Lemma vtt_lex_ltag : forall inner buf rest, (forall x, In x inner -> x <> 60 /\ x <> 62 /\ x <> 10 /\ x <> 13) ->
  vtt_lex (LTag buf) (inner ++ 62 :: rest) =
  match vtt_tag (rev buf ++ inner), vtt_lex LText rest with Some p, Some r => Some (p :: r) | _, _ => None end.
Proof.
  induction inner as [|c inner IH]; intros buf rest H.
  - cbn [app vtt_lex Z.eqb Pos.eqb]. rewrite app_nil_r. reflexivity.
  - destruct (H c (or_introl eq_refl)) as (H1 & H2 & H3 & H4). cbn [app vtt_lex].
    replace (c =? 62) with false by (symmetry; apply Z.eqb_neq; exact H2).
    replace (c =? 60) with false by (symmetry; apply Z.eqb_neq; exact H1).
    replace (c =? 10) with false by (symmetry; apply Z.eqb_neq; exact H3).
    replace (c =? 13) with false by (symmetry; apply Z.eqb_neq; exact H4). cbn [orb].
    rewrite IH by (intros x Hx; apply H; right; exact Hx). cbn [rev]. rewrite <- !app_assoc. reflexivity.
Qed.
Definition vtt_tag_lex (t : text) : Prop :=
  exists inner p, t = 60 :: inner ++ [62] /\ (forall x, In x inner -> x <> 60 /\ x <> 62 /\ x <> 10 /\ x <> 13) /\ vtt_tag inner = Some p.
Lemma vtt_lex_tag t rest : vtt_tag_lex t ->
  vtt_lex LText (t ++ rest) = match vtt_lex LText rest with Some r => Some (vtt_tok t :: r) | None => None end.
Proof.
  intros (inner & p & -> & Hi & Hp). unfold vtt_tok. rewrite tag_inner_shape, Hp. cbn [app vtt_lex Z.eqb Pos.eqb].
  rewrite <- app_assoc. cbn [app]. rewrite vtt_lex_ltag by exact Hi. cbn [rev app]. rewrite Hp. reflexivity.
Qed.
(* an escaped character is read back as the character *)
Lemma vtt_lex_esc c rest : vtt_lex LText (esc_vtt c ++ rest) = match vtt_lex LText rest with Some r => Some (PChar c :: r) | None => None end.
Proof.
  unfold esc_vtt. destruct (c =? 38) eqn:E1; [apply Z.eqb_eq in E1; subst c; reflexivity|].
  destruct (c =? 60) eqn:E2; [apply Z.eqb_eq in E2; subst c; reflexivity|].
  cbn [app vtt_lex]. rewrite E1, E2. reflexivity.
Qed.
Theorem vtt_lex_flat : forall l, items_ok vtt_tag_lex l -> vtt_lex LText (flat esc_vtt l) = Some (toks vtt_tok l).
Proof.
  induction l as [|i l IH]; intros Hl; [reflexivity|]. inversion Hl as [|? ? Hi Hl']; subst. destruct i as [t|c].
  - change (flat esc_vtt (ITag t :: l)) with (t ++ flat esc_vtt l). rewrite (vtt_lex_tag t _ Hi), (IH Hl'). reflexivity.
  - change (flat esc_vtt (IChr c :: l)) with (esc_vtt c ++ flat esc_vtt l). rewrite vtt_lex_esc, (IH Hl'). reflexivity.
Qed.

(* ---- normalize_eol deletes line terminators only: the visible runs stay ------------------------------------------------------- *)
Definition vis_runs {A} (r : list (Z * A)) : list (Z * A) := filter (fun x => visible_char (fst x)) r.
Lemma blank_eol c : is_eol c = true -> visible_char c = false.
Proof. unfold is_eol. intros H. apply orb_true_iff in H as [H|H]; apply Z.eqb_eq in H; subst c; reflexivity. Qed.
Lemma runs_go_del tok : forall l l', del_items l l' -> forall st r, runs_go st (toks tok l) = Some r ->
  exists r', runs_go st (toks tok l') = Some r' /\ vis_runs r' = vis_runs r.
Proof.
  intros l l' H. induction H as [|i l l' H IH|c l l' Hc H IH]; intros st r Hr.
  - exists r. split; [exact Hr | reflexivity].
  - destruct i as [t|c]; cbn [toks map item_tok] in *.
    + destruct (tok t) as [x|n a|n].
      * cbn [runs_go] in *. destruct (runs_go st (map (item_tok tok) l)) as [r0|] eqn:E; [|discriminate]. injection Hr as <-.
        destruct (IH st r0 E) as (r' & H1 & H2). fold (toks tok l') in *. rewrite H1. eexists. split; [reflexivity|].
        unfold vis_runs in *. cbn [filter fst]. rewrite H2. reflexivity.
      * cbn [runs_go] in *. exact (IH _ _ Hr).
      * cbn [runs_go] in *. destruct st as [|[m ?] st']; [discriminate|]. destruct (tagname_eqb n m); [exact (IH _ _ Hr) | discriminate].
    + cbn [runs_go] in *. destruct (runs_go st (map (item_tok tok) l)) as [r0|] eqn:E; [|discriminate]. injection Hr as <-.
      destruct (IH st r0 E) as (r' & H1 & H2). fold (toks tok l') in *. rewrite H1. eexists. split; [reflexivity|].
      unfold vis_runs in *. cbn [filter fst]. rewrite H2. reflexivity.
  - cbn [toks map item_tok runs_go] in Hr. destruct (runs_go st (map (item_tok tok) l)) as [r0|] eqn:E; [|discriminate]. injection Hr as <-.
    destruct (IH st r0 E) as (r' & H1 & H2). exists r'. split; [exact H1|]. unfold vis_runs in *. cbn [filter fst].
    rewrite (blank_eol c Hc). exact H2.
Qed.

(* ---- the tag-stack walk over the tree -------------------------------------------------------------------------------------------- *)
(* the opening tags of a span as tokens, in the order written *)
Definition srt_span_opens (fmt : bool) (a : attrs) : list (tagname * list text) :=
  if fmt then
    (match get_color_of a p_Color with Some c => [(TgFont, [color_string c])] | None => [] end) ++
    (if is_element_bold a then [(TgB, [])] else []) ++ (if is_element_italic a then [(TgI, [])] else []) ++
    (if is_element_underlined a then [(TgU, [])] else [])
  else [].
Definition vtt_span_opens (a : attrs) : list (tagname * list text) :=
  (match get_color_of a p_Color with Some c => [(TgC, [class_name false c])] | None => [] end) ++
  (match get_color_of a p_BackgroundColor with Some c => [(TgC, [class_name true c])] | None => [] end) ++
  (if is_element_bold a then [(TgB, [])] else []) ++ (if is_element_italic a then [(TgI, [])] else []) ++
  (if is_element_underlined a then [(TgU, [])] else []).
(* the characters below an element, each with the style of the tags open around it (stack: innermost first) *)
Fixpoint tree_runs (opens : attrs -> list (tagname * list text)) (st : list (tagname * list text)) (e : elem) : list (Z * rstyle) :=
  match e with
  | Elem a cs =>
      match e_kind a with
      | KSpan => (fix go (l : list elem) : list (Z * rstyle) :=
                    match l with [] => [] | c :: l' => tree_runs opens (rev (opens a) ++ st) c ++ go l' end) cs
      | KRuby | KRbc | KRb => (fix go (l : list elem) : list (Z * rstyle) :=
                                 match l with [] => [] | c :: l' => tree_runs opens st c ++ go l' end) cs
      | KBr => [(10, style_of_stack st)]
      | KText => map (fun c => (c, style_of_stack st)) (e_text a)
      | _ => []
      end
  end.
Lemma tree_runs_node opens st a cs :
  tree_runs opens st (Elem a cs) =
  match e_kind a with
  | KSpan => flat_map (tree_runs opens (rev (opens a) ++ st)) cs
  | KRuby | KRbc | KRb => flat_map (tree_runs opens st) cs
  | KBr => [(10, style_of_stack st)]
  | KText => map (fun c => (c, style_of_stack st)) (e_text a)
  | _ => []
  end.
Proof. cbn [tree_runs]. destruct (e_kind a); reflexivity. Qed.

Definition opt_app {A} (x : list A) (o : option (list A)) : option (list A) := match o with Some r => Some (x ++ r) | None => None end.
Lemma opt_app_nil {A} (o : option (list A)) : opt_app [] o = o.
Proof. destruct o; reflexivity. Qed.
Lemma opt_app_app {A} (x y : list A) o : opt_app (x ++ y) o = opt_app x (opt_app y o).
Proof. destruct o; cbn [opt_app]; [rewrite app_assoc|]; reflexivity. Qed.

Lemma runs_go_chars st t rest : runs_go st (map PChar t ++ rest) = opt_app (map (fun c => (c, style_of_stack st)) t) (runs_go st rest).
Proof.
  induction t as [|c t IH]; [cbn [map app]; symmetry; apply opt_app_nil|]. cbn [map app runs_go]. rewrite IH.
  destruct (runs_go st rest); reflexivity.
Qed.
Lemma runs_go_opens : forall os st rest, runs_go st (map (fun x => POpen (fst x) (snd x)) os ++ rest) = runs_go (rev os ++ st) rest.
Proof.
  induction os as [|[n a] os IH]; intros st rest; [reflexivity|]. cbn [map app runs_go fst snd]. rewrite IH. cbn [rev]. rewrite <- app_assoc. reflexivity.
Qed.
Lemma runs_go_closes : forall os st rest, runs_go (rev os ++ st) (map (fun x => PClose (fst x)) (rev os) ++ rest) = runs_go st rest.
Proof.
  intros os. induction os as [|[n a] os IH] using rev_ind; intros st rest; [reflexivity|].
  rewrite rev_unit. cbn [app map runs_go fst]. assert (E : tagname_eqb n n = true) by (destruct n; reflexivity). rewrite E. apply IH.
Qed.

Section Walk.
  Variable tok : text -> ptok.
  Variable opens : attrs -> list (tagname * list text).
  Variable inline : elem -> list item.
  (* the items of a span are its opening tags, the items of its children, its closing tags in reverse order *)
  Hypothesis inline_node : forall a cs,
    toks tok (inline (Elem a cs)) =
    match e_kind a with
    | KSpan => map (fun x => POpen (fst x) (snd x)) (opens a) ++ flat_map (fun c => toks tok (inline c)) cs ++
               map (fun x => PClose (fst x)) (rev (opens a))
    | KRuby | KRbc | KRb => flat_map (fun c => toks tok (inline c)) cs
    | KBr => [PChar 10]
    | KText => map PChar (e_text a)
    | _ => []
    end.

  Theorem walk_tree : forall e st rest, runs_go st (toks tok (inline e) ++ rest) = opt_app (tree_runs opens st e) (runs_go st rest).
  Proof.
    induction e as [a cs IH] using elem_ind2. intros st rest. rewrite inline_node, tree_runs_node.
    assert (G : forall st0 rest0, runs_go st0 (flat_map (fun c => toks tok (inline c)) cs ++ rest0) =
                                  opt_app (flat_map (tree_runs opens st0) cs) (runs_go st0 rest0)).
    { intros st0. induction cs as [|c cs IHcs]; intros rest0; [symmetry; apply opt_app_nil|]. inversion IH as [|? ? Hc Hcs]; subst.
      cbn [flat_map]. rewrite <- app_assoc, Hc, (IHcs Hcs), opt_app_app. reflexivity. }
    destruct (e_kind a).
    all: try (cbn [app]; symmetry; apply opt_app_nil).
    - (* span *) rewrite <- !app_assoc, runs_go_opens, G, runs_go_closes. reflexivity.
    - (* br *) cbn [app runs_go]. destruct (runs_go st rest); reflexivity.
    - (* text *) apply runs_go_chars.
    - (* ruby *) apply G.
    - (* rb *) apply G.
    - (* rbc *) apply G.
  Qed.
  Corollary walk_children cs : runs_go [] (toks tok (flat_map inline cs)) = Some (flat_map (tree_runs opens []) cs).
  Proof.
    induction cs as [|c cs IH]; [reflexivity|]. cbn [flat_map]. rewrite toks_app, walk_tree, IH. reflexivity.
  Qed.
End Walk.

(* ---- SubRip --------------------------------------------------------------------------------------------------------------------- *)
Lemma toks_flat_map {A} tok (f : A -> list item) l : toks tok (flat_map f l) = flat_map (fun x => toks tok (f x)) l.
Proof. induction l as [|x l IH]; [reflexivity|]. cbn [flat_map]. rewrite toks_app, IH. reflexivity. Qed.
Lemma srt_tok_font c : srt_tok (srt_FONT_COLOR_TAG_IN_pre ++ color_string c ++ srt_FONT_COLOR_TAG_IN_suf) = POpen TgFont [color_string c].
Proof.
  unfold srt_tok.
  change (srt_FONT_COLOR_TAG_IN_pre ++ color_string c ++ srt_FONT_COLOR_TAG_IN_suf)
    with (60 :: ([102; 111; 110; 116; 32; 99; 111; 108; 111; 114; 61; 34] ++ color_string c ++ [34]) ++ [62]).
  rewrite tag_inner_shape, srt_tag_font; [reflexivity|]. unfold color_string. intros [H|H]; [discriminate|].
  pose proof (hex8_plain c) as Hp. rewrite Forall_forall in Hp. destruct (Hp 34 H) as [E _]. apply E. reflexivity.
Qed.
Lemma srt_inline_toks fmt a cs :
  toks srt_tok (srt_inline fmt (Elem a cs)) =
  match e_kind a with
  | KSpan => map (fun x => POpen (fst x) (snd x)) (srt_span_opens fmt a) ++ flat_map (fun c => toks srt_tok (srt_inline fmt c)) cs ++
             map (fun x => PClose (fst x)) (rev (srt_span_opens fmt a))
  | KRuby | KRbc | KRb => flat_map (fun c => toks srt_tok (srt_inline fmt c)) cs
  | KBr => [PChar 10]
  | KText => map PChar (e_text a)
  | _ => []
  end.
Proof.
  assert (G : toks srt_tok ((fix go (l : list elem) : list item := match l with [] => [] | c :: l' => srt_inline fmt c ++ go l' end) cs)
              = flat_map (fun c => toks srt_tok (srt_inline fmt c)) cs).
  { change ((fix go (l : list elem) : list item := match l with [] => [] | c :: l' => srt_inline fmt c ++ go l' end) cs)
      with (flat_map (srt_inline fmt) cs). apply toks_flat_map. }
  cbn [srt_inline]. destruct (e_kind a); try reflexivity; try exact G.
  - (* span *) unfold srt_span_opens. rewrite !toks_app, G.
    destruct fmt; [|cbn [app map rev toks]; rewrite app_nil_r; reflexivity].
    destruct (get_color_of a p_Color) as [c|], (is_element_bold a), (is_element_italic a), (is_element_underlined a);
      cbn [toks map item_tok app rev fst snd]; rewrite ?srt_tok_font; rewrite <- ?app_assoc; reflexivity.
  - (* text *) unfold toks. rewrite map_map. reflexivity.
Qed.

(* every paragraph: the payload lexes, its tags balance, and the visible characters carry the styles of the enclosing spans' tags *)
Theorem srt_paragraph_runs fmt cs0 c : c_items c = flat_map (srt_inline fmt) cs0 -> ~ In 60 (cue_chars c) ->
  exists r, srt_runs (cue_text esc_none c) = Some r /\ vis_runs r = vis_runs (flat_map (tree_runs (srt_span_opens fmt) []) cs0).
Proof.
  intros Hi Hc. unfold srt_runs, cue_text, cue_chars in *.
  assert (Hok : items_ok srt_tag_ok (c_items c)) by (rewrite Hi; apply items_ok_flat_map; intros x _; apply srt_inline_items).
  destruct (del_flat esc_none srt_tag_ok esc_none_eol srt_tag_no_eol _ Hok _ (del_normalize (flat esc_none (c_items c)))) as (l' & Hd & ->).
  rewrite srt_lex_flat.
  - pose proof (walk_children srt_tok (srt_span_opens fmt) (srt_inline fmt) (srt_inline_toks fmt) cs0) as W. rewrite <- Hi in W.
    destruct (runs_go_del srt_tok _ _ Hd [] _ W) as (r' & H1 & H2). exists r'. split; assumption.
  - apply (items_ok_impl srt_tag_ok); [exact srt_tag_ok_lex | exact (del_items_ok _ _ _ Hd Hok)].
  - intros Hx. apply Hc. exact (del_in _ _ (del_items_chars _ _ Hd) 60 Hx).
Qed.

(* ---- WebVTT --------------------------------------------------------------------------------------------------------------------- *)
(* a class name: not empty, no ".", no blank, no "<", ">", line terminator *)
Definition name_char_b (x : Z) : bool :=
  negb (x =? 46) && negb (x =? 32) && negb (x =? 9) && negb (x =? 60) && negb (x =? 62) && negb (x =? 10) && negb (x =? 13).
Definition name_ok (n : text) : Prop := n <> [] /\ forallb name_char_b n = true.
Lemma hex2_name b : 0 <= b < 256 -> forallb name_char_b (hex2 b) = true.
Proof.
  intros H. unfold hex2. assert (H1 : 0 <= b / 16 < 16) by lia. assert (H2 : 0 <= b mod 16 < 16) by lia.
  destruct (hex_digit_range _ H1) as (A1 & A2 & A3). destruct (hex_digit_range _ H2) as (B1 & B2 & B3).
  cbn [forallb]. unfold name_char_b.
  repeat match goal with |- context [?h =? ?k] => replace (h =? k) with false by (symmetry; apply Z.eqb_neq; lia) end. reflexivity.
Qed.
Lemma hex8_name c : forallb name_char_b (hex8 c) = true.
Proof. unfold hex8. rewrite !forallb_app, !hex2_name by lia. reflexivity. Qed.
Lemma class_name_ok bg c : name_ok (class_name bg c).
Proof.
  unfold class_name. destruct (assoc_z _ c) as [n|] eqn:E.
  - apply assoc_z_in in E.
    assert (T : forallb (fun n => negb (match n with [] => true | _ => false end) && forallb name_char_b n)
                        (map snd (if bg then vtt_default_background_colors else vtt_default_text_colors)) = true) by (destruct bg; vm_compute; reflexivity).
    rewrite forallb_forall in T. specialize (T n E). apply andb_true_iff in T as [T1 T2]. split; [destruct n; [discriminate | discriminate]|exact T2].
  - split.
    + destruct bg; discriminate.
    + rewrite forallb_app, hex8_name, andb_true_r. destruct bg; vm_compute; reflexivity.
Qed.

Lemma take_pred_all f : forall t, forallb f t = true -> take_pred f t = t.
Proof. induction t as [|c t IH]; intros H; [reflexivity|]. cbn [forallb] in H. apply andb_true_iff in H as [H1 H2]. cbn [take_pred]. rewrite H1, (IH H2). reflexivity. Qed.
Lemma skipn_all {A} (t : list A) : skipn (length t) t = [].
Proof. induction t; [reflexivity | exact IHt]. Qed.
Lemma split_on_go_none sep : forall t cur, ~ In sep t -> split_on_go sep cur t = [rev cur ++ t].
Proof.
  induction t as [|c t IH]; intros cur H; [cbn; rewrite app_nil_r; reflexivity|]. cbn [split_on_go].
  replace (c =? sep) with false by (symmetry; apply Z.eqb_neq; intros ->; apply H; left; reflexivity).
  rewrite IH by (intros Hx; apply H; right; exact Hx). cbn [rev]. rewrite <- app_assoc. reflexivity.
Qed.
Lemma name_char_facts x : name_char_b x = true -> x <> 46 /\ x <> 32 /\ x <> 9 /\ x <> 60 /\ x <> 62 /\ x <> 10 /\ x <> 13.
Proof.
  unfold name_char_b. intros H. repeat (apply andb_true_iff in H as [H ?]).
  repeat match goal with H : negb (_ =? _) = true |- _ => apply negb_true_iff, Z.eqb_neq in H end. tauto.
Qed.
Lemma vtt_tag_class n : name_ok n -> vtt_tag (99 :: 46 :: n) = Some (POpen TgC [n]).
Proof.
  intros [Hn Hc]. unfold vtt_tag.
  assert (Hb : forallb (fun c => negb (is_blank_sp c)) (99 :: 46 :: n) = true).
  { cbn [forallb]. apply forallb_forall. intros x Hx. rewrite forallb_forall in Hc. destruct (name_char_facts x (Hc x Hx)) as (_ & A & B & _).
    unfold is_blank_sp. apply negb_true_iff, orb_false_iff. split; apply Z.eqb_neq; assumption. }
  rewrite (take_pred_all _ _ Hb), skipn_all. unfold split_on. cbn [split_on_go Z.eqb Pos.eqb rev app].
  rewrite split_on_go_none.
  - cbn [rev app]. change (vtt_name [99]) with (Some TgC). cbn [andb forallb]. destruct n; [contradiction | reflexivity].
  - intros Hx. rewrite forallb_forall in Hc. destruct (name_char_facts 46 (Hc 46 Hx)) as (A & _). apply A. reflexivity.
Qed.
Lemma vtt_class_tag_lex (bg : bool) c :
  vtt_tag_lex ((if bg then vtt_BG_COLOR_TAG_IN_pre else vtt_COLOR_TAG_IN_pre) ++ class_name bg c ++ (if bg then vtt_BG_COLOR_TAG_IN_suf else vtt_COLOR_TAG_IN_suf)) /\
  vtt_tok ((if bg then vtt_BG_COLOR_TAG_IN_pre else vtt_COLOR_TAG_IN_pre) ++ class_name bg c ++ (if bg then vtt_BG_COLOR_TAG_IN_suf else vtt_COLOR_TAG_IN_suf))
  = POpen TgC [class_name bg c].
Proof.
  pose proof (class_name_ok bg c) as Hn.
  assert (E : (if bg then vtt_BG_COLOR_TAG_IN_pre else vtt_COLOR_TAG_IN_pre) ++ class_name bg c ++ (if bg then vtt_BG_COLOR_TAG_IN_suf else vtt_COLOR_TAG_IN_suf)
              = 60 :: (99 :: 46 :: class_name bg c) ++ [62]) by (destruct bg; reflexivity).
  rewrite E. split.
  - exists (99 :: 46 :: class_name bg c), (POpen TgC [class_name bg c]). split; [reflexivity|]. split; [|apply vtt_tag_class, Hn].
    intros x [<-|[<-|Hx]]; [repeat split; discriminate | repeat split; discriminate|]. destruct Hn as [_ Hc]. rewrite forallb_forall in Hc.
    destruct (name_char_facts x (Hc x Hx)) as (_ & _ & _ & A & B & C & D). tauto.
  - unfold vtt_tok. rewrite tag_inner_shape, (vtt_tag_class _ Hn). reflexivity.
Qed.
Lemma vtt_fixed_tag_lex t : In t [vtt_BOLD_TAG_IN; vtt_BOLD_TAG_OUT; vtt_ITALIC_TAG_IN; vtt_ITALIC_TAG_OUT; vtt_UNDERLINE_TAG_IN;
                                  vtt_UNDERLINE_TAG_OUT; vtt_COLOR_TAG_OUT; vtt_BG_COLOR_TAG_OUT] -> vtt_tag_lex t.
Proof.
  assert (F : forall inner p, forallb (fun x => negb (x =? 60) && negb (x =? 62) && negb (x =? 10) && negb (x =? 13)) inner = true ->
                              vtt_tag inner = Some p -> vtt_tag_lex (60 :: inner ++ [62])).
  { intros inner p H1 H2. exists inner, p. split; [reflexivity|]. split; [|exact H2]. intros x Hx. rewrite forallb_forall in H1. specialize (H1 x Hx).
    repeat (apply andb_true_iff in H1 as [H1 ?]). repeat match goal with H : negb (_ =? _) = true |- _ => apply negb_true_iff, Z.eqb_neq in H end. tauto. }
  intros H. cbn [In] in H. destruct H as [<-|[<-|[<-|[<-|[<-|[<-|[<-|[<-|[]]]]]]]]].
  - exact (F [98] _ eq_refl eq_refl).
  - exact (F [47; 98] _ eq_refl eq_refl).
  - exact (F [105] _ eq_refl eq_refl).
  - exact (F [47; 105] _ eq_refl eq_refl).
  - exact (F [117] _ eq_refl eq_refl).
  - exact (F [47; 117] _ eq_refl eq_refl).
  - exact (F [47; 99] _ eq_refl eq_refl).
  - exact (F [47; 99] _ eq_refl eq_refl).
Qed.

(* the items do not depend on the registry of CSS classes *)
Lemma vtt_inline_indep : forall e s, fst (vtt_inline e s) = fst (vtt_inline e []).
Proof.
  induction e as [a cs IH] using elem_ind2. intros s. rewrite Forall_forall in IH.
  assert (G : forall s1 s2, fst (vtt_inlines cs s1) = fst (vtt_inlines cs s2)).
  { clear s. induction cs as [|c cs IHcs]; intros s1 s2; [reflexivity|]. cbn [vtt_inlines].
    pose proof (IH c (or_introl eq_refl) s1) as E1. pose proof (IH c (or_introl eq_refl) s2) as E2.
    destruct (vtt_inline c s1) as [x1 sa1]. destruct (vtt_inline c s2) as [x2 sa2]. cbn [fst] in E1, E2.
    specialize (IHcs (fun c' Hc' => IH c' (or_intror Hc')) sa1 sa2).
    destruct (vtt_inlines cs sa1) as [y1 sb1]. destruct (vtt_inlines cs sa2) as [y2 sb2]. cbn [fst] in *. rewrite E1, E2, IHcs. reflexivity. }
  rewrite !Proofs.C07.Tags.vtt_span_wrap. destruct (e_kind a); try reflexivity; try apply G. cbv zeta.
  match goal with |- context [vtt_inlines cs ?s1] => match goal with |- _ = ?rhs => match rhs with context [vtt_inlines cs ?s2] => rewrite (G s1 s2) end end end.
  reflexivity.
Qed.
Definition vtt_items (e : elem) : list item := fst (vtt_inline e []).
Lemma vtt_inlines_items_eq : forall l s, fst (vtt_inlines l s) = flat_map vtt_items l.
Proof.
  induction l as [|c l IH]; intros s; [reflexivity|]. cbn [vtt_inlines flat_map]. pose proof (vtt_inline_indep c s) as E.
  destruct (vtt_inline c s) as [x sa]. specialize (IH sa). destruct (vtt_inlines l sa) as [y sb]. cbn [fst] in *. rewrite E, IH. reflexivity.
Qed.
Lemma vtt_inline_toks a cs :
  toks vtt_tok (vtt_items (Elem a cs)) =
  match e_kind a with
  | KSpan => map (fun x => POpen (fst x) (snd x)) (vtt_span_opens a) ++ flat_map (fun c => toks vtt_tok (vtt_items c)) cs ++
             map (fun x => PClose (fst x)) (rev (vtt_span_opens a))
  | KRuby | KRbc | KRb => flat_map (fun c => toks vtt_tok (vtt_items c)) cs
  | KBr => [PChar 10]
  | KText => map PChar (e_text a)
  | _ => []
  end.
Proof.
  unfold vtt_items at 1. rewrite Proofs.C07.Tags.vtt_span_wrap.
  destruct (e_kind a); try reflexivity; try (rewrite vtt_inlines_items_eq; apply toks_flat_map).
  - (* span *) cbv zeta. rewrite vtt_inlines_items_eq. unfold vtt_span_opens.
    pose proof (fun c => proj2 (vtt_class_tag_lex false c)) as Tf. pose proof (fun c => proj2 (vtt_class_tag_lex true c)) as Tb. cbv iota in Tf, Tb.
    destruct (get_color_of a p_Color) as [c|], (get_color_of a p_BackgroundColor) as [c'|], (is_element_bold a), (is_element_italic a), (is_element_underlined a);
      cbn [Proofs.C07.Tags.wrap]; unfold toks; repeat (rewrite map_app || rewrite map_cons); cbn [map item_tok app rev fst snd];
      rewrite ?Tf, ?Tb; fold (toks vtt_tok (flat_map vtt_items cs)); rewrite toks_flat_map; rewrite <- ?app_assoc, ?app_nil_r; reflexivity.
  - (* text *) unfold toks. rewrite map_map. reflexivity.
Qed.

Lemma vtt_tag_ok_items : forall e s, items_ok vtt_tag_lex (fst (vtt_inline e s)).
Proof.
  induction e as [a cs IH] using elem_ind2. intros s. rewrite Forall_forall in IH.
  assert (G : forall s0, items_ok vtt_tag_lex (fst (vtt_inlines cs s0))).
  { intros s0. revert s0. induction cs as [|c cs IHcs]; intros s0; [constructor|]. cbn [vtt_inlines].
    pose proof (IH c (or_introl eq_refl) s0) as E. destruct (vtt_inline c s0) as [x sa]. specialize (IHcs (fun c' Hc' => IH c' (or_intror Hc')) sa).
    destruct (vtt_inlines cs sa) as [y sb]. cbn [fst] in *. apply items_ok_app; assumption. }
  rewrite Proofs.C07.Tags.vtt_span_wrap. destruct (e_kind a); try (constructor; fail); try apply G.
  - (* span *) cbv zeta.
    assert (T : forall t, vtt_tag_lex t -> forall l, items_ok vtt_tag_lex l -> forall t', vtt_tag_lex t' -> items_ok vtt_tag_lex (ITag t :: l ++ [ITag t']))
      by (intros t Ht l Hl t' Ht'; constructor; [exact Ht | apply items_ok_app; [exact Hl | constructor; [exact Ht' | constructor]]]).
    pose proof (fun c => proj1 (vtt_class_tag_lex false c)) as Tf. pose proof (fun c => proj1 (vtt_class_tag_lex true c)) as Tb. cbv iota in Tf, Tb.
    destruct (get_color_of a p_Color) as [c|], (get_color_of a p_BackgroundColor) as [c'|], (is_element_bold a), (is_element_italic a), (is_element_underlined a);
      cbn [Proofs.C07.Tags.wrap]; repeat (apply T; [first [apply Tf | apply Tb | apply vtt_fixed_tag_lex; cbn [In]; tauto] | | apply vtt_fixed_tag_lex; cbn [In]; tauto]); apply G.
  - (* br *) constructor; [exact I | constructor].
  - (* text *) apply items_ok_chars.
Qed.

Theorem vtt_paragraph_runs cs0 s c : c_items c = fst (vtt_inlines cs0 s) ->
  exists r, vtt_runs (cue_text esc_vtt c) = Some r /\ vis_runs r = vis_runs (flat_map (tree_runs vtt_span_opens []) cs0).
Proof.
  intros Hi. unfold vtt_runs, cue_text.
  assert (Hok : items_ok vtt_tag_ok (c_items c)) by (rewrite Hi; apply vtt_inlines_items).
  assert (Hlex : items_ok vtt_tag_lex (c_items c)).
  { rewrite Hi, vtt_inlines_items_eq. apply items_ok_flat_map. intros x _. apply vtt_tag_ok_items. }
  destruct (del_flat esc_vtt vtt_tag_ok esc_vtt_eol vtt_tag_no_eol _ Hok _ (del_normalize (flat esc_vtt (c_items c)))) as (l' & Hd & ->).
  rewrite vtt_lex_flat by exact (del_items_ok _ _ _ Hd Hlex).
  pose proof (walk_children vtt_tok vtt_span_opens vtt_items vtt_inline_toks cs0) as W. rewrite <- (vtt_inlines_items_eq cs0 s), <- Hi in W.
  destruct (runs_go_del vtt_tok _ _ Hd [] _ W) as (r' & H1 & H2). exists r'. split; assumption.
Qed.

(* ---- every cue of both writers ----------------------------------------------------------------------------------------------------- *)
Definition srt_cue_runs (fmt : bool) (c : cue) : Prop :=
  ~ In 60 (cue_chars c) ->
  exists cs0 r, c_items c = flat_map (srt_inline fmt) cs0 /\ srt_runs (cue_text esc_none c) = Some r /\
                vis_runs r = vis_runs (flat_map (tree_runs (srt_span_opens fmt) []) cs0).
Theorem srt_cues_runs fmt seq cs : srt_cues fmt seq = Ok cs -> Forall (srt_cue_runs fmt) cs.
Proof.
  apply (srt_cues_forall (srt_cue_runs fmt)).
  - intros c c' E H Hc. unfold srt_cue_runs, cue_text, cue_chars in *. rewrite <- E in *. exact (H Hc).
  - intros b en cs0 Hc. destruct (srt_paragraph_runs fmt cs0 (mkCue None b en (flat_map (srt_inline fmt) cs0) None None) eq_refl Hc) as (r & H1 & H2). exists cs0, r. split; [reflexivity|]. split; assumption.
Qed.
Definition vtt_cue_runs (c : cue) : Prop :=
  exists cs0 r, c_items c = flat_map vtt_items cs0 /\ vtt_runs (cue_text esc_vtt c) = Some r /\
                vis_runs r = vis_runs (flat_map (tree_runs vtt_span_opens []) cs0).
Theorem vtt_cues_runs cfg seq cs css : vtt_cues cfg seq = Ok (cs, css) -> Forall vtt_cue_runs cs.
Proof.
  apply (vtt_cues_forall vtt_cue_runs).
  - intros c c' E H. unfold vtt_cue_runs, cue_text in *. rewrite <- E in *. exact H.
  - intros b en cs0 s. destruct (vtt_paragraph_runs cs0 s (mkCue None b en (fst (vtt_inlines cs0 s)) None None) eq_refl) as (r & H1 & H2). exists cs0, r. cbn [c_items].
    split; [apply vtt_inlines_items_eq|]. split; assumption.
Qed.
(* what the walk says, flag by flag: a character is inside <b> ... </b> exactly when one of the spans around it is bold, ... *)
Lemma style_of_stack_b st : rs_b (style_of_stack st) = existsb (fun x => tagname_eqb (fst x) TgB) st.
Proof. reflexivity. Qed.
