(* C07: the WebVTT file the model prints is accepted by the file-level recogniser vtt_wf of Spec/CueSpec.v (strict: cue settings are
   read back too) — WEBVTT line, blank line, STYLE block before any cue, cue blocks with or without identifier, timing line read back to
   the very millisecond counts, settings, payload lines, identifiers 1, 2, 3, ..., begin < end, order, tags — outside the recorded
   findings (a payload line that is empty or holds "-->"), for payloads without carriage return, and for numbers within the digits the
   model's printers provide.  The cue settings are decided on their whole finite domain (align: 3 values; line: 0..100 x 3 values). *)
From Coq Require Import Sorting.Sorted.
From TT Require Import Model.Doc Gen.StyleTables Model.Isd Model.SigTimes Model.TimeCode Model.IsdFilters Gen.CueTables Model.CueWriter.
From TT Require Import Model.CueTriggers Spec.IsdSpec Spec.CueSpec Proofs.C12.Derived.
From TT Require Import Proofs.C06.Filters Proofs.C06.Inline Proofs.C06.Strip Proofs.C06.Loop Proofs.C06.Text Proofs.C06.Shape.
From TT Require Import Proofs.C07.Order Proofs.C07.Single Proofs.C07.Settings Proofs.C07.Runs Proofs.C07.Wf Proofs.C06.Fixed.

(* ---- cue settings: a finite domain ---------------------------------------------------------------------------------------------------- *)
Definition vtt_settings_text (ta : option Z) (line : option (Z * Z)) : text :=
  (match ta with Some k => [32; 97; 108; 105; 103; 110; 58] ++ nth (Z.to_nat k) vtt_text_alignment [] | None => [] end) ++
  (match line with
   | Some (l, k) => [32; 108; 105; 110; 101; 58] ++ print_z l ++ [37; 44] ++ nth (Z.to_nat k) vtt_line_alignment []
   | None => []
   end).
Definition settings_good (s : text) : bool :=
  settings_ok s && (match s with [] => true | c :: _ => is_blank_sp c end) && forallb (fun x => negb (is_eol x) && negb (x =? 62)) s.
Definition ta_domain : list (option Z) := [None; Some 0; Some 1; Some 2].
Definition line_domain : list (option (Z * Z)) := None :: flat_map (fun n => [Some (n, 0); Some (n, 1); Some (n, 2)]) (zseq 0 101).
Lemma settings_domain_good :
  forallb (fun ta => forallb (fun ln => settings_good (vtt_settings_text ta ln)) line_domain) ta_domain = true.
Proof. vm_compute. reflexivity. Qed.
Lemma zseq_in : forall n k x, k <= x < k + Z.of_nat n -> In x (zseq k n).
Proof.
  induction n as [|n IH]; intros k x H; [lia|]. cbn [zseq]. destruct (Z.eq_dec x k) as [->|Hne]; [left; reflexivity|].
  right. apply IH. rewrite Nat2Z.inj_succ in H. lia.
Qed.
Lemma settings_good_range ta line :
  (match ta with Some k => 0 <= k <= 2 | None => True end) ->
  (match line with Some (n, k) => 0 <= n <= 100 /\ 0 <= k <= 2 | None => True end) ->
  settings_good (vtt_settings_text ta line) = true.
Proof.
  intros Ha Hl. pose proof settings_domain_good as D. rewrite forallb_forall in D.
  assert (Hta : In ta ta_domain).
  { destruct ta as [k|]; [|left; reflexivity]. assert (k = 0 \/ k = 1 \/ k = 2) as [ -> | [ -> | -> ] ] by lia; cbn; tauto. }
  specialize (D ta Hta). rewrite forallb_forall in D. apply D.
  destruct line as [[n k]|]; [|left; reflexivity]. right. destruct Hl as [Hn Hk]. apply in_flat_map. exists n. split; [apply zseq_in; lia|].
  assert (k = 0 \/ k = 1 \/ k = 2) as [ -> | [ -> | -> ] ] by lia; cbn; tauto.
Qed.
(* what the model computes is in the domain *)
Lemma clamp_pct_range n : 0 <= clamp_pct n <= 100.
Proof. unfold clamp_pct. lia. Qed.
Lemma line_setting_range ra x : line_setting ra = Ok x -> 0 <= fst x <= 100 /\ 0 <= snd x <= 2.
Proof.
  unfold line_setting. destruct (sget (e_styles ra) p_Position) as [[]|]; try discriminate. destruct (sget (e_styles ra) p_Extent) as [[]|]; try discriminate.
  destruct (sget (e_styles ra) p_DisplayAlign) as [[]|];
    repeat match goal with |- context [if ?b then _ else _] => destruct b end; intros H; injection H as <-; cbn [fst snd]; split; try apply clamp_pct_range; lia.
Qed.
Lemma textalign_setting_range p k : textalign_setting p = Some k -> 0 <= k <= 2.
Proof.
  unfold textalign_setting. destruct (sget (e_styles p) p_TextAlign) as [[]|]; try discriminate.
  repeat match goal with |- context [if ?b then _ else _] => destruct b end; intros H; try discriminate; injection H as <-; lia.
Qed.

(* ---- blocks (a blank line is an empty line) --------------------------------------------------------------------------------------------- *)
Definition vgroup_ok (G : list text) : Prop := G <> [] /\ forallb (fun l => negb (vtt_blank_line l)) G = true.
Lemma vtake_block_group G rest : forallb (fun l => negb (vtt_blank_line l)) G = true -> take_block vtt_blank_line (G ++ [] :: rest) = (G, [] :: rest).
Proof.
  induction G as [|g G IH]; intros H; [reflexivity|]. cbn [forallb] in H. apply andb_true_iff in H as [H1 H2]. apply negb_true_iff in H1.
  cbn [app take_block]. rewrite H1, (IH H2). reflexivity.
Qed.
Lemma vblocks_groups : forall Gs fuel, Forall vgroup_ok Gs -> (length Gs < fuel)%nat ->
  blocks_fuel fuel vtt_blank_line (flat_map (fun G => G ++ [[]]) Gs) = Gs.
Proof.
  induction Gs as [|G Gs IH]; intros fuel H Hf.
  - destruct fuel; reflexivity.
  - inversion H as [|? ? [Hne Hnb] HGs]; subst. destruct fuel as [|k]; [cbn in Hf; lia|]. cbn [flat_map]. rewrite <- app_assoc. cbn [app].
    destruct G as [|g G']; [contradiction|]. cbn [blocks_fuel app drop_blank].
    pose proof Hnb as Hnb'. cbn [forallb] in Hnb'. apply andb_true_iff in Hnb' as [Hg _]. apply negb_true_iff in Hg. rewrite Hg.
    change (g :: G' ++ [] :: flat_map (fun G => G ++ [[]]) Gs) with ((g :: G') ++ [] :: flat_map (fun G => G ++ [[]]) Gs).
    rewrite (vtake_block_group (g :: G') _ Hnb). f_equal.
    destruct k as [|k']; [cbn in Hf; destruct Gs; [reflexivity | cbn in Hf; lia]|].
    change (blocks_fuel (S k') vtt_blank_line ([] :: flat_map (fun G => G ++ [[]]) Gs)) with (blocks_fuel (S k') vtt_blank_line (flat_map (fun G => G ++ [[]]) Gs)).
    apply IH; [exact HGs | cbn [length] in Hf; lia].
Qed.
Lemma groups_fuel (Gs : list (list text)) : (length Gs < S (length (flat_map (fun G => G ++ [[]]) Gs)))%nat.
Proof.
  apply Nat.lt_succ_r. induction Gs as [|G Gs IH]; [apply Nat.le_0_l|]. cbn [flat_map]. rewrite !app_length. cbn [length].
  apply le_n_S in IH. eapply Nat.le_trans; [exact IH|]. rewrite Nat.add_1_r, (Nat.add_comm (S _)), Nat.add_succ_r. apply le_n_S, Nat.le_add_r.
Qed.
Lemma no_gt_no_arrow l : ~ In 62 l -> contains arrow3 l = false.
Proof.
  induction l as [|c l IH]; intros H; [reflexivity|]. cbn [contains]. rewrite IH by (intros Hx; apply H; right; exact Hx). rewrite orb_false_r.
  unfold arrow3. cbn [has_prefix]. destruct (45 =? c) eqn:E1; [|reflexivity]. destruct l as [|c2 l]; [reflexivity|]. destruct (45 =? c2) eqn:E2; [|reflexivity].
  destruct l as [|c3 l]; [reflexivity|]. replace (62 =? c3) with false; [reflexivity|]. symmetry. apply Z.eqb_neq. intros E. apply H. right. right. left. symmetry. exact E.
Qed.

(* ---- one cue record ---------------------------------------------------------------------------------------------------------------------- *)
Record vrec := mkVRec { vr_id : option Z ; vr_b : Z ; vr_e : Z ; vr_set : text ; vr_t : text }.
Definition vr_timing (r : vrec) : text := print_ms 46 (vr_b r) ++ arrow ++ print_ms 46 (vr_e r) ++ vr_set r.
Definition vr_idline (r : vrec) : list text := match vr_id r with Some k => [print_z k] | None => [] end.
Definition vr_string (r : vrec) : text :=
  (match vr_id r with Some k => print_z k ++ [10] | None => [] end) ++ vr_timing r ++ [10] ++ vr_t r ++ [10].
Definition vr_group (r : vrec) : list text := vr_idline r ++ [vr_timing r] ++ split_lines (vr_t r).
Definition vpayload_ok (t : text) : Prop :=
  no_cr t /\ forallb (fun l => negb (vtt_blank_line l) && negb (contains arrow3 l)) (split_lines t) = true /\ vtt_runs t <> None.
Definition vrec_ok (r : vrec) : Prop :=
  (match vr_id r with Some k => 0 <= k < 10 ^ 40 | None => True end) /\ ms_ok (vr_b r) /\ ms_ok (vr_e r) /\ settings_good (vr_set r) = true /\ vpayload_ok (vr_t r).

Lemma print_ms_chars46 ms : ms_ok ms -> forall x, In x (print_ms 46 ms) -> is_dig x = true \/ x = 58 \/ x = 46.
Proof.
  intros [H0 H1] x. unfold print_ms, print_clock, clock_fields.
  assert (Hh : 0 <= ms / 3600000 < 10 ^ 20) by (split; [lia | apply Z.div_lt_upper_bound; lia]).
  destruct (pad2_ok _ Hh) as (P1 & _ & _).
  rewrite (pad2_two ((ms / 60000) mod 60)), (pad2_two ((ms / 1000) mod 60)), (pad3_three (ms mod 1000)) by lia.
  intros Hx. apply in_app_iff in Hx as [Hx|Hx]; [left; rewrite forallb_forall in P1; exact (P1 x Hx)|].
  cbn [app In colon] in Hx. repeat (destruct Hx as [<-|Hx]; [first [right; left; reflexivity | right; right; reflexivity | left; apply is_dig_digit; lia]|]). destruct Hx.
Qed.
Lemma vr_timing_facts r : ms_ok (vr_b r) -> ms_ok (vr_e r) -> settings_good (vr_set r) = true ->
  no_eol_t (vr_timing r) /\ (exists c t, vr_timing r = c :: t /\ is_dig c = true) /\ contains arrow3 (vr_timing r) = true.
Proof.
  intros Hb He Hs. unfold settings_good in Hs. apply andb_true_iff in Hs as [Hs Hs3]. rewrite forallb_forall in Hs3. split; [|split].
  - intros x Hx. unfold vr_timing in Hx. apply in_app_iff in Hx as [Hx|Hx]; [|apply in_app_iff in Hx as [Hx|Hx]; [|apply in_app_iff in Hx as [Hx|Hx]]].
    + destruct (print_ms_chars46 _ Hb x Hx) as [H | [ -> | -> ] ]; [unfold is_dig in H; lia | split; discriminate | split; discriminate].
    + cbn [arrow In] in Hx. repeat (destruct Hx as [<-|Hx]; [split; discriminate|]). destruct Hx.
    + destruct (print_ms_chars46 _ He x Hx) as [H | [ -> | -> ] ]; [unfold is_dig in H; lia | split; discriminate | split; discriminate].
    + specialize (Hs3 x Hx). apply andb_true_iff in Hs3 as [Hs3 _]. apply negb_true_iff in Hs3. unfold is_eol in Hs3. apply orb_false_iff in Hs3 as [A B].
      split; apply Z.eqb_neq; assumption.
  - unfold vr_timing. destruct (print_ms_head 46 _ Hb) as (c & t & -> & Hc). exists c. eexists. split; [reflexivity | exact Hc].
  - unfold vr_timing. generalize (print_ms 46 (vr_b r)). intros p. induction p as [|c p IH]; [reflexivity|]. cbn [app contains]. rewrite IH. apply orb_true_r.
Qed.

Lemma parse_print_timing_rest sep b e rest : ms_ok b -> ms_ok e -> (match rest with c :: _ => is_dig c = false | [] => True end) ->
  parse_timing sep (print_ms sep b ++ arrow ++ print_ms sep e ++ rest) = Some (b, e, rest).
Proof.
  intros Hb He Hr. unfold parse_timing. rewrite (parse_print_ts sep b _ Hb) by reflexivity.
  destruct (print_ms_head sep e He) as (c & t & Ee & Hc).
  assert (Hbl : is_blank_sp c = false).
  { unfold is_dig in Hc. unfold is_blank_sp. apply andb_true_iff in Hc as [H1 H2]. apply orb_false_iff. split; apply Z.eqb_neq; lia. }
  set (pe := print_ms sep e) in *.
  assert (R2 : drop_pred is_blank_sp (arrow ++ pe ++ rest) = 45 :: 45 :: 62 :: 32 :: pe ++ rest) by reflexivity. rewrite R2.
  assert (L1 : Nat.ltb (length (45 :: 45 :: 62 :: 32 :: pe ++ rest)) (length (arrow ++ pe ++ rest)) = true) by (apply Nat.ltb_lt; cbn [arrow app length]; lia). rewrite L1.
  assert (P : has_prefix arrow3 (45 :: 45 :: 62 :: 32 :: pe ++ rest) = true) by reflexivity. rewrite P. cbn [andb].
  assert (R3 : skipn 3 (45 :: 45 :: 62 :: 32 :: pe ++ rest) = 32 :: pe ++ rest) by reflexivity. rewrite R3.
  assert (R4 : drop_pred is_blank_sp (32 :: pe ++ rest) = pe ++ rest) by (rewrite Ee; cbn [app drop_pred is_blank_sp Z.eqb Pos.eqb orb]; rewrite Hbl; reflexivity). rewrite R4.
  assert (L2 : Nat.ltb (length (pe ++ rest)) (length (32 :: pe ++ rest)) = true) by (apply Nat.ltb_lt; cbn [length]; lia). rewrite L2.
  unfold pe. rewrite (parse_print_ts sep e rest He Hr). reflexivity.
Qed.

Definition vr_cue (r : vrec) : rcue :=
  mkRCue (match vr_id r with Some k => Some (print_z k) | None => None end) (vr_b r) (vr_e r) (vr_set r) (split_lines (vr_t r)).
Lemma digit_line c t : is_dig c = true -> text_eqb (c :: t) style_kw = false /\ has_prefix note_kw (c :: t) = false.
Proof.
  intros H. unfold is_dig in H. unfold style_kw, note_kw. cbn [text_eqb has_prefix].
  replace (c =? 83) with false by (symmetry; apply Z.eqb_neq; lia). replace (78 =? c) with false by (symmetry; apply Z.eqb_neq; lia). split; reflexivity.
Qed.
Lemma vr_group_ok r : vrec_ok r -> vgroup_ok (vr_group r).
Proof.
  intros (Hk & Hb & He & Hs & Hcr & Hl & _). destruct (vr_timing_facts r Hb He Hs) as (_ & (c & t & Et & _) & _).
  split; [unfold vr_group, vr_idline; destruct (vr_id r); discriminate|]. unfold vr_group. rewrite !forallb_app. apply andb_true_iff. split; [|apply andb_true_iff; split].
  - unfold vr_idline. destruct (vr_id r) as [k|]; [|reflexivity]. destruct (print_z_ok _ Hk) as (_ & _ & D3 & _). cbn [forallb]. destruct (print_z k); [contradiction | reflexivity].
  - cbn [forallb]. rewrite Et. reflexivity.
  - apply forallb_forall. intros l Hin. rewrite forallb_forall in Hl. specialize (Hl l Hin). apply andb_true_iff in Hl as [Hl _]. exact Hl.
Qed.
Lemma vr_block_cue r : vrec_ok r -> vtt_block true (vr_group r) = Some (VCue (vr_cue r)).
Proof.
  intros (Hk & Hb & He & Hs & Hcr & Hl & _). destruct (vr_timing_facts r Hb He Hs) as (_ & (c & t & Et & Hc) & Harr).
  assert (Hpay : existsb (contains arrow3) (split_lines (vr_t r)) = false).
  { apply not_true_iff_false. intros E. apply existsb_exists in E as (l & Hin & E). rewrite forallb_forall in Hl. specialize (Hl l Hin). rewrite E in Hl.
    rewrite andb_false_r in Hl. discriminate. }
  assert (Hset : (match vr_set r with [] => true | c0 :: _ => is_blank_sp c0 end) = true /\ settings_ok (vr_set r) = true /\
                 match vr_set r with c0 :: _ => is_dig c0 = false | [] => True end).
  { unfold settings_good in Hs. apply andb_true_iff in Hs as [Hs _]. apply andb_true_iff in Hs as [S1 S2]. split; [exact S2|]. split; [exact S1|].
    destruct (vr_set r) as [|c0 s0]; [exact I|]. unfold is_blank_sp in S2. unfold is_dig. apply orb_true_iff in S2 as [S2|S2]; apply Z.eqb_eq in S2; subst c0; reflexivity. }
  destruct Hset as (S1 & S2 & S3).
  assert (Hpt : parse_timing 46 (vr_timing r) = Some (vr_b r, vr_e r, vr_set r)) by (unfold vr_timing; apply parse_print_timing_rest; assumption).
  unfold vr_group, vr_idline, vr_cue. destruct (vr_id r) as [k|].
  - destruct (print_z_ok _ Hk) as (D1 & _ & D3 & _). destruct (print_z k) as [|d ds] eqn:Ep; [contradiction|].
    cbn [forallb] in D1. apply andb_true_iff in D1 as [Dd Dds]. destruct (digit_line d ds Dd) as [K1 K2].
    cbn [app]. unfold vtt_block. rewrite K1, K2. cbn [andb].
    assert (Hn : contains arrow3 (d :: ds) = false).
    { apply no_gt_no_arrow. intros Hx. assert (Hd : forallb is_dig (d :: ds) = true) by (cbn [forallb]; rewrite Dd, Dds; reflexivity).
      rewrite forallb_forall in Hd. specialize (Hd 62 Hx). discriminate. }
    rewrite Hn. cbn [negb]. rewrite Hpt, S1, S2, Hpay. reflexivity.
  - cbn [app]. unfold vtt_block. rewrite Et. destruct (digit_line c t Hc) as [K1 K2]. rewrite K1, K2. cbn [andb]. rewrite <- Et, Harr. cbn [negb].
    rewrite Hpt, S1, S2, Hpay. reflexivity.
Qed.

(* ---- the lines of the cue part -------------------------------------------------------------------------------------------------------- *)
Lemma vr_string_lines r Z0 : vrec_ok r -> split_lines (vr_string r ++ Z0) = vr_group r ++ split_lines Z0.
Proof.
  intros (Hk & Hb & He & Hs & Hcr & _). destruct (vr_timing_facts r Hb He Hs) as (Hne & _ & _). unfold vr_string, vr_group, vr_idline.
  assert (G : split_lines (vr_timing r ++ 10 :: vr_t r ++ 10 :: Z0) = [vr_timing r] ++ split_lines (vr_t r) ++ split_lines Z0).
  { rewrite split_lines_line by exact Hne. unfold split_lines at 1. rewrite split_lines_go_app by exact Hcr. reflexivity. }
  destruct (vr_id r) as [k|].
  - destruct (print_z_ok _ Hk) as (D1 & _). repeat (rewrite <- app_assoc; cbn [app]). rewrite split_lines_line by (apply dig_not_eol, D1).
    rewrite G. reflexivity.
  - cbn [app]. repeat (rewrite <- app_assoc; cbn [app]). rewrite G. reflexivity.
Qed.
Lemma vfile_lines : forall rs, Forall vrec_ok rs -> rs <> [] ->
  split_lines (join_text [10] (map vr_string rs)) = flat_map (fun G => G ++ [[]]) (map vr_group rs).
Proof.
  induction rs as [|r rs IH]; intros H Hne; [contradiction|]. inversion H as [|? ? Hr Hrs]; subst. destruct rs as [|r2 rs'].
  - cbn [map join_text flat_map]. rewrite <- (app_nil_r (vr_string r)), (vr_string_lines r [] Hr). rewrite app_nil_r. reflexivity.
  - change (join_text [10] (map vr_string (r :: r2 :: rs'))) with (vr_string r ++ [10] ++ join_text [10] (map vr_string (r2 :: rs'))).
    rewrite (vr_string_lines r _ Hr). change (split_lines ([10] ++ join_text [10] (map vr_string (r2 :: rs'))))
      with ([] :: split_lines (join_text [10] (map vr_string (r2 :: rs')))). rewrite (IH Hrs) by discriminate.
    cbn [map flat_map]. rewrite <- !app_assoc. reflexivity.
Qed.

(* ---- the STYLE block --------------------------------------------------------------------------------------------------------------------- *)
Lemma split_join_lines : forall SL Z0, SL <> [] -> Forall no_eol_t SL -> split_lines (join_text [10] SL ++ 10 :: Z0) = SL ++ split_lines Z0.
Proof.
  induction SL as [|x SL IH]; intros Z0 Hne H; [contradiction|]. inversion H as [|? ? Hx Hs]; subst. destruct SL as [|y l].
  - cbn [join_text app]. apply split_lines_line, Hx.
  - change (join_text [10] (x :: y :: l)) with (x ++ [10] ++ join_text [10] (y :: l)). rewrite <- !app_assoc. cbn [app].
    rewrite split_lines_line by exact Hx. rewrite (IH Z0) by (discriminate || exact Hs). reflexivity.
Qed.
Lemma join_text_app sep : forall a b, a <> [] -> b <> [] -> join_text sep (a ++ b) = join_text sep a ++ sep ++ join_text sep b.
Proof.
  induction a as [|x a IH]; intros b Ha Hb; [contradiction|]. destruct a as [|y a'].
  - cbn [app]. destruct b as [|z b']; [contradiction|]. reflexivity.
  - change (join_text sep ((x :: y :: a') ++ b)) with (x ++ sep ++ join_text sep ((y :: a') ++ b)). rewrite IH by (discriminate || exact Hb).
    change (join_text sep (x :: y :: a')) with (x ++ sep ++ join_text sep (y :: a')). rewrite <- !app_assoc. reflexivity.
Qed.
Lemma join_flat_map {A} sep (f : A -> list text) : (forall x, f x <> []) -> forall l,
  join_text sep (flat_map f l) = join_text sep (map (fun x => join_text sep (f x)) l).
Proof.
  intros Hf. induction l as [|x l IH]; [reflexivity|]. destruct l as [|y l'].
  - cbn [flat_map map join_text]. rewrite app_nil_r. reflexivity.
  - change (flat_map f (x :: y :: l')) with (f x ++ flat_map f (y :: l')).
    rewrite join_text_app; [|apply Hf | cbn [flat_map]; intros E; apply app_eq_nil in E as [E _]; exact (Hf y E)].
    rewrite IH. reflexivity.
Qed.

Definition css_lines (x : bool * Z) : list text :=
  let '(bg, c) := x in
  [ [58; 58; 99; 117; 101; 40; 46] ++ class_name bg c ++ [41; 32; 123];
    [32; 32] ++ (if bg then [98; 97; 99; 107; 103; 114; 111; 117; 110; 100; 45; 99; 111; 108; 111; 114] else [99; 111; 108; 111; 114]) ++ [58; 32] ++ color_string c ++ [59];
    [125] ].
Lemma css_class_string_lines x : css_class_string x = join_text [10] (css_lines x).
Proof. destruct x as [bg c]. unfold css_class_string, css_lines. cbn [join_text]. rewrite <- !app_assoc. cbn [app]. reflexivity. Qed.
Definition style_lines (s : css_state) : list text :=
  [ [83; 84; 89; 76; 69]; [58; 58; 99; 117; 101; 32; 123];
    [32; 32; 98; 97; 99; 107; 103; 114; 111; 117; 110; 100; 45; 99; 111; 108; 111; 114; 58; 32; 116; 114; 97; 110; 115; 112; 97; 114; 101; 110; 116; 59];
    [125] ] ++ flat_map css_lines s.
Lemma style_block_lines s : s <> [] -> style_block s = join_text [10] (style_lines s) ++ [10; 10].
Proof.
  intros Hs. unfold style_block, style_lines. destruct s as [|x s']; [contradiction|]. set (s := x :: s') in *.
  rewrite join_text_app by (discriminate || (unfold s; cbn [flat_map]; destruct x as [bg c]; discriminate)).
  rewrite (join_flat_map [10] css_lines) by (intros [bg c]; discriminate).
  rewrite (map_ext _ _ (fun y => eq_sym (css_class_string_lines y))). cbn [join_text]. rewrite <- !app_assoc. cbn [app]. reflexivity.
Qed.
Definition plain_line_b (l : text) : bool := negb (match l with [] => true | _ => false end) && forallb (fun x => negb (is_eol x) && negb (x =? 62)) l.
Lemma plain_line_facts l : plain_line_b l = true -> l <> [] /\ no_eol_t l /\ ~ In 62 l.
Proof.
  unfold plain_line_b. intros H. apply andb_true_iff in H as [H1 H2]. rewrite forallb_forall in H2. split; [destruct l; [discriminate | discriminate]|]. split.
  - intros x Hx. specialize (H2 x Hx). apply andb_true_iff in H2 as [H2 _]. apply negb_true_iff in H2. unfold is_eol in H2. apply orb_false_iff in H2 as [A B].
    split; apply Z.eqb_neq; assumption.
  - intros Hx. specialize (H2 62 Hx). apply andb_true_iff in H2 as [_ H2]. discriminate.
Qed.
Lemma plain_line_pre a rest : a <> [] -> forallb (fun x => negb (is_eol x) && negb (x =? 62)) a = true ->
  forallb (fun x => negb (is_eol x) && negb (x =? 62)) rest = true -> plain_line_b (a ++ rest) = true.
Proof. intros Ha H1 H2. unfold plain_line_b. rewrite forallb_app, H1, H2. destruct a; [contradiction | reflexivity]. Qed.
Lemma css_lines_plain x : forallb plain_line_b (css_lines x) = true.
Proof.
  destruct x as [bg c]. unfold css_lines. cbn [forallb]. rewrite andb_true_r.
  assert (Hn : forallb (fun x => negb (is_eol x) && negb (x =? 62)) (class_name bg c) = true).
  { destruct (class_name_ok bg c) as [_ Hc]. apply forallb_forall. intros x Hx. rewrite forallb_forall in Hc. destruct (name_char_facts x (Hc x Hx)) as (_ & _ & _ & _ & A & B & C).
    unfold is_eol. apply andb_true_iff. split; [apply negb_true_iff, orb_false_iff; split; apply Z.eqb_neq; assumption | apply negb_true_iff, Z.eqb_neq; assumption]. }
  assert (Hh : forallb (fun x => negb (is_eol x) && negb (x =? 62)) (color_string c) = true).
  { unfold color_string. cbn [forallb]. apply forallb_forall. intros x Hx. pose proof (hex8_plain c) as Hp. rewrite Forall_forall in Hp. destruct (Hp x Hx) as (_ & _ & A & B & C).
    unfold is_eol. apply andb_true_iff. split; [apply negb_true_iff, orb_false_iff; split; apply Z.eqb_neq; assumption | apply negb_true_iff, Z.eqb_neq; assumption]. }
  apply andb_true_iff. split.
  - apply plain_line_pre; [discriminate | reflexivity|]. rewrite forallb_app, Hn. reflexivity.
  - apply plain_line_pre; [discriminate | reflexivity|]. rewrite !forallb_app, Hh. destruct bg; reflexivity.
Qed.
Lemma style_lines_plain s : forallb plain_line_b (style_lines s) = true.
Proof.
  unfold style_lines. rewrite forallb_app. apply andb_true_iff. split; [reflexivity|]. induction s as [|x s IH]; [reflexivity|].
  change (flat_map css_lines (x :: s)) with (css_lines x ++ flat_map css_lines s). rewrite forallb_app. apply andb_true_iff.
  split; [apply css_lines_plain | exact IH].
Qed.

(* ---- the whole file ---------------------------------------------------------------------------------------------------------------------- *)
Definition vtt_file (css : css_state) (rs : list vrec) : text := webvtt_header ++ style_block css ++ join_text [10] (map vr_string rs).
Definition style_groups (css : css_state) : list (list text) := match css with [] => [] | _ => [style_lines css] end.
Lemma vtt_file_lines css rs : Forall vrec_ok rs -> rs <> [] ->
  split_lines (vtt_file css rs) = [87; 69; 66; 86; 84; 84] :: [] :: flat_map (fun G => G ++ [[]]) (style_groups css ++ map vr_group rs).
Proof.
  intros H Hne. unfold vtt_file, webvtt_header. change ([87; 69; 66; 86; 84; 84; 10; 10] ++ style_block css ++ join_text [10] (map vr_string rs))
    with ([87; 69; 66; 86; 84; 84] ++ 10 :: 10 :: style_block css ++ join_text [10] (map vr_string rs)).
  rewrite split_lines_line by (intros x Hx; cbn [In] in Hx; repeat (destruct Hx as [<-|Hx]; [split; discriminate|]); destruct Hx).
  change (split_lines (10 :: style_block css ++ join_text [10] (map vr_string rs))) with ([] :: split_lines (style_block css ++ join_text [10] (map vr_string rs))).
  f_equal. f_equal. unfold style_groups. destruct css as [|x css'].
  - cbn [style_block app]. apply (vfile_lines rs H Hne).
  - set (css := x :: css') in *. rewrite (style_block_lines css) by discriminate. rewrite <- app_assoc.
    change ([10; 10] ++ join_text [10] (map vr_string rs)) with (10 :: 10 :: join_text [10] (map vr_string rs)).
    rewrite split_join_lines.
    + change (split_lines (10 :: join_text [10] (map vr_string rs))) with ([] :: split_lines (join_text [10] (map vr_string rs))).
      rewrite (vfile_lines rs H Hne). cbn [app flat_map]. rewrite <- app_assoc. reflexivity.
    + discriminate.
    + apply Forall_forall. intros l Hl. pose proof (style_lines_plain css) as P. rewrite forallb_forall in P. apply (plain_line_facts l (P l Hl)).
Qed.

Definition style_vblocks (css : css_state) : list vblock := match css with [] => [] | _ => [VStyle (tl (style_lines css))] end.
Theorem vtt_parse_file css rs : Forall vrec_ok rs -> rs <> [] ->
  vtt_parse_blocks true (vtt_file css rs) = Some (style_vblocks css ++ map (fun r => VCue (vr_cue r)) rs).
Proof.
  intros H Hne. unfold vtt_parse_blocks. rewrite (vtt_file_lines css rs H Hne).
  change (has_prefix webvtt_sig [87; 69; 66; 86; 84; 84] && match skipn 6 [87; 69; 66; 86; 84; 84] with [] => true | c :: _ => is_blank_sp c end) with true.
  cbv iota. change (vtt_blank_line []) with true. cbv iota.
  set (Gs := style_groups css ++ map vr_group rs).
  assert (HG : Forall vgroup_ok Gs).
  { unfold Gs. apply Forall_app. split.
    - unfold style_groups. destruct css as [|x css']; [constructor|]. constructor; [|constructor]. split; [discriminate|].
      apply forallb_forall. intros l Hl. pose proof (style_lines_plain (x :: css')) as P. rewrite forallb_forall in P.
      destruct (plain_line_facts l (P l Hl)) as (A & _). destruct l; [contradiction | reflexivity].
    - apply Forall_forall. intros G HG. apply in_map_iff in HG as (r & <- & Hr). rewrite Forall_forall in H. apply vr_group_ok, H, Hr. }
  assert (B : blocks vtt_blank_line ([] :: flat_map (fun G => G ++ [[]]) Gs) = Gs).
  { unfold blocks. cbn [length]. change (blocks_fuel (S (S (length (flat_map (fun G => G ++ [[]]) Gs)))) vtt_blank_line ([] :: flat_map (fun G => G ++ [[]]) Gs))
      with (blocks_fuel (S (S (length (flat_map (fun G => G ++ [[]]) Gs)))) vtt_blank_line (flat_map (fun G => G ++ [[]]) Gs)).
    apply vblocks_groups; [exact HG|]. pose proof (groups_fuel Gs). lia. }
  rewrite B. unfold Gs. rewrite map_app.
  assert (S1 : all_some (map (vtt_block true) (style_groups css)) = Some (style_vblocks css)).
  { unfold style_groups, style_vblocks. destruct css as [|x css']; [reflexivity|]. cbn [map all_some]. set (css := x :: css').
    assert (E : vtt_block true (style_lines css) = Some (VStyle (tl (style_lines css)))).
    { unfold style_lines. cbn [app tl]. unfold vtt_block. change (text_eqb [83; 84; 89; 76; 69] style_kw) with true. cbv iota.
      replace (existsb (contains arrow3) _) with false; [reflexivity|]. symmetry. apply not_true_iff_false. intros Ex. apply existsb_exists in Ex as (l & Hl & Ex).
      pose proof (style_lines_plain css) as P. rewrite forallb_forall in P. assert (Hin : In l (style_lines css)) by (unfold style_lines; cbn [app]; right; exact Hl).
      destruct (plain_line_facts l (P l Hin)) as (_ & _ & C). rewrite (no_gt_no_arrow l C) in Ex. discriminate. }
    rewrite E. reflexivity. }
  assert (S2 : all_some (map (vtt_block true) (map vr_group rs)) = Some (map (fun r => VCue (vr_cue r)) rs)).
  { clear - H. induction rs as [|r rs IH]; [reflexivity|]. inversion H; subst. cbn [map all_some]. rewrite vr_block_cue by assumption. rewrite IH by assumption. reflexivity. }
  assert (AS : forall (a b : list (option vblock)) x y, all_some a = Some x -> all_some b = Some y -> all_some (a ++ b) = Some (x ++ y)).
  { induction a as [|[v|] a IHa]; intros b x y Ha Hb; cbn [all_some app] in *; [injection Ha as <-; exact Hb | | discriminate].
    destruct (all_some a) as [r|] eqn:Er; [|discriminate]. injection Ha as <-. rewrite (IHa b r y eq_refl Hb). reflexivity. }
  exact (AS _ _ _ _ S1 S2).
Qed.

Lemma cues_of_blocks_file css rs : cues_of_blocks (style_vblocks css ++ map (fun r => VCue (vr_cue r)) rs) = map vr_cue rs.
Proof.
  unfold cues_of_blocks. rewrite flat_map_app. assert (E : flat_map (fun b => match b with VCue c => [c] | _ => [] end) (style_vblocks css) = []) by (destruct css; reflexivity).
  rewrite E. cbn [app]. induction rs as [|r rs IH]; [reflexivity|]. cbn [map flat_map app]. rewrite IH. reflexivity.
Qed.
Lemma styles_first_file css rs : styles_first false (style_vblocks css ++ map (fun r => VCue (vr_cue r)) rs) = true.
Proof.
  assert (G : forall b, styles_first b (map (fun r => VCue (vr_cue r)) rs) = true) by (induction rs as [|r rs IH]; intros b; [reflexivity | cbn [map styles_first]; apply IH]).
  destruct css; cbn [style_vblocks app styles_first negb andb]; apply G.
Qed.
Lemma vpayload_text_lines r : no_cr (vr_t r) -> payload_text (vr_cue r) = vr_t r.
Proof. intros H. unfold payload_text, vr_cue, split_lines. cbn [r_payload]. exact (join_lines_go (vr_t r) [] H). Qed.
Lemma vordered_records : forall rs prev, Forall (fun r => vr_b r < vr_e r) rs ->
  (match prev with Some (pb, pe) => match rs with r :: _ => pe <= vr_b r \/ (pb = vr_b r /\ pe = vr_e r) | [] => True end | None => True end) ->
  ForallOrdPairs (fun r1 r2 => vr_e r1 <= vr_b r2 \/ (vr_b r1 = vr_b r2 /\ vr_e r1 = vr_e r2)) rs -> ordered true prev (map vr_cue rs) = true.
Proof.
  induction rs as [|r rs IH]; intros prev H1 H2 H3; [reflexivity|]. inversion H1 as [|? ? Hr Hrs]; subst. inversion H3 as [|? ? Hfo Hop]; subst.
  cbn [map ordered vr_cue r_begin r_end]. replace (vr_b r <? vr_e r) with true by lia. cbn [andb].
  assert (P : match prev with Some (pb, pe) => (pe <=? vr_b r) || (pb =? vr_b r) && (pe =? vr_e r) | None => true end = true).
  { destruct prev as [[pb pe]|]; [|reflexivity]. destruct H2 as [H2|[H2 H2']]; [replace (pe <=? vr_b r) with true by lia; reflexivity|].
    subst. rewrite !Z.eqb_refl. apply orb_true_r. }
  rewrite P. cbn [andb]. apply IH; [exact Hrs | | exact Hop]. destruct rs as [|r2 rs']; [exact I|]. inversion Hfo; subst. assumption.
Qed.
Definition ids_ok (rs : list vrec) : Prop := Forall (fun r => vr_id r = None) rs \/ map vr_id rs = map Some (zseq 1 (length rs)).
Lemma vcounters_records : forall rs k, Forall vrec_ok rs -> 1 <= k -> map vr_id rs = map Some (zseq k (length rs)) -> counters_from k (map vr_cue rs) = true.
Proof.
  induction rs as [|r rs IH]; intros k H Hk Hs; [reflexivity|]. inversion H as [|? ? Hr Hrs]; subst. cbn [map length zseq] in Hs. injection Hs as E1 E2.
  cbn [map counters_from vr_cue r_ident]. destruct Hr as (Hr & _). rewrite E1 in *. destruct (print_z_ok _ Hr) as (D1 & D2 & D3 & D4 & _).
  assert (A : all_digits (print_z k) = true) by (unfold all_digits; destruct (print_z k); [contradiction | exact D1]).
  assert (P : has_prefix [48] (print_z k) = false).
  { destruct (print_z k) as [|c t]; [contradiction|]. cbn [has_prefix hd] in *. replace (48 =? c) with false; [reflexivity|].
    symmetry. apply Z.eqb_neq. intros E. apply D4; [lia | symmetry; exact E]. }
  rewrite A, D2, P, Z.eqb_refl. cbn [andb negb]. apply IH; [exact Hrs | lia | exact E2].
Qed.
Theorem vtt_wf_records css rs : Forall vrec_ok rs -> rs <> [] -> ids_ok rs -> Forall (fun r => vr_b r < vr_e r) rs ->
  ForallOrdPairs (fun r1 r2 => vr_e r1 <= vr_b r2 \/ (vr_b r1 = vr_b r2 /\ vr_e r1 = vr_e r2)) rs -> vtt_wf (vtt_file css rs) = true.
Proof.
  intros H Hne Hid Hs Ho. unfold vtt_wf. rewrite (vtt_parse_file css rs H Hne), styles_first_file, cues_of_blocks_file. cbn [andb].
  rewrite (vordered_records rs None Hs I Ho).
  assert (I1 : identifiers_ok (map vr_cue rs) = true).
  { unfold identifiers_ok. destruct Hid as [Hn|Hk].
    - replace (forallb _ (map vr_cue rs)) with true; [reflexivity|]. symmetry. apply forallb_forall. intros c Hc. apply in_map_iff in Hc as (r & <- & Hr).
      rewrite Forall_forall in Hn. unfold vr_cue. cbn [r_ident]. rewrite (Hn r Hr). reflexivity.
    - rewrite (vcounters_records rs 1 H ltac:(lia) Hk). apply orb_true_r. }
  rewrite I1. cbn [andb]. apply forallb_forall. intros c Hc. apply in_map_iff in Hc as (r & <- & Hr). rewrite Forall_forall in H.
  destruct (H r Hr) as (_ & _ & _ & _ & Hcr & _ & Hrun). rewrite (vpayload_text_lines r Hcr). destruct (vtt_runs (vr_t r)); [reflexivity | contradiction].
Qed.

(* ---- the model's file ----------------------------------------------------------------------------------------------------------------------- *)
Section CueForall2.
  Variable cfg : vtt_config.
  Variable P : cue -> Prop.
  Hypothesis P_process : forall ra b en p st x s1, vtt_process_p cfg ra b en p st = Ok (x, s1) -> Forall P x.
  Hypothesis P_end : forall c, P c -> P (default_end c).
  Lemma finish_forall2 blank : forall cs, Forall P cs -> Forall P (finish_cues true blank cs).
  Proof.
    induction cs as [|c cs IH]; intros H; [constructor|]. inversion H as [|? ? Hc Hcs]; subst. destruct cs as [|c' cs'].
    - cbn [finish_cues]. destruct (c_end c); [exact H|]. destruct (blank c); [constructor|]. constructor; [apply P_end, Hc | constructor].
    - rewrite finish_cues_cons. constructor; [apply P_end, Hc | apply IH, Hcs].
  Qed.
  Theorem vtt_cues_forall2 seq cs css : vtt_cues cfg seq = Ok (cs, css) -> Forall P cs.
  Proof.
    intros H. unfold vtt_cues in H. destruct (vtt_filters cfg) as [fs|]; [|discriminate].
    destruct (vtt_loop cfg fs seq (mkVttState 0 [])) as [[cs0 st]|] eqn:E; [|discriminate]. cbn [bind fst snd] in H.
    injection H as <- _. apply finish_forall2. revert E. generalize (mkVttState 0 []). revert cs0 st.
    assert (Hbs : forall ra b en l, Forall (fun e => forall st0 x s1, Model.CueWriter.vtt_block cfg ra b en e st0 = Ok (x, s1) -> Forall P x) l ->
                  forall st0 x s1, vtt_blocks cfg ra b en l st0 = Ok (x, s1) -> Forall P x).
    { intros ra b en. induction l as [|e l IH]; intros Hl st0 x s1 Hx; cbn [vtt_blocks] in Hx.
      - injection Hx as <- _. constructor.
      - inversion Hl as [|? ? He Hl']; subst.
        destruct (Model.CueWriter.vtt_block cfg ra b en e st0) as [[x1 sa]|] eqn:E1; [|discriminate]. cbn [bind fst snd] in Hx.
        destruct (vtt_blocks cfg ra b en l sa) as [[x2 sb]|] eqn:E2; [|discriminate]. cbn [bind fst snd] in Hx.
        injection Hx as <- _. apply Forall_app. split; [exact (He _ _ _ E1) | exact (IH Hl' _ _ _ E2)]. }
    assert (Hb : forall ra b en e st0 x s1, Model.CueWriter.vtt_block cfg ra b en e st0 = Ok (x, s1) -> Forall P x).
    { intros ra b en. induction e as [a cs1 IH] using Proofs.Common.ElemInd.elem_ind2. intros st0 x s1 Hx. rewrite vtt_block_node in Hx.
      destruct (e_kind a); try (injection Hx as <- _; constructor).
      - exact (Hbs ra b en cs1 IH _ _ _ Hx).
      - exact (P_process _ _ _ _ _ _ _ Hx). }
    assert (Hr : forall b en rs st0 x s1, vtt_regions cfg b en rs st0 = Ok (x, s1) -> Forall P x).
    { intros b en. induction rs as [|r rs IH]; intros st0 x s1 Hx; cbn [vtt_regions] in Hx.
      - injection Hx as <- _. constructor.
      - destruct (vtt_blocks cfg (eattrs r) b en _ st0) as [[x1 sa]|] eqn:E1; [|discriminate]. cbn [bind fst snd] in Hx.
        destruct (vtt_regions cfg b en rs sa) as [[x2 sb]|] eqn:E2; [|discriminate]. cbn [bind fst snd] in Hx.
        injection Hx as <- _. apply Forall_app. split; [|exact (IH _ _ _ E2)].
        exact (Hbs _ _ _ _ (proj2 (Forall_forall _ _) (fun e _ => Hb (eattrs r) b en e)) _ _ _ E1). }
    induction seq as [|[t regions] seq IH]; intros cs0 st st0 E; cbn [vtt_loop] in E.
    - injection E as <- _. constructor.
    - destruct (q_ms t) as [b|]; [|discriminate]. cbn [bind] in E.
      destruct (oq_ms _) as [en|]; [|discriminate]. cbn [bind] in E.
      destruct (vtt_regions cfg b en (apply_filters fs regions) st0) as [[x s1]|] eqn:Ex; [|discriminate]. cbn [bind fst snd] in E.
      destruct (vtt_loop cfg fs seq s1) as [[rest s2]|] eqn:Er; [|discriminate]. cbn [bind fst snd] in E. injection E as <- _.
      apply Forall_app. split; [exact (Hr _ _ _ _ _ _ Ex) | exact (IH _ _ _ Er)].
  Qed.
End CueForall2.

(* the settings a cue carries are in the finite domain; without cue identifiers no cue has one *)
Definition cue_fields_ok (cfg : vtt_config) (c : cue) : Prop :=
  (match c_textalign c with Some k => 0 <= k <= 2 | None => True end) /\
  (match c_line c with Some (n, k) => 0 <= n <= 100 /\ 0 <= k <= 2 | None => True end) /\
  (cue_id cfg = false -> c_id c = None).
Lemma vtt_cues_fields cfg seq cs css : vtt_cues cfg seq = Ok (cs, css) -> Forall (cue_fields_ok cfg) cs.
Proof.
  apply vtt_cues_forall2.
  - intros ra b en p st x s1 H. unfold vtt_process_p in H.
    assert (Hline : forall line, (if line_position cfg then bind (line_setting ra) (fun x0 => Ok (Some x0)) else Ok None) = Ok line ->
                    match line with Some (n, k) => 0 <= n <= 100 /\ 0 <= k <= 2 | None => True end).
    { intros line El. destruct (line_position cfg); [|injection El as <-; exact I]. destruct (line_setting ra) as [[n k]|] eqn:Ex; [|discriminate].
      cbn [bind] in El. injection El as <-. exact (line_setting_range ra (n, k) Ex). }
    destruct (if line_position cfg then bind (line_setting ra) (fun x0 => Ok (Some x0)) else Ok None) as [line|] eqn:El; [|discriminate]. cbn [bind] in H.
    specialize (Hline line eq_refl).
    destruct (vtt_inlines (echildren p) (v_css st)) as [items css0]. destruct (vtt_blank _); injection H as <- _; constructor; [|constructor].
    unfold cue_fields_ok. cbn [c_textalign c_line c_id]. split; [|split].
    + destruct (text_align cfg); [|exact I]. destruct (textalign_setting (eattrs p)) as [k|] eqn:Et; [exact (textalign_setting_range _ _ Et) | exact I].
    + exact Hline.
    + intros Hid. rewrite Hid. reflexivity.
  - intros c (H1 & H2 & H3). unfold cue_fields_ok, default_end. destruct (c_end c); cbn [c_textalign c_line c_id]; repeat split; assumption.
Qed.

Definition vtt_cue_printable (c : cue) : bool :=
  let t := cue_text esc_vtt c in
  negb (existsb (Z.eqb 13) t) && forallb (fun l => negb (vtt_blank_line l) && negb (contains arrow3 l)) (split_lines t) &&
  (0 <=? c_begin c) && match c_end c with Some e => e <? 3600000 * 10 ^ 20 | None => false end.
Definition vrecord (c : cue) : vrec :=
  mkVRec (c_id c) (c_begin c) (match c_end c with Some e => e | None => 0 end) (vtt_settings_text (c_textalign c) (c_line c)) (cue_text esc_vtt c).
Lemma vtt_strings_records : forall cs ss, vtt_strings cs = Ok ss -> Forall (fun c => cue_text esc_vtt c <> []) cs -> ss = map (fun c => vr_string (vrecord c)) cs.
Proof.
  induction cs as [|c cs IH]; intros ss H Hne; cbn [vtt_strings] in H; [injection H as <-; reflexivity|]. inversion Hne as [|? ? Hc Hcs]; subst.
  destruct (vtt_to_string c) as [s|] eqn:Es; [|discriminate]. cbn [bind] in H. destruct (vtt_strings cs) as [r|] eqn:Er; [|discriminate].
  cbn [bind] in H. injection H as <-. cbn [map]. rewrite <- (IH _ eq_refl Hcs). f_equal.
  unfold vtt_to_string in Es. destruct (checked_end c) as [e|] eqn:Ee; [|discriminate]. cbn [bind] in Es. injection Es as <-.
  apply checked_end_ok in Ee as [Ee _]. unfold vr_string, vr_timing, vrecord, vtt_settings_text. cbn [vr_id vr_b vr_e vr_set vr_t]. rewrite Ee.
  destruct (cue_text esc_vtt c) as [|x t] eqn:Et; [contradiction|].
  destruct (c_id c), (c_textalign c), (c_line c) as [[l k]|]; rewrite <- ?app_assoc; cbn [app]; rewrite <- ?app_assoc; reflexivity.
Qed.

Theorem vtt_wf_model d cfg seq cs css out :
  isd_sequence d = Ok seq -> vtt_cues cfg seq = Ok (cs, css) -> vtt_of_seq cfg (Ok seq) = Ok out ->
  forallb vtt_cue_printable cs = true -> Z.of_nat (length cs) < 10 ^ 40 -> cs <> [] -> vtt_wf out = true.
Proof.
  intros Hd Hc Ho Hp Hlen Hne0. destruct (vtt_file_shape cfg seq out Ho) as (cs' & css' & ss & Hc' & Hss & ->). rewrite Hc in Hc'. injection Hc' as <- <-.
  assert (Hfs : exists fs, vtt_filters cfg = Some fs) by (unfold vtt_cues in Hc; destruct (vtt_filters cfg) as [fs|]; [eexists; reflexivity | discriminate]).
  destruct Hfs as [fs Hfs]. pose proof (vtt_cues_groups cfg fs seq cs css Hfs Hc) as G.
  assert (Hkept : Forall (kept vtt_blank) cs).
  { clear - G. induction G as [|t regions seq cs rest (_ & Hk & _) G IH]; [constructor|]. apply Forall_app. split; assumption. }
  assert (Hne : Forall (fun c => cue_text esc_vtt c <> []) cs).
  { eapply Forall_impl; [|exact Hkept]. intros c [Hb _] E. unfold vtt_blank, cue_blank in Hb. rewrite E in Hb. discriminate. }
  rewrite (vtt_strings_records cs ss Hss Hne), <- map_map. fold (vtt_file css (map vrecord cs)).
  destruct (vtt_cues_wf d cfg seq cs css ss Hd Hc Hss) as (Hspan & Hord & Hids & _).
  pose proof (vtt_cues_runs cfg seq cs css Hc) as Hruns. pose proof (vtt_cues_fields cfg seq cs css Hc) as Hf. rewrite forallb_forall in Hp.
  apply vtt_wf_records.
  - (* every record is fine *)
    apply Forall_forall. intros r Hr. apply in_map_iff in Hr as (c & <- & Hin).
    rewrite Forall_forall in Hspan, Hruns, Hf. destruct (Hspan c Hin) as (e & He & Hbe). destruct (Hf c Hin) as (F1 & F2 & F3).
    specialize (Hp c Hin). unfold vtt_cue_printable in Hp. rewrite He in Hp. repeat (apply andb_true_iff in Hp as [Hp ?]).
    repeat match goal with H : negb _ = true |- _ => apply negb_true_iff in H end.
    unfold vrec_ok, vrecord. cbn [vr_id vr_b vr_e vr_set vr_t]. rewrite He. split; [|split; [unfold ms_ok; lia | split; [unfold ms_ok; lia | split]]].
    + destruct (c_id c) as [k|] eqn:Ek; [|exact I]. destruct (cue_id cfg) eqn:Eid; [|discriminate (F3 eq_refl)].
      specialize (Hids eq_refl). assert (Hk : In (Some k) (map Some (zseq 1 (length cs)))) by (rewrite <- Hids, <- Ek; apply in_map, Hin).
      apply in_map_iff in Hk as (k' & Ek' & Hk'). injection Ek' as ->.
      assert (Z : forall n a x, In x (zseq a n) -> a <= x < a + Z.of_nat n).
      { induction n as [|n IHn]; intros a x Hx; [destruct Hx|]. cbn [zseq] in Hx. rewrite Nat2Z.inj_succ. destruct Hx as [<-|Hx]; [lia|]. specialize (IHn _ _ Hx). lia. }
      specialize (Z _ _ _ Hk'). lia.
    + exact (settings_good_range _ _ F1 F2).
    + split; [intros Hi; assert (E : existsb (Z.eqb 13) (cue_text esc_vtt c) = true) by (apply existsb_exists; exists 13; split; [exact Hi | reflexivity]); congruence|].
      split; [assumption|]. destruct (Hruns c Hin) as (cs0 & r & _ & Hrr & _). rewrite Hrr. discriminate.
  - destruct cs; [contradiction | discriminate].
  - unfold ids_ok. destruct (cue_id cfg) eqn:Eid.
    + right. rewrite map_map, map_length. cbn [vrecord vr_id]. exact (Hids eq_refl).
    + left. apply Forall_forall. intros r Hr. apply in_map_iff in Hr as (c & <- & Hin). rewrite Forall_forall in Hf. destruct (Hf c Hin) as (_ & _ & F3). exact (F3 Eid).
  - apply Forall_forall. intros r Hr. apply in_map_iff in Hr as (c & <- & Hin). rewrite Forall_forall in Hspan. destruct (Hspan c Hin) as (e & He & Hbe).
    cbn [vrecord vr_b vr_e]. rewrite He. exact Hbe.
  - clear - Hspan Hord. induction cs as [|c cs IH]; [constructor|]. inversion Hspan as [|? ? (e & He & Hbe) Hs]; subst. inversion Hord as [|? ? Hfo Ho]; subst.
    cbn [map]. constructor; [|apply IH; assumption]. clear - Hfo He Hs. induction cs as [|c2 cs IH]; [constructor|]. inversion Hfo as [|? ? H2 Hf']; subst.
    inversion Hs as [|? ? (e2 & He2 & _) Hs']; subst. cbn [map]. constructor; [|apply IH; assumption]. cbn [vrecord vr_b vr_e]. rewrite He, He2.
    destruct (H2 e e2 He He2) as [[A B]|A]; [right; split; assumption | left; exact A].
Qed.

(* the hypotheses are satisfiable: the line-range witness document (line_position = True, one region beyond the root container) *)
Lemma vtt_wf_example : exists seq cs css out,
  isd_sequence w_linerange = Ok seq /\ vtt_cues lp seq = Ok (cs, css) /\ vtt_of_seq lp (Ok seq) = Ok out /\
  forallb vtt_cue_printable cs = true /\ cs <> [] /\ vtt_wf out = true.
Proof.
  eexists. eexists. eexists. eexists. split; [vm_compute; reflexivity|]. split; [vm_compute; reflexivity|]. split; [vm_compute; reflexivity|].
  split; [vm_compute; reflexivity|]. split; [discriminate | vm_compute; reflexivity].
Qed.
