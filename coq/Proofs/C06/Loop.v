(* C06: structure of the writers' loops.  Induction over the snapshot sequence, then over the tree: the cue list is the
   concatenation, snapshot by snapshot, of cues that all carry that snapshot's interval, all hold visible text, and together hold
   that snapshot's text (outside ruby annotations). *)
From TT Require Import Model.Doc Gen.StyleTables Model.Isd Model.SigTimes Model.TimeCode Model.IsdFilters Gen.CueTables Model.CueWriter.
From TT Require Import Model.CueTriggers Spec.IsdSpec Proofs.Common.ElemInd Proofs.C01.Lwsp Proofs.C06.Filters Proofs.C06.Inline Proofs.C06.Strip.

(* a cue the writer keeps: its blank test failed, and (hence) its characters are not all white space *)
Definition nonblank (c : cue) : Prop := only_whitespace (cue_chars c) = false.
Definition cues_at (blank : cue -> bool) (b : Z) (en : option Z) (cs : list cue) : Prop :=
  Forall (fun c => c_begin c = b /\ c_end c = en /\ blank c = false /\ nonblank c) cs.
Lemma cues_at_app blank b en x y : cues_at blank b en x -> cues_at blank b en y -> cues_at blank b en (x ++ y).
Proof. intros. apply Forall_app. split; assumption. Qed.

(* ---- blocks ------------------------------------------------------------------------------------------------------- *)
(* SubRip only (lt = true): no "<" in the text of a paragraph — SubRip has no escape mechanism, and the blank test of the writer,
   which removes what reads as a tag, is exact only then (Proofs/C06/Strip.v) *)
Definition lt_free (cs : list elem) : bool := negb (existsb (Z.eqb 60) (flat_map base_text cs)).
Fixpoint wblock_ok (lt : bool) (e : elem) : bool :=
  match e with
  | Elem a cs =>
      match e_kind a with
      | KDiv => (fix go (l : list elem) : bool := match l with [] => true | c :: l' => wblock_ok lt c && go l' end) cs
      | KP => forallb inline_ok cs && (negb lt || lt_free cs)
      | _ => is_nil (base_text e)
      end
  end.
Definition srt_block_ok : elem -> bool := wblock_ok true.
Definition vtt_block_ok : elem -> bool := wblock_ok false.
Lemma wblock_ok_node lt a cs :
  wblock_ok lt (Elem a cs) = match e_kind a with
                             | KDiv => forallb (wblock_ok lt) cs
                             | KP => forallb inline_ok cs && (negb lt || lt_free cs)
                             | _ => is_nil (base_text (Elem a cs))
                             end.
Proof. cbn [wblock_ok]. destruct (e_kind a); reflexivity. Qed.

Lemma srt_block_node fmt b en a cs n :
  srt_block fmt b en (Elem a cs) n =
  match e_kind a with
  | KDiv => srt_blocks fmt b en cs n
  | KP => let c := mkCue (Some (n + 1)) b en (flat_map (srt_inline fmt) cs) None None in
          (if srt_blank c then [] else [c], n + 1)
  | _ => ([], n)
  end.
Proof.
  cbn [srt_block]. destruct (e_kind a); try reflexivity.
  revert n. induction cs as [|c cs IH]; intros n; [reflexivity|]. cbn [srt_blocks].
  destruct (srt_block fmt b en c n) as [x n1]. rewrite IH. reflexivity.
Qed.

Definition block_spec (blank : cue -> bool) (b : Z) (en : option Z) (ok : bool) (txt : text) (cs : list cue) : Prop :=
  cues_at blank b en cs /\ (ok = true -> visc (flat_map cue_chars cs) = visc txt).

Lemma srt_blocks_spec fmt b en : forall l,
  Forall (fun e => forall n cs n', srt_block fmt b en e n = (cs, n') -> block_spec srt_blank b en (srt_block_ok e) (base_text e) cs) l ->
  forall n cs n', srt_blocks fmt b en l n = (cs, n') -> block_spec srt_blank b en (forallb srt_block_ok l) (flat_map base_text l) cs.
Proof.
  induction l as [|e l IH]; intros Hl n cs n' H.
  - injection H as <- <-. split; [constructor | reflexivity].
  - inversion Hl as [|? ? He Hl']; subst. cbn [srt_blocks] in H.
    destruct (srt_block fmt b en e n) as [x n1] eqn:Ex. destruct (srt_blocks fmt b en l n1) as [y n2] eqn:Ey.
    injection H as <- <-. destruct (He _ _ _ Ex) as [A1 A2]. destruct (IH Hl' _ _ _ Ey) as [B1 B2].
    split; [apply cues_at_app; assumption|]. cbn [forallb flat_map]. intros Hok. apply andb_true_iff in Hok as [O1 O2].
    rewrite flat_map_app, !visc_app, (A2 O1), (B2 O2). reflexivity.
Qed.

Lemma visible_60 : visible 60 = true.
Proof. reflexivity. Qed.
(* the characters of a paragraph the SubRip writer walks: no "<" when its base text has none *)
Lemma srt_p_lt_free fmt cs0 : lt_free cs0 = true -> ~ In 60 (chars_of (flat_map (srt_inline fmt) cs0)).
Proof.
  unfold lt_free. intros H Hin. apply negb_true_iff in H. rewrite chars_of_flat_map in Hin. apply in_flat_map in Hin as (c & Hc & Hin).
  apply (srt_inline_sub fmt 60 visible_60) in Hin.
  assert (E : existsb (Z.eqb 60) (flat_map base_text cs0) = true).
  { apply existsb_exists. exists 60. split; [apply in_flat_map; exists c; split; assumption | reflexivity]. }
  rewrite E in H. discriminate.
Qed.
Lemma not_blank_nonblank (b : bool) c : (only_whitespace (cue_chars c) = true -> b = true) -> b = false -> nonblank c.
Proof. intros H Hb. unfold nonblank. destruct (only_whitespace (cue_chars c)); [rewrite (H eq_refl) in Hb; discriminate | reflexivity]. Qed.

Theorem srt_block_spec fmt b en : forall e n cs n',
  srt_block fmt b en e n = (cs, n') -> block_spec srt_blank b en (srt_block_ok e) (base_text e) cs.
Proof.
  induction e as [a cs0 IH] using elem_ind2. intros n cs n' H. rewrite srt_block_node in H. unfold srt_block_ok. rewrite wblock_ok_node, base_text_node.
  destruct (e_kind a) eqn:Ek.
  all: try (injection H as <- <-; split; [constructor|]; intros Hok; try (rewrite base_text_node, Ek in Hok); apply is_nil_eq in Hok; try rewrite Hok; reflexivity).
  - (* div *) exact (srt_blocks_spec fmt b en cs0 IH _ _ _ H).
  - (* p *)
    cbv zeta in H. set (c := mkCue (Some (n + 1)) b en (flat_map (srt_inline fmt) cs0) None None) in H.
    assert (Hi : items_ok srt_tag_ok (c_items c)) by (apply items_ok_flat_map; intros x _; apply srt_inline_items).
    assert (Hc : forallb inline_ok cs0 = true -> visc (cue_chars c) = visc (flat_map base_text cs0)).
    { intros Hok. unfold cue_chars, c. cbn [c_items]. rewrite chars_of_flat_map, !visc_flat_map. apply flat_map_ext_in. intros x Hx.
      apply srt_inline_text. rewrite forallb_forall in Hok. apply Hok, Hx. }
    destruct (srt_blank c) eqn:Ew; injection H as <- <-.
    + split; [constructor|]. intros Hok. apply andb_true_iff in Hok as [O1 O2]. cbn [negb orb] in O2. rewrite <- (Hc O1). symmetry.
      apply only_whitespace_visc. rewrite <- (srt_blank_exact c Hi (srt_p_lt_free fmt cs0 O2)). exact Ew.
    + split.
      * constructor; [|constructor]. split; [reflexivity|]. split; [reflexivity|]. split; [exact Ew|].
        exact (not_blank_nonblank _ c (srt_blank_complete c Hi) Ew).
      * intros Hok. apply andb_true_iff in Hok as [O1 _]. cbn [flat_map]. rewrite app_nil_r. apply Hc, O1.
Qed.

(* ---- SubRip: one snapshot ---------------------------------------------------------------------------------------------- *)
Definition body_children (regions : list elem) : list elem := flat_map (fun r => flat_map echildren (echildren r)) regions.
Lemma body_children_text rs : regions_shape rs = true -> flat_map base_text (body_children rs) = flat_map base_text rs.
Proof.
  intros H. unfold body_children. rewrite flat_map_flat_map. apply flat_map_ext_in. intros r Hr.
  unfold regions_shape in H. rewrite forallb_forall in H. specialize (H r Hr). apply andb_true_iff in H as [H1 H2].
  unfold base_text. rewrite (sel_text_container annot_kind (fun k Hk => Hk) r H1), flat_map_flat_map. apply flat_map_ext_in. intros b Hb.
  rewrite forallb_forall in H2. symmetry. apply (sel_text_container annot_kind (fun k Hk => Hk)), H2, Hb.
Qed.
(* the dispatch meets nothing it would drop (and, SubRip, no "<" in the text) *)
Definition sees_all (lt : bool) (regions : list elem) : bool := regions_shape regions && forallb (wblock_ok lt) (body_children regions).
Definition srt_sees_all : list elem -> bool := sees_all true.
Definition vtt_sees_all : list elem -> bool := sees_all false.

Theorem srt_add_isd_spec fmt b en regions n cs n' :
  srt_add_isd fmt b en regions n = (cs, n') -> block_spec srt_blank b en (srt_sees_all regions) (flat_map base_text regions) cs.
Proof.
  unfold srt_add_isd. intros H.
  destruct (srt_blocks_spec fmt b en (body_children regions)
              (proj2 (Forall_forall _ _) (fun e _ => srt_block_spec fmt b en e)) _ _ _ H) as [A1 A2].
  split; [exact A1|]. intros Hok. unfold srt_sees_all, sees_all in Hok. apply andb_true_iff in Hok as [O1 O2].
  rewrite (A2 O2), (body_children_text regions O1). reflexivity.
Qed.

(* ---- WebVTT: one snapshot ---------------------------------------------------------------------------------------------- *)
Lemma vtt_process_p_spec cfg ra b en p st cs st' :
  vtt_process_p cfg ra b en p st = Ok (cs, st') -> block_spec vtt_blank b en (forallb inline_ok (echildren p)) (flat_map base_text (echildren p)) cs.
Proof.
  unfold vtt_process_p. intros H.
  destruct (if line_position cfg then bind (line_setting ra) (fun x => Ok (Some x)) else Ok None) as [line|]; [|discriminate].
  cbn [bind] in H. destruct (vtt_inlines (echildren p) (v_css st)) as [items css] eqn:Ei.
  set (c := mkCue (if cue_id cfg then Some (v_counter st + 1) else None) b en items line
                  (if text_align cfg then textalign_setting (eattrs p) else None)) in H.
  assert (Hi : items_ok vtt_tag_ok (c_items c)).
  { pose proof (vtt_inlines_items (echildren p) (v_css st)) as G. rewrite Ei in G. exact G. }
  assert (Hc : forallb inline_ok (echildren p) = true -> visc (cue_chars c) = visc (flat_map base_text (echildren p))).
  { intros Hok. unfold cue_chars, c. cbn [c_items].
    pose proof (vtt_inlines_text (echildren p) (v_css st) Hok) as G. rewrite Ei in G. exact G. }
  destruct (vtt_blank c) eqn:Ew; injection H as <- <-.
  - split; [constructor|]. intros Hok. rewrite <- (Hc Hok). symmetry. apply only_whitespace_visc. rewrite <- (vtt_blank_exact c Hi). exact Ew.
  - split.
    + constructor; [|constructor]. split; [reflexivity|]. split; [reflexivity|]. split; [exact Ew|].
      unfold nonblank. rewrite <- (vtt_blank_exact c Hi). exact Ew.
    + intros Hok. cbn [flat_map]. rewrite app_nil_r. apply Hc, Hok.
Qed.
Lemma vtt_block_node cfg ra b en a cs st :
  vtt_block cfg ra b en (Elem a cs) st =
  match e_kind a with
  | KDiv => vtt_blocks cfg ra b en cs st
  | KP => vtt_process_p cfg ra b en (Elem a cs) st
  | _ => Ok ([], st)
  end.
Proof.
  cbn [vtt_block]. destruct (e_kind a); try reflexivity.
  revert st. induction cs as [|c cs IH]; intros st; [reflexivity|]. cbn [vtt_blocks].
  destruct (vtt_block cfg ra b en c st) as [r1|]; [|reflexivity]. cbn [bind]. rewrite IH. reflexivity.
Qed.
Lemma vtt_blocks_spec cfg ra b en : forall l,
  Forall (fun e => forall st cs st', vtt_block cfg ra b en e st = Ok (cs, st') -> block_spec vtt_blank b en (vtt_block_ok e) (base_text e) cs) l ->
  forall st cs st', vtt_blocks cfg ra b en l st = Ok (cs, st') -> block_spec vtt_blank b en (forallb vtt_block_ok l) (flat_map base_text l) cs.
Proof.
  induction l as [|e l IH]; intros Hl st cs st' H; cbn [vtt_blocks] in H.
  - injection H as <- <-. split; [constructor | reflexivity].
  - inversion Hl as [|? ? He Hl']; subst.
    destruct (vtt_block cfg ra b en e st) as [[x s1]|] eqn:Ex; [|discriminate]. cbn [bind snd fst] in H.
    destruct (vtt_blocks cfg ra b en l s1) as [[y s2]|] eqn:Ey; [|discriminate]. cbn [bind snd fst] in H. injection H as <- <-.
    destruct (He _ _ _ Ex) as [A1 A2]. destruct (IH Hl' _ _ _ Ey) as [B1 B2].
    split; [apply cues_at_app; assumption|]. cbn [forallb flat_map]. intros Hok. apply andb_true_iff in Hok as [O1 O2].
    rewrite flat_map_app, !visc_app, (A2 O1), (B2 O2). reflexivity.
Qed.
Theorem vtt_block_spec cfg ra b en : forall e st cs st',
  vtt_block cfg ra b en e st = Ok (cs, st') -> block_spec vtt_blank b en (vtt_block_ok e) (base_text e) cs.
Proof.
  induction e as [a cs0 IH] using elem_ind2. intros st cs st' H. rewrite vtt_block_node in H. unfold vtt_block_ok. rewrite wblock_ok_node, base_text_node.
  destruct (e_kind a) eqn:Ek.
  all: try (injection H as <- <-; split; [constructor|]; intros Hok; try (rewrite base_text_node, Ek in Hok); apply is_nil_eq in Hok; try rewrite Hok; reflexivity).
  - (* div *) exact (vtt_blocks_spec cfg ra b en cs0 IH _ _ _ H).
  - (* p *) destruct (vtt_process_p_spec _ _ _ _ _ _ _ _ H) as [A1 A2]. cbn [echildren] in *. split; [exact A1|].
    intros Hok. cbn [negb orb] in Hok. rewrite andb_true_r in Hok. exact (A2 Hok).
Qed.
Theorem vtt_regions_spec cfg b en : forall regions st cs st',
  vtt_regions cfg b en regions st = Ok (cs, st') ->
  block_spec vtt_blank b en (forallb vtt_block_ok (body_children regions)) (flat_map base_text (body_children regions)) cs.
Proof.
  induction regions as [|r regions IH]; intros st cs st' H; cbn [vtt_regions] in H.
  - injection H as <- <-. split; [constructor | reflexivity].
  - destruct (vtt_blocks cfg (eattrs r) b en (flat_map echildren (echildren r)) st) as [[x s1]|] eqn:Ep; [|discriminate].
    cbn [bind snd fst] in H. destruct (vtt_regions cfg b en regions s1) as [[y s2]|] eqn:Er; [|discriminate].
    cbn [bind snd fst] in H. injection H as <- <-.
    destruct (vtt_blocks_spec cfg (eattrs r) b en _ (proj2 (Forall_forall _ _) (fun e _ => vtt_block_spec cfg (eattrs r) b en e)) _ _ _ Ep) as [A1 A2].
    destruct (IH _ _ _ Er) as [B1 B2].
    split; [apply cues_at_app; assumption|]. unfold body_children. cbn [flat_map]. rewrite forallb_app. intros Hok.
    apply andb_true_iff in Hok as [O1 O2]. rewrite !flat_map_app, !visc_app, (A2 O1), (B2 O2). reflexivity.
Qed.
Theorem vtt_add_isd_spec cfg b en regions st cs st' :
  vtt_regions cfg b en regions st = Ok (cs, st') -> block_spec vtt_blank b en (vtt_sees_all regions) (flat_map base_text regions) cs.
Proof.
  intros H. destruct (vtt_regions_spec cfg b en regions st cs st' H) as [A1 A2]. split; [exact A1|].
  intros Hok. unfold vtt_sees_all, sees_all in Hok. apply andb_true_iff in Hok as [O1 O2].
  rewrite (A2 O2), (body_children_text regions O1). reflexivity.
Qed.

(* ---- the loops over the snapshot sequence ---------------------------------------------------------------------------- *)
Definition next_time (seq : list (Q * list elem)) : option Q := match seq with (t', _) :: _ => Some t' | [] => None end.

(* cs is the concatenation of one group of cues per snapshot, each group satisfying P for that snapshot *)
Inductive by_snapshot (P : Z -> option Z -> list elem -> list cue -> Prop) : list (Q * list elem) -> list cue -> Prop :=
| bs_nil : by_snapshot P [] []
| bs_cons t regions seq b en cs rest :
    q_ms t = Ok b -> oq_ms (next_time seq) = Ok en -> P b en regions cs -> by_snapshot P seq rest ->
    by_snapshot P ((t, regions) :: seq) (cs ++ rest).

Lemma by_snapshot_impl (P Q' : Z -> option Z -> list elem -> list cue -> Prop) :
  (forall b en r cs, P b en r cs -> Q' b en r cs) -> forall seq cs, by_snapshot P seq cs -> by_snapshot Q' seq cs.
Proof. intros H seq cs B. induction B; econstructor; eauto. Qed.

Definition snapshot_spec (blank : cue -> bool) (ok : list elem -> bool) (fs : list isd_filter) (b : Z) (en : option Z) (regions : list elem) (cs : list cue) : Prop :=
  block_spec blank b en (ok (apply_filters fs regions)) (flat_map base_text (apply_filters fs regions)) cs.

Theorem srt_loop_spec fmt : forall seq n cs,
  srt_loop fmt seq n = Ok cs -> by_snapshot (snapshot_spec srt_blank srt_sees_all srt_filters) seq cs.
Proof.
  induction seq as [|[t regions] seq IH]; intros n cs H; cbn [srt_loop] in H.
  - injection H as <-. constructor.
  - destruct (q_ms t) as [b|] eqn:Eb; [|discriminate]. cbn [bind] in H.
    fold (next_time seq) in H. destruct (oq_ms (next_time seq)) as [en|] eqn:Een; [|discriminate]. cbn [bind] in H.
    destruct (srt_add_isd fmt b en (apply_filters srt_filters regions) n) as [x n1] eqn:Ex.
    destruct (srt_loop fmt seq n1) as [rest|] eqn:Er; [|discriminate]. cbn [bind] in H. injection H as <-.
    econstructor; [exact Eb | exact Een | | exact (IH _ _ Er)]. exact (srt_add_isd_spec _ _ _ _ _ _ _ Ex).
Qed.
Theorem vtt_loop_spec cfg fs : forall seq st cs st',
  vtt_loop cfg fs seq st = Ok (cs, st') -> by_snapshot (snapshot_spec vtt_blank vtt_sees_all fs) seq cs.
Proof.
  induction seq as [|[t regions] seq IH]; intros st cs st' H; cbn [vtt_loop] in H.
  - injection H as <- <-. constructor.
  - destruct (q_ms t) as [b|] eqn:Eb; [|discriminate]. cbn [bind] in H.
    fold (next_time seq) in H. destruct (oq_ms (next_time seq)) as [en|] eqn:Een; [|discriminate]. cbn [bind] in H.
    destruct (vtt_regions cfg b en (apply_filters fs regions) st) as [[x s1]|] eqn:Ex; [|discriminate]. cbn [bind snd fst] in H.
    destruct (vtt_loop cfg fs seq s1) as [[rest s2]|] eqn:Er; [|discriminate]. cbn [bind snd fst] in H. injection H as <- <-.
    econstructor; [exact Eb | exact Een | | exact (IH _ _ _ Er)]. exact (vtt_add_isd_spec _ _ _ _ _ _ _ Ex).
Qed.
