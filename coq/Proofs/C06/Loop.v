(* C06: structure of the writers' loops.  Induction over the snapshot sequence, then over the tree: the cue list is the
   concatenation, snapshot by snapshot, of cues that all carry that snapshot's interval and together hold that snapshot's
   text. *)
From TT Require Import Model.Doc Gen.StyleTables Model.Isd Model.SigTimes Model.TimeCode Model.IsdFilters Gen.CueTables Model.CueWriter.
From TT Require Import Model.CueTriggers Spec.IsdSpec Proofs.Common.ElemInd Proofs.C01.Lwsp Proofs.C06.Filters Proofs.C06.Inline.

Definition cues_at (b : Z) (en : option Z) (cs : list cue) : Prop := Forall (fun c => c_begin c = b /\ c_end c = en) cs.
Lemma cues_at_app b en x y : cues_at b en x -> cues_at b en y -> cues_at b en (x ++ y).
Proof. intros. apply Forall_app. split; assumption. Qed.

(* ---- SubRip: blocks ----------------------------------------------------------------------------------------------- *)
Fixpoint srt_block_ok (e : elem) : bool :=
  match e with
  | Elem a cs =>
      match e_kind a with
      | KDiv => (fix go (l : list elem) : bool := match l with [] => true | c :: l' => srt_block_ok c && go l' end) cs
      | KP => forallb inline_ok cs
      | _ => is_nil (leaves_text e)
      end
  end.
Lemma srt_block_ok_node a cs :
  srt_block_ok (Elem a cs) = match e_kind a with
                             | KDiv => forallb srt_block_ok cs
                             | KP => forallb inline_ok cs
                             | _ => is_nil (leaves_text (Elem a cs))
                             end.
Proof. cbn [srt_block_ok]. destruct (e_kind a); reflexivity. Qed.

Lemma srt_block_node fmt b en a cs n :
  srt_block fmt b en (Elem a cs) n =
  match e_kind a with
  | KDiv => srt_blocks fmt b en cs n
  | KP => let c := mkCue (Some (n + 1)) b en (flat_map (srt_inline fmt) cs) None None in
          (if only_whitespace (cue_text esc_none c) then [] else [c], n + 1)
  | _ => ([], n)
  end.
Proof.
  cbn [srt_block]. destruct (e_kind a); try reflexivity.
  revert n. induction cs as [|c cs IH]; intros n; [reflexivity|]. cbn [srt_blocks].
  destruct (srt_block fmt b en c n) as [x n1]. rewrite IH. reflexivity.
Qed.

Definition block_spec (b : Z) (en : option Z) (ok : bool) (txt : text) (cs : list cue) : Prop :=
  cues_at b en cs /\ (ok = true -> visc (flat_map cue_chars cs) = visc txt).

Lemma srt_blocks_spec fmt b en : forall l,
  Forall (fun e => forall n cs n', srt_block fmt b en e n = (cs, n') -> block_spec b en (srt_block_ok e) (leaves_text e) cs) l ->
  forall n cs n', srt_blocks fmt b en l n = (cs, n') -> block_spec b en (forallb srt_block_ok l) (flat_map leaves_text l) cs.
Proof.
  induction l as [|e l IH]; intros Hl n cs n' H.
  - injection H as <- <-. split; [constructor | reflexivity].
  - inversion Hl as [|? ? He Hl']; subst. cbn [srt_blocks] in H.
    destruct (srt_block fmt b en e n) as [x n1] eqn:Ex. destruct (srt_blocks fmt b en l n1) as [y n2] eqn:Ey.
    injection H as <- <-. destruct (He _ _ _ Ex) as [A1 A2]. destruct (IH Hl' _ _ _ Ey) as [B1 B2].
    split; [apply cues_at_app; assumption|]. cbn [forallb flat_map]. intros Hok. apply andb_true_iff in Hok as [O1 O2].
    rewrite flat_map_app, !visc_app, (A2 O1), (B2 O2). reflexivity.
Qed.

Theorem srt_block_spec fmt b en : forall e n cs n',
  srt_block fmt b en e n = (cs, n') -> block_spec b en (srt_block_ok e) (leaves_text e) cs.
Proof.
  induction e as [a cs0 IH] using elem_ind2. intros n cs n' H. rewrite srt_block_node in H. rewrite srt_block_ok_node, leaves_text_node.
  destruct (e_kind a) eqn:Ek.
  all: try (injection H as <- <-; split; [constructor|]; intros Hok; apply is_nil_eq in Hok; try rewrite Hok; reflexivity).
  - (* div *) exact (srt_blocks_spec fmt b en cs0 IH _ _ _ H).
  - (* p *)
    cbv zeta in H. set (c := mkCue (Some (n + 1)) b en (flat_map (srt_inline fmt) cs0) None None) in H.
    assert (Hc : forallb inline_ok cs0 = true -> visc (cue_chars c) = visc (flat_map leaves_text cs0)).
    { intros Hok. unfold cue_chars, c. cbn [c_items]. rewrite chars_of_flat_map, !visc_flat_map. apply flat_map_ext_in. intros x Hx.
      apply srt_inline_text. rewrite forallb_forall in Hok. apply Hok, Hx. }
    destruct (only_whitespace (cue_text esc_none c)) eqn:Ew; injection H as <- <-.
    + split; [constructor|]. intros Hok. rewrite <- (Hc Hok). symmetry. apply (blank_cue esc_none c esc_none_keeps Ew).
    + split; [constructor; [split; reflexivity | constructor]|]. intros Hok. cbn [flat_map]. rewrite app_nil_r. apply Hc, Hok.
Qed.

(* ---- SubRip: one snapshot ---------------------------------------------------------------------------------------------- *)
Definition body_children (regions : list elem) : list elem := flat_map (fun r => flat_map echildren (echildren r)) regions.
Lemma body_children_text rs : regions_shape rs = true -> flat_map leaves_text (body_children rs) = flat_map leaves_text rs.
Proof.
  intros H. unfold body_children. rewrite flat_map_flat_map. apply flat_map_ext_in. intros r Hr.
  unfold regions_shape in H. rewrite forallb_forall in H. specialize (H r Hr). apply andb_true_iff in H as [H1 H2].
  rewrite (leaves_text_container r H1), flat_map_flat_map. apply flat_map_ext_in. intros b Hb.
  rewrite forallb_forall in H2. symmetry. apply leaves_text_container, H2, Hb.
Qed.
(* the SubRip dispatch meets nothing it would drop *)
Definition srt_sees_all (regions : list elem) : bool := regions_shape regions && forallb srt_block_ok (body_children regions).

Theorem srt_add_isd_spec fmt b en regions n cs n' :
  srt_add_isd fmt b en regions n = (cs, n') -> block_spec b en (srt_sees_all regions) (flat_map leaves_text regions) cs.
Proof.
  unfold srt_add_isd. intros H.
  destruct (srt_blocks_spec fmt b en (body_children regions)
              (proj2 (Forall_forall _ _) (fun e _ => srt_block_spec fmt b en e)) _ _ _ H) as [A1 A2].
  split; [exact A1|]. intros Hok. unfold srt_sees_all in Hok. apply andb_true_iff in Hok as [O1 O2].
  rewrite (A2 O2), (body_children_text regions O1). reflexivity.
Qed.

(* ---- WebVTT: one snapshot ---------------------------------------------------------------------------------------------- *)
(* what process_p is handed: its inline children must be all there is *)
Definition vtt_p_ok (p : elem) : bool := container p && forallb inline_ok (echildren p).
Definition vtt_region_ok (r : elem) : bool :=
  container r && forallb (fun b => container b && forallb (fun dv => container dv && forallb vtt_p_ok (echildren dv)) (echildren b)) (echildren r).
Definition vtt_sees_all (regions : list elem) : bool := forallb vtt_region_ok regions.

Lemma vtt_process_p_spec cfg ra b en p st cs st' :
  vtt_process_p cfg ra b en p st = Ok (cs, st') -> block_spec b en (vtt_p_ok p) (leaves_text p) cs.
Proof.
  unfold vtt_process_p. intros H.
  destruct (if line_position cfg then bind (line_setting ra) (fun x => Ok (Some x)) else Ok None) as [line|]; [|discriminate].
  cbn [bind] in H. destruct (vtt_inlines (echildren p) (v_css st)) as [items css] eqn:Ei.
  set (c := mkCue (if cue_id cfg then Some (v_counter st + 1) else None) b en items line
                  (if text_align cfg then textalign_setting (eattrs p) else None)) in H.
  assert (Hc : vtt_p_ok p = true -> visc (cue_chars c) = visc (leaves_text p)).
  { intros Hok. unfold vtt_p_ok in Hok. apply andb_true_iff in Hok as [O1 O2]. unfold cue_chars, c. cbn [c_items].
    pose proof (vtt_inlines_text (echildren p) (v_css st) O2) as G. rewrite Ei in G. cbn [fst] in G. rewrite G.
    rewrite (leaves_text_container p O1). reflexivity. }
  destruct (only_whitespace (cue_text esc_vtt c)) eqn:Ew; injection H as <- <-.
  - split; [constructor|]. intros Hok. rewrite <- (Hc Hok). symmetry. apply (blank_cue esc_vtt c esc_vtt_keeps Ew).
  - split; [constructor; [split; reflexivity | constructor]|]. intros Hok. cbn [flat_map]. rewrite app_nil_r. apply Hc, Hok.
Qed.
Lemma vtt_process_ps_spec cfg ra b en : forall ps st cs st',
  vtt_process_ps cfg ra b en ps st = Ok (cs, st') -> block_spec b en (forallb vtt_p_ok ps) (flat_map leaves_text ps) cs.
Proof.
  induction ps as [|p ps IH]; intros st cs st' H; cbn [vtt_process_ps] in H.
  - injection H as <- <-. split; [constructor | reflexivity].
  - destruct (vtt_process_p cfg ra b en p st) as [[x s1]|] eqn:Ep; [|discriminate]. cbn [bind snd fst] in H.
    destruct (vtt_process_ps cfg ra b en ps s1) as [[y s2]|] eqn:Eps; [|discriminate]. cbn [bind snd fst] in H. injection H as <- <-.
    destruct (vtt_process_p_spec _ _ _ _ _ _ _ _ Ep) as [A1 A2]. destruct (IH _ _ _ Eps) as [B1 B2].
    split; [apply cues_at_app; assumption|]. cbn [forallb flat_map]. intros Hok. apply andb_true_iff in Hok as [O1 O2].
    rewrite flat_map_app, !visc_app, (A2 O1), (B2 O2). reflexivity.
Qed.
Lemma vtt_region_text r : vtt_region_ok r = true ->
  forallb vtt_p_ok (flat_map echildren (flat_map echildren (echildren r))) = true /\
  flat_map leaves_text (flat_map echildren (flat_map echildren (echildren r))) = leaves_text r.
Proof.
  unfold vtt_region_ok. intros H. apply andb_true_iff in H as [Hr Hb]. rewrite forallb_forall in Hb. split.
  - apply forallb_forall. intros p Hp. apply in_flat_map in Hp as (dv & Hdv & Hp). apply in_flat_map in Hdv as (bd & Hbd & Hdv).
    specialize (Hb bd Hbd). apply andb_true_iff in Hb as [_ Hb]. rewrite forallb_forall in Hb. specialize (Hb dv Hdv).
    apply andb_true_iff in Hb as [_ Hb]. rewrite forallb_forall in Hb. apply Hb, Hp.
  - rewrite (leaves_text_container r Hr). do 2 rewrite flat_map_flat_map. apply flat_map_ext_in. intros bd Hbd.
    specialize (Hb bd Hbd). apply andb_true_iff in Hb as [Hc Hb]. rewrite forallb_forall in Hb.
    rewrite (leaves_text_container bd Hc). apply flat_map_ext_in. intros dv Hdv.
    specialize (Hb dv Hdv). apply andb_true_iff in Hb as [Hd _]. symmetry. apply leaves_text_container, Hd.
Qed.
Theorem vtt_regions_spec cfg b en : forall regions st cs st',
  vtt_regions cfg b en regions st = Ok (cs, st') -> block_spec b en (vtt_sees_all regions) (flat_map leaves_text regions) cs.
Proof.
  induction regions as [|r regions IH]; intros st cs st' H; cbn [vtt_regions] in H.
  - injection H as <- <-. split; [constructor | reflexivity].
  - cbv zeta in H.
    destruct (vtt_process_ps cfg (eattrs r) b en (flat_map echildren (flat_map echildren (echildren r))) st) as [[x s1]|] eqn:Ep; [|discriminate].
    cbn [bind snd fst] in H. destruct (vtt_regions cfg b en regions s1) as [[y s2]|] eqn:Er; [|discriminate].
    cbn [bind snd fst] in H. injection H as <- <-.
    destruct (vtt_process_ps_spec _ _ _ _ _ _ _ _ Ep) as [A1 A2]. destruct (IH _ _ _ Er) as [B1 B2].
    split; [apply cues_at_app; assumption|]. unfold vtt_sees_all. cbn [forallb flat_map]. intros Hok. apply andb_true_iff in Hok as [O1 O2].
    destruct (vtt_region_text r O1) as [P1 P2]. rewrite flat_map_app, !visc_app, (A2 P1), P2, (B2 O2). reflexivity.
Qed.

(* ---- the loops over the snapshot sequence ---------------------------------------------------------------------------- *)
Definition next_time (seq : list (Q * list elem)) : option Q := match seq with (t', _) :: _ => Some t' | [] => None end.

(* cs is the concatenation of one group of cues per snapshot, each group satisfying P for that snapshot *)
Inductive by_snapshot (P : Z -> option Z -> list elem -> list cue -> Prop) : list (Q * list elem) -> list cue -> Prop :=
| bs_nil : by_snapshot P [] []
| bs_cons t regions seq b en cs rest :
    q_ms t = Ok b -> oq_ms (next_time seq) = Ok en -> P b en regions cs -> by_snapshot P seq rest ->
    by_snapshot P ((t, regions) :: seq) (cs ++ rest).

Lemma by_snapshot_impl (P Q' : Z -> option Z -> list elem -> list cue -> Prop) :
  (forall b en r cs, P b en r cs -> Q' b en r cs) -> forall seq cs, by_snapshot P seq cs -> by_snapshot Q' seq cs.
Proof. intros H seq cs B. induction B; econstructor; eauto. Qed.

Definition snapshot_spec (ok : list elem -> bool) (fs : list isd_filter) (b : Z) (en : option Z) (regions : list elem) (cs : list cue) : Prop :=
  block_spec b en (ok (apply_filters fs regions)) (flat_map leaves_text (apply_filters fs regions)) cs.

Theorem srt_loop_spec fmt : forall seq n cs,
  srt_loop fmt seq n = Ok cs -> by_snapshot (snapshot_spec srt_sees_all srt_filters) seq cs.
Proof.
  induction seq as [|[t regions] seq IH]; intros n cs H; cbn [srt_loop] in H.
  - injection H as <-. constructor.
  - destruct (q_ms t) as [b|] eqn:Eb; [|discriminate]. cbn [bind] in H.
    fold (next_time seq) in H. destruct (oq_ms (next_time seq)) as [en|] eqn:Een; [|discriminate]. cbn [bind] in H.
    destruct (srt_add_isd fmt b en (apply_filters srt_filters regions) n) as [x n1] eqn:Ex.
    destruct (srt_loop fmt seq n1) as [rest|] eqn:Er; [|discriminate]. cbn [bind] in H. injection H as <-.
    econstructor; [exact Eb | exact Een | | exact (IH _ _ Er)]. exact (srt_add_isd_spec _ _ _ _ _ _ _ Ex).
Qed.
Theorem vtt_loop_spec cfg fs : forall seq st cs st',
  vtt_loop cfg fs seq st = Ok (cs, st') -> by_snapshot (snapshot_spec vtt_sees_all fs) seq cs.
Proof.
  induction seq as [|[t regions] seq IH]; intros st cs st' H; cbn [vtt_loop] in H.
  - injection H as <- <-. constructor.
  - destruct (q_ms t) as [b|] eqn:Eb; [|discriminate]. cbn [bind] in H.
    fold (next_time seq) in H. destruct (oq_ms (next_time seq)) as [en|] eqn:Een; [|discriminate]. cbn [bind] in H.
    destruct (vtt_regions cfg b en (apply_filters fs regions) st) as [[x s1]|] eqn:Ex; [|discriminate]. cbn [bind snd fst] in H.
    destruct (vtt_loop cfg fs seq s1) as [[rest s2]|] eqn:Er; [|discriminate]. cbn [bind snd fst] in H. injection H as <- <-.
    econstructor; [exact Eb | exact Een | | exact (IH _ _ _ Er)]. exact (vtt_regions_spec _ _ _ _ _ _ _ Ex).
Qed.
