(* C06: the snapshots of a document whose body follows the content model of model.py (body > div > (div | p)*; regions are
   regions) have the shape the filter and writer theorems assume (`snapshot_shape`): snapshot generation keeps the kind of
   every element and only removes children, and so do the per-region clones of the significant-times cache. *)
From TT Require Import Model.Doc Gen.StyleTables Model.Isd Model.SigTimes Model.IsdFilters Spec.IsdSpec.
From TT Require Import Proofs.Common.ElemInd Proofs.C01.Lwsp Proofs.C02.Complete Proofs.C06.Filters Proofs.C06.Inline Proofs.C06.Loop Proofs.C06.Text.

(* ---- the content model, as far as it matters here ------------------------------------------------------------------------- *)
Definition is_kind (k : kind) (e : elem) : bool := kind_eqb (e_kind (eattrs e)) k.
(* the children of a division are divisions and paragraphs *)
Fixpoint src_block_ok (e : elem) : bool :=
  match e with
  | Elem a cs =>
      (fix go (l : list elem) : bool :=
         match l with
         | [] => true
         | c :: l' => (match e_kind (eattrs c) with KDiv => src_block_ok c | KP => true | _ => false end) && go l'
         end) cs
  end.
Lemma src_block_ok_node a cs :
  src_block_ok (Elem a cs) = forallb (fun c => match e_kind (eattrs c) with KDiv => src_block_ok c | KP => true | _ => false end) cs.
Proof. reflexivity. Qed.
Definition src_body_ok (b : elem) : bool := is_kind KBody b && forallb (fun c => is_kind KDiv c && src_block_ok c) (echildren b).
Definition doc_block_wf (d : doc) : bool :=
  forallb (is_kind KRegion) (d_regions d) && match d_body d with Some b => src_body_ok b | None => true end.

(* ---- snapshot generation keeps kinds -------------------------------------------------------------------------------------------- *)
Lemma finish_element_kind a st children r : finish_element a st children = Ok (Some r) ->
  e_kind (eattrs r) = e_kind a /\
  (match e_kind a with KP | KRt | KRtc | KRp => True | _ => echildren r = children end).
Proof.
  unfold finish_element. intros H. destruct (negb (push_children_ok (e_kind a) children) && is_nonempty_l children); [discriminate|].
  set (children' := match e_kind a with
                    | KP | KRt | KRtc | KRp => match children with [] => [] | _ => lwsp_children (isd_attrs a st) children end
                    | _ => children end) in H.
  assert (G : forall x, x = Elem (isd_attrs a (strip_inapplicable (e_kind a) st)) children' ->
              e_kind (eattrs x) = e_kind a /\ match e_kind a with KP | KRt | KRtc | KRp => True | _ => echildren x = children end).
  { intros x ->. split; [reflexivity|]. unfold children'. destruct (e_kind a); try exact I; reflexivity. }
  destruct (keep_always (e_kind a)); [injection H as <-; apply G; reflexivity|].
  destruct children'; [|injection H as <-; apply G; reflexivity].
  destruct (e_kind a); try discriminate.
  destruct (sget (strip_inapplicable KRegion st) p_ShowBackground) as [v|]; [|discriminate].
  destruct v; try discriminate. destruct (tag =? e_ShowBackgroundType_always); [injection H as <-; apply G; reflexivity | discriminate].
Qed.

(* the children of the result are results of children of the source, in order *)
Inductive sub_results (R : elem -> elem -> Prop) : list elem -> list elem -> Prop :=
| sr_nil : sub_results R [] []
| sr_skip c cs rs : sub_results R cs rs -> sub_results R (c :: cs) rs
| sr_keep c r cs rs : R c r -> sub_results R cs rs -> sub_results R (c :: cs) (r :: rs).

Lemma proc_children d t sel a st assoc iv : forall cs children,
  (fix go (l : list elem) : res (list elem) :=
     match l with
     | [] => Ok []
     | c :: l' =>
         bind (proc d t sel assoc (Some (e_kind a, st)) (Some (fst iv)) (snd iv) c) (fun r =>
         bind (go l') (fun rs => Ok (match r with Some x => x :: rs | None => rs end)))
     end) cs = Ok children ->
  sub_results (fun c r => proc d t sel assoc (Some (e_kind a, st)) (Some (fst iv)) (snd iv) c = Ok (Some r)) cs children.
Proof.
  induction cs as [|c cs IH]; intros children H.
  - injection H as <-. constructor.
  - destruct (proc d t sel assoc (Some (e_kind a, st)) (Some (fst iv)) (snd iv) c) as [rc|] eqn:Ec; [|discriminate]. cbn [bind] in H.
    match type of H with bind ?g _ = _ => destruct g as [rs|] eqn:Er end; [|discriminate]. cbn [bind] in H. injection H as <-.
    destruct rc as [x|]; [apply sr_keep; [exact Ec | apply IH; reflexivity] | apply sr_skip, IH; reflexivity].
Qed.

Lemma proc_inv d t sel e inh par pb pe r : proc d t sel inh par pb pe e = Ok (Some r) ->
  e_kind (eattrs r) = e_kind (eattrs e) /\
  (match e_kind (eattrs e) with
   | KP | KRt | KRtc | KRp => True
   | _ => exists assoc par' pb' pe', sub_results (fun c x => proc d t sel assoc par' pb' pe' c = Ok (Some x)) (echildren e) (echildren r)
   end).
Proof.
  destruct e as [a cs]. intros H. cbn [proc] in H. cbn [eattrs echildren].
  destruct (negb (active_at t _)); [discriminate|].
  match type of H with (if ?b then _ else _) = _ => destruct b end; [discriminate|].
  destruct (style_phase d t a par _) as [st|]; [|discriminate]. cbn [bind] in H.
  destruct (display_none st); [discriminate|].
  match type of H with bind ?g _ = _ => destruct g as [children|] eqn:Eg end; [|discriminate]. cbn [bind] in H.
  destruct (finish_element_kind a st children r H) as [Hk Hc]. split; [exact Hk|].
  apply proc_children in Eg.
  destruct (e_kind a); try exact I; rewrite Hc; eexists; eexists; eexists; eexists; exact Eg.
Qed.

Lemma kind_eqb_eq a b : kind_eqb a b = true -> a = b.
Proof. destruct a, b; try discriminate; reflexivity. Qed.

(* a division: the result is a division whose children are divisions and paragraphs *)
Lemma proc_block d t sel : forall e inh par pb pe r,
  e_kind (eattrs e) = KDiv -> src_block_ok e = true -> proc d t sel inh par pb pe e = Ok (Some r) ->
  e_kind (eattrs r) = KDiv /\ block_ok r = true.
Proof.
  induction e as [a cs IH] using elem_ind2. intros inh par pb pe r Hk Hs H.
  destruct (proc_inv _ _ _ _ _ _ _ _ _ H) as [Hkr Hc]. cbn [eattrs echildren] in *. rewrite Hk in *. split; [exact Hkr|].
  destruct Hc as (assoc & par' & pb' & pe' & Hsub). destruct r as [ar cr]. cbn [echildren] in Hsub. rewrite block_ok_node.
  rewrite src_block_ok_node in Hs. clear H Hkr. induction Hsub as [|c cs0 rs _ IHs|c x cs0 rs Hx _ IHs].
  - reflexivity.
  - inversion IH; subst. cbn [forallb] in Hs. apply andb_true_iff in Hs as [_ Hs]. apply IHs; assumption.
  - inversion IH as [|? ? Hc0 Hcs0]; subst. cbn [forallb] in Hs. apply andb_true_iff in Hs as [Hs1 Hs2].
    cbn [forallb]. rewrite (IHs Hcs0 Hs2), andb_true_r.
    destruct (proc_inv _ _ _ _ _ _ _ _ _ Hx) as [Hkx _]. rewrite Hkx.
    destruct (e_kind (eattrs c)) eqn:Ekc; try discriminate; [|reflexivity].
    exact (proj2 (Hc0 _ _ _ _ _ eq_refl Hs1 Hx)).
Qed.
Lemma container_kind e k : e_kind (eattrs e) = k -> match k with KBr | KText | KRt | KRtc | KRp => False | _ => True end -> container e = true.
Proof. intros <- H. unfold container. destruct (e_kind (eattrs e)); try reflexivity; contradiction. Qed.

Lemma proc_body d t sel b inh par pb pe r :
  src_body_ok b = true -> proc d t sel inh par pb pe b = Ok (Some r) -> body_ok r = true.
Proof.
  unfold src_body_ok, is_kind. intros Hs H. apply andb_true_iff in Hs as [Hk Hs]. apply kind_eqb_eq in Hk.
  destruct (proc_inv _ _ _ _ _ _ _ _ _ H) as [Hkr Hc]. rewrite Hk in *. destruct Hc as (assoc & par' & pb' & pe' & Hsub).
  unfold body_ok. rewrite (container_kind r KBody Hkr I). cbn [andb].
  clear H Hkr. induction Hsub as [|c cs0 rs _ IHs|c x cs0 rs Hx _ IHs]; [reflexivity | |];
    cbn [forallb] in Hs; apply andb_true_iff in Hs as [Hs1 Hs2]; [apply IHs, Hs2|].
  cbn [forallb]. rewrite (IHs Hs2), andb_true_r. apply andb_true_iff in Hs1 as [Hk1 Hb1]. apply kind_eqb_eq in Hk1.
  destruct (proc_block d t sel c _ _ _ _ x Hk1 Hb1 Hx) as [Hkx Hbx]. rewrite (container_kind x KDiv Hkx I), Hbx. reflexivity.
Qed.

Lemma proc_region_shape d t sel r res :
  e_kind (eattrs r) = KRegion -> match d_body d with Some b => src_body_ok b = true | None => True end ->
  proc_region d t sel r = Ok (Some res) -> container res = true /\ forallb body_ok (echildren res) = true.
Proof.
  intros Hk Hb H. unfold proc_region in H. destruct (negb (active_at t _)); [discriminate|].
  destruct (style_phase d t _ None _) as [st|]; [|discriminate]. cbn [bind] in H.
  destruct (display_none st); [discriminate|].
  match type of H with bind ?g _ = _ => destruct g as [children|] eqn:Eg end; [|discriminate]. cbn [bind] in H.
  destruct (finish_element_kind _ _ _ _ H) as [Hkr Hc]. rewrite Hk in *. split; [exact (container_kind res KRegion Hkr I)|]. rewrite Hc.
  destruct (d_body d) as [b|]; [|injection Eg as <-; reflexivity].
  destruct (proc d t sel None _ None None b) as [[x|]|] eqn:Eb; cbn [bind] in Eg; try discriminate; injection Eg as <-; [|reflexivity].
  cbn [forallb]. rewrite (proc_body _ _ _ _ _ _ _ _ _ Hb Eb). reflexivity.
Qed.

Lemma paragraphs_regions_shape rs : paragraphs_shape rs = true -> regions_shape rs = true.
Proof.
  unfold paragraphs_shape, regions_shape. intros H. apply forallb_forall. intros r Hr. rewrite forallb_forall in H. specialize (H r Hr).
  apply andb_true_iff in H as [H1 H2]. rewrite H1. cbn [andb]. apply forallb_forall. intros b Hb. rewrite forallb_forall in H2.
  specialize (H2 b Hb). unfold body_ok in H2. apply andb_true_iff in H2 as [H2 _]. exact H2.
Qed.
Lemma snapshot_shape_forall rs : snapshot_shape rs = forallb (fun r => container r && forallb body_ok (echildren r)) rs.
Proof.
  unfold snapshot_shape. change (forallb (fun r => container r && forallb body_ok (echildren r)) rs) with (paragraphs_shape rs).
  destruct (paragraphs_shape rs) eqn:E; [rewrite (paragraphs_regions_shape rs E); reflexivity | apply andb_false_r].
Qed.
Lemma snapshot_shape_app a b : snapshot_shape (a ++ b) = snapshot_shape a && snapshot_shape b.
Proof. rewrite !snapshot_shape_forall. apply forallb_app. Qed.

Theorem isd_shape d t rs : doc_block_wf d = true -> isd d t = Ok rs -> snapshot_shape rs = true.
Proof.
  unfold doc_block_wf. intros Hw H. apply andb_true_iff in Hw as [Hr Hb].
  assert (Hb' : match d_body d with Some b => src_body_ok b = true | None => True end) by (destruct (d_body d); [exact Hb | exact I]).
  rewrite snapshot_shape_forall.
  assert (G : forall (l : list elem) (sel : elem -> option text) rs0,
              (forall r, In r l -> e_kind (eattrs r) = KRegion) ->
              collect_regions (map (fun r => proc_region d t (sel r) r) l) = Ok rs0 ->
              forallb (fun r => container r && forallb body_ok (echildren r)) rs0 = true).
  { induction l as [|r l IH]; intros sel rs0 Hl Hc; cbn [map collect_regions] in Hc.
    - injection Hc as <-. reflexivity.
    - destruct (proc_region d t (sel r) r) as [o|] eqn:Ep; [|discriminate]. cbn [bind] in Hc.
      destruct (collect_regions (map (fun r0 => proc_region d t (sel r0) r0) l)) as [xs|] eqn:Ex; [|discriminate]. cbn [bind] in Hc.
      injection Hc as <-. specialize (IH sel xs (fun r' Hr' => Hl r' (or_intror Hr')) Ex).
      destruct o as [x|]; [|exact IH]. cbn [forallb].
      destruct (proc_region_shape d t (sel r) r x (Hl r (or_introl eq_refl)) Hb' Ep) as [A B]. rewrite A, B, IH. reflexivity. }
  unfold isd in H. destruct (d_regions d) as [|r0 l0] eqn:Er.
  - change [proc_region d t None default_region] with (map (fun r => proc_region d t ((fun _ => None) r) r) [default_region]) in H.
    apply (G [default_region] (fun _ => None) rs); [intros r [<-|[]]; reflexivity | exact H].
  - apply (G (r0 :: l0) (fun r => e_id (eattrs r)) rs); [|exact H]. intros r Hin. rewrite forallb_forall in Hr.
    apply kind_eqb_eq. apply (Hr r Hin).
Qed.

(* ---- the per-region clones of the cache keep the content model --------------------------------------------------------------- *)
Lemma restrict_inv sel : forall e inh r, restrict sel inh e = Ok (Some r) ->
  eattrs r = eattrs e /\ exists assoc, sub_results (fun c x => restrict sel assoc c = Ok (Some x)) (echildren e) (echildren r).
Proof.
  intros [a cs] inh r H. cbn [restrict] in H.
  match type of H with (if ?b then _ else _) = _ => destruct b end; [discriminate|].
  match type of H with bind ?g _ = _ => destruct g as [cs'|] eqn:Eg end; [|discriminate]. cbn [bind] in H.
  destruct (is_nonempty_l cs' && negb (push_children_ok (e_kind a) cs')); [discriminate|]. injection H as <-.
  split; [reflexivity|]. cbn [echildren]. eexists. revert cs' Eg. induction cs as [|c cs IH]; intros cs' Eg.
  - injection Eg as <-. constructor.
  - match type of Eg with bind ?g _ = _ => destruct g as [rc|] eqn:Ec end; [|discriminate]. cbn [bind] in Eg.
    match type of Eg with bind ?g _ = _ => destruct g as [rs|] eqn:Er end; [|discriminate]. cbn [bind] in Eg. injection Eg as <-.
    destruct rc as [x|]; [apply sr_keep; [exact Ec | apply IH; reflexivity] | apply sr_skip, IH; reflexivity].
Qed.
Lemma restrict_block sel : forall e inh r, src_block_ok e = true -> restrict sel inh e = Ok (Some r) -> src_block_ok r = true.
Proof.
  induction e as [a cs IH] using elem_ind2. intros inh r Hs H. destruct (restrict_inv sel _ _ _ H) as [_ (assoc & Hsub)].
  destruct r as [ar cr]. cbn [echildren] in Hsub. rewrite src_block_ok_node in *. clear H.
  induction Hsub as [|c cs0 rs _ IHs|c x cs0 rs Hx _ IHs]; [reflexivity | |];
    inversion IH as [|? ? Hc0 Hcs0]; subst; cbn [forallb] in Hs; apply andb_true_iff in Hs as [Hs1 Hs2]; [apply IHs; assumption|].
  cbn [forallb]. rewrite (IHs Hcs0 Hs2), andb_true_r. destruct (restrict_inv sel _ _ _ Hx) as [Ha _]. rewrite Ha.
  destruct (e_kind (eattrs c)); try discriminate; [|reflexivity]. exact (Hc0 _ _ Hs1 Hx).
Qed.
Lemma restrict_body sel b inh r : src_body_ok b = true -> restrict sel inh b = Ok (Some r) -> src_body_ok r = true.
Proof.
  unfold src_body_ok, is_kind. intros Hs H. apply andb_true_iff in Hs as [Hk Hs].
  destruct (restrict_inv sel _ _ _ H) as [Ha (assoc & Hsub)]. rewrite Ha, Hk. cbn [andb]. clear H Ha Hk.
  induction Hsub as [|c cs0 rs _ IHs|c x cs0 rs Hx _ IHs]; [reflexivity | |];
    cbn [forallb] in Hs; apply andb_true_iff in Hs as [Hs1 Hs2]; [apply IHs, Hs2|].
  cbn [forallb]. rewrite (IHs Hs2), andb_true_r. apply andb_true_iff in Hs1 as [Hk1 Hb1].
  destruct (restrict_inv sel _ _ _ Hx) as [Ha _]. rewrite Ha, Hk1, (restrict_block sel c _ x Hb1 Hx). reflexivity.
Qed.

Lemma cached_docs_wf d ds : doc_block_wf d = true -> cached_docs d = Ok ds -> Forall (fun c => doc_block_wf c = true) ds.
Proof.
  intros Hw H. unfold cached_docs in H.
  assert (G : forall rs cs, (forall r, In r rs -> is_kind KRegion r = true) -> clones d rs = Ok cs -> Forall (fun c => doc_block_wf c = true) cs).
  { induction rs as [|r rs IH]; intros cs Hrs Hc; cbn [clones] in Hc; [injection Hc as <-; constructor|].
    destruct (clone_one_region d r) as [c|] eqn:Ec; [|discriminate]. cbn [bind] in Hc.
    destruct (clones d rs) as [cs'|] eqn:Ecs; [|discriminate]. cbn [bind] in Hc. injection Hc as <-.
    constructor; [|apply IH; [intros r' Hr'; apply Hrs; right; exact Hr' | reflexivity]].
    unfold clone_one_region in Ec. destruct (e_id (eattrs r)) as [rid|]; [|discriminate].
    unfold doc_block_wf in Hw. apply andb_true_iff in Hw as [_ Hb].
    destruct (d_body d) as [b|].
    - destruct (restrict rid None b) as [[b'|]|] eqn:Eb; cbn [bind] in Ec; try discriminate; injection Ec as <-;
        unfold doc_block_wf; cbn [d_regions d_body forallb]; rewrite (Hrs r (or_introl eq_refl)); cbn [andb]; [|reflexivity].
      exact (restrict_body rid b None b' Hb Eb).
    - cbn [bind] in Ec. injection Ec as <-. unfold doc_block_wf. cbn [d_regions d_body forallb]. rewrite (Hrs r (or_introl eq_refl)). reflexivity. }
  assert (Hr : forall r, In r (d_regions d) -> is_kind KRegion r = true).
  { unfold doc_block_wf in Hw. apply andb_true_iff in Hw as [Hw _]. rewrite forallb_forall in Hw. exact Hw. }
  destruct (d_regions d) as [|r1 [|r2 rest]] eqn:Er.
  - injection H as <-. constructor; [exact Hw | constructor].
  - injection H as <-. constructor; [exact Hw | constructor].
  - apply (G (r1 :: r2 :: rest) ds Hr H).
Qed.

Theorem isd_cached_shape d t rs : doc_block_wf d = true -> isd_cached d t = Ok rs -> snapshot_shape rs = true.
Proof.
  intros Hw H. unfold isd_cached in H. destruct (cached_docs d) as [ds|] eqn:Ed; [|discriminate]. cbn [bind] in H.
  pose proof (cached_docs_wf d ds Hw Ed) as Hds. clear Ed. revert rs H. induction ds as [|c ds IH]; intros rs H; cbn [isd_cached_docs] in H.
  - injection H as <-. reflexivity.
  - inversion Hds as [|? ? Hc Hds']; subst. destruct (skip_cached t (content_interval c)); [exact (IH Hds' rs H)|].
    destruct (isd c t) as [r1|] eqn:E1; [|discriminate]. cbn [bind] in H.
    destruct (isd_cached_docs t ds) as [r2|] eqn:E2; [|discriminate]. cbn [bind] in H. injection H as <-.
    rewrite snapshot_shape_app, (isd_shape c t r1 Hc E1), (IH Hds' r2 eq_refl). reflexivity.
Qed.

(* every snapshot of the sequence the writers consume has the shape *)
Theorem sequence_shape d seq : doc_block_wf d = true -> isd_sequence d = Ok seq -> seq_shape seq = true.
Proof.
  intros Hw H. destruct (sequence_spec d seq H) as (l & _ & _ & Hf). unfold seq_shape. apply forallb_forall. intros x Hx.
  rewrite Forall_forall in Hf. exact (isd_cached_shape d (fst x) (snd x) Hw (Hf x Hx)).
Qed.

(* document level: no shape hypothesis left *)
Theorem srt_text_document d fmt seq cs :
  doc_block_wf d = true -> isd_sequence d = Ok seq -> trig_lost_srt seq = false -> Model.CueWriter.srt_cues fmt seq = Ok cs ->
  visc (flat_map Model.CueTriggers.cue_chars cs) = visc (seq_text seq).
Proof. intros Hw Hs Ht Hc. exact (srt_text_total fmt seq cs (sequence_shape d seq Hw Hs) Ht Hc). Qed.
Theorem vtt_text_document d cfg seq cs css :
  doc_block_wf d = true -> isd_sequence d = Ok seq -> trig_lost_vtt cfg seq = false -> Model.CueWriter.vtt_cues cfg seq = Ok (cs, css) ->
  visc (flat_map Model.CueTriggers.cue_chars cs) = visc (seq_text seq).
Proof. intros Hw Hs Ht Hc. exact (vtt_text_total cfg seq cs css (sequence_shape d seq Hw Hs) Ht Hc). Qed.
