(* C06: which cues exist.  A snapshot that shows visible text gets a cue (nothing is dropped); a snapshot that shows none gets no
   cue — unless a paragraph survives the white-space test only because of its tags (recorded finding tags-only-cue, trigger
   trig_tags_only). *)
From TT Require Import Model.Doc Gen.StyleTables Model.Isd Model.SigTimes Model.TimeCode Model.IsdFilters Gen.CueTables Model.CueWriter.
From TT Require Import Model.CueTriggers Spec.IsdSpec Proofs.C06.Filters Proofs.C06.Inline Proofs.C06.Loop Proofs.C06.Text.

Lemma not_blank_visc t : only_whitespace t = false -> visc t <> [].
Proof.
  unfold only_whitespace, visc. induction t as [|c t IH]; [discriminate|]. cbn [forallb filter]. unfold visible at 1.
  destruct (py_isspace c); cbn [negb andb]; [exact IH | discriminate].
Qed.
Lemma trig_tags_only_app x y : trig_tags_only (x ++ y) = trig_tags_only x || trig_tags_only y.
Proof. unfold trig_tags_only. apply existsb_app. Qed.

Theorem group_exists sees_all fs t next regions cs :
  group_ok sees_all fs t next regions cs -> snapshot_shape regions = true -> sees_all (apply_filters fs regions) = true ->
  (visc (flat_map leaves_text regions) <> [] -> cs <> []) /\
  (visc (flat_map leaves_text regions) = [] -> trig_tags_only cs = false -> cs = []).
Proof.
  intros [_ Ht] Hs Hok. specialize (Ht Hs Hok). split.
  - intros Hne ->. apply Hne. rewrite <- Ht. reflexivity.
  - intros He Htr. rewrite He in Ht. destruct cs as [|c cs]; [reflexivity|]. exfalso.
    cbn [flat_map] in Ht. rewrite visc_app in Ht. apply app_eq_nil in Ht as [Hc _].
    unfold trig_tags_only in Htr. cbn [existsb] in Htr. apply orb_false_iff in Htr as [Htr _].
    exact (not_blank_visc _ Htr Hc).
Qed.

(* for the whole output of both writers *)
Theorem srt_cues_exist fmt seq cs : srt_cues fmt seq = Ok cs ->
  cue_groups (fun _ _ regions group =>
                snapshot_shape regions = true -> srt_sees_all (apply_filters srt_filters regions) = true ->
                (visc (flat_map leaves_text regions) <> [] -> group <> []) /\
                (visc (flat_map leaves_text regions) = [] -> trig_tags_only group = false -> group = [])) seq cs.
Proof.
  intros H. eapply cue_groups_impl; [|exact (srt_cues_groups fmt seq cs H)]. intros t n r x G Hs Hok. exact (group_exists _ _ _ _ _ _ G Hs Hok).
Qed.
Theorem vtt_cues_exist cfg fs seq cs css : vtt_filters cfg = Some fs -> vtt_cues cfg seq = Ok (cs, css) ->
  cue_groups (fun _ _ regions group =>
                snapshot_shape regions = true -> vtt_sees_all (apply_filters fs regions) = true ->
                (visc (flat_map leaves_text regions) <> [] -> group <> []) /\
                (visc (flat_map leaves_text regions) = [] -> trig_tags_only group = false -> group = [])) seq cs.
Proof.
  intros Hfs H. eapply cue_groups_impl; [|exact (vtt_cues_groups cfg fs seq cs css Hfs H)]. intros t n r x G Hs Hok. exact (group_exists _ _ _ _ _ _ G Hs Hok).
Qed.
