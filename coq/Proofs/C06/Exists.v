(* C06: which cues exist.  Every cue the writers write holds visible text; a snapshot that shows visible text gets a cue (nothing is
   dropped); a snapshot that shows none gets no cue (the repaired blank test looks at the text without its tags). *)
From TT Require Import Model.Doc Gen.StyleTables Model.Isd Model.SigTimes Model.TimeCode Model.IsdFilters Gen.CueTables Model.CueWriter.
From TT Require Import Model.CueTriggers Spec.IsdSpec Proofs.C06.Filters Proofs.C06.Inline Proofs.C06.Strip Proofs.C06.Loop Proofs.C06.Text.

Lemma nonblank_visc c : nonblank c -> visc (cue_chars c) <> [].
Proof. unfold nonblank. intros H E. apply only_whitespace_visc in E. rewrite E in H. discriminate. Qed.

Theorem group_exists blank sees_all fs t next regions cs :
  group_ok blank sees_all fs t next regions cs -> snapshot_shape regions = true -> sees_all (apply_filters fs regions) = true ->
  (visc (flat_map base_text regions) <> [] -> cs <> []) /\
  (visc (flat_map base_text regions) = [] -> cs = []).
Proof.
  intros (_ & Hk & Ht) Hs Hok. specialize (Ht Hs Hok). split.
  - intros Hne ->. apply Hne. rewrite <- Ht. reflexivity.
  - intros He. rewrite He in Ht. destruct cs as [|c cs]; [reflexivity|]. exfalso.
    cbn [flat_map] in Ht. rewrite visc_app in Ht. apply app_eq_nil in Ht as [Hc _].
    inversion Hk as [|? ? [_ Kc] _]; subst. exact (nonblank_visc c Kc Hc).
Qed.

(* for the whole output of both writers *)
Theorem srt_cues_exist fmt seq cs : srt_cues fmt seq = Ok cs ->
  cue_groups (fun _ _ regions group =>
                snapshot_shape regions = true -> srt_sees_all (apply_filters srt_filters regions) = true ->
                (visc (flat_map base_text regions) <> [] -> group <> []) /\
                (visc (flat_map base_text regions) = [] -> group = [])) seq cs.
Proof.
  intros H. eapply cue_groups_impl; [|exact (srt_cues_groups fmt seq cs H)]. intros t n r x G Hs Hok. exact (group_exists _ _ _ _ _ _ _ G Hs Hok).
Qed.
Theorem vtt_cues_exist cfg fs seq cs css : vtt_filters cfg = Some fs -> vtt_cues cfg seq = Ok (cs, css) ->
  cue_groups (fun _ _ regions group =>
                snapshot_shape regions = true -> vtt_sees_all (apply_filters fs regions) = true ->
                (visc (flat_map base_text regions) <> [] -> group <> []) /\
                (visc (flat_map base_text regions) = [] -> group = [])) seq cs.
Proof.
  intros Hfs H. eapply cue_groups_impl; [|exact (vtt_cues_groups cfg fs seq cs css Hfs H)]. intros t n r x G Hs Hok. exact (group_exists _ _ _ _ _ _ _ G Hs Hok).
Qed.

(* every cue of the output holds a character that is not white space — for every snapshot sequence, no hypothesis *)
Lemma cue_groups_forall (P : cue -> Prop) (R : Q -> option Q -> list elem -> list cue -> Prop) : (forall t n r cs, R t n r cs -> Forall P cs) -> forall seq cs, cue_groups R seq cs -> Forall P cs.
Proof. intros H seq cs G. induction G; [constructor|]. apply Forall_app. split; [eapply H; eassumption | assumption]. Qed.
Theorem srt_cues_nonblank fmt seq cs : srt_cues fmt seq = Ok cs -> Forall (fun c => visc (cue_chars c) <> []) cs.
Proof.
  intros H. apply (cue_groups_forall _ _ (fun t n r x (G : group_ok srt_blank srt_sees_all srt_filters t n r x) =>
    Forall_impl _ (fun c (K : kept srt_blank c) => nonblank_visc c (proj2 K)) (proj1 (proj2 G))) seq cs (srt_cues_groups fmt seq cs H)).
Qed.
Theorem vtt_cues_nonblank cfg seq cs css : vtt_cues cfg seq = Ok (cs, css) -> Forall (fun c => visc (cue_chars c) <> []) cs.
Proof.
  intros H. assert (Hfs : exists fs, vtt_filters cfg = Some fs)
    by (unfold vtt_cues in H; destruct (vtt_filters cfg) as [fs|]; [eexists; reflexivity | discriminate]).
  destruct Hfs as [fs Hfs].
  apply (cue_groups_forall _ _ (fun t n r x (G : group_ok vtt_blank vtt_sees_all fs t n r x) =>
    Forall_impl _ (fun c (K : kept vtt_blank c) => nonblank_visc c (proj2 K)) (proj1 (proj2 G))) seq cs (vtt_cues_groups cfg fs seq cs css Hfs H)).
Qed.
