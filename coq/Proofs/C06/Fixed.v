(* C06/C07: the witnesses of the defects repaired in the writers (harness/witnesses_c06.py, witnesses_c07.py), evaluated on the model:
   what was refuted in Findings/ before the repair now holds.  (The same documents are re-run against the implementation on every check.) *)
From TT Require Import Model.Doc Gen.StyleTables Model.Isd Model.SigTimes Model.TimeCode Model.IsdFilters Gen.CueTables Model.CueWriter.
From TT Require Import Model.CueTriggers Spec.IsdSpec Spec.CueSpec.
Open Scope Z_scope.

(* <p>pre<ruby><rb>BASE</rb><rt>anno</rt></ruby>post</p>, body 1 s .. 2 s *)
Definition w_ruby : doc := (mkDoc [(Elem (mkAttrs KRegion (Some [114;48]) None None None [] [] false [] []) [])] (Some (Elem (mkAttrs KBody None (Some (Qmake 1 1)) (Some (Qmake 2 1)) None [] [] false [] []) [(Elem (mkAttrs KDiv None None None (Some [114;48]) [] [] false [] []) [(Elem (mkAttrs KP None None None None [] [] false [] []) [(Elem (mkAttrs KSpan None None None None [] [] false [] []) [(Elem (mkAttrs KText None None None None [] [] false [] [112;114;101]) [])]); (Elem (mkAttrs KRuby None None None None [] [] false [] []) [(Elem (mkAttrs KRb None None None None [] [] false [] []) [(Elem (mkAttrs KSpan None None None None [] [] false [] []) [(Elem (mkAttrs KText None None None None [] [] false [] [66;65;83;69]) [])])]); (Elem (mkAttrs KRt None None None None [] [] false [] []) [(Elem (mkAttrs KSpan None None None None [] [] false [] []) [(Elem (mkAttrs KText None None None None [] [] false [] [97;110;110;111]) [])])])]); (Elem (mkAttrs KSpan None None None None [] [] false [] []) [(Elem (mkAttrs KText None None None None [] [] false [] [112;111;115;116]) [])])])])])) [] 15 32 1080 1920 None None []).

(* body/div/div/p "nested" *)
Definition w_nested : doc := (mkDoc [(Elem (mkAttrs KRegion (Some [114;48]) None None None [] [] false [] []) [])] (Some (Elem (mkAttrs KBody None (Some (Qmake 1 1)) (Some (Qmake 2 1)) None [] [] false [] []) [(Elem (mkAttrs KDiv None None None (Some [114;48]) [] [] false [] []) [(Elem (mkAttrs KDiv None None None None [] [] false [] []) [(Elem (mkAttrs KP None None None None [] [] false [] []) [(Elem (mkAttrs KSpan None None None None [] [] false [] []) [(Elem (mkAttrs KText None None None None [] [] false [] [110;101;115;116;101;100]) [])])])])])])) [] 15 32 1080 1920 None None []).

(* <p><span tts:color="red"><br/></span></p> *)
Definition w_tagsonly : doc := (mkDoc [(Elem (mkAttrs KRegion (Some [114;48]) None None None [] [] false [] []) [])] (Some (Elem (mkAttrs KBody None (Some (Qmake 1 1)) (Some (Qmake 2 1)) None [] [] false [] []) [(Elem (mkAttrs KDiv None None None (Some [114;48]) [] [] false [] []) [(Elem (mkAttrs KP None None None None [] [] false [] []) [(Elem (mkAttrs KSpan None None None None [(1, (VColor 4278190335))] [] false [] []) [(Elem (mkAttrs KBr None None None None [] [] false [] []) [])])])])])) [] 15 32 1080 1920 None None []).

(* two regions, each with a p, body begin="1s" and no end *)
Definition w_unbounded : doc := (mkDoc [(Elem (mkAttrs KRegion (Some [114;48]) None None None [] [] false [] []) []); (Elem (mkAttrs KRegion (Some [114;49]) None None None [] [] false [] []) [])] (Some (Elem (mkAttrs KBody None (Some (Qmake 1 1)) None None [] [] false [] []) [(Elem (mkAttrs KDiv None None None (Some [114;48]) [] [] false [] []) [(Elem (mkAttrs KP None None None None [] [] false [] []) [(Elem (mkAttrs KSpan None None None None [] [] false [] []) [(Elem (mkAttrs KText None None None None [] [] false [] [116;114;48]) [])])])]); (Elem (mkAttrs KDiv None None None (Some [114;49]) [] [] false [] []) [(Elem (mkAttrs KP None None None None [] [] false [] []) [(Elem (mkAttrs KSpan None None None None [] [] false [] []) [(Elem (mkAttrs KText None None None None [] [] false [] [116;114;49]) [])])])])])) [] 15 32 1080 1920 None None []).

(* region origin 10% 90%, extent 80% 20%, displayAlign after *)
Definition w_linerange : doc := (mkDoc [(Elem (mkAttrs KRegion (Some [114;48]) None None None [(17, (VCoord (mkLen (Qmake 10 1) Upct) (mkLen (Qmake 90 1) Upct))); (6, (VExtent (mkLen (Qmake 20 1) Upct) (mkLen (Qmake 80 1) Upct))); (5, (VEnum 2))] [] false [] []) [])] (Some (Elem (mkAttrs KBody None (Some (Qmake 1 1)) (Some (Qmake 2 1)) None [] [] false [] []) [(Elem (mkAttrs KDiv None None None (Some [114;48]) [] [] false [] []) [(Elem (mkAttrs KP None None None None [] [] false [] []) [(Elem (mkAttrs KSpan None None None None [] [] false [] []) [(Elem (mkAttrs KText None None None None [] [] false [] [108;111;119]) [])])])])])) [] 15 32 1080 1920 None None []).


Definition lp : vtt_config := mkVttConfig true false true.
Definition dflt : vtt_config := mkVttConfig false false true.
Definition payloads (out : res text) (parse : text -> option (list rcue)) : option (list text) :=
  match out with Ok t => option_map (map payload_text) (parse t) | Err _ => None end.

(* writers-skip-ruby (fixed): preBASEpost, in both formats; the annotation is not written *)
Lemma fixed_ruby :
  payloads (srt_from_model w_ruby true) srt_parse = Some [[112;114;101;66;65;83;69;112;111;115;116]] /\
  payloads (vtt_from_model w_ruby dflt) vtt_parse = Some [[112;114;101;66;65;83;69;112;111;115;116]].
Proof. split; vm_compute; reflexivity. Qed.
(* vtt-nested-div-lost (fixed): the WebVTT writer writes the paragraph below the nested division, as the SubRip writer does *)
Lemma fixed_nested_div :
  payloads (vtt_from_model w_nested dflt) vtt_parse = Some [[110;101;115;116;101;100]] /\
  payloads (srt_from_model w_nested true) srt_parse = Some [[110;101;115;116;101;100]].
Proof. split; vm_compute; reflexivity. Qed.
(* tags-only-cue (fixed): no cue over an interval in which nothing but a line break is visible *)
Lemma fixed_tags_only :
  srt_from_model w_tagsonly true = Ok [] /\ payloads (vtt_from_model w_tagsonly dflt) vtt_parse = Some [].
Proof. split; vm_compute; reflexivity. Qed.
(* unbounded-interval-several-cues-valueerror (fixed): both cues of the unbounded last interval end 10 s after they begin *)
Lemma fixed_unbounded : exists out cs,
  vtt_from_model w_unbounded lp = Ok out /\ vtt_wf out = true /\ vtt_parse out = Some cs /\
  map (fun c => (r_begin c, r_end c)) cs = [(1000, 11000); (1000, 11000)].
Proof. eexists. eexists. split; [vm_compute; reflexivity|]. split; [vm_compute; reflexivity|]. split; vm_compute; reflexivity. Qed.
(* line-percentage-out-of-range (fixed): the region edge at 110% is written as line:100% *)
Lemma fixed_line_range : exists out cs,
  vtt_from_model w_linerange lp = Ok out /\ vtt_wf out = true /\ vtt_parse out = Some cs /\
  map r_settings cs = [[32;108;105;110;101;58;49;48;48;37;44;101;110;100]].
Proof. eexists. eexists. split; [vm_compute; reflexivity|]. split; [vm_compute; reflexivity|]. split; vm_compute; reflexivity. Qed.
