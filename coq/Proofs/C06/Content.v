(* C06: documents that follow the content model of model.py (the push_child / push_children guards: body holds div; div holds div
   and p; p holds span, br and ruby; span holds span, br and text; ruby holds rb, rt, rp, rbc, rtc; rbc holds rb; rtc holds rt and
   rp; rb, rt and rp hold span) have snapshots in which the dispatch of both writers reaches every Br/Text leaf outside ruby annotations:
   snapshot generation, the per-region clones of the cache and the four ISD filters keep kinds and only remove or regroup
   children.  Hence the text theorems of Proofs/C06/Text.v hold for every such document without any hypothesis on the snapshots. *)
From TT Require Import Model.Doc Gen.StyleTables Model.Isd Model.SigTimes Model.TimeCode Model.IsdFilters Gen.CueTables Model.CueWriter.
From TT Require Import Model.CueTriggers Spec.IsdSpec.
From TT Require Import Proofs.Common.ElemInd Proofs.C01.Lwsp Proofs.C02.Complete Proofs.C06.Filters Proofs.C06.Inline Proofs.C06.Strip Proofs.C06.Loop Proofs.C06.Text Proofs.C06.Shape.

(* ---- the content model -------------------------------------------------------------------------------------------------------- *)
Definition child_ok (parent child : kind) : bool :=
  match parent, child with
  | KBody, KDiv => true
  | KDiv, KDiv | KDiv, KP => true
  | KP, KSpan | KP, KBr | KP, KRuby => true
  | KSpan, KSpan | KSpan, KBr | KSpan, KText => true
  | KRuby, KRb | KRuby, KRt | KRuby, KRp | KRuby, KRbc | KRuby, KRtc => true
  | KRbc, KRb => true
  | KRtc, KRt | KRtc, KRp => true
  | KRb, KSpan | KRt, KSpan | KRp, KSpan => true
  | _, _ => false
  end.
Definition ekind (e : elem) : kind := e_kind (eattrs e).
Fixpoint cm (e : elem) : bool :=
  match e with
  | Elem a cs => (fix go (l : list elem) : bool := match l with [] => true | c :: l' => child_ok (e_kind a) (ekind c) && cm c && go l' end) cs
  end.
Definition ck (k : kind) (l : list elem) : bool := forallb (fun c => child_ok k (ekind c) && cm c) l.
Lemma cm_node a cs : cm (Elem a cs) = ck (e_kind a) cs.
Proof. cbn [cm]. unfold ck. induction cs as [|c cs IH]; [reflexivity|]. cbn [forallb]. rewrite <- IH. reflexivity. Qed.
Definition doc_content_wf (d : doc) : bool :=
  forallb (is_kind KRegion) (d_regions d) && match d_body d with Some b => is_kind KBody b && cm b | None => true end.

(* ---- white-space handling keeps kinds and structure ---------------------------------------------------------------------------- *)
Lemma assign_cm : forall e ts, ekind (fst (assign_texts e ts)) = ekind e /\ cm (fst (assign_texts e ts)) = cm e.
Proof.
  induction e as [a cs IH] using elem_ind2. intros ts. rewrite assign_node.
  assert (Hl : forall k ts, ck k (fst (assign_list cs ts)) = ck k cs).
  { intros k. clear ts. induction cs as [|c cs IHcs]; intros ts; [reflexivity|]. inversion IH as [|? ? Hc Hcs]; subst.
    cbn [assign_list]. destruct (Hc ts) as [K1 K2]. destruct (assign_texts c ts) as [c' ts1]. cbn [fst] in K1, K2.
    specialize (IHcs Hcs ts1). destruct (assign_list cs ts1) as [l'' ts2]. cbn [fst ck forallb] in *. rewrite K1, K2, IHcs. reflexivity. }
  destruct (e_kind a) eqn:Ek; cbn [skips_text_list fst]; try (split; reflexivity);
    try (specialize (Hl (e_kind a) ts); destruct (assign_list cs ts) as [cs' ts']; cbn [fst] in *; split; [reflexivity|]; rewrite !cm_node; exact Hl).
  destruct (is_nonempty (e_text a)); cbn [fst]; split; try reflexivity.
  - unfold ekind. cbn [eattrs e_kind]. symmetry. exact Ek.
  - rewrite !cm_node. cbn [e_kind]. rewrite Ek. reflexivity.
Qed.
Lemma assign_list_ck k : forall cs ts, ck k (fst (assign_list cs ts)) = ck k cs.
Proof.
  induction cs as [|c cs IH]; intros ts; [reflexivity|]. cbn [assign_list]. destruct (assign_cm c ts) as [K1 K2].
  destruct (assign_texts c ts) as [c' ts1]. cbn [fst] in K1, K2. specialize (IH ts1). destruct (assign_list cs ts1) as [l'' ts2].
  cbn [fst ck forallb] in *. rewrite K1, K2, IH. reflexivity.
Qed.
Lemma prune_cm : forall e, cm e = true -> cm (prune_empty e) = true.
Proof.
  induction e as [a cs IH] using elem_ind2. rewrite prune_empty_node, !cm_node. intros H.
  induction cs as [|c cs IHcs]; [reflexivity|]. inversion IH as [|? ? Hc Hrest]; subst.
  cbn [ck forallb] in H. apply andb_true_iff in H as [H1 H2]. apply andb_true_iff in H1 as [H1a H1b].
  rewrite prune_list_cons. cbv zeta.
  match goal with |- ck _ (if ?b then _ else _) = true => destruct b end; [apply IHcs; assumption|].
  cbn [ck forallb]. rewrite (Hc H1b), andb_true_r.
  assert (K : ekind (prune_empty c) = ekind c) by (destruct c; reflexivity). rewrite K, H1a. cbn [andb]. apply IHcs; assumption.
Qed.
Lemma prune_list_ck k cs : ck k cs = true -> ck k (prune_list cs) = true.
Proof.
  intros H. pose proof (prune_cm (Elem (mkAttrs k None None None None [] [] false [] []) cs)) as G.
  rewrite prune_empty_node, !cm_node in G. exact (G H).
Qed.
Lemma lwsp_children_ck k a cs : ck k cs = true -> ck k (lwsp_children a cs) = true.
Proof.
  intros H. unfold lwsp_children. rewrite prune_empty_node. cbn [echildren]. apply prune_list_ck.
  rewrite assign_children_list, assign_list_ck. exact H.
Qed.

(* ---- snapshot generation --------------------------------------------------------------------------------------------------------- *)
Lemma finish_element_cm a st children r :
  ck (e_kind a) children = true -> finish_element a st children = Ok (Some r) -> ekind r = e_kind a /\ cm r = true.
Proof.
  unfold finish_element. intros Hc H. destruct (negb (push_children_ok (e_kind a) children) && is_nonempty_l children); [discriminate|].
  set (children' := match e_kind a with
                    | KP | KRt | KRtc | KRp => match children with [] => [] | _ => lwsp_children (isd_attrs a st) children end
                    | _ => children end) in H.
  assert (Hc' : ck (e_kind a) children' = true).
  { unfold children'. destruct (e_kind a); try exact Hc; (destruct children; [reflexivity | apply lwsp_children_ck; exact Hc]). }
  assert (G : forall x, x = Elem (isd_attrs a (strip_inapplicable (e_kind a) st)) children' -> ekind x = e_kind a /\ cm x = true).
  { intros x ->. split; [reflexivity|]. rewrite cm_node. exact Hc'. }
  destruct (keep_always (e_kind a)); [injection H as <-; apply G; reflexivity|].
  destruct children'; [|injection H as <-; apply G; reflexivity].
  destruct (e_kind a); try discriminate.
  destruct (sget (strip_inapplicable KRegion st) p_ShowBackground) as [v|]; [|discriminate].
  destruct v; try discriminate. destruct (tag =? e_ShowBackgroundType_always); [injection H as <-; apply G; reflexivity | discriminate].
Qed.

Theorem proc_cm d t sel : forall e inh par pb pe r, cm e = true -> proc d t sel inh par pb pe e = Ok (Some r) -> ekind r = ekind e /\ cm r = true.
Proof.
  induction e as [a cs IH] using elem_ind2. intros inh par pb pe r Hcm H. cbn [proc] in H.
  destruct (negb (active_at t _)); [discriminate|].
  match type of H with (if ?b then _ else _) = _ => destruct b end; [discriminate|].
  destruct (style_phase d t a par _) as [st|]; [|discriminate]. cbn [bind] in H.
  destruct (display_none st); [discriminate|].
  match type of H with bind ?g _ = _ => destruct g as [children|] eqn:Eg end; [|discriminate]. cbn [bind] in H.
  apply (finish_element_cm a st children r); [|exact H].
  rewrite cm_node in Hcm. clear H. revert children Eg. induction cs as [|c cs IHcs]; intros children Eg.
  - injection Eg as <-. reflexivity.
  - inversion IH as [|? ? Hc Hcs]; subst. cbn [ck forallb] in Hcm. apply andb_true_iff in Hcm as [H1 H2]. apply andb_true_iff in H1 as [H1a H1b].
    match type of Eg with bind ?g _ = _ => destruct g as [rc|] eqn:Ec end; [|discriminate]. cbn [bind] in Eg.
    match type of Eg with bind ?g _ = _ => destruct g as [rs|] eqn:Er end; [|discriminate]. cbn [bind] in Eg. injection Eg as <-.
    specialize (IHcs Hcs H2 rs eq_refl). destruct rc as [x|]; [|exact IHcs].
    destruct (Hc _ _ _ _ _ H1b Ec) as [K1 K2]. cbn [ck forallb]. rewrite K1, K2, H1a. exact IHcs.
Qed.

(* a region of the snapshot: a region holding at most the body, which follows the content model *)
Definition region_cm (r : elem) : bool := is_kind KRegion r && forallb (fun b => is_kind KBody b && cm b) (echildren r).
Definition snap_cm (rs : list elem) : bool := forallb region_cm rs.
Lemma kind_eqb_refl k : kind_eqb k k = true.
Proof. destruct k; reflexivity. Qed.

Lemma proc_region_cm d t sel r res :
  ekind r = KRegion -> match d_body d with Some b => is_kind KBody b && cm b = true | None => True end ->
  proc_region d t sel r = Ok (Some res) -> region_cm res = true.
Proof.
  intros Hk Hb H. unfold proc_region in H. destruct (negb (active_at t _)); [discriminate|].
  destruct (style_phase d t _ None _) as [st|]; [|discriminate]. cbn [bind] in H.
  destruct (display_none st); [discriminate|].
  match type of H with bind ?g _ = _ => destruct g as [children|] eqn:Eg end; [|discriminate]. cbn [bind] in H.
  destruct (finish_element_kind _ _ _ _ H) as [Hkr Hc]. unfold ekind in Hk. rewrite Hk in *. unfold region_cm, is_kind. rewrite Hkr. cbn [kind_eqb andb]. rewrite Hc.
  destruct (d_body d) as [b|]; [|injection Eg as <-; reflexivity].
  destruct (proc d t sel None _ None None b) as [[x|]|] eqn:Eb; cbn [bind] in Eg; try discriminate; injection Eg as <-; [|reflexivity].
  apply andb_true_iff in Hb as [Hb1 Hb2]. destruct (proc_cm _ _ _ _ _ _ _ _ _ Hb2 Eb) as [K1 K2].
  cbn [forallb]. unfold is_kind in *. unfold ekind in K1. rewrite K1, Hb1, K2. reflexivity.
Qed.

Lemma snap_cm_app a b : snap_cm (a ++ b) = snap_cm a && snap_cm b.
Proof. apply forallb_app. Qed.

Theorem isd_cm d t rs : doc_content_wf d = true -> isd d t = Ok rs -> snap_cm rs = true.
Proof.
  unfold doc_content_wf. intros Hw H. apply andb_true_iff in Hw as [Hr Hb].
  assert (Hb' : match d_body d with Some b => is_kind KBody b && cm b = true | None => True end) by (destruct (d_body d); [exact Hb | exact I]).
  assert (G : forall (l : list elem) (sel : elem -> option text) rs0,
              (forall r, In r l -> ekind r = KRegion) ->
              collect_regions (map (fun r => proc_region d t (sel r) r) l) = Ok rs0 -> snap_cm rs0 = true).
  { induction l as [|r l IH]; intros sel rs0 Hl Hc; cbn [map collect_regions] in Hc.
    - injection Hc as <-. reflexivity.
    - destruct (proc_region d t (sel r) r) as [o|] eqn:Ep; [|discriminate]. cbn [bind] in Hc.
      destruct (collect_regions (map (fun r0 => proc_region d t (sel r0) r0) l)) as [xs|] eqn:Ex; [|discriminate]. cbn [bind] in Hc.
      injection Hc as <-. specialize (IH sel xs (fun r' Hr' => Hl r' (or_intror Hr')) Ex).
      destruct o as [x|]; [|exact IH]. cbn [snap_cm forallb].
      rewrite (proc_region_cm d t (sel r) r x (Hl r (or_introl eq_refl)) Hb' Ep). exact IH. }
  unfold isd in H. destruct (d_regions d) as [|r0 l0] eqn:Er.
  - change [proc_region d t None default_region] with (map (fun r => proc_region d t ((fun _ => None) r) r) [default_region]) in H.
    apply (G [default_region] (fun _ => None) rs); [intros r [<-|[]]; reflexivity | exact H].
  - apply (G (r0 :: l0) (fun r => e_id (eattrs r)) rs); [|exact H]. intros r Hin. rewrite forallb_forall in Hr.
    apply kind_eqb_eq. apply (Hr r Hin).
Qed.

(* ---- the per-region clones of the cache ---------------------------------------------------------------------------------------- *)
Lemma restrict_cm sel : forall e inh r, cm e = true -> restrict sel inh e = Ok (Some r) -> ekind r = ekind e /\ cm r = true.
Proof.
  induction e as [a cs IH] using elem_ind2. intros inh r Hcm H. destruct (restrict_inv sel _ _ _ H) as [Ha (assoc & Hsub)].
  split; [unfold ekind; rewrite Ha; reflexivity|]. destruct r as [ar cr]. cbn [eattrs echildren] in *. subst ar. rewrite cm_node in *. clear H.
  induction Hsub as [|c cs0 rs _ IHs|c x cs0 rs Hx _ IHs]; [reflexivity | |];
    inversion IH as [|? ? Hc0 Hcs0]; subst; cbn [ck forallb] in Hcm; apply andb_true_iff in Hcm as [H1 H2]; [apply IHs; assumption|].
  apply andb_true_iff in H1 as [H1a H1b]. destruct (Hc0 _ _ H1b Hx) as [K1 K2]. cbn [ck forallb]. rewrite K1, K2, H1a. apply IHs; assumption.
Qed.

Lemma cached_docs_cm d ds : doc_content_wf d = true -> cached_docs d = Ok ds -> Forall (fun c => doc_content_wf c = true) ds.
Proof.
  intros Hw H. unfold cached_docs in H.
  assert (G : forall rs cs, (forall r, In r rs -> is_kind KRegion r = true) -> clones d rs = Ok cs -> Forall (fun c => doc_content_wf c = true) cs).
  { induction rs as [|r rs IH]; intros cs Hrs Hc; cbn [clones] in Hc; [injection Hc as <-; constructor|].
    destruct (clone_one_region d r) as [c|] eqn:Ec; [|discriminate]. cbn [bind] in Hc.
    destruct (clones d rs) as [cs'|] eqn:Ecs; [|discriminate]. cbn [bind] in Hc. injection Hc as <-.
    constructor; [|apply IH; [intros r' Hr'; apply Hrs; right; exact Hr' | reflexivity]].
    unfold clone_one_region in Ec. destruct (e_id (eattrs r)) as [rid|]; [|discriminate].
    unfold doc_content_wf in Hw. apply andb_true_iff in Hw as [_ Hb].
    destruct (d_body d) as [b|].
    - destruct (restrict rid None b) as [[b'|]|] eqn:Eb; cbn [bind] in Ec; try discriminate; injection Ec as <-;
        unfold doc_content_wf; cbn [d_regions d_body forallb]; rewrite (Hrs r (or_introl eq_refl)); cbn [andb]; [|reflexivity].
      apply andb_true_iff in Hb as [Hb1 Hb2]. destruct (restrict_cm rid b None b' Hb2 Eb) as [K1 K2]. unfold is_kind in *. unfold ekind in K1.
      rewrite K1, Hb1, K2. reflexivity.
    - cbn [bind] in Ec. injection Ec as <-. unfold doc_content_wf. cbn [d_regions d_body forallb]. rewrite (Hrs r (or_introl eq_refl)). reflexivity. }
  assert (Hr : forall r, In r (d_regions d) -> is_kind KRegion r = true).
  { unfold doc_content_wf in Hw. apply andb_true_iff in Hw as [Hw _]. rewrite forallb_forall in Hw. exact Hw. }
  destruct (d_regions d) as [|r1 [|r2 rest]] eqn:Er.
  - injection H as <-. constructor; [exact Hw | constructor].
  - injection H as <-. constructor; [exact Hw | constructor].
  - apply (G (r1 :: r2 :: rest) ds Hr H).
Qed.

Theorem isd_cached_cm d t rs : doc_content_wf d = true -> isd_cached d t = Ok rs -> snap_cm rs = true.
Proof.
  intros Hw H. unfold isd_cached in H. destruct (cached_docs d) as [ds|] eqn:Ed; [|discriminate]. cbn [bind] in H.
  pose proof (cached_docs_cm d ds Hw Ed) as Hds. clear Ed. revert rs H. induction ds as [|c ds IH]; intros rs H; cbn [isd_cached_docs] in H.
  - injection H as <-. reflexivity.
  - inversion Hds as [|? ? Hc Hds']; subst. destruct (skip_cached t (content_interval c)); [exact (IH Hds' rs H)|].
    destruct (isd c t) as [r1|] eqn:E1; [|discriminate]. cbn [bind] in H.
    destruct (isd_cached_docs t ds) as [r2|] eqn:E2; [|discriminate]. cbn [bind] in H. injection H as <-.
    rewrite snap_cm_app, (isd_cm c t r1 Hc E1), (IH Hds' r2 eq_refl). reflexivity.
Qed.
Theorem sequence_cm d seq : doc_content_wf d = true -> isd_sequence d = Ok seq -> Forall (fun x => snap_cm (snd x) = true) seq.
Proof.
  intros Hw H. destruct (sequence_spec d seq H) as (l & _ & _ & Hf). apply Forall_forall. intros x Hx.
  rewrite Forall_forall in Hf. exact (isd_cached_cm d (fst x) (snd x) Hw (Hf x Hx)).
Qed.

(* ---- the four ISD filters keep the content model ----------------------------------------------------------------------------------- *)
Lemma body_children_ck b c : is_kind KBody b && cm b = true -> In c (echildren b) -> child_ok KBody (ekind c) && cm c = true.
Proof.
  intros H Hc. apply andb_true_iff in H as [H1 H2]. apply kind_eqb_eq in H1. destruct b as [ab cb]. cbn [eattrs echildren] in *.
  rewrite cm_node, H1 in H2. unfold ck in H2. rewrite forallb_forall in H2. apply H2, Hc.
Qed.
Lemma merge_regions_cm rs : snap_cm rs = true -> snap_cm (merge_regions rs) = true.
Proof.
  intros H. unfold merge_regions.
  destruct ((Z.of_nat (length rs) <=? 1) || (fold_left (fun n r => n + Z.of_nat (length (echildren r))) rs 0 <=? 1)); [exact H|].
  cbn [snap_cm forallb region_cm is_kind eattrs plain_attrs e_kind kind_eqb echildren andb]. rewrite !andb_true_r, cm_node. cbn [plain_attrs e_kind].
  unfold ck. apply forallb_forall. intros c Hc. apply in_flat_map in Hc as (r & Hr & Hc). apply in_flat_map in Hc as (b & Hb & Hc).
  unfold snap_cm in H. rewrite forallb_forall in H. specialize (H r Hr). unfold region_cm in H. apply andb_true_iff in H as [_ H].
  rewrite forallb_forall in H. exact (body_children_ck b c (H b Hb) Hc).
Qed.

Lemma get_paragraphs_cm : forall e p, cm e = true -> In p (get_paragraphs e) -> ekind p = KP /\ cm p = true.
Proof.
  induction e as [a cs IH] using elem_ind2. intros p Hcm Hp. rewrite get_paragraphs_node in Hp. rewrite cm_node in Hcm.
  apply in_flat_map in Hp as (c & Hc & Hp). rewrite Forall_forall in IH. unfold ck in Hcm. rewrite forallb_forall in Hcm.
  specialize (Hcm c Hc). apply andb_true_iff in Hcm as [_ Hcm].
  destruct (e_kind (eattrs c)) eqn:Ek; try (destruct Hp; fail).
  - exact (IH c Hc p Hcm Hp).
  - destruct Hp as [<-|[]]. split; [exact Ek | exact Hcm].
Qed.
Lemma join_paragraphs_ck : forall ps, Forall (fun p => ekind p = KP /\ cm p = true) ps -> ck KP (join_paragraphs ps) = true.
Proof.
  induction ps as [|p ps IH]; intros H; [reflexivity|]. inversion H as [|? ? [Hk Hc] Hps]; subst.
  assert (Hp : ck KP (echildren p) = true) by (destruct p as [ap cp]; unfold ekind in Hk; cbn [eattrs echildren] in *; rewrite cm_node, Hk in Hc; exact Hc).
  cbn [join_paragraphs]. destruct ps as [|q ps']; [exact Hp|]. unfold ck. rewrite forallb_app. fold (ck KP (echildren p)). rewrite Hp.
  cbn [andb forallb]. exact (IH Hps).
Qed.
Lemma merge_paragraphs_body_cm b : is_kind KBody b && cm b = true -> is_kind KBody (merge_paragraphs_body b) && cm (merge_paragraphs_body b) = true.
Proof.
  intros H. unfold merge_paragraphs_body. destruct (Z.of_nat (length (flat_map get_paragraphs (echildren b))) <=? 1); [exact H|].
  pose proof H as H0. apply andb_true_iff in H as [H1 H2]. unfold is_kind in *. cbn [eattrs]. rewrite H1. cbn [andb]. rewrite cm_node.
  apply kind_eqb_eq in H1. rewrite H1. cbn [ck forallb ekind eattrs plain_attrs e_kind child_ok andb]. rewrite andb_true_r, cm_node.
  cbn [plain_attrs e_kind ck forallb ekind eattrs child_ok andb]. rewrite andb_true_r, cm_node. cbn [plain_attrs e_kind].
  apply join_paragraphs_ck. apply Forall_forall. intros p Hp. apply in_flat_map in Hp as (c & Hc & Hp).
  pose proof (body_children_ck b c H0 Hc) as Hcc. apply andb_true_iff in Hcc as [_ Hcc]. exact (get_paragraphs_cm c p Hcc Hp).
Qed.
Lemma merge_paragraphs_cm rs : snap_cm rs = true -> snap_cm (merge_paragraphs rs) = true.
Proof.
  unfold snap_cm, merge_paragraphs. intros H. rewrite forallb_forall in H. apply forallb_forall. intros r' Hr'.
  apply in_map_iff in Hr' as (r & <- & Hr). specialize (H r Hr). unfold region_cm, is_kind in *. cbn [eattrs echildren].
  apply andb_true_iff in H as [H1 H2]. rewrite H1. cbn [andb]. rewrite forallb_forall in H2. apply forallb_forall. intros b' Hb'.
  apply in_map_iff in Hb' as (b & <- & Hb). exact (merge_paragraphs_body_cm b (H2 b Hb)).
Qed.
Lemma forallb_map {A B} (f : A -> B) (p : B -> bool) l : forallb p (map f l) = forallb (fun x => p (f x)) l.
Proof. induction l as [|x l IH]; [reflexivity|]. cbn [map forallb]. rewrite IH. reflexivity. Qed.
Lemma forallb_ext_in {A} (p q : A -> bool) l : (forall x, In x l -> p x = q x) -> forallb p l = forallb q l.
Proof.
  induction l as [|x l IH]; intros H; [reflexivity|]. cbn [forallb]. rewrite (H x (or_introl eq_refl)), IH; [reflexivity|].
  intros y Hy. apply H. right. exact Hy.
Qed.
Lemma filter_supported_cm cfg : forall e, ekind (filter_supported cfg e) = ekind e /\ cm (filter_supported cfg e) = cm e.
Proof.
  induction e as [a cs IH] using elem_ind2. rewrite filter_supported_node. split; [reflexivity|]. rewrite !cm_node. cbn [with_styles e_kind].
  unfold ck. rewrite forallb_map. apply forallb_ext_in. intros c Hc. rewrite Forall_forall in IH. destruct (IH c Hc) as [K1 K2]. rewrite K1, K2. reflexivity.
Qed.
Lemma filter_defaults_cm dfl : forall e par, ekind (filter_defaults dfl par e) = ekind e /\ cm (filter_defaults dfl par e) = cm e.
Proof.
  induction e as [a cs IH] using elem_ind2. intros par. rewrite filter_defaults_node. cbv zeta. split; [reflexivity|]. rewrite !cm_node. cbn [with_styles e_kind].
  unfold ck. rewrite forallb_map. apply forallb_ext_in. intros c Hc. rewrite Forall_forall in IH.
  match goal with |- context [filter_defaults dfl ?q c] => destruct (IH c Hc q) as [K1 K2] end. rewrite K1, K2. reflexivity.
Qed.
Lemma region_cm_map a a' (g : elem -> elem) cs : e_kind a' = e_kind a -> (forall e, ekind (g e) = ekind e /\ cm (g e) = cm e) ->
  region_cm (Elem a' (map g cs)) = region_cm (Elem a cs).
Proof.
  intros Ha Hg. unfold region_cm, is_kind. cbn [eattrs echildren]. rewrite Ha. f_equal. rewrite forallb_map. apply forallb_ext_in.
  intros b _. destruct (Hg b) as [K1 K2]. unfold ekind in K1. rewrite K1, K2. reflexivity.
Qed.
Theorem filters_cm merge c d rs : snap_cm rs = true -> snap_cm (apply_filters (writer_filters merge c d) rs) = true.
Proof.
  intros H. unfold writer_filters, apply_filters. rewrite fold_left_app.
  assert (G : forall rs0, snap_cm rs0 = true -> snap_cm (fold_left (fun acc f => apply_filter f acc) [FMergeParagraphs; FSupported c; FDefaults d] rs0) = true).
  { intros rs0 H0. cbn [fold_left apply_filter]. apply merge_paragraphs_cm in H0. revert H0. generalize (merge_paragraphs rs0). intros l Hl.
    unfold snap_cm in *. rewrite !forallb_map. rewrite forallb_forall in Hl. apply forallb_forall. intros [a cs] Hr. specialize (Hl _ Hr).
    rewrite filter_supported_node, filter_defaults_node. cbv zeta.
    rewrite (region_cm_map (with_styles a (filter (is_supported c) (e_styles a)))); [|reflexivity | intros e; apply filter_defaults_cm].
    rewrite (region_cm_map a); [exact Hl | reflexivity | intros e; apply filter_supported_cm]. }
  destruct merge; [|exact (G rs H)].
  change (fold_left (fun acc f => apply_filter f acc) [FMergeRegions] rs) with (merge_regions rs). apply G, merge_regions_cm, H.
Qed.

(* ---- what the content model gives the writers ---------------------------------------------------------------------------------------- *)
Lemma child_ok_inline k c : child_ok k c = true ->
  match k with KP | KSpan | KRuby | KRbc | KRtc | KRb | KRt | KRp => match c with KSpan | KBr | KText | KRuby | KRb | KRt | KRp | KRbc | KRtc => True | _ => False end | _ => True end.
Proof. destruct k, c; cbn; intros H; try exact I; discriminate. Qed.
Definition inline_kind (k : kind) : bool := match k with KSpan | KBr | KText | KRuby | KRb | KRt | KRp | KRbc | KRtc => true | _ => false end.
Lemma cm_inline : forall e, inline_kind (ekind e) = true -> cm e = true -> inline_ok e = true.
Proof.
  induction e as [a cs IH] using elem_ind2. unfold ekind. cbn [eattrs]. intros Hk Hcm. rewrite inline_ok_node. rewrite cm_node in Hcm.
  assert (G : forall k, e_kind a = k -> match k with KSpan | KRuby | KRbc | KRb => True | _ => False end -> forallb inline_ok cs = true).
  { intros k Ek Hk'. apply forallb_forall. intros c Hc. rewrite Forall_forall in IH. unfold ck in Hcm. rewrite forallb_forall in Hcm.
    specialize (Hcm c Hc). apply andb_true_iff in Hcm as [H1 H2]. apply IH; [exact Hc | | exact H2].
    rewrite Ek in H1. destruct k; try contradiction; destruct (ekind c); try discriminate; reflexivity. }
  destruct (e_kind a) eqn:Ek; try discriminate; try reflexivity; apply (G _ eq_refl I).
Qed.
Lemma cm_wblock : forall e, cm e = true -> match ekind e with KDiv | KP => True | _ => False end -> wblock_ok false e = true.
Proof.
  induction e as [a cs IH] using elem_ind2. unfold ekind. cbn [eattrs]. intros Hcm Hk. rewrite wblock_ok_node. rewrite cm_node in Hcm.
  unfold ck in Hcm. rewrite forallb_forall in Hcm. destruct (e_kind a) eqn:Ek; try contradiction.
  - (* div *) apply forallb_forall. intros c Hc. specialize (Hcm c Hc). apply andb_true_iff in Hcm as [H1 H2]. rewrite Forall_forall in IH.
    apply IH; [exact Hc | exact H2|]. destruct (ekind c); try discriminate; exact I.
  - (* p *) cbn [negb orb]. rewrite andb_true_r. apply forallb_forall. intros c Hc. specialize (Hcm c Hc). apply andb_true_iff in Hcm as [H1 H2].
    apply cm_inline; [|exact H2]. destruct (ekind c); try discriminate; reflexivity.
Qed.
Lemma cm_block_ok : forall e, cm e = true -> ekind e = KDiv -> block_ok e = true.
Proof.
  induction e as [a cs IH] using elem_ind2. unfold ekind. cbn [eattrs]. intros Hcm Hk. rewrite block_ok_node. rewrite cm_node, Hk in Hcm.
  unfold ck in Hcm. rewrite forallb_forall in Hcm. apply forallb_forall. intros c Hc. specialize (Hcm c Hc). apply andb_true_iff in Hcm as [H1 H2].
  rewrite Forall_forall in IH. unfold ekind in H1. destruct (e_kind (eattrs c)) eqn:Ekc; try discriminate; [|reflexivity].
  apply IH; [exact Hc | exact H2 | exact Ekc].
Qed.

Theorem snap_cm_shape rs : snap_cm rs = true -> snapshot_shape rs = true /\ vtt_sees_all rs = true.
Proof.
  intros H. unfold snap_cm in H. rewrite forallb_forall in H.
  assert (Hreg : forall r, In r rs -> container r = true /\ forall b, In b (echildren r) -> container b = true /\
                 forall c, In c (echildren b) -> ekind c = KDiv /\ cm c = true).
  { intros r Hr. specialize (H r Hr). unfold region_cm in H. apply andb_true_iff in H as [H1 H2]. apply kind_eqb_eq in H1.
    split; [exact (container_kind r KRegion H1 I)|]. intros b Hb. rewrite forallb_forall in H2. specialize (H2 b Hb).
    pose proof H2 as H2'. apply andb_true_iff in H2 as [H3 H4]. apply kind_eqb_eq in H3. split; [exact (container_kind b KBody H3 I)|].
    intros c Hc. pose proof (body_children_ck b c H2' Hc) as Hcc. apply andb_true_iff in Hcc as [K1 K2]. split; [|exact K2].
    destruct (ekind c); try discriminate; reflexivity. }
  assert (S1 : regions_shape rs = true).
  { unfold regions_shape. apply forallb_forall. intros r Hr. destruct (Hreg r Hr) as [C1 C2]. rewrite C1. cbn [andb].
    apply forallb_forall. intros b Hb. apply (C2 b Hb). }
  split.
  - unfold snapshot_shape. rewrite S1. cbn [andb]. unfold paragraphs_shape. apply forallb_forall. intros r Hr. destruct (Hreg r Hr) as [C1 C2].
    rewrite C1. cbn [andb]. apply forallb_forall. intros b Hb. destruct (C2 b Hb) as [C3 C4]. unfold body_ok. rewrite C3. cbn [andb].
    apply forallb_forall. intros c Hc. destruct (C4 c Hc) as [K1 K2]. rewrite (container_kind c KDiv K1 I), (cm_block_ok c K2 K1). reflexivity.
  - unfold vtt_sees_all, sees_all. rewrite S1. cbn [andb]. apply forallb_forall. intros c Hc. unfold body_children in Hc.
    apply in_flat_map in Hc as (r & Hr & Hc). apply in_flat_map in Hc as (b & Hb & Hc). destruct (Hreg r Hr) as [_ C2]. destruct (C2 b Hb) as [_ C4].
    destruct (C4 c Hc) as [K1 K2]. apply cm_wblock; [exact K2 | rewrite K1; exact I].
Qed.

(* SubRip: in addition, no paragraph's text holds "<" *)
Definition has_lt (t : text) : bool := existsb (Z.eqb 60) t.
Lemma has_lt_app a b : has_lt (a ++ b) = has_lt a || has_lt b.
Proof. apply existsb_app. Qed.
Lemma has_lt_flat_map {A} (f : A -> text) l : has_lt (flat_map f l) = false -> forall x, In x l -> has_lt (f x) = false.
Proof.
  induction l as [|y l IH]; intros H x Hx; [destruct Hx|]. cbn [flat_map] in H. rewrite has_lt_app in H. apply orb_false_iff in H as [H1 H2].
  destruct Hx as [<-|Hx]; [exact H1 | exact (IH H2 x Hx)].
Qed.
Lemma wblock_lt : forall e, wblock_ok false e = true -> has_lt (base_text e) = false -> wblock_ok true e = true.
Proof.
  induction e as [a cs IH] using elem_ind2. rewrite !wblock_ok_node, base_text_node. intros H Hl.
  destruct (e_kind a) eqn:Ek; try exact H.
  - (* div *) apply forallb_forall. intros c Hc. rewrite forallb_forall in H. rewrite Forall_forall in IH.
    apply IH; [exact Hc | exact (H c Hc) | exact (has_lt_flat_map base_text cs Hl c Hc)].
  - (* p *) cbn [negb orb] in *. rewrite andb_true_r in H. rewrite H. unfold lt_free. fold (has_lt (flat_map base_text cs)). rewrite Hl. reflexivity.
Qed.
Theorem sees_all_lt rs : vtt_sees_all rs = true -> has_lt (flat_map base_text rs) = false -> srt_sees_all rs = true.
Proof.
  unfold vtt_sees_all, srt_sees_all, sees_all. intros H Hl. apply andb_true_iff in H as [H1 H2]. rewrite H1. cbn [andb].
  rewrite <- (body_children_text rs H1) in Hl. apply forallb_forall. intros c Hc. rewrite forallb_forall in H2.
  apply wblock_lt; [exact (H2 c Hc) | exact (has_lt_flat_map base_text _ Hl c Hc)].
Qed.

(* ---- document level: no hypothesis on the snapshots --------------------------------------------------------------------------------- *)
Theorem content_sees_all d seq : doc_content_wf d = true -> isd_sequence d = Ok seq ->
  seq_shape seq = true /\
  (forall cfg, trig_lost_vtt cfg seq = false) /\
  (has_lt (seq_text seq) = false -> trig_lost_srt seq = false).
Proof.
  intros Hw Hs. pose proof (sequence_cm d seq Hw Hs) as Hcm. rewrite Forall_forall in Hcm.
  split; [|split].
  - unfold seq_shape. apply forallb_forall. intros x Hx. apply (snap_cm_shape (snd x) (Hcm x Hx)).
  - intros cfg. unfold trig_lost_vtt. destruct (vtt_filters cfg) as [fs|] eqn:Ef; [|reflexivity].
    destruct (vtt_filters_form cfg fs Ef) as (c0 & d0 & ->). apply not_true_iff_false. intros E. apply existsb_exists in E as (x & Hx & E).
    apply negb_true_iff in E. rewrite (proj2 (snap_cm_shape _ (filters_cm _ c0 d0 _ (Hcm x Hx)))) in E. discriminate.
  - intros Hl. unfold trig_lost_srt. destruct srt_filters_form as (c0 & d0 & ->). apply not_true_iff_false. intros E.
    apply existsb_exists in E as (x & Hx & E). apply negb_true_iff in E.
    rewrite sees_all_lt in E; [discriminate | apply (snap_cm_shape _ (filters_cm _ c0 d0 _ (Hcm x Hx)))|].
    rewrite (filters_preserve_base true c0 d0 (snd x) (proj1 (snap_cm_shape _ (Hcm x Hx)))).
    exact (has_lt_flat_map (fun y => flat_map base_text (snd y)) seq Hl x Hx).
Qed.

(* every visible character of every snapshot, outside ruby annotations, once, in order — for every document that follows the content model *)
Theorem vtt_text_content d cfg seq cs css :
  doc_content_wf d = true -> isd_sequence d = Ok seq -> vtt_cues cfg seq = Ok (cs, css) -> visc (flat_map cue_chars cs) = visc (seq_text seq).
Proof.
  intros Hw Hs Hc. destruct (content_sees_all d seq Hw Hs) as (S1 & S2 & _). exact (vtt_text_total cfg seq cs css S1 (S2 cfg) Hc).
Qed.
(* SubRip has no escape mechanism: the statement holds for text without "<" *)
Theorem srt_text_content d fmt seq cs :
  doc_content_wf d = true -> isd_sequence d = Ok seq -> has_lt (seq_text seq) = false -> srt_cues fmt seq = Ok cs ->
  visc (flat_map cue_chars cs) = visc (seq_text seq).
Proof.
  intros Hw Hs Hl Hc. destruct (content_sees_all d seq Hw Hs) as (S1 & _ & S3). exact (srt_text_total fmt seq cs S1 (S3 Hl) Hc).
Qed.
