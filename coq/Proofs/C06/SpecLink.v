(* C06: the visible text of Spec/CueSpec.v (`vis`: per region, per paragraph, the tokens of the visible leaf chains) holds
   exactly the non-blank characters of the leaves C01's per-leaf specification selects (`leaves_spec`) — so the text theorems of
   Proofs/C06/Text.v, stated over snapshot leaves, are statements about `vis`. *)
From TT Require Import Model.Doc Gen.StyleTables Model.Isd Model.SigTimes Model.IsdFilters Spec.IsdSpec Spec.CueSpec.
From TT Require Import Model.TimeCode Gen.CueTables Model.CueWriter Model.CueTriggers.
From TT Require Import Proofs.Common.ElemInd Proofs.C01.Main Proofs.C06.Filters Proofs.C06.Inline Proofs.C06.Loop Proofs.C06.Text.

(* the non-white-space characters of a token list *)
Definition tok_chars (l : list tok) : text := flat_map (fun k => match k with TChr c => [c] | _ => [] end) l.
Lemma tok_chars_app a b : tok_chars (a ++ b) = tok_chars a ++ tok_chars b.
Proof. apply flat_map_app. Qed.

(* the characters that are not blank (white space in the wide sense of Spec/CueSpec.v) *)
Definition nb (l : text) : text := filter (fun c => negb (blank_char c)) l.
Lemma nb_app a b : nb (a ++ b) = nb a ++ nb b.
Proof. apply filter_app. Qed.
Lemma nb_flat_map {A} (f : A -> text) l : nb (flat_map f l) = flat_map (fun x => nb (f x)) l.
Proof. induction l as [|x l IH]; [reflexivity|]. cbn [flat_map]. rewrite nb_app, IH. reflexivity. Qed.
Lemma space_blank c : is_space c = true -> blank_char c = true.
Proof. unfold is_space. intros H. repeat (apply orb_true_iff in H as [H|H]); apply Z.eqb_eq in H; subst c; reflexivity. Qed.
Lemma nb_nonspace t : nb (nonspace t) = nb t.
Proof.
  induction t as [|c t IH]; [reflexivity|]. unfold nonspace, nb in *. cbn [filter]. destruct (is_space c) eqn:E; cbn [negb].
  - rewrite (space_blank c E). cbn [negb]. exact IH.
  - cbn [filter]. destruct (negb (blank_char c)); [f_equal|]; exact IH.
Qed.
(* blank and str.isspace are the same set of code points *)
Lemma py_isspace_blank c : py_isspace c = blank_char c.
Proof. reflexivity. Qed.
Lemma visc_nb l : visc (nb l) = visc l.
Proof.
  unfold visc, nb, visible. induction l as [|c l IH]; [reflexivity|]. cbn [filter]. rewrite <- py_isspace_blank.
  destruct (py_isspace c) eqn:E; cbn [negb]; [exact IH|]. cbn [filter]. rewrite E. cbn [negb]. f_equal. exact IH.
Qed.

Lemma tok_chars_text pre : forall t, tok_chars (map (char_tok pre) t) = nb t.
Proof.
  induction t as [|c t IH]; [reflexivity|]. cbn [map]. change (tok_chars (char_tok pre c :: map (char_tok pre) t))
    with ((match char_tok pre c with TChr x => [x] | _ => [] end) ++ tok_chars (map (char_tok pre) t)).
  rewrite IH. unfold nb. cbn [filter]. unfold char_tok. destruct (is_space c) eqn:E.
  - rewrite (space_blank c E). cbn [negb]. destruct (pre && ((c =? 10) || (c =? 13))); reflexivity.
  - destruct (blank_char c); reflexivity.
Qed.

(* one chain: the tokens of its leaf are the non-blank characters of the leaf *)
Lemma chain_toks_leaf r c : c <> [] -> tok_chars (chain_toks c) = nb (flat_map leaf_chars (leaf_of (last c r))).
Proof.
  intros Hc. unfold chain_toks. destruct c as [|a0 c0] using rev_ind; [congruence|]. clear IHc0.
  rewrite rev_unit, last_last. unfold leaf_of. destruct (e_kind a0); try reflexivity.
  rewrite tok_chars_text. destruct (nonspace (e_text a0)) eqn:En.
  - rewrite <- nb_nonspace, En. reflexivity.
  - cbn [flat_map leaf_chars]. rewrite app_nil_r, <- En. symmetry. apply nb_nonspace.
Qed.

(* all Br/Text leaves sit inside paragraphs *)
Fixpoint leaves_in_p (e : elem) : bool :=
  match e with
  | Elem a cs =>
      match e_kind a with
      | KP => true
      | KBr | KText => false
      | _ => (fix go (l : list elem) : bool := match l with [] => true | c :: l' => leaves_in_p c && go l' end) cs
      end
  end.
Lemma concat_map_map {A B} (f : A -> B) (l : list (list A)) : concat (map (map f) l) = map f (concat l).
Proof. induction l as [|x l IH]; [reflexivity|]. cbn [map concat]. rewrite map_app, IH. reflexivity. Qed.
Lemma pgroups_chains : forall e, leaves_in_p e = true -> concat (pgroups e) = chains e.
Proof.
  induction e as [a cs IH] using elem_ind2. intros H. rewrite chains_node. cbn [pgroups leaves_in_p] in *.
  destruct (e_kind a) eqn:Ek; try discriminate.
  all: try (rewrite concat_map_map; f_equal;
            assert (G : (fix go (l : list elem) : list (list (list attrs)) := match l with [] => [] | c :: l' => pgroups c ++ go l' end) cs
                        = flat_map pgroups cs) by reflexivity;
            rewrite G; clear G; induction cs as [|c cs IHcs]; [reflexivity|];
            inversion IH as [|? ? Hc Hcs]; subst; apply andb_true_iff in H as [H1 H2];
            cbn [flat_map]; rewrite concat_app, (Hc H1), (IHcs Hcs H2); reflexivity).
  (* p *) cbn [concat]. rewrite app_nil_r, chains_node, Ek. reflexivity.
Qed.

Lemma filter_concat {A} (p : A -> bool) (l : list (list A)) : filter p (concat l) = concat (map (filter p) l).
Proof. induction l as [|x l IH]; [reflexivity|]. cbn [concat map]. rewrite filter_app, IH. reflexivity. Qed.

Lemma group_toks_leaves d t r sel : forall g, (forall c, In c g -> c <> []) ->
  tok_chars (flat_map chain_toks (filter (fun c => chain_visible d t sel root_interval None c && (true || negb (is_annotation c))) g)) =
  nb (flat_map leaf_chars (flat_map (fun c => leaf_of (last c r)) (filter (chain_visible d t sel root_interval None) g))).
Proof.
  induction g as [|c g IHg]; intros Hg; [reflexivity|]. cbn [filter orb]. rewrite andb_true_r.
  destruct (chain_visible d t sel root_interval None c).
  - cbn [flat_map]. rewrite tok_chars_app, flat_map_app, nb_app, (chain_toks_leaf r c (Hg c (or_introl eq_refl))). f_equal.
    apply IHg. intros c' Hc'. apply Hg. right. exact Hc'.
  - apply IHg. intros c' Hc'. apply Hg. right. exact Hc'.
Qed.

Theorem region_toks_leaves d t r sel :
  match d_body d with Some b => leaves_in_p b = true | None => True end ->
  tok_chars (region_toks true d t r sel) = nb (flat_map leaf_chars (leaves_spec d t r sel)).
Proof.
  intros Hb. unfold region_toks, leaves_spec.
  destruct (is_active t (resolve root_interval (e_begin r) (e_end r)) && displayed d t (resolve root_interval (e_begin r) (e_end r)) r); [|reflexivity].
  destruct (d_body d) as [b|]; [|reflexivity].
  assert (Hcn : forall c, In c (concat (pgroups b)) -> c <> []) by (rewrite (pgroups_chains b Hb); apply chains_nonempty).
  rewrite <- (pgroups_chains b Hb), filter_concat. revert Hcn. generalize (pgroups b). intros G Hcn.
  assert (Hcn' : forall g c, In g G -> In c g -> c <> []) by (intros g c Hg Hc; apply Hcn, in_concat; exists g; split; assumption).
  clear Hcn. induction G as [|g G IH]; [reflexivity|]. cbn [flat_map map concat].
  rewrite !tok_chars_app, !flat_map_app, nb_app. cbn [tok_chars flat_map app]. rewrite app_nil_r.
  rewrite IH by (intros g' c Hg' Hc; apply (Hcn' g' c); [right; exact Hg' | exact Hc]). f_equal.
  apply group_toks_leaves. intros c Hc. apply (Hcn' g c); [left; reflexivity | exact Hc].
Qed.

(* the whole visible text of the specification at t = the leaves C01's specification selects, region by region *)
Theorem vis_leaves d t :
  match d_body d with Some b => leaves_in_p b = true | None => True end ->
  tok_chars (vis true d t) = nb (flat_map leaf_chars (flat_map (fun r => leaves_spec d t (eattrs r) (region_sel d r)) (doc_regions d))).
Proof.
  intros Hb. unfold vis, spec_regions, doc_regions, region_sel. destruct (d_regions d) as [|r0 l0].
  - cbn [flat_map]. rewrite !app_nil_r, tok_chars_app. cbn [tok_chars flat_map app]. rewrite app_nil_r.
    apply (region_toks_leaves d t spec_default_region None Hb).
  - generalize (r0 :: l0). intros l. induction l as [|r l IH]; [reflexivity|]. cbn [map flat_map fst snd].
    rewrite !tok_chars_app, flat_map_app, nb_app, IH. cbn [tok_chars flat_map app]. rewrite app_nil_r. f_equal. apply (region_toks_leaves d t (eattrs r) _ Hb).
Qed.

(* C06, end to end for an (uncached) snapshot: what the SubRip writer puts into the cues of the snapshot at t is the visible text
   Spec/CueSpec.v prescribes for t — stated here for snapshots without annotation text (then `vis true` = `vis false`); the general
   case is Proofs/C06/BaseSpec.v *)
Theorem srt_snapshot_spec d t fmt b en n regions cs n' :
  Forall (fun r => e_kind (eattrs r) = KRegion) (d_regions d) ->
  match d_body d with Some bd => leaf_wf bd = true /\ leaves_in_p bd = true | None => True end ->
  isd d t = Ok regions -> snapshot_shape regions = true -> srt_sees_all (apply_filters srt_filters regions) = true ->
  flat_map base_text regions = flat_map leaves_text regions ->
  srt_add_isd fmt b en (apply_filters srt_filters regions) n = (cs, n') ->
  visc (flat_map Model.CueTriggers.cue_chars cs) = visc (tok_chars (vis true d t)).
Proof.
  intros Hk Hb Hi Hs Hok Hna Hc.
  assert (Hb1 : match d_body d with Some bd => leaf_wf bd = true | None => True end) by (destruct (d_body d); [apply Hb | exact I]).
  assert (Hb2 : match d_body d with Some bd => leaves_in_p bd = true | None => True end) by (destruct (d_body d); [apply Hb | exact I]).
  rewrite (vis_leaves d t Hb2), visc_nb, <- (isd_leaves d t regions Hk Hb1 Hi).
  destruct (Proofs.C06.Loop.srt_add_isd_spec fmt b en _ n cs n' Hc) as [_ H]. rewrite (H Hok).
  destruct srt_filters_form as (c0 & d0 & Hf). rewrite Hf, (filters_preserve_base true c0 d0 regions Hs), Hna.
  unfold leaves_text. rewrite <- (flat_map_flat_map shown_leaves leaf_chars). reflexivity.
Qed.
