(* C06: the blank test of the repaired writers (is_only_whitespace / is_only_whitespace_or_empty: the paragraph text WITHOUT its
   tags is empty or white space) decides exactly whether the characters of the paragraph are all white space:
     cue_blank strip esc c = only_whitespace (cue_chars c)
   for every cue whose tags are tags the writer emits — WebVTT: always (text is escaped, so every "<" of the payload opens a tag);
   SubRip: when no character of the text is "<" (SubRip has no escape mechanism: a "<" of the text may read as markup).
   Method: normalize_eol only deletes line terminators outside tags (`del`), the payload stays a flattened item list, and on
   such a list the transcribed regular expressions remove exactly the tag items. *)
From TT Require Import Model.Doc Gen.StyleTables Model.Isd Model.SigTimes Model.TimeCode Model.IsdFilters Gen.CueTables Model.CueWriter.
From TT Require Import Model.CueTriggers Spec.IsdSpec Proofs.Common.ElemInd Proofs.C01.Lwsp Proofs.C06.Filters Proofs.C06.Inline.

(* ---- deleting line terminators ------------------------------------------------------------------------------------------ *)
Inductive del : text -> text -> Prop :=
| del_nil : del [] []
| del_keep c t t' : del t t' -> del (c :: t) (c :: t')
| del_drop c t t' : is_eol c = true -> del t t' -> del (c :: t) t'.

Lemma del_refl t : del t t.
Proof. induction t; constructor; assumption. Qed.
Lemma del_app a a' b b' : del a a' -> del b b' -> del (a ++ b) (a' ++ b').
Proof. intros H. induction H; intros Hb; cbn [app]; [exact Hb | constructor; auto | apply del_drop; auto]. Qed.
Lemma del_trans a b : del a b -> forall c, del b c -> del a c.
Proof.
  intros H. induction H as [|x t t' H IH|x t t' Hx H IH]; intros c Hc.
  - exact Hc.
  - inversion Hc; subst; [constructor; apply IH; assumption | apply del_drop; [assumption | apply IH; assumption]].
  - apply del_drop; [exact Hx | apply IH, Hc].
Qed.
Lemma del_rev a b : del a b -> del (rev a) (rev b).
Proof.
  intros H. induction H as [|x t t' H IH|x t t' Hx H IH]; cbn [rev].
  - constructor.
  - apply del_app; [exact IH | apply del_refl].
  - rewrite <- (app_nil_r (rev t')). apply del_app; [exact IH | apply del_drop; [exact Hx | constructor]].
Qed.
Lemma del_collapse : forall t, del t (collapse_lf t).
Proof.
  induction t as [|c t IH]; [constructor|]. cbn [collapse_lf].
  destruct ((c =? 10) && match t with d :: _ => d =? 10 | [] => false end) eqn:E; [|constructor; exact IH].
  apply andb_true_iff in E as [E _]. apply Z.eqb_eq in E. subst c. apply del_drop; [reflexivity | exact IH].
Qed.
Lemma del_drop_while : forall t, del t (drop_while is_eol t).
Proof.
  induction t as [|c t IH]; [constructor|]. cbn [drop_while]. destruct (is_eol c) eqn:E; [apply del_drop; assumption | apply del_refl].
Qed.
Lemma del_normalize t : del t (normalize_eol t).
Proof.
  unfold normalize_eol, strip_eol. eapply del_trans; [apply del_collapse|].
  eapply del_trans; [apply del_drop_while|]. rewrite <- (rev_involutive (drop_while is_eol (collapse_lf t))) at 1.
  apply del_rev, del_drop_while.
Qed.
Lemma del_ws a b : del a b -> only_whitespace b = only_whitespace a.
Proof.
  intros H. induction H as [|x t t' H IH|x t t' Hx H IH]; [reflexivity | |]; unfold only_whitespace in *; cbn [forallb].
  - rewrite IH. reflexivity.
  - rewrite (eol_is_pyspace x Hx). exact IH.
Qed.
Lemma del_in a b : del a b -> forall x, In x b -> In x a.
Proof. intros H. induction H; intros y Hy; [exact Hy | destruct Hy as [<-|Hy]; [left; reflexivity | right; auto] | right; auto]. Qed.

(* a text without line terminators in front of a deletion stays *)
Definition no_eol (t : text) : Prop := forall x, In x t -> is_eol x = false.
Lemma del_prefix a : no_eol a -> forall b t', del (a ++ b) t' -> exists t'', t' = a ++ t'' /\ del b t''.
Proof.
  induction a as [|c a IH]; intros Ha b t' H; [exists t'; split; [reflexivity | exact H]|].
  cbn [app] in H. inversion H as [|? ? t1 H1|? ? ? Hc H1]; subst.
  - destruct (IH (fun x Hx => Ha x (or_intror Hx)) b t1 H1) as (t'' & -> & Hd). exists t''. split; [reflexivity | exact Hd].
  - rewrite (Ha c (or_introl eq_refl)) in Hc. discriminate.
Qed.

(* ---- the same on item lists ------------------------------------------------------------------------------------------------ *)
Inductive del_items : list item -> list item -> Prop :=
| di_nil : del_items [] []
| di_keep i l l' : del_items l l' -> del_items (i :: l) (i :: l')
| di_drop c l l' : is_eol c = true -> del_items l l' -> del_items (IChr c :: l) l'.

Definition items_ok (tag_ok : text -> Prop) (l : list item) : Prop :=
  Forall (fun i => match i with ITag t => tag_ok t | IChr _ => True end) l.
Lemma items_ok_app tag_ok a b : items_ok tag_ok a -> items_ok tag_ok b -> items_ok tag_ok (a ++ b).
Proof. intros Ha Hb. apply Forall_app. split; assumption. Qed.
Lemma items_ok_chars tag_ok t : items_ok tag_ok (map IChr t).
Proof. apply Forall_forall. intros i Hi. apply in_map_iff in Hi as (c & <- & _). exact I. Qed.
Lemma items_ok_flat_map {A} tag_ok (f : A -> list item) l : (forall x, In x l -> items_ok tag_ok (f x)) -> items_ok tag_ok (flat_map f l).
Proof.
  induction l as [|x l IH]; intros H; [constructor|]. cbn [flat_map]. apply items_ok_app; [apply H; left; reflexivity|].
  apply IH. intros y Hy. apply H. right. exact Hy.
Qed.

Lemma del_items_ok tag_ok l l' : del_items l l' -> items_ok tag_ok l -> items_ok tag_ok l'.
Proof.
  intros H. induction H as [|i l l' H IH|c l l' Hc H IH]; intros Hl; [exact Hl | |].
  - inversion Hl; subst. constructor; [assumption | apply IH; assumption].
  - inversion Hl; subst. apply IH. assumption.
Qed.
Lemma del_items_chars l l' : del_items l l' -> del (chars_of l) (chars_of l').
Proof.
  intros H. induction H as [|i l l' H IH|c l l' Hc H IH]; [constructor | |].
  - destruct i as [t|c]; [exact IH | change (del (c :: chars_of l) (c :: chars_of l')); constructor; exact IH].
  - change (del (c :: chars_of l) (chars_of l')). apply del_drop; assumption.
Qed.

(* the escape function: a line terminator is itself, nothing else gives one *)
Definition esc_eol (esc : Z -> text) : Prop := forall c, if is_eol c then esc c = [c] else no_eol (esc c).
Lemma esc_none_eol : esc_eol esc_none.
Proof. intros c. destruct (is_eol c) eqn:E; [reflexivity|]. intros x [<-|[]]. exact E. Qed.
Lemma esc_vtt_eol : esc_eol esc_vtt.
Proof.
  intros c. unfold esc_vtt. destruct (c =? 38) eqn:E1; [apply Z.eqb_eq in E1; subst c; cbn; intros x Hx; repeat (destruct Hx as [<-|Hx]; [reflexivity|]); destruct Hx|].
  destruct (c =? 60) eqn:E2; [apply Z.eqb_eq in E2; subst c; cbn; intros x Hx; repeat (destruct Hx as [<-|Hx]; [reflexivity|]); destruct Hx|].
  destruct (is_eol c) eqn:E; [reflexivity|]. intros x [<-|[]]. exact E.
Qed.

Section Lift.
  Variable esc : Z -> text.
  Variable tag_ok : text -> Prop.
  Hypothesis He : esc_eol esc.
  Hypothesis tag_no_eol : forall t, tag_ok t -> no_eol t.

  Lemma del_flat : forall l, items_ok tag_ok l -> forall t', del (flat esc l) t' -> exists l', del_items l l' /\ t' = flat esc l'.
  Proof.
    induction l as [|i l IH]; intros Hl t' H.
    - inversion H; subst. exists []. split; [constructor | reflexivity].
    - inversion Hl as [|? ? Hi Hl']; subst. destruct i as [t|c].
      + change (flat esc (ITag t :: l)) with (t ++ flat esc l) in H.
        destruct (del_prefix t (tag_no_eol t Hi) _ _ H) as (t'' & -> & Hd). destruct (IH Hl' t'' Hd) as (l' & Hl2 & ->).
        exists (ITag t :: l'). split; [constructor; exact Hl2 | reflexivity].
      + change (flat esc (IChr c :: l)) with (esc c ++ flat esc l) in H. pose proof (He c) as Hc. destruct (is_eol c) eqn:Ec.
        * rewrite Hc in H. cbn [app] in H. inversion H as [|? ? t1 H1|? ? ? _ H1]; subst.
          -- destruct (IH Hl' t1 H1) as (l' & Hl2 & ->). exists (IChr c :: l'). split; [constructor; exact Hl2|].
             change (flat esc (IChr c :: l')) with (esc c ++ flat esc l'). rewrite Hc. reflexivity.
          -- destruct (IH Hl' t' H1) as (l' & Hl2 & ->). exists l'. split; [apply di_drop; assumption | reflexivity].
        * destruct (del_prefix (esc c) Hc _ _ H) as (t'' & -> & Hd). destruct (IH Hl' t'' Hd) as (l' & Hl2 & ->).
          exists (IChr c :: l'). split; [constructor; exact Hl2 | reflexivity].
  Qed.

  (* ---- the regular expression removes exactly the tag items ------------------------------------------------------------- *)
  Variable strip : text -> text.
  Variable chr_ok : Z -> Prop.
  Hypothesis strip_nil : strip [] = [].
  Hypothesis strip_tag : forall t rest, tag_ok t -> strip (t ++ rest) = strip rest.
  Hypothesis strip_chr : forall c rest, chr_ok c -> strip (esc c ++ rest) = esc c ++ strip rest.
  Hypothesis Hws : esc_ws esc.

  Lemma strip_flat : forall l, items_ok tag_ok l -> (forall c, In c (chars_of l) -> chr_ok c) ->
    strip (flat esc l) = flat_map esc (chars_of l).
  Proof.
    induction l as [|i l IH]; intros Hl Hc; [exact strip_nil|]. inversion Hl as [|? ? Hi Hl']; subst. destruct i as [t|c].
    - change (flat esc (ITag t :: l)) with (t ++ flat esc l). rewrite (strip_tag _ _ Hi). apply IH; [exact Hl' | exact Hc].
    - change (flat esc (IChr c :: l)) with (esc c ++ flat esc l). change (chars_of (IChr c :: l)) with (c :: chars_of l) in *.
      rewrite strip_chr by (apply Hc; left; reflexivity). cbn [flat_map]. f_equal. apply IH; [exact Hl'|].
      intros x Hx. apply Hc. right. exact Hx.
  Qed.

  (* the blank test of the writers = the characters are all white space *)
  Theorem blank_exact c : items_ok tag_ok (c_items c) -> (forall x, In x (cue_chars c) -> chr_ok x) ->
    cue_blank strip esc c = only_whitespace (cue_chars c).
  Proof.
    intros Hl Hc. unfold cue_blank, cue_text, cue_chars in *.
    destruct (del_flat _ Hl _ (del_normalize (flat esc (c_items c)))) as (l' & Hd & ->).
    rewrite (strip_flat l' (del_items_ok _ _ _ Hd Hl)).
    - rewrite (only_whitespace_esc esc Hws). apply del_ws, del_items_chars, Hd.
    - intros x Hx. apply Hc. exact (del_in _ _ (del_items_chars _ _ Hd) x Hx).
  Qed.
End Lift.

(* ---- hexadecimal digits ---------------------------------------------------------------------------------------------------- *)
Lemma hex_digit_range d : 0 <= d < 16 -> 48 <= hex_digit d <= 102 /\ hex_digit d <> 60 /\ hex_digit d <> 62.
Proof. intros H. unfold hex_digit. destruct (d <? 10) eqn:E; lia. Qed.
Definition plain_char (x : Z) : Prop := x <> 34 /\ x <> 60 /\ x <> 62 /\ x <> 10 /\ x <> 13.
Lemma hex2_plain b : 0 <= b < 256 -> Forall plain_char (hex2 b).
Proof.
  intros H. unfold hex2. assert (H1 : 0 <= b / 16 < 16) by lia. assert (H2 : 0 <= b mod 16 < 16) by lia.
  pose proof (hex_digit_range _ H1). pose proof (hex_digit_range _ H2). repeat constructor; lia.
Qed.
Lemma hex8_plain c : Forall plain_char (hex8 c).
Proof.
  unfold hex8. repeat (apply Forall_app; split); apply hex2_plain; lia.
Qed.
Lemma hex8_shape c : exists h1 h2 h3 h4 h5 h6 h7 h8, hex8 c = [h1; h2; h3; h4; h5; h6; h7; h8].
Proof. unfold hex8, hex2. cbn [app]. repeat eexists. Qed.

(* ---- SubRip ------------------------------------------------------------------------------------------------------------------ *)
Definition srt_tag_ok (t : text) : Prop :=
  t = srt_BOLD_TAG_IN \/ t = srt_BOLD_TAG_OUT \/ t = srt_ITALIC_TAG_IN \/ t = srt_ITALIC_TAG_OUT \/
  t = srt_UNDERLINE_TAG_IN \/ t = srt_UNDERLINE_TAG_OUT \/ t = srt_FONT_COLOR_TAG_OUT \/
  exists rgba, t = srt_FONT_COLOR_TAG_IN_pre ++ color_string rgba ++ srt_FONT_COLOR_TAG_IN_suf.

Lemma srt_font_tag rgba : exists h1 h2 h3 h4 h5 h6 h7 h8,
  srt_FONT_COLOR_TAG_IN_pre ++ color_string rgba ++ srt_FONT_COLOR_TAG_IN_suf =
  [60; 102; 111; 110; 116; 32; 99; 111; 108; 111; 114; 61; 34; 35; h1; h2; h3; h4; h5; h6; h7; h8; 34; 62] /\
  Forall plain_char [h1; h2; h3; h4; h5; h6; h7; h8].
Proof.
  destruct (hex8_shape rgba) as (h1 & h2 & h3 & h4 & h5 & h6 & h7 & h8 & E). exists h1, h2, h3, h4, h5, h6, h7, h8.
  split; [unfold color_string; rewrite E; reflexivity | rewrite <- E; apply hex8_plain].
Qed.

Lemma no_eol_forall t : Forall (fun x => is_eol x = false) t -> no_eol t.
Proof. intros H x Hx. rewrite Forall_forall in H. apply H, Hx. Qed.
Lemma plain_not_eol x : plain_char x -> is_eol x = false.
Proof. unfold plain_char, is_eol. intros H. apply orb_false_iff. split; apply Z.eqb_neq; lia. Qed.
Lemma srt_tag_no_eol t : srt_tag_ok t -> no_eol t.
Proof.
  intros H. apply no_eol_forall. unfold srt_tag_ok in H.
  repeat (destruct H as [->|H]; [repeat constructor|]).
  destruct H as [rgba ->]. destruct (srt_font_tag rgba) as (h1 & h2 & h3 & h4 & h5 & h6 & h7 & h8 & E & Hh). rewrite E.
  repeat (apply Forall_cons_iff in Hh as [? Hh]).
  repeat (constructor; [first [reflexivity | apply plain_not_eol; assumption]|]). constructor.
Qed.

Lemma strip_srt_skip : forall k a rest, length a = k -> strip_srt_go k (a ++ rest) = strip_srt_go O rest.
Proof.
  induction k as [|k IH]; intros a rest Ha; [destruct a; [reflexivity | discriminate]|].
  destruct a as [|c a]; [discriminate|]. cbn [app strip_srt_go]. apply IH. injection Ha as Ha. exact Ha.
Qed.
Lemma strip_srt_go_cons c t : strip_srt_go O (c :: t) = match srt_tag_len (c :: t) with Some (S k) => strip_srt_go k t | _ => c :: strip_srt_go O t end.
Proof. reflexivity. Qed.
Lemma take_until_app q : forall v rest, Forall (fun x => x <> q) v -> take_until q (v ++ q :: rest) = v.
Proof.
  induction v as [|c v IH]; intros rest H; cbn [app take_until]; [rewrite Z.eqb_refl; reflexivity|].
  inversion H; subst. replace (c =? q) with false by (symmetry; apply Z.eqb_neq; assumption). f_equal. apply IH. assumption.
Qed.
Lemma skipn_app_len {A} (a b : list A) : skipn (length a) (a ++ b) = b.
Proof. induction a; [reflexivity | exact IHa]. Qed.
Lemma srt_tag_len_font v rest : Forall (fun x => x <> 34) v ->
  srt_tag_len (srt_font_open ++ v ++ 34 :: 62 :: rest) = Some (13 + length v + 2)%nat.
Proof.
  intros Hv. unfold srt_tag_len.
  change (srt_font_open ++ v ++ 34 :: 62 :: rest) with (60 :: 102 :: 111 :: 110 :: 116 :: 32 :: 99 :: 111 :: 108 :: 111 :: 114 :: 61 :: 34 :: v ++ 34 :: 62 :: rest).
  change (starts [60] (60 :: 102 :: 111 :: 110 :: 116 :: 32 :: 99 :: 111 :: 108 :: 111 :: 114 :: 61 :: 34 :: v ++ 34 :: 62 :: rest)) with true.
  cbv iota.
  change (nth 1 (60 :: 102 :: 111 :: 110 :: 116 :: 32 :: 99 :: 111 :: 108 :: 111 :: 114 :: 61 :: 34 :: v ++ 34 :: 62 :: rest) 0) with 102.
  change (nth 2 (60 :: 102 :: 111 :: 110 :: 116 :: 32 :: 99 :: 111 :: 108 :: 111 :: 114 :: 61 :: 34 :: v ++ 34 :: 62 :: rest) 0) with 111.
  change (is_biu 102) with false. change (102 =? 47) with false. cbv iota beta. cbn [andb].
  change (starts srt_font_open (60 :: 102 :: 111 :: 110 :: 116 :: 32 :: 99 :: 111 :: 108 :: 111 :: 114 :: 61 :: 34 :: v ++ 34 :: 62 :: rest)) with true.
  cbv iota.
  change (skipn 13 (60 :: 102 :: 111 :: 110 :: 116 :: 32 :: 99 :: 111 :: 108 :: 111 :: 114 :: 61 :: 34 :: v ++ 34 :: 62 :: rest)) with (v ++ 34 :: 62 :: rest).
  cbv zeta. rewrite (take_until_app 34 v (62 :: rest) Hv), skipn_app_len. reflexivity.
Qed.
Lemma strip_srt_tag t rest : srt_tag_ok t -> strip_srt (t ++ rest) = strip_srt rest.
Proof.
  intros H. unfold srt_tag_ok in H. unfold strip_srt.
  repeat (destruct H as [->|H]; [reflexivity|]).
  destruct H as [rgba ->]. unfold color_string.
  set (v := 35 :: hex8 rgba).
  assert (Hv : Forall (fun x => x <> 34) v).
  { constructor; [discriminate|]. eapply Forall_impl; [|apply hex8_plain]. intros x Hx. apply Hx. }
  assert (Hl : length v = 9%nat) by (unfold v; destruct (hex8_shape rgba) as (? & ? & ? & ? & ? & ? & ? & ? & ->); reflexivity).
  change (srt_FONT_COLOR_TAG_IN_pre ++ v ++ srt_FONT_COLOR_TAG_IN_suf) with (srt_font_open ++ v ++ [34; 62]).
  rewrite <- !app_assoc. change (([34; 62] ++ rest)) with (34 :: 62 :: rest).
  pose proof (srt_tag_len_font v rest Hv) as L. rewrite Hl in L.
  change (srt_font_open ++ v ++ 34 :: 62 :: rest) with (60 :: (tl srt_font_open ++ v ++ [34; 62]) ++ rest) in *.
  rewrite strip_srt_go_cons, L. apply strip_srt_skip. rewrite !app_length, Hl. reflexivity.
Qed.
Lemma strip_srt_chr c rest : c <> 60 -> strip_srt (esc_none c ++ rest) = esc_none c ++ strip_srt rest.
Proof.
  intros Hc. unfold strip_srt, esc_none. cbn [app]. rewrite strip_srt_go_cons. unfold srt_tag_len. cbn [starts].
  replace (60 =? c) with false by (symmetry; apply Z.eqb_neq; lia). reflexivity.
Qed.

Theorem srt_blank_exact c : items_ok srt_tag_ok (c_items c) -> ~ In 60 (cue_chars c) -> srt_blank c = only_whitespace (cue_chars c).
Proof.
  intros Hl Hc. apply (blank_exact esc_none srt_tag_ok esc_none_eol srt_tag_no_eol strip_srt (fun x => x <> 60)); try assumption.
  - reflexivity.
  - intros t rest Ht. apply strip_srt_tag, Ht.
  - intros x rest Hx. apply strip_srt_chr, Hx.
  - exact esc_none_ws.
  - intros x Hx E. subst x. exact (Hc Hx).
Qed.
(* all white space: no "<" among the characters *)
Corollary srt_blank_complete c : items_ok srt_tag_ok (c_items c) -> only_whitespace (cue_chars c) = true -> srt_blank c = true.
Proof.
  intros Hl Hw. rewrite srt_blank_exact; [exact Hw | exact Hl|]. intros H. unfold only_whitespace in Hw. rewrite forallb_forall in Hw.
  specialize (Hw 60 H). discriminate.
Qed.

(* ---- WebVTT ------------------------------------------------------------------------------------------------------------------ *)
(* "<" body ">" with neither ">" nor a line terminator in the body *)
Definition vtt_tag_ok (t : text) : Prop := exists body, t = 60 :: body ++ [62] /\ (forall x, In x body -> x <> 62 /\ is_eol x = false).

Lemma vtt_tag_no_eol t : vtt_tag_ok t -> no_eol t.
Proof.
  intros (body & -> & Hb) x [<-|Hx]; [reflexivity|]. apply in_app_iff in Hx as [Hx|[<-|[]]]; [apply Hb, Hx | reflexivity].
Qed.
Lemma strip_vtt_body : forall body b rest, (forall x, In x body -> x <> 62) ->
  strip_vtt_go (Some b) (body ++ 62 :: rest) = strip_vtt_go None rest.
Proof.
  induction body as [|c body IH]; intros b rest Hb; [reflexivity|]. cbn [app strip_vtt_go].
  replace (c =? 62) with false by (symmetry; apply Z.eqb_neq, Hb; left; reflexivity). apply IH. intros x Hx. apply Hb. right. exact Hx.
Qed.
Lemma strip_vtt_tag t rest : vtt_tag_ok t -> strip_vtt (t ++ rest) = strip_vtt rest.
Proof.
  intros (body & -> & Hb). unfold strip_vtt. cbn [app strip_vtt_go Z.eqb Pos.eqb]. rewrite <- app_assoc. cbn [app].
  apply strip_vtt_body. intros x Hx. apply Hb, Hx.
Qed.
Lemma strip_vtt_plain : forall t rest, ~ In 60 t -> strip_vtt_go None (t ++ rest) = t ++ strip_vtt_go None rest.
Proof.
  induction t as [|c t IH]; intros rest H; [reflexivity|]. cbn [app strip_vtt_go].
  replace (c =? 60) with false by (symmetry; apply Z.eqb_neq; intros ->; apply H; left; reflexivity).
  f_equal. apply IH. intros Hx. apply H. right. exact Hx.
Qed.
Lemma esc_vtt_no_lt c : ~ In 60 (esc_vtt c).
Proof.
  unfold esc_vtt. destruct (c =? 38); [cbn; intuition discriminate|]. destruct (c =? 60) eqn:E; [cbn; intuition discriminate|].
  intros [H|[]]. subst c. discriminate.
Qed.

Theorem vtt_blank_exact c : items_ok vtt_tag_ok (c_items c) -> vtt_blank c = only_whitespace (cue_chars c).
Proof.
  intros Hl. apply (blank_exact esc_vtt vtt_tag_ok esc_vtt_eol vtt_tag_no_eol strip_vtt (fun _ => True)); try assumption.
  - reflexivity.
  - intros t rest Ht. apply strip_vtt_tag, Ht.
  - intros x rest _. apply strip_vtt_plain, esc_vtt_no_lt.
  - exact esc_vtt_ws.
  - intros x _. exact I.
Qed.

(* ---- the tags the writers emit ------------------------------------------------------------------------------------------------ *)
Theorem srt_inline_items fmt : forall e, items_ok srt_tag_ok (srt_inline fmt e).
Proof.
  induction e as [a cs IH] using elem_ind2. rewrite Forall_forall in IH.
  assert (G : items_ok srt_tag_ok ((fix go (l : list elem) : list item := match l with [] => [] | c :: l' => srt_inline fmt c ++ go l' end) cs)).
  { change ((fix go (l : list elem) : list item := match l with [] => [] | c :: l' => srt_inline fmt c ++ go l' end) cs)
      with (flat_map (srt_inline fmt) cs). apply items_ok_flat_map. exact IH. }
  cbn [srt_inline]. destruct (e_kind a); try (constructor; fail); try exact G.
  - (* span *)
    repeat apply items_ok_app; try exact G.
    all: destruct fmt; try (constructor; fail).
    all: repeat apply items_ok_app;
      repeat match goal with |- context [if ?b then _ else _] => destruct b end;
      repeat match goal with |- context [match ?o with Some _ => _ | None => _ end] => destruct o end;
      try (constructor; fail); (constructor; [|constructor]); unfold srt_tag_ok; try (repeat (first [left; reflexivity | right])); eauto 10.
  - (* br *) constructor; [exact I | constructor].
  - (* text *) apply items_ok_chars.
Qed.

Lemma assoc_z_in {A} (l : list (Z * A)) k v : assoc_z l k = Some v -> In v (map snd l).
Proof.
  induction l as [|[k' v'] l IH]; [discriminate|]. cbn [assoc_z map snd]. destruct (k =? k'); [intros H; injection H as <-; left; reflexivity|].
  intros H. right. apply IH, H.
Qed.
Definition body_char (x : Z) : Prop := x <> 62 /\ is_eol x = false.
Lemma plain_body x : plain_char x -> body_char x.
Proof. unfold plain_char, body_char, is_eol. intros H. split; [lia|]. apply orb_false_iff. split; apply Z.eqb_neq; lia. Qed.
Definition body_char_b (x : Z) : bool := negb (x =? 62) && negb (is_eol x).
Lemma body_char_b_ok x : body_char_b x = true -> body_char x.
Proof. unfold body_char_b, body_char. intros H. apply andb_true_iff in H as [H1 H2]. split; [apply Z.eqb_neq, negb_true_iff, H1 | apply negb_true_iff, H2]. Qed.
Lemma class_name_body bg c : Forall body_char (class_name bg c).
Proof.
  unfold class_name. destruct (assoc_z _ c) as [n|] eqn:E.
  - apply assoc_z_in in E. apply Forall_forall. intros x Hx. apply body_char_b_ok.
    assert (T : forallb (forallb body_char_b) (map snd (if bg then vtt_default_background_colors else vtt_default_text_colors)) = true)
      by (destruct bg; vm_compute; reflexivity).
    rewrite forallb_forall in T. specialize (T n E). rewrite forallb_forall in T. apply T, Hx.
  - apply Forall_app. split.
    + apply Forall_forall. intros x Hx. apply body_char_b_ok.
      assert (T : forallb body_char_b (if bg then vtt_bg_class_prefix else vtt_fg_class_prefix) = true) by (destruct bg; vm_compute; reflexivity).
      rewrite forallb_forall in T. apply T, Hx.
    + eapply Forall_impl; [|apply hex8_plain]. intros x Hx. apply plain_body, Hx.
Qed.
Lemma vtt_class_tag (bg : bool) c : vtt_tag_ok ((if bg then vtt_BG_COLOR_TAG_IN_pre else vtt_COLOR_TAG_IN_pre) ++ class_name bg c ++
                                       (if bg then vtt_BG_COLOR_TAG_IN_suf else vtt_COLOR_TAG_IN_suf)).
Proof.
  exists (99 :: 46 :: class_name bg c). split; [destruct bg; reflexivity|].
  change (99 :: 46 :: class_name bg c) with ([99; 46] ++ class_name bg c).
  intros x Hx. apply in_app_iff in Hx as [Hx|Hx].
  - cbn in Hx. repeat (destruct Hx as [<-|Hx]; [split; [discriminate | reflexivity]|]). destruct Hx.
  - pose proof (class_name_body bg c) as H. rewrite Forall_forall in H. apply H, Hx.
Qed.
Lemma vtt_tag_of body : forallb body_char_b body = true -> vtt_tag_ok (60 :: body ++ [62]).
Proof. intros H. exists body. split; [reflexivity|]. intros x Hx. rewrite forallb_forall in H. apply body_char_b_ok, H, Hx. Qed.
Lemma vtt_fixed_tag t : In t [vtt_BOLD_TAG_IN; vtt_BOLD_TAG_OUT; vtt_ITALIC_TAG_IN; vtt_ITALIC_TAG_OUT; vtt_UNDERLINE_TAG_IN;
                              vtt_UNDERLINE_TAG_OUT; vtt_COLOR_TAG_OUT; vtt_BG_COLOR_TAG_OUT] -> vtt_tag_ok t.
Proof.
  intros H. cbn [In] in H.
  destruct H as [<-|[<-|[<-|[<-|[<-|[<-|[<-|[<-|[]]]]]]]]].
  - exact (vtt_tag_of [98] eq_refl).
  - exact (vtt_tag_of [47; 98] eq_refl).
  - exact (vtt_tag_of [105] eq_refl).
  - exact (vtt_tag_of [47; 105] eq_refl).
  - exact (vtt_tag_of [117] eq_refl).
  - exact (vtt_tag_of [47; 117] eq_refl).
  - exact (vtt_tag_of [47; 99] eq_refl).
  - exact (vtt_tag_of [47; 99] eq_refl).
Qed.

Lemma vtt_inlines_items_from : forall l s,
  (forall c, In c l -> forall s, items_ok vtt_tag_ok (fst (vtt_inline c s))) -> items_ok vtt_tag_ok (fst (vtt_inlines l s)).
Proof.
  induction l as [|c l IH]; intros s H; [constructor|]. cbn [vtt_inlines].
  destruct (vtt_inline c s) as [x sa] eqn:Ec. destruct (vtt_inlines l sa) as [y sb] eqn:El. cbn [fst]. apply items_ok_app.
  - specialize (H c (or_introl eq_refl) s). rewrite Ec in H. exact H.
  - specialize (IH sa (fun c' Hc' => H c' (or_intror Hc'))). rewrite El in IH. exact IH.
Qed.
Theorem vtt_inline_items : forall e s, items_ok vtt_tag_ok (fst (vtt_inline e s)).
Proof.
  induction e as [a cs IH] using elem_ind2. intros s. rewrite Forall_forall in IH. cbn [vtt_inline].
  assert (G : forall s0, items_ok vtt_tag_ok (fst (vtt_inlines cs s0))) by (intros s0; apply vtt_inlines_items_from; exact IH).
  destruct (e_kind a); try (constructor; fail); try (rewrite vtt_inline_go_eq; apply G).
  - (* span *)
    rewrite vtt_inline_go_eq. match goal with |- context [vtt_inlines cs ?s0] => pose proof (G s0) as G0; destruct (vtt_inlines cs s0) as [inner s3] end.
    cbn [fst] in *.
    assert (T : forall t, vtt_tag_ok t -> items_ok vtt_tag_ok [ITag t]) by (intros t Ht; constructor; [exact Ht | constructor]).
    repeat apply items_ok_app; try exact G0.
    all: repeat match goal with |- context [if ?b then _ else _] => destruct b end;
      repeat match goal with |- context [match ?o with Some _ => _ | None => _ end] => destruct o end;
      try (constructor; fail); apply T.
    all: try (apply vtt_fixed_tag; cbn [In]; tauto).
    + exact (vtt_class_tag false z).
    + exact (vtt_class_tag true z).
  - (* br *) constructor; [exact I | constructor].
  - (* text *) cbn [fst]. apply items_ok_chars.
Qed.
Corollary vtt_inlines_items l s : items_ok vtt_tag_ok (fst (vtt_inlines l s)).
Proof. apply vtt_inlines_items_from. intros c _ s'. apply vtt_inline_items. Qed.
