(* C06: where the line breaks of a payload come from (before normalize_eol collapses runs of them and trims the ends):
   a br is a line feed, and the paragraphs that the merging filters put into one cue — all paragraphs of all regions, in region
   then document order — are separated by exactly one line feed each. *)
From TT Require Import Model.Doc Gen.StyleTables Model.Isd Model.SigTimes Model.TimeCode Model.IsdFilters Gen.CueTables Model.CueWriter.
From TT Require Import Model.CueTriggers Proofs.C06.Filters Proofs.C06.Inline.

Lemma br_is_line_feed fmt a cs : e_kind a = KBr -> chars_of (srt_inline fmt (Elem a cs)) = [10].
Proof. intros H. rewrite srt_inline_node, H. reflexivity. Qed.

Definition para_chars (fmt : bool) (p : elem) : text := chars_of (flat_map (srt_inline fmt) (echildren p)).

Theorem join_paragraphs_chars fmt : forall ps,
  chars_of (flat_map (srt_inline fmt) (join_paragraphs ps)) = join_text [10] (map (para_chars fmt) ps).
Proof.
  induction ps as [|p ps IH]; [reflexivity|]. destruct ps as [|q ps'].
  - reflexivity.
  - change (join_paragraphs (p :: q :: ps')) with (echildren p ++ br_elem :: join_paragraphs (q :: ps')).
    rewrite flat_map_app, chars_of_app. cbn [flat_map]. rewrite chars_of_app, IH.
    change (chars_of (srt_inline fmt br_elem)) with [10]. reflexivity.
Qed.
(* the same for the WebVTT inline output (same characters) *)
Theorem join_paragraphs_chars_vtt ps s :
  chars_of (fst (vtt_inlines (join_paragraphs ps) s)) = join_text [10] (map (para_chars false) ps).
Proof.
  rewrite vtt_inlines_chars by (intros c _ s'; apply vtt_inline_chars).
  rewrite <- (join_paragraphs_chars false ps), chars_of_flat_map. reflexivity.
Qed.
