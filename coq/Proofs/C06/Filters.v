(* C06: the four ISD filters keep the Br/Text leaves of a snapshot (C01's `shown_leaves`): region merging and the two style
   filters keep them exactly; paragraph merging keeps every text leaf in order and only adds line breaks (the Br it
   puts between paragraphs). *)
From TT Require Import Model.Doc Gen.StyleTables Model.Isd Model.IsdFilters Spec.IsdSpec.
From TT Require Import Proofs.Common.ElemInd Proofs.C01.Lwsp.

(* the non-white-space characters a list of leaves shows, in order *)
Definition leaf_chars (l : leaf) : text := match l with LBr => [] | LText s => s end.
Definition leaves_text (e : elem) : text := flat_map leaf_chars (shown_leaves e).

Definition container (e : elem) : bool := match e_kind (eattrs e) with KBr | KText => false | _ => true end.

Lemma shown_leaves_container e : container e = true -> shown_leaves e = flat_map shown_leaves (echildren e).
Proof. destruct e as [a cs]. unfold container. cbn [eattrs echildren]. rewrite shown_leaves_node. destruct (e_kind a); congruence. Qed.

Lemma flat_map_flat_map {A B C} (f : A -> list B) (g : B -> list C) l :
  flat_map g (flat_map f l) = flat_map (fun x => flat_map g (f x)) l.
Proof. induction l as [|x l IH]; [reflexivity|]. cbn [flat_map]. rewrite flat_map_app, IH. reflexivity. Qed.
Lemma flat_map_ext_in {A B} (f g : A -> list B) l : (forall x, In x l -> f x = g x) -> flat_map f l = flat_map g l.
Proof.
  induction l as [|x l IH]; intros H; [reflexivity|]. cbn [flat_map]. rewrite (H x (or_introl eq_refl)), IH; [reflexivity|].
  intros y Hy. apply H. right. exact Hy.
Qed.

(* ---- RegionsMergingISDFilter ---------------------------------------------------------------------------------- *)
(* regions hold bodies, and neither is a br or a text *)
Definition regions_shape (rs : list elem) : bool :=
  forallb (fun r => container r && forallb container (echildren r)) rs.

Theorem merge_regions_preserves_leaves : forall rs,
  regions_shape rs = true -> flat_map shown_leaves (merge_regions rs) = flat_map shown_leaves rs.
Proof.
  intros rs H. unfold merge_regions.
  destruct ((Z.of_nat (length rs) <=? 1) || (fold_left (fun n r => n + Z.of_nat (length (echildren r))) rs 0 <=? 1)); [reflexivity|].
  cbn [flat_map]. rewrite app_nil_r, shown_leaves_node. cbn [plain_attrs e_kind flat_map]. rewrite app_nil_r, shown_leaves_node.
  cbn [plain_attrs e_kind]. rewrite flat_map_flat_map. apply flat_map_ext_in. intros r Hr.
  unfold regions_shape in H. rewrite forallb_forall in H. specialize (H r Hr). apply andb_true_iff in H as [H1 H2].
  rewrite (shown_leaves_container r H1), flat_map_flat_map. apply flat_map_ext_in. intros b Hb.
  rewrite forallb_forall in H2. symmetry. apply shown_leaves_container, H2, Hb.
Qed.

(* ---- ParagraphsMergingISDFilter --------------------------------------------------------------------------------- *)
Lemma get_paragraphs_node a cs :
  get_paragraphs (Elem a cs) =
  flat_map (fun c => match e_kind (eattrs c) with KDiv => get_paragraphs c | KP => [c] | _ => [] end) cs.
Proof.
  cbn [get_paragraphs]. induction cs as [|c cs IH]; [reflexivity|]. cbn [flat_map]. rewrite <- IH. reflexivity.
Qed.

(* all text below a block element sits in paragraphs reached through divisions *)
Fixpoint block_ok (e : elem) : bool :=
  match e with
  | Elem a cs =>
      (fix go (l : list elem) : bool :=
         match l with
         | [] => true
         | c :: l' => (match e_kind (eattrs c) with
                       | KDiv => block_ok c
                       | KP => true
                       | _ => match leaves_text c with [] => true | _ => false end
                       end) && go l'
         end) cs
  end.
Lemma block_ok_node a cs :
  block_ok (Elem a cs) =
  forallb (fun c => match e_kind (eattrs c) with
                    | KDiv => block_ok c
                    | KP => true
                    | _ => match leaves_text c with [] => true | _ => false end
                    end) cs.
Proof. cbn [block_ok]. induction cs as [|c cs IH]; [reflexivity|]. cbn [forallb]. rewrite <- IH. reflexivity. Qed.

Lemma leaves_text_container e : container e = true -> leaves_text e = flat_map leaves_text (echildren e).
Proof. intros H. unfold leaves_text at 1. rewrite (shown_leaves_container e H), flat_map_flat_map. reflexivity. Qed.

Lemma get_paragraphs_text : forall e, block_ok e = true -> flat_map leaves_text (get_paragraphs e) = flat_map leaves_text (echildren e).
Proof.
  induction e as [a cs IH] using elem_ind2. intros H. rewrite get_paragraphs_node. rewrite block_ok_node in H. cbn [echildren].
  rewrite flat_map_flat_map. apply flat_map_ext_in. intros c Hc.
  rewrite forallb_forall in H. specialize (H c Hc). rewrite Forall_forall in IH. specialize (IH c Hc).
  destruct c as [ac ccs]. cbn [eattrs] in *. destruct (e_kind ac) eqn:Ek.
  all: try (cbn [flat_map]; destruct (leaves_text (Elem ac ccs)); [reflexivity | discriminate]).
  - (* div *) rewrite (IH H). symmetry. apply leaves_text_container. unfold container. cbn [eattrs]. rewrite Ek. reflexivity.
  - (* p *) cbn [flat_map]. apply app_nil_r.
Qed.

Lemma leaves_text_br : leaves_text br_elem = [].
Proof. reflexivity. Qed.
Lemma join_paragraphs_text : forall ps,
  Forall (fun p => container p = true) ps -> flat_map leaves_text (join_paragraphs ps) = flat_map leaves_text ps.
Proof.
  induction ps as [|p ps IH]; intros H; [reflexivity|]. inversion H as [|? ? Hp Hps]; subst.
  cbn [join_paragraphs]. destruct ps as [|q ps'].
  - cbn [flat_map]. rewrite app_nil_r. symmetry. apply leaves_text_container, Hp.
  - rewrite flat_map_app. cbn [flat_map]. rewrite leaves_text_br. cbn [app]. rewrite (IH Hps).
    rewrite <- (leaves_text_container p Hp). reflexivity.
Qed.
Lemma get_paragraphs_kind : forall e p, In p (get_paragraphs e) -> e_kind (eattrs p) = KP.
Proof.
  induction e as [a cs IH] using elem_ind2. intros p Hp. rewrite get_paragraphs_node in Hp.
  apply in_flat_map in Hp as (c & Hc & Hp). rewrite Forall_forall in IH.
  destruct (e_kind (eattrs c)) eqn:Ek; try (destruct Hp; fail).
  - apply (IH c Hc p Hp).
  - destruct Hp as [<-|[]]. exact Ek.
Qed.

(* a body: neither it nor its children are br/text, and below each child all text sits in paragraphs reached through
   divisions (for a snapshot of a well-formed document: the children of a body are divisions holding divisions and paragraphs) *)
Definition body_ok (b : elem) : bool := container b && forallb (fun c => container c && block_ok c) (echildren b).

Lemma merge_paragraphs_body_text b : body_ok b = true -> leaves_text (merge_paragraphs_body b) = leaves_text b.
Proof.
  intros H. unfold merge_paragraphs_body.
  destruct (Z.of_nat (length (flat_map get_paragraphs (echildren b))) <=? 1); [reflexivity|].
  unfold body_ok in H. apply andb_true_iff in H as [Hb Hc]. rewrite forallb_forall in Hc.
  rewrite (leaves_text_container b Hb).
  rewrite leaves_text_container by (destruct b as [ab cb]; unfold container in *; cbn [eattrs] in *; exact Hb).
  cbn [echildren flat_map]. rewrite app_nil_r.
  rewrite leaves_text_container by reflexivity. cbn [echildren flat_map]. rewrite app_nil_r.
  rewrite leaves_text_container by reflexivity. cbn [echildren].
  rewrite join_paragraphs_text.
  2:{ apply Forall_forall. intros p Hp. apply in_flat_map in Hp as (c & _ & Hp). apply get_paragraphs_kind in Hp.
      unfold container. rewrite Hp. reflexivity. }
  rewrite flat_map_flat_map. apply flat_map_ext_in. intros c Hin. specialize (Hc c Hin). apply andb_true_iff in Hc as [Hc1 Hc2].
  rewrite (get_paragraphs_text c Hc2). symmetry. apply leaves_text_container, Hc1.
Qed.

Definition paragraphs_shape (rs : list elem) : bool := forallb (fun r => container r && forallb body_ok (echildren r)) rs.

(* every text leaf stays, in order; only line breaks are added *)
Theorem merge_paragraphs_preserves_leaves : forall rs,
  paragraphs_shape rs = true -> flat_map leaves_text (merge_paragraphs rs) = flat_map leaves_text rs.
Proof.
  intros rs H. unfold merge_paragraphs. rewrite flat_map_concat_map, map_map, <- flat_map_concat_map.
  apply flat_map_ext_in. intros r Hr. unfold paragraphs_shape in H. rewrite forallb_forall in H. specialize (H r Hr).
  apply andb_true_iff in H as [H1 H2]. rewrite forallb_forall in H2.
  rewrite (leaves_text_container r H1).
  rewrite leaves_text_container by (destruct r as [ar cr]; unfold container in *; cbn [eattrs] in *; exact H1).
  cbn [echildren]. rewrite flat_map_concat_map, map_map, <- flat_map_concat_map.
  apply flat_map_ext_in. intros b Hb. apply merge_paragraphs_body_text, H2, Hb.
Qed.

(* ---- the style filters change styles only ------------------------------------------------------------------------ *)
Lemma filter_supported_node cfg a cs :
  filter_supported cfg (Elem a cs) = Elem (with_styles a (filter (is_supported cfg) (e_styles a))) (map (filter_supported cfg) cs).
Proof. reflexivity. Qed.
Lemma filter_defaults_node dfl par a cs :
  filter_defaults dfl par (Elem a cs) =
  let st := filter (fun kv => negb (default_removed dfl par kv)) (e_styles a) in
  Elem (with_styles a st) (map (filter_defaults dfl (Some st)) cs).
Proof. reflexivity. Qed.

Lemma leaf_of_with_styles a st : leaf_of (with_styles a st) = leaf_of a.
Proof. reflexivity. Qed.

Lemma filter_supported_leaves cfg : forall e, shown_leaves (filter_supported cfg e) = shown_leaves e.
Proof.
  induction e as [a cs IH] using elem_ind2. rewrite filter_supported_node, !shown_leaves_node. cbn [with_styles e_kind].
  rewrite leaf_of_with_styles. destruct (e_kind a); try reflexivity;
    (rewrite flat_map_concat_map, map_map, <- flat_map_concat_map; apply flat_map_ext_in; intros c Hc;
     rewrite Forall_forall in IH; apply IH, Hc).
Qed.
Lemma filter_defaults_leaves dfl : forall e par, shown_leaves (filter_defaults dfl par e) = shown_leaves e.
Proof.
  induction e as [a cs IH] using elem_ind2. intros par. rewrite filter_defaults_node. cbv zeta. rewrite !shown_leaves_node.
  cbn [with_styles e_kind]. rewrite leaf_of_with_styles. destruct (e_kind a); try reflexivity;
    (rewrite flat_map_concat_map, map_map, <- flat_map_concat_map; apply flat_map_ext_in; intros c Hc;
     rewrite Forall_forall in IH; apply IH, Hc).
Qed.

Theorem style_filters_preserve_leaves : forall f rs,
  match f with FSupported _ | FDefaults _ => True | _ => False end ->
  flat_map shown_leaves (apply_filter f rs) = flat_map shown_leaves rs.
Proof.
  intros f rs Hf. destruct f as [| |cfg|dfl]; try contradiction; cbn [apply_filter];
    rewrite flat_map_concat_map, map_map, <- flat_map_concat_map; apply flat_map_ext_in; intros r _;
    [apply filter_supported_leaves | apply filter_defaults_leaves].
Qed.
