(* C06: the four ISD filters keep the Br/Text leaves of a snapshot (C01's `shown_leaves`): region merging and the two style
   filters keep them exactly; paragraph merging keeps every text leaf in order and only adds line breaks (the Br it
   puts between paragraphs).  The same is proved for the leaves outside ruby annotations (`base_leaves`, `base_text`: what the
   writers carry), through one development that is generic in the set of skipped kinds (`sel_leaves skip`). *)
From TT Require Import Model.Doc Gen.StyleTables Model.Isd Model.IsdFilters Spec.IsdSpec.
From TT Require Import Proofs.Common.ElemInd Proofs.C01.Lwsp.

(* the non-white-space characters a list of leaves shows, in order *)
Definition leaf_chars (l : leaf) : text := match l with LBr => [] | LText s => s end.
Definition leaves_text (e : elem) : text := flat_map leaf_chars (shown_leaves e).

(* ruby annotations and their delimiters: the writers carry ruby BASE text (below rb / rbc), not the text below rt / rtc / rp *)
Definition annot_kind (k : kind) : bool := match k with KRt | KRtc | KRp => true | _ => false end.
(* the Br/Text leaves of an element, in document order, outside the subtrees of the kinds `skip` names *)
Section SelDef.
  Variable skip : kind -> bool.
  Fixpoint sel_leaves (e : elem) : list leaf :=
    match e with
    | Elem a cs =>
        match e_kind a with
        | KBr | KText => leaf_of a
        | k => if skip k then [] else (fix go (l : list elem) : list leaf := match l with [] => [] | c :: l' => sel_leaves c ++ go l' end) cs
        end
    end.
  Definition sel_text (e : elem) : text := flat_map leaf_chars (sel_leaves e).
End SelDef.
Definition sk_none (_ : kind) : bool := false.
(* the leaves / the text outside ruby annotations *)
Definition base_leaves : elem -> list leaf := sel_leaves annot_kind.
Definition base_text : elem -> text := sel_text annot_kind.

(* neither a leaf nor a ruby annotation *)
Definition container (e : elem) : bool := match e_kind (eattrs e) with KBr | KText | KRt | KRtc | KRp => false | _ => true end.

Lemma flat_map_flat_map {A B C} (f : A -> list B) (g : B -> list C) l :
  flat_map g (flat_map f l) = flat_map (fun x => flat_map g (f x)) l.
Proof. induction l as [|x l IH]; [reflexivity|]. cbn [flat_map]. rewrite flat_map_app, IH. reflexivity. Qed.
Lemma flat_map_ext_in {A B} (f g : A -> list B) l : (forall x, In x l -> f x = g x) -> flat_map f l = flat_map g l.
Proof.
  induction l as [|x l IH]; intros H; [reflexivity|]. cbn [flat_map]. rewrite (H x (or_introl eq_refl)), IH; [reflexivity|].
  intros y Hy. apply H. right. exact Hy.
Qed.

Lemma sel_leaves_node skip a cs :
  sel_leaves skip (Elem a cs) = match e_kind a with KBr | KText => leaf_of a | k => if skip k then [] else flat_map (sel_leaves skip) cs end.
Proof.
  cbn [sel_leaves]. destruct (e_kind a); try reflexivity;
    (destruct (skip _); [reflexivity|]; induction cs as [|c cs IH]; [reflexivity | cbn [flat_map]; rewrite <- IH; reflexivity]).
Qed.
Lemma sel_leaves_none : forall e, sel_leaves sk_none e = shown_leaves e.
Proof.
  induction e as [a cs IH] using elem_ind2. rewrite sel_leaves_node, shown_leaves_node. unfold sk_none.
  destruct (e_kind a); try reflexivity; (apply flat_map_ext_in; intros c Hc; rewrite Forall_forall in IH; apply IH, Hc).
Qed.
Lemma sel_text_none e : sel_text sk_none e = leaves_text e.
Proof. unfold sel_text, leaves_text. rewrite sel_leaves_none. reflexivity. Qed.
Lemma sel_text_node skip a cs :
  sel_text skip (Elem a cs) = match e_kind a with
                              | KBr => []
                              | KText => nonspace (e_text a)
                              | k => if skip k then [] else flat_map (sel_text skip) cs
                              end.
Proof.
  unfold sel_text at 1. rewrite sel_leaves_node. destruct (e_kind a) eqn:Ek;
    try (destruct (skip _); [reflexivity | rewrite flat_map_flat_map; reflexivity]).
  - unfold leaf_of. rewrite Ek. reflexivity.
  - unfold leaf_of. rewrite Ek. destruct (nonspace (e_text a)); [reflexivity|]. cbn [flat_map leaf_chars]. apply app_nil_r.
Qed.
(* an element without any text has no selected text *)
Lemma sel_text_nil skip : forall e, leaves_text e = [] -> sel_text skip e = [].
Proof.
  induction e as [a cs IH] using elem_ind2. rewrite <- sel_text_none, !sel_text_node. unfold sk_none.
  assert (G : flat_map (sel_text (fun _ => false)) cs = [] -> flat_map (sel_text skip) cs = []).
  { intros H. induction cs as [|c cs IHcs]; [reflexivity|]. inversion IH as [|? ? Hc Hcs]; subst. cbn [flat_map] in *.
    apply app_eq_nil in H as [H1 H2]. rewrite (Hc ltac:(rewrite <- sel_text_none; exact H1)), (IHcs Hcs H2). reflexivity. }
  destruct (e_kind a); try (intros H; exact H); (intros H; destruct (skip _); [reflexivity | exact (G H)]).
Qed.

Section Sel.
  Variable skip : kind -> bool.
  (* only ruby annotations are ever left out *)
  Hypothesis skip_annot : forall k, skip k = true -> annot_kind k = true.

  Lemma sel_leaves_container e : container e = true -> sel_leaves skip e = flat_map (sel_leaves skip) (echildren e).
  Proof.
    destruct e as [a cs]. unfold container. cbn [eattrs echildren]. rewrite sel_leaves_node. intros H.
    destruct (e_kind a) eqn:Ek; try discriminate; (destruct (skip _) eqn:Es; [apply skip_annot in Es; discriminate | reflexivity]).
  Qed.
  Lemma sel_text_container e : container e = true -> sel_text skip e = flat_map (sel_text skip) (echildren e).
  Proof. intros H. unfold sel_text at 1. rewrite (sel_leaves_container e H), flat_map_flat_map. reflexivity. Qed.

  (* ---- RegionsMergingISDFilter ---------------------------------------------------------------------------------- *)
  Lemma merge_regions_sel rs :
    forallb (fun r => container r && forallb container (echildren r)) rs = true ->
    flat_map (sel_leaves skip) (merge_regions rs) = flat_map (sel_leaves skip) rs.
  Proof.
    intros H. unfold merge_regions.
    destruct ((Z.of_nat (length rs) <=? 1) || (fold_left (fun n r => n + Z.of_nat (length (echildren r))) rs 0 <=? 1)); [reflexivity|].
    cbn [flat_map]. rewrite app_nil_r, sel_leaves_container by reflexivity. cbn [echildren flat_map]. rewrite app_nil_r.
    rewrite sel_leaves_container by reflexivity. cbn [echildren]. rewrite flat_map_flat_map. apply flat_map_ext_in. intros r Hr.
    rewrite forallb_forall in H. specialize (H r Hr). apply andb_true_iff in H as [H1 H2].
    rewrite (sel_leaves_container r H1), flat_map_flat_map. apply flat_map_ext_in. intros b Hb.
    rewrite forallb_forall in H2. symmetry. apply sel_leaves_container, H2, Hb.
  Qed.
End Sel.

(* ---- RegionsMergingISDFilter ---------------------------------------------------------------------------------- *)
(* regions hold bodies, and neither is a br, a text or a ruby annotation *)
Definition regions_shape (rs : list elem) : bool :=
  forallb (fun r => container r && forallb container (echildren r)) rs.

Theorem merge_regions_preserves_leaves : forall rs,
  regions_shape rs = true -> flat_map shown_leaves (merge_regions rs) = flat_map shown_leaves rs.
Proof.
  intros rs H. pose proof (merge_regions_sel sk_none (fun k Hk => ltac:(discriminate Hk)) rs H) as G.
  rewrite !(flat_map_ext_in _ _ _ (fun e _ => sel_leaves_none e)) in G. exact G.
Qed.
Theorem merge_regions_preserves_base : forall rs,
  regions_shape rs = true -> flat_map base_leaves (merge_regions rs) = flat_map base_leaves rs.
Proof. intros rs H. exact (merge_regions_sel annot_kind (fun k Hk => Hk) rs H). Qed.

(* ---- ParagraphsMergingISDFilter --------------------------------------------------------------------------------- *)
Lemma get_paragraphs_node a cs :
  get_paragraphs (Elem a cs) =
  flat_map (fun c => match e_kind (eattrs c) with KDiv => get_paragraphs c | KP => [c] | _ => [] end) cs.
Proof.
  cbn [get_paragraphs]. induction cs as [|c cs IH]; [reflexivity|]. cbn [flat_map]. rewrite <- IH. reflexivity.
Qed.

(* all text below a block element sits in paragraphs reached through divisions *)
Fixpoint block_ok (e : elem) : bool :=
  match e with
  | Elem a cs =>
      (fix go (l : list elem) : bool :=
         match l with
         | [] => true
         | c :: l' => (match e_kind (eattrs c) with
                       | KDiv => block_ok c
                       | KP => true
                       | _ => match leaves_text c with [] => true | _ => false end
                       end) && go l'
         end) cs
  end.
Lemma block_ok_node a cs :
  block_ok (Elem a cs) =
  forallb (fun c => match e_kind (eattrs c) with
                    | KDiv => block_ok c
                    | KP => true
                    | _ => match leaves_text c with [] => true | _ => false end
                    end) cs.
Proof. cbn [block_ok]. induction cs as [|c cs IH]; [reflexivity|]. cbn [forallb]. rewrite <- IH. reflexivity. Qed.

Lemma get_paragraphs_kind : forall e p, In p (get_paragraphs e) -> e_kind (eattrs p) = KP.
Proof.
  induction e as [a cs IH] using elem_ind2. intros p Hp. rewrite get_paragraphs_node in Hp.
  apply in_flat_map in Hp as (c & Hc & Hp). rewrite Forall_forall in IH.
  destruct (e_kind (eattrs c)) eqn:Ek; try (destruct Hp; fail).
  - apply (IH c Hc p Hp).
  - destruct Hp as [<-|[]]. exact Ek.
Qed.

(* a body: neither it nor its children are br/text, and below each child all text sits in paragraphs reached through
   divisions (for a snapshot of a well-formed document: the children of a body are divisions holding divisions and paragraphs) *)
Definition body_ok (b : elem) : bool := container b && forallb (fun c => container c && block_ok c) (echildren b).
Definition paragraphs_shape (rs : list elem) : bool := forallb (fun r => container r && forallb body_ok (echildren r)) rs.

Section SelP.
  Variable skip : kind -> bool.
  Hypothesis skip_annot : forall k, skip k = true -> annot_kind k = true.
  Let stc := sel_text_container skip skip_annot.

  Lemma get_paragraphs_sel : forall e, block_ok e = true ->
    flat_map (sel_text skip) (get_paragraphs e) = flat_map (sel_text skip) (echildren e).
  Proof.
    induction e as [a cs IH] using elem_ind2. intros H. rewrite get_paragraphs_node. rewrite block_ok_node in H. cbn [echildren].
    rewrite flat_map_flat_map. apply flat_map_ext_in. intros c Hc.
    rewrite forallb_forall in H. specialize (H c Hc). rewrite Forall_forall in IH. specialize (IH c Hc).
    destruct c as [ac ccs]. cbn [eattrs] in *. destruct (e_kind ac) eqn:Ek.
    all: try (cbn [flat_map]; destruct (leaves_text (Elem ac ccs)) eqn:El; [symmetry; apply sel_text_nil, El | discriminate]).
    - (* div *) rewrite (IH H). symmetry. apply stc. unfold container. cbn [eattrs]. rewrite Ek. reflexivity.
    - (* p *) cbn [flat_map]. apply app_nil_r.
  Qed.

  Lemma sel_text_br : sel_text skip br_elem = [].
  Proof. reflexivity. Qed.
  Lemma join_paragraphs_sel : forall ps,
    Forall (fun p => container p = true) ps -> flat_map (sel_text skip) (join_paragraphs ps) = flat_map (sel_text skip) ps.
  Proof.
    induction ps as [|p ps IH]; intros H; [reflexivity|]. inversion H as [|? ? Hp Hps]; subst.
    cbn [join_paragraphs]. destruct ps as [|q ps'].
    - cbn [flat_map]. rewrite app_nil_r. symmetry. apply stc, Hp.
    - rewrite flat_map_app. cbn [flat_map]. rewrite sel_text_br. cbn [app]. rewrite (IH Hps).
      rewrite <- (stc p Hp). reflexivity.
  Qed.

  Lemma merge_paragraphs_body_sel b : body_ok b = true -> sel_text skip (merge_paragraphs_body b) = sel_text skip b.
  Proof.
    intros H. unfold merge_paragraphs_body.
    destruct (Z.of_nat (length (flat_map get_paragraphs (echildren b))) <=? 1); [reflexivity|].
    unfold body_ok in H. apply andb_true_iff in H as [Hb Hc]. rewrite forallb_forall in Hc.
    rewrite (stc b Hb).
    rewrite stc by (destruct b as [ab cb]; unfold container in *; cbn [eattrs] in *; exact Hb).
    cbn [echildren flat_map]. rewrite app_nil_r.
    rewrite stc by reflexivity. cbn [echildren flat_map]. rewrite app_nil_r.
    rewrite stc by reflexivity. cbn [echildren].
    rewrite join_paragraphs_sel.
    2:{ apply Forall_forall. intros p Hp. apply in_flat_map in Hp as (c & _ & Hp). apply get_paragraphs_kind in Hp.
        unfold container. rewrite Hp. reflexivity. }
    rewrite flat_map_flat_map. apply flat_map_ext_in. intros c Hin. specialize (Hc c Hin). apply andb_true_iff in Hc as [Hc1 Hc2].
    rewrite (get_paragraphs_sel c Hc2). symmetry. apply stc, Hc1.
  Qed.

  (* every text leaf stays, in order; only line breaks are added *)
  Theorem merge_paragraphs_sel : forall rs,
    paragraphs_shape rs = true -> flat_map (sel_text skip) (merge_paragraphs rs) = flat_map (sel_text skip) rs.
  Proof.
    intros rs H. unfold merge_paragraphs. rewrite flat_map_concat_map, map_map, <- flat_map_concat_map.
    apply flat_map_ext_in. intros r Hr. unfold paragraphs_shape in H. rewrite forallb_forall in H. specialize (H r Hr).
    apply andb_true_iff in H as [H1 H2]. rewrite forallb_forall in H2.
    rewrite (stc r H1).
    rewrite stc by (destruct r as [ar cr]; unfold container in *; cbn [eattrs] in *; exact H1).
    cbn [echildren]. rewrite flat_map_concat_map, map_map, <- flat_map_concat_map.
    apply flat_map_ext_in. intros b Hb. apply merge_paragraphs_body_sel, H2, Hb.
  Qed.
End SelP.

Lemma leaves_text_container e : container e = true -> leaves_text e = flat_map leaves_text (echildren e).
Proof.
  intros H. rewrite <- sel_text_none, (sel_text_container sk_none (fun k Hk => ltac:(discriminate Hk)) e H).
  apply flat_map_ext_in. intros c _. apply sel_text_none.
Qed.
Theorem merge_paragraphs_preserves_leaves : forall rs,
  paragraphs_shape rs = true -> flat_map leaves_text (merge_paragraphs rs) = flat_map leaves_text rs.
Proof.
  intros rs H. pose proof (merge_paragraphs_sel sk_none (fun k Hk => ltac:(discriminate Hk)) rs H) as G.
  rewrite !(flat_map_ext_in _ _ _ (fun e _ => sel_text_none e)) in G. exact G.
Qed.
Theorem merge_paragraphs_preserves_base : forall rs,
  paragraphs_shape rs = true -> flat_map base_text (merge_paragraphs rs) = flat_map base_text rs.
Proof. intros rs H. exact (merge_paragraphs_sel annot_kind (fun k Hk => Hk) rs H). Qed.

(* ---- the style filters change styles only ------------------------------------------------------------------------ *)
Lemma filter_supported_node cfg a cs :
  filter_supported cfg (Elem a cs) = Elem (with_styles a (filter (is_supported cfg) (e_styles a))) (map (filter_supported cfg) cs).
Proof. reflexivity. Qed.
Lemma filter_defaults_node dfl par a cs :
  filter_defaults dfl par (Elem a cs) =
  let st := filter (fun kv => negb (default_removed dfl par kv)) (e_styles a) in
  Elem (with_styles a st) (map (filter_defaults dfl (Some st)) cs).
Proof. reflexivity. Qed.

Lemma leaf_of_with_styles a st : leaf_of (with_styles a st) = leaf_of a.
Proof. reflexivity. Qed.

Lemma filter_supported_leaves cfg : forall e, shown_leaves (filter_supported cfg e) = shown_leaves e.
Proof.
  induction e as [a cs IH] using elem_ind2. rewrite filter_supported_node, !shown_leaves_node. cbn [with_styles e_kind].
  rewrite leaf_of_with_styles. destruct (e_kind a); try reflexivity;
    (rewrite flat_map_concat_map, map_map, <- flat_map_concat_map; apply flat_map_ext_in; intros c Hc;
     rewrite Forall_forall in IH; apply IH, Hc).
Qed.
Lemma filter_defaults_leaves dfl : forall e par, shown_leaves (filter_defaults dfl par e) = shown_leaves e.
Proof.
  induction e as [a cs IH] using elem_ind2. intros par. rewrite filter_defaults_node. cbv zeta. rewrite !shown_leaves_node.
  cbn [with_styles e_kind]. rewrite leaf_of_with_styles. destruct (e_kind a); try reflexivity;
    (rewrite flat_map_concat_map, map_map, <- flat_map_concat_map; apply flat_map_ext_in; intros c Hc;
     rewrite Forall_forall in IH; apply IH, Hc).
Qed.

Lemma filter_supported_sel skip cfg : forall e, sel_leaves skip (filter_supported cfg e) = sel_leaves skip e.
Proof.
  induction e as [a cs IH] using elem_ind2. rewrite filter_supported_node, !sel_leaves_node. cbn [with_styles e_kind].
  rewrite leaf_of_with_styles. destruct (e_kind a); try reflexivity;
    (destruct (skip _); [reflexivity|]; rewrite flat_map_concat_map, map_map, <- flat_map_concat_map; apply flat_map_ext_in; intros c Hc;
     rewrite Forall_forall in IH; apply IH, Hc).
Qed.
Lemma filter_defaults_sel skip dfl : forall e par, sel_leaves skip (filter_defaults dfl par e) = sel_leaves skip e.
Proof.
  induction e as [a cs IH] using elem_ind2. intros par. rewrite filter_defaults_node. cbv zeta. rewrite !sel_leaves_node.
  cbn [with_styles e_kind]. rewrite leaf_of_with_styles. destruct (e_kind a); try reflexivity;
    (destruct (skip _); [reflexivity|]; rewrite flat_map_concat_map, map_map, <- flat_map_concat_map; apply flat_map_ext_in; intros c Hc;
     rewrite Forall_forall in IH; apply IH, Hc).
Qed.

Theorem style_filters_preserve_leaves : forall f rs,
  match f with FSupported _ | FDefaults _ => True | _ => False end ->
  flat_map shown_leaves (apply_filter f rs) = flat_map shown_leaves rs.
Proof.
  intros f rs Hf. destruct f as [| |cfg|dfl]; try contradiction; cbn [apply_filter];
    rewrite flat_map_concat_map, map_map, <- flat_map_concat_map; apply flat_map_ext_in; intros r _;
    [apply filter_supported_leaves | apply filter_defaults_leaves].
Qed.
