(* C06: the cue lists of both writers, for every snapshot sequence: one group of cues per snapshot, every cue of the group
   over that snapshot's interval (rounded to the millisecond; the unbounded last one ends 10 s after it begins), every cue holding
   visible text, the group holding exactly the visible characters of the snapshot's Br/Text leaves outside ruby annotations, in
   order — the latter when the writers' dispatch meets no element that it skips although it holds text (which the content model
   excludes: Proofs/C06/Content.v) and, SubRip only, the text holds no "<". *)
From TT Require Import Model.Doc Gen.StyleTables Model.Isd Model.SigTimes Model.TimeCode Model.IsdFilters Gen.CueTables Model.CueWriter.
From TT Require Import Model.CueTriggers Spec.IsdSpec Spec.CueSpec Proofs.Common.ElemInd Proofs.C01.Lwsp Proofs.C01.Main.
From TT Require Import Proofs.C02.Complete Proofs.C06.Filters Proofs.C06.Inline Proofs.C06.Strip Proofs.C06.Loop.

(* ---- the filter lists keep the text ------------------------------------------------------------------------------------ *)
Definition snapshot_shape (rs : list elem) : bool := regions_shape rs && paragraphs_shape rs.

Lemma merge_regions_shape rs : snapshot_shape rs = true -> snapshot_shape (merge_regions rs) = true.
Proof.
  unfold snapshot_shape. intros H. apply andb_true_iff in H as [H1 H2]. unfold merge_regions.
  destruct ((Z.of_nat (length rs) <=? 1) || (fold_left (fun n r => n + Z.of_nat (length (echildren r))) rs 0 <=? 1));
    [rewrite H1, H2; reflexivity|].
  apply andb_true_iff. split; [reflexivity|].
  unfold paragraphs_shape, body_ok. cbn [forallb echildren eattrs plain_attrs container e_kind andb]. rewrite !andb_true_r.
  apply forallb_forall. intros c Hc. apply in_flat_map in Hc as (r & Hr & Hc). apply in_flat_map in Hc as (b & Hb & Hc).
  unfold paragraphs_shape in H2. rewrite forallb_forall in H2. specialize (H2 r Hr). apply andb_true_iff in H2 as [_ H2].
  rewrite forallb_forall in H2. specialize (H2 b Hb). unfold body_ok in H2. apply andb_true_iff in H2 as [_ H2].
  rewrite forallb_forall in H2. apply H2, Hc.
Qed.

(* the filter lists the writers use: [merge regions;] merge paragraphs; supported styles; default styles *)
Definition writer_filters (merge : bool) (c : supported_cfg) (d : smap) : list isd_filter :=
  (if merge then [FMergeRegions] else []) ++ [FMergeParagraphs; FSupported c; FDefaults d].

Section FiltersSel.
  Variable skip : kind -> bool.
  Hypothesis skip_annot : forall k, skip k = true -> annot_kind k = true.

  Lemma sel_text_map (f : elem -> elem) rs :
    (forall e, sel_leaves skip (f e) = sel_leaves skip e) -> flat_map (sel_text skip) (map f rs) = flat_map (sel_text skip) rs.
  Proof.
    intros H. rewrite flat_map_concat_map, map_map, <- flat_map_concat_map. apply flat_map_ext_in. intros r _.
    unfold sel_text. rewrite H. reflexivity.
  Qed.
  Lemma sel_text_leaves rs rs' :
    flat_map (sel_leaves skip) rs = flat_map (sel_leaves skip) rs' -> flat_map (sel_text skip) rs = flat_map (sel_text skip) rs'.
  Proof.
    intros H. unfold sel_text. rewrite <- !(flat_map_flat_map (sel_leaves skip) leaf_chars). rewrite H. reflexivity.
  Qed.

  Theorem filters_preserve_sel merge c d rs :
    snapshot_shape rs = true -> flat_map (sel_text skip) (apply_filters (writer_filters merge c d) rs) = flat_map (sel_text skip) rs.
  Proof.
    intros H. unfold writer_filters, apply_filters.
    assert (G : forall rs0, snapshot_shape rs0 = true ->
                flat_map (sel_text skip) (fold_left (fun acc f => apply_filter f acc) [FMergeParagraphs; FSupported c; FDefaults d] rs0)
                = flat_map (sel_text skip) rs0).
    { intros rs0 H0. cbn [fold_left apply_filter].
      rewrite (sel_text_map _ _ (fun e => filter_defaults_sel skip d e None)), (sel_text_map _ _ (filter_supported_sel skip c)).
      apply (merge_paragraphs_sel skip skip_annot). unfold snapshot_shape in H0. apply andb_true_iff in H0 as [_ H0]. exact H0. }
    rewrite fold_left_app. destruct merge.
    - change (fold_left (fun acc f => apply_filter f acc) [FMergeRegions] rs) with (merge_regions rs).
      rewrite (G _ (merge_regions_shape rs H)). apply sel_text_leaves, (merge_regions_sel skip skip_annot).
      unfold snapshot_shape in H. apply andb_true_iff in H as [H _]. exact H.
    - exact (G rs H).
  Qed.
End FiltersSel.

Theorem filters_preserve_text merge c d rs :
  snapshot_shape rs = true -> flat_map leaves_text (apply_filters (writer_filters merge c d) rs) = flat_map leaves_text rs.
Proof.
  intros H. pose proof (filters_preserve_sel sk_none (fun k Hk => ltac:(discriminate Hk)) merge c d rs H) as G.
  rewrite !(flat_map_ext_in _ _ _ (fun e _ => sel_text_none e)) in G. exact G.
Qed.
Theorem filters_preserve_base merge c d rs :
  snapshot_shape rs = true -> flat_map base_text (apply_filters (writer_filters merge c d) rs) = flat_map base_text rs.
Proof. intros H. exact (filters_preserve_sel annot_kind (fun k Hk => Hk) merge c d rs H). Qed.

(* the generated tables have this form (re-checked whenever Gen/CueTables.v changes) *)
Lemma srt_filters_form : exists c d, srt_filters = writer_filters true c d.
Proof. eexists. eexists. reflexivity. Qed.
Lemma vtt_filters_form cfg fs : vtt_filters cfg = Some fs -> exists c d, fs = writer_filters (negb (line_position cfg)) c d.
Proof.
  destruct cfg as [[|] [|] [|]]; vm_compute; intros H; injection H as <-; eexists; eexists; reflexivity.
Qed.

(* ---- cue groups ------------------------------------------------------------------------------------------------------------ *)
(* the interval a cue of the snapshot at t must carry; `next` is the following significant time.  A cue of the unbounded last
   interval that finish() did not reach keeps no end (the writer then raises: see C07) *)
Definition times_ok (t : Q) (next : option Q) (c : cue) : Prop :=
  c_begin c = round_ms t /\
  match next with
  | Some t' => c_end c = Some (round_ms t')
  | None => c_end c = Some (round_ms t + 10000) \/ c_end c = None
  end.
(* the group holds the snapshot's visible text (outside ruby annotations), when the snapshot has the shape snapshots have and the
   dispatch loses nothing *)
Definition text_ok (sees_all : list elem -> bool) (fs : list isd_filter) (regions : list elem) (cs : list cue) : Prop :=
  snapshot_shape regions = true -> sees_all (apply_filters fs regions) = true ->
  visc (flat_map cue_chars cs) = visc (flat_map base_text regions).

Inductive cue_groups (R : Q -> option Q -> list elem -> list cue -> Prop) : list (Q * list elem) -> list cue -> Prop :=
| cg_nil : cue_groups R [] []
| cg_cons t regions seq cs rest :
    R t (next_time seq) regions cs -> cue_groups R seq rest -> cue_groups R ((t, regions) :: seq) (cs ++ rest).

Lemma q_ms_round t b : q_ms t = Ok b -> b = round_ms t.
Proof. unfold q_ms. destruct (Qnum t <? 0); [discriminate|]. intros H. injection H as <-. reflexivity. Qed.
Lemma oq_ms_round o en : oq_ms o = Ok en -> en = option_map round_ms o.
Proof.
  destruct o as [q|]; cbn [oq_ms option_map]; [|intros H; injection H as <-; reflexivity].
  destruct (q_ms q) as [m|] eqn:E; [|discriminate]. cbn [bind]. intros H. injection H as <-. rewrite (q_ms_round q m E). reflexivity.
Qed.

(* every cue of the group: its interval, its blank test failed, its characters are not all white space; the group: its text *)
Definition kept (blank : cue -> bool) (c : cue) : Prop := blank c = false /\ nonblank c.
Definition group_ok (blank : cue -> bool) (sees_all : list elem -> bool) (fs : list isd_filter) (t : Q) (next : option Q) (regions : list elem) (cs : list cue) : Prop :=
  Forall (times_ok t next) cs /\ Forall (kept blank) cs /\ text_ok sees_all fs regions cs.

Lemma by_snapshot_groups blank sees_all merge c d : forall seq cs,
  by_snapshot (snapshot_spec blank sees_all (writer_filters merge c d)) seq cs ->
  cue_groups (group_ok blank sees_all (writer_filters merge c d)) seq cs.
Proof.
  intros seq cs B. induction B as [|t regions seq b en cs rest Hb Hen [Hat Htxt] _ IH]; constructor; [|exact IH].
  split; [|split].
  - apply q_ms_round in Hb. apply oq_ms_round in Hen. subst b en. eapply Forall_impl; [|exact Hat].
    intros x (Hx1 & Hx2 & _). split; [exact Hx1|]. destruct (next_time seq); cbn [option_map] in Hx2; [exact Hx2 | right; exact Hx2].
  - eapply Forall_impl; [|exact Hat]. intros x (_ & _ & Hx). exact Hx.
  - intros Hs Hok. rewrite (Htxt Hok). apply f_equal, filters_preserve_base, Hs.
Qed.

(* finish(): the last cue gets its default end (it is not blank: it was kept); with fill, so do the earlier cues without an end *)
Lemma finish_cues_app fill blank x y : y <> [] ->
  finish_cues fill blank (x ++ y) = map (fun c => if fill then default_end c else c) x ++ finish_cues fill blank y.
Proof.
  intros Hy. induction x as [|c x IH]; [reflexivity|]. cbn [app finish_cues map]. rewrite IH.
  destruct (x ++ y) eqn:E; [|reflexivity]. apply app_eq_nil in E as [_ E]. contradiction.
Qed.
Lemma finish_cues_cons fill blank c c' cs :
  finish_cues fill blank (c :: c' :: cs) = (if fill then default_end c else c) :: finish_cues fill blank (c' :: cs).
Proof. reflexivity. Qed.
Lemma default_end_items c : c_items (default_end c) = c_items c.
Proof. unfold default_end. destruct (c_end c); reflexivity. Qed.
Lemma default_end_begin c : c_begin (default_end c) = c_begin c.
Proof. unfold default_end. destruct (c_end c); reflexivity. Qed.
Lemma default_end_chars c : cue_chars (default_end c) = cue_chars c.
Proof. unfold cue_chars. rewrite default_end_items. reflexivity. Qed.
Definition items_only (blank : cue -> bool) : Prop := forall c c', c_items c = c_items c' -> blank c = blank c'.
Lemma cue_blank_items strip esc : items_only (cue_blank strip esc).
Proof. intros c c' E. unfold cue_blank, cue_text. rewrite E. reflexivity. Qed.
Lemma default_end_kept blank c : items_only blank -> kept blank c -> kept blank (default_end c).
Proof.
  intros Hb [H1 H2]. split; [rewrite <- H1; apply Hb, default_end_items | unfold nonblank; rewrite default_end_chars; exact H2].
Qed.
Lemma default_end_times t c : times_ok t None c -> times_ok t None (default_end c) /\ c_end (default_end c) <> None.
Proof.
  intros [Hb He]. unfold default_end. destruct (c_end c) eqn:E.
  - split; [split; [exact Hb | rewrite E; exact He] | rewrite E; discriminate].
  - split; [split; [exact Hb | left; cbn [c_end]; rewrite Hb; reflexivity] | discriminate].
Qed.
Lemma default_end_bounded t t' c : times_ok t (Some t') c -> default_end c = c.
Proof. intros [_ He]. unfold default_end. rewrite He. reflexivity. Qed.

(* the cues of one snapshot after finish(), when they are the last cues of the list *)
Lemma finish_last_group fill blank t next : items_only blank -> forall cs,
  Forall (times_ok t next) cs -> Forall (kept blank) cs ->
  Forall (times_ok t next) (finish_cues fill blank cs) /\ Forall (kept blank) (finish_cues fill blank cs) /\ map cue_chars (finish_cues fill blank cs) = map cue_chars cs.
Proof.
  intros Hb. induction cs as [|c cs IH]; intros Ht Hk; [repeat split; constructor|].
  inversion Ht as [|? ? Hc Hcs]; subst. inversion Hk as [|? ? Kc Kcs]; subst. destruct cs as [|c' cs'].
  - cbn [finish_cues]. destruct (c_end c) eqn:Ee; [repeat split; assumption|].
    destruct Kc as [K1 K2]. rewrite K1.
    assert (D : default_end c = mkCue (c_id c) (c_begin c) (Some (c_begin c + 10000)) (c_items c) (c_line c) (c_textalign c))
      by (unfold default_end; rewrite Ee; reflexivity).
    split; [|split].
    + constructor; [|constructor]. destruct Hc as [Hb0 He0]. rewrite D. split; [exact Hb0|]. cbn [c_end c_begin].
      destruct next; [rewrite Ee in He0; discriminate | left; rewrite Hb0; reflexivity].
    + constructor; [|constructor]. apply default_end_kept; [exact Hb | split; assumption].
    + cbn [map]. rewrite default_end_chars. reflexivity.
  - rewrite finish_cues_cons. destruct (IH Hcs Kcs) as (I1 & I2 & I3). split; [|split].
    + constructor; [|exact I1]. destruct fill; [|exact Hc]. destruct next as [t'|]; [rewrite (default_end_bounded _ _ _ Hc); exact Hc|].
      apply default_end_times, Hc.
    + constructor; [|exact I2]. destruct fill; [apply default_end_kept; assumption | exact Kc].
    + change (map cue_chars ((if fill then default_end c else c) :: finish_cues fill blank (c' :: cs')))
        with (cue_chars (if fill then default_end c else c) :: map cue_chars (finish_cues fill blank (c' :: cs'))).
      rewrite I3. change (map cue_chars (c :: c' :: cs')) with (cue_chars c :: map cue_chars (c' :: cs')).
      f_equal. destruct fill; [apply default_end_chars | reflexivity].
Qed.
Lemma flat_map_map_chars (cs cs' : list cue) : map cue_chars cs = map cue_chars cs' -> flat_map cue_chars cs = flat_map cue_chars cs'.
Proof.
  revert cs'. induction cs as [|c cs IH]; intros [|c' cs'] H; try discriminate; [reflexivity|].
  cbn [map] in H. injection H as H1 H2. cbn [flat_map]. rewrite H1, (IH cs' H2). reflexivity.
Qed.
Lemma finish_group fill blank sees_all fs t next regions cs : items_only blank ->
  group_ok blank sees_all fs t next regions cs -> group_ok blank sees_all fs t next regions (finish_cues fill blank cs).
Proof.
  intros Hb (H1 & H2 & H3). destruct (finish_last_group fill blank t next Hb cs H1 H2) as (F1 & F2 & F3).
  split; [exact F1|]. split; [exact F2|]. intros Hs Hok. rewrite (flat_map_map_chars _ _ F3). apply H3; assumption.
Qed.
(* an earlier group: every cue has an end, so nothing changes *)
Lemma fill_bounded (fill : bool) blank sees_all fs t t' regions cs :
  group_ok blank sees_all fs t (Some t') regions cs -> map (fun c => if fill then default_end c else c) cs = cs.
Proof.
  intros [H _]. destruct fill; [|apply map_id]. induction cs as [|c cs IH]; [reflexivity|]. inversion H as [|? ? Hc Hcs]; subst.
  cbn [map]. rewrite (default_end_bounded _ _ _ Hc), (IH Hcs). reflexivity.
Qed.
Lemma cue_groups_last R : forall seq rest, cue_groups R seq rest -> rest <> [] -> seq <> [].
Proof. intros seq rest G H ->. inversion G; subst. contradiction. Qed.

Theorem finish_groups fill blank sees_all fs : items_only blank -> forall seq cs,
  cue_groups (group_ok blank sees_all fs) seq cs -> cue_groups (group_ok blank sees_all fs) seq (finish_cues fill blank cs).
Proof.
  intros Hb seq cs G. induction G as [|t regions seq cs rest Hr G IH]; [constructor|].
  destruct rest as [|r0 rest'].
  - (* all later groups are empty: the last cue, if any, is in this group *)
    rewrite app_nil_r. rewrite <- (app_nil_r (finish_cues fill blank cs)). constructor; [|exact G].
    apply finish_group; assumption.
  - rewrite finish_cues_app by discriminate. constructor; [|exact IH].
    destruct (next_time seq) as [t'|] eqn:En.
    + rewrite (fill_bounded fill _ _ _ _ _ _ _ Hr). exact Hr.
    + destruct seq as [|[t1 r1] seq']; [inversion G | discriminate En].
Qed.

(* ---- the two writers ---------------------------------------------------------------------------------------------------------- *)
Theorem srt_cues_groups fmt seq cs :
  srt_cues fmt seq = Ok cs -> cue_groups (group_ok srt_blank srt_sees_all srt_filters) seq cs.
Proof.
  unfold srt_cues. destruct (srt_loop fmt seq 0) as [cs0|] eqn:E; [|discriminate]. cbn [bind]. intros H. injection H as <-.
  destruct srt_filters_form as (c & d & Hf). apply finish_groups; [apply cue_blank_items|].
  pose proof (srt_loop_spec fmt seq 0 cs0 E) as B. rewrite Hf in *. apply by_snapshot_groups, B.
Qed.
Theorem vtt_cues_groups cfg fs seq cs css :
  vtt_filters cfg = Some fs -> vtt_cues cfg seq = Ok (cs, css) -> cue_groups (group_ok vtt_blank vtt_sees_all fs) seq cs.
Proof.
  intros Hfs. unfold vtt_cues. rewrite Hfs. destruct (vtt_loop cfg fs seq (mkVttState 0 [])) as [[cs0 st]|] eqn:E; [|discriminate].
  cbn [bind fst snd]. intros H. injection H as <- _.
  destruct (vtt_filters_form cfg fs Hfs) as (c & d & Hf). apply finish_groups; [apply cue_blank_items|].
  pose proof (vtt_loop_spec cfg fs seq _ cs0 st E) as B. rewrite Hf in *. apply by_snapshot_groups, B.
Qed.

(* projections *)
Lemma cue_groups_impl (R R' : Q -> option Q -> list elem -> list cue -> Prop) :
  (forall t n r cs, R t n r cs -> R' t n r cs) -> forall seq cs, cue_groups R seq cs -> cue_groups R' seq cs.
Proof. intros H seq cs G. induction G; constructor; auto. Qed.

(* ---- from the snapshot to the per-leaf TTML specification of C01 ------------------------------------------------------------- *)
Definition doc_regions (d : doc) : list elem := match d_regions d with [] => [default_region] | l => l end.
Definition region_sel (d : doc) (r : elem) : option text := match d_regions d with [] => None | _ => e_id (eattrs r) end.

(* the leaves of an (uncached) snapshot are, region by region, what the per-leaf specification selects *)
Theorem isd_leaves d t rs :
  Forall (fun r => e_kind (eattrs r) = KRegion) (d_regions d) ->
  match d_body d with Some b => leaf_wf b = true | None => True end ->
  isd d t = Ok rs ->
  flat_map shown_leaves rs = flat_map (fun r => leaves_spec d t (eattrs r) (region_sel d r)) (doc_regions d).
Proof.
  intros Hk Hwf H. unfold isd in H.
  assert (G : forall (l : list elem) (sel : elem -> option text) rs0,
              Forall (fun r => e_kind (eattrs r) = KRegion) l ->
              collect_regions (map (fun r => proc_region d t (sel r) r) l) = Ok rs0 ->
              flat_map shown_leaves rs0 = flat_map (fun r => leaves_spec d t (eattrs r) (sel r)) l).
  { induction l as [|r l IH]; intros sel rs0 Hl Hc; cbn [map collect_regions] in Hc.
    - injection Hc as <-. reflexivity.
    - inversion Hl as [|? ? Hr Hl']; subst.
      destruct (proc_region d t (sel r) r) as [o|] eqn:Ep; [|discriminate]. cbn [bind] in Hc.
      destruct (collect_regions (map (fun r0 => proc_region d t (sel r0) r0) l)) as [xs|] eqn:Ex; [|discriminate]. cbn [bind] in Hc.
      injection Hc as <-. cbn [flat_map]. rewrite <- (IH sel xs Hl' Ex), <- (region_leaves d t (sel r) r o Hr Hwf Ep).
      destruct o; reflexivity. }
  unfold doc_regions, region_sel. destruct (d_regions d) as [|r0 l0] eqn:Er.
  - change [proc_region d t None default_region] with (map (fun r => proc_region d t ((fun _ => None) r) r) [default_region]) in H.
    apply (G [default_region] (fun _ => None) rs); [constructor; [reflexivity | constructor] | exact H].
  - apply (G (r0 :: l0) (fun r => e_id (eattrs r)) rs Hk H).
Qed.

(* ---- the whole output: all visible characters of all snapshots, once each, in order ------------------------------------------ *)
(* in some snapshot the dispatch of the writer meets an element it has no case for and that holds text (outside the content model
   of model.py: Proofs/C06/Content.v) or, SubRip only, a paragraph's text holds "<" *)
Definition trig_lost_srt (seq : list (Q * list elem)) : bool :=
  existsb (fun x => negb (srt_sees_all (apply_filters srt_filters (snd x)))) seq.
Definition trig_lost_vtt (cfg : vtt_config) (seq : list (Q * list elem)) : bool :=
  match vtt_filters cfg with
  | Some fs => existsb (fun x => negb (vtt_sees_all (apply_filters fs (snd x)))) seq
  | None => false
  end.
(* snapshots have the shape snapshots of well-formed documents have: regions hold bodies, bodies divisions, text sits in paragraphs *)
Definition seq_shape (seq : list (Q * list elem)) : bool := forallb (fun x => snapshot_shape (snd x)) seq.
Definition seq_text (seq : list (Q * list elem)) : text := flat_map (fun x => flat_map base_text (snd x)) seq.

Lemma groups_total blank sees_all fs : forall seq cs,
  cue_groups (group_ok blank sees_all fs) seq cs -> seq_shape seq = true ->
  existsb (fun x => negb (sees_all (apply_filters fs (snd x)))) seq = false ->
  visc (flat_map cue_chars cs) = visc (seq_text seq).
Proof.
  intros seq cs G. induction G as [|t regions seq cs rest (_ & _ & Hr) G IH]; intros Hs Ht; [reflexivity|].
  cbn [seq_shape forallb snd] in Hs. apply andb_true_iff in Hs as [Hs1 Hs2].
  cbn [existsb snd] in Ht. apply orb_false_iff in Ht as [Ht1 Ht2]. apply negb_false_iff in Ht1.
  unfold seq_text. cbn [flat_map snd]. rewrite flat_map_app, !visc_app, (Hr Hs1 Ht1). f_equal. apply IH; assumption.
Qed.

Theorem srt_text_total fmt seq cs :
  seq_shape seq = true -> trig_lost_srt seq = false -> srt_cues fmt seq = Ok cs -> visc (flat_map cue_chars cs) = visc (seq_text seq).
Proof. intros Hs Ht H. exact (groups_total _ _ _ seq cs (srt_cues_groups fmt seq cs H) Hs Ht). Qed.
Theorem vtt_text_total cfg seq cs css :
  seq_shape seq = true -> trig_lost_vtt cfg seq = false -> vtt_cues cfg seq = Ok (cs, css) -> visc (flat_map cue_chars cs) = visc (seq_text seq).
Proof.
  intros Hs Ht H. unfold trig_lost_vtt in Ht. destruct (vtt_filters cfg) as [fs|] eqn:Ef.
  - exact (groups_total _ _ _ seq cs (vtt_cues_groups cfg fs seq cs css Ef H) Hs Ht).
  - unfold vtt_cues in H. rewrite Ef in H. discriminate.
Qed.

(* ---- projections used by Properties/C06.v --------------------------------------------------------------------------------------- *)
Lemma times_srt fmt seq cs :
  srt_cues fmt seq = Ok cs -> cue_groups (fun t next _ group => Forall (times_ok t next) group) seq cs.
Proof.
  intros H. eapply cue_groups_impl; [|exact (srt_cues_groups fmt seq cs H)]. intros t n r x [Hx _]. exact Hx.
Qed.
Lemma times_vtt cfg seq cs css :
  vtt_cues cfg seq = Ok (cs, css) -> cue_groups (fun t next _ group => Forall (times_ok t next) group) seq cs.
Proof.
  intros H. assert (Hfs : exists fs, vtt_filters cfg = Some fs)
    by (unfold vtt_cues in H; destruct (vtt_filters cfg) as [fs|]; [eexists; reflexivity | discriminate]).
  destruct Hfs as [fs Hfs]. eapply cue_groups_impl; [|exact (vtt_cues_groups cfg fs seq cs css Hfs H)]. intros t n r x [Hx _]. exact Hx.
Qed.
Lemma sequence_times d seq : isd_sequence d = Ok seq -> sig d = Ok (map fst seq).
Proof.
  intros H. destruct (Proofs.C02.Complete.sequence_spec d seq H) as (l & Hl & Hm & _). rewrite Hm. exact Hl.
Qed.
Lemma text_partial_srt fmt seq cs :
  srt_cues fmt seq = Ok cs -> cue_groups (fun _ _ regions group => text_ok srt_sees_all srt_filters regions group) seq cs.
Proof.
  intros H. eapply cue_groups_impl; [|exact (srt_cues_groups fmt seq cs H)]. intros t n r x (_ & _ & Hx). exact Hx.
Qed.
Lemma text_partial_vtt cfg fs seq cs css :
  vtt_filters cfg = Some fs -> vtt_cues cfg seq = Ok (cs, css) ->
  cue_groups (fun _ _ regions group => text_ok vtt_sees_all fs regions group) seq cs.
Proof.
  intros Hfs H. eapply cue_groups_impl; [|exact (vtt_cues_groups cfg fs seq cs css Hfs H)]. intros t n r x (_ & _ & Hx). exact Hx.
Qed.

(* a non-trivial snapshot sequence meeting the hypotheses: two regions, two divisions each with a paragraph, a nested span, a br *)
Definition c06_example : list (Q * list elem) :=
  let tx s := Elem (mkAttrs KText None None None None [] [] false [] s) [] in
  let sp cs := Elem (mkAttrs KSpan None None None None [] [] false [] []) cs in
  let br := Elem (mkAttrs KBr None None None None [] [] false [] []) [] in
  let p cs := Elem (mkAttrs KP None None None None [] [] false [] []) cs in
  let dv cs := Elem (mkAttrs KDiv None None None None [] [] false [] []) cs in
  let bd cs := Elem (mkAttrs KBody None None None None [] [] false [] []) cs in
  let rg i cs := Elem (mkAttrs KRegion (Some [114; i]) None None None [] [] false [] []) cs in
  [(Qmake 1 1, [rg 48 [bd [dv [p [sp [tx [97; 32]; sp [tx [98]]]; br]]; dv [p [sp [tx [99]]]]]]; rg 49 [bd [dv [dv [p [sp [tx [100]]]]]]]]);
   (Qmake 2 1, [])].
Lemma c06_example_ok :
  seq_shape c06_example = true /\ trig_lost_srt c06_example = false /\
  trig_lost_vtt (mkVttConfig false false true) c06_example = false /\
  exists cs, srt_cues true c06_example = Ok cs /\ flat_map cue_chars cs = [97; 32; 98; 10; 10; 99; 10; 100] /\
             visc (seq_text c06_example) = [97; 98; 99; 100].
Proof. split; [reflexivity|]. split; [reflexivity|]. split; [reflexivity|]. eexists. split; [reflexivity|]. split; reflexivity. Qed.
