(* C06: the leaves of a snapshot OUTSIDE ruby annotations (`base_leaves`: what the writers carry) are exactly the leaves the per-leaf
   TTML specification of C01 selects whose chain of ancestors holds no rt / rtc / rp — i.e. the visible text `vis false` of
   Spec/CueSpec.v.  Same development as Proofs/C01/Lwsp.v and Proofs/C01/Main.v (white-space handling is conservative, snapshot
   generation = per-leaf selection), for the leaves outside annotations. *)
From TT Require Import Model.Doc Gen.StyleTables Model.Isd Model.SigTimes Model.IsdFilters Spec.IsdSpec Spec.CueSpec.
From TT Require Import Model.TimeCode Gen.CueTables Model.CueWriter Model.CueTriggers.
From TT Require Import Proofs.Common.ElemInd Proofs.Common.StyleFrame Proofs.C01.Leaves Proofs.C01.Display Proofs.C01.Lwsp Proofs.C01.Main.
From TT Require Import Proofs.C06.Filters Proofs.C06.Inline Proofs.C06.Strip Proofs.C06.Loop Proofs.C06.Text Proofs.C06.SpecLink.

Lemma base_leaves_node a cs :
  base_leaves (Elem a cs) = match e_kind a with KBr | KText => leaf_of a | KRt | KRtc | KRp => [] | _ => flat_map base_leaves cs end.
Proof. unfold base_leaves. rewrite sel_leaves_node. destruct (e_kind a); reflexivity. Qed.

(* ---- white-space handling ----------------------------------------------------------------------------------------------------------- *)
Lemma assign_texts_keeps_base : forall e pre ts rest, Forall2 keeps (collect_texts pre e) ts ->
  base_leaves (fst (assign_texts e (ts ++ rest))) = base_leaves e /\ snd (assign_texts e (ts ++ rest)) = rest.
Proof.
  induction e as [a cs IH] using elem_ind2. intros pre ts rest H.
  rewrite collect_node in H. rewrite assign_node.
  assert (Hlist : forall ts rest, Forall2 keeps (flat_map (collect_texts (e_preserve a)) cs) ts ->
            flat_map base_leaves (fst (assign_list cs (ts ++ rest))) = flat_map base_leaves cs /\
            snd (assign_list cs (ts ++ rest)) = rest).
  { clear H ts rest. induction cs as [|c cs IHcs]; intros ts rest H.
    - inversion H; subst. split; reflexivity.
    - inversion IH as [|? ? Hc Hcs]; subst. cbn [flat_map] in H.
      apply Forall2_app_inv_l in H as (ts1 & ts2 & H1 & H2 & ->).
      rewrite <- app_assoc. destruct (Hc (e_preserve a) ts1 (ts2 ++ rest) H1) as [Hs Hr].
      cbn [assign_list]. destruct (assign_texts c (ts1 ++ ts2 ++ rest)) as [c' tsr]. cbn [fst snd] in Hs, Hr. subst tsr.
      destruct (IHcs Hcs ts2 rest H2) as [Hs2 Hr2]. destruct (assign_list cs (ts2 ++ rest)) as [l'' ts2']. cbn [fst snd] in *.
      subst ts2'. cbn [fst snd flat_map]. split; [rewrite Hs, Hs2; reflexivity | reflexivity]. }
  destruct (e_kind a) eqn:Ek; cbn [skips_text_list] in *.
  all: try (inversion H; subst; cbn [app fst snd]; split; reflexivity).
  all: try (destruct (Hlist ts rest H) as [G1 G2]; destruct (assign_list cs (ts ++ rest)) as [cs' ts']; cbn [fst snd] in *; subst ts';
            split; [rewrite !base_leaves_node, Ek; exact G1 | reflexivity]).
  - (* br *) inversion H as [|x y l l' Hxy Hrest]; subst. inversion Hrest; subst. cbn [app tl fst snd]. split; reflexivity.
  - (* text *) destruct (is_nonempty (e_text a)).
    + inversion H as [|x y l l' Hxy Hrest]; subst. inversion Hrest; subst. cbn [app hd tl fst snd]. split; [|reflexivity].
      rewrite !base_leaves_node. cbn [e_kind]. rewrite Ek. rewrite <- Ek at 1. apply leaf_of_text; [exact Ek | exact Hxy].
    + inversion H; subst. cbn [app fst snd]. split; reflexivity.
Qed.
Lemma prune_keeps_base : forall e, base_leaves (prune_empty e) = base_leaves e.
Proof.
  induction e as [a cs IH] using elem_ind2. rewrite prune_empty_node, !base_leaves_node.
  assert (G : flat_map base_leaves (prune_list cs) = flat_map base_leaves cs).
  { induction cs as [|c cs IHcs]; [reflexivity|]. inversion IH as [|? ? Hc Hcs]; subst.
    rewrite prune_list_cons. cbv zeta. cbn [flat_map]. rewrite <- Hc, <- (IHcs Hcs).
    destruct (prune_empty c) as [a' cs'] eqn:Ep. cbn [eattrs echildren].
    destruct (e_kind a') eqn:Ek; try reflexivity.
    - (* span *) destruct cs'; [|reflexivity]. rewrite base_leaves_node, Ek. reflexivity.
    - (* text *) destruct (is_nonempty (e_text a')) eqn:En; cbn [negb]; [reflexivity|].
      rewrite base_leaves_node, Ek. unfold leaf_of. rewrite Ek. destruct (e_text a'); [reflexivity | discriminate]. }
  destruct (e_kind a); try reflexivity; exact G.
Qed.
Lemma prune_list_keeps_base cs : flat_map base_leaves (prune_list cs) = flat_map base_leaves cs.
Proof.
  pose proof (prune_keeps_base (Elem (mkAttrs KDiv None None None None [] [] false [] []) cs)) as H.
  rewrite prune_empty_node, !base_leaves_node in H. exact H.
Qed.
Theorem lwsp_children_keeps_base a cs : flat_map base_leaves (lwsp_children a cs) = flat_map base_leaves cs.
Proof.
  unfold lwsp_children. rewrite prune_empty_node. cbn [echildren]. rewrite prune_list_keeps_base, assign_children_list.
  pose proof (process_lwsp_keeps (collect_children a cs)) as H. unfold collect_children in *.
  assert (Hlist : forall cs ts rest, Forall2 keeps (flat_map (collect_texts (e_preserve a)) cs) ts ->
            flat_map base_leaves (fst (assign_list cs (ts ++ rest))) = flat_map base_leaves cs).
  { clear. induction cs as [|c cs IHcs]; intros ts rest H.
    - inversion H; subst. reflexivity.
    - cbn [flat_map] in H. apply Forall2_app_inv_l in H as (ts1 & ts2 & H1 & H2 & ->).
      rewrite <- app_assoc. destruct (assign_texts_keeps_base c (e_preserve a) ts1 (ts2 ++ rest) H1) as [Hs Hr].
      cbn [assign_list]. destruct (assign_texts c (ts1 ++ ts2 ++ rest)) as [c' tsr]. cbn [fst snd] in Hs, Hr. subst tsr.
      specialize (IHcs ts2 rest H2). destruct (assign_list cs (ts2 ++ rest)) as [l'' ts2']. cbn [fst flat_map] in *.
      rewrite Hs, IHcs. reflexivity. }
  specialize (Hlist cs _ [] H). rewrite app_nil_r in Hlist. exact Hlist.
Qed.

(* ---- the per-leaf specification outside annotations ------------------------------------------------------------------------------- *)
Definition spec_rec_base (d : doc) (t : Q) (sel : option text) (dflt : attrs) (parent : interval) (inh : option text) (e : elem) : list leaf :=
  flat_map (fun c => leaf_of (last c dflt))
           (filter (fun c => chain_visible d t sel parent inh c && negb (is_annotation c)) (chains e)).
Lemma filter_andb {A} (f g : A -> bool) l : filter (fun x => f x && g x) l = filter g (filter f l).
Proof. induction l as [|x l IH]; [reflexivity|]. cbn [filter]. destruct (f x); cbn [andb filter]; [destruct (g x); rewrite IH; reflexivity | exact IH]. Qed.
Lemma filter_map_cons (g : list attrs -> bool) a X : filter g (map (cons a) X) = map (cons a) (filter (fun x => g (a :: x)) X).
Proof. induction X as [|x X IH]; [reflexivity|]. cbn [map filter]. destruct (g (a :: x)); cbn [map]; rewrite IH; reflexivity. Qed.
Lemma is_annotation_cons a x : is_annotation (a :: x) = annot_kind (e_kind a) || is_annotation x.
Proof. unfold is_annotation. cbn [existsb]. unfold annot_kind. destruct (e_kind a); reflexivity. Qed.

Lemma spec_rec_base_node d t sel dflt parent inh a cs :
  let iv := resolve parent (e_begin a) (e_end a) in
  let assoc := match e_region a with Some r => Some r | None => inh end in
  spec_rec_base d t sel dflt parent inh (Elem a cs) =
  match e_kind a with
  | KBr | KText => if head_ok d t sel iv assoc a true then leaf_of a else []
  | KRt | KRtc | KRp => []
  | _ => if head_ok d t sel iv assoc a false then flat_map (spec_rec_base d t sel dflt iv assoc) cs else []
  end.
Proof.
  intros iv assoc. unfold spec_rec_base at 1. rewrite chains_node.
  assert (Hleaf : annot_kind (e_kind a) = false ->
                  flat_map (fun c => leaf_of (last c dflt)) (filter (fun c => chain_visible d t sel parent inh c && negb (is_annotation c)) [[a]]) =
                  if head_ok d t sel iv assoc a true then leaf_of a else []).
  { intros Hk. cbn [filter chain_visible]. fold iv assoc. unfold head_ok. cbn [negb andb]. rewrite orb_false_r, andb_true_r.
    rewrite is_annotation_cons, Hk. cbn [is_annotation existsb orb negb]. rewrite andb_true_r.
    destruct (is_active t iv && otext_eqb assoc sel && displayed d t iv a); [cbn; apply app_nil_r | reflexivity]. }
  assert (Hne : forall x, In x (flat_map chains cs) -> x <> []) by (intros x Hx; apply in_flat_map in Hx as (c & _ & Hc); eapply chains_nonempty; exact Hc).
  assert (Hnode : flat_map (fun c => leaf_of (last c dflt))
                    (filter (fun c => chain_visible d t sel parent inh c && negb (is_annotation c)) (map (cons a) (flat_map chains cs))) =
                  if annot_kind (e_kind a) then []
                  else if head_ok d t sel iv assoc a false then flat_map (spec_rec_base d t sel dflt iv assoc) cs else []).
  { rewrite filter_andb, (filter_cons_chains d t sel parent inh a _ Hne). fold iv assoc.
    destruct (annot_kind (e_kind a)) eqn:Ea.
    - destruct (head_ok d t sel iv assoc a false); [|reflexivity]. rewrite filter_map_cons.
      assert (E : filter (fun x => negb (is_annotation (a :: x))) (filter (chain_visible d t sel iv assoc) (flat_map chains cs)) = []).
      { apply (proj1 (List.Forall_forall _ _) ) || idtac.
        induction (filter (chain_visible d t sel iv assoc) (flat_map chains cs)) as [|x l IHl]; [reflexivity|]. cbn [filter].
        rewrite is_annotation_cons, Ea. cbn [orb negb]. exact IHl. }
      rewrite E. reflexivity.
    - destruct (head_ok d t sel iv assoc a false); [|reflexivity]. rewrite filter_map_cons.
      assert (E : filter (fun x => negb (is_annotation (a :: x))) (filter (chain_visible d t sel iv assoc) (flat_map chains cs))
                  = filter (fun x => chain_visible d t sel iv assoc x && negb (is_annotation x)) (flat_map chains cs)).
      { rewrite filter_andb. apply filter_ext. intros x. rewrite is_annotation_cons, Ea. reflexivity. }
      rewrite E. clear E Hne.
      induction cs as [|c cs IH]; [reflexivity|]. cbn [flat_map]. rewrite filter_app, map_app, flat_map_app, IH. f_equal.
      unfold spec_rec_base. generalize (chains_nonempty c). generalize (chains c). intros X HX.
      induction X as [|x X IHX]; [reflexivity|]. cbn [filter].
      destruct (chain_visible d t sel iv assoc x && negb (is_annotation x)); [|apply IHX; intros y Hy; apply HX; right; exact Hy].
      cbn [map flat_map]. rewrite last_cons_nonempty by (apply HX; left; reflexivity). f_equal.
      apply IHX. intros y Hy. apply HX. right. exact Hy. }
  destruct (e_kind a) eqn:Ek; first [exact (Hleaf eq_refl) | exact Hnode].
Qed.

Definition base_opt (r : option elem) : list leaf := match r with Some e => base_leaves e | None => [] end.
Lemma finish_element_base a st children r :
  finish_element a st children = Ok r ->
  base_opt r = match e_kind a with KBr | KText => leaf_of a | KRt | KRtc | KRp => [] | _ => flat_map base_leaves children end.
Proof.
  unfold finish_element. intros H.
  destruct (negb (push_children_ok (e_kind a) children) && is_nonempty_l children); [discriminate|].
  set (children' := match e_kind a with
                    | KP | KRt | KRtc | KRp => match children with [] => [] | _ => lwsp_children (isd_attrs a st) children end
                    | _ => children end) in H.
  assert (Hc : flat_map base_leaves children' = flat_map base_leaves children).
  { unfold children'. destruct (e_kind a); try reflexivity; (destruct children; [reflexivity | apply lwsp_children_keeps_base]). }
  assert (Hnode : base_opt (Some (Elem (isd_attrs a (strip_inapplicable (e_kind a) st)) children')) =
                  match e_kind a with KBr | KText => leaf_of a | KRt | KRtc | KRp => [] | _ => flat_map base_leaves children end).
  { cbn [base_opt]. rewrite base_leaves_node. cbn [isd_attrs e_kind]. rewrite leaf_of_isd.
    destruct (e_kind a); try reflexivity; exact Hc. }
  destruct (keep_always (e_kind a)) eqn:Ek; [injection H as <-; exact Hnode|].
  destruct children' as [|c0 cs0] eqn:Ech.
  - assert (Hempty : flat_map base_leaves children = []) by (rewrite <- Hc; reflexivity).
    assert (Hnone : base_opt None = match e_kind a with KBr | KText => leaf_of a | KRt | KRtc | KRp => [] | _ => flat_map base_leaves children end).
    { destruct (e_kind a); try discriminate; cbn [base_opt]; try reflexivity; symmetry; exact Hempty. }
    destruct (e_kind a); try (injection H as <-; exact Hnone).
    destruct (sget (strip_inapplicable KRegion st) p_ShowBackground) as [v|]; [|injection H as <-; exact Hnone].
    destruct v; try (injection H as <-; exact Hnone).
    destruct (tag =? e_ShowBackgroundType_always); injection H as <-; [exact Hnode | exact Hnone].
  - injection H as <-. exact Hnode.
Qed.

Theorem proc_base d t sel dflt : forall e inh par pb pe r, leaf_wf e = true ->
  proc d t sel inh par pb pe e = Ok r -> base_opt r = spec_rec_base d t sel dflt (pint pb pe) inh e.
Proof.
  induction e as [a cs IH] using elem_ind2. intros inh par pb pe r Hwf H.
  rewrite leaf_wf_node in Hwf. apply andb_true_iff in Hwf as [Hwf1 Hwf2]. rewrite forallb_forall in Hwf2.
  rewrite spec_rec_base_node. cbn [proc] in H. rewrite make_absolute_pint in H.
  set (iv := resolve (pint pb pe) (e_begin a) (e_end a)) in *.
  set (assoc := match e_region a with Some r => Some r | None => inh end) in *.
  rewrite active_at_is_active in H. unfold head_ok.
  destruct (is_active t iv) eqn:Eact; cbn [negb andb] in *.
  2:{ injection H as <-. destruct (e_kind a); reflexivity. }
  rewrite oid_otext in H.
  destruct (negb (otext_eqb assoc sel) && (negb (match cs with [] => false | _ => true end) || match assoc with Some _ => true | None => false end)) eqn:Epr.
  - (* pruned by region selection *)
    injection H as <-. cbn [base_opt].
    apply andb_true_iff in Epr as [E1 E2]. apply negb_true_iff in E1. rewrite E1. cbn [orb].
    destruct (e_kind a); try reflexivity;
      (destruct assoc; [reflexivity|]; cbn [orb] in E2; rewrite orb_false_r in E2; apply negb_true_iff in E2;
       destruct cs; [cbn; destruct (displayed d t iv a); reflexivity | discriminate]).
  - destruct (style_phase d t a par iv) as [st|] eqn:Est; [|discriminate]. cbn [bind] in H.
    rewrite (style_phase_display d t a par iv st Est) in H.
    destruct (displayed d t iv a) eqn:Edisp; cbn [negb] in H.
    2:{ injection H as <-. rewrite !andb_false_r. destruct (e_kind a); reflexivity. }
    match type of H with bind ?g _ = _ => destruct g as [children|] eqn:Eg end; [|discriminate]. cbn [bind] in H.
    apply finish_element_base in H. rewrite H. rewrite !andb_true_r.
    assert (Hch : flat_map base_leaves children = flat_map (spec_rec_base d t sel dflt iv assoc) cs).
    { clear H Epr Hwf1. revert children Eg. induction cs as [|c cs IHcs]; intros children Eg.
      - injection Eg as <-. reflexivity.
      - inversion IH as [|? ? Hc Hcs]; subst.
        destruct (proc d t sel assoc (Some (e_kind a, st)) (Some (fst iv)) (snd iv) c) as [rc|] eqn:Ec; [|discriminate]. cbn [bind] in Eg.
        match type of Eg with bind ?g _ = _ => destruct g as [rs|] eqn:Er end; [|discriminate]. cbn [bind] in Eg. injection Eg as <-.
        specialize (Hc _ _ _ _ _ (Hwf2 c (or_introl eq_refl)) Ec).
        assert (Hwf2' : forall x, In x cs -> leaf_wf x = true) by (intros x Hx; apply Hwf2; right; exact Hx).
        specialize (IHcs Hcs Hwf2' rs eq_refl). cbn [flat_map].
        assert (Hp : pint (Some (fst iv)) (snd iv) = iv) by (destruct iv; reflexivity). rewrite Hp in Hc.
        rewrite <- Hc, <- IHcs. destruct rc; reflexivity. }
    destruct (e_kind a) eqn:Ek.
    all: try reflexivity.
    all: try (rewrite Hch; destruct cs as [|c0 cs0];
              [ cbn [flat_map]; match goal with |- _ = (if ?b then _ else _) => destruct b end; reflexivity
              | rewrite (sel_bool _ _ Epr); reflexivity ]).
    all: (destruct cs; [|discriminate Hwf1]; cbn [negb orb andb] in Epr; rewrite andb_true_r in Epr; apply negb_false_iff in Epr;
          rewrite Epr; reflexivity).
Qed.

(* ---- a whole region, the snapshot ----------------------------------------------------------------------------------------------------- *)
Definition base_spec (d : doc) (t : Q) (r : attrs) (sel : option text) : list leaf :=
  let riv := resolve root_interval (e_begin r) (e_end r) in
  if is_active t riv && displayed d t riv r then
    match d_body d with
    | None => []
    | Some b => flat_map (fun c => leaf_of (last c r))
                         (filter (fun c => chain_visible d t sel root_interval None c && negb (is_annotation c)) (chains b))
    end
  else [].
Theorem region_base d t sel r res :
  e_kind (eattrs r) = KRegion ->
  match d_body d with Some b => leaf_wf b = true | None => True end ->
  proc_region d t sel r = Ok res -> base_opt res = base_spec d t (eattrs r) sel.
Proof.
  intros Hk Hwf H. unfold proc_region in H. rewrite make_absolute_pint in H. unfold base_spec.
  change (pint None None) with root_interval in H.
  set (a := eattrs r) in *. set (iv := resolve root_interval (e_begin a) (e_end a)) in *.
  rewrite active_at_is_active in H. destruct (is_active t iv); cbn [negb andb] in *; [|injection H as <-; reflexivity].
  destruct (style_phase d t a None iv) as [st|] eqn:Est; [|discriminate]. cbn [bind] in H.
  rewrite (style_phase_display d t a None iv st Est) in H.
  destruct (displayed d t iv a); cbn [negb] in H; [|injection H as <-; reflexivity].
  destruct (d_body d) as [b|].
  - destruct (proc d t sel None (Some (KRegion, st)) None None b) as [rb|] eqn:Eb; [|discriminate]. cbn [bind] in H.
    apply finish_element_base in H. rewrite H, Hk.
    pose proof (proc_base d t sel a b None _ None None rb Hwf Eb) as Hb. change (pint None None) with root_interval in Hb.
    unfold spec_rec_base in Hb. rewrite <- Hb.
    destruct rb; cbn [flat_map base_opt]; rewrite ?app_nil_r; reflexivity.
  - cbn [bind] in H. apply finish_element_base in H. rewrite H, Hk. reflexivity.
Qed.
Theorem isd_base d t rs :
  Forall (fun r => e_kind (eattrs r) = KRegion) (d_regions d) ->
  match d_body d with Some b => leaf_wf b = true | None => True end ->
  isd d t = Ok rs ->
  flat_map base_leaves rs = flat_map (fun r => base_spec d t (eattrs r) (region_sel d r)) (doc_regions d).
Proof.
  intros Hk Hwf H. unfold isd in H.
  assert (G : forall (l : list elem) (sel : elem -> option text) rs0,
              Forall (fun r => e_kind (eattrs r) = KRegion) l ->
              collect_regions (map (fun r => proc_region d t (sel r) r) l) = Ok rs0 ->
              flat_map base_leaves rs0 = flat_map (fun r => base_spec d t (eattrs r) (sel r)) l).
  { induction l as [|r l IH]; intros sel rs0 Hl Hc; cbn [map collect_regions] in Hc.
    - injection Hc as <-. reflexivity.
    - inversion Hl as [|? ? Hr Hl']; subst.
      destruct (proc_region d t (sel r) r) as [o|] eqn:Ep; [|discriminate]. cbn [bind] in Hc.
      destruct (collect_regions (map (fun r0 => proc_region d t (sel r0) r0) l)) as [xs|] eqn:Ex; [|discriminate]. cbn [bind] in Hc.
      injection Hc as <-. cbn [flat_map]. rewrite <- (IH sel xs Hl' Ex), <- (region_base d t (sel r) r o Hr Hwf Ep).
      destruct o; reflexivity. }
  unfold doc_regions, region_sel. destruct (d_regions d) as [|r0 l0] eqn:Er.
  - change [proc_region d t None default_region] with (map (fun r => proc_region d t ((fun _ => None) r) r) [default_region]) in H.
    apply (G [default_region] (fun _ => None) rs); [constructor; [reflexivity | constructor] | exact H].
  - apply (G (r0 :: l0) (fun r => e_id (eattrs r)) rs Hk H).
Qed.

(* ---- S to S: `vis false` holds exactly the non-blank characters of these leaves ------------------------------------------------------- *)
Lemma group_toks_base d t r sel : forall g, (forall c, In c g -> c <> []) ->
  tok_chars (flat_map chain_toks (filter (fun c => chain_visible d t sel root_interval None c && (false || negb (is_annotation c))) g)) =
  nb (flat_map leaf_chars (flat_map (fun c => leaf_of (last c r)) (filter (fun c => chain_visible d t sel root_interval None c && negb (is_annotation c)) g))).
Proof.
  induction g as [|c g IHg]; intros Hg; [reflexivity|]. cbn [filter orb].
  destruct (chain_visible d t sel root_interval None c && negb (is_annotation c)).
  - cbn [flat_map]. rewrite tok_chars_app, flat_map_app, nb_app, (chain_toks_leaf r c (Hg c (or_introl eq_refl))). f_equal.
    apply IHg. intros c' Hc'. apply Hg. right. exact Hc'.
  - apply IHg. intros c' Hc'. apply Hg. right. exact Hc'.
Qed.
Theorem region_toks_base d t r sel :
  match d_body d with Some b => leaves_in_p b = true | None => True end ->
  tok_chars (region_toks false d t r sel) = nb (flat_map leaf_chars (base_spec d t r sel)).
Proof.
  intros Hb. unfold region_toks, base_spec.
  destruct (is_active t (resolve root_interval (e_begin r) (e_end r)) && displayed d t (resolve root_interval (e_begin r) (e_end r)) r); [|reflexivity].
  destruct (d_body d) as [b|]; [|reflexivity].
  assert (Hcn : forall c, In c (concat (pgroups b)) -> c <> []) by (rewrite (pgroups_chains b Hb); apply chains_nonempty).
  rewrite <- (pgroups_chains b Hb), filter_concat. revert Hcn. generalize (pgroups b). intros G Hcn.
  assert (Hcn' : forall g c, In g G -> In c g -> c <> []) by (intros g c Hg Hc; apply Hcn, in_concat; exists g; split; assumption).
  clear Hcn. induction G as [|g G IH]; [reflexivity|]. cbn [flat_map map concat].
  rewrite !tok_chars_app, !flat_map_app, nb_app. cbn [tok_chars flat_map app]. rewrite app_nil_r.
  rewrite IH by (intros g' c Hg' Hc; apply (Hcn' g' c); [right; exact Hg' | exact Hc]). f_equal.
  apply group_toks_base. intros c Hc. apply (Hcn' g c); [left; reflexivity | exact Hc].
Qed.
Theorem vis_base d t :
  match d_body d with Some b => leaves_in_p b = true | None => True end ->
  tok_chars (vis false d t) = nb (flat_map leaf_chars (flat_map (fun r => base_spec d t (eattrs r) (region_sel d r)) (doc_regions d))).
Proof.
  intros Hb. unfold vis, spec_regions, doc_regions, region_sel. destruct (d_regions d) as [|r0 l0].
  - cbn [flat_map]. rewrite !app_nil_r, tok_chars_app. cbn [tok_chars flat_map app]. rewrite app_nil_r.
    apply (region_toks_base d t spec_default_region None Hb).
  - generalize (r0 :: l0). intros l. induction l as [|r l IH]; [reflexivity|]. cbn [map flat_map fst snd].
    rewrite !tok_chars_app, flat_map_app, nb_app, IH. cbn [tok_chars flat_map app]. rewrite app_nil_r. f_equal. apply (region_toks_base d t (eattrs r) _ Hb).
Qed.

(* C06, end to end for an (uncached) snapshot, ruby included: what the writers put into the cues of the snapshot at t is the visible
   text Spec/CueSpec.v prescribes for t under the reading "annotation text is not part of the payload" *)
Theorem srt_snapshot_base d t fmt b en n regions cs n' :
  Forall (fun r => e_kind (eattrs r) = KRegion) (d_regions d) ->
  match d_body d with Some bd => leaf_wf bd = true /\ leaves_in_p bd = true | None => True end ->
  isd d t = Ok regions -> snapshot_shape regions = true -> srt_sees_all (apply_filters srt_filters regions) = true ->
  srt_add_isd fmt b en (apply_filters srt_filters regions) n = (cs, n') ->
  visc (flat_map Model.CueTriggers.cue_chars cs) = visc (tok_chars (vis false d t)).
Proof.
  intros Hk Hb Hi Hs Hok Hc.
  assert (Hb1 : match d_body d with Some bd => leaf_wf bd = true | None => True end) by (destruct (d_body d); [apply Hb | exact I]).
  assert (Hb2 : match d_body d with Some bd => leaves_in_p bd = true | None => True end) by (destruct (d_body d); [apply Hb | exact I]).
  rewrite (vis_base d t Hb2), visc_nb, <- (isd_base d t regions Hk Hb1 Hi).
  destruct (Proofs.C06.Loop.srt_add_isd_spec fmt b en _ n cs n' Hc) as [_ H]. rewrite (H Hok).
  destruct srt_filters_form as (c0 & d0 & Hf). rewrite Hf, (filters_preserve_base true c0 d0 regions Hs).
  unfold base_text, sel_text. rewrite <- (flat_map_flat_map (sel_leaves annot_kind) leaf_chars). reflexivity.
Qed.
Theorem vtt_snapshot_base d t cfg fs b en st regions cs st' :
  Forall (fun r => e_kind (eattrs r) = KRegion) (d_regions d) ->
  match d_body d with Some bd => leaf_wf bd = true /\ leaves_in_p bd = true | None => True end ->
  vtt_filters cfg = Some fs -> isd d t = Ok regions -> snapshot_shape regions = true -> vtt_sees_all (apply_filters fs regions) = true ->
  vtt_regions cfg b en (apply_filters fs regions) st = Ok (cs, st') ->
  visc (flat_map Model.CueTriggers.cue_chars cs) = visc (tok_chars (vis false d t)).
Proof.
  intros Hk Hb Hfs Hi Hs Hok Hc.
  assert (Hb1 : match d_body d with Some bd => leaf_wf bd = true | None => True end) by (destruct (d_body d); [apply Hb | exact I]).
  assert (Hb2 : match d_body d with Some bd => leaves_in_p bd = true | None => True end) by (destruct (d_body d); [apply Hb | exact I]).
  rewrite (vis_base d t Hb2), visc_nb, <- (isd_base d t regions Hk Hb1 Hi).
  destruct (Proofs.C06.Loop.vtt_add_isd_spec cfg b en _ st cs st' Hc) as [_ H]. rewrite (H Hok).
  destruct (vtt_filters_form cfg fs Hfs) as (c0 & d0 & Hf). rewrite Hf, (filters_preserve_base _ c0 d0 regions Hs).
  unfold base_text, sel_text. rewrite <- (flat_map_flat_map (sel_leaves annot_kind) leaf_chars). reflexivity.
Qed.
