(* C06: what the writers put into a cue is the text of the snapshot leaves they walk over, outside ruby annotations (`base_text`:
   ruby base text is carried, the text below rt / rtc / rp is not) — nothing dropped, invented, repeated or reordered — as long as
   their dispatch (Div / P, then Span / Ruby / Rbc / Rb / Br / Text) meets no element that it has no case for and that holds
   text (the executable predicates `inline_ok`, `srt_block_ok`; they hold for every snapshot of a document that follows the
   content model of model.py: Proofs/C06/Content.v).
   Characters are compared through `visc`: the characters that are not white space (str.isspace). *)
From TT Require Import Model.Doc Gen.StyleTables Model.Isd Model.SigTimes Model.TimeCode Model.IsdFilters Gen.CueTables Model.CueWriter.
From TT Require Import Model.CueTriggers Spec.IsdSpec Proofs.Common.ElemInd Proofs.C01.Lwsp Proofs.C06.Filters.

Definition visible (c : Z) : bool := negb (py_isspace c).
Definition visc (t : text) : text := filter visible t.

Lemma visc_app a b : visc (a ++ b) = visc a ++ visc b.
Proof. apply filter_app. Qed.
Lemma visc_flat_map {A} (f : A -> text) l : visc (flat_map f l) = flat_map (fun x => visc (f x)) l.
Proof. induction l as [|x l IH]; [reflexivity|]. cbn [flat_map]. rewrite visc_app, IH. reflexivity. Qed.

Lemma space_is_pyspace c : is_space c = true -> py_isspace c = true.
Proof.
  unfold is_space. intros H. repeat (apply orb_true_iff in H as [H|H]); apply Z.eqb_eq in H; subst c; reflexivity.
Qed.
Lemma visc_nonspace t : visc (nonspace t) = visc t.
Proof.
  induction t as [|c t IH]; [reflexivity|]. unfold nonspace, visc in *. cbn [filter].
  destruct (is_space c) eqn:E; cbn [negb].
  - unfold visible at 2. rewrite (space_is_pyspace c E). cbn [negb]. exact IH.
  - cbn [filter]. destruct (visible c); [f_equal|]; exact IH.
Qed.

(* ---- items --------------------------------------------------------------------------------------------------------- *)
Lemma chars_of_app a b : chars_of (a ++ b) = chars_of a ++ chars_of b.
Proof. apply flat_map_app. Qed.
Lemma chars_of_chr t : chars_of (map IChr t) = t.
Proof. induction t as [|c t IH]; [reflexivity|]. cbn [map chars_of flat_map app]. unfold chars_of in IH. rewrite IH. reflexivity. Qed.
Lemma chars_of_flat_map {A} (f : A -> list item) l : chars_of (flat_map f l) = flat_map (fun x => chars_of (f x)) l.
Proof. induction l as [|x l IH]; [reflexivity|]. cbn [flat_map]. rewrite chars_of_app, IH. reflexivity. Qed.
Definition is_tag (i : item) : bool := match i with ITag _ => true | IChr _ => false end.
Lemma chars_of_tags l : forallb is_tag l = true -> chars_of l = [].
Proof. induction l as [|[t|c] l IH]; intros H; [reflexivity | apply IH, H | discriminate]. Qed.

(* ---- inline content ------------------------------------------------------------------------------------------------- *)
Definition is_nil {A} (l : list A) : bool := match l with [] => true | _ => false end.
Lemma is_nil_eq {A} (l : list A) : is_nil l = true -> l = [].
Proof. destruct l; [reflexivity | discriminate]. Qed.

(* the inline dispatch of both writers: Span, Ruby, Rbc, Rb (recursively), Br, Text; the annotations Rt, Rtc, Rp are left out on
   purpose; anything else must hold no text *)
Definition descends (k : kind) : bool := match k with KSpan | KRuby | KRbc | KRb => true | _ => false end.
Fixpoint inline_ok (e : elem) : bool :=
  match e with
  | Elem a cs =>
      match e_kind a with
      | KSpan | KRuby | KRbc | KRb => (fix go (l : list elem) : bool := match l with [] => true | c :: l' => inline_ok c && go l' end) cs
      | KBr | KText | KRt | KRtc | KRp => true
      | _ => is_nil (base_text e)
      end
  end.
Lemma inline_ok_node a cs :
  inline_ok (Elem a cs) = match e_kind a with
                          | KSpan | KRuby | KRbc | KRb => forallb inline_ok cs
                          | KBr | KText | KRt | KRtc | KRp => true
                          | _ => is_nil (base_text (Elem a cs))
                          end.
Proof. cbn [inline_ok]. destruct (e_kind a); reflexivity. Qed.

Lemma base_text_node a cs :
  base_text (Elem a cs) = match e_kind a with
                          | KBr | KRt | KRtc | KRp => []
                          | KText => nonspace (e_text a)
                          | _ => flat_map base_text cs
                          end.
Proof. unfold base_text. rewrite sel_text_node. destruct (e_kind a); reflexivity. Qed.
Lemma leaves_text_node a cs :
  leaves_text (Elem a cs) = match e_kind a with
                            | KBr => []
                            | KText => nonspace (e_text a)
                            | _ => flat_map leaves_text cs
                            end.
Proof.
  rewrite <- sel_text_none, sel_text_node. unfold sk_none.
  destruct (e_kind a); try reflexivity; (apply flat_map_ext_in; intros c _; apply sel_text_none).
Qed.

(* the characters of the SubRip inline output *)
Lemma srt_inline_node fmt a cs :
  chars_of (srt_inline fmt (Elem a cs)) =
  match e_kind a with
  | KSpan | KRuby | KRbc | KRb => flat_map (fun c => chars_of (srt_inline fmt c)) cs
  | KBr => [10]
  | KText => e_text a
  | _ => []
  end.
Proof.
  assert (G : chars_of ((fix go (l : list elem) : list item := match l with [] => [] | c :: l' => srt_inline fmt c ++ go l' end) cs)
              = flat_map (fun c => chars_of (srt_inline fmt c)) cs).
  { induction cs as [|c cs IH]; [reflexivity|]. rewrite chars_of_app, IH. reflexivity. }
  cbn [srt_inline]. destruct (e_kind a); try reflexivity; try exact G.
  - (* span *)
    rewrite !chars_of_app, G.
    assert (T1 : forall (b : bool) (x : list item), forallb is_tag x = true -> chars_of (if b then x else []) = [])
      by (intros [|] x Hx; [apply chars_of_tags, Hx | reflexivity]).
    rewrite !T1; [rewrite app_nil_r; reflexivity | |].
    all: repeat (rewrite forallb_app; apply andb_true_iff; split);
      repeat match goal with |- context [if ?b then _ else _] => destruct b end;
      repeat match goal with |- context [match ?o with Some _ => _ | None => _ end] => destruct o end; reflexivity.
  - (* text *) apply chars_of_chr.
Qed.

Theorem srt_inline_text fmt : forall e, inline_ok e = true -> visc (chars_of (srt_inline fmt e)) = visc (base_text e).
Proof.
  induction e as [a cs IH] using elem_ind2. intros H. rewrite srt_inline_node, base_text_node. rewrite inline_ok_node in H.
  assert (G : forallb inline_ok cs = true ->
              visc (flat_map (fun c => chars_of (srt_inline fmt c)) cs) = visc (flat_map base_text cs)).
  { intros Hc. rewrite !visc_flat_map. apply flat_map_ext_in. intros c Hin. rewrite Forall_forall in IH. apply IH; [exact Hin|].
    rewrite forallb_forall in Hc. apply Hc, Hin. }
  destruct (e_kind a) eqn:Ek.
  all: try (apply G, H).
  all: try reflexivity.
  all: try (rewrite base_text_node, Ek in H; rewrite (is_nil_eq _ H); reflexivity).
  (* text *) symmetry. apply visc_nonspace.
Qed.
(* ... and every visible character it writes is a character of the base text, whatever the element *)
Lemma srt_inline_sub fmt x : visible x = true -> forall e, In x (chars_of (srt_inline fmt e)) -> In x (base_text e).
Proof.
  intros Hx. induction e as [a cs IH] using elem_ind2. rewrite srt_inline_node, base_text_node.
  assert (G : In x (flat_map (fun c => chars_of (srt_inline fmt c)) cs) -> In x (flat_map base_text cs)).
  { intros H. apply in_flat_map in H as (c & Hc & H). apply in_flat_map. exists c. split; [exact Hc|].
    rewrite Forall_forall in IH. apply IH; assumption. }
  destruct (e_kind a); try exact G; try (intros []; fail).
  - (* br *) intros [<-|[]]. discriminate Hx.
  - (* text *) intros H. unfold nonspace. apply filter_In. split; [exact H|].
    destruct (is_space x) eqn:E; [|reflexivity]. unfold visible in Hx. rewrite (space_is_pyspace x E) in Hx. discriminate.
Qed.

(* the WebVTT inline output has the same characters, whatever the CSS class registry holds *)
Lemma vtt_inlines_chars : forall l s,
  (forall c, In c l -> forall s, chars_of (fst (vtt_inline c s)) = chars_of (srt_inline false c)) ->
  chars_of (fst (vtt_inlines l s)) = flat_map (fun c => chars_of (srt_inline false c)) l.
Proof.
  induction l as [|c l IH]; intros s H; [reflexivity|]. cbn [vtt_inlines].
  destruct (vtt_inline c s) as [x sa] eqn:Ec. destruct (vtt_inlines l sa) as [y sb] eqn:El. cbn [fst flat_map].
  rewrite chars_of_app. f_equal.
  - specialize (H c (or_introl eq_refl) s). rewrite Ec in H. exact H.
  - specialize (IH sa (fun c' Hc' => H c' (or_intror Hc'))). rewrite El in IH. exact IH.
Qed.
Lemma vtt_inline_go_eq cs : forall s,
  (fix go (l : list elem) (s : css_state) : list item * css_state :=
     match l with
     | [] => ([], s)
     | c :: l' => let '(x, sa) := vtt_inline c s in let '(y, sb) := go l' sa in (x ++ y, sb)
     end) cs s = vtt_inlines cs s.
Proof.
  induction cs as [|c cs IH]; intros s; [reflexivity|]. cbn [vtt_inlines]. destruct (vtt_inline c s) as [x sa]. rewrite IH. reflexivity.
Qed.
Theorem vtt_inline_chars : forall e s, chars_of (fst (vtt_inline e s)) = chars_of (srt_inline false e).
Proof.
  induction e as [a cs IH] using elem_ind2. intros s. rewrite srt_inline_node. cbn [vtt_inline].
  assert (G : forall s0, chars_of (fst (vtt_inlines cs s0)) = flat_map (fun c => chars_of (srt_inline false c)) cs).
  { intros s0. rewrite Forall_forall in IH. apply vtt_inlines_chars. exact IH. }
  destruct (e_kind a); try reflexivity; try (rewrite vtt_inline_go_eq; apply G).
  - (* span *)
    rewrite vtt_inline_go_eq.
    match goal with |- context [vtt_inlines cs ?s0] => pose proof (G s0) as G0; destruct (vtt_inlines cs s0) as [inner s3] end.
    cbn [fst] in *. rewrite !chars_of_app, G0.
    destruct (get_color_of a p_Color), (get_color_of a p_BackgroundColor), (is_element_bold a), (is_element_italic a),
      (is_element_underlined a); cbn [chars_of flat_map app]; rewrite ?app_nil_r; reflexivity.
  - (* text *) cbn [fst]. apply chars_of_chr.
Qed.
Corollary vtt_inlines_text l s : forallb inline_ok l = true -> visc (chars_of (fst (vtt_inlines l s))) = visc (flat_map base_text l).
Proof.
  intros H. rewrite vtt_inlines_chars by (intros c _ s'; apply vtt_inline_chars).
  rewrite !visc_flat_map. apply flat_map_ext_in. intros c Hc. apply srt_inline_text. rewrite forallb_forall in H. apply H, Hc.
Qed.

(* ---- white-space-only paragraphs show nothing ------------------------------------------------------------------------ *)
Lemma collapse_lf_ws : forall t, only_whitespace (collapse_lf t) = only_whitespace t.
Proof.
  induction t as [|c t IH]; [reflexivity|]. cbn [collapse_lf].
  destruct ((c =? 10) && match t with d :: _ => d =? 10 | [] => false end) eqn:E.
  - rewrite IH. apply andb_true_iff in E as [E _]. apply Z.eqb_eq in E. subst c. reflexivity.
  - unfold only_whitespace in *. cbn [forallb]. rewrite IH. reflexivity.
Qed.
Lemma eol_is_pyspace c : is_eol c = true -> py_isspace c = true.
Proof. unfold is_eol. intros H. apply orb_true_iff in H as [H|H]; apply Z.eqb_eq in H; subst c; reflexivity. Qed.
Lemma drop_while_ws : forall t, only_whitespace (drop_while is_eol t) = only_whitespace t.
Proof.
  induction t as [|c t IH]; [reflexivity|]. cbn [drop_while]. destruct (is_eol c) eqn:E; [|reflexivity].
  rewrite IH. unfold only_whitespace. cbn [forallb]. rewrite (eol_is_pyspace c E). reflexivity.
Qed.
Lemma only_whitespace_rev t : only_whitespace (rev t) = only_whitespace t.
Proof.
  unfold only_whitespace. induction t as [|c t IH]; [reflexivity|]. cbn [rev forallb]. rewrite forallb_app, IH. cbn [forallb].
  rewrite andb_true_r. apply andb_comm.
Qed.
Lemma normalize_eol_ws t : only_whitespace (normalize_eol t) = only_whitespace t.
Proof.
  unfold normalize_eol, strip_eol. rewrite only_whitespace_rev, drop_while_ws, only_whitespace_rev, drop_while_ws. apply collapse_lf_ws.
Qed.

(* white space in, white space out: the escapes of WebVTT are not white space *)
Definition esc_ws (esc : Z -> text) : Prop := forall c, only_whitespace (esc c) = py_isspace c.
Lemma esc_none_ws : esc_ws esc_none.
Proof. intros c. unfold esc_none, only_whitespace. cbn [forallb]. apply andb_true_r. Qed.
Lemma esc_vtt_ws : esc_ws esc_vtt.
Proof.
  intros c. unfold esc_vtt. destruct (c =? 38) eqn:E1; [apply Z.eqb_eq in E1; subst c; reflexivity|].
  destruct (c =? 60) eqn:E2; [apply Z.eqb_eq in E2; subst c; reflexivity|]. unfold only_whitespace. cbn [forallb]. apply andb_true_r.
Qed.
Lemma only_whitespace_app a b : only_whitespace (a ++ b) = only_whitespace a && only_whitespace b.
Proof. apply forallb_app. Qed.
Lemma only_whitespace_esc esc : esc_ws esc -> forall t, only_whitespace (flat_map esc t) = only_whitespace t.
Proof.
  intros He. induction t as [|c t IH]; [reflexivity|]. cbn [flat_map]. rewrite only_whitespace_app, IH, He. reflexivity.
Qed.
Lemma only_whitespace_visc t : only_whitespace t = true <-> visc t = [].
Proof.
  unfold only_whitespace, visc. induction t as [|c t IH]; [split; reflexivity|]. cbn [forallb filter]. unfold visible at 1.
  destruct (py_isspace c); cbn [negb andb]; [exact IH | split; discriminate].
Qed.
