(* C05, time expressions written by the IMSC writer and read back by the IMSC reader:
   frames syntax  "Nf" with N = ceil(t * fps): read back as N / fps, which is t when t is a whole number of frames, else
   later than t by less than one frame, and monotone in t;
   clock time "hh:mm:ss.mmm": a millisecond multiple below 100 h is read back exactly. *)
From TT Require Import Base.Prelude Base.ImscXml Model.ImscTime Model.TimeCode Model.ImscWrite Spec.TtmlTimingSpec.
From TT Require Import Proofs.C04.TimeSyntax Proofs.C12.Derived.
From Coq Require Import QArith Qabs Lqa.
Local Open Scope Z_scope.

(* ---- decimal digits of a natural number ------------------------------------------------------------------ *)
Fixpoint le_val (l : list Z) : Z := match l with [] => 0 | d :: l' => d + 10 * le_val l' end.

Lemma digits_rev_ok fuel : forall n, 0 <= n < 2 ^ Z.of_nat fuel ->
  le_val (digits_rev fuel n) = n /\ Forall (fun d => 0 <= d <= 9) (digits_rev fuel n).
Proof.
  induction fuel as [|k IH]; intros n H.
  - simpl in H. assert (n = 0) by lia. subst. split; [reflexivity|constructor].
  - cbn [digits_rev]. destruct (n <? 10) eqn:E.
    + split; [simpl; lia|]. constructor; [lia|constructor].
    + assert (Hk : 0 <= n / 10 < 2 ^ Z.of_nat k).
      { rewrite Nat2Z.inj_succ, Z.pow_succ_r in H by lia. split; [apply Z.div_pos; lia|].
        apply Z.div_lt_upper_bound; lia. }
      destruct (IH _ Hk) as [H1 H2]. split.
      * cbn [le_val]. rewrite H1. pose proof (Z.div_mod n 10 ltac:(lia)). lia.
      * constructor; [|exact H2]. pose proof (Z.mod_pos_bound n 10 ltac:(lia)). lia.
Qed.

Lemma nat_of_rev l : nat_of (rev l) = le_val l.
Proof.
  unfold nat_of. induction l as [|d l IH]; [reflexivity|].
  cbn [rev]. rewrite fold_left_app. cbn [fold_left le_val]. rewrite IH. lia.
Qed.

Lemma log2_bound n : 0 <= n -> n < 2 ^ Z.of_nat (S (Z.to_nat (Z.log2 n))).
Proof.
  intro H. destruct (Z.eq_dec n 0) as [->|Hn]; [simpl; lia|].
  rewrite Nat2Z.inj_succ, Z2Nat.id by apply Z.log2_nonneg.
  apply Z.log2_spec. lia.
Qed.

Lemma nat_digits_ok n : 0 <= n ->
  nat_of (nat_digits n) = n /\ all_dec (nat_digits n) = true /\ is_nonempty_l (nat_digits n) = true.
Proof.
  intro H. unfold nat_digits.
  destruct (digits_rev_ok (S (Z.to_nat (Z.log2 n))) n (conj H (log2_bound n H))) as [H1 H2].
  split; [rewrite nat_of_rev; exact H1|]. split.
  - unfold all_dec. apply forallb_forall. intros d Hd. apply in_rev in Hd.
    rewrite Forall_forall in H2. specialize (H2 d Hd). unfold is_dec. lia.
  - cbn [digits_rev]. destruct (n <? 10); [reflexivity|].
    cbn [rev]. destruct (rev (digits_rev (Z.to_nat (Z.log2 n)) (n / 10)) ++ [n mod 10]) eqn:E; [|reflexivity].
    apply (f_equal (@length Z)) in E. rewrite app_length in E. simpl in E. lia.
Qed.

Lemma print_nat_chrs n : print_nat n = chrs (nat_digits n).
Proof. reflexivity. Qed.

(* ---- frames syntax ---------------------------------------------------------------------------------------------- *)
Definition frames_of (t fps : Q) : Z := let q := (t * fps)%Q in ceil_div (Qnum q) (Zpos (Qden q)).

Lemma ceil_div_spec n d : 0 < d -> let c := ceil_div n d in (c - 1) * d < n <= c * d.
Proof.
  intro Hd. unfold ceil_div. cbv zeta.
  pose proof (Z.div_mod (- n) d ltac:(lia)) as E. pose proof (Z.mod_pos_bound (- n) d Hd) as B.
  set (q := - n / d) in *. set (r := (- n) mod d) in *. clearbody q r.
  replace ((- q - 1) * d) with (- (d * q) - d) by ring. replace (- q * d) with (- (d * q)) by ring. lia.
Qed.

Lemma frames_nonneg t fps : (0 <= t)%Q -> (0 < fps)%Q -> 0 <= frames_of t fps.
Proof.
  intros Ht Hf. unfold frames_of. set (q := (t * fps)%Q).
  assert (Hq : (0 <= q)%Q) by (unfold q; apply Qmult_le_0_compat; [exact Ht|apply Qlt_le_weak; exact Hf]).
  clearbody q.
  pose proof (ceil_div_spec (Qnum q) (Zpos (Qden q)) ltac:(lia)) as Hc. cbv zeta in Hc.
  unfold Qle in Hq. simpl in Hq. set (c := ceil_div (Qnum q) (Zpos (Qden q))) in *. clearbody c.
  destruct (Z_lt_le_dec c 0) as [Hneg|]; [|assumption]. exfalso.
  assert (c * Zpos (Qden q) <= -1 * Zpos (Qden q)) by (apply Z.mul_le_mono_nonneg_r; lia). lia.
Qed.

(* the written string and its value when read back *)
Theorem time_frames t fps tr :
  (0 <= t)%Q -> (0 < fps)%Q ->
  exists s, to_time_format SyFrames (Some fps) t = Some s /\
            exists q, parse_time_x tr (Some fps) s = TVal q /\ (q == inject_Z (frames_of t fps) / fps)%Q.
Proof.
  intros Ht Hf. unfold to_time_format.
  assert (Hn : Qnum t <? 0 = false). { unfold Qle in Ht. simpl in Ht. lia. }
  rewrite Hn. eexists. split; [reflexivity|].
  fold (frames_of t fps). pose proof (frames_nonneg t fps Ht Hf) as HN.
  unfold print_int. replace (frames_of t fps <? 0) with false by lia.
  destruct (nat_digits_ok _ HN) as [H1 [H2 H3]].
  change (print_nat (frames_of t fps) ++ [102]) with (print_time (TOffset (nat_digits (frames_of t fps)) [] Mf)).
  rewrite pt_f by (try assumption; try reflexivity; apply Qeq_bool_pos_false; exact Hf).
  eexists. split; [reflexivity|].
  rewrite (dec_value_number (nat_digits (frames_of t fps)) []). unfold number. rewrite H1. simpl nat_of.
  unfold Qdiv. setoid_replace (0 # ten_to (length (@nil Z)))%Q with 0%Q by reflexivity. ring.
Qed.

Lemma ceil_q (p : Q) :
  let c := ceil_div (Qnum p) (Zpos (Qden p)) in (inject_Z c - 1 < p)%Q /\ (p <= inject_Z c)%Q.
Proof.
  destruct p as [n d]. cbv zeta. cbn [Qnum Qden].
  pose proof (ceil_div_spec n (Zpos d) ltac:(lia)) as Hc. cbv zeta in Hc.
  set (c := ceil_div n (Zpos d)) in *. clearbody c.
  unfold Qlt, Qle, Qminus, Qplus, Qopp, inject_Z. cbn [Qnum Qden]. split; lia.
Qed.

(* the frame count is the least integer not below t * fps: never earlier, later by less than one frame, exact on whole frames *)
Theorem frames_error t fps : (0 < fps)%Q ->
  let q := (inject_Z (frames_of t fps) / fps)%Q in (t <= q)%Q /\ (q - t < 1 / fps)%Q.
Proof.
  intro Hf. cbv zeta. unfold frames_of.
  destruct (ceil_q (t * fps)%Q) as [H2 H1]. cbv zeta in H1, H2.
  set (c := inject_Z (ceil_div (Qnum (t * fps)%Q) (Zpos (Qden (t * fps)%Q)))) in *. clearbody c.
  assert (Hi : (0 < / fps)%Q) by (apply Qinv_lt_0_compat; exact Hf).
  assert (Hfi : (fps * / fps == 1)%Q) by (apply Qmult_inv_r; lra).
  unfold Qdiv. set (i := (/ fps)%Q) in *. clearbody i.
  assert (Ht : (t * fps * i == t)%Q) by (rewrite <- Qmult_assoc, Hfi; ring).
  assert (Ha : (t * fps * i <= c * i)%Q) by (apply Qmult_le_compat_r; lra).
  assert (Hb : ((c - 1) * i < t * fps * i)%Q) by (apply Qmult_lt_compat_r; lra).
  split; lra.
Qed.

Theorem frames_exact k fps : (0 < fps)%Q -> frames_of (inject_Z k / fps) fps = k.
Proof.
  intro Hf. unfold frames_of.
  destruct (ceil_q (inject_Z k / fps * fps)%Q) as [H2 H1]. cbv zeta in H1, H2.
  set (c := ceil_div (Qnum (inject_Z k / fps * fps)%Q) (Zpos (Qden (inject_Z k / fps * fps)%Q))) in *. clearbody c.
  assert (Hp : (inject_Z k / fps * fps == inject_Z k)%Q) by (field; lra).
  rewrite Hp in H1, H2.
  unfold Qlt, Qle, Qminus, Qplus, Qopp, inject_Z in H1, H2. cbn [Qnum Qden] in H1, H2. lia.
Qed.

Theorem frames_monotone t1 t2 fps : (0 < fps)%Q -> (t1 <= t2)%Q -> frames_of t1 fps <= frames_of t2 fps.
Proof.
  intros Hf Ht. unfold frames_of.
  destruct (ceil_q (t1 * fps)%Q) as [A2 A1]. destruct (ceil_q (t2 * fps)%Q) as [B2 B1]. cbv zeta in A1, A2, B1, B2.
  set (c1 := ceil_div (Qnum (t1 * fps)%Q) (Zpos (Qden (t1 * fps)%Q))) in *.
  set (c2 := ceil_div (Qnum (t2 * fps)%Q) (Zpos (Qden (t2 * fps)%Q))) in *. clearbody c1 c2.
  assert (Hp : (t1 * fps <= t2 * fps)%Q) by (apply Qmult_le_compat_r; [exact Ht|apply Qlt_le_weak; exact Hf]).
  assert (Hlt : (inject_Z c1 - 1 < inject_Z c2)%Q) by lra.
  unfold Qlt, Qminus, Qplus, Qopp, inject_Z in Hlt. cbn [Qnum Qden] in Hlt. lia.
Qed.

(* ---- clock time ----------------------------------------------------------------------------------------------------- *)
Lemma pad3_three n : 0 <= n < 1000 -> pad3 n = [digit (n / 100); digit (n / 10 mod 10); digit (n mod 10)].
Proof.
  intro H. unfold pad3. destruct (n <? 10) eqn:E1.
  - replace (n / 100) with 0 by lia. replace (n / 10 mod 10) with 0 by lia. replace (n mod 10) with n by lia. reflexivity.
  - destruct (n <? 100) eqn:E2.
    + cbn [digits_fuel]. rewrite E1. replace (n / 10 <? 10) with true by lia.
      replace (n / 100) with 0 by lia. replace (n / 10 mod 10) with (n / 10) by lia. reflexivity.
    + cbn [digits_fuel]. rewrite E1. replace (n / 10 <? 10) with false by lia.
      replace (n / 10 / 10 <? 10) with true by lia. replace (n / 10 / 10) with (n / 100) by lia. reflexivity.
Qed.

Lemma round_he_exact k d : 0 < d -> round_he (k * d) d = k.
Proof.
  intro Hd. unfold round_he. rewrite Z.div_mul by lia. rewrite Z.mod_mul by lia.
  replace (2 * 0 <? d) with true by lia. reflexivity.
Qed.

Theorem time_clock t k fps tr fr :
  (t == k # 1000)%Q -> 0 <= k < 360000000 -> (0 < tr)%Q -> (0 < fr)%Q ->
  exists s, to_time_format SyClock fps t = Some s /\
            exists q, parse_time_x (Some tr) (Some fr) s = TVal q /\ (q == t)%Q.
Proof.
  intros Ht Hk Htr Hfr.
  assert (Hnd : Qnum t * 1000 = k * Zpos (Qden t)). { unfold Qeq in Ht. simpl in Ht. exact Ht. }
  assert (Hn0 : Qnum t <? 0 = false). { assert (0 <= Qnum t * 1000) by (rewrite Hnd; lia). lia. }
  assert (Hfmt : to_time_format SyClock fps t = Some (print_clock 46 (clock_fields k))).
  { unfold to_time_format. rewrite Hn0. unfold clock_from_seconds. rewrite Hn0. unfold clock_ms.
    replace (1000 * Qnum t) with (k * Zpos (Qden t)) by lia. rewrite round_he_exact by lia.
    destruct fps; reflexivity. }
  exists (print_clock 46 (clock_fields k)). split; [exact Hfmt|].
  pose proof (clock_fields_range k ltac:(lia)) as Hf. unfold clock_fields in *.
  set (h := k / 3600000) in *. set (m := k / 60000 mod 60) in *. set (s := k / 1000 mod 60) in *. set (ms := k mod 1000) in *.
  destruct Hf as [Hh [Hm [Hs [Hms Hsum]]]].
  assert (Hh' : h < 100) by (unfold h; lia).
  assert (Hpr : print_clock 46 (h, m, s, ms) =
                print_time (TClock [h / 10; h mod 10] (m / 10) (m mod 10) (s / 10) (s mod 10) [ms / 100; ms / 10 mod 10; ms mod 10])).
  { unfold print_clock. rewrite !pad2_two by lia. rewrite pad3_three by lia. reflexivity. }
  rewrite Hpr.
  pose proof (time_syntax (TClock [h / 10; h mod 10] (m / 10) (m mod 10) (s / 10) (s mod 10) [ms / 100; ms / 10 mod 10; ms mod 10]) tr fr) as Hts.
  assert (Hwf : wf_texpr (TClock [h / 10; h mod 10] (m / 10) (m mod 10) (s / 10) (s mod 10) [ms / 100; ms / 10 mod 10; ms mod 10]) = true).
  { unfold wf_texpr, all_dec, is_dec. cbn [forallb length]. lia. }
  specialize (Hts Hwf Htr Hfr). cbn [time_value] in Hts.
  destruct (parse_time_x (Some tr) (Some fr) _) as [q| |]; cbn [tres_equiv] in Hts; try contradiction.
  exists q. split; [reflexivity|]. rewrite Hts, Ht.
  unfold number, nat_of. cbn [fold_left length ten_to].
  replace (((0 * 10 + h / 10) * 10 + h mod 10)) with h by lia.
  replace (((0 * 10 + m / 10) * 10 + m mod 10)) with m by lia.
  replace (((0 * 10 + s / 10) * 10 + s mod 10)) with s by lia.
  replace ((((0 * 10 + ms / 100) * 10 + ms / 10 mod 10) * 10 + ms mod 10)) with ms by lia.
  unfold Qeq, Qplus, Qmult, inject_Z. cbn [Qnum Qden]. lia.
Qed.

(* ---- clock time with frames (integer frame rates: SmpteTimeCode in non-drop mode) -------------------------------------------- *)
Lemma label_of_fields fps k : 0 < fps -> 0 <= k ->
  let '(h, m, s, f) := label_of fps k in
  0 <= h /\ 0 <= m < 60 /\ 0 <= s < 60 /\ 0 <= f < fps /\ ((h * 60 + m) * 60 + s) * fps + f = k.
Proof.
  intros Hf Hk. unfold label_of.
  replace (k / (60 * 60 * fps)) with (k / fps / 3600) by (rewrite Z.div_div by lia; f_equal; lia).
  replace (k / (60 * fps)) with (k / fps / 60) by (rewrite Z.div_div by lia; f_equal; lia).
  pose proof (Z.div_mod k fps ltac:(lia)) as E. pose proof (Z.mod_pos_bound k fps Hf) as B.
  assert (Hq : 0 <= k / fps) by (apply Z.div_pos; lia).
  set (q1 := k / fps) in *. set (f := k mod fps) in *. clearbody q1 f.
  assert (Hsum : (q1 / 3600 * 60 + q1 / 60 mod 60) * 60 + q1 mod 60 = q1) by lia.
  rewrite Hsum. repeat split; lia.
Qed.

Lemma two_digit_chrs n : 0 <= n < 100 -> pad2 n = chrs [n / 10; n mod 10] /\ all_dec [n / 10; n mod 10] = true /\ nat_of [n / 10; n mod 10] = n.
Proof.
  intro H. rewrite pad2_two by lia. split; [reflexivity|]. split.
  - unfold all_dec, is_dec. cbn [forallb]. lia.
  - unfold nat_of. cbn [fold_left]. lia.
Qed.

(* an integer frame rate F, 2 <= F <= 99 (the frames field has two digits): t >= 0 below 100 h is written hh:mm:ss:ff and read back,
   under the same frame rate, as floor(t * F) / F *)
Theorem time_clock_frames t F tr :
  2 <= F <= 99 -> (0 <= t)%Q -> (t < 360000 # 1)%Q ->
  let k := (Qnum t * F) / (Zpos (Qden t) * 1) in
  exists s, to_time_format SyClockFrames (Some (inject_Z F)) t = Some s /\
            exists q, parse_time_x tr (Some (inject_Z F)) s = TVal q /\ (q == inject_Z k / inject_Z F)%Q.
Proof.
  intros HF Ht Hlt. cbv zeta.
  assert (Hn : Qnum t <? 0 = false). { unfold Qle in Ht. simpl in Ht. lia. }
  assert (Hn0 : 0 <= Qnum t). { unfold Qle in Ht. simpl in Ht. lia. }
  set (D := Zpos (Qden t)) in *.
  assert (HD : 0 < D) by (unfold D; lia).
  set (k := Qnum t * F / (D * 1)).
  assert (Hk0 : 0 <= k). { unfold k. apply Z.div_pos; nia. }
  assert (Hklt : k < 360000 * F).
  { unfold k. apply Z.div_lt_upper_bound; [lia|]. unfold Qlt in Hlt. cbn [Qnum Qden] in Hlt. fold D in Hlt. nia. }
  unfold to_time_format. rewrite Hn. cbn [Qnum Qden inject_Z].
  set (r := mkRate F 1).
  assert (Hfs : from_seconds r (Qnum t) D = label_of F k).
  { unfold from_seconds, from_frames, adjust, is_df, ndf, r. cbn [rn rd]. replace (1 =? 1001) with false by reflexivity.
    unfold ceil_div. replace (- (- F / 1)) with F by (rewrite Z.div_1_r; lia). reflexivity. }
  fold D. rewrite Hfs.
  pose proof (label_of_fields F k ltac:(lia) Hk0) as Hl. destruct (label_of F k) as [[[h m] s] f].
  destruct Hl as [Hh [Hm [Hs [Hf Hsum]]]].
  assert (Hh' : h < 100) by nia.
  eexists. split; [reflexivity|].
  unfold print_tc, is_df, r. cbn [rd]. replace (1 =? 1001) with false by reflexivity.
  destruct (two_digit_chrs h ltac:(lia)) as [Ph [Dh Nh]]. destruct (two_digit_chrs m ltac:(lia)) as [Pm [Dm Nm]].
  destruct (two_digit_chrs s ltac:(lia)) as [Ps [Ds Ns]]. destruct (two_digit_chrs f ltac:(lia)) as [Pf [Df Nf]].
  rewrite Ph, Pm, Ps, Pf.
  change (chrs [h / 10; h mod 10] ++ [colon] ++ chrs [m / 10; m mod 10] ++ [colon] ++ chrs [s / 10; s mod 10] ++ [colon] ++ chrs [f / 10; f mod 10])
    with (print_time (TClockFrames [h / 10; h mod 10] (m / 10) (m mod 10) (s / 10) (s mod 10) [f / 10; f mod 10])).
  assert (Hwf : wf_texpr (TClockFrames [h / 10; h mod 10] (m / 10) (m mod 10) (s / 10) (s mod 10) [f / 10; f mod 10]) = true).
  { unfold wf_texpr, all_dec, is_dec. cbn [forallb length]. lia. }
  (* the recognisers on a printed member of the grammar *)
  unfold print_time. cbn [app].
  rewrite (offsets_none_on_clock [h / 10; h mod 10]) by (try reflexivity; assumption).
  change (chrs [h / 10; h mod 10] ++ 58 :: chr (m / 10) :: chr (m mod 10) :: 58 :: chr (s / 10) :: chr (s mod 10) :: 58 :: chrs [f / 10; f mod 10])
    with (chrs [h / 10; h mod 10] ++ [58; chr (m / 10); chr (m mod 10); 58; chr (s / 10); chr (s mod 10); 58] ++ chrs [f / 10; f mod 10]).
  assert (Dm1 : is_dec (m / 10) = true /\ is_dec (m mod 10) = true /\ is_dec (s / 10) = true /\ is_dec (s mod 10) = true).
  { unfold is_dec. lia. }
  destruct Dm1 as [A1 [A2 [A3 A4]]].
  rewrite clock_frames_fraction_none, clock_frames_print by (try assumption; reflexivity).
  rewrite Nh, Nm, Ns, Nf.
  assert (Hle : Qle_bool (inject_Z F) (inject_Z f) = false).
  { destruct (Qle_bool (inject_Z F) (inject_Z f)) eqn:E; [|reflexivity]. apply Qle_bool_iff in E. unfold Qle, inject_Z in E. simpl in E. lia. }
  rewrite Hle. eexists. split; [reflexivity|].
  assert (HFq : ~ (inject_Z F == 0)%Q). { unfold Qeq, inject_Z. simpl. lia. }
  assert (Hkq : (inject_Z k == (inject_Z h * inject_Z 3600 + inject_Z m * inject_Z 60 + inject_Z s) * inject_Z F + inject_Z f)%Q).
  { rewrite <- Hsum. repeat (rewrite inject_Z_plus || rewrite inject_Z_mult). change (inject_Z 3600) with (inject_Z 60 * inject_Z 60)%Q. ring. }
  rewrite Hkq. field. exact HFq.
Qed.

Lemma floor_q (p : Q) : let k := Qnum p / Zpos (Qden p) in (inject_Z k <= p)%Q /\ (p < inject_Z k + 1)%Q.
Proof.
  destruct p as [n d]. cbv zeta. cbn [Qnum Qden].
  pose proof (Z.div_mod n (Zpos d) ltac:(lia)) as E. pose proof (Z.mod_pos_bound n (Zpos d) ltac:(lia)) as B.
  set (k := n / Zpos d) in *. set (r := n mod Zpos d) in *. clearbody k r.
  unfold Qle, Qlt, Qplus, inject_Z. cbn [Qnum Qden]. split; lia.
Qed.

(* the value read back is never later than t and earlier by less than one frame *)
Theorem clock_frames_error t F : 0 < F ->
  let k := (Qnum t * F) / (Zpos (Qden t) * 1) in
  let q := (inject_Z k / inject_Z F)%Q in (q <= t)%Q /\ (t - q < 1 / inject_Z F)%Q.
Proof.
  intro HF. cbv zeta.
  destruct (floor_q (t * inject_Z F)%Q) as [H1 H2]. cbv zeta in H1, H2.
  change (Qnum (t * inject_Z F)%Q) with (Qnum t * F) in H1, H2.
  change (Zpos (Qden (t * inject_Z F)%Q)) with (Zpos (Qden t * 1)) in H1, H2.
  rewrite Pos2Z.inj_mul in H1, H2.
  set (c := inject_Z (Qnum t * F / (Zpos (Qden t) * 1))) in *. clearbody c.
  assert (HFq : (0 < inject_Z F)%Q). { unfold Qlt, inject_Z. simpl. lia. }
  assert (Hi : (0 < / inject_Z F)%Q) by (apply Qinv_lt_0_compat; exact HFq).
  assert (Hfi : (inject_Z F * / inject_Z F == 1)%Q) by (apply Qmult_inv_r; lra).
  unfold Qdiv. set (fq := inject_Z F) in *. set (i := (/ fq)%Q) in *. clearbody i fq.
  assert (Ht : (t * fq * i == t)%Q) by (rewrite <- Qmult_assoc, Hfi; ring).
  assert (Ha : (c * i <= t * fq * i)%Q) by (apply Qmult_le_compat_r; lra).
  assert (Hb : (t * fq * i < (c + 1) * i)%Q) by (apply Qmult_lt_compat_r; lra).
  split; lra.
Qed.

(* ---- ttp:frameRate / ttp:frameRateMultiplier written by the writer and read by the reader: the seven frame rates of the property *)
Definition written_rate_attrs (fps : Q) : list (qname * text) :=
  let '(fr, m) := print_frame_rate fps in
  (A_frameRate, fr) :: match m with Some s => [(A_frameRateMultiplier, s)] | None => [] end.
Definition rate_roundtrip (fps : Q) : bool :=
  Qeq_bool (extract_frame_rate (written_rate_attrs fps)) fps.
Definition listed_rates : list Q := [24 # 1; 25 # 1; 30 # 1; 50 # 1; 60 # 1; 24000 # 1001; 30000 # 1001]%Q.
Lemma frame_rate_roundtrip : forallb rate_roundtrip listed_rates = true.
Proof. vm_compute. reflexivity. Qed.
