(* C05, the tree the writer builds (Model/ImscWriteTree.v) read back by the reader (Model/ImscTiming.v), element by element:
   * every model element is written as an element that the reader dispatches to the same class (all 12 kinds, ruby roles included);
   * no child is dropped and none is reordered; the character content between two consecutive child elements (adjacent Text children
     are one run of characters) is exactly preserved by the text / tail placement;
   * xml:space, region and xml:id are read back as written; no timeContainer is written, so every container is read as par.
   The composition over the whole tree (timing, pruning of empty intervals, push_children) is compared on generated documents. *)
From TT Require Import Base.Prelude Base.ImscXml Model.ImscTime Model.TimeCode Model.ImscWrite Model.ImscStyles Model.ImscTiming Model.ImscWriteTree Gen.ImscTables.
From Coq Require Import QArith.
Local Open Scope Z_scope.

(* ---- attribute lists ------------------------------------------------------------------------------------------------------------- *)
Lemma get_attr_app a b q : get_attr (a ++ b) q = match get_attr a q with Some v => Some v | None => get_attr b q end.
Proof. induction a as [|[k v] a IH]; [reflexivity|]. cbn [app get_attr]. destruct (qname_eqb k q); [reflexivity|exact IH]. Qed.

(* the names of the style attributes are none of the names the reader looks up on an element *)
Definition reserved : list qname := [A_ruby; A_space; A_region; A_begin; A_end; A_dur; A_id; A_timeContainer; A_lang; A_style].
Lemma style_names_free : forallb (fun e => forallb (fun r => negb (qname_eqb (fst e) r)) reserved) imsc_style_attrs = true.
Proof. vm_compute. reflexivity. Qed.

Lemma attr_of_in l p qn : attr_of l p = Some qn -> In (qn, p) l.
Proof.
  induction l as [|[q0 p0] l IH]; [discriminate|]. cbn [attr_of]. destruct (p0 =? p) eqn:E.
  - intro H. inversion H; subst. apply Z.eqb_eq in E. subst. left. reflexivity.
  - intro H. right. exact (IH H).
Qed.

Lemma style_attr_free p v r : In r reserved -> get_attr (style_attr p v) r = None.
Proof.
  intro Hr. unfold style_attr. destruct (attr_of imsc_style_attrs p) as [qn|] eqn:E; [|reflexivity].
  destruct (print_style p v); try reflexivity. cbn [get_attr].
  pose proof style_names_free as H. rewrite forallb_forall in H. specialize (H _ (attr_of_in _ _ _ E)). cbn [fst] in H.
  rewrite forallb_forall in H. specialize (H r Hr). apply negb_true_iff in H. rewrite H. reflexivity.
Qed.

Lemma style_attrs_free d r : In r reserved -> get_attr (style_attrs d) r = None.
Proof.
  intro Hr. unfold style_attrs. induction imsc_write_order as [|p l IH]; [reflexivity|]. cbn [flat_map]. rewrite get_attr_app.
  destruct (style_get d p); [rewrite (style_attr_free _ _ _ Hr)|cbn [get_attr]]; exact IH.
Qed.

Lemma time_attr_other cfg a t q : qname_eqb a q = false -> get_attr (time_attr cfg a t) q = None.
Proof.
  intro H. unfold time_attr. destruct t as [v|]; [|reflexivity]. destruct (to_time_format (w_syn cfg) (w_fps cfg) v); [|reflexivity].
  cbn [get_attr]. rewrite H. reflexivity.
Qed.

(* ---- one element ------------------------------------------------------------------------------------------------------------------- *)
Definition wa_space (pp : option bool) (preserve : bool) : list (qname * text) :=
  match pp with
  | None => if preserve then [(A_space, V_preserve)] else []
  | Some p0 => if Bool.eqb p0 preserve then [] else [(A_space, if preserve then V_preserve else V_default)]
  end.
Definition wa_region (k : ekind) (region : option text) : list (qname * text) :=
  if w_has_region k then match region with Some r => [(A_region, r)] | None => [] end else [].
Definition wa_time (cfg : wcfg) (k : ekind) (b e : option Q) : list (qname * text) :=
  if w_has_timing k then time_attr cfg A_begin b ++ time_attr cfg A_end e else [].
Definition wa_id (id : option text) : list (qname * text) := match id with Some i => [(A_id, i)] | None => [] end.

Lemma wa_space_other pp pr q : qname_eqb A_space q = false -> get_attr (wa_space pp pr) q = None.
Proof. intro H. unfold wa_space. destruct pp as [p0|]; [destruct (Bool.eqb p0 pr)|]; destruct pr; cbn [get_attr]; rewrite ?H; reflexivity. Qed.
Lemma wa_region_other k r q : qname_eqb A_region q = false -> get_attr (wa_region k r) q = None.
Proof. intro H. unfold wa_region. destruct (w_has_region k); [destruct r|]; cbn [get_attr]; rewrite ?H; reflexivity. Qed.
Lemma wa_time_other cfg k b e q : qname_eqb A_begin q = false -> qname_eqb A_end q = false -> get_attr (wa_time cfg k b e) q = None.
Proof. intros H1 H2. unfold wa_time. destruct (w_has_timing k); [rewrite get_attr_app, !time_attr_other by assumption|]; reflexivity. Qed.
Lemma wa_id_other id q : qname_eqb A_id q = false -> get_attr (wa_id id) q = None.
Proof. intro H. unfold wa_id. destruct id; cbn [get_attr]; rewrite ?H; reflexivity. Qed.
Lemma make_element_other k tag attrs0 q : make_element k = Some (tag, attrs0) -> qname_eqb A_ruby q = false -> get_attr attrs0 q = None.
Proof. intros H Hq. destruct k; inversion H; subst; cbn [get_attr]; rewrite ?Hq; reflexivity. Qed.

Section Element.
  Variables (cfg : wcfg) (pp : option bool) (k : ekind) (id : option text) (b e : option Q) (preserve : bool) (region : option text)
            (styles : list (Z * sval)) (anims : list wanim) (cs : list wnode) (x : xml).
  Hypothesis Hw : write_node cfg pp (WElem k id b e preserve region styles anims cs) = Some x.

  Lemma written_shape : exists tag attrs0 txt kids, make_element k = Some (tag, attrs0) /\
    x = X tag (attrs0 ++ wa_space pp preserve ++ wa_region k region ++ wa_time cfg k b e ++ wa_id id ++ style_attrs styles) txt None kids.
  Proof.
    cbn [write_node] in Hw. destruct (make_element k) as [[tag attrs0]|] eqn:Ek; [|discriminate].
    destruct (if w_has_children k then place (write_node cfg (Some preserve)) cs None (rev (List.map (write_set cfg) anims)) false
              else (None, List.map (write_set cfg) anims)) as [txt kids] eqn:Epl.
    inversion Hw. exists tag, attrs0, txt, kids. split; reflexivity.
  Qed.

  (* the reader dispatches the written element to the class of the model element *)
  Theorem written_kind : classify (x_tag x) (x_attrs x) = Some k.
  Proof.
    destruct written_shape as [tag [attrs0 [txt [kids [Ek ->]]]]]. cbn [x_tag x_attrs].
    assert (Hrest : get_attr (wa_space pp preserve ++ wa_region k region ++ wa_time cfg k b e ++ wa_id id ++ style_attrs styles) A_ruby = None).
    { rewrite !get_attr_app, wa_space_other, wa_region_other, wa_time_other, wa_id_other by reflexivity. apply style_attrs_free. left. reflexivity. }
    destruct k; inversion Ek; subst tag attrs0; unfold classify; cbn [app]; try reflexivity.
    (* a plain span: no tts:ruby among the written attributes *)
    replace (qname_eqb T_span T_body) with false by reflexivity. replace (qname_eqb T_span T_div) with false by reflexivity.
    replace (qname_eqb T_span T_p) with false by reflexivity. replace (qname_eqb T_span T_span) with true by reflexivity.
    cbv iota. rewrite Hrest. reflexivity.
  Qed.

  (* xml:space is read back as the model element has it, provided the reader inherited what the writer assumed of the parent *)
  Theorem written_space inherited : (match pp with Some p0 => inherited = p0 | None => inherited = false end) ->
    read_space (x_attrs x) inherited = preserve.
  Proof.
    intro Hi. destruct written_shape as [tag [attrs0 [txt [kids [Ek ->]]]]]. cbn [x_attrs]. unfold read_space. rewrite !get_attr_app.
    rewrite (make_element_other k tag attrs0 A_space Ek eq_refl).
    unfold wa_space at 1. destruct pp as [p0|]; subst inherited.
    - destruct (Bool.eqb p0 preserve) eqn:E.
      + apply Bool.eqb_prop in E. subst p0. cbn [get_attr].
        rewrite wa_region_other, wa_time_other, wa_id_other by reflexivity. rewrite style_attrs_free by (right; left; reflexivity). reflexivity.
      + destruct p0, preserve; try discriminate; reflexivity.
    - destruct preserve; [reflexivity|]. cbn [get_attr].
      rewrite wa_region_other, wa_time_other, wa_id_other by reflexivity. rewrite style_attrs_free by (right; left; reflexivity). reflexivity.
  Qed.

  (* no timeContainer is written: the element is read as a parallel container *)
  Theorem written_par : read_par (x_attrs x) = true.
  Proof.
    destruct written_shape as [tag [attrs0 [txt [kids [Ek ->]]]]]. cbn [x_attrs]. unfold read_par. rewrite !get_attr_app.
    rewrite (make_element_other k tag attrs0 A_timeContainer Ek eq_refl).
    rewrite wa_space_other, wa_region_other, wa_time_other, wa_id_other by reflexivity.
    rewrite style_attrs_free by (do 7 right; left; reflexivity). reflexivity.
  Qed.

  (* the region reference is read back (when the region is registered in the document) *)
  Theorem written_region ev : (match region with Some r => mem_text r (e_regions ev) = true | None => True end) ->
    read_region ev k (x_attrs x) = if k_has_region k then region else None.
  Proof.
    intro Hreg. destruct written_shape as [tag [attrs0 [txt [kids [Ek ->]]]]]. cbn [x_attrs]. unfold read_region.
    assert (Hsame : k_has_region k = w_has_region k) by (destruct k; reflexivity).
    destruct (k_has_region k) eqn:Ehr; [|reflexivity].
    rewrite !get_attr_app. rewrite (make_element_other k tag attrs0 A_region Ek eq_refl), wa_space_other by reflexivity.
    unfold wa_region at 1. rewrite <- Hsame. destruct region as [r|]; cbn [get_attr].
    - rewrite (proj2 (qname_eqb_eq A_region A_region) eq_refl), Hreg. reflexivity.
    - rewrite wa_time_other, wa_id_other by reflexivity. rewrite style_attrs_free by (do 2 right; left; reflexivity). reflexivity.
  Qed.

  (* begin: the attribute is there exactly when the model element has a begin (and supports timing), with the printed value *)
  Theorem written_begin : get_attr (x_attrs x) A_begin =
    if w_has_timing k then match b with Some v => to_time_format (w_syn cfg) (w_fps cfg) v | None => None end else None.
  Proof.
    destruct written_shape as [tag [attrs0 [txt [kids [Ek ->]]]]]. cbn [x_attrs]. rewrite !get_attr_app.
    rewrite (make_element_other k tag attrs0 A_begin Ek eq_refl), wa_space_other, wa_region_other by reflexivity.
    assert (Hend : get_attr (wa_id id ++ style_attrs styles) A_begin = None).
    { rewrite get_attr_app, wa_id_other by reflexivity. apply style_attrs_free. do 3 right; left; reflexivity. }
    rewrite get_attr_app in Hend.
    unfold wa_time. destruct (w_has_timing k); [|exact Hend].
    rewrite get_attr_app. unfold time_attr at 1. destruct b as [v|].
    - destruct (to_time_format (w_syn cfg) (w_fps cfg) v) as [s|]; [reflexivity|]. cbn [get_attr]. rewrite time_attr_other by reflexivity. exact Hend.
    - cbn [get_attr]. rewrite time_attr_other by reflexivity. exact Hend.
  Qed.

  Theorem written_end : get_attr (x_attrs x) A_end =
    if w_has_timing k then match e with Some v => to_time_format (w_syn cfg) (w_fps cfg) v | None => None end else None.
  Proof.
    destruct written_shape as [tag [attrs0 [txt [kids [Ek ->]]]]]. cbn [x_attrs]. rewrite !get_attr_app.
    rewrite (make_element_other k tag attrs0 A_end Ek eq_refl), wa_space_other, wa_region_other by reflexivity.
    assert (Hend : get_attr (wa_id id ++ style_attrs styles) A_end = None).
    { rewrite get_attr_app, wa_id_other by reflexivity. apply style_attrs_free. do 4 right; left; reflexivity. }
    rewrite get_attr_app in Hend.
    unfold wa_time. destruct (w_has_timing k); [|exact Hend].
    rewrite get_attr_app, time_attr_other by reflexivity. unfold time_attr. destruct e as [v|].
    - destruct (to_time_format (w_syn cfg) (w_fps cfg) v) as [s|]; [reflexivity|]. exact Hend.
    - exact Hend.
  Qed.

  (* neither dur nor a style reference is written *)
  Theorem written_no_dur : get_attr (x_attrs x) A_dur = None /\ style_refs (x_attrs x) = [].
  Proof.
    destruct written_shape as [tag [attrs0 [txt [kids [Ek ->]]]]]. cbn [x_attrs]. unfold style_refs. rewrite !get_attr_app.
    rewrite (make_element_other k tag attrs0 A_dur Ek eq_refl), (make_element_other k tag attrs0 A_style Ek eq_refl).
    rewrite !wa_space_other, !wa_region_other, !wa_time_other, !wa_id_other by reflexivity.
    rewrite (style_attrs_free styles A_dur) by (do 5 right; left; reflexivity).
    rewrite (style_attrs_free styles A_style) by (do 9 right; left; reflexivity). split; reflexivity.
  Qed.
End Element.

(* ---- the children: text / tail placement ---------------------------------------------------------------------------------------------- *)
(* what the reader meets, in document order, in the content of an element: character data and child elements *)
Definition item := (text + xml)%type.
Definition strip_tail (x : xml) : xml := match x with X t a tx _ c => X t a tx None c end.
Definition optl (o : option text) : list item := match o with Some t => [inl t] | None => [] end.
Definition items_of (x : xml) : list item := inr (strip_tail x) :: optl (x_tail x).
(* normal form of a content sequence: the leading characters, then every element with the characters that follow it (adjacent runs of
   character data are one run) *)
Fixpoint push (l : list item) (n : text * list (xml * text)) : text * list (xml * text) :=
  match l with
  | [] => n
  | inl s :: l' => let '(t, g) := push l' n in (s ++ t, g)
  | inr x :: l' => let '(t, g) := push l' n in ([], (x, t) :: g)
  end.
Definition norm (l : list item) : text * list (xml * text) := push l ([], []).

Lemma push_app a b n : push (a ++ b) n = push a (push b n).
Proof. induction a as [|[s|x] a IH]; cbn [app push]; [reflexivity| |]; rewrite IH; reflexivity. Qed.

(* the model children in the order the writer meets them *)
Definition arrive (wr : wnode -> option xml) (c : wnode) : list item :=
  match c with WText s => [inl s] | _ => match wr c with Some x => items_of x | None => [] end end.

Lemma strip_add_tail l s : strip_tail (add_tail l s) = strip_tail l.
Proof. destruct l. reflexivity. Qed.

Lemma push_add_tail l s R n : push (items_of (add_tail l s) ++ R) n = push (items_of l ++ [inl s] ++ R) n.
Proof.
  unfold items_of. rewrite strip_add_tail. destruct l as [t a tx tl c]. cbn [add_tail x_tail optl app push].
  destruct tl as [u|]; cbn [optl app push]; destruct (push R n) as [t0 g]; rewrite <- ?app_assoc; reflexivity.
Qed.

Section Placement.
  Variable wr : wnode -> option xml.
  Variable sets : list xml.

  Lemma place_spec : forall cs txt content_rev last,
    (last = true -> content_rev <> []) -> (last = false -> content_rev = []) ->
    exists txt' content', place wr cs txt (content_rev ++ rev sets) last = (txt', sets ++ content') /\
      forall n, push (optl txt' ++ flat_map items_of content') n =
                push (optl txt ++ flat_map items_of (rev content_rev) ++ flat_map (arrive wr) cs) n.
  Proof.
    induction cs as [|c cs IH]; intros txt content_rev last Ht Hf.
    - exists txt, (rev content_rev). cbn [place flat_map]. rewrite rev_app_distr, rev_involutive, app_nil_r. split; reflexivity.
    - destruct c as [s|k id b e pr rg st an ch].
      + (* a Text child *)
        cbn [place flat_map arrive].
        destruct last.
        * destruct content_rev as [|l c']; [exfalso; apply (Ht eq_refl); reflexivity|]. cbn [app].
          destruct (IH txt (add_tail l s :: c') true ltac:(discriminate) ltac:(discriminate)) as [txt' [content' [H1 H2]]].
          exists txt', content'. split; [exact H1|]. intro n. rewrite H2. cbn [rev]. rewrite !flat_map_app. cbn [flat_map]. rewrite !app_nil_r.
          rewrite !push_app. f_equal. f_equal. rewrite <- !push_app. apply (push_add_tail l s (flat_map (arrive wr) cs) n).
        * rewrite (Hf eq_refl) in *. cbn [app rev flat_map].
          assert (Hp : place wr (WText s :: cs) txt (rev sets) false = place wr cs (Some match txt with Some u => u ++ s | None => s end) (rev sets) false).
          { cbn [place]. destruct (rev sets); reflexivity. }
          cbn [place] in Hp |- *.
          destruct (IH (Some match txt with Some u => u ++ s | None => s end) [] false ltac:(discriminate) ltac:(reflexivity)) as [txt' [content' [H1 H2]]].
          cbn [app] in H1. exists txt', content'. split; [destruct (rev sets); exact H1|]. intro n. rewrite H2. cbn [rev flat_map app optl].
          destruct txt as [u|]; cbn [optl app push]; destruct (push (flat_map (arrive wr) cs) n) as [t0 g]; rewrite <- ?app_assoc; reflexivity.
      + (* a child element *)
        cbn [place flat_map]. unfold arrive at 1.
        destruct (wr (WElem k id b e pr rg st an ch)) as [x|].
        * destruct (IH txt (x :: content_rev) true ltac:(discriminate) ltac:(discriminate)) as [txt' [content' [H1 H2]]].
          cbn [app] in H1. exists txt', content'. split; [exact H1|]. intro n. rewrite H2. cbn [rev]. rewrite !flat_map_app. cbn [flat_map].
          rewrite app_nil_r, <- !app_assoc. reflexivity.
        * destruct (IH txt content_rev last Ht Hf) as [txt' [content' [H1 H2]]].
          exists txt', content'. split; [exact H1|]. intro n. rewrite H2. reflexivity.
  Qed.
End Placement.

(* every model element kind is written (KSet and KText are not kinds of model elements) *)
Lemma write_node_some cfg pp k id b e pr rg st an cs : k <> KSet -> k <> KText ->
  exists x, write_node cfg pp (WElem k id b e pr rg st an cs) = Some x.
Proof.
  intros H1 H2. cbn [write_node]. destruct k; try contradiction; cbn [make_element];
    match goal with |- context [if ?c then ?a else ?b'] => destruct (if c then a else b') as [txt kids] end; eexists; reflexivity.
Qed.

(* the content of a written element: the <set> elements of the animation steps first, then the children - none dropped, none reordered -
   and the character data of the Text children exactly where it was: before the first child element or after the element it followed *)
Theorem written_children cfg pp k id b e preserve region styles anims cs x :
  write_node cfg pp (WElem k id b e preserve region styles anims cs) = Some x -> w_has_children k = true ->
  exists content, x_children x = List.map (write_set cfg) anims ++ content /\
    norm (optl (x_text x) ++ flat_map items_of content) = norm (flat_map (arrive (write_node cfg (Some preserve))) cs).
Proof.
  intros Hw Hc. cbn [write_node] in Hw. destruct (make_element k) as [[tag attrs0]|]; [|discriminate]. rewrite Hc in Hw.
  destruct (place_spec (write_node cfg (Some preserve)) (List.map (write_set cfg) anims) cs None [] false ltac:(discriminate) ltac:(reflexivity))
    as [txt' [content' [H1 H2]]].
  cbn [app] in H1. rewrite H1 in Hw. inversion Hw; subst x. cbn [x_children x_text].
  exists content'. split; [reflexivity|]. unfold norm. rewrite H2. reflexivity.
Qed.

(* an element without children of its own (br, region): only the <set> elements *)
Theorem written_leaf cfg pp k id b e preserve region styles anims cs x :
  write_node cfg pp (WElem k id b e preserve region styles anims cs) = Some x -> w_has_children k = false ->
  x_children x = List.map (write_set cfg) anims /\ x_text x = None.
Proof.
  intros Hw Hc. cbn [write_node] in Hw. destruct (make_element k) as [[tag attrs0]|]; [|discriminate]. rewrite Hc in Hw.
  inversion Hw; subst x. split; reflexivity.
Qed.

(* non-vacuity: <span>A<span/>BC</span> from [Text A; Span; Text B; Text C] *)
Example placement_example :
  let cfg := mkWcfg SyClock None in
  let n := WElem KSpan None None None false None [] [] [WText [65]; WElem KSpan None None None false None [] [] []; WText [66]; WText [67]] in
  write_node cfg (Some false) n = Some (X T_span [] (Some [65]) None [X T_span [] None (Some [66; 67]) []]).
Proof. reflexivity. Qed.
