(* C05, document parameters: what TTElement.from_model writes on <tt> (Model/ImscWriteTree.v write_tt) is read back by the parameter
   readers of the IMSC reader (Model/ImscParams.v, Model/ImscTiming.v): language, cell resolution, display aspect ratio. *)
From TT Require Import Base.Prelude Base.ImscXml Model.ImscTime Model.TimeCode Model.ImscWrite Model.ImscStyles Model.ImscTiming Model.ImscWriteTree Model.ImscParams Gen.ImscTables Spec.TtmlTimingSpec.
From TT Require Import Proofs.C04.TimeSyntax Proofs.C05.Times Proofs.C05.Tree.
From Coq Require Import QArith.
Local Open Scope Z_scope.

Lemma print_int_nonneg n : 0 <= n -> print_int n = chrs (nat_digits n).
Proof. intro H. unfold print_int. replace (n <? 0) with false by lia. apply print_nat_chrs. Qed.

(* "c r" as the writer prints two non-negative integers is split back into them *)
Lemma int_pair_print c r : 0 <= c -> 0 <= r -> int_pair (print_int c ++ sp ++ print_int r) = Some (c, r).
Proof.
  intros Hc Hr. rewrite (print_int_nonneg c Hc), (print_int_nonneg r Hr).
  destruct (nat_digits_ok c Hc) as [Nc [Dc Ec]]. destruct (nat_digits_ok r Hr) as [Nr [Dr Er]].
  unfold int_pair, sp. rewrite (span_digits_chrs (nat_digits c) ([32] ++ chrs (nat_digits r)) Dc) by reflexivity.
  destruct (nat_digits c) as [|c0 cl] eqn:Ecd; [discriminate|]. cbn [chrs List.map app].
  replace (chrs (nat_digits r)) with (chrs (nat_digits r) ++ []) by apply app_nil_r.
  change (List.map chr (nat_digits r) ++ []) with (chrs (nat_digits r) ++ []).
  rewrite (span_digits_chrs (nat_digits r) [] Dr I).
  destruct (nat_digits r) as [|r0 rl] eqn:Erd; [discriminate|]. cbn [chrs List.map].
  change (chr c0 :: List.map chr cl) with (chrs (c0 :: cl)). change (chr r0 :: List.map chr rl) with (chrs (r0 :: rl)).
  rewrite !digits_val_nat_of, Nc, Nr. reflexivity.
Qed.

Section Tt.
  Variables (cfg : wcfg) (d : wdoc).
  Let x := write_tt cfg d.

  Lemma tt_attrs : exists a_px a_active a_fr,
    x_attrs x = [(A_lang, wd_lang d)] ++
                (if (fst (wd_cell d) =? 32) && (snd (wd_cell d) =? 15) then []
                 else [(A_cellResolution, print_int (fst (wd_cell d)) ++ sp ++ print_int (snd (wd_cell d)))]) ++
                a_px ++ a_active ++
                (match wd_dar d with Some (n, m) => [(A_displayAspectRatio, print_int n ++ sp ++ print_int m)] | None => [] end) ++ a_fr /\
    (forall q, In q [A_cellResolution; A_displayAspectRatio; A_lang; A_aspectRatio; A_space] -> get_attr a_px q = None /\ get_attr a_active q = None /\ get_attr a_fr q = None).
  Proof.
    unfold x, write_tt. cbn [x_attrs]. eexists _, _, _. split; [reflexivity|].
    intros q Hq. repeat split.
    - destruct (wd_px d) as [[w h]|]; [|reflexivity].
      match goal with |- context [if ?c then _ else _] => destruct c end; [|reflexivity].
      cbn [get_attr]. destruct Hq as [<-|[<-|[<-|[<-|[<-|[]]]]]]; reflexivity.
    - destruct (wd_active d) as [[[[l t] w] h]|]; [|reflexivity].
      cbn [get_attr]. destruct Hq as [<-|[<-|[<-|[<-|[<-|[]]]]]]; reflexivity.
    - destruct (w_fps cfg) as [f|]; [|reflexivity]. destruct (print_frame_rate f) as [fr m]. destruct m;
      cbn [get_attr]; destruct Hq as [<-|[<-|[<-|[<-|[<-|[]]]]]]; reflexivity.
  Qed.

  (* the language of the document *)
  Theorem tt_lang : get_attr (x_attrs x) A_lang = Some (wd_lang d).
  Proof. destruct tt_attrs as [a1 [a2 [a3 [E _]]]]. rewrite E. reflexivity. Qed.

  (* the cell resolution: written unless it is the default, which the reader supplies *)
  Theorem tt_cell_resolution : 0 < fst (wd_cell d) -> 0 < snd (wd_cell d) -> extract_cell_resolution (x_attrs x) = wd_cell d.
  Proof.
    intros Hc Hr. destruct tt_attrs as [a1 [a2 [a3 [E Hfree]]]]. rewrite E. unfold extract_cell_resolution.
    destruct (Hfree A_cellResolution ltac:(left; reflexivity)) as [F1 [F2 F3]].
    rewrite !get_attr_app. cbn [get_attr]. replace (qname_eqb A_lang A_cellResolution) with false by reflexivity.
    destruct (wd_cell d) as [c r]. cbn [fst snd] in *.
    destruct ((c =? 32) && (r =? 15)) eqn:Edef.
    - cbn [get_attr]. rewrite F1, F2. destruct (wd_dar d) as [[n m]|]; cbn [get_attr]; rewrite ?F3;
        replace c with 32 by lia; replace r with 15 by lia; reflexivity.
    - cbn [get_attr]. replace (qname_eqb A_cellResolution A_cellResolution) with true by reflexivity.
      rewrite (int_pair_print c r) by lia. replace ((0 <? c) && (0 <? r)) with true by lia. reflexivity.
  Qed.

  (* the display aspect ratio *)
  Theorem tt_display_aspect_ratio n m : wd_dar d = Some (n, m) -> 0 < n -> 0 < m ->
    extract_dar (x_attrs x) = Some (inject_Z n / inject_Z m)%Q.
  Proof.
    intros Hd Hn Hm. destruct tt_attrs as [a1 [a2 [a3 [E Hfree]]]]. rewrite E, Hd. unfold extract_dar, ratio_of.
    destruct (Hfree A_displayAspectRatio ltac:(right; left; reflexivity)) as [F1 [F2 F3]].
    rewrite !get_attr_app. cbn [get_attr]. replace (qname_eqb A_lang A_displayAspectRatio) with false by reflexivity.
    rewrite F1, F2. replace (qname_eqb A_displayAspectRatio A_displayAspectRatio) with true by reflexivity.
    destruct ((fst (wd_cell d) =? 32) && (snd (wd_cell d) =? 15)); cbn [get_attr];
      replace (qname_eqb A_cellResolution A_displayAspectRatio) with false by reflexivity;
      rewrite (int_pair_print n m) by lia; replace ((n =? 0) || (m =? 0)) with false by lia; reflexivity.
  Qed.
  Theorem tt_no_display_aspect_ratio : wd_dar d = None -> extract_dar (x_attrs x) = None.
  Proof.
    intros Hd. destruct tt_attrs as [a1 [a2 [a3 [E Hfree]]]]. rewrite E, Hd. unfold extract_dar, ratio_of.
    destruct (Hfree A_displayAspectRatio ltac:(right; left; reflexivity)) as [F1 [F2 F3]].
    destruct (Hfree A_aspectRatio ltac:(do 3 right; left; reflexivity)) as [G1 [G2 G3]].
    rewrite !get_attr_app. cbn [get_attr]. replace (qname_eqb A_lang A_displayAspectRatio) with false by reflexivity.
    replace (qname_eqb A_lang A_aspectRatio) with false by reflexivity.
    rewrite F1, F2, F3, G1, G2, G3.
    destruct ((fst (wd_cell d) =? 32) && (snd (wd_cell d) =? 15)); cbn [get_attr];
      replace (qname_eqb A_cellResolution A_displayAspectRatio) with false by reflexivity;
      replace (qname_eqb A_cellResolution A_aspectRatio) with false by reflexivity; reflexivity.
  Qed.
End Tt.
