(* C05, attribute round trips: what the reader's value parsers make of what the writer's value printers produce
   (Model/ImscWrite.v), for all valid values: enumerations (16 properties, decided on the regenerated tables),
   colours, lengths (Python's "g" formatting: the value is reproduced rounded to six significant digits whenever the
   writer does not switch to exponent notation), and the length-valued properties built from them. *)
From TT Require Import Base.Prelude Base.ImscXml Model.ImscTime Model.TimeCode Model.ImscWrite Gen.ImscTables Spec.TtmlTimingSpec.
From TT Require Import Spec.TtmlColorSpec Proofs.C04.Color Proofs.C04.TimeSyntax Proofs.C05.Times Proofs.C12.Derived.
From Coq Require Import QArith Qabs Lqa.
Local Open Scope Z_scope.

(* ---- enumerations ------------------------------------------------------------------------------------------------- *)
(* every row of the table of property p is printed as a string that extract maps back to the row's member *)
Definition enum_row_ok (p : Z) (row : list Z * Z * list Z) : bool :=
  let '(_, o, v) := row in
  match extract_style p v with Some (SEnum o') => o' =? o | _ => false end.
Definition enum_rows_ok (p : Z) : bool :=
  match enum_table p with Some t => forallb (enum_row_ok p) t | None => true end.

Definition enum_props : list Z :=
  [P_Direction; P_Display; P_DisplayAlign; P_FontStyle; P_FontWeight; P_MultiRowAlign; P_Overflow; P_RubyAlign;
   P_RubyPosition; P_ShowBackground; P_TextAlign; P_TextCombine; P_UnicodeBidi; P_Visibility; P_WrapOption; P_WritingMode].

Lemma enum_tables_ok : forallb enum_rows_ok enum_props = true.
Proof. vm_compute. reflexivity. Qed.

Lemma enum_table_props p t : enum_table p = Some t -> In p enum_props.
Proof.
  unfold enum_table, enum_props.
  repeat match goal with
         | |- context [if ?b then _ else _] => let E := fresh "E" in destruct b eqn:E; [apply Z.eqb_eq in E; subst p; simpl; tauto|]
         end.
  discriminate.
Qed.

Lemma enum_value_in t : forall o s, enum_value t o = Some s -> exists n, In (n, o, s) t.
Proof.
  induction t as [|[[n o'] v] t IH]; intros o s H; [discriminate|]. cbn [enum_value] in H.
  destruct (o' =? o) eqn:E.
  - inversion H; subst. apply Z.eqb_eq in E. subst. exists n. left. reflexivity.
  - destruct (IH _ _ H) as [n' Hin]. exists n'. right. exact Hin.
Qed.

(* print_style p (SEnum o) = WAttr s  ->  the reader parses s back to member o *)
Theorem enum_roundtrip p o s :
  print_style p (SEnum o) = WAttr s -> read_style p s = Some (SEnum o).
Proof.
  cbn [print_style]. destruct (enum_table p) as [t|] eqn:Et; [|discriminate].
  destruct (enum_value t o) as [s'|] eqn:Ev; [|discriminate]. intro H. inversion H; subst s'. clear H.
  pose proof (enum_table_props p t Et) as Hin.
  pose proof enum_tables_ok as Hall. rewrite forallb_forall in Hall. specialize (Hall p Hin).
  unfold enum_rows_ok in Hall. rewrite Et in Hall. rewrite forallb_forall in Hall.
  destruct (enum_value_in t o s Ev) as [n Hrow]. specialize (Hall _ Hrow). unfold enum_row_ok in Hall.
  unfold read_style. destruct (extract_style p s) as [v|]; [|discriminate].
  destruct v; try discriminate. apply Z.eqb_eq in Hall. subst. reflexivity.
Qed.

(* booleans: itts:fillLineGap *)
Theorem bool_roundtrip b : exists s, print_style P_FillLineGap (SBool b) = WAttr s /\ read_style P_FillLineGap s = Some (SBool b).
Proof. destruct b; eexists; split; reflexivity. Qed.

(* ---- colours ------------------------------------------------------------------------------------------------------------ *)
Lemma hexval_hexd d : 0 <= d < 16 -> hexval (hexd d) = Some d.
Proof.
  intro H. unfold hexd, hexval. destruct (d <? 10) eqn:E.
  - replace ((48 <=? 48 + d) && (48 + d <=? 57)) with true by lia. f_equal. lia.
  - replace ((48 <=? 87 + d) && (87 + d <=? 57)) with false by lia.
    replace ((97 <=? 87 + d) && (87 + d <=? 102)) with true by lia. f_equal. lia.
Qed.

Lemma hexpair_hex2 c : 0 <= c < 256 -> hexpair (hexd (c / 16)) (hexd (c mod 16)) = Some c.
Proof.
  intro H. unfold hexpair. rewrite !hexval_hexd by lia. f_equal. lia.
Qed.

Lemma not_named rest : assoc_color named_colors (List.map lower (35 :: rest)) = None.
Proof. reflexivity. Qed.

Definition byte (c : Z) : Prop := 0 <= c < 256.

Theorem color_roundtrip r g b a : byte r -> byte g -> byte b -> byte a ->
  parse_color (print_color (r, g, b, a)) = Some (r, g, b, a).
Proof.
  intros Hr Hg Hb Ha. unfold print_color, hex2. cbn [app]. unfold parse_color. rewrite not_named.
  cbn [strip_prefix]. change (35 =? 35) with true. cbv iota.
  destruct (a =? 255) eqn:E.
  - apply Z.eqb_eq in E. subst a. cbn [hex_color]. unfold hex_color.
    rewrite (hexpair_hex2 r Hr), (hexpair_hex2 g Hg), (hexpair_hex2 b Hb). reflexivity.
  - cbn [app]. unfold hex_color. rewrite (hexpair_hex2 r Hr), (hexpair_hex2 g Hg), (hexpair_hex2 b Hb), (hexpair_hex2 a Ha). reflexivity.
Qed.

(* what the writer prints for a colour is a strict TTML2 <color> (Spec/TtmlColorSpec.v: "#rrggbb" or "#rrggbbaa", no white space) that
   denotes the colour *)
Theorem print_color_ttml r g b a : byte r -> byte g -> byte b -> byte a -> ttml_color (print_color (r, g, b, a)) (r, g, b, a).
Proof.
  intros Hr Hg Hb Ha.
  assert (P : forall c, byte c -> is_hex_pair (hexd (c / 16), hexd (c mod 16)) = true /\ hex_pair_value (hexd (c / 16), hexd (c mod 16)) = c).
  { intros c Hc. pose proof (hexpair_hex2 c Hc) as H. rewrite hexpair_spec in H.
    destruct (is_hex_pair (hexd (c / 16), hexd (c mod 16))); [|discriminate]. split; [reflexivity|congruence]. }
  destruct (P r Hr) as [Wr Vr], (P g Hg) as [Wg Vg], (P b Hb) as [Wb Vb], (P a Ha) as [Wa Va].
  unfold print_color, hex2. destruct (a =? 255) eqn:E.
  - apply Z.eqb_eq in E. subst a.
    exists (AHex6 (hexd (r / 16), hexd (r mod 16)) (hexd (g / 16), hexd (g mod 16)) (hexd (b / 16), hexd (b mod 16))).
    repeat split; [cbn [wf_color]; rewrite Wr, Wg, Wb; reflexivity|cbn [denote]; rewrite Vr, Vg, Vb; reflexivity].
  - exists (AHex8 (hexd (r / 16), hexd (r mod 16)) (hexd (g / 16), hexd (g mod 16)) (hexd (b / 16), hexd (b mod 16)) (hexd (a / 16), hexd (a mod 16))).
    repeat split; [cbn [wf_color]; rewrite Wr, Wg, Wb, Wa; reflexivity|cbn [denote]; rewrite Vr, Vg, Vb, Va; reflexivity].
Qed.

(* the colour properties: the reader stores a value for exactly the colour expressions of the grammar, and stores what they denote *)
Theorem color_read_iff p s v : p = P_Color \/ p = P_BackgroundColor ->
  (read_style p s = Some v <-> exists c, v = SColor c /\ color_expr s c).
Proof.
  intro Hp. assert (E : read_style p s = match parse_color s with Some c => Some (SColor c) | None => None end).
  { unfold read_style, extract_style. destruct Hp; subst p.
    - change ((P_Color =? P_BackgroundColor) || (P_Color =? P_Color)) with true. cbv iota. destruct (parse_color s); reflexivity.
    - change ((P_BackgroundColor =? P_BackgroundColor) || (P_BackgroundColor =? P_Color)) with true. cbv iota. destruct (parse_color s); reflexivity. }
  rewrite E. split.
  - destruct (parse_color s) as [c|] eqn:Pc; [|discriminate]. intro H. inversion H; subst v. exists c. split; [reflexivity|].
    apply parse_color_sound. exact Pc.
  - intros (c & -> & Hc). rewrite (parse_color_complete _ _ Hc). reflexivity.
Qed.

Theorem color_style_roundtrip r g b a : byte r -> byte g -> byte b -> byte a ->
  read_style P_Color (print_color (r, g, b, a)) = Some (SColor (r, g, b, a)) /\
  print_style P_Color (SColor (r, g, b, a)) = WAttr (print_color (r, g, b, a)).
Proof.
  intros. split; [|reflexivity]. unfold read_style, extract_style.
  replace ((P_Color =? P_BackgroundColor) || (P_Color =? P_Color)) with true by reflexivity.
  rewrite color_roundtrip by assumption. reflexivity.
Qed.

(* ---- lengths ------------------------------------------------------------------------------------------------------------ *)
Lemma dchars_chrs l : dchars l = chrs l.
Proof. reflexivity. Qed.

(* the six units: their text is not a digit, sign or point, is recognised by the unit alternatives, and names the unit *)
Definition unit_ok (u : Z) : bool :=
  match unit_text u with
  | c :: _ =>
      negb (is_digit c) && negb (c =? 46) && negb (c =? 43) && negb (c =? 45) &&
      match match_unit length_units (unit_text u) with Some t => text_eqb t (unit_text u) | None => false end &&
      match enum_by_value enum_LengthUnits (unit_text u) with Some o => o =? u | None => false end &&
      forallb (fun c => negb (c =? 32) && negb (c =? 44)) (unit_text u)
  | [] => false
  end.
Lemma units_ok : forallb unit_ok [0; 1; 2; 3; 4; 5] = true.
Proof. vm_compute. reflexivity. Qed.
Lemma unit_ok_of u : 0 <= u <= 5 -> unit_ok u = true.
Proof.
  intro H. pose proof units_ok as A. rewrite forallb_forall in A. apply A.
  assert (u = 0 \/ u = 1 \/ u = 2 \/ u = 3 \/ u = 4 \/ u = 5) as Hu by lia.
  simpl. intuition.
Qed.

(* value of a list of fraction digits *)
Definition fv (l : list Z) : Q := Qmake (nat_of l) (ten_to (length l)).

Lemma nat_of_cons d l : nat_of (d :: l) = d * Zpos (ten_to (length l)) + nat_of l.
Proof. unfold nat_of. cbn [fold_left]. rewrite fold_shift. lia. Qed.

Lemma fv_cons d l : (fv (d :: l) == inject_Z d / 10 + fv l / 10)%Q.
Proof.
  unfold fv. rewrite nat_of_cons. cbn [length ten_to].
  unfold Qeq, Qdiv, Qplus, Qmult, Qinv, inject_Z. cbn [Qnum Qden]. lia.
Qed.

Lemma fv_nil : (fv [] == 0)%Q.
Proof. reflexivity. Qed.

Lemma rstrip0_fv l : (fv (rstrip0 l) == fv l)%Q.
Proof.
  induction l as [|d l IH]; [reflexivity|].
  cbn [rstrip0]. destruct (rstrip0 l) as [|r rs] eqn:E.
  - rewrite fv_cons. rewrite <- IH, fv_nil.
    destruct (d =? 0) eqn:Ed.
    + apply Z.eqb_eq in Ed. subst d. rewrite fv_nil. reflexivity.
    + rewrite fv_cons, fv_nil. reflexivity.
  - rewrite (fv_cons d (r :: rs)), (fv_cons d l), IH. reflexivity.
Qed.

Lemma rstrip0_dec l : all_dec l = true -> all_dec (rstrip0 l) = true.
Proof.
  induction l as [|d l IH]; [reflexivity|]. unfold all_dec in *. cbn [forallb rstrip0]. intro H.
  apply andb_true_iff in H as [H1 H2]. specialize (IH H2).
  destruct (rstrip0 l) as [|r rs].
  - destruct (d =? 0); [reflexivity|]. cbn [forallb]. rewrite H1. reflexivity.
  - cbn [forallb] in IH |- *. rewrite H1. exact IH.
Qed.

Lemma pow10z_succ k : pow10z (S k) = 10 * pow10z k.
Proof. reflexivity. Qed.
Lemma pow10z_pos k : 0 < pow10z k.
Proof. unfold pow10z. lia. Qed.

Lemma frac_digits_spec p : forall F, 0 <= F < pow10z p ->
  nat_of (frac_digits p F) = F /\ length (frac_digits p F) = p /\ all_dec (frac_digits p F) = true.
Proof.
  induction p as [|k IH]; intros F H.
  - cbn in H. assert (F = 0) by (unfold pow10z in H; simpl in H; lia). subst. repeat split; reflexivity.
  - cbn [frac_digits]. rewrite pow10z_succ in H. pose proof (pow10z_pos k) as Hp.
    assert (Hm : 0 <= F mod pow10z k < pow10z k) by (apply Z.mod_pos_bound; lia).
    destruct (IH _ Hm) as [H1 [H2 H3]].
    assert (Hq : 0 <= F / pow10z k <= 9).
    { split; [apply Z.div_pos; lia|]. assert (F / pow10z k < 10) by (apply Z.div_lt_upper_bound; lia). lia. }
    split; [|split].
    + rewrite nat_of_cons, H1, H2. replace (Zpos (ten_to k)) with (pow10z k) by (unfold pow10z; rewrite pow10_ten_to; reflexivity). pose proof (Z.div_mod F (pow10z k) ltac:(lia)). lia.
    + cbn [length]. rewrite H2. reflexivity.
    + unfold all_dec in *. cbn [forallb]. rewrite H3. unfold is_dec. lia.
Qed.

Lemma round_he_nonneg n d : 0 <= n -> 0 < d -> 0 <= round_he n d.
Proof.
  intros Hn Hd. destruct (round_he_cases n d Hd) as [[H|H] _]; rewrite H.
  - apply Z.div_pos; lia.
  - assert (0 <= n / d) by (apply Z.div_pos; lia). lia.
Qed.

Lemma round6_parts_sig x : let '(_, sig, _) := round6_parts x in 0 <= sig.
Proof.
  unfold round6_parts. destruct (Qnum x =? 0); [lia|].
  set (E := dec_exponent (Z.abs (Qnum x)) (Zpos (Qden x))).
  pose proof (pow10z_pos (Z.to_nat (5 - E))) as P1. pose proof (pow10z_pos (Z.to_nat (- (5 - E)))) as P2.
  destruct (0 <=? 5 - E).
  - set (sg := round_he _ _). assert (0 <= sg) by (apply round_he_nonneg; nia). destruct (sg =? 1000000); lia.
  - set (sg := round_he _ _). assert (0 <= sg) by (apply round_he_nonneg; nia). destruct (sg =? 1000000); lia.
Qed.

(* what the reader makes of a number written in fixed notation followed by a unit *)
Lemma parse_fixed (neg : bool) I fr u :
  0 <= I -> all_dec fr = true -> 0 <= u <= 5 ->
  parse_len ((if neg then [45] else []) ++ print_nat I ++ (match fr with [] => [] | _ :: _ => 46 :: dchars fr end) ++ unit_text u)
  = Some (mkLen (if neg then (- dec_value (print_nat I) (dchars fr))%Q else dec_value (print_nat I) (dchars fr)) u).
Proof.
  intros HI Hfr Hu.
  pose proof (unit_ok_of u Hu) as Huo. unfold unit_ok in Huo.
  destruct (unit_text u) as [|uc ur] eqn:Eu; [discriminate|].
  repeat (apply andb_true_iff in Huo as [Huo ?]).
  apply negb_true_iff in Huo. apply negb_true_iff in H4, H3, H2.
  destruct (nat_digits_ok I HI) as [_ [Hdec Hne]].
  rewrite print_nat_chrs. destruct (nat_digits I) as [|d ds] eqn:Ed; [discriminate|].
  assert (Hd : is_dec d = true). { unfold all_dec in Hdec. cbn [forallb] in Hdec. apply andb_true_iff in Hdec as [A _]. exact A. }
  unfold parse_len.
  set (tail := (match fr with [] => [] | _ :: _ => 46 :: dchars fr end) ++ uc :: ur).
  assert (Hsign : split_sign ((if neg then [45] else []) ++ chrs (d :: ds) ++ tail) = (neg, chrs (d :: ds) ++ tail)).
  { destruct neg; [reflexivity|]. cbn [app chrs List.map split_sign].
    unfold is_dec in Hd. replace (chr d =? 43) with false by (unfold chr; lia). replace (chr d =? 45) with false by (unfold chr; lia). reflexivity. }
  rewrite Hsign.
  assert (Htail : not_digit_head tail).
  { unfold tail. destruct fr; cbn [app not_digit_head]; [exact Huo|reflexivity]. }
  rewrite (span_digits_chrs (d :: ds) tail Hdec Htail).
  assert (Hfrac : split_frac tail = (dchars fr, uc :: ur)).
  { unfold tail. destruct fr as [|f fr'].
    - cbn [app split_frac]. rewrite H4. reflexivity.
    - cbn [app split_frac]. replace (46 =? 46) with true by reflexivity.
      rewrite dchars_chrs. rewrite (span_digits_chrs (f :: fr') (uc :: ur) Hfr Huo). reflexivity. }
  rewrite Hfrac.
  destruct (match_unit length_units (uc :: ur)) as [t|]; [|discriminate].
  apply text_eqb_eq in H1. subst t.
  destruct (enum_by_value enum_LengthUnits (uc :: ur)) as [o|]; [|discriminate].
  apply Z.eqb_eq in H0. subst o.
  cbn [chrs List.map]. reflexivity.
Qed.

(* ---- to_ttml_number: sign, integer part and fraction digits of the value rounded to six significant digits --------------------- *)
Lemma print_num_spec x : exists neg ip fr,
  print_num x = print_fixed neg ip fr /\ 0 <= ip /\ all_dec fr = true /\
  ((if neg then (- dec_value (print_nat ip) (dchars fr))%Q else dec_value (print_nat ip) (dchars fr)) == round6 x)%Q.
Proof.
  unfold print_num, round6. pose proof (round6_parts_sig x) as Hs.
  destruct (round6_parts x) as [[neg sig] ex]. unfold fixed_parts.
  destruct (0 <? ex) eqn:Epos.
  - (* an integer: sig * 10^ex *)
    exists neg, (sig * pow10z (Z.to_nat ex)), []. pose proof (pow10z_pos (Z.to_nat ex)) as Hp.
    assert (HI : 0 <= sig * pow10z (Z.to_nat ex)) by nia.
    split; [reflexivity|]. split; [exact HI|]. split; [reflexivity|].
    replace (0 <=? ex) with true by lia.
    assert (Hv : (dec_value (print_nat (sig * pow10z (Z.to_nat ex))) (dchars []) == inject_Z (sig * pow10z (Z.to_nat ex)))%Q).
    { change (print_nat (sig * pow10z (Z.to_nat ex))) with (chrs (nat_digits (sig * pow10z (Z.to_nat ex)))). change (dchars []) with (chrs []).
      rewrite dec_value_number. unfold number. destruct (nat_digits_ok _ HI) as [HnI _]. rewrite HnI.
      unfold Qeq, Qplus, inject_Z. cbn. lia. }
    destruct neg; rewrite Hv; unfold Qeq, Qopp, inject_Z; cbn [Qnum Qden]; lia.
  - set (p := Z.to_nat (- ex)). set (ip := sig / pow10z p). set (F := sig mod pow10z p).
    pose proof (pow10z_pos p) as Hp.
    assert (HF : 0 <= F < pow10z p) by (apply Z.mod_pos_bound; lia).
    assert (HI : 0 <= ip) by (apply Z.div_pos; lia).
    destruct (frac_digits_spec p F HF) as [Fn [Fl Fd]].
    pose proof (rstrip0_dec _ Fd) as Hfr.
    exists neg, ip, (rstrip0 (frac_digits p F)). split; [reflexivity|]. split; [exact HI|]. split; [exact Hfr|].
    assert (Hv : (dec_value (print_nat ip) (dchars (rstrip0 (frac_digits p F))) == inject_Z ip + Qmake F (pow10 p))%Q).
    { change (print_nat ip) with (chrs (nat_digits ip)). change (dchars (rstrip0 (frac_digits p F))) with (chrs (rstrip0 (frac_digits p F))).
      rewrite dec_value_number. unfold number.
      destruct (nat_digits_ok ip HI) as [HnI _]. rewrite HnI.
      change (Qmake (nat_of (rstrip0 (frac_digits p F))) (ten_to (length (rstrip0 (frac_digits p F))))) with (fv (rstrip0 (frac_digits p F))).
      rewrite rstrip0_fv. unfold fv. rewrite Fn. rewrite Fl. rewrite <- (pow10_ten_to p). reflexivity. }
    assert (Hsum : (inject_Z ip + Qmake F (pow10 p) == Qmake sig (pow10 p))%Q).
    { unfold Qeq, Qplus, inject_Z. cbn [Qnum Qden]. rewrite Pos.mul_1_l. fold (pow10z p).
      pose proof (Z.div_mod sig (pow10z p) ltac:(lia)) as Hdm. fold ip F in Hdm.
      set (P := pow10z p) in *. clearbody P ip F. rewrite Hdm. ring. }
    destruct (0 <=? ex) eqn:E0.
    + assert (ex = 0) by lia. subst ex.
      destruct neg; rewrite Hv, Hsum; change (pow10 p) with 1%positive; change (pow10z (Z.to_nat 0)) with 1;
        unfold Qeq, Qopp, inject_Z; cbn [Qnum Qden]; lia.
    + destruct neg; rewrite Hv, Hsum; unfold Qeq, Qopp; cbn [Qnum Qden]; lia.
Qed.

(* to_ttml_length then parse_length: the value rounded to six significant digits, the same unit - for every rational and every unit *)
Theorem len_roundtrip x u : 0 <= u <= 5 ->
  exists v, parse_len (print_len (mkLen x u)) = Some (mkLen v u) /\ (v == round6 x)%Q.
Proof.
  intros Hu. unfold print_len. cbn [l_val l_unit].
  destruct (print_num_spec x) as [neg [ip [fr [Hp [HI [Hfr Hv]]]]]]. rewrite Hp. unfold print_fixed.
  rewrite <- !app_assoc. rewrite (parse_fixed neg ip fr u HI Hfr Hu).
  eexists. split; [reflexivity|exact Hv].
Qed.

Ltac unfold_props :=
  unfold P_BackgroundColor, P_Color, P_Direction, P_Disparity, P_Display, P_DisplayAlign, P_Extent, P_FillLineGap, P_FontFamily,
    P_FontSize, P_FontStyle, P_FontWeight, P_LineHeight, P_LinePadding, P_LuminanceGain, P_MultiRowAlign, P_Opacity, P_Origin,
    P_Overflow, P_Padding, P_Position, P_RubyAlign, P_RubyPosition, P_RubyReserve, P_Shear, P_ShowBackground, P_TextAlign,
    P_TextCombine, P_TextDecoration, P_TextEmphasis, P_TextOutline, P_TextShadow, P_UnicodeBidi, P_Visibility, P_WrapOption,
    P_WritingMode in *; cbn [Z.eqb Pos.eqb orb] in *.

(* ---- length-valued properties ------------------------------------------------------------------------------------------- *)
Definition valid_len (l : len) : Prop := 0 <= l_unit l <= 5.
Definition len_equiv (l l' : len) : Prop := l_unit l' = l_unit l /\ (l_val l' == round6 (l_val l))%Q.

Lemma len_rt l : valid_len l -> exists l', parse_len (print_len l) = Some l' /\ len_equiv l l'.
Proof.
  intros Hu. unfold valid_len in Hu. destruct l as [x u]. cbn [l_val l_unit] in *.
  destruct (len_roundtrip x u Hu) as [v [H1 H2]]. exists (mkLen v u). split; [exact H1|]. split; [reflexivity|exact H2].
Qed.

(* characters of a printed length: it starts with '-' or a digit and contains neither a space nor a comma *)
Definition plain (c : Z) : bool := negb (c =? 32) && negb (c =? 44).

Lemma dchars_plain l : all_dec l = true -> forallb plain (dchars l) = true.
Proof.
  unfold dchars. induction l as [|d l IH]; [reflexivity|]. unfold all_dec in *. cbn [forallb List.map]. intro H.
  apply andb_true_iff in H as [H1 H2]. rewrite (IH H2), andb_true_r. unfold is_dec in H1. unfold plain. lia.
Qed.

Lemma print_fixed_shape neg ip fr : 0 <= ip -> all_dec fr = true ->
  forallb plain (print_fixed neg ip fr) = true /\
  exists c rest, print_fixed neg ip fr = c :: rest /\ ((c =? 45) || is_digit c = true).
Proof.
  intros HI Hfr. unfold print_fixed. destruct (nat_digits_ok ip HI) as [_ [Hdec Hne]]. split.
  - pose proof (dchars_plain _ Hfr) as Hfrp.
    assert (Hfrac : forallb plain (match fr with [] => [] | _ :: _ => 46 :: dchars fr end) = true).
    { destruct fr as [|z zl]; [reflexivity|].
      change (forallb plain (46 :: dchars (z :: zl))) with (plain 46 && forallb plain (dchars (z :: zl))). rewrite Hfrp. reflexivity. }
    rewrite !forallb_app. rewrite Hfrac. change (print_nat ip) with (dchars (nat_digits ip)). rewrite (dchars_plain _ Hdec).
    destruct neg; reflexivity.
  - change (print_nat ip) with (chrs (nat_digits ip)). destruct (nat_digits ip) as [|d ds]; [discriminate|].
    destruct neg; cbn [app chrs List.map].
    + eexists _, _. split; reflexivity.
    + eexists _, _. split; [reflexivity|]. unfold all_dec in Hdec. cbn [forallb] in Hdec. apply andb_true_iff in Hdec as [A _].
      apply orb_true_iff. right. apply is_dec_digit. exact A.
Qed.

Lemma print_len_shape l : valid_len l ->
  forallb plain (print_len l) = true /\
  exists c rest, print_len l = c :: rest /\ ((c =? 45) || is_digit c = true).
Proof.
  intros Hu. unfold valid_len in Hu. destruct l as [x u]. cbn [l_val l_unit] in *.
  unfold print_len. cbn [l_val l_unit].
  destruct (print_num_spec x) as [neg [ip [fr [Hp [HI [Hfr _]]]]]]. rewrite Hp.
  destruct (print_fixed_shape neg ip fr HI Hfr) as [Hpl [c [rest [E Hc]]]].
  pose proof (unit_ok_of u Hu) as Huo. unfold unit_ok in Huo.
  destruct (unit_text u) as [|uc ur] eqn:Eu; [discriminate|].
  repeat (apply andb_true_iff in Huo as [Huo ?]).
  split.
  - assert (Hup : forallb plain (uc :: ur) = true) by (match goal with A : forallb _ (uc :: ur) = true |- _ => exact A end).
    rewrite forallb_app, Hpl, Hup. reflexivity.
  - rewrite E. cbn [app]. eexists _, _. split; [reflexivity|exact Hc].
Qed.

Lemma printed_not_keyword l (k : text) kc kr : valid_len l -> k = kc :: kr -> (kc =? 45) || is_digit kc = false ->
  text_eqb (print_len l) k = false.
Proof.
  intros Hv -> Hk. destruct (print_len_shape l Hv) as [_ [c [rest [E Hc]]]]. rewrite E. cbn [text_eqb].
  destruct (c =? kc) eqn:Ec; [|reflexivity]. apply Z.eqb_eq in Ec. subst c. rewrite Hk in Hc. discriminate.
Qed.

(* tts:fontSize, tts:disparity *)
Theorem length_property_roundtrip p l : p = P_FontSize \/ p = P_Disparity -> valid_len l ->
  print_style p (SLen l) = WAttr (print_len l) /\
  exists l', read_style p (print_len l) = Some (SLen l') /\ len_equiv l l'.
Proof.
  intros Hp Hv. split; [reflexivity|]. destruct (len_rt l Hv) as [l' [H1 H2]]. exists l'. split; [|exact H2].
  unfold read_style, extract_style. destruct Hp as [-> | ->]; cbn [Z.eqb orb]; rewrite H1; reflexivity.
Qed.

(* tts:lineHeight: normal, or a length *)
Theorem line_height_roundtrip l : valid_len l ->
  read_style P_LineHeight T_normal = Some SNormal /\ print_style P_LineHeight SNormal = WAttr T_normal /\
  exists l', read_style P_LineHeight (print_len l) = Some (SLen l') /\ len_equiv l l'.
Proof.
  intro Hv. split; [reflexivity|]. split; [reflexivity|].
  destruct (len_rt l Hv) as [l' [H1 H2]]. exists l'. split; [|exact H2].
  unfold read_style, extract_style. cbn [Z.eqb orb].
  rewrite (printed_not_keyword l T_normal 110 [111; 114; 109; 97; 108] Hv) by reflexivity.
  rewrite H1. reflexivity.
Qed.

(* ebutts:linePadding in c; the other units the model accepts are the recorded finding linepadding-units *)
Theorem line_padding_roundtrip_partial l : valid_len l -> l_unit l = U_c ->
  exists l', read_style P_LinePadding (print_len l) = Some (SLen l') /\ len_equiv l l'.
Proof.
  intros Hv Hc. destruct (len_rt l Hv) as [l' [H1 [H2 H3]]]. exists l'. split; [|split; assumption].
  unfold read_style, extract_style, validate_style.
  change ((P_LinePadding =? P_BackgroundColor) || (P_LinePadding =? P_Color)) with false.
  change ((P_LinePadding =? P_FontSize) || (P_LinePadding =? P_Disparity)) with false.
  change (P_LinePadding =? P_LineHeight) with false. change (P_LinePadding =? P_LinePadding) with true.
  cbv iota. rewrite H1, H2, Hc. change (U_c =? U_c) with true. cbv iota. rewrite H2, Hc. reflexivity.
Qed.

(* ---- str.split(" ") on printed lengths --------------------------------------------------------------------------------- *)
Lemma split_plain a : forallb plain a = true -> forall cur, split_on 32 a cur = [cur ++ a].
Proof.
  induction a as [|c a IH]; intros H cur; cbn [split_on].
  - rewrite app_nil_r. reflexivity.
  - cbn [forallb] in H. apply andb_true_iff in H as [H1 H2]. unfold plain in H1.
    replace (c =? 32) with false by lia. rewrite (IH H2). rewrite <- app_assoc. reflexivity.
Qed.

Lemma split_plain_app a b : forallb plain a = true -> forall cur, split_on 32 (a ++ 32 :: b) cur = (cur ++ a) :: split_on 32 b [].
Proof.
  induction a as [|c a IH]; intros H cur; cbn [split_on app].
  - rewrite app_nil_r. reflexivity.
  - cbn [forallb] in H. apply andb_true_iff in H as [H1 H2]. unfold plain in H1.
    replace (c =? 32) with false by lia. rewrite (IH H2). rewrite <- app_assoc. reflexivity.
Qed.

(* tts:extent and tts:origin: two lengths *)
Theorem extent_roundtrip w h : valid_len w -> valid_len h -> validate_style P_Extent (SExtent w h) = true ->
  exists s, print_style P_Extent (SExtent w h) = WAttr s /\
  exists w' h', read_style P_Extent s = Some (SExtent w' h') /\ len_equiv w w' /\ len_equiv h h'.
Proof.
  intros Hw Hh Hval. eexists. split; [reflexivity|].
  destruct (len_rt w Hw) as [w' [W1 [W2 W3]]]. destruct (len_rt h Hh) as [h' [H1 [H2 H3]]].
  exists w', h'. split; [|split; split; assumption].
  unfold read_style, extract_style. unfold_props.
  destruct (print_len_shape w Hw) as [Pw [c [rest [Ew Hc]]]]. destruct (print_len_shape h Hh) as [Ph _].
  assert (Hauto : text_eqb (print_len w ++ sp ++ print_len h) T_auto = false).
  { rewrite Ew. unfold T_auto. cbn [app text_eqb]. destruct (c =? 97) eqn:E; [|reflexivity]. apply Z.eqb_eq in E. subst c. discriminate. }
  rewrite Hauto. unfold sp. cbn [app].
  rewrite (split_plain_app _ _ Pw []), (split_plain _ Ph []). cbn [app].
  rewrite W1, H1. cbn [omap2 validate_style] in *. rewrite W2, H2. rewrite Hval. reflexivity.
Qed.

Theorem origin_roundtrip x y : valid_len x -> valid_len y -> validate_style P_Origin (SOrigin x y) = true ->
  exists s, print_style P_Origin (SOrigin x y) = WAttr s /\
  exists x' y', read_style P_Origin s = Some (SOrigin x' y') /\ len_equiv x x' /\ len_equiv y y'.
Proof.
  intros Hw Hh Hval. eexists. split; [reflexivity|].
  destruct (len_rt x Hw) as [w' [W1 [W2 W3]]]. destruct (len_rt y Hh) as [h' [H1 [H2 H3]]].
  exists w', h'. split; [|split; split; assumption].
  unfold read_style, extract_style. unfold_props.
  destruct (print_len_shape x Hw) as [Pw [c [rest [Ew Hc]]]]. destruct (print_len_shape y Hh) as [Ph _].
  assert (Hauto : text_eqb (print_len x ++ sp ++ print_len y) T_auto = false).
  { rewrite Ew. unfold T_auto. cbn [app text_eqb]. destruct (c =? 97) eqn:E; [|reflexivity]. apply Z.eqb_eq in E. subst c. discriminate. }
  rewrite Hauto. unfold sp. cbn [app].
  rewrite (split_plain_app _ _ Pw []), (split_plain _ Ph []). cbn [app].
  rewrite W1, H1. cbn [omap2 validate_style] in *. rewrite W2, H2. rewrite Hval. reflexivity.
Qed.

(* tts:padding: four lengths *)
Theorem padding_roundtrip b e a s : valid_len b -> valid_len e -> valid_len a -> valid_len s ->
  exists t, print_style P_Padding (SPadding b e a s) = WAttr t /\
  exists b' e' a' s', read_style P_Padding t = Some (SPadding b' e' a' s') /\
    len_equiv b b' /\ len_equiv e e' /\ len_equiv a a' /\ len_equiv s s'.
Proof.
  intros Hb He Ha Hs. eexists. split; [reflexivity|].
  destruct (len_rt b Hb) as [b' [B1 B2]]. destruct (len_rt e He) as [e' [E1 E2]].
  destruct (len_rt a Ha) as [a' [A1 A2]]. destruct (len_rt s Hs) as [s' [S1 S2]].
  exists b', e', a', s'. split; [|repeat split; try apply B2; try apply E2; try apply A2; try apply S2].
  unfold read_style, extract_style. unfold_props.
  destruct (print_len_shape b Hb) as [Pb _]. destruct (print_len_shape e He) as [Pe _].
  destruct (print_len_shape a Ha) as [Pa _]. destruct (print_len_shape s Hs) as [Ps _].
  unfold sp. cbn [app].
  rewrite (split_plain_app _ _ Pb []), (split_plain_app _ _ Pe []), (split_plain_app _ _ Pa []), (split_plain _ Ps []). cbn [app].
  rewrite B1, E1, A1, S1. reflexivity.
Qed.

(* tts:backgroundColor: written unless transparent (finding transparent-background) *)
Theorem background_roundtrip_partial r g b a : byte r -> byte g -> byte b -> byte a -> color_eqb (r, g, b, a) transparent = false ->
  print_style P_BackgroundColor (SColor (r, g, b, a)) = WAttr (print_color (r, g, b, a)) /\
  read_style P_BackgroundColor (print_color (r, g, b, a)) = Some (SColor (r, g, b, a)).
Proof.
  intros Hr Hg Hb Ha Ht. split.
  - cbn [print_style]. change (P_BackgroundColor =? P_BackgroundColor) with true. cbv iota. rewrite Ht. reflexivity.
  - unfold read_style, extract_style. change ((P_BackgroundColor =? P_BackgroundColor) || (P_BackgroundColor =? P_Color)) with true.
    cbv iota. rewrite color_roundtrip by assumption. reflexivity.
Qed.

(* the writer's value printers never raise AttributeError on a value the model accepts: the only case is the special value
   normal outside tts:lineHeight, which is not a valid model value *)
Theorem print_attribute_error p v : print_style p v = WErr 3 -> v = SNormal /\ p <> P_LineHeight.
Proof.
  destruct v; cbn [print_style]; try discriminate;
    try (repeat match goal with |- context [match ?e with _ => _ end] => destruct e end; discriminate).
  destruct (p =? P_LineHeight) eqn:E; [discriminate|]. intros _. split; [reflexivity|]. intro H. subst p. discriminate.
Qed.

(* ---- tts:textDecoration: the 27 values (finite domain, decided) ---------------------------------------------------------------- *)
Definition ob3 : list (option bool) := [None; Some true; Some false].
Definition obool_eqb' (a b : option bool) : bool := match a, b with None, None => true | Some x, Some y => Bool.eqb x y | _, _ => false end.
Definition text_dec_ok (u l o : option bool) : bool :=
  match print_style P_TextDecoration (STextDec u l o) with
  | WAttr s => match read_style P_TextDecoration s with Some (STextDec u' l' o') => obool_eqb' u u' && obool_eqb' l l' && obool_eqb' o o' | _ => false end
  | WSkip => match u, l, o with None, None, None => true | _, _, _ => false end      (* no component: nothing to write *)
  | _ => false
  end.
Lemma text_dec_all : forallb (fun u => forallb (fun l => forallb (fun o => text_dec_ok u l o) ob3) ob3) ob3 = true.
Proof. vm_compute. reflexivity. Qed.

(* every value with at least one component is written and read back; the value without any component (which changes nothing when
   it is specified on an element) is not written *)
Theorem text_decoration_roundtrip u l o :
  match u, l, o with
  | None, None, None => print_style P_TextDecoration (STextDec u l o) = WSkip
  | _, _, _ => exists s, print_style P_TextDecoration (STextDec u l o) = WAttr s /\ read_style P_TextDecoration s = Some (STextDec u l o)
  end.
Proof.
  destruct u as [[|]|], l as [[|]|], o as [[|]|]; try reflexivity; eexists; split; vm_compute; reflexivity.
Qed.

(* ---- tts:rubyReserve and tts:textOutline: a keyword / a colour, and a length ------------------------------------------------- *)
Lemma split_two a b : forallb plain a = true -> forallb plain b = true -> split_on 32 (a ++ sp ++ b) [] = [a; b].
Proof. intros Ha Hb. unfold sp. cbn [app]. rewrite (split_plain_app _ _ Ha []), (split_plain _ Hb []). reflexivity. Qed.

Definition reserve_pos_ok (pos : Z) : bool :=
  match enum_value enum_RubyReservePosition pos with
  | Some ps => forallb plain ps && negb (text_eqb ps T_none) &&
               match enum_by_name enum_RubyReservePosition ps with Some o => o =? pos | None => false end
  | None => false
  end.
Lemma reserve_positions_ok : forallb reserve_pos_ok [0; 1; 2; 3] = true.
Proof. vm_compute. reflexivity. Qed.

Theorem ruby_reserve_roundtrip pos l : 0 <= pos <= 3 -> valid_len l ->
  read_style P_RubyReserve T_none = Some SNone /\ print_style P_RubyReserve SNone = WAttr T_none /\
  (exists s, print_style P_RubyReserve (SReserve pos None) = WAttr s /\ read_style P_RubyReserve s = Some (SReserve pos None)) /\
  (exists s, print_style P_RubyReserve (SReserve pos (Some l)) = WAttr s /\
             exists l', read_style P_RubyReserve s = Some (SReserve pos (Some l')) /\ len_equiv l l').
Proof.
  intros Hp Hv. split; [reflexivity|]. split; [reflexivity|].
  assert (Hok : reserve_pos_ok pos = true).
  { pose proof reserve_positions_ok as A. rewrite forallb_forall in A. apply A.
    assert (pos = 0 \/ pos = 1 \/ pos = 2 \/ pos = 3) by lia. simpl. intuition. }
  unfold reserve_pos_ok in Hok. destruct (enum_value enum_RubyReservePosition pos) as [ps|] eqn:Ev; [|discriminate].
  apply andb_true_iff in Hok as [Hok Hn]. apply andb_true_iff in Hok as [Hpl Hnn]. apply negb_true_iff in Hnn.
  destruct (enum_by_name enum_RubyReservePosition ps) as [o|] eqn:En; [|discriminate]. apply Z.eqb_eq in Hn. subst o.
  split.
  - exists ps. split; [cbn [print_style]; rewrite Ev; rewrite app_nil_r; reflexivity|].
    unfold read_style, extract_style. unfold_props. rewrite Hnn, (split_plain _ Hpl []). cbn [app]. rewrite En. reflexivity.
  - destruct (len_rt l Hv) as [l' [L1 L2]]. destruct (print_len_shape l Hv) as [Pl _].
    exists (ps ++ sp ++ print_len l). split; [cbn [print_style]; rewrite Ev; reflexivity|].
    exists l'. split; [|exact L2].
    unfold read_style, extract_style. unfold_props.
    assert (Hnot : text_eqb (ps ++ sp ++ print_len l) T_none = false).
    { destruct (text_eqb (ps ++ sp ++ print_len l) T_none) eqn:E; [|reflexivity]. apply text_eqb_eq in E.
      assert (Hf : forallb plain (ps ++ sp ++ print_len l) = true) by (rewrite E; reflexivity).
      rewrite !forallb_app in Hf. apply andb_true_iff in Hf as [_ Hf]. apply andb_true_iff in Hf as [Hf _]. discriminate. }
    rewrite Hnot, (split_two _ _ Hpl Pl), En, L1. reflexivity.
Qed.

Lemma print_color_plain r g b a : byte r -> byte g -> byte b -> byte a -> forallb plain (print_color (r, g, b, a)) = true.
Proof.
  intros Hr Hg Hb Ha. unfold print_color, hex2.
  assert (Hh : forall d, 0 <= d < 16 -> plain (hexd d) = true).
  { intros d Hd. unfold hexd, plain. destruct (d <? 10); lia. }
  assert (H16 : forall c, byte c -> 0 <= c / 16 < 16 /\ 0 <= c mod 16 < 16) by (unfold byte; intros; lia).
  destruct (H16 r Hr), (H16 g Hg), (H16 b Hb), (H16 a Ha).
  destruct (a =? 255); cbn [app forallb]; rewrite !Hh by assumption; reflexivity.
Qed.

Theorem text_outline_roundtrip r g b a l : byte r -> byte g -> byte b -> byte a -> valid_len l ->
  read_style P_TextOutline T_none = Some SNone /\ print_style P_TextOutline SNone = WAttr T_none /\
  (exists s, print_style P_TextOutline (SOutline None l) = WAttr s /\
             exists l', read_style P_TextOutline s = Some (SOutline None l') /\ len_equiv l l') /\
  (exists s, print_style P_TextOutline (SOutline (Some (r, g, b, a)) l) = WAttr s /\
             exists l', read_style P_TextOutline s = Some (SOutline (Some (r, g, b, a)) l') /\ len_equiv l l').
Proof.
  intros Hr Hg Hb Ha Hv. split; [reflexivity|]. split; [reflexivity|].
  destruct (len_rt l Hv) as [l' [L1 L2]]. destruct (print_len_shape l Hv) as [Pl _].
  split.
  - exists (print_len l). split; [reflexivity|]. exists l'. split; [|exact L2].
    unfold read_style, extract_style. unfold_props.
    rewrite (printed_not_keyword l T_none 110 [111; 110; 101] Hv) by reflexivity.
    rewrite (split_plain _ Pl []). cbn [app]. rewrite L1. reflexivity.
  - exists (print_color (r, g, b, a) ++ sp ++ print_len l). split; [reflexivity|]. exists l'. split; [|exact L2].
    unfold read_style, extract_style. unfold_props.
    pose proof (print_color_plain r g b a Hr Hg Hb Ha) as Pc.
    assert (Hnot : text_eqb (print_color (r, g, b, a) ++ sp ++ print_len l) T_none = false) by reflexivity.
    rewrite Hnot, (split_two _ _ Pc Pl), L1, (color_roundtrip r g b a Hr Hg Hb Ha). reflexivity.
Qed.

(* ---- tts:position: "<h-edge> <length> <v-edge> <length>" as the writer prints it ------------------------------------------------ *)
Definition plain_ws (c : Z) : bool :=
  negb ((c =? 32) || ((9 <=? c) && (c <=? 13)) || ((28 <=? c) && (c <=? 31)) || (c =? 133) || (c =? 160)).

Lemma split_ws_plain a : forallb plain_ws a = true -> a <> [] -> forall cur, split_ws a cur = [cur ++ a].
Proof.
  induction a as [|c a IH]; intros H Hne cur; [contradiction|]. cbn [forallb] in H. apply andb_true_iff in H as [H1 H2].
  cbn [split_ws]. unfold plain_ws in H1. apply negb_true_iff in H1. rewrite H1.
  destruct a as [|c2 a2].
  - cbn [split_ws]. destruct (cur ++ [c]) eqn:E; [destruct cur; discriminate|]. reflexivity.
  - rewrite (IH H2) by discriminate. rewrite <- app_assoc. reflexivity.
Qed.

Lemma split_ws_plain_app a b : forallb plain_ws a = true -> a <> [] -> split_ws (a ++ 32 :: b) [] = a :: split_ws b [].
Proof.
  intros H Hne.
  assert (G : forall cur, cur ++ a <> [] -> split_ws (a ++ 32 :: b) cur = (cur ++ a) :: split_ws b []).
  { clear Hne. induction a as [|c a IH]; intros cur Hc.
    - cbn [app split_ws]. replace ((32 =? 32) || ((9 <=? 32) && (32 <=? 13)) || ((28 <=? 32) && (32 <=? 31)) || (32 =? 133) || (32 =? 160)) with true by reflexivity.
      rewrite app_nil_r in *. destruct cur; [contradiction|]. reflexivity.
    - cbn [forallb] in H. apply andb_true_iff in H as [H1 H2]. cbn [app split_ws].
      unfold plain_ws in H1. apply negb_true_iff in H1. rewrite H1.
      rewrite (IH H2 (cur ++ [c])) by (destruct cur; discriminate). rewrite <- app_assoc. reflexivity. }
  apply (G []). exact Hne.
Qed.

(* printed lengths contain no white space at all *)
Definition unit_plain_ws (u : Z) : bool := forallb plain_ws (unit_text u).
Lemma units_plain_ws : forallb unit_plain_ws [0; 1; 2; 3; 4; 5] = true.
Proof. vm_compute. reflexivity. Qed.

Lemma dchars_plain_ws l : all_dec l = true -> forallb plain_ws (dchars l) = true.
Proof.
  unfold dchars. induction l as [|d l IH]; [reflexivity|]. unfold all_dec in *. cbn [forallb List.map]. intro H.
  apply andb_true_iff in H as [H1 H2]. rewrite (IH H2), andb_true_r. unfold is_dec in H1. unfold plain_ws. lia.
Qed.

Lemma print_fixed_plain_ws neg ip fr : 0 <= ip -> all_dec fr = true ->
  forallb plain_ws (print_fixed neg ip fr) = true /\ print_fixed neg ip fr <> [].
Proof.
  intros HI Hfr. unfold print_fixed. destruct (nat_digits_ok ip HI) as [_ [Hdec Hne]].
  pose proof (dchars_plain_ws _ Hfr) as Hfrp.
  assert (Hfrac : forallb plain_ws (match fr with [] => [] | _ :: _ => 46 :: dchars fr end) = true).
  { destruct fr as [|z zl]; [reflexivity|].
    change (forallb plain_ws (46 :: dchars (z :: zl))) with (plain_ws 46 && forallb plain_ws (dchars (z :: zl))). rewrite Hfrp. reflexivity. }
  split.
  - rewrite !forallb_app. rewrite Hfrac. change (print_nat ip) with (dchars (nat_digits ip)). rewrite (dchars_plain_ws _ Hdec).
    destruct neg; reflexivity.
  - change (print_nat ip) with (chrs (nat_digits ip)). destruct (nat_digits ip) as [|d ds]; [discriminate|].
    destruct neg; discriminate.
Qed.

Lemma print_len_plain_ws l : valid_len l -> forallb plain_ws (print_len l) = true /\ print_len l <> [].
Proof.
  intros Hu. unfold valid_len in Hu. destruct l as [x u]. cbn [l_val l_unit] in *.
  unfold print_len. cbn [l_val l_unit].
  destruct (print_num_spec x) as [neg [ip [fr [Hp [HI [Hfr _]]]]]]. rewrite Hp.
  destruct (print_fixed_plain_ws neg ip fr HI Hfr) as [P1 P2].
  assert (Hup : forallb plain_ws (unit_text u) = true).
  { pose proof units_plain_ws as A. rewrite forallb_forall in A. apply (A u).
    assert (u = 0 \/ u = 1 \/ u = 2 \/ u = 3 \/ u = 4 \/ u = 5) by lia. simpl. intuition. }
  split.
  - rewrite forallb_app, P1, Hup. reflexivity.
  - destruct (print_fixed neg ip fr); [contradiction|discriminate].
Qed.

Definition edge_ok (tbl : list (list Z * Z * list Z)) (names : list text) (o : Z) : bool :=
  match enum_value tbl o with
  | Some s => forallb plain_ws s && negb (text_eqb s []) && existsb (text_eqb s) names &&
              match enum_by_value tbl s with Some o' => o' =? o | None => false end
  | None => false
  end.
Lemma edges_ok : forallb (edge_ok enum_HEdge [T_left; T_right]) [0; 1] && forallb (edge_ok enum_VEdge [T_top; T_bottom]) [0; 1] = true.
Proof. vm_compute. reflexivity. Qed.

Theorem position_roundtrip he ho ve vo :
  0 <= he <= 1 -> 0 <= ve <= 1 -> valid_len ho -> valid_len vo -> validate_style P_Position (SPosition he ho ve vo) = true ->
  exists s, print_style P_Position (SPosition he ho ve vo) = WAttr s /\
  exists ho' vo', read_style P_Position s = Some (SPosition he ho' ve vo') /\ len_equiv ho ho' /\ len_equiv vo vo'.
Proof.
  intros Hhe Hve Hho Hvo Hval.
  pose proof edges_ok as HE. apply andb_true_iff in HE as [HEh HEv]. rewrite forallb_forall in HEh, HEv.
  assert (Hh : edge_ok enum_HEdge [T_left; T_right] he = true).
  { apply HEh. assert (he = 0 \/ he = 1) by lia. simpl. intuition. }
  assert (Hv : edge_ok enum_VEdge [T_top; T_bottom] ve = true).
  { apply HEv. assert (ve = 0 \/ ve = 1) by lia. simpl. intuition. }
  unfold edge_ok in Hh, Hv.
  destruct (enum_value enum_HEdge he) as [hs|] eqn:Ehs; [|discriminate].
  destruct (enum_value enum_VEdge ve) as [vs|] eqn:Evs; [|discriminate].
  repeat (apply andb_true_iff in Hh as [Hh ?]). repeat (apply andb_true_iff in Hv as [Hv ?]).
  destruct (enum_by_value enum_HEdge hs) as [he'|] eqn:Ebh; [|discriminate].
  destruct (enum_by_value enum_VEdge vs) as [ve'|] eqn:Ebv; [|discriminate].
  match goal with A : (he' =? he) = true |- _ => apply Z.eqb_eq in A; subst he' end.
  match goal with A : (ve' =? ve) = true |- _ => apply Z.eqb_eq in A; subst ve' end.
  destruct (len_rt ho Hho) as [ho' [Lh1 [Lh2 Lh3]]]. destruct (len_rt vo Hvo) as [vo' [Lv1 [Lv2 Lv3]]].
  destruct (print_len_plain_ws ho Hho) as [Ph Nh]. destruct (print_len_plain_ws vo Hvo) as [Pv Nv].
  exists (hs ++ sp ++ print_len ho ++ sp ++ vs ++ sp ++ print_len vo).
  split; [cbn [print_style]; rewrite Ehs, Evs; reflexivity|].
  exists ho', vo'. split; [|split; split; assumption].
  assert (Hhne : hs <> []). { intro E. subst hs. discriminate. }
  assert (Hvne : vs <> []). { intro E. subst vs. discriminate. }
  unfold read_style, extract_style. unfold_props. unfold parse_position.
  unfold sp. cbn [app].
  rewrite (split_ws_plain_app hs _ Hh Hhne), (split_ws_plain_app (print_len ho) _ Ph Nh), (split_ws_plain_app vs _ Hv Hvne),
          (split_ws_plain (print_len vo) Pv Nv []).
  cbn [app length Z.of_nat Pos.of_succ_nat Pos.succ Z.eqb Pos.eqb orb].
  (* the four items through pos34 *)
  assert (Hhk : text_eqb hs T_left || text_eqb hs T_right = true).
  { match goal with A : existsb (text_eqb hs) [T_left; T_right] = true |- _ => cbn [existsb] in A; rewrite orb_false_r in A; exact A end. }
  assert (Hvk : text_eqb vs T_top || text_eqb vs T_bottom = true).
  { match goal with A : existsb (text_eqb vs) [T_top; T_bottom] = true |- _ => cbn [existsb] in A; rewrite orb_false_r in A; exact A end. }
  assert (Hvh : text_eqb vs T_left || text_eqb vs T_right = false).
  { destruct (text_eqb vs T_top) eqn:E1; [apply text_eqb_eq in E1; subst vs; reflexivity|].
    destruct (text_eqb vs T_bottom) eqn:E2; [apply text_eqb_eq in E2; subst vs; reflexivity|]. discriminate. }
  assert (Hlen_kw : forall l, valid_len l -> (text_eqb (print_len l) T_left || text_eqb (print_len l) T_right = false) /\
                                             (text_eqb (print_len l) T_top || text_eqb (print_len l) T_bottom = false) /\
                                             text_eqb (print_len l) T_center = false).
  { intros l Hl. rewrite (printed_not_keyword l T_left 108 [101; 102; 116] Hl), (printed_not_keyword l T_right 114 [105; 103; 104; 116] Hl),
      (printed_not_keyword l T_top 116 [111; 112] Hl), (printed_not_keyword l T_bottom 98 [111; 116; 116; 111; 109] Hl),
      (printed_not_keyword l T_center 99 [101; 110; 116; 101; 114] Hl) by reflexivity. auto. }
  destruct (Hlen_kw ho Hho) as [K1 [K2 K3]]. destruct (Hlen_kw vo Hvo) as [K4 [K5 K6]].
  cbn [pos34]. rewrite Hhk. cbn [pos34]. rewrite K1, K2, K3, Lh1. cbn [pos34]. rewrite Hvh, Hvk. cbn [pos34]. rewrite K4, K5, K6, Lv1. cbn [pos34].
  rewrite Ebh, Ebv. cbn [validate_style] in *. rewrite Lh2, Lv2, Hval. reflexivity.
Qed.

(* ---- tts:textShadow: any number of shadows, written "s1, s2, ..." and split on "," then on white space ------------------------- *)
Definition nocomma (c : Z) : bool := negb (c =? 44).
Lemma plain_nocomma a : forallb plain a = true -> forallb nocomma a = true.
Proof.
  induction a as [|c a IH]; [reflexivity|]. cbn [forallb]. intro H. apply andb_true_iff in H as [H1 H2].
  rewrite (IH H2), andb_true_r. unfold plain in H1. unfold nocomma. lia.
Qed.

Lemma parse_len_color r g b a : parse_len (print_color (r, g, b, a)) = None.
Proof. unfold print_color, parse_len. cbn [split_sign]. reflexivity. Qed.

Lemma print_color_plain_ws r g b a : byte r -> byte g -> byte b -> byte a ->
  forallb plain_ws (print_color (r, g, b, a)) = true /\ print_color (r, g, b, a) <> [].
Proof.
  intros Hr Hg Hb Ha. split; [|discriminate]. unfold print_color, hex2.
  assert (Hh : forall d, 0 <= d < 16 -> plain_ws (hexd d) = true).
  { intros d Hd. unfold hexd, plain_ws. destruct (d <? 10); lia. }
  assert (H16 : forall c, byte c -> 0 <= c / 16 < 16 /\ 0 <= c mod 16 < 16) by (unfold byte; intros; lia).
  destruct (H16 r Hr), (H16 g Hg), (H16 b Hb), (H16 a Ha).
  destruct (a =? 255); cbn [app forallb]; rewrite !Hh by assumption; reflexivity.
Qed.

Lemma ws_join2 a b : forallb plain_ws a = true -> a <> [] -> forallb plain_ws b = true -> b <> [] ->
  split_ws (a ++ sp ++ b) [] = [a; b].
Proof. intros. unfold sp. cbn [app]. rewrite (split_ws_plain_app a _ H H0), (split_ws_plain b H1 H2 []). reflexivity. Qed.
Lemma ws_join3 a b c : forallb plain_ws a = true -> a <> [] -> forallb plain_ws b = true -> b <> [] -> forallb plain_ws c = true -> c <> [] ->
  split_ws (a ++ sp ++ b ++ sp ++ c) [] = [a; b; c].
Proof. intros. unfold sp. cbn [app]. rewrite (split_ws_plain_app a _ H H0), (split_ws_plain_app b _ H1 H2), (split_ws_plain c H3 H4 []). reflexivity. Qed.
Lemma ws_join4 a b c d : forallb plain_ws a = true -> a <> [] -> forallb plain_ws b = true -> b <> [] -> forallb plain_ws c = true -> c <> [] ->
  forallb plain_ws d = true -> d <> [] -> split_ws (a ++ sp ++ b ++ sp ++ c ++ sp ++ d) [] = [a; b; c; d].
Proof.
  intros. unfold sp. cbn [app].
  rewrite (split_ws_plain_app a _ H H0), (split_ws_plain_app b _ H1 H2), (split_ws_plain_app c _ H3 H4), (split_ws_plain d H5 H6 []). reflexivity.
Qed.

Definition olen_equiv (a b : option len) : Prop := match a, b with Some x, Some y => len_equiv x y | None, None => True | _, _ => False end.
Definition ovalid (a : option len) : Prop := match a with Some x => valid_len x | None => True end.
Definition obyte (c : option color) : Prop := match c with Some (r, g, b, a) => byte r /\ byte g /\ byte b /\ byte a | None => True end.

Definition shadow := (len * len * option len * option color)%type.
Definition valid_shadow (s : shadow) : Prop := let '(x, y, blur, c) := s in valid_len x /\ valid_len y /\ ovalid blur /\ obyte c.
Definition shadow_equiv (s s' : shadow) : Prop :=
  let '(x, y, blur, c) := s in let '(x', y', blur', c') := s' in len_equiv x x' /\ len_equiv y y' /\ olen_equiv blur blur' /\ c' = c.

(* one shadow: printed, then split on white space and parsed; the printed text has no comma, starts with '-' or a digit *)
Lemma parse_shadow_print s : valid_shadow s ->
  (exists s', parse_shadow (print_shadow s) = Some s' /\ shadow_equiv s s') /\
  forallb nocomma (print_shadow s) = true /\
  exists c0 rest, print_shadow s = c0 :: rest /\ ((c0 =? 45) || is_digit c0 = true).
Proof.
  destruct s as [[[x y] blur] c]. intros [Hx [Hy [Hb Hc]]].
  destruct (len_rt x Hx) as [x' [X1 X2]]. destruct (len_rt y Hy) as [y' [Y1 Y2]].
  destruct (print_len_shape x Hx) as [Px [c0 [rest [Ex Hc0]]]]. destruct (print_len_shape y Hy) as [Py _].
  destruct (print_len_plain_ws x Hx) as [Wx Nx]. destruct (print_len_plain_ws y Hy) as [Wy Ny].
  cbn [print_shadow].
  split; [|split].
  - destruct blur as [bl|], c as [[[[r g] b] a]|]; cbn [ovalid obyte] in *; unfold parse_shadow.
    + destruct Hc as [Hr [Hg [Hbb Ha]]]. destruct (len_rt bl Hb) as [bl' [B1 B2]]. destruct (print_len_plain_ws bl Hb) as [Wb Nb].
      destruct (print_color_plain_ws r g b a Hr Hg Hbb Ha) as [Wc Nc].
      rewrite <- !app_assoc. rewrite (ws_join4 _ _ _ _ Wx Nx Wy Ny Wb Nb Wc Nc). rewrite X1, Y1, B1, (color_roundtrip r g b a Hr Hg Hbb Ha).
      eexists. split; [reflexivity|]. cbn. auto.
    + destruct (len_rt bl Hb) as [bl' [B1 B2]]. destruct (print_len_plain_ws bl Hb) as [Wb Nb].
      rewrite <- !app_assoc. rewrite app_nil_r. rewrite (ws_join3 _ _ _ Wx Nx Wy Ny Wb Nb). rewrite X1, Y1, B1.
      eexists. split; [reflexivity|]. cbn. auto.
    + destruct Hc as [Hr [Hg [Hbb Ha]]]. destruct (print_color_plain_ws r g b a Hr Hg Hbb Ha) as [Wc Nc].
      cbn [app]. rewrite (ws_join3 _ _ _ Wx Nx Wy Ny Wc Nc). rewrite X1, Y1, parse_len_color, (color_roundtrip r g b a Hr Hg Hbb Ha).
      eexists. split; [reflexivity|]. cbn. auto.
    + cbn [app]. rewrite app_nil_r. rewrite (ws_join2 _ _ Wx Nx Wy Ny). cbn [omap2]. rewrite X1, Y1.
      eexists. split; [reflexivity|]. cbn. auto.
  - assert (Hbl : forallb nocomma (match blur with Some b => sp ++ print_len b | None => [] end) = true).
    { destruct blur as [bl|]; [|reflexivity]. cbn [ovalid] in Hb. destruct (print_len_shape bl Hb) as [Pb _].
      unfold sp. cbn [app forallb]. rewrite (plain_nocomma _ Pb). reflexivity. }
    assert (Hcl : forallb nocomma (match c with Some k => sp ++ print_color k | None => [] end) = true).
    { destruct c as [[[[r g] b] a]|]; [|reflexivity]. destruct Hc as [Hr [Hg [Hbb Ha]]].
      unfold sp. cbn [app forallb]. rewrite (plain_nocomma _ (print_color_plain r g b a Hr Hg Hbb Ha)). reflexivity. }
    rewrite !forallb_app, (plain_nocomma _ Px), (plain_nocomma _ Py), Hbl, Hcl. reflexivity.
  - rewrite Ex. cbn [app]. eexists _, _. split; [reflexivity|exact Hc0].
Qed.

(* a space before a shadow (what follows the comma) is dropped by str.split() *)
Lemma parse_shadow_lead t : parse_shadow (32 :: t) = parse_shadow t.
Proof. reflexivity. Qed.

Lemma split_comma_none a : forall cur, forallb nocomma a = true -> split_on 44 a cur = [cur ++ a].
Proof.
  induction a as [|c a IH]; intros cur H; cbn [split_on].
  - rewrite app_nil_r. reflexivity.
  - cbn [forallb] in H. apply andb_true_iff in H as [H1 H2]. unfold nocomma in H1.
    replace (c =? 44) with false by lia. rewrite (IH _ H2). rewrite <- app_assoc. reflexivity.
Qed.
Lemma split_comma_app a b : forall cur, forallb nocomma a = true -> split_on 44 (a ++ 44 :: b) cur = (cur ++ a) :: split_on 44 b [].
Proof.
  induction a as [|c a IH]; intros cur H; cbn [split_on app].
  - rewrite app_nil_r. reflexivity.
  - cbn [forallb] in H. apply andb_true_iff in H as [H1 H2]. unfold nocomma in H1.
    replace (c =? 44) with false by lia. rewrite (IH _ H2). rewrite <- app_assoc. reflexivity.
Qed.

(* the list of shadows after the first: each is preceded by ", " *)
Lemma shadows_tail l : Forall valid_shadow l ->
  forall pre, (pre = [] \/ pre = [32]) ->
  l <> [] ->
  exists l', all_some (List.map parse_shadow (split_on 44 (pre ++ join_with [44; 32] (List.map print_shadow l)) [])) = Some l' /\
             Forall2 shadow_equiv l l'.
Proof.
  induction 1 as [|s l Hs Hl IH]; intros pre Hpre Hne; [contradiction|].
  destruct (parse_shadow_print s Hs) as [[s' [P1 P2]] [Pn _]].
  assert (Hpn : forallb nocomma (pre ++ print_shadow s) = true).
  { destruct Hpre as [-> | ->]; [exact Pn|]. cbn [app forallb]. rewrite Pn. reflexivity. }
  assert (Hps : parse_shadow (pre ++ print_shadow s) = Some s').
  { destruct Hpre as [-> | ->]; [exact P1|]. cbn [app]. rewrite parse_shadow_lead. exact P1. }
  destruct l as [|s2 l2].
  - cbn [List.map join_with]. rewrite (split_comma_none _ [] Hpn). cbn [app List.map all_some]. rewrite Hps.
    exists [s']. split; [reflexivity|]. constructor; [exact P2|constructor].
  - destruct (IH [32] (or_intror eq_refl) ltac:(discriminate)) as [l' [A1 A2]].
    set (tl := join_with [44; 32] (List.map print_shadow (s2 :: l2))) in *.
    assert (Hj : join_with [44; 32] (List.map print_shadow (s :: s2 :: l2)) = print_shadow s ++ [44; 32] ++ tl) by reflexivity.
    rewrite Hj.
    replace (pre ++ print_shadow s ++ [44; 32] ++ tl) with ((pre ++ print_shadow s) ++ 44 :: ([32] ++ tl))
      by (rewrite <- !app_assoc; reflexivity).
    rewrite (split_comma_app _ _ [] Hpn). cbn [app List.map all_some]. rewrite Hps.
    cbn [app] in A1. rewrite A1. exists (s' :: l'). split; [reflexivity|]. constructor; assumption.
Qed.

Theorem text_shadow_roundtrip l : Forall valid_shadow l -> l <> [] ->
  read_style P_TextShadow T_none = Some SNone /\ print_style P_TextShadow SNone = WAttr T_none /\
  exists s, print_style P_TextShadow (SShadows l) = WAttr s /\
  exists l', read_style P_TextShadow s = Some (SShadows l') /\ Forall2 shadow_equiv l l'.
Proof.
  intros Hl Hne. split; [reflexivity|]. split; [reflexivity|].
  eexists. split; [reflexivity|].
  destruct (shadows_tail l Hl [] (or_introl eq_refl) Hne) as [l' [A1 A2]]. cbn [app] in A1.
  exists l'. split; [|exact A2].
  unfold read_style, extract_style. unfold_props.
  assert (Hnone : text_eqb (join_with [44; 32] (List.map print_shadow l)) T_none = false).
  { destruct l as [|s l]; [contradiction|]. inversion Hl; subst.
    destruct (parse_shadow_print s H1) as [_ [_ [c0 [rest [E Hc0]]]]].
    cbn [List.map join_with]. destruct (List.map print_shadow l); rewrite E; unfold T_none; cbn [app text_eqb];
      (destruct (c0 =? 110) eqn:E0; [apply Z.eqb_eq in E0; subst c0; discriminate|reflexivity]). }
  rewrite Hnone, A1. reflexivity.
Qed.

(* ---- tts:textEmphasis: 7 styles x 3 positions, without colour (finite, decided) and with any RGBA8 colour --------------------- *)
Definition emph_ok_nocolor (st pos : Z) : bool :=
  match print_style P_TextEmphasis (SEmph st None pos) with
  | WAttr s => match read_style P_TextEmphasis s with Some (SEmph st' None pos') => (st' =? st) && (pos' =? pos) | _ => false end
  | _ => false
  end.
Lemma emph_nocolor_all : forallb (fun st => forallb (emph_ok_nocolor st) [0; 1; 2]) [0; 1; 2; 3; 4; 5; 6] = true.
Proof. vm_compute. reflexivity. Qed.

Definition style_tokens (st : Z) : list text :=
  match enum_value enum_TextEmphasisStyle st with Some s => split_on 32 s [] | None => [] end.
Definition style_of (ss sy : option text) : option Z :=
  match ss, sy with
  | None, None => enum_by_name enum_TextEmphasisStyle T_auto
  | _, _ => enum_by_value enum_TextEmphasisStyle
              ((match ss with Some x => x | None => [102;105;108;108;101;100] end) ++ sp ++ (match sy with Some x => x | None => [99;105;114;99;108;101] end))
  end.

Lemma split_style st rest : 0 <= st <= 6 ->
  exists s, enum_value enum_TextEmphasisStyle st = Some s /\ split_on 32 (s ++ 32 :: rest) [] = style_tokens st ++ split_on 32 rest [].
Proof.
  intro H. assert (Hs : st = 0 \/ st = 1 \/ st = 2 \/ st = 3 \/ st = 4 \/ st = 5 \/ st = 6) by lia.
  destruct Hs as [-> | [-> | [-> | [-> | [-> | [-> | ->]]]]]]; eexists; split; reflexivity.
Qed.

Lemma fold_style st rest : 0 <= st <= 6 ->
  exists ss sy, emph_fold (style_tokens st ++ rest) None None None None = emph_fold rest ss sy None None /\ style_of ss sy = Some st.
Proof.
  intro H. assert (Hs : st = 0 \/ st = 1 \/ st = 2 \/ st = 3 \/ st = 4 \/ st = 5 \/ st = 6) by lia.
  destruct Hs as [-> | [-> | [-> | [-> | [-> | [-> | ->]]]]]]; eexists _, _; split; reflexivity.
Qed.

Lemma split_pos pos : 0 <= pos <= 2 ->
  exists s, enum_value enum_TextEmphasisPosition pos = Some s /\ split_on 32 s [] = [s] /\
    forall ss sy c0 p0, emph_fold [s] ss sy c0 p0 = EmSt ss sy c0 (Some pos).
Proof.
  intro H. assert (Hp : pos = 0 \/ pos = 1 \/ pos = 2) by lia.
  destruct Hp as [-> | [-> | ->]]; (eexists; split; [reflexivity|split; [reflexivity|intros; reflexivity]]).
Qed.

Theorem text_emphasis_roundtrip st pos c : 0 <= st <= 6 -> 0 <= pos <= 2 -> obyte c ->
  exists s, print_style P_TextEmphasis (SEmph st c pos) = WAttr s /\ read_style P_TextEmphasis s = Some (SEmph st c pos).
Proof.
  intros Hst Hpos Hc.
  destruct c as [[[[r g] b] a]|].
  - destruct Hc as [Hr [Hg [Hb Ha]]].
    pose proof (print_color_plain r g b a Hr Hg Hb Ha) as Pc.
    pose proof (color_roundtrip r g b a Hr Hg Hb Ha) as Cr.
    destruct (split_pos pos Hpos) as [ps [Eps [Sps Fps]]].
    destruct (split_style st (print_color (r, g, b, a) ++ 32 :: ps) Hst) as [sst [Est Sst]].
    destruct (fold_style st [print_color (r, g, b, a); ps] Hst) as [ss [sy [Ff Fs]]].
    exists (sst ++ sp ++ print_color (r, g, b, a) ++ sp ++ ps).
    split; [cbn [print_style]; rewrite Est, Eps; reflexivity|].
    unfold read_style, extract_style. unfold_props. unfold sp. cbn [app].
    rewrite Sst, (split_plain_app _ _ Pc []), Sps. cbn [app].
    match goal with |- context [emph_fold ?l ?a1 ?a2 ?a3 ?a4] =>
      replace (emph_fold l a1 a2 a3 a4) with (emph_fold [print_color (r, g, b, a); ps] ss sy None None) by (symmetry; exact Ff) end.
    assert (Hpc : emph_fold [print_color (r, g, b, a); ps] ss sy None None = emph_fold [ps] ss sy (Some (r, g, b, a)) None).
    { cbn [emph_fold].
      replace (text_eqb (print_color (r, g, b, a)) T_none) with false by reflexivity.
      replace (text_eqb (print_color (r, g, b, a)) T_auto) with false by reflexivity.
      replace (mem_tok (print_color (r, g, b, a)) emph_styles) with false by reflexivity.
      replace (mem_tok (print_color (r, g, b, a)) emph_symbols) with false by reflexivity.
      replace (enum_by_name enum_TextEmphasisPosition (print_color (r, g, b, a))) with (@None Z) by reflexivity.
      replace (text_eqb (print_color (r, g, b, a)) [99; 117; 114; 114; 101; 110; 116]) with false by reflexivity.
      rewrite Cr. reflexivity. }
    rewrite Hpc, Fps. unfold style_of in Fs.
    destruct ss, sy; cbn [sp app] in Fs |- *; rewrite Fs; reflexivity.
  - assert (Hs : st = 0 \/ st = 1 \/ st = 2 \/ st = 3 \/ st = 4 \/ st = 5 \/ st = 6) by lia.
    assert (Hp : pos = 0 \/ pos = 1 \/ pos = 2) by lia.
    assert (H : emph_ok_nocolor st pos = true).
    { destruct Hs as [-> | [-> | [-> | [-> | [-> | [-> | ->]]]]]]; destruct Hp as [-> | [-> | ->]]; vm_compute; reflexivity. }
    unfold emph_ok_nocolor in H.
    destruct (print_style P_TextEmphasis (SEmph st None pos)) as [s| |]; try discriminate.
    exists s. split; [reflexivity|].
    destruct (read_style P_TextEmphasis s) as [v|]; [|discriminate]. destruct v; try discriminate.
    destruct c; [discriminate|]. apply andb_true_iff in H as [H1 H2]. apply Z.eqb_eq in H1, H2. subst. reflexivity.
Qed.

(* ---- numbers: tts:opacity, tts:luminanceGain (to_ttml_number, float()) and tts:shear (to_ttml_number "%", parse_length) ----------- *)
Lemma parse_float_fixed neg ip fr : 0 <= ip -> all_dec fr = true ->
  parse_float (print_fixed neg ip fr) =
  Some (if neg then (- dec_value (print_nat ip) (dchars fr))%Q else dec_value (print_nat ip) (dchars fr)).
Proof.
  intros HI Hfr. unfold print_fixed, parse_float.
  destruct (nat_digits_ok ip HI) as [_ [Hdec Hne]].
  rewrite print_nat_chrs. destruct (nat_digits ip) as [|d ds] eqn:Ed; [discriminate|].
  assert (Hd : is_dec d = true). { unfold all_dec in Hdec. cbn [forallb] in Hdec. apply andb_true_iff in Hdec as [A _]. exact A. }
  set (tail := match fr with [] => [] | _ :: _ => 46 :: dchars fr end).
  assert (Hsign : split_sign ((if neg then [45] else []) ++ chrs (d :: ds) ++ tail) = (neg, chrs (d :: ds) ++ tail)).
  { destruct neg; [reflexivity|]. cbn [app chrs List.map split_sign].
    unfold is_dec in Hd. replace (chr d =? 43) with false by (unfold chr; lia). replace (chr d =? 45) with false by (unfold chr; lia). reflexivity. }
  rewrite Hsign.
  assert (Htail : not_digit_head tail). { unfold tail. destruct fr; cbn [not_digit_head]; [exact I|reflexivity]. }
  rewrite (span_digits_chrs (d :: ds) tail Hdec Htail).
  unfold tail. destruct fr as [|f fr'].
  - cbn [chrs List.map]. reflexivity.
  - replace (46 =? 46) with true by reflexivity. rewrite dchars_chrs.
    replace (chrs (f :: fr')) with (chrs (f :: fr') ++ []) at 1 by apply app_nil_r.
    rewrite (span_digits_chrs (f :: fr') [] Hfr I). cbn [chrs List.map]. reflexivity.
Qed.

Theorem float_roundtrip x : exists v, parse_float (print_num x) = Some v /\ (v == round6 x)%Q.
Proof.
  destruct (print_num_spec x) as [neg [ip [fr [Hp [HI [Hfr Hv]]]]]]. rewrite Hp, (parse_float_fixed neg ip fr HI Hfr).
  eexists. split; [reflexivity|exact Hv].
Qed.

(* tts:opacity and tts:luminanceGain: every number the model holds (an int, a Fraction, or a float taken as the rational it denotes)
   is written in fixed notation with six significant digits and read back as that rounded value *)
Theorem number_roundtrip p x : p = P_Opacity \/ p = P_LuminanceGain ->
  exists s, print_style p (SFrac x) = WAttr s /\ exists v, read_style p s = Some (SFrac v) /\ (v == round6 x)%Q.
Proof.
  intros Hp. exists (print_num x). split; [destruct Hp as [-> | ->]; reflexivity|].
  destruct (float_roundtrip x) as [v [H1 H2]]. exists v. split; [|exact H2].
  unfold read_style, extract_style. destruct Hp as [-> | ->]; unfold_props; rewrite H1; reflexivity.
Qed.
Theorem integer_roundtrip p n : p = P_Opacity \/ p = P_LuminanceGain ->
  exists s, print_style p (SInt n) = WAttr s /\ exists v, read_style p s = Some (SFrac v) /\ (v == round6 (inject_Z n))%Q.
Proof.
  intros Hp. exists (print_num (inject_Z n)). split; [destruct Hp as [-> | ->]; reflexivity|].
  destruct (float_roundtrip (inject_Z n)) as [v [H1 H2]]. exists v. split; [|exact H2].
  unfold read_style, extract_style. destruct Hp as [-> | ->]; unfold_props; rewrite H1; reflexivity.
Qed.

(* tts:shear: written as a percentage; the reader clamps to +-100 % (values beyond are the recorded finding shear-clamped) *)
Lemma Qle_bool_compat a b c : (a == b)%Q -> Qle_bool a c = Qle_bool b c.
Proof.
  intro H. destruct (Qle_bool a c) eqn:E1, (Qle_bool b c) eqn:E2; try reflexivity.
  - apply Qle_bool_iff in E1. rewrite H in E1. apply Qle_bool_iff in E1. congruence.
  - apply Qle_bool_iff in E2. rewrite <- H in E2. apply Qle_bool_iff in E2. congruence.
Qed.

Theorem shear_roundtrip_partial x : Qle_bool (Qabs (round6 x)) (100 # 1) = true ->
  exists s, print_style P_Shear (SFrac x) = WAttr s /\ exists v, read_style P_Shear s = Some (SFrac v) /\ (v == round6 x)%Q.
Proof.
  intro Hc. exists (print_len (mkLen x U_pct)). split; [reflexivity|].
  destruct (len_roundtrip x U_pct ltac:(unfold U_pct; lia)) as [v [H1 H2]]. exists v. split; [|exact H2].
  unfold read_style, extract_style. unfold_props. rewrite H1. cbn [l_unit l_val]. change (U_pct =? U_pct) with true. cbv iota.
  assert (Hq : Qle_bool (Qabs v) (100 # 1) = true).
  { rewrite <- Hc. apply Qle_bool_compat. rewrite H2. reflexivity. }
  rewrite Hq. reflexivity.
Qed.

(* tts:textEmphasis, tts:rubyReserve, tts:textShadow, tts:textOutline: the special value none *)
Theorem none_roundtrip p : p = P_TextEmphasis \/ p = P_RubyReserve \/ p = P_TextShadow \/ p = P_TextOutline ->
  print_style p SNone = WAttr T_none /\ read_style p T_none = Some SNone /\ has_px p SNone = false.
Proof. intros [-> | [-> | [-> | ->]]]; repeat split; reflexivity. Qed.
