(* C10, the line machine: reading the printed form of a grammar-conforming file gives one paragraph
   per cue, with the exact times, whose children are what _TextParser makes of the cue's text. *)
From TT Require Import Base.Prelude Base.SrtTypes Gen.SrtTables Model.SrtReader Spec.SrtCueSpec
  Proofs.C10.Time Proofs.C10.Lines Proofs.C10.Text.
From Coq Require Import QArith.
Local Open Scope Z_scope.

(* ------------------------------------------------------------------ character classes of S and M *)
Lemma space_is_ws c : is_space c = true -> ws_char c = true.
Proof.
  unfold is_space. intro H. apply existsb_exists in H as (x & I & E). apply Z.eqb_eq in E. subst x.
  assert (A : forallb ws_char py_space = true) by (vm_compute; reflexivity).
  rewrite forallb_forall in A. auto.
Qed.
Lemma blank_is_space c : blank_char c = true -> is_space c = true.
Proof. unfold blank_char. intro H. assert (c = 32 \/ c = 9) as [E|E] by lia; subst; vm_compute; reflexivity. Qed.
Lemma dec_is_udigit c : is_dec c = true -> is_udigit c = true.
Proof.
  intro H. unfold is_udigit. apply existsb_exists. exists (48, 57). split.
  - vm_compute. left. reflexivity.
  - exact H.
Qed.
Lemma dec_not_space c : is_dec c = true -> is_space c = false.
Proof. intro H. apply digit_not_space. exact H. Qed.

Lemma blank_line_is_blank l e : eol_ok e -> forallb blank_char l = true -> is_blank (l ++ e) = true.
Proof.
  intros Ee H. unfold is_blank. destruct (l ++ e) eqn:E; [destruct Ee; subst e; destruct l; discriminate|]. rewrite <- E.
  rewrite forallb_app. apply andb_true_iff. split; [|destruct Ee; subst e; vm_compute; reflexivity].
  rewrite forallb_forall in *. auto using blank_is_space.
Qed.
Lemma nonblank_line l e : negb (all_ws l) = true -> is_blank (l ++ e) = false.
Proof.
  intro H. unfold is_blank. destruct (l ++ e) eqn:E; [reflexivity|]. rewrite <- E.
  apply negb_true_iff in H. unfold all_ws in H.
  destruct (forallb is_space (l ++ e)) eqn:F; [|reflexivity].
  rewrite forallb_app in F. apply andb_true_iff in F as [F _].
  assert (forallb ws_char l = true); [|congruence].
  rewrite forallb_forall in *. auto using space_is_ws.
Qed.
Lemma counter_line l e : existsb is_dec l = true -> is_blank (l ++ e) = false /\ has_digit (l ++ e) = true.
Proof.
  intro H. apply existsb_exists in H as (c & I & D). split.
  - unfold is_blank. destruct (l ++ e) eqn:E; [reflexivity|]. rewrite <- E.
    destruct (forallb is_space (l ++ e)) eqn:F; [|reflexivity].
    rewrite forallb_forall in F. specialize (F c (in_or_app _ _ _ (or_introl I))).
    rewrite dec_not_space in F by auto. discriminate.
  - unfold has_digit. apply existsb_exists. exists c. split; [apply in_or_app; auto|apply dec_is_udigit; auto].
Qed.

(* ------------------------------------------------------------------ what a cue becomes *)
Definition kids_of (p : list node) : list elem :=
  match parse_text (rw (print_nodes p)) with Ok k => k | _ => [] end.
Definition pcue_of (c : cue_src) : pcue :=
  mkP (clock_seconds (c_begin c)) (clock_seconds (c_end c)) (kids_of (c_payload c)).
Definition cue_ok (c : cue_src) : Prop := payload_good (c_payload c) /\ no_cr (print_nodes (c_payload c)).

Lemma observe_pcue_of c : cue_ok c -> observe (pcue_of c) = cue_of c.
Proof.
  intros [(k & P & F) _]. unfold observe, pcue_of, cue_of, kids_of. cbn [p_begin p_end p_kids].
  rewrite P. rewrite F. reflexivity.
Qed.

(* ------------------------------------------------------------------ steps *)
Lemma run_continue l ls s s' : step s l = Continue s' -> run (l :: ls) s = run ls s'.
Proof. intro H. cbn [run]. rewrite H. reflexivity. Qed.

Lemma run_blank_counter e bs : eol_ok e -> forall rest d tm att tx, forallb (forallb blank_char) bs = true ->
  run (with_eol e bs ++ rest) (mkM COUNTER d tm att tx) = run rest (mkM COUNTER d tm att tx).
Proof.
  intro Ee. induction bs as [|b bs IH]; intros rest d tm att tx H; [reflexivity|].
  cbn [forallb] in H. apply andb_true_iff in H as [H1 H2].
  rewrite with_eol_cons. cbn [app]. erewrite run_continue; [apply IH; auto|].
  unfold step. cbn [m_mode]. rewrite blank_line_is_blank by auto. reflexivity.
Qed.

Record cue_wf (c : cue_src) : Prop := {
  w_counter : existsb is_dec (c_counter c) = true;
  w_begin : wf_clock (c_begin c) = true;
  w_end : wf_clock (c_end c) = true;
  w_ws1 : c_ws1 c <> [] /\ forallb blank_char (c_ws1 c) = true;
  w_ws2 : c_ws2 c <> [] /\ forallb blank_char (c_ws2 c) = true;
  w_lines : forallb (fun l => negb (all_ws l)) (payload_lines (c_payload c)) = true;
  w_blank : forallb (forallb blank_char) (c_blank c) = true;
  w_counter_eol : no_eol (c_counter c) = true;
  w_tail_eol : no_eol (c_tail c) = true;
  w_nodes : forallb wf_node (c_payload c) = true;
  w_stray : forallb (stray_ok None) (c_payload c) = true }.

Lemma wf_cue_fields last c : wf_cue last c = true -> cue_wf c /\ (last = false -> c_blank c <> []).
Proof.
  unfold wf_cue. intro H.
  repeat (apply andb_true_iff in H as [H ?]).
  split.
  - constructor; auto.
    + split; [destruct (c_ws1 c); [discriminate|discriminate]|auto].
    + split; [destruct (c_ws2 c); [discriminate|discriminate]|auto].
  - intro L. subst last. destruct (c_blank c); [discriminate|discriminate].
Qed.

Lemma spaces_of_blanks ws : forallb blank_char ws = true -> forallb is_space ws = true.
Proof. intro H. rewrite forallb_forall in *. auto using blank_is_space. Qed.

Lemma step_timing e c d tm att tx : cue_wf c ->
  step (mkM TC d tm att tx) (timing_line c ++ e) =
  Continue (mkM TEXT d (clock_seconds (c_begin c), clock_seconds (c_end c)) false tx).
Proof.
  intros W. destruct W as [_ Wb We [N1 B1] [N2 B2] _ _ _ _ _ _].
  unfold step. cbn [m_mode m_done m_text].
  assert (E : timing_line c ++ e =
              timing_text (hours_text (c_begin c)) (pad2 (k_m (c_begin c))) (pad2 (k_s (c_begin c))) (pad3 (k_ms (c_begin c)))
                          (c_ws1 c) (c_ws2 c)
                          (hours_text (c_end c)) (pad2 (k_m (c_end c))) (pad2 (k_s (c_end c))) (pad3 (k_ms (c_end c)))
                          (c_tail c ++ e)).
  { unfold timing_line, timing_text. rewrite !print_clock_text. repeat rewrite <- app_assoc. reflexivity. }
  rewrite E. rewrite search_tc_spec; auto using clock_digits_print, spaces_of_blanks.
  cbn [g_bh g_bm g_bs g_bms g_eh g_em g_es g_ems]. rewrite !hours_convert by auto. cbn [andb negb].
  rewrite !clock_value by auto. reflexivity.
Qed.

Definition clean_lines (ls : list text) : Prop := Forall no_lf ls /\ Forall no_cr ls.

Lemma run_text_more e ls : eol_ok e -> forall rest d tm tx, forallb (fun l => negb (all_ws l)) ls = true -> clean_lines ls ->
  run (with_eol e ls ++ rest) (mkM TEXT_MORE d tm true tx) = run rest (mkM TEXT_MORE d tm true (tx ++ concat (with_lf ls))).
Proof.
  intro Ee. induction ls as [|l ls IH]; intros rest d tm tx H [C1 C2].
  - cbn [with_eol with_lf map concat app]. rewrite app_nil_r. reflexivity.
  - cbn [forallb] in H. apply andb_true_iff in H as [H1 H2]. inversion C1; subst. inversion C2; subst.
    rewrite with_eol_cons. cbn [app]. erewrite run_continue.
    2:{ unfold step. cbn [m_mode]. rewrite nonblank_line by auto. reflexivity. }
    cbn [m_done m_times m_attached m_text]. rewrite rstrip_line by auto. rewrite IH by (auto; split; auto).
    unfold with_lf. rewrite with_eol_cons. cbn [concat]. rewrite !app_assoc. reflexivity.
Qed.

Lemma run_payload e ls rest d tm att tx : eol_ok e -> ls <> [] -> forallb (fun l => negb (all_ws l)) ls = true -> clean_lines ls ->
  run (with_eol e ls ++ rest) (mkM TEXT d tm att tx) = run rest (mkM TEXT_MORE d tm true (concat (with_lf ls))).
Proof.
  intros Ee N H [C1 C2]. destruct ls as [|l ls]; [congruence|].
  cbn [forallb] in H. apply andb_true_iff in H as [H1 H2]. inversion C1; subst. inversion C2; subst.
  rewrite with_eol_cons. cbn [app]. erewrite run_continue.
  2:{ unfold step. cbn [m_mode]. rewrite nonblank_line by auto. reflexivity. }
  cbn [m_done m_times]. rewrite rstrip_line by auto. rewrite run_text_more by (auto; split; auto).
  unfold with_lf. rewrite with_eol_cons. cbn [concat]. rewrite <- app_assoc. reflexivity.
Qed.

Lemma finish_cue_good c d tm : cue_wf c -> cue_ok c ->
  finish_cue (mkM TEXT_MORE d tm true (concat (with_lf (payload_lines (c_payload c))))) =
  Continue (mkM COUNTER (d ++ [mkP (fst tm) (snd tm) (kids_of (c_payload c))]) tm true
                (concat (with_lf (payload_lines (c_payload c))))).
Proof.
  intros W [G Cr]. unfold finish_cue. cbn [m_attached m_text m_done m_times].
  rewrite payload_lines_split, concat_split_lf. rewrite rewrite_text_rw.
  pose proof (w_lines c W) as L. rewrite payload_lines_split in L.
  rewrite (strip_lines _ true) by auto.
  destruct G as (k & P & F). unfold kids_of. rewrite P. reflexivity.
Qed.

Lemma payload_lines_nonempty p : payload_lines p <> [].
Proof. rewrite payload_lines_split. apply split_lf_nonempty. Qed.

Lemma payload_clean c : cue_ok c -> clean_lines (payload_lines (c_payload c)).
Proof.
  intros [_ Cr]. rewrite payload_lines_split. split; [apply split_lf_no_lf|apply split_lf_no_cr; auto].
Qed.

(* one cue followed by at least one blank line *)
Lemma run_cue e c rest d tm att tx : eol_ok e -> cue_wf c -> cue_ok c -> c_blank c <> [] ->
  run (with_eol e (cue_lines c) ++ rest) (mkM COUNTER d tm att tx) =
  run rest (mkM COUNTER (d ++ [pcue_of c]) (clock_seconds (c_begin c), clock_seconds (c_end c)) true
                (concat (with_lf (payload_lines (c_payload c))))).
Proof.
  intros Ee W G B. unfold cue_lines. rewrite !with_eol_cons. cbn [app].
  erewrite run_continue.
  2:{ unfold step. cbn [m_mode]. destruct (counter_line _ e (w_counter c W)) as [A1 A2]. rewrite A1, A2. reflexivity. }
  cbn [m_done m_times m_attached m_text].
  erewrite run_continue; [|apply step_timing; auto].
  rewrite with_eol_app. rewrite <- app_assoc.
  rewrite run_payload by (auto using payload_lines_nonempty, w_lines, payload_clean).
  destruct (c_blank c) as [|b bs] eqn:EB; [congruence|].
  pose proof (w_blank c W) as WB. rewrite EB in WB. cbn [forallb] in WB. apply andb_true_iff in WB as [WB1 WB2].
  rewrite with_eol_cons. cbn [app]. erewrite run_continue.
  2:{ unfold step. cbn [m_mode]. rewrite blank_line_is_blank by auto. apply finish_cue_good; auto. }
  rewrite run_blank_counter by auto. reflexivity.
Qed.

(* the last cue may be followed by the end of the file directly *)
Lemma run_cue_eof e c d tm att tx : eol_ok e -> cue_wf c -> cue_ok c -> c_blank c = [] ->
  run (with_eol e (cue_lines c)) (mkM COUNTER d tm att tx) = Ok (d ++ [pcue_of c]).
Proof.
  intros Ee W G B. unfold cue_lines. rewrite B. rewrite app_nil_r. rewrite !with_eol_cons.
  erewrite run_continue.
  2:{ unfold step. cbn [m_mode]. destruct (counter_line _ e (w_counter c W)) as [A1 A2]. rewrite A1, A2. reflexivity. }
  cbn [m_done m_times m_attached m_text].
  erewrite run_continue; [|apply step_timing; auto].
  rewrite <- (app_nil_r (with_eol e (payload_lines (c_payload c)))).
  rewrite run_payload by (auto using payload_lines_nonempty, w_lines, payload_clean).
  cbn [run at_eof m_mode]. rewrite finish_cue_good by auto. reflexivity.
Qed.

Lemma run_cues e cs : eol_ok e -> wf_cues cs = true -> Forall cue_ok cs -> forall d tm att tx,
  run (with_eol e (flat_map cue_lines cs)) (mkM COUNTER d tm att tx) = Ok (d ++ map pcue_of cs).
Proof.
  intro Ee. induction cs as [|c cs IH]; intros W G d tm att tx.
  - cbn. rewrite app_nil_r. reflexivity.
  - inversion G as [|? ? Gc Gs]; subst. cbn [flat_map map]. rewrite with_eol_app.
    destruct cs as [|c' cs'].
    + cbn [wf_cues] in W. destruct (wf_cue_fields _ _ W) as [Wc _].
      cbn [flat_map]. change (with_eol e []) with (@nil text).
      destruct (c_blank c) as [|b bs] eqn:EB.
      * rewrite app_nil_r. rewrite run_cue_eof; auto.
      * rewrite run_cue by (auto; congruence).
        cbn [run at_eof m_mode m_done]. reflexivity.
    + change (wf_cues (c :: c' :: cs')) with (wf_cue false c && wf_cues (c' :: cs')) in W.
      apply andb_true_iff in W as [W1 W2]. destruct (wf_cue_fields _ _ W1) as [Wc NB].
      rewrite run_cue; auto. rewrite IH; auto. rewrite <- app_assoc. reflexivity.
Qed.

(* ------------------------------------------------------------------ the lines of a file contain no terminators *)
Lemma blank_no_eol l : forallb blank_char l = true -> no_lf l /\ no_cr l.
Proof.
  unfold no_lf, no_cr, blank_char. intro H. rewrite forallb_forall in H.
  split; apply forallb_forall; intros x I; specialize (H x I); lia.
Qed.
Lemma digits_no_eol l : forallb is_digit l = true -> no_lf l /\ no_cr l.
Proof.
  unfold no_lf, no_cr, is_digit. intro H. rewrite forallb_forall in H.
  split; apply forallb_forall; intros x I; specialize (H x I); lia.
Qed.

Lemma clock_no_eol k : wf_clock k = true -> no_lf (print_clock k) /\ no_cr (print_clock k).
Proof.
  intro H. pose proof (clock_digits_print k H) as [_ A _ B _ C _ D].
  rewrite print_clock_text. unfold clock_text.
  destruct (digits_no_eol _ A), (digits_no_eol _ B), (digits_no_eol _ C), (digits_no_eol _ D).
  split; repeat (first [assumption | reflexivity | apply no_lf_app | apply no_cr_app]).
Qed.

Lemma cue_lines_no_eol c : cue_wf c -> cue_ok c -> Forall no_lf (cue_lines c) /\ Forall no_cr (cue_lines c).
Proof.
  intros W [_ Cr]. unfold cue_lines.
  destruct (no_eol_split _ (w_counter_eol c W)) as [C1 C2].
  destruct (no_eol_split _ (w_tail_eol c W)) as [T1 T2].
  destruct (clock_no_eol _ (w_begin c W)) as [B1 B2]. destruct (clock_no_eol _ (w_end c W)) as [E1 E2].
  destruct (w_ws1 c W) as [_ X1]. destruct (w_ws2 c W) as [_ X2].
  destruct (blank_no_eol _ X1) as [Y1 Y2]. destruct (blank_no_eol _ X2) as [Z1 Z2].
  assert (BL : Forall no_lf (c_blank c) /\ Forall no_cr (c_blank c)).
  { pose proof (w_blank c W) as WB. rewrite forallb_forall in WB.
    split; apply Forall_forall; intros x I; apply blank_no_eol; auto. }
  destruct BL as [BL1 BL2].
  split.
  - constructor; [auto|]. constructor.
    + unfold timing_line. repeat (first [assumption | reflexivity | apply no_lf_app]).
    + apply Forall_app. split; auto. rewrite payload_lines_split. apply split_lf_no_lf.
  - constructor; [auto|]. constructor.
    + unfold timing_line. repeat (first [assumption | reflexivity | apply no_cr_app]).
    + apply Forall_app. split; auto. rewrite payload_lines_split. apply split_lf_no_cr. auto.
Qed.

Lemma wf_cues_each cs : wf_cues cs = true -> Forall cue_wf cs.
Proof.
  induction cs as [|c cs IH]; intro W; [constructor|].
  destruct cs as [|c' cs'].
  - cbn [wf_cues] in W. constructor; [|constructor]. apply (wf_cue_fields _ _ W).
  - change (wf_cues (c :: c' :: cs')) with (wf_cue false c && wf_cues (c' :: cs')) in W.
    apply andb_true_iff in W as [W1 W2]. constructor; [apply (wf_cue_fields _ _ W1)|auto].
Qed.

Lemma file_lines_no_eol f : wf_file f = true -> Forall cue_ok (f_cues f) ->
  Forall no_lf (file_lines f) /\ Forall no_cr (file_lines f).
Proof.
  unfold wf_file, file_lines. intros W G. apply andb_true_iff in W as [WL WC].
  assert (L : Forall no_lf (f_lead f) /\ Forall no_cr (f_lead f)).
  { rewrite forallb_forall in WL. split; apply Forall_forall; intros x I; apply blank_no_eol; auto. }
  pose proof (wf_cues_each _ WC) as E.
  assert (Q : Forall no_lf (flat_map cue_lines (f_cues f)) /\ Forall no_cr (flat_map cue_lines (f_cues f))).
  { clear WC WL L. induction (f_cues f) as [|c cs IH]; [split; constructor|].
    inversion E; subst. inversion G; subst. destruct (IH H4 H2) as [I1 I2].
    destruct (cue_lines_no_eol c H1 H3) as [J1 J2]. cbn [flat_map]. split; apply Forall_app; auto. }
  destruct L, Q. split; apply Forall_app; auto.
Qed.

(* ------------------------------------------------------------------ the round trip *)
Lemma run_file e f : eol_ok e -> wf_file f = true -> Forall cue_ok (f_cues f) ->
  run (with_eol e (file_lines f)) m_init = Ok (map pcue_of (f_cues f)).
Proof.
  intros Ee W G. unfold wf_file in W. apply andb_true_iff in W as [WL WC].
  unfold file_lines. rewrite with_eol_app.
  unfold m_init. rewrite run_blank_counter by auto. rewrite run_cues by auto. reflexivity.
Qed.

Lemma observe_all cs : Forall cue_ok cs -> map observe (map pcue_of cs) = map cue_of cs.
Proof. induction 1 as [|c cs H _ IH]; [reflexivity|]. cbn [map]. rewrite observe_pcue_of by auto. rewrite IH. reflexivity. Qed.

(* reading through a text-mode file (universal newlines), LF or CR LF terminators *)
Theorem roundtrip_file f : wf_file f = true -> f_final_eol f = true -> Forall cue_ok (f_cues f) ->
  read_cues_file (print_file f) = Ok (cues f).
Proof.
  intros W Fe G. destruct (file_lines_no_eol f W G) as [L1 L2].
  unfold read_cues_file, to_model_file, to_model.
  rewrite readlines_print_universal by auto.
  rewrite run_file by (auto; left; reflexivity). cbn [outcome_map]. rewrite observe_all by auto. reflexivity.
Qed.

(* reading through a stream that does not translate newlines: LF or CR LF terminators all the same *)
Theorem roundtrip_stream f : wf_file f = true -> f_final_eol f = true -> Forall cue_ok (f_cues f) ->
  read_cues (print_file f) = Ok (cues f).
Proof.
  intros W Fe G. destruct (file_lines_no_eol f W G) as [L1 L2].
  unfold read_cues, to_model. rewrite readlines_print by auto.
  rewrite run_file by auto using eol_ok_eol. cbn [outcome_map]. rewrite observe_all by auto. reflexivity.
Qed.

(* tag-free files *)
Lemma plain_cues_ok f : wf_file f = true -> plain_file f = true -> Forall cue_ok (f_cues f).
Proof.
  unfold wf_file, plain_file. intros W P. apply andb_true_iff in W as [_ W].
  pose proof (wf_cues_each _ W) as E. clear W.
  induction (f_cues f) as [|c cs IH]; [constructor|].
  cbn [forallb] in *. apply andb_true_iff in P as [P1 P2].
  inversion E; subst. constructor; auto.
  unfold cue_ok. apply plain_payload_good; auto.
  - apply (w_nodes c H1).
  - apply (w_lines c H1).
Qed.

Theorem roundtrip_plain_file f : wf_file f = true -> f_final_eol f = true -> plain_file f = true ->
  read_cues_file (print_file f) = Ok (cues f).
Proof. intros. apply roundtrip_file; auto using plain_cues_ok. Qed.
Theorem roundtrip_plain_stream f : wf_file f = true -> f_final_eol f = true -> plain_file f = true ->
  read_cues (print_file f) = Ok (cues f).
Proof. intros. apply roundtrip_stream; auto using plain_cues_ok. Qed.
