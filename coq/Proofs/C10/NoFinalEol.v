(* C10: files whose last line has no terminator (f_final_eol = false). *)
From TT Require Import Base.Prelude Base.SrtTypes Gen.SrtTables Model.SrtReader Spec.SrtCueSpec
  Proofs.C10.Time Proofs.C10.Lines Proofs.C10.Text Proofs.C10.Roundtrip.
From Coq Require Import QArith.
Local Open Scope Z_scope.

(* the lines as read when the text does not end with a terminator *)
Fixpoint unterminate (e : text) (ls : list text) : list text :=
  match ls with
  | [] => []
  | [l] => match l with [] => [] | _ => [l] end
  | l :: ls' => (l ++ e) :: unterminate e ls'
  end.

Lemma unterminate_cons e l ls : ls <> [] -> unterminate e (l :: ls) = (l ++ e) :: unterminate e ls.
Proof. destruct ls; [congruence|reflexivity]. Qed.
Lemma unterminate_app e a b : b <> [] -> unterminate e (a ++ b) = with_eol e a ++ unterminate e b.
Proof.
  intro N. induction a as [|x a IH]; [reflexivity|].
  cbn [app]. rewrite with_eol_cons. rewrite unterminate_cons by (destruct a; [exact N|discriminate]). rewrite IH. reflexivity.
Qed.

Lemma readlines_nolf l : no_lf l -> l <> [] -> readlines l = [l].
Proof.
  unfold no_lf. induction l as [|c l IH]; intros H N; [congruence|].
  cbn [forallb] in H. apply andb_true_iff in H as [H1 H2]. cbn [readlines].
  destruct (c =? 10) eqn:E; [discriminate|]. destruct l as [|d l]; [reflexivity|].
  rewrite IH by (auto; discriminate). reflexivity.
Qed.

Lemma readlines_join_nofinal e ls : eol_ok e -> Forall no_lf ls -> readlines (join_lines e false ls) = unterminate e ls.
Proof.
  intro Ee. induction 1 as [|l ls Hl Hls IH]; [reflexivity|].
  destruct ls as [|l' ls'].
  - cbn [join_lines unterminate]. destruct l; [reflexivity|]. apply readlines_nolf; auto; discriminate.
  - change (join_lines e false (l :: l' :: ls')) with (l ++ e ++ join_lines e false (l' :: ls')).
    rewrite readlines_line_e by auto. rewrite IH. reflexivity.
Qed.

Lemma universal_nocr l : no_cr l -> universal l = l.
Proof.
  unfold no_cr. induction l as [|c l IH]; intro H; [reflexivity|].
  cbn [forallb] in H. apply andb_true_iff in H as [H1 H2]. cbn [universal].
  destruct (c =? 13) eqn:E; [discriminate|]. rewrite IH by auto. reflexivity.
Qed.
Lemma universal_join_nofinal e ls : eol_ok e -> Forall no_cr ls ->
  universal (join_lines e false ls) = join_lines [10] false ls.
Proof.
  intro Ee. induction 1 as [|l ls Hl Hls IH]; [reflexivity|].
  destruct ls as [|l' ls'].
  - cbn [join_lines]. apply universal_nocr; auto.
  - change (join_lines e false (l :: l' :: ls')) with (l ++ e ++ join_lines e false (l' :: ls')).
    change (join_lines [10] false (l :: l' :: ls')) with (l ++ [10] ++ join_lines [10] false (l' :: ls')).
    destruct Ee as [E|E]; subst e; cbn [app].
    + rewrite universal_lf_line by auto. rewrite IH. reflexivity.
    + rewrite universal_line by auto. rewrite IH. reflexivity.
Qed.

(* ---- lines without terminator are classified like the terminated ones *)
Lemma blank_line_is_blank' l : l <> [] -> forallb blank_char l = true -> is_blank l = true.
Proof.
  intros N H. unfold is_blank. destruct l; [congruence|].
  rewrite forallb_forall in *. auto using blank_is_space.
Qed.
Lemma nonblank_line' l : negb (all_ws l) = true -> is_blank l = false.
Proof. intro H. rewrite <- (app_nil_r l). apply nonblank_line; auto. Qed.
Lemma nonblank_nonempty l : negb (all_ws l) = true -> l <> [].
Proof. intros H E. subst. discriminate. Qed.

(* blank lines at the end of the file, in COUNTER mode *)
Lemma run_unterminated_blanks e bs : eol_ok e -> forall d tm att tx, forallb (forallb blank_char) bs = true ->
  run (unterminate e bs) (mkM COUNTER d tm att tx) = Ok d.
Proof.
  intro Ee. induction bs as [|b bs IH]; intros d tm att tx H; [reflexivity|].
  cbn [forallb] in H. apply andb_true_iff in H as [H1 H2].
  destruct bs as [|b' bs'].
  - cbn [unterminate]. destruct b as [|c b]; [reflexivity|].
    cbn [run]. unfold step. cbn [m_mode]. rewrite blank_line_is_blank' by (auto; discriminate). reflexivity.
  - rewrite unterminate_cons by discriminate. erewrite run_continue; [apply IH; auto|].
    unfold step. cbn [m_mode]. rewrite blank_line_is_blank by auto. reflexivity.
Qed.

(* text lines up to the end of the file, the last one without terminator: the accumulated text is the same as
   with terminators, because every line is stripped of its terminator and given a line feed *)
Lemma run_unterminated_text e ls : eol_ok e -> forall d tm tx, ls <> [] -> forallb (fun l => negb (all_ws l)) ls = true -> clean_lines ls ->
  run (unterminate e ls) (mkM TEXT_MORE d tm true tx) = at_eof (mkM TEXT_MORE d tm true (tx ++ concat (with_lf ls))).
Proof.
  intro Ee. induction ls as [|l ls IH]; intros d tm tx N H [C1 C2]; [congruence|].
  cbn [forallb] in H. apply andb_true_iff in H as [H1 H2]. inversion C1; subst. inversion C2; subst.
  destruct ls as [|l' ls'].
  - cbn [unterminate]. pose proof (nonblank_nonempty l H1). destruct l as [|c l]; [congruence|].
    cbn [run]. unfold step. cbn [m_mode]. rewrite nonblank_line' by auto.
    cbn [m_done m_times m_attached m_text].
    rewrite <- (app_nil_r (c :: l)) at 1. rewrite rstrip_line by auto.
    unfold with_lf. rewrite with_eol_cons. cbn [with_eol map concat]. rewrite app_nil_r. reflexivity.
  - rewrite unterminate_cons by discriminate. erewrite run_continue.
    2:{ unfold step. cbn [m_mode]. rewrite nonblank_line by auto. reflexivity. }
    cbn [m_done m_times m_attached m_text]. rewrite rstrip_line by auto. rewrite IH by (auto; try discriminate; split; auto).
    unfold with_lf. rewrite (with_eol_cons [10] l). cbn [concat]. rewrite !app_assoc. reflexivity.
Qed.

(* the last cue, read up to the end of a file without final terminator *)
Lemma run_cue_unterminated e c d tm att tx : eol_ok e -> cue_wf c -> cue_ok c ->
  run (unterminate e (cue_lines c)) (mkM COUNTER d tm att tx) = Ok (d ++ [pcue_of c]).
Proof.
  intros Ee W G. unfold cue_lines.
  pose proof (payload_lines_nonempty (c_payload c)) as PN.
  pose proof (payload_clean c G) as PC.
  rewrite unterminate_cons by discriminate.
  erewrite run_continue.
  2:{ unfold step. cbn [m_mode]. destruct (counter_line _ e (w_counter c W)) as [A1 A2]. rewrite A1, A2. reflexivity. }
  cbn [m_done m_times m_attached m_text].
  rewrite unterminate_cons by (destruct (payload_lines (c_payload c)); [congruence|discriminate]).
  erewrite run_continue; [|apply step_timing; auto].
  destruct (c_blank c) as [|b bs] eqn:EB.
  - (* the text runs to the end of the file *)
    rewrite app_nil_r.
    destruct (payload_lines (c_payload c)) as [|l ls] eqn:EP; [congruence|].
    pose proof (w_lines c W) as L. rewrite EP in L. cbn [forallb] in L. apply andb_true_iff in L as [L1 L2].
    destruct PC as [C1 C2]. inversion C1; subst. inversion C2; subst.
    pose proof (finish_cue_good c d (clock_seconds (c_begin c), clock_seconds (c_end c)) W G) as F. rewrite EP in F.
    destruct ls as [|l' ls'].
    + (* a single line without terminator *)
      cbn [unterminate]. pose proof (nonblank_nonempty l L1). destruct l as [|x l]; [congruence|].
      cbn [run]. unfold step at 1. cbn [m_mode]. rewrite nonblank_line' by auto.
      cbn [m_done m_times]. rewrite <- (app_nil_r (x :: l)) at 1. rewrite rstrip_line by auto.
      cbn [at_eof m_mode].
      unfold with_lf in F. rewrite with_eol_cons in F. cbn [with_eol map concat] in F. rewrite app_nil_r in F. rewrite F. reflexivity.
    + rewrite unterminate_cons by discriminate. erewrite run_continue.
      2:{ unfold step. cbn [m_mode]. rewrite nonblank_line by auto. reflexivity. }
      cbn [m_done m_times]. rewrite rstrip_line by auto.
      rewrite run_unterminated_text by (auto; try discriminate; split; auto).
      cbn [at_eof m_mode].
      unfold with_lf in F. rewrite (with_eol_cons [10] l) in F. cbn [concat] in F. unfold with_lf. rewrite F. reflexivity.
  - (* blank lines follow the text *)
    rewrite unterminate_app by discriminate.
    rewrite run_payload by (auto using w_lines).
    pose proof (w_blank c W) as WB. rewrite EB in WB. cbn [forallb] in WB. apply andb_true_iff in WB as [WB1 WB2].
    destruct bs as [|b' bs'].
    + cbn [unterminate]. destruct b as [|x b].
      * cbn [run at_eof m_mode]. rewrite finish_cue_good by auto. reflexivity.
      * cbn [run]. unfold step at 1. cbn [m_mode]. rewrite blank_line_is_blank' by (auto; discriminate).
        rewrite finish_cue_good by auto. cbn [at_eof m_mode m_done]. reflexivity.
    + rewrite unterminate_cons by discriminate. erewrite run_continue.
      2:{ unfold step. cbn [m_mode]. rewrite blank_line_is_blank by auto. apply finish_cue_good; auto. }
      rewrite run_unterminated_blanks by auto. reflexivity.
Qed.

Lemma cue_lines_nonempty c : cue_lines c <> [].
Proof. unfold cue_lines. discriminate. Qed.

Lemma run_cues_unterminated e cs : eol_ok e -> wf_cues cs = true -> Forall cue_ok cs -> cs <> [] -> forall d tm att tx,
  run (unterminate e (flat_map cue_lines cs)) (mkM COUNTER d tm att tx) = Ok (d ++ map pcue_of cs).
Proof.
  intro Ee. induction cs as [|c cs IH]; intros W G N d tm att tx; [congruence|].
  inversion G as [|? ? Gc Gs]; subst. cbn [flat_map map].
  destruct cs as [|c' cs'].
  - cbn [wf_cues] in W. destruct (wf_cue_fields _ _ W) as [Wc _].
    cbn [flat_map]. rewrite app_nil_r. apply run_cue_unterminated; auto.
  - change (wf_cues (c :: c' :: cs')) with (wf_cue false c && wf_cues (c' :: cs')) in W.
    apply andb_true_iff in W as [W1 W2]. destruct (wf_cue_fields _ _ W1) as [Wc NB].
    rewrite unterminate_app.
    2:{ cbn [flat_map]. pose proof (cue_lines_nonempty c'). destruct (cue_lines c'); [congruence|discriminate]. }
    rewrite run_cue by auto. rewrite IH by (auto; discriminate). rewrite <- app_assoc. reflexivity.
Qed.

Lemma run_file_unterminated e f : eol_ok e -> wf_file f = true -> Forall cue_ok (f_cues f) ->
  run (unterminate e (file_lines f)) m_init = Ok (map pcue_of (f_cues f)).
Proof.
  intros Ee W G. unfold wf_file in W. apply andb_true_iff in W as [WL WC]. unfold file_lines, m_init.
  destruct (f_cues f) as [|c cs] eqn:EC.
  - cbn [flat_map map]. rewrite app_nil_r. apply run_unterminated_blanks; auto.
  - rewrite unterminate_app.
    2:{ cbn [flat_map]. pose proof (cue_lines_nonempty c). destruct (cue_lines c); [congruence|discriminate]. }
    rewrite run_blank_counter by auto. rewrite run_cues_unterminated by (auto; discriminate). reflexivity.
Qed.

(* the round trip without the hypothesis on the final terminator *)
Theorem roundtrip_file_any f : wf_file f = true -> Forall cue_ok (f_cues f) ->
  read_cues_file (print_file f) = Ok (cues f).
Proof.
  intros W G. destruct (f_final_eol f) eqn:Fe; [apply roundtrip_file; auto|].
  destruct (file_lines_no_eol f W G) as [L1 L2].
  unfold read_cues_file, to_model_file, to_model.
  assert (R : readlines (universal (print_file f)) = unterminate [10] (file_lines f)).
  { unfold print_file. rewrite Fe. rewrite universal_join_nofinal by auto using eol_ok_eol.
    apply readlines_join_nofinal; auto. left; reflexivity. }
  rewrite R. rewrite run_file_unterminated by (auto; left; reflexivity). cbn [outcome_map]. rewrite observe_all by auto. reflexivity.
Qed.

Theorem roundtrip_stream_any f : wf_file f = true -> Forall cue_ok (f_cues f) ->
  read_cues (print_file f) = Ok (cues f).
Proof.
  intros W G. destruct (f_final_eol f) eqn:Fe; [apply roundtrip_stream; auto|].
  destruct (file_lines_no_eol f W G) as [L1 L2].
  unfold read_cues, to_model. unfold print_file. rewrite Fe.
  rewrite readlines_join_nofinal by auto using eol_ok_eol.
  rewrite run_file_unterminated by auto using eol_ok_eol. cbn [outcome_map]. rewrite observe_all by auto. reflexivity.
Qed.

Theorem roundtrip_plain_file_any f : wf_file f = true -> plain_file f = true ->
  read_cues_file (print_file f) = Ok (cues f).
Proof. intros. apply roundtrip_file_any; auto using plain_cues_ok. Qed.
Theorem roundtrip_plain_stream_any f : wf_file f = true -> plain_file f = true ->
  read_cues (print_file f) = Ok (cues f).
Proof. intros. apply roundtrip_stream_any; auto using plain_cues_ok. Qed.
