(* C10: files whose last line has no terminator (f_final_eol = false). *)
From TT Require Import Base.Prelude Base.SrtTypes Gen.SrtTables Model.SrtReader Spec.SrtCueSpec
  Proofs.C10.Time Proofs.C10.Lines Proofs.C10.Text Proofs.C10.Roundtrip.
From Coq Require Import QArith.
Local Open Scope Z_scope.

(* the lines as read when the text does not end with a terminator *)
Fixpoint unterminate (ls : list text) : list text :=
  match ls with
  | [] => []
  | [l] => match l with [] => [] | _ => [l] end
  | l :: ls' => (l ++ [10]) :: unterminate ls'
  end.

Lemma unterminate_cons l ls : ls <> [] -> unterminate (l :: ls) = (l ++ [10]) :: unterminate ls.
Proof. destruct ls; [congruence|reflexivity]. Qed.
Lemma unterminate_app a b : b <> [] -> unterminate (a ++ b) = with_lf a ++ unterminate b.
Proof.
  intro N. induction a as [|x a IH]; [reflexivity|].
  cbn [app with_lf map]. rewrite unterminate_cons by (destruct a; [exact N|discriminate]). rewrite IH. reflexivity.
Qed.

Lemma readlines_nolf l : no_lf l -> l <> [] -> readlines l = [l].
Proof.
  unfold no_lf. induction l as [|c l IH]; intros H N; [congruence|].
  cbn [forallb] in H. apply andb_true_iff in H as [H1 H2]. cbn [readlines].
  destruct (c =? 10) eqn:E; [discriminate|]. destruct l as [|d l]; [reflexivity|].
  rewrite IH by (auto; discriminate). reflexivity.
Qed.

Lemma readlines_join_nofinal ls : Forall no_lf ls -> readlines (join_lines [10] false ls) = unterminate ls.
Proof.
  induction 1 as [|l ls Hl Hls IH]; [reflexivity|].
  destruct ls as [|l' ls'].
  - cbn [join_lines unterminate]. destruct l; [reflexivity|]. apply readlines_nolf; auto; discriminate.
  - change (join_lines [10] false (l :: l' :: ls')) with (l ++ [10] ++ join_lines [10] false (l' :: ls')).
    cbn [app]. rewrite readlines_line by auto. rewrite IH. reflexivity.
Qed.

Lemma universal_nocr l : no_cr l -> universal l = l.
Proof.
  unfold no_cr. induction l as [|c l IH]; intro H; [reflexivity|].
  cbn [forallb] in H. apply andb_true_iff in H as [H1 H2]. cbn [universal].
  destruct (c =? 13) eqn:E; [discriminate|]. rewrite IH by auto. reflexivity.
Qed.
Lemma universal_join_nofinal ls : Forall no_cr ls ->
  universal (join_lines [13;10] false ls) = join_lines [10] false ls.
Proof.
  induction 1 as [|l ls Hl Hls IH]; [reflexivity|].
  destruct ls as [|l' ls'].
  - cbn [join_lines]. apply universal_nocr; auto.
  - change (join_lines [13;10] false (l :: l' :: ls')) with (l ++ [13;10] ++ join_lines [13;10] false (l' :: ls')).
    change (join_lines [10] false (l :: l' :: ls')) with (l ++ [10] ++ join_lines [10] false (l' :: ls')).
    cbn [app]. rewrite universal_line by auto. rewrite IH. reflexivity.
Qed.

(* ---- lines without terminator are classified like the terminated ones *)
Lemma blank_line_is_blank' l : l <> [] -> forallb blank_char l = true -> is_blank l = true.
Proof.
  intros N H. unfold is_blank. destruct l; [congruence|].
  rewrite forallb_forall in *. auto using blank_is_space.
Qed.
Lemma nonblank_line' l : negb (all_ws l) = true -> is_blank l = false.
Proof.
  intro H. unfold is_blank. destruct l as [|c l]; [reflexivity|].
  apply negb_true_iff in H. unfold all_ws in H.
  destruct (forallb is_space (c :: l)) eqn:F; [|reflexivity].
  assert (forallb ws_char (c :: l) = true); [|congruence].
  rewrite forallb_forall in *. auto using space_is_ws.
Qed.
Lemma nonblank_nonempty l : negb (all_ws l) = true -> l <> [].
Proof. intros H E. subst. discriminate. Qed.

(* blank lines at the end of the file, in COUNTER mode *)
Lemma run_unterminated_blanks bs : forall d tm att tx, forallb (forallb blank_char) bs = true ->
  run (unterminate bs) (mkM COUNTER d tm att tx) = Ok d.
Proof.
  induction bs as [|b bs IH]; intros d tm att tx H; [reflexivity|].
  cbn [forallb] in H. apply andb_true_iff in H as [H1 H2].
  destruct bs as [|b' bs'].
  - cbn [unterminate]. destruct b as [|c b]; [reflexivity|].
    cbn [run]. unfold step. cbn [m_mode]. rewrite blank_line_is_blank' by (auto; discriminate). reflexivity.
  - rewrite unterminate_cons by discriminate. erewrite run_continue; [apply IH; auto|].
    unfold step. cbn [m_mode]. rewrite blank_line_is_blank by auto. reflexivity.
Qed.

(* text lines up to the end of the file, the last one without terminator *)
Lemma run_unterminated_text ls : forall d tm tx, ls <> [] -> forallb (fun l => negb (all_ws l)) ls = true ->
  run (unterminate ls) (mkM TEXT_MORE d tm true tx) = at_eof (mkM TEXT_MORE d tm true (tx ++ concat (unterminate ls))).
Proof.
  induction ls as [|l ls IH]; intros d tm tx N H; [congruence|].
  cbn [forallb] in H. apply andb_true_iff in H as [H1 H2].
  destruct ls as [|l' ls'].
  - cbn [unterminate]. pose proof (nonblank_nonempty l H1). destruct l as [|c l]; [congruence|].
    cbn [run concat]. unfold step. cbn [m_mode]. rewrite nonblank_line' by auto. rewrite app_nil_r. reflexivity.
  - rewrite unterminate_cons by discriminate. erewrite run_continue.
    2:{ unfold step. cbn [m_mode]. rewrite nonblank_line by auto. reflexivity. }
    cbn [m_done m_times m_attached m_text]. rewrite IH by (auto; discriminate).
    cbn [concat]. rewrite !app_assoc. reflexivity.
Qed.

Lemma concat_unterminate ls : ls <> [] -> last ls [] <> [] -> concat (with_lf ls) = concat (unterminate ls) ++ [10].
Proof.
  induction ls as [|l ls IH]; intros N L; [congruence|].
  destruct ls as [|l' ls'].
  - cbn [last] in L. destruct l; [congruence|]. cbn [unterminate with_lf map concat]. rewrite !app_nil_r. reflexivity.
  - rewrite unterminate_cons by discriminate.
    change (with_lf (l :: l' :: ls')) with ((l ++ [10]) :: with_lf (l' :: ls')). cbn [concat].
    rewrite IH by (auto; discriminate). rewrite app_assoc. reflexivity.
Qed.

Lemma last_in_nonblank ls : ls <> [] -> forallb (fun l => negb (all_ws l)) ls = true -> last ls [] <> [].
Proof.
  intros N H. rewrite forallb_forall in H.
  destruct (exists_last N) as (a & z & E). subst. rewrite last_last. apply nonblank_nonempty. apply H.
  apply in_or_app. right. left. reflexivity.
Qed.

Lemma finish_cue_good' c d tm : cue_wf c -> cue_ok c ->
  finish_cue (mkM TEXT_MORE d tm true (concat (unterminate (payload_lines (c_payload c))))) =
  Continue (mkM COUNTER (d ++ [mkP (fst tm) (snd tm) (kids_of (c_payload c))]) tm true
                (concat (unterminate (payload_lines (c_payload c))))).
Proof.
  intros W [G Cr]. unfold finish_cue. cbn [m_attached m_text m_done m_times].
  pose proof (w_lines c W) as L.
  assert (E : concat (unterminate (payload_lines (c_payload c))) = print_nodes (c_payload c)).
  { pose proof (concat_unterminate _ (payload_lines_nonempty (c_payload c)) (last_in_nonblank _ (payload_lines_nonempty _) L)) as Q.
    rewrite payload_lines_split in Q at 1. rewrite concat_split_lf in Q. apply app_inj_tail in Q. destruct Q as [Q _]. symmetry. exact Q. }
  rewrite E. rewrite rewrite_text_rw. rewrite payload_lines_split in L.
  pose proof (strip_lines (print_nodes (c_payload c)) false Cr L) as SL. cbn iota in SL. rewrite app_nil_r in SL. rewrite SL.
  destruct G as (k & P & F). unfold kids_of. rewrite P. reflexivity.
Qed.

(* the last cue, read up to the end of a file without final terminator *)
Lemma run_cue_unterminated c d tm att tx : cue_wf c -> cue_ok c ->
  run (unterminate (cue_lines c)) (mkM COUNTER d tm att tx) = Ok (d ++ [pcue_of c]).
Proof.
  intros W G. unfold cue_lines.
  pose proof (payload_lines_nonempty (c_payload c)) as PN.
  rewrite unterminate_cons by discriminate.
  erewrite run_continue.
  2:{ unfold step. cbn [m_mode]. destruct (counter_line _ (w_counter c W)) as [A1 A2]. rewrite A1, A2. reflexivity. }
  cbn [m_done m_times m_attached m_text].
  rewrite unterminate_cons by (destruct (payload_lines (c_payload c)); [congruence|discriminate]).
  erewrite run_continue; [|apply step_timing; auto].
  destruct (c_blank c) as [|b bs] eqn:EB.
  - (* the text runs to the end of the file *)
    rewrite app_nil_r.
    destruct (payload_lines (c_payload c)) as [|l ls] eqn:EP; [congruence|].
    pose proof (w_lines c W) as L. rewrite EP in L. cbn [forallb] in L. apply andb_true_iff in L as [L1 L2].
    destruct ls as [|l' ls'].
    + (* a single line without terminator *)
      cbn [unterminate]. pose proof (nonblank_nonempty l L1). destruct l as [|x l]; [congruence|].
      cbn [run]. unfold step at 1. cbn [m_mode]. rewrite nonblank_line' by auto.
      cbn [m_done m_times]. cbn [at_eof m_mode].
      pose proof (finish_cue_good' c d (clock_seconds (c_begin c), clock_seconds (c_end c)) W G) as F.
      rewrite EP in F. cbn [unterminate concat] in F. rewrite app_nil_r in F. rewrite F. reflexivity.
    + rewrite unterminate_cons by discriminate. erewrite run_continue.
      2:{ unfold step. cbn [m_mode]. rewrite nonblank_line by auto. reflexivity. }
      cbn [m_done m_times]. rewrite run_unterminated_text by (auto; discriminate).
      cbn [at_eof m_mode].
      pose proof (finish_cue_good' c d (clock_seconds (c_begin c), clock_seconds (c_end c)) W G) as F.
      rewrite EP in F. rewrite unterminate_cons in F by discriminate. cbn [concat] in F. rewrite F. reflexivity.
  - (* blank lines follow the text *)
    rewrite unterminate_app by discriminate.
    rewrite run_payload by (auto using w_lines).
    pose proof (w_blank c W) as WB. rewrite EB in WB. cbn [forallb] in WB. apply andb_true_iff in WB as [WB1 WB2].
    destruct bs as [|b' bs'].
    + cbn [unterminate]. destruct b as [|x b].
      * cbn [run at_eof m_mode]. rewrite finish_cue_good by auto. reflexivity.
      * cbn [run]. unfold step at 1. cbn [m_mode]. rewrite blank_line_is_blank' by (auto; discriminate).
        rewrite finish_cue_good by auto. cbn [at_eof m_mode m_done]. reflexivity.
    + rewrite unterminate_cons by discriminate. erewrite run_continue.
      2:{ unfold step. cbn [m_mode]. rewrite blank_line_is_blank by auto. apply finish_cue_good; auto. }
      rewrite run_unterminated_blanks by auto. reflexivity.
Qed.

Lemma cue_lines_nonempty c : cue_lines c <> [].
Proof. unfold cue_lines. discriminate. Qed.

Lemma run_cues_unterminated cs : wf_cues cs = true -> Forall cue_ok cs -> cs <> [] -> forall d tm att tx,
  run (unterminate (flat_map cue_lines cs)) (mkM COUNTER d tm att tx) = Ok (d ++ map pcue_of cs).
Proof.
  induction cs as [|c cs IH]; intros W G N d tm att tx; [congruence|].
  inversion G as [|? ? Gc Gs]; subst. cbn [flat_map map].
  destruct cs as [|c' cs'].
  - cbn [wf_cues] in W. destruct (wf_cue_fields _ _ W) as [Wc _].
    cbn [flat_map]. rewrite app_nil_r. apply run_cue_unterminated; auto.
  - change (wf_cues (c :: c' :: cs')) with (wf_cue false c && wf_cues (c' :: cs')) in W.
    apply andb_true_iff in W as [W1 W2]. destruct (wf_cue_fields _ _ W1) as [Wc NB].
    rewrite unterminate_app.
    2:{ cbn [flat_map]. pose proof (cue_lines_nonempty c'). destruct (cue_lines c'); [congruence|discriminate]. }
    rewrite run_cue by auto. rewrite IH by (auto; discriminate). rewrite <- app_assoc. reflexivity.
Qed.

Lemma run_file_unterminated f : wf_file f = true -> Forall cue_ok (f_cues f) ->
  run (unterminate (file_lines f)) m_init = Ok (map pcue_of (f_cues f)).
Proof.
  intros W G. unfold wf_file in W. apply andb_true_iff in W as [WL WC]. unfold file_lines, m_init.
  destruct (f_cues f) as [|c cs] eqn:EC.
  - cbn [flat_map map]. rewrite app_nil_r. apply run_unterminated_blanks; auto.
  - rewrite unterminate_app.
    2:{ cbn [flat_map]. pose proof (cue_lines_nonempty c). destruct (cue_lines c); [congruence|discriminate]. }
    rewrite run_blank_counter by auto. rewrite run_cues_unterminated by (auto; discriminate). reflexivity.
Qed.

(* the round trip without the hypothesis on the final terminator *)
Theorem roundtrip_file_any f : wf_file f = true -> Forall cue_ok (f_cues f) ->
  read_cues_file (print_file f) = Ok (cues f).
Proof.
  intros W G. destruct (f_final_eol f) eqn:Fe; [apply roundtrip_file; auto|].
  destruct (file_lines_no_eol f W G) as [L1 L2].
  unfold read_cues_file, to_model_file, to_model.
  assert (R : readlines (universal (print_file f)) = unterminate (file_lines f)).
  { unfold print_file. rewrite Fe. destruct (f_crlf f); cbn [eol].
    - rewrite universal_join_nofinal by auto. apply readlines_join_nofinal; auto.
    - rewrite universal_nocr; [apply readlines_join_nofinal; auto|].
      (* no CR in the joined text *)
      clear - L2. unfold no_cr. induction L2 as [|l ls Hl Hls IH]; [reflexivity|].
      destruct ls as [|l' ls']; [exact Hl|].
      change (join_lines [10] false (l :: l' :: ls')) with (l ++ [10] ++ join_lines [10] false (l' :: ls')).
      rewrite !forallb_app. rewrite Hl, IH. reflexivity. }
  rewrite R. rewrite run_file_unterminated by auto. cbn [outcome_map]. rewrite observe_all by auto. reflexivity.
Qed.

Theorem roundtrip_lf_any f : wf_file f = true -> f_crlf f = false -> Forall cue_ok (f_cues f) ->
  read_cues (print_file f) = Ok (cues f).
Proof.
  intros W C G. destruct (f_final_eol f) eqn:Fe; [apply roundtrip_lf; auto|].
  destruct (file_lines_no_eol f W G) as [L1 L2].
  unfold read_cues, to_model. unfold print_file. rewrite Fe, C. cbn [eol].
  rewrite readlines_join_nofinal by auto.
  rewrite run_file_unterminated by auto. cbn [outcome_map]. rewrite observe_all by auto. reflexivity.
Qed.

Theorem roundtrip_plain_file_any f : wf_file f = true -> plain_file f = true ->
  trigger_backslash f = false -> read_cues_file (print_file f) = Ok (cues f).
Proof. intros. apply roundtrip_file_any; auto using plain_cues_ok. Qed.
Theorem roundtrip_plain_lf_any f : wf_file f = true -> f_crlf f = false -> plain_file f = true ->
  trigger_backslash f = false -> read_cues (print_file f) = Ok (cues f).
Proof. intros. apply roundtrip_lf_any; auto using plain_cues_ok. Qed.
