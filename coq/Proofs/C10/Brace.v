(* C10, the long brace forms: the replace chain of rewrite_text turns {bold} {/bold} {italic} {/italic}
   {underline} {/underline} into the angle forms and leaves everything else alone, so a payload that uses them
   is read like the same payload written with <bold> ... *)
From TT Require Import Base.Prelude Base.SrtTypes Gen.SrtTables Model.SrtReader Spec.SrtCueSpec
  Proofs.C10.Lines Proofs.C10.Text Proofs.C10.Roundtrip Proofs.C10.NoFinalEol Proofs.C10.Font Proofs.C10.Refs Proofs.C10.Tags.
Local Open Scope Z_scope.

(* ------------------------------------------------------------------ str.replace on a pattern occurrence *)
Lemma prefixb_app p rest : prefixb p (p ++ rest) = true.
Proof. induction p as [|x p IH]; [reflexivity|]. cbn [app prefixb]. rewrite Z.eqb_refl. exact IH. Qed.

Lemma replace_skip pat rep a : forall rest, replace_go pat rep (length a) (a ++ rest) = replace_go pat rep O rest.
Proof. induction a as [|c a IH]; intro rest; [reflexivity|]. cbn [length app replace_go]. apply IH. Qed.

Lemma replace_hit x pat rep rest :
  replace_go (x :: pat) rep O ((x :: pat) ++ rest) = rep ++ replace_go (x :: pat) rep O rest.
Proof.
  cbn [app replace_go]. change (x :: pat ++ rest) with ((x :: pat) ++ rest). rewrite prefixb_app.
  cbn [length]. rewrite Nat.sub_succ, Nat.sub_0_r. rewrite replace_skip. reflexivity.
Qed.

(* ------------------------------------------------------------------ texts as tokens: characters and long brace tags *)
Inductive btok := BC (c : Z) | BB (k : tagk) (closing : bool).
Definition bname (k : tagk) : text := match k with KB => t_bold | KI => t_italic | KU => t_underline end.
Definition render1 (t : btok) : text := match t with BC c => [c] | BB k cl => brace cl (bname k) end.
Definition render (ts : list btok) : text := flat_map render1 ts.
Definition okc (t : btok) : Prop := match t with BC c => c <> 123 | BB _ _ => True end.

Definition same_tag (k : tagk) (cl : bool) (k' : tagk) (cl' : bool) : bool :=
  match k, k' with KB, KB | KI, KI | KU, KU => Bool.eqb cl cl' | _, _ => false end.
Definition subst1 (k : tagk) (cl : bool) (t : btok) : list btok :=
  match t with
  | BB k' cl' => if same_tag k cl k' cl' then map BC (angle cl (bname k)) else [t]
  | BC _ => [t]
  end.
Definition subst (k : tagk) (cl : bool) (ts : list btok) : list btok := flat_map (subst1 k cl) ts.

Lemma render_chars s : render (map BC s) = s.
Proof. induction s as [|c s IH]; [reflexivity|]. cbn [map render flat_map render1 app]. fold (render (map BC s)). rewrite IH. reflexivity. Qed.
Lemma render_app a b : render (a ++ b) = render a ++ render b.
Proof. unfold render. apply flat_map_app. Qed.

Lemma replace_miss k cl k' cl' rest : same_tag k cl k' cl' = false ->
  replace_go (brace cl (bname k)) (angle cl (bname k)) O (brace cl' (bname k') ++ rest) =
  brace cl' (bname k') ++ replace_go (brace cl (bname k)) (angle cl (bname k)) O rest.
Proof. intro H. destruct k, cl, k', cl'; try discriminate; reflexivity. Qed.

Lemma brace_is_cons cl k : exists p, brace cl (bname k) = 123 :: p.
Proof. eexists. reflexivity. Qed.

Lemma replace_tokens k cl ts : Forall okc ts ->
  replace (brace cl (bname k)) (angle cl (bname k)) (render ts) = render (subst k cl ts).
Proof.
  unfold replace. induction 1 as [|t ts Ht _ IH]; [reflexivity|].
  cbn [render flat_map subst]. fold (render ts). fold (subst k cl ts). rewrite render_app.
  destruct t as [c|k' cl'].
  - cbn [render1 subst1 app okc] in *. destruct (brace_is_cons cl k) as (p & E). rewrite E.
    cbn [replace_go prefixb]. replace (123 =? c) with false by lia. cbn [andb]. rewrite <- E. rewrite IH. reflexivity.
  - cbn [render1 subst1]. destruct (same_tag k cl k' cl') eqn:S.
    + assert (k' = k /\ cl' = cl) as [-> ->] by (destruct k, k', cl, cl'; try discriminate; auto).
      destruct (brace_is_cons cl k) as (p & E). rewrite E. rewrite replace_hit. rewrite <- E. rewrite IH.
      rewrite render_chars. reflexivity.
    + rewrite replace_miss by auto. rewrite IH. cbn [render flat_map render1]. rewrite app_nil_r. reflexivity.
Qed.

Lemma subst_ok k cl ts : Forall okc ts -> Forall okc (subst k cl ts).
Proof.
  induction 1 as [|t ts Ht _ IH]; [constructor|]. cbn [subst flat_map]. apply Forall_app. split; [|exact IH].
  destruct t as [c|k' cl']; cbn [subst1]; [repeat constructor; auto|].
  destruct (same_tag k cl k' cl'); [|repeat constructor].
  destruct k, cl; repeat constructor; cbn; lia.
Qed.

(* the six replacements, in the order of rewrite_text *)
Definition subst6 (ts : list btok) : list btok :=
  subst KU true (subst KU false (subst KI true (subst KI false (subst KB true (subst KB false ts))))).
Definition final1 (t : btok) : text := match t with BC c => [c] | BB k cl => angle cl (bname k) end.

Lemma subst_app k cl a b : subst k cl (a ++ b) = subst k cl a ++ subst k cl b.
Proof. unfold subst. apply flat_map_app. Qed.
Lemma subst6_cons t ts : subst6 (t :: ts) = subst6 [t] ++ subst6 ts.
Proof. unfold subst6. change (t :: ts) with ([t] ++ ts). rewrite !subst_app. reflexivity. Qed.
Lemma subst6_one t : render (subst6 [t]) = final1 t.
Proof. destruct t as [c|k cl]; [reflexivity|]. destruct k, cl; reflexivity. Qed.
Lemma render_subst6 ts : render (subst6 ts) = flat_map final1 ts.
Proof.
  induction ts as [|t ts IH]; [reflexivity|]. rewrite subst6_cons, render_app, subst6_one, IH. reflexivity.
Qed.

Lemma rw_tokens ts : Forall okc ts -> has_sub [92;110;92;114] (render ts) = false ->
  rw (render ts) = flat_map final1 ts.
Proof.
  intros H B. unfold rw. rewrite (replace_id _ _ _ B).
  change (brace false t_bold) with (brace false (bname KB)). change (angle false t_bold) with (angle false (bname KB)).
  change (brace true t_bold) with (brace true (bname KB)). change (angle true t_bold) with (angle true (bname KB)).
  change (brace false t_italic) with (brace false (bname KI)). change (angle false t_italic) with (angle false (bname KI)).
  change (brace true t_italic) with (brace true (bname KI)). change (angle true t_italic) with (angle true (bname KI)).
  change (brace false t_underline) with (brace false (bname KU)). change (angle false t_underline) with (angle false (bname KU)).
  change (brace true t_underline) with (brace true (bname KU)). change (angle true t_underline) with (angle true (bname KU)).
  rewrite replace_tokens by auto.
  rewrite replace_tokens by auto using subst_ok.
  rewrite replace_tokens by auto using subst_ok.
  rewrite replace_tokens by auto using subst_ok.
  rewrite replace_tokens by auto 7 using subst_ok.
  rewrite replace_tokens by auto 8 using subst_ok.
  apply render_subst6.
Qed.

(* ------------------------------------------------------------------ payloads as tokens *)
Definition angleify_syn (sy : syn) : syn := match sy with BraceLong => AngleLong | _ => sy end.
Fixpoint angleify (n : node) : node :=
  match n with
  | NTag k sy body => NTag k (angleify_syn sy) ((fix go (l : list node) : list node := match l with [] => [] | x :: l' => angleify x :: go l' end) body)
  | NFont c q body => NFont c q ((fix go (l : list node) : list node := match l with [] => [] | x :: l' => angleify x :: go l' end) body)
  | _ => n
  end.
Definition angleify_list (l : list node) : list node := map angleify l.

Fixpoint btoks (n : node) : list btok :=
  match n with
  | NTag k BraceLong body =>
      BB k false :: (fix go (l : list node) : list btok := match l with [] => [] | x :: l' => btoks x ++ go l' end) body ++ [BB k true]
  | NTag k sy body =>
      map BC (open_tag k sy) ++ (fix go (l : list node) : list btok := match l with [] => [] | x :: l' => btoks x ++ go l' end) body ++ map BC (close_tag k sy)
  | NFont c q body =>
      map BC (open_font c q) ++ (fix go (l : list node) : list btok := match l with [] => [] | x :: l' => btoks x ++ go l' end) body ++ map BC close_font
  | _ => map BC (print_node n)
  end.
Definition btoks_list (l : list node) : list btok := flat_map btoks l.

Lemma angleify_tag k sy body : angleify (NTag k sy body) = NTag k (angleify_syn sy) (angleify_list body).
Proof. reflexivity. Qed.
Lemma angleify_font c q body : angleify (NFont c q body) = NFont c q (angleify_list body).
Proof. reflexivity. Qed.
Lemma btoks_inner body :
  (fix go (l : list node) : list btok := match l with [] => [] | x :: l' => btoks x ++ go l' end) body = btoks_list body.
Proof. induction body as [|x l IH]; [reflexivity|]. unfold btoks_list. cbn [flat_map]. fold (btoks_list l). rewrite <- IH. reflexivity. Qed.
Lemma markup_tag k sy body : markup_node (NTag k sy body) = negb (match sy with BraceShort => true | _ => false end) && forallb markup_node body.
Proof. reflexivity. Qed.
Lemma markup_font c q body : markup_node (NFont c q body) = forallb markup_node body.
Proof. reflexivity. Qed.

Lemma okc_chars s : lacks 123 s -> Forall okc (map BC s).
Proof.
  unfold lacks. induction s as [|c s IH]; intro H; [constructor|].
  cbn [forallb] in H. apply andb_true_iff in H as [H1 H2]. cbn [map]. constructor; [cbn; lia|auto].
Qed.
Lemma flat_final_chars s : flat_map final1 (map BC s) = s.
Proof. induction s as [|c s IH]; [reflexivity|]. cbn [map flat_map final1 app]. rewrite IH. reflexivity. Qed.

Lemma open_brace_long k : open_tag k BraceLong = brace false (bname k) /\ close_tag k BraceLong = brace true (bname k) /\
  open_tag k AngleLong = angle false (bname k) /\ close_tag k AngleLong = angle true (bname k).
Proof. destruct k; repeat split. Qed.

(* the printed payload is the rendering of its tokens; the tokens are free of stray '{'; after the six
   replacements the rendering is the printed form of the angle-syntax payload; which is an angle payload with
   the same meaning *)
Lemma markup_tokens : forall p, forallb markup_node p = true -> forallb wf_node p = true ->
  print_nodes p = render (btoks_list p) /\ Forall okc (btoks_list p) /\
  flat_map final1 (btoks_list p) = print_nodes (angleify_list p) /\
  forallb angle_node (angleify_list p) = true /\ forallb wf_node (angleify_list p) = true /\
  (forall s, items_list s (angleify_list p) = items_list s p) /\
  no_cr (print_nodes p).
Proof.
  apply (nodes_ind2
    (fun n => markup_node n = true -> wf_node n = true ->
       print_node n = render (btoks n) /\ Forall okc (btoks n) /\ flat_map final1 (btoks n) = print_node (angleify n) /\
       angle_node (angleify n) = true /\ wf_node (angleify n) = true /\ (forall s, items s (angleify n) = items s n) /\
       no_cr (print_node n))
    (fun p => forallb markup_node p = true -> forallb wf_node p = true ->
       print_nodes p = render (btoks_list p) /\ Forall okc (btoks_list p) /\
       flat_map final1 (btoks_list p) = print_nodes (angleify_list p) /\
       forallb angle_node (angleify_list p) = true /\ forallb wf_node (angleify_list p) = true /\
       (forall s, items_list s (angleify_list p) = items_list s p) /\ no_cr (print_nodes p))).
  - (* NChar *) intros c _ W. cbn [wf_node] in W. cbn [btoks angleify print_node map].
    repeat split; auto. + repeat constructor. cbn. unfold plain_char in W. lia.
    + unfold no_cr. cbn [forallb]. unfold plain_char in W. rewrite andb_true_r. lia.
  - (* NRef *) intros r _ W. cbn [wf_node] in W. destruct (cref_chars r W) as (_ & A & B & _).
    cbn [btoks angleify print_node]. rewrite render_chars, flat_final_chars. repeat split; auto using okc_chars.
  - (* NBreak *) intros _ _. cbn [btoks angleify print_node map]. repeat split; auto. repeat constructor. cbn. lia.
  - (* NTag *) intros k sy body IH Hm Hw. rewrite markup_tag in Hm. apply andb_true_iff in Hm as [Hs Hb].
    rewrite wf_tag in Hw. destruct (IH Hb Hw) as (P1 & P2 & P3 & P4 & P5 & P6 & P7). clear IH.
    rewrite angleify_tag, print_tag, print_tag, angle_tag, wf_tag, P5.
    destruct (open_brace_long k) as (O1 & O2 & O3 & O4).
    assert (IT : forall s, items s (NTag k (angleify_syn sy) (angleify_list body)) = items s (NTag k sy body)).
    { intro s. rewrite !items_tag. apply P6. }
    destruct sy; try discriminate; cbn [btoks angleify_syn is_brace negb andb] in *; rewrite btoks_inner.
    1-3: (rewrite !render_app, !render_chars, !flat_map_app, !flat_final_chars, <- P1, P3;
          match goal with |- context [open_tag ?k0 ?sy] =>
            assert (O : lacks 123 (open_tag k0 sy) /\ no_cr (open_tag k0 sy) /\ lacks 123 (close_tag k0 sy) /\ no_cr (close_tag k0 sy))
              by (destruct k0; repeat split) end;
          destruct O as (Q1 & Q2 & Q3 & Q4);
          split; [reflexivity|]; split; [repeat (apply Forall_app; split); auto using okc_chars|];
          split; [reflexivity|]; split; [exact P4|]; split; [reflexivity|]; split; [exact IT|];
          repeat (first [assumption | apply no_cr_app])).
    (* BraceLong *)
    change (BB k false :: btoks_list body ++ [BB k true]) with ([BB k false] ++ btoks_list body ++ [BB k true]).
    rewrite !render_app, !flat_map_app. cbn [render flat_map render1 final1]. rewrite !app_nil_r.
    fold (render (btoks_list body)). rewrite <- P1, P3, O1, O2, O3, O4.
    assert (Q : no_cr (brace false (bname k)) /\ no_cr (brace true (bname k))) by (destruct k; split; reflexivity).
    destruct Q as [Q1 Q2].
    repeat split; auto.
    + repeat (apply Forall_app; split); auto; repeat constructor.
    + repeat (first [assumption | apply no_cr_app]).
  - (* NFont *) intros c q body IH Hm Hw. rewrite markup_font in Hm. rewrite wf_font in Hw. apply andb_true_iff in Hw as [Wc Hw].
    destruct (IH Hm Hw) as (P1 & P2 & P3 & P4 & P5 & P6 & P7). clear IH.
    rewrite angleify_font, print_font, print_font, angle_font, wf_font, P5, Wc.
    cbn [btoks]. rewrite btoks_inner.
    rewrite !render_app, !render_chars, !flat_map_app, !flat_final_chars, <- P1, P3.
    destruct (font_open_chars c q Wc) as [Q1 Q2].
    assert (Q : lacks 123 close_font /\ no_cr close_font) by (split; reflexivity). destruct Q as [Q3 Q4].
    repeat split; auto.
    + repeat (apply Forall_app; split); auto using okc_chars.
    + intro s. rewrite !items_font. apply P6.
    + repeat (first [assumption | apply no_cr_app]).
  - intros k sy H. discriminate.
  - (* nil *) intros _ _. repeat split; auto. constructor.
  - (* cons *) intros x l IHx IHl Hm Hw. cbn [forallb] in *.
    apply andb_true_iff in Hm as [Hm1 Hm2]. apply andb_true_iff in Hw as [Hw1 Hw2].
    destruct (IHx Hm1 Hw1) as (A1 & A2 & A3 & A4 & A5 & A6 & A7).
    destruct (IHl Hm2 Hw2) as (B1 & B2 & B3 & B4 & B5 & B6 & B7).
    cbn [print_nodes btoks_list flat_map angleify_list map forallb items_list].
    fold (btoks_list l). fold (angleify_list l).
    rewrite render_app, flat_map_app, <- A1, <- B1, A3, B3, A4, A5, B4, B5.
    repeat split; auto.
    + apply Forall_app; auto.
    + intro s. rewrite A6, B6. reflexivity.
    + apply no_cr_app; auto.
Qed.

(* C10_tags_scope for one cue, every tag syntax of the grammar except the recorded findings *)
Theorem markup_payload_good p :
  forallb markup_node p = true -> forallb wf_node p = true ->
  has_sub [92;110;92;114] (print_nodes p) = false ->
  payload_good p /\ no_cr (print_nodes p).
Proof.
  intros Hm Hw Hb. destruct (markup_tokens p Hm Hw) as (P1 & P2 & P3 & P4 & P5 & P6 & P7). split; auto.
  unfold payload_good. rewrite P1. rewrite rw_tokens by (auto; rewrite <- P1; auto). rewrite P3.
  destruct (angle_parse (angleify_list p) P4 P5) as (kids & K1 & K2).
  exists kids. split; auto. rewrite K2. apply P6.
Qed.

Lemma markup_cues_ok f : wf_file f = true -> markup_file f = true -> trigger_backslash f = false ->
  Forall cue_ok (f_cues f).
Proof.
  unfold wf_file, markup_file, trigger_backslash. intros W P T. apply andb_true_iff in W as [_ W].
  pose proof (wf_cues_each _ W) as E. clear W.
  induction (f_cues f) as [|c cs IH]; [constructor|].
  cbn [forallb existsb] in *. apply andb_true_iff in P as [P1 P2]. apply orb_false_iff in T as [T1 T2].
  inversion E; subst. constructor; auto.
  unfold cue_ok. apply markup_payload_good; auto. apply (w_nodes c H1).
Qed.

Theorem roundtrip_markup_file f : wf_file f = true -> markup_file f = true ->
  trigger_backslash f = false -> read_cues_file (print_file f) = Ok (cues f).
Proof. intros. apply roundtrip_file_any; auto using markup_cues_ok. Qed.
Theorem roundtrip_markup_lf f : wf_file f = true -> f_crlf f = false -> markup_file f = true ->
  trigger_backslash f = false -> read_cues (print_file f) = Ok (cues f).
Proof. intros. apply roundtrip_lf_any; auto using markup_cues_ok. Qed.

Theorem tolerates_markup f f' :
  wf_file f = true -> wf_file f' = true ->
  markup_file f = true -> markup_file f' = true -> trigger_backslash f = false -> trigger_backslash f' = false ->
  Forall2 same_content (f_cues f) (f_cues f') ->
  read_cues_file (print_file f) = read_cues_file (print_file f') /\ read_cues_file (print_file f) = Ok (cues f).
Proof.
  intros. rewrite !roundtrip_markup_file by auto. split; auto. unfold cues. f_equal. apply same_content_cues; auto.
Qed.

(* the sub-grammar is exactly "no recorded trigger fires": a payload is markup iff it has no short brace tag and no
   stray closer *)
Lemma markup_iff_no_trigger f :
  markup_file f = true <-> (trigger_brace_short f = false /\ trigger_stray_end f = false).
Proof.
  unfold markup_file, trigger_brace_short, trigger_stray_end.
  assert (N : forall l, forallb markup_node l = true <->
     (existsb (node_has (fun n => match n with NTag _ BraceShort _ | NStray _ BraceShort => true | _ => false end)) l = false /\
      existsb (node_has (fun n => match n with NStray _ _ => true | _ => false end)) l = false)).
  { apply (nodes_ind2
      (fun n => markup_node n = true <->
         (node_has (fun n => match n with NTag _ BraceShort _ | NStray _ BraceShort => true | _ => false end) n = false /\
          node_has (fun n => match n with NStray _ _ => true | _ => false end) n = false))
      (fun l => forallb markup_node l = true <->
         (existsb (node_has (fun n => match n with NTag _ BraceShort _ | NStray _ BraceShort => true | _ => false end)) l = false /\
          existsb (node_has (fun n => match n with NStray _ _ => true | _ => false end)) l = false))).
    - intro c. cbn. tauto.
    - intro r. cbn. tauto.
    - cbn. tauto.
    - intros k sy body IH. rewrite markup_tag.
      assert (E1 : forall p, node_has p (NTag k sy body) = p (NTag k sy body) || existsb (node_has p) body).
      { intro p. reflexivity. }
      rewrite !E1. destruct sy; cbn [negb andb orb]; try (rewrite IH; tauto). split; [discriminate|intros [A _]; discriminate].
    - intros c q body IH. rewrite markup_font.
      assert (E1 : forall p, node_has p (NFont c q body) = p (NFont c q body) || existsb (node_has p) body).
      { intro p. reflexivity. }
      rewrite !E1. cbn [orb]. exact IH.
    - intros k sy. cbn. split; [discriminate|]. intros [_ A]. destruct sy; discriminate.
    - cbn. tauto.
    - intros x l IHx IHl. cbn [forallb existsb]. rewrite andb_true_iff, !orb_false_iff. tauto. }
  induction (f_cues f) as [|c cs IH]; [cbn; tauto|].
  cbn [forallb existsb]. rewrite andb_true_iff, !orb_false_iff. rewrite N. tauto.
Qed.

(* ------------------------------------------------------------------ the statements of Properties/C10.v *)
Theorem roundtrip_partial f : wf_file f = true ->
  trigger_brace_short f = false -> trigger_stray_end f = false -> trigger_backslash f = false ->
  read_cues_file (print_file f) = Ok (cues f).
Proof. intros W A B C. apply roundtrip_markup_file; auto. apply markup_iff_no_trigger. auto. Qed.

Theorem roundtrip_stringio_partial f : wf_file f = true -> f_crlf f = false ->
  trigger_brace_short f = false -> trigger_stray_end f = false -> trigger_backslash f = false ->
  read_cues (print_file f) = Ok (cues f).
Proof. intros W E A B C. apply roundtrip_markup_lf; auto. apply markup_iff_no_trigger. auto. Qed.

Theorem tags_scope_partial p :
  forallb markup_node p = true -> forallb wf_node p = true ->
  forallb (fun l => negb (all_ws l)) (payload_lines p) = true ->
  has_sub [92;110;92;114] (print_nodes p) = false ->
  exists kids, parse_text true (rewrite_text (print_nodes p)) = Ok kids /\ flat_list st0 kids = items_list st0 p.
Proof.
  intros Hm Hw Hl Hb. destruct (markup_payload_good p Hm Hw Hb) as [G Cr].
  rewrite rewrite_text_rw. rewrite payload_lines_split in Hl.
  pose proof (strip_lines (print_nodes p) false Cr Hl) as S. cbn iota in S. rewrite app_nil_r in S. rewrite S. exact G.
Qed.

Theorem tolerates_partial f f' :
  wf_file f = true -> wf_file f' = true ->
  trigger_brace_short f = false -> trigger_stray_end f = false -> trigger_backslash f = false ->
  trigger_brace_short f' = false -> trigger_stray_end f' = false -> trigger_backslash f' = false ->
  Forall2 same_content (f_cues f) (f_cues f') ->
  read_cues_file (print_file f) = read_cues_file (print_file f') /\ read_cues_file (print_file f) = Ok (cues f).
Proof. intros. apply tolerates_markup; auto; apply markup_iff_no_trigger; auto. Qed.
