(* C10, the brace forms: the replace chain of rewrite_text turns {bold} {/bold} {italic} {/italic} {underline}
   {/underline} {b} {/b} {i} {/i} {u} {/u} into the angle forms and leaves everything else alone, so a payload that
   uses them is read like the same payload written with <bold> ... <b> ...; together with Tags.v this gives the
   statements of Properties/C10.v for the whole grammar. *)
From TT Require Import Base.Prelude Base.SrtTypes Gen.SrtTables Model.SrtReader Spec.SrtCueSpec
  Proofs.C10.Lines Proofs.C10.Text Proofs.C10.Roundtrip Proofs.C10.NoFinalEol Proofs.C10.Font Proofs.C10.Refs Proofs.C10.Tags.
Local Open Scope Z_scope.

(* ------------------------------------------------------------------ str.replace on a pattern occurrence *)
Lemma prefixb_app p rest : prefixb p (p ++ rest) = true.
Proof. induction p as [|x p IH]; [reflexivity|]. cbn [app prefixb]. rewrite Z.eqb_refl. exact IH. Qed.

Lemma replace_skip pat rep a : forall rest, replace_go pat rep (length a) (a ++ rest) = replace_go pat rep O rest.
Proof. induction a as [|c a IH]; intro rest; [reflexivity|]. cbn [length app replace_go]. apply IH. Qed.

Lemma replace_hit x pat rep rest :
  replace_go (x :: pat) rep O ((x :: pat) ++ rest) = rep ++ replace_go (x :: pat) rep O rest.
Proof.
  cbn [app replace_go]. change (x :: pat ++ rest) with ((x :: pat) ++ rest). rewrite prefixb_app.
  cbn [length]. rewrite Nat.sub_succ, Nat.sub_0_r. rewrite replace_skip. reflexivity.
Qed.

(* ------------------------------------------------------------------ texts as tokens: characters and brace tags *)
Inductive btok := BC (c : Z) | BB (k : tagk) (lg : bool) (closing : bool).
Definition bname (k : tagk) (lg : bool) : text :=
  match k, lg with
  | KB, true => t_bold | KI, true => t_italic | KU, true => t_underline
  | KB, false => t_b | KI, false => t_i | KU, false => t_u
  end.
Definition render1 (t : btok) : text := match t with BC c => [c] | BB k lg cl => brace cl (bname k lg) end.
Definition render (ts : list btok) : text := flat_map render1 ts.
Definition okc (t : btok) : Prop := match t with BC c => c <> 123 | BB _ _ _ => True end.

Definition same_tag (k : tagk) (lg cl : bool) (k' : tagk) (lg' cl' : bool) : bool :=
  tagk_eqb k k' && Bool.eqb lg lg' && Bool.eqb cl cl'.
Definition subst1 (k : tagk) (lg cl : bool) (t : btok) : list btok :=
  match t with
  | BB k' lg' cl' => if same_tag k lg cl k' lg' cl' then map BC (angle cl (bname k lg)) else [t]
  | BC _ => [t]
  end.
Definition subst (k : tagk) (lg cl : bool) (ts : list btok) : list btok := flat_map (subst1 k lg cl) ts.

Lemma render_chars s : render (map BC s) = s.
Proof. induction s as [|c s IH]; [reflexivity|]. cbn [map render flat_map render1 app]. fold (render (map BC s)). rewrite IH. reflexivity. Qed.
Lemma render_app a b : render (a ++ b) = render a ++ render b.
Proof. unfold render. apply flat_map_app. Qed.

Lemma replace_miss k lg cl k' lg' cl' rest : same_tag k lg cl k' lg' cl' = false ->
  replace_go (brace cl (bname k lg)) (angle cl (bname k lg)) O (brace cl' (bname k' lg') ++ rest) =
  brace cl' (bname k' lg') ++ replace_go (brace cl (bname k lg)) (angle cl (bname k lg)) O rest.
Proof. intro H. destruct k, lg, cl, k', lg', cl'; try discriminate; reflexivity. Qed.

Lemma brace_is_cons cl k lg : exists p, brace cl (bname k lg) = 123 :: p.
Proof. eexists. reflexivity. Qed.

Lemma replace_tokens k lg cl ts : Forall okc ts ->
  replace (brace cl (bname k lg)) (angle cl (bname k lg)) (render ts) = render (subst k lg cl ts).
Proof.
  unfold replace. induction 1 as [|t ts Ht _ IH]; [reflexivity|].
  cbn [render flat_map subst]. fold (render ts). fold (subst k lg cl ts). rewrite render_app.
  destruct t as [c|k' lg' cl'].
  - cbn [render1 subst1 app okc] in *. destruct (brace_is_cons cl k lg) as (p & E). rewrite E.
    cbn [replace_go prefixb]. replace (123 =? c) with false by lia. cbn [andb]. rewrite <- E. rewrite IH. reflexivity.
  - cbn [render1 subst1]. destruct (same_tag k lg cl k' lg' cl') eqn:S.
    + assert (k' = k /\ lg' = lg /\ cl' = cl) as (-> & -> & ->) by (destruct k, k', lg, lg', cl, cl'; try discriminate; auto).
      destruct (brace_is_cons cl k lg) as (p & E). rewrite E. rewrite replace_hit. rewrite <- E. rewrite IH.
      rewrite render_chars. reflexivity.
    + rewrite replace_miss by auto. rewrite IH. cbn [render flat_map render1]. rewrite app_nil_r. reflexivity.
Qed.

Lemma subst_ok k lg cl ts : Forall okc ts -> Forall okc (subst k lg cl ts).
Proof.
  induction 1 as [|t ts Ht _ IH]; [constructor|]. cbn [subst flat_map]. apply Forall_app. split; [|exact IH].
  destruct t as [c|k' lg' cl']; cbn [subst1]; [repeat constructor; auto|].
  destruct (same_tag k lg cl k' lg' cl'); [|repeat constructor].
  destruct k, lg, cl; repeat constructor; cbn; lia.
Qed.

(* the twelve replacements, in the order of rewrite_text *)
Definition subst6 (lg : bool) (ts : list btok) : list btok :=
  subst KU lg true (subst KU lg false (subst KI lg true (subst KI lg false (subst KB lg true (subst KB lg false ts))))).
Definition subst12 (ts : list btok) : list btok := subst6 false (subst6 true ts).
Definition final1 (t : btok) : text := match t with BC c => [c] | BB k lg cl => angle cl (bname k lg) end.

Lemma subst_app k lg cl a b : subst k lg cl (a ++ b) = subst k lg cl a ++ subst k lg cl b.
Proof. unfold subst. apply flat_map_app. Qed.
Lemma subst6_app lg a b : subst6 lg (a ++ b) = subst6 lg a ++ subst6 lg b.
Proof. unfold subst6. rewrite !subst_app. reflexivity. Qed.
Lemma subst12_cons t ts : subst12 (t :: ts) = subst12 [t] ++ subst12 ts.
Proof. unfold subst12. change (t :: ts) with ([t] ++ ts). rewrite !subst6_app. reflexivity. Qed.
Lemma subst12_one t : render (subst12 [t]) = final1 t.
Proof. destruct t as [c|k lg cl]; [reflexivity|]. destruct k, lg, cl; reflexivity. Qed.
Lemma render_subst12 ts : render (subst12 ts) = flat_map final1 ts.
Proof.
  induction ts as [|t ts IH]; [reflexivity|]. rewrite subst12_cons, render_app, subst12_one, IH. reflexivity.
Qed.
Lemma subst6_ok lg ts : Forall okc ts -> Forall okc (subst6 lg ts).
Proof. intro H. unfold subst6. auto 10 using subst_ok. Qed.

Lemma rw_subst6 lg ts : Forall okc ts ->
  replace (brace true (bname KU lg)) (angle true (bname KU lg))
   (replace (brace false (bname KU lg)) (angle false (bname KU lg))
    (replace (brace true (bname KI lg)) (angle true (bname KI lg))
     (replace (brace false (bname KI lg)) (angle false (bname KI lg))
      (replace (brace true (bname KB lg)) (angle true (bname KB lg))
       (replace (brace false (bname KB lg)) (angle false (bname KB lg)) (render ts)))))) = render (subst6 lg ts).
Proof.
  intro H. unfold subst6.
  rewrite replace_tokens by auto.
  rewrite replace_tokens by auto using subst_ok.
  rewrite replace_tokens by auto using subst_ok.
  rewrite replace_tokens by auto using subst_ok.
  rewrite replace_tokens by auto 7 using subst_ok.
  rewrite replace_tokens by auto 8 using subst_ok.
  reflexivity.
Qed.

Lemma rw_tokens ts : Forall okc ts -> no_cr (render ts) -> rw (render ts) = flat_map final1 ts.
Proof.
  intros H B. unfold rw. rewrite (replace_id _ _ _ (has_sub_lfcr _ B)).
  change t_bold with (bname KB true). change t_italic with (bname KI true). change t_underline with (bname KU true).
  change t_b with (bname KB false). change t_i with (bname KI false). change t_u with (bname KU false).
  rewrite rw_subst6 by auto. rewrite rw_subst6 by auto using subst6_ok.
  apply render_subst12.
Qed.

(* ------------------------------------------------------------------ payloads as tokens *)
Definition angleify_syn (sy : syn) : syn := match sy with BraceLong => AngleLong | BraceShort => AngleShort | _ => sy end.
Fixpoint angleify (n : node) : node :=
  match n with
  | NTag k sy body => NTag k (angleify_syn sy) ((fix go (l : list node) : list node := match l with [] => [] | x :: l' => angleify x :: go l' end) body)
  | NFont c q body => NFont c q ((fix go (l : list node) : list node := match l with [] => [] | x :: l' => angleify x :: go l' end) body)
  | NStray k sy => NStray k (angleify_syn sy)
  | _ => n
  end.
Definition angleify_list (l : list node) : list node := map angleify l.
Definition ctx_map (ctx : option (tagk * syn)) : option (tagk * syn) :=
  match ctx with Some (k, sy) => Some (k, angleify_syn sy) | None => None end.

Fixpoint btoks (n : node) : list btok :=
  match n with
  | NTag k BraceLong body =>
      BB k true false :: (fix go (l : list node) : list btok := match l with [] => [] | x :: l' => btoks x ++ go l' end) body ++ [BB k true true]
  | NTag k BraceShort body =>
      BB k false false :: (fix go (l : list node) : list btok := match l with [] => [] | x :: l' => btoks x ++ go l' end) body ++ [BB k false true]
  | NTag k sy body =>
      map BC (open_tag k sy) ++ (fix go (l : list node) : list btok := match l with [] => [] | x :: l' => btoks x ++ go l' end) body ++ map BC (close_tag k sy)
  | NFont c q body =>
      map BC (open_font c q) ++ (fix go (l : list node) : list btok := match l with [] => [] | x :: l' => btoks x ++ go l' end) body ++ map BC close_font
  | NStray k BraceLong => [BB k true true]
  | NStray k BraceShort => [BB k false true]
  | _ => map BC (print_node n)
  end.
Definition btoks_list (l : list node) : list btok := flat_map btoks l.

Lemma angleify_tag k sy body : angleify (NTag k sy body) = NTag k (angleify_syn sy) (angleify_list body).
Proof. reflexivity. Qed.
Lemma angleify_font c q body : angleify (NFont c q body) = NFont c q (angleify_list body).
Proof. reflexivity. Qed.
Lemma btoks_inner body :
  (fix go (l : list node) : list btok := match l with [] => [] | x :: l' => btoks x ++ go l' end) body = btoks_list body.
Proof. induction body as [|x l IH]; [reflexivity|]. unfold btoks_list. cbn [flat_map]. fold (btoks_list l). rewrite <- IH. reflexivity. Qed.

Lemma okc_chars s : lacks 123 s -> Forall okc (map BC s).
Proof.
  unfold lacks. induction s as [|c s IH]; intro H; [constructor|].
  cbn [forallb] in H. apply andb_true_iff in H as [H1 H2]. cbn [map]. constructor; [cbn; lia|auto].
Qed.
Lemma flat_final_chars s : flat_map final1 (map BC s) = s.
Proof. induction s as [|c s IH]; [reflexivity|]. cbn [map flat_map final1 app]. rewrite IH. reflexivity. Qed.

Lemma open_brace_forms k : 
  open_tag k BraceLong = brace false (bname k true) /\ close_tag k BraceLong = brace true (bname k true) /\
  open_tag k AngleLong = angle false (bname k true) /\ close_tag k AngleLong = angle true (bname k true) /\
  open_tag k BraceShort = brace false (bname k false) /\ close_tag k BraceShort = brace true (bname k false) /\
  open_tag k AngleShort = angle false (bname k false) /\ close_tag k AngleShort = angle true (bname k false).
Proof. destruct k; repeat split. Qed.

Lemma same_name_angleify k sy k' sy' : same_name k (angleify_syn sy) k' (angleify_syn sy') = same_name k sy k' sy'.
Proof. destruct sy, sy'; reflexivity. Qed.

(* the printed payload is the rendering of its tokens; the tokens are free of stray '{'; after the twelve
   replacements the rendering is the printed form of the angle-syntax payload; which is an angle payload with
   the same meaning, and in which the closers that close nothing still close nothing *)
Lemma all_tokens : forall p, forallb wf_node p = true ->
  print_nodes p = render (btoks_list p) /\ Forall okc (btoks_list p) /\
  flat_map final1 (btoks_list p) = print_nodes (angleify_list p) /\
  forallb angle_node (angleify_list p) = true /\ forallb wf_node (angleify_list p) = true /\
  (forall s, items_list s (angleify_list p) = items_list s p) /\
  (forall ctx, forallb (stray_ok (ctx_map ctx)) (angleify_list p) = forallb (stray_ok ctx) p) /\
  no_cr (print_nodes p).
Proof.
  apply (nodes_ind2
    (fun n => wf_node n = true ->
       print_node n = render (btoks n) /\ Forall okc (btoks n) /\ flat_map final1 (btoks n) = print_node (angleify n) /\
       angle_node (angleify n) = true /\ wf_node (angleify n) = true /\ (forall s, items s (angleify n) = items s n) /\
       (forall ctx, stray_ok (ctx_map ctx) (angleify n) = stray_ok ctx n) /\
       no_cr (print_node n))
    (fun p => forallb wf_node p = true ->
       print_nodes p = render (btoks_list p) /\ Forall okc (btoks_list p) /\
       flat_map final1 (btoks_list p) = print_nodes (angleify_list p) /\
       forallb angle_node (angleify_list p) = true /\ forallb wf_node (angleify_list p) = true /\
       (forall s, items_list s (angleify_list p) = items_list s p) /\
       (forall ctx, forallb (stray_ok (ctx_map ctx)) (angleify_list p) = forallb (stray_ok ctx) p) /\
       no_cr (print_nodes p))).
  - (* NChar *) intros c W. cbn [wf_node] in W. cbn [btoks angleify print_node map].
    repeat split; auto. + repeat constructor. cbn. unfold plain_char in W. lia.
    + unfold no_cr. cbn [forallb]. unfold plain_char in W. rewrite andb_true_r. lia.
  - (* NRef *) intros r W. cbn [wf_node] in W. destruct (cref_chars r W) as (_ & A & B & _).
    cbn [btoks angleify print_node]. rewrite render_chars, flat_final_chars. repeat split; auto using okc_chars.
  - (* NBreak *) intros _. cbn [btoks angleify print_node map]. repeat split; auto. repeat constructor. cbn. lia.
  - (* NTag *) intros k sy body IH Hw.
    rewrite wf_tag in Hw. destruct (IH Hw) as (P1 & P2 & P3 & P4 & P5 & P6 & P8 & P7). clear IH.
    rewrite angleify_tag, print_tag, print_tag, angle_tag, wf_tag, P5.
    destruct (open_brace_forms k) as (O1 & O2 & O3 & O4 & O5 & O6 & O7 & O8).
    assert (IT : forall s, items s (NTag k (angleify_syn sy) (angleify_list body)) = items s (NTag k sy body)).
    { intro s. rewrite !items_tag. apply P6. }
    assert (ST : forall ctx, stray_ok (ctx_map ctx) (NTag k (angleify_syn sy) (angleify_list body)) = stray_ok ctx (NTag k sy body)).
    { intro ctx. rewrite !stray_tag. apply (P8 (Some (k, sy))). }
    destruct sy; cbn [btoks angleify_syn is_brace negb andb] in *; rewrite btoks_inner.
    1-3: (rewrite !render_app, !render_chars, !flat_map_app, !flat_final_chars, <- P1, P3;
          match goal with |- context [open_tag ?k0 ?sy] =>
            assert (O : lacks 123 (open_tag k0 sy) /\ no_cr (open_tag k0 sy) /\ lacks 123 (close_tag k0 sy) /\ no_cr (close_tag k0 sy))
              by (destruct k0; repeat split) end;
          destruct O as (Q1 & Q2 & Q3 & Q4);
          split; [reflexivity|]; split; [repeat (apply Forall_app; split); auto using okc_chars|];
          split; [reflexivity|]; split; [exact P4|]; split; [reflexivity|]; split; [exact IT|]; split; [exact ST|];
          repeat (first [assumption | apply no_cr_app])).
    + (* BraceLong *)
      change (BB k true false :: btoks_list body ++ [BB k true true]) with ([BB k true false] ++ btoks_list body ++ [BB k true true]).
      rewrite !render_app, !flat_map_app. cbn [render flat_map render1 final1]. rewrite !app_nil_r.
      fold (render (btoks_list body)). rewrite <- P1, P3, O1, O2, O3, O4.
      assert (Q : no_cr (brace false (bname k true)) /\ no_cr (brace true (bname k true))) by (destruct k; split; reflexivity).
      destruct Q as [Q1 Q2].
      repeat split; auto.
      * repeat (apply Forall_app; split); auto; repeat constructor.
      * repeat (first [assumption | apply no_cr_app]).
    + (* BraceShort *)
      change (BB k false false :: btoks_list body ++ [BB k false true]) with ([BB k false false] ++ btoks_list body ++ [BB k false true]).
      rewrite !render_app, !flat_map_app. cbn [render flat_map render1 final1]. rewrite !app_nil_r.
      fold (render (btoks_list body)). rewrite <- P1, P3, O5, O6, O7, O8.
      assert (Q : no_cr (brace false (bname k false)) /\ no_cr (brace true (bname k false))) by (destruct k; split; reflexivity).
      destruct Q as [Q1 Q2].
      repeat split; auto.
      * repeat (apply Forall_app; split); auto; repeat constructor.
      * repeat (first [assumption | apply no_cr_app]).
  - (* NFont *) intros c q body IH Hw. rewrite wf_font in Hw. apply andb_true_iff in Hw as [Wc Hw].
    destruct (IH Hw) as (P1 & P2 & P3 & P4 & P5 & P6 & P8 & P7). clear IH.
    rewrite angleify_font, print_font, print_font, angle_font, wf_font, P5, Wc.
    cbn [btoks]. rewrite btoks_inner.
    rewrite !render_app, !render_chars, !flat_map_app, !flat_final_chars, <- P1, P3.
    destruct (font_open_chars c q Wc) as [Q1 Q2].
    assert (Q : lacks 123 close_font /\ no_cr close_font) by (split; reflexivity). destruct Q as [Q3 Q4].
    repeat split; auto.
    + repeat (apply Forall_app; split); auto using okc_chars.
    + intro s. rewrite !items_font. apply P6.
    + intro ctx. rewrite !stray_font. apply (P8 None).
    + repeat (first [assumption | apply no_cr_app]).
  - (* NStray *) intros k sy _.
    assert (ST : forall ctx, stray_ok (ctx_map ctx) (angleify (NStray k sy)) = stray_ok ctx (NStray k sy)).
    { intros [[k' sy']|]; cbn [ctx_map angleify stray_ok]; [rewrite same_name_angleify|]; reflexivity. }
    destruct (open_brace_forms k) as (O1 & O2 & O3 & O4 & O5 & O6 & O7 & O8).
    destruct sy; cbn [btoks angleify angleify_syn print_node angle_node is_brace negb wf_node].
    1-3: (rewrite render_chars, flat_final_chars;
          match goal with |- context [close_tag ?k0 ?sy] =>
            assert (O : lacks 123 (close_tag k0 sy) /\ no_cr (close_tag k0 sy)) by (destruct k0; repeat split) end;
          destruct O as (Q3 & Q4); repeat split; auto using okc_chars).
    + cbn [render flat_map render1 final1]. rewrite !app_nil_r. rewrite O2, O4.
      repeat split; auto; [repeat constructor|destruct k; reflexivity].
    + cbn [render flat_map render1 final1]. rewrite !app_nil_r. rewrite O6, O8.
      repeat split; auto; [repeat constructor|destruct k; reflexivity].
  - (* nil *) intros _. repeat split; auto. constructor.
  - (* cons *) intros x l IHx IHl Hw. cbn [forallb] in *.
    apply andb_true_iff in Hw as [Hw1 Hw2].
    destruct (IHx Hw1) as (A1 & A2 & A3 & A4 & A5 & A6 & A8 & A7).
    destruct (IHl Hw2) as (B1 & B2 & B3 & B4 & B5 & B6 & B8 & B7).
    cbn [print_nodes btoks_list flat_map angleify_list map forallb items_list].
    fold (btoks_list l). fold (angleify_list l).
    rewrite render_app, flat_map_app, <- A1, <- B1, A3, B3, A4, A5, B4, B5.
    repeat split; auto.
    + apply Forall_app; auto.
    + intro s. rewrite A6, B6. reflexivity.
    + intro ctx. rewrite A8, B8. reflexivity.
    + apply no_cr_app; auto.
Qed.

(* C10_tags_scope for one cue, every tag syntax of the grammar *)
Theorem payload_good_all p :
  forallb wf_node p = true -> forallb (stray_ok None) p = true ->
  payload_good p /\ no_cr (print_nodes p).
Proof.
  intros Hw Hs. destruct (all_tokens p Hw) as (P1 & P2 & P3 & P4 & P5 & P6 & P8 & P7). split; auto.
  unfold payload_good. rewrite P1. rewrite rw_tokens by (auto; rewrite <- P1; auto). rewrite P3.
  assert (S' : forallb (stray_ok None) (angleify_list p) = true) by (rewrite <- Hs; apply (P8 None)).
  destruct (angle_parse (angleify_list p) P4 P5 S') as (kids & K1 & K2).
  exists kids. split; auto. rewrite K2. apply P6.
Qed.

Lemma cues_ok_all f : wf_file f = true -> Forall cue_ok (f_cues f).
Proof.
  unfold wf_file. intros W. apply andb_true_iff in W as [_ W].
  pose proof (wf_cues_each _ W) as E. clear W.
  induction (f_cues f) as [|c cs IH]; [constructor|].
  inversion E; subst. constructor; auto.
  unfold cue_ok. apply payload_good_all; [apply (w_nodes c H1)|apply (w_stray c H1)].
Qed.

(* ------------------------------------------------------------------ the statements of Properties/C10.v *)
Theorem roundtrip_file_full f : wf_file f = true -> read_cues_file (print_file f) = Ok (cues f).
Proof. intros. apply roundtrip_file_any; auto using cues_ok_all. Qed.

Theorem roundtrip_stream_full f : wf_file f = true -> read_cues (print_file f) = Ok (cues f).
Proof. intros. apply roundtrip_stream_any; auto using cues_ok_all. Qed.

Theorem tags_scope p :
  forallb wf_node p = true -> forallb (stray_ok None) p = true ->
  forallb (fun l => negb (all_ws l)) (payload_lines p) = true ->
  exists kids, parse_text (rewrite_text (print_nodes p)) = Ok kids /\ flat_list st0 kids = items_list st0 p.
Proof.
  intros Hw Hs Hl. destruct (payload_good_all p Hw Hs) as [G Cr].
  rewrite rewrite_text_rw. rewrite payload_lines_split in Hl.
  pose proof (strip_lines (print_nodes p) false Cr Hl) as S. cbn iota in S. rewrite app_nil_r in S. rewrite S. exact G.
Qed.

Theorem tolerates f f' :
  wf_file f = true -> wf_file f' = true -> Forall2 same_content (f_cues f) (f_cues f') ->
  read_cues_file (print_file f) = Ok (cues f) /\ read_cues (print_file f) = Ok (cues f) /\
  read_cues_file (print_file f') = Ok (cues f) /\ read_cues (print_file f') = Ok (cues f).
Proof.
  intros W W' S. rewrite !roundtrip_file_full, !roundtrip_stream_full by auto.
  assert (E : cues f' = cues f) by (unfold cues; symmetry; apply same_content_cues; auto).
  rewrite E. auto.
Qed.
