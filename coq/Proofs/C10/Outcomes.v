(* C10, outcomes: with the repair of <font color> (a color attribute without a value is passed over instead of being
   handed to parse_color) no path of the transcribed reader raises TypeError any more; the only exception left is
   ValueError (parse_color on a value that is no colour; int() on an hour field longer than the interpreter converts).
   For every input text - no grammar is assumed. *)
From TT Require Import Base.Prelude Base.SrtTypes Gen.SrtTables Model.SrtReader Spec.SrtCueSpec Proofs.C10.Time.
From Coq Require Import QArith.
Local Open Scope Z_scope.

Definition value_error_only {A} (o : outcome A) : Prop := forall e, o = Raised e -> e = EValueError.

Lemma veo_ok {A} (a : A) : value_error_only (Ok a).
Proof. intros e H. discriminate. Qed.
Lemma veo_none {A} : value_error_only (@RetNone A).
Proof. intros e H. discriminate. Qed.
Lemma veo_unmodelled {A} : value_error_only (@Unmodelled A).
Proof. intros e H. discriminate. Qed.
Lemma veo_value {A} : value_error_only (@Raised A EValueError).
Proof. intros e H. congruence. Qed.
Lemma veo_map {A B} (f : A -> B) o : value_error_only o -> value_error_only (outcome_map f o).
Proof. intros H e E. destruct o; cbn [outcome_map] in E; try discriminate. inversion E; subst. apply H. reflexivity. Qed.

Lemma rgba_of_veo r g b a : value_error_only (rgba_of r g b a).
Proof. destruct r, g, b, a; cbn [rgba_of]; first [apply veo_ok | apply veo_value]. Qed.
Lemma bind_some {A B} (o : option A) (f : A -> option B) y : bind o f = Some y -> exists x, o = Some x /\ f x = Some y.
Proof. destruct o; cbn [bind]; [eauto|discriminate]. Qed.
Lemma dec_color_veo v : (exists o, dec_color v = Some o /\ value_error_only o) \/ dec_color v = None.
Proof.
  destruct (dec_color v) as [o|] eqn:E; [left|right; reflexivity]. exists o. split; [reflexivity|].
  unfold dec_color in E.
  repeat (apply bind_some in E; destruct E as (? & _ & E); try match type of E with (let '(_, _) := ?p in _) = _ => destruct p end).
  injection E as <-. apply rgba_of_veo.
Qed.
Lemma dec_colora_veo v : (exists o, dec_colora v = Some o /\ value_error_only o) \/ dec_colora v = None.
Proof.
  destruct (dec_colora v) as [o|] eqn:E; [left|right; reflexivity]. exists o. split; [reflexivity|].
  unfold dec_colora in E.
  repeat (apply bind_some in E; destruct E as (? & _ & E); try match type of E with (let '(_, _) := ?p in _) = _ => destruct p end).
  injection E as <-. apply rgba_of_veo.
Qed.

Lemma parse_color_veo v : value_error_only (parse_color v).
Proof.
  unfold parse_color.
  destruct (match lower_key v with Some k => assoc k named_colors | None => None end); [apply veo_ok|].
  destruct (hex_color v); [apply veo_ok|].
  destruct (dec_color_veo v) as [[o [E H]]|E]; rewrite E; [exact H|].
  destruct (dec_colora_veo v) as [[o [E' H]]|E']; rewrite E'; [exact H|apply veo_value].
Qed.

Lemma tag_style_veo tag attrs : value_error_only (tag_style tag attrs).
Proof.
  unfold tag_style.
  repeat match goal with |- value_error_only (if ?c then _ else _) => destruct c; [apply veo_ok|] end.
  destruct (text_eqb (lower tag) t_font); [|apply veo_ok].
  destruct (find_color attrs); [apply veo_map, parse_color_veo|apply veo_ok].
Qed.

(* the repair itself: a color attribute without a value does not count, wherever it stands among the attributes; the
   first color attribute that has a value decides *)
Lemma find_color_novalue attrs : find_color ((t_color, None) :: attrs) = find_color attrs.
Proof. cbn [find_color]. change (text_eqb t_color t_color) with true. reflexivity. Qed.
Lemma font_color_novalue_ignored attrs : tag_style t_font ((t_color, None) :: attrs) = tag_style t_font attrs.
Proof. unfold tag_style. rewrite find_color_novalue. reflexivity. Qed.
Lemma font_color_only_novalue : tag_style t_font [(t_color, None)] = Ok st0.
Proof. reflexivity. Qed.
Lemma find_color_first_value attrs v rest :
  forallb (fun a => match snd a with None => true | Some _ => negb (text_eqb (fst a) t_color) end) attrs = true ->
  find_color (attrs ++ (t_color, Some v) :: rest) = Some v.
Proof.
  induction attrs as [|[n x] attrs IH]; intro H.
  - cbn [app find_color]. change (text_eqb t_color t_color) with true. reflexivity.
  - cbn [forallb fst snd] in H. apply andb_true_iff in H as [H1 H2]. cbn [app find_color].
    destruct x as [x|].
    + apply negb_true_iff in H1. rewrite H1. auto.
    + destruct (text_eqb n t_color); auto.
Qed.

Lemma handle_start_veo tag attrs cur : value_error_only (handle_start tag attrs cur).
Proof.
  destruct cur as [frames pk]. unfold handle_start. pose proof (tag_style_veo tag attrs) as H.
  destruct (tag_style tag attrs); intros e' E; try discriminate. inversion E; subst. apply H. reflexivity.
Qed.
Lemma handle_end_ok tag cur : exists c, handle_end tag cur = Ok c.
Proof.
  destruct cur as [[|[[n s] k] fs] pk]; cbn [handle_end]; [eexists; reflexivity|].
  destruct (text_eqb n tag); eexists; reflexivity.
Qed.

Lemma handle_veo ts : forall cur, value_error_only (handle ts cur).
Proof.
  induction ts as [|t ts IH]; intro cur; cbn [handle]; [apply veo_ok|].
  destruct t as [d|n a|n|].
  - destruct cur as [frames pk]. cbn [handle_data]. apply IH.
  - pose proof (handle_start_veo n a cur) as H. destruct (handle_start n a cur); try (intros e E; discriminate); [apply IH|].
    intros e1 E. inversion E; subst. apply H. reflexivity.
  - destruct (handle_end_ok n cur) as (c & E). rewrite E. apply IH.
  - apply veo_unmodelled.
Qed.

Lemma parse_text_veo t : value_error_only (parse_text t).
Proof.
  unfold parse_text. pose proof (handle_veo (tokenize t) (CP [] [])) as H.
  destruct (handle _ _) as [[frames pk]| |e|]; intros e1 E; try discriminate. inversion E; subst. apply H. reflexivity.
Qed.

Definition stop_veo (r : stepres) : Prop := match r with Continue _ => True | Stop o => value_error_only o end.

Lemma finish_cue_veo s : stop_veo (finish_cue s).
Proof.
  unfold finish_cue. pose proof (parse_text_veo (rewrite_text (m_text s))) as H.
  destruct (parse_text _); cbn [stop_veo]; auto; try (intros e1 E; discriminate).
  intros e1 E. inversion E; subst. apply H. reflexivity.
Qed.

Lemma step_veo s l : stop_veo (step s l).
Proof.
  unfold step. destruct (m_mode s).
  - destruct (is_blank l); [exact I|]. destruct (negb _); [apply veo_none|exact I].
  - destruct (search_tc l); [|apply veo_none]. destruct (negb _); [apply veo_value|exact I].
  - destruct (is_blank l); [apply finish_cue_veo|exact I].
  - destruct (is_blank l); [apply finish_cue_veo|exact I].
Qed.

Lemma at_eof_veo s : value_error_only (at_eof s).
Proof.
  unfold at_eof. destruct (m_mode s); try apply veo_ok;
  (pose proof (finish_cue_veo s) as H; destruct (finish_cue s); [apply veo_ok|exact H]).
Qed.

Lemma run_veo ls : forall s, value_error_only (run ls s).
Proof.
  induction ls as [|l ls IH]; intro s; cbn [run]; [apply at_eof_veo|].
  pose proof (step_veo s l) as H. destruct (step s l); [apply IH|exact H].
Qed.

(* C10_only_value_error *)
Theorem only_value_error content :
  value_error_only (to_model content) /\ value_error_only (to_model_file content) /\
  value_error_only (read_cues content) /\ value_error_only (read_cues_file content).
Proof.
  unfold read_cues, read_cues_file, to_model_file, to_model.
  repeat split; try apply veo_map; apply run_veo.
Qed.

(* the texts on which the code used to raise TypeError: a span without colour now; and the second attribute decides
   when the first has no value *)
Lemma font_novalue_examples :
  parse_text [60;102;111;110;116;32;99;111;108;111;114;62; 120; 60;47;102;111;110;116;62]                (* <font color>x</font> *)
    = Ok [ESpan st0 [ESpan st0 [EText [120]]]] /\
  parse_text [60;102;111;110;116;32;99;111;108;111;114;32;99;111;108;111;114;61;114;101;100;62; 120]      (* <font color color=red>x *)
    = Ok [ESpan (mkSt false false false (Some (255, 0, 0, 255))) [ESpan st0 [EText [120]]]] /\
  parse_text [60;102;111;110;116;32;99;111;108;111;114;61;34;34;62; 120] = Raised EValueError.            (* <font color="">x *)
Proof. vm_compute. repeat split. Qed.

(* the bound on the hour width in the grammar (wf_clock) is tight: a timing line whose begin or end hour field is longer
   than the interpreter converts makes to_model raise ValueError, whatever else the file holds *)
Theorem long_hours_value_error k1 k2 ws1 ws2 tail d tm att tx : clock_shape k1 = true -> clock_shape k2 = true ->
  ws1 <> [] -> forallb is_space ws1 = true -> ws2 <> [] -> forallb is_space ws2 = true ->
  int_max_str_digits < Z.of_nat (k_hw k1) \/ int_max_str_digits < Z.of_nat (k_hw k2) ->
  step (mkM TC d tm att tx) (print_clock k1 ++ ws1 ++ [45;45;62] ++ ws2 ++ print_clock k2 ++ tail) = Stop (Raised EValueError).
Proof.
  intros W1 W2 N1 S1 N2 S2 L. unfold step. cbn [m_mode]. rewrite !print_clock_text.
  change (clock_text (hours_text k1) (pad2 (k_m k1)) (pad2 (k_s k1)) (pad3 (k_ms k1)) ++ ws1 ++ [45;45;62] ++ ws2 ++
          clock_text (hours_text k2) (pad2 (k_m k2)) (pad2 (k_s k2)) (pad3 (k_ms k2)) ++ tail)
    with (timing_text (hours_text k1) (pad2 (k_m k1)) (pad2 (k_s k1)) (pad3 (k_ms k1)) ws1 ws2
                      (hours_text k2) (pad2 (k_m k2)) (pad2 (k_s k2)) (pad3 (k_ms k2)) tail).
  rewrite search_tc_spec by auto using clock_digits_shape.
  cbn [g_bh g_eh]. unfold int_converts.
  pose proof (hours_digits k1 W1) as (_ & L1 & _). pose proof (hours_digits k2 W2) as (_ & L2 & _). rewrite L1, L2.
  replace (negb _) with true; [reflexivity|]. symmetry. apply negb_true_iff. apply andb_false_iff. lia.
Qed.

(* ------------------------------------------------------------------ colours are bytes *)
(* with the repair of parse_color (fullmatch, components above 255 rejected) every colour that parse_color returns - named,
   hexadecimal, rgb(), rgba() - has its four components in 0..255, for EVERY attribute value *)
Definition bytes (c : rgba) : bool :=
  let '(r, g, b, a) := c in byte_ok r && byte_ok g && byte_ok b && byte_ok a.

Lemma assoc_in {B} k (l : list (text * B)) v : assoc k l = Some v -> exists k', In (k', v) l.
Proof.
  induction l as [|[k' v'] l IH]; cbn [assoc]; [discriminate|].
  destruct (text_eqb k k'); intro H.
  - injection H as <-. exists k'. left. reflexivity.
  - destruct (IH H) as (k2 & I). exists k2. right. exact I.
Qed.
Lemma named_bytes k c : assoc k named_colors = Some c -> bytes c = true.
Proof.
  intro H. destruct (assoc_in _ _ _ H) as (k' & I).
  assert (A : forallb (fun p => bytes (snd p)) named_colors = true) by (vm_compute; reflexivity).
  rewrite forallb_forall in A. apply (A (k', c) I).
Qed.

Lemma hex_val_bound c : is_hex c = true -> 0 <= hex_val c <= 15.
Proof. unfold is_hex, hex_val, is_digit. intro H. destruct ((48 <=? c) && (c <=? 57)) eqn:E; [lia|]. destruct (c <=? 70) eqn:F; lia. Qed.
Lemma hex_pair_byte a b : is_hex a = true -> is_hex b = true -> byte_ok (int_of_hex [a; b]) = true.
Proof.
  intros A B. apply hex_val_bound in A. apply hex_val_bound in B. unfold int_of_hex, byte_ok. cbn [fold_left]. lia.
Qed.

(* the same recogniser with the first character tested by =? (the pattern 35 of hex_color is a match on the binary digits) *)
Definition hex_color' (v : text) : option rgba :=
  match v with
  | [x; a; b; c; d; e; f] =>
      if (x =? 35) && (is_hex a && is_hex b && is_hex c && is_hex d && is_hex e && is_hex f) then
        Some (int_of_hex [a; b], int_of_hex [c; d], int_of_hex [e; f], 255)
      else None
  | [x; a; b; c; d; e; f; g; h] =>
      if (x =? 35) && (is_hex a && is_hex b && is_hex c && is_hex d && is_hex e && is_hex f && is_hex g && is_hex h) then
        Some (int_of_hex [a; b], int_of_hex [c; d], int_of_hex [e; f], int_of_hex [g; h])
      else None
  | _ => None
  end.
Lemma hex_color_alt v : hex_color v = hex_color' v.
Proof.
  destruct v as [|x v]; [reflexivity|].
  destruct (x =? 35) eqn:E.
  - apply Z.eqb_eq in E. subst x. unfold hex_color, hex_color'.
    repeat (destruct v as [|? v]; try reflexivity).
  - unfold hex_color'. 
    assert (N : forall r, hex_color (x :: r) = None).
    { intro r. unfold hex_color.
      destruct x as [|p|p]; try reflexivity.
      repeat (destruct p as [p|p|]; try reflexivity). discriminate. }
    rewrite N. repeat (destruct v as [|? v]; try reflexivity); rewrite E; reflexivity.
Qed.

Lemma hex_color_bytes v c : hex_color v = Some c -> bytes c = true.
Proof.
  rewrite hex_color_alt. unfold hex_color'.
  repeat (destruct v as [|? v]; try discriminate).
  - destruct (_ && _) eqn:E; [|discriminate]. intro H. injection H as <-.
    apply andb_true_iff in E as [_ E]. repeat (apply andb_true_iff in E as [E ?]). unfold bytes. rewrite !hex_pair_byte by auto. reflexivity.
  - destruct (_ && _) eqn:E; [|discriminate]. intro H. injection H as <-.
    apply andb_true_iff in E as [_ E]. repeat (apply andb_true_iff in E as [E ?]). unfold bytes. rewrite !hex_pair_byte by auto. reflexivity.
Qed.

Lemma int_of_digits_nonneg ds : forallb is_digit ds = true -> 0 <= int_of_digits ds.
Proof. intro H. rewrite int_of_digits_value. induction ds as [|d r IH]; cbn [dec_value]; [lia|].
  cbn [forallb] in H. apply andb_true_iff in H as [H1 H2]. unfold is_digit in H1.
  assert (0 <= 10 ^ Z.of_nat (length r)) by (apply Z.pow_nonneg; lia). specialize (IH H2). nia. Qed.
Lemma take_while_all f s : forallb f (fst (take_while f s)) = true.
Proof. induction s as [|c s IH]; cbn [take_while]; [reflexivity|]. destruct (f c) eqn:E; [|reflexivity].
  destruct (take_while f s) as [a r]. cbn [fst forallb] in *. rewrite E, IH. reflexivity. Qed.
Lemma digits1_byte s n r : digits1 s = Some (Some n, r) -> byte_ok n = true.
Proof.
  unfold digits1. pose proof (take_while_all is_digit s) as A. destruct (take_while is_digit s) as [ds r']. cbn [fst] in A.
  destruct ds as [|d ds]; [discriminate|]. destruct (int_converts (d :: ds)); [|discriminate].
  destruct (255 <? int_of_digits (d :: ds)) eqn:E; [discriminate|]. intro H. injection H as <- _.
  pose proof (int_of_digits_nonneg _ A). unfold byte_ok. lia.
Qed.

Lemma rgba_of_bytes r g b a c : rgba_of r g b a = Ok c ->
  (forall n, r = Some n -> byte_ok n = true) -> (forall n, g = Some n -> byte_ok n = true) ->
  (forall n, b = Some n -> byte_ok n = true) -> (forall n, a = Some n -> byte_ok n = true) -> bytes c = true.
Proof.
  destruct r as [r|], g as [g|], b as [b|], a as [a|]; cbn [rgba_of]; try discriminate.
  intros H R G B A. injection H as <-. unfold bytes. rewrite (R r), (G g), (B b), (A a) by reflexivity. reflexivity.
Qed.

Lemma dec_color_bytes v c : dec_color v = Some (Ok c) -> bytes c = true.
Proof.
  unfold dec_color. intro E.
  apply bind_some in E; destruct E as (s0 & _ & E).
  apply bind_some in E; destruct E as ([r s1] & D1 & E).
  apply bind_some in E; destruct E as (s2 & _ & E).
  apply bind_some in E; destruct E as ([g s3] & D2 & E).
  apply bind_some in E; destruct E as (s4 & _ & E).
  apply bind_some in E; destruct E as ([b s5] & D3 & E).
  apply bind_some in E; destruct E as (s6 & _ & E).
  apply bind_some in E; destruct E as (u & _ & E).
  injection E as E. apply (rgba_of_bytes _ _ _ _ _ E).
  - intros n ->. eapply digits1_byte; eauto.
  - intros n ->. eapply digits1_byte; eauto.
  - intros n ->. eapply digits1_byte; eauto.
  - intros n H. injection H as <-. reflexivity.
Qed.
Lemma dec_colora_bytes v c : dec_colora v = Some (Ok c) -> bytes c = true.
Proof.
  unfold dec_colora. intro E.
  apply bind_some in E; destruct E as (s0 & _ & E).
  apply bind_some in E; destruct E as ([r s1] & D1 & E).
  apply bind_some in E; destruct E as (s2 & _ & E).
  apply bind_some in E; destruct E as ([g s3] & D2 & E).
  apply bind_some in E; destruct E as (s4 & _ & E).
  apply bind_some in E; destruct E as ([b s5] & D3 & E).
  apply bind_some in E; destruct E as (s6 & _ & E).
  apply bind_some in E; destruct E as ([a s7] & D4 & E).
  apply bind_some in E; destruct E as (s8 & _ & E).
  apply bind_some in E; destruct E as (u & _ & E).
  injection E as E. apply (rgba_of_bytes _ _ _ _ _ E); intros n ->; eapply digits1_byte; eauto.
Qed.

(* C10_colors_are_bytes *)
Theorem parse_color_bytes v c : parse_color v = Ok c -> bytes c = true.
Proof.
  unfold parse_color.
  destruct (lower_key v) as [k|].
  - destruct (assoc k named_colors) eqn:N; [intro H; injection H as <-; eapply named_bytes; eauto|].
    destruct (hex_color v) eqn:Hx; [intro H; injection H as <-; eapply hex_color_bytes; eauto|].
    destruct (dec_color v) as [o|] eqn:D; [intro H; subst o; eapply dec_color_bytes; eauto|].
    destruct (dec_colora v) as [o|] eqn:D'; [intro H; subst o; eapply dec_colora_bytes; eauto|discriminate].
  - destruct (hex_color v) eqn:Hx; [intro H; injection H as <-; eapply hex_color_bytes; eauto|].
    destruct (dec_color v) as [o|] eqn:D; [intro H; subst o; eapply dec_color_bytes; eauto|].
    destruct (dec_colora v) as [o|] eqn:D'; [intro H; subst o; eapply dec_colora_bytes; eauto|discriminate].
Qed.
(* what used to be accepted: trailing characters, a component above 255, digits outside ASCII *)
Lemma parse_color_rejects :
  parse_color [35;48;48;102;102;48;48;120] = Raised EValueError /\                  (* #00ff00x *)
  parse_color [114;103;98;40;49;44;50;44;51;41;32] = Raised EValueError /\           (* "rgb(1,2,3) " *)
  parse_color [114;103;98;40;50;53;54;44;48;44;48;41] = Raised EValueError /\        (* rgb(256,0,0) *)
  parse_color [114;103;98;40;1633;44;50;44;51;41] = Raised EValueError /\            (* rgb(U+0661,2,3) *)
  parse_color [114;103;98;40;50;53;53;44;32;48;44;48;41] = Ok (255, 0, 0, 255) /\    (* rgb(255, 0,0) *)
  parse_color [98;108;97;99;8490] = Ok (0, 0, 0, 255).                               (* blac + KELVIN SIGN: str.lower gives black *)
Proof. vm_compute. repeat split. Qed.

(* hence the colour that a start tag gives its span - the only place where the reader sets a colour *)
Theorem tag_style_bytes tag attrs st c : tag_style tag attrs = Ok st -> st_c st = Some c -> bytes c = true.
Proof.
  unfold tag_style.
  repeat match goal with |- (if ?b then _ else _) = _ -> _ => destruct b; [intro H; injection H as <-; discriminate|] end.
  destruct (text_eqb (lower tag) t_font); [|intro H; injection H as <-; discriminate].
  destruct (find_color attrs) as [v|]; [|intro H; injection H as <-; discriminate].
  destruct (parse_color v) as [c'| | |] eqn:P; cbn [outcome_map]; try discriminate.
  intro H. injection H as <-. cbn [st_c]. intro E. injection E as <-. eapply parse_color_bytes; eauto.
Qed.
