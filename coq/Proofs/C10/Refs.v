(* C10, character references: html.unescape as transcribed (unescape) on the references of the grammar. *)
From TT Require Import Base.Prelude Base.SrtTypes Gen.SrtTables Model.SrtReader Spec.SrtCueSpec
  Proofs.C10.Lines Proofs.C10.Text.
Local Open Scope Z_scope.

(* a text after which unescaping starts afresh: no reference is left open at its end *)
Definition closed (s : text) : Prop := forall x, unescape (s ++ x) = unescape s ++ unescape x.

Lemma closed_nil : closed [].
Proof. intro x. reflexivity. Qed.

Lemma unescape_cons c x : c <> 38 -> unescape (c :: x) = c :: unescape x.
Proof. intro H. unfold unescape. cbn [unesc_go]. replace (c =? 38) with false by lia. reflexivity. Qed.

Lemma closed_snoc s c : closed s -> c <> 38 -> closed (s ++ [c]) /\ unescape (s ++ [c]) = unescape s ++ [c].
Proof.
  intros H N. assert (E : unescape (s ++ [c]) = unescape s ++ [c]).
  { rewrite H. rewrite unescape_cons by auto. reflexivity. }
  split; auto. intro x. rewrite <- app_assoc. cbn [app]. rewrite H. rewrite unescape_cons by auto.
  rewrite E. rewrite <- app_assoc. reflexivity.
Qed.

Lemma unesc_skip a : forall x, unesc_go (length a) (a ++ x) = unesc_go O x.
Proof. induction a as [|c a IH]; intro x; [reflexivity|]. cbn [length app unesc_go]. apply IH. Qed.

(* ------------------------------------------------------------------ numeric references *)
Lemma assocz_none {B} n (l : list (Z * B)) : forallb (fun kv => negb (fst kv =? n)) l = true -> assocz n l = None.
Proof.
  induction l as [|[k v] l IH]; intro H; [reflexivity|].
  cbn [forallb fst] in H. apply andb_true_iff in H as [H1 H2]. cbn [assocz].
  replace (n =? k) with false by lia. auto.
Qed.

Definition ref_range (n : Z) : bool := ((32 <=? n) && (n <=? 126)) || ((160 <=? n) && (n <=? 55295)).

Lemma numeric_ref_plain n : ref_range n = true -> numeric_ref n = [n].
Proof.
  intro R. unfold ref_range in R. unfold numeric_ref.
  assert (A : forallb (fun kv => negb (ref_range (fst kv))) invalid_charrefs = true) by (vm_compute; reflexivity).
  assert (B : forallb (fun k => negb (ref_range k)) invalid_codepoints = true) by (vm_compute; reflexivity).
  rewrite assocz_none.
  2:{ rewrite forallb_forall in *. intros kv I. specialize (A kv I). unfold ref_range in A. lia. }
  replace (((55296 <=? n) && (n <=? 57343)) || (1114111 <? n)) with false by lia.
  destruct (existsb (Z.eqb n) invalid_codepoints) eqn:E; [|reflexivity].
  apply existsb_exists in E as (k & I & Q). apply Z.eqb_eq in Q. subst k.
  rewrite forallb_forall in B. specialize (B n I). unfold ref_range in B. exfalso. lia.
Qed.

(* digits printed by S: most significant first, at least one, value n *)
Definition dig_char (base : Z) (c : Z) : bool := if base =? 10 then is_digit c else is_hex c.
Definition dig_val (base : Z) (c : Z) : Z := if base =? 10 then c - 48 else hex_val c.

Lemma digit_of base d : (base = 10 \/ base = 16) -> 0 <= d < base ->
  let ch := if d <? 10 then 48 + d else 87 + d in dig_char base ch = true /\ dig_val base ch = d.
Proof.
  intros [B|B] H; subst base; unfold dig_char, dig_val; cbn [Z.eqb Pos.eqb]; cbn zeta.
  - replace (d <? 10) with true by lia. unfold is_digit. lia.
  - destruct (d <? 10) eqn:E.
    + unfold is_hex, hex_val, is_digit. replace ((48 <=? 48 + d) && (48 + d <=? 57)) with true by lia. cbn [orb]. lia.
    + unfold is_hex, hex_val, is_digit. replace ((48 <=? 87 + d) && (87 + d <=? 57)) with false by lia.
      replace (87 + d <=? 70) with false by lia. lia.
Qed.

Lemma digits_fuel_S k base n acc :
  digits_fuel (S k) base n acc =
  if n / base =? 0 then (if n mod base <? 10 then 48 + n mod base else 87 + n mod base) :: acc
  else digits_fuel k base (n / base) ((if n mod base <? 10 then 48 + n mod base else 87 + n mod base) :: acc).
Proof. reflexivity. Qed.

Lemma digits_fuel_spec base : (base = 10 \/ base = 16) -> forall k n acc, 0 <= n < base ^ Z.of_nat (S k) ->
  exists D, digits_fuel (S k) base n acc = D ++ acc /\ D <> [] /\ forallb (dig_char base) D = true /\
            fold_left (fun a c => a * base + dig_val base c) D 0 = n.
Proof.
  intros B. assert (Bp : 2 <= base) by lia.
  induction k as [|k IH]; intros n acc H.
  - change (Z.of_nat 1) with 1 in H. rewrite Z.pow_1_r in H.
    cbn [digits_fuel]. rewrite Z.mod_small by lia.
    destruct (digit_of base n B H) as [P V]. cbn zeta in P, V.
    replace (n / base =? 0) with true by (rewrite Z.div_small by lia; reflexivity).
    eexists [_]. split; [reflexivity|]. split; [discriminate|]. cbn [forallb fold_left]. rewrite P, V. split; [reflexivity|lia].
  - assert (Hd : 0 <= n mod base < base) by (apply Z.mod_pos_bound; lia).
    destruct (digit_of base (n mod base) B Hd) as [P V]. cbn zeta in P, V.
    rewrite digits_fuel_S. destruct (n / base =? 0) eqn:E.
    + eexists [_]. split; [reflexivity|]. split; [discriminate|]. cbn [forallb fold_left]. rewrite P, V. split; [reflexivity|].
      assert (n / base = 0) by lia. pose proof (Z.div_mod n base ltac:(lia)). lia.
    + assert (Hq : 0 <= n / base < base ^ Z.of_nat (S k)).
      { split; [apply Z.div_pos; lia|]. apply Z.div_lt_upper_bound; [lia|].
        rewrite (Nat2Z.inj_succ (S k)) in H. rewrite Z.pow_succ_r in H by lia. lia. }
      destruct (IH (n / base) ((if n mod base <? 10 then 48 + n mod base else 87 + n mod base) :: acc) Hq) as (D & E1 & E2 & E3 & E4).
      exists (D ++ [if n mod base <? 10 then 48 + n mod base else 87 + n mod base]).
      split; [rewrite E1, <- app_assoc; reflexivity|]. split; [destruct D; discriminate|].
      split; [rewrite forallb_app; cbn [forallb]; rewrite E3, P; reflexivity|].
      rewrite fold_left_app. cbn [fold_left]. rewrite E4, V. pose proof (Z.div_mod n base ltac:(lia)). lia.
Qed.

Lemma take_while_app f D c rest : forallb f D = true -> f c = false -> take_while f (D ++ c :: rest) = (D, c :: rest).
Proof.
  induction D as [|d D IH]; intros H N.
  - cbn [app take_while]. rewrite N. reflexivity.
  - cbn [forallb] in H. apply andb_true_iff in H as [H1 H2]. cbn [app take_while]. rewrite H1. rewrite IH by auto. reflexivity.
Qed.

Lemma wf_cref_range n : ((32 <=? n) && (n <=? 126)) || ((160 <=? n) && (n <=? 55295)) = true ->
  ref_range n = true /\ 0 <= n < 10 ^ Z.of_nat 8 /\ 0 <= n < 16 ^ Z.of_nat 8 /\ n <> 10.
Proof. intro H. unfold ref_range. change (10 ^ Z.of_nat 8) with 100000000. change (16 ^ Z.of_nat 8) with 4294967296. lia. Qed.

Lemma unesc_amp x : unesc_go O (38 :: x) =
  match charref x with Some (rep, n) => rep ++ unesc_go n x | None => 38 :: unesc_go O x end.
Proof. reflexivity. Qed.

(* ------------------------------------------------------------------ every reference of the grammar *)
Theorem unescape_ref r x : wf_cref r = true -> unescape (print_cref r ++ x) = cref_char r :: unescape x.
Proof.
  intro W. destruct r as [| | | | |n|n]; try reflexivity.
  - (* &#ddd; *)
    cbn [wf_cref] in W. destruct (wf_cref_range n W) as (R & H10 & _ & _).
    destruct (digits_fuel_spec 10 (or_introl eq_refl) 7 n [] H10) as (D & E1 & E2 & E3 & E4).
    cbn [print_cref cref_char]. rewrite E1, app_nil_r. unfold dig_char, dig_val in *. cbn [Z.eqb Pos.eqb] in *.
    destruct D as [|d0 D0] eqn:ED; [congruence|]. rewrite <- ED in *.
    assert (Hd0 : is_digit d0 = true) by (rewrite ED in E3; cbn [forallb] in E3; apply andb_true_iff in E3; tauto).
    repeat rewrite <- app_assoc. cbn [app]. unfold unescape. rewrite unesc_amp.
    assert (C : charref (35 :: D ++ 59 :: x) = Some ([n], (1 + length D + 1)%nat)).
    { rewrite ED at 1. cbn [app charref]. unfold is_digit in Hd0.
      replace ((d0 =? 120) || (d0 =? 88)) with false by lia. cbn [andb].
      fold (is_digit d0). unfold is_digit at 1. rewrite Hd0.
      change (d0 :: D0 ++ 59 :: x) with ((d0 :: D0) ++ 59 :: x). rewrite <- ED.
      rewrite take_while_app by (auto; reflexivity). cbn [opt_semi]. change (59 =? 59) with true. cbn iota.
      unfold int_of_digits. rewrite E4. rewrite numeric_ref_plain by auto. reflexivity. }
    rewrite C. cbn [app]. f_equal.
    replace (35 :: D ++ 59 :: x) with ((35 :: D ++ [59]) ++ x) by (cbn [app]; rewrite <- app_assoc; reflexivity).
    etransitivity; [|apply (unesc_skip (35 :: D ++ [59]) x)]. f_equal. cbn [length]. rewrite app_length. cbn [length]. lia.
  - (* &#xhhh; *)
    cbn [wf_cref] in W. destruct (wf_cref_range n W) as (R & _ & H16 & _).
    destruct (digits_fuel_spec 16 (or_intror eq_refl) 7 n [] H16) as (D & E1 & E2 & E3 & E4).
    cbn [print_cref cref_char]. rewrite E1, app_nil_r. unfold dig_char, dig_val in *. cbn [Z.eqb Pos.eqb] in *.
    destruct D as [|d0 D0] eqn:ED; [congruence|]. rewrite <- ED in *.
    assert (Hd0 : is_hex d0 = true) by (rewrite ED in E3; cbn [forallb] in E3; apply andb_true_iff in E3; tauto).
    repeat rewrite <- app_assoc. cbn [app]. unfold unescape. rewrite unesc_amp.
    assert (C : charref (35 :: 120 :: D ++ 59 :: x) = Some ([n], (2 + length D + 1)%nat)).
    { rewrite ED at 1. cbn [app charref]. change ((120 =? 120) || (120 =? 88)) with true. rewrite Hd0. cbn [andb].
      change (d0 :: D0 ++ 59 :: x) with ((d0 :: D0) ++ 59 :: x). rewrite <- ED.
      rewrite take_while_app by (auto; reflexivity). cbn [opt_semi]. change (59 =? 59) with true. cbn iota.
      unfold int_of_hex. rewrite E4. rewrite numeric_ref_plain by auto. reflexivity. }
    rewrite C. cbn [app]. f_equal.
    replace (35 :: 120 :: D ++ 59 :: x) with ((35 :: 120 :: D ++ [59]) ++ x) by (cbn [app]; rewrite <- app_assoc; reflexivity).
    etransitivity; [|apply (unesc_skip (35 :: 120 :: D ++ [59]) x)]. f_equal. cbn [length]. rewrite app_length. cbn [length]. lia.
Qed.

(* characters of a printed reference *)
Lemma cref_chars r : wf_cref r = true ->
  lacks 60 (print_cref r) /\ lacks 123 (print_cref r) /\ no_cr (print_cref r) /\ lacks 10 (print_cref r).
Proof.
  intro W. destruct r as [| | | | |n|n]; try (repeat split; reflexivity).
  - cbn [wf_cref] in W. destruct (wf_cref_range n W) as (R & H10 & _ & _).
    destruct (digits_fuel_spec 10 (or_introl eq_refl) 7 n [] H10) as (D & E1 & _ & E3 & _).
    cbn [print_cref]. rewrite E1, app_nil_r. unfold dig_char in E3. cbn [Z.eqb Pos.eqb] in E3.
    assert (A : forall y, y <> 38 -> y <> 35 -> y <> 59 -> ~ (48 <= y <= 57) -> lacks y ([38; 35] ++ D ++ [59])).
    { intros y N1 N2 N3 N4. unfold lacks. rewrite !forallb_app. cbn [forallb].
      replace (38 =? y) with false by lia. replace (35 =? y) with false by lia. replace (59 =? y) with false by lia. cbn [negb andb].
      rewrite andb_true_r. apply forallb_forall. intros z I. rewrite forallb_forall in E3. specialize (E3 z I). unfold is_digit in E3. lia. }
    repeat split; try apply A; lia.
  - cbn [wf_cref] in W. destruct (wf_cref_range n W) as (R & _ & H16 & _).
    destruct (digits_fuel_spec 16 (or_intror eq_refl) 7 n [] H16) as (D & E1 & _ & E3 & _).
    cbn [print_cref]. rewrite E1, app_nil_r. unfold dig_char in E3. cbn [Z.eqb Pos.eqb] in E3.
    assert (A : forall y, y <> 38 -> y <> 35 -> y <> 59 -> y <> 120 -> ~ (48 <= y <= 57) -> ~ (65 <= y <= 70) -> ~ (97 <= y <= 102) ->
                lacks y ([38; 35; 120] ++ D ++ [59])).
    { intros y N1 N2 N3 N3' N4 N5 N6. unfold lacks. rewrite !forallb_app. cbn [forallb].
      replace (38 =? y) with false by lia. replace (35 =? y) with false by lia. replace (59 =? y) with false by lia.
      replace (120 =? y) with false by lia. cbn [negb andb].
      rewrite andb_true_r. apply forallb_forall. intros z I. rewrite forallb_forall in E3. specialize (E3 z I). unfold is_hex, is_digit in E3. lia. }
    repeat split; try apply A; lia.
Qed.

Lemma cref_char_not_lf r : wf_cref r = true -> cref_char r <> 10.
Proof.
  intro W. destruct r as [| | | | |n|n]; cbn [cref_char]; try lia;
  cbn [wf_cref] in W; destruct (wf_cref_range n W) as (_ & _ & _ & N); exact N.
Qed.
