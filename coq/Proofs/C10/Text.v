(* C10, the text of one cue: strip / replace chain / tokenizer / _TextParser on tag-free text. *)
From TT Require Import Base.Prelude Base.SrtTypes Gen.SrtTables Model.SrtReader Spec.SrtCueSpec Proofs.C10.Lines.
Local Open Scope Z_scope.

(* the replace chain of rewrite_text, after the strip *)
Definition rw (s : text) : text :=
  let s := replace [10;13] [10] s in
  let s := replace (brace false t_bold) (angle false t_bold) s in
  let s := replace (brace true t_bold) (angle true t_bold) s in
  let s := replace (brace false t_italic) (angle false t_italic) s in
  let s := replace (brace true t_italic) (angle true t_italic) s in
  let s := replace (brace false t_underline) (angle false t_underline) s in
  let s := replace (brace true t_underline) (angle true t_underline) s in
  let s := replace (brace false t_b) (angle false t_b) s in
  let s := replace (brace true t_b) (angle true t_b) s in
  let s := replace (brace false t_i) (angle false t_i) s in
  let s := replace (brace true t_i) (angle true t_i) s in
  let s := replace (brace false t_u) (angle false t_u) s in
  replace (brace true t_u) (angle true t_u) s.
Lemma rewrite_text_rw s : rewrite_text s = rw (strip_crlf s).
Proof. reflexivity. Qed.

(* what the property asks of the text of one cue: the paragraph's children flatten to the cue's items *)
Definition payload_good (p : list node) : Prop :=
  exists kids, parse_text (rw (print_nodes p)) = Ok kids /\ flat_list st0 kids = items_list st0 p.

(* ------------------------------------------------------------------ split / strip *)
Lemma split_lf_nonempty s : split_lf s <> [].
Proof. destruct s as [|c s]; cbn [split_lf]; [discriminate|]. destruct (c =? 10); [discriminate|]. destruct (split_lf s); discriminate. Qed.

Lemma split_at_lf_acc s : forall cur,
  split_at_lf s cur = match split_lf s with l :: ls => (rev cur ++ l) :: ls | [] => [rev cur] end.
Proof.
  induction s as [|c s IH]; intro cur; cbn [split_at_lf split_lf].
  - rewrite app_nil_r. reflexivity.
  - destruct (c =? 10) eqn:E.
    + rewrite app_nil_r. rewrite IH. cbn [rev app]. destruct (split_lf s) eqn:F; [destruct (split_lf_nonempty s F)|]. reflexivity.
    + rewrite IH. destruct (split_lf s) eqn:F; [destruct (split_lf_nonempty s F)|].
      cbn [rev]. rewrite <- app_assoc. reflexivity.
Qed.
Lemma payload_lines_split p : payload_lines p = split_lf (print_nodes p).
Proof.
  unfold payload_lines. rewrite split_at_lf_acc. destruct (split_lf (print_nodes p)) eqn:F; [destruct (split_lf_nonempty _ F)|]. reflexivity.
Qed.

Lemma concat_split_lf s : concat (with_lf (split_lf s)) = s ++ [10].
Proof.
  induction s as [|c s IH]; [reflexivity|]. cbn [split_lf].
  destruct (c =? 10) eqn:E.
  - unfold with_lf, with_eol in *. cbn [map concat app]. rewrite IH. f_equal. lia.
  - destruct (split_lf s) eqn:F; [destruct (split_lf_nonempty s F)|].
    unfold with_lf, with_eol in *. cbn [map concat app] in *. rewrite <- IH. reflexivity.
Qed.

Lemma split_lf_no_lf s : Forall no_lf (split_lf s).
Proof.
  induction s as [|c s IH]; cbn [split_lf].
  - repeat constructor.
  - destruct (c =? 10) eqn:E; [constructor; [reflexivity|exact IH]|].
    destruct (split_lf s) eqn:F; [repeat constructor; unfold no_lf; cbn; rewrite E; reflexivity|].
    inversion IH; subst. constructor; auto. unfold no_lf in *. cbn [forallb]. rewrite E. auto.
Qed.
Lemma split_lf_no_cr s : no_cr s -> Forall no_cr (split_lf s).
Proof.
  unfold no_cr. induction s as [|c s IH]; cbn [split_lf forallb]; intro H.
  - repeat constructor.
  - apply andb_true_iff in H as [H1 H2]. specialize (IH H2).
    destruct (c =? 10) eqn:E; [constructor; [reflexivity|exact IH]|].
    destruct (split_lf s) eqn:F; [repeat constructor; cbn; rewrite H1; reflexivity|].
    inversion IH; subst. constructor; auto. unfold no_cr in *. cbn [forallb]. rewrite H1. auto.
Qed.

(* first / last character of a text whose lines are all non-blank *)
Lemma first_line_nonblank s : forallb (fun l => negb (all_ws l)) (split_lf s) = true ->
  exists a s', s = a :: s' /\ a <> 10.
Proof.
  destruct s as [|a s]; cbn [split_lf]; [cbn; discriminate|].
  destruct (a =? 10) eqn:E; [cbn; discriminate|]. intros _. exists a, s. split; auto. lia.
Qed.
Lemma split_lf_snoc_lf s : split_lf (s ++ [10]) = split_lf s ++ [[]].
Proof.
  induction s as [|c s IH]; [reflexivity|]. cbn [app split_lf]. rewrite IH.
  destruct (c =? 10); [reflexivity|].
  destruct (split_lf s) eqn:F; [destruct (split_lf_nonempty s F)|]. reflexivity.
Qed.
Lemma last_line_nonblank s : forallb (fun l => negb (all_ws l)) (split_lf s) = true ->
  exists s' z, s = s' ++ [z] /\ z <> 10.
Proof.
  intro H. destruct (exists_last (l := s)) as (s' & z & E).
  - intro E; subst. cbn in H. discriminate.
  - exists s', z. split; auto. intro Z; subst z. subst s. rewrite split_lf_snoc_lf in H.
    rewrite forallb_app in H. apply andb_true_iff in H as [_ H]. cbn in H. discriminate.
Qed.

Lemma lstrip_keep a s : is_crlf a = false -> lstrip_crlf (a :: s) = a :: s.
Proof. intro H. cbn [lstrip_crlf]. rewrite H. reflexivity. Qed.

Lemma no_cr_in s c : no_cr s -> In c s -> c <> 13.
Proof. unfold no_cr. intros H I. rewrite forallb_forall in H. specialize (H c I). lia. Qed.

(* the text accumulated by the line machine for a cue, stripped, is the printed payload *)
Lemma strip_lines t (final_lf : bool) : no_cr t -> forallb (fun l => negb (all_ws l)) (split_lf t) = true ->
  strip_crlf (t ++ (if final_lf then [10] else [])) = t.
Proof.
  intros Hcr Hl.
  destruct (first_line_nonblank t Hl) as (a & t1 & E1 & Ha).
  destruct (last_line_nonblank t Hl) as (t2 & z & E2 & Hz).
  assert (Ca : is_crlf a = false).
  { unfold is_crlf. assert (I : In a t) by (rewrite E1; left; reflexivity). pose proof (no_cr_in t a Hcr I). lia. }
  assert (Cz : is_crlf z = false).
  { unfold is_crlf. assert (I : In z t) by (rewrite E2; apply in_or_app; right; left; reflexivity). pose proof (no_cr_in t z Hcr I). lia. }
  unfold strip_crlf.
  replace (lstrip_crlf (t ++ (if final_lf then [10] else []))) with (t ++ (if final_lf then [10] else [])).
  2:{ rewrite E1. cbn [app]. rewrite lstrip_keep; auto. }
  rewrite E2 at 1.
  destruct final_lf.
  - rewrite rev_app_distr. cbn [rev app]. rewrite rev_app_distr. cbn [rev app lstrip_crlf].
    change (is_crlf 10) with true. cbn iota. rewrite Cz. cbn [rev]. rewrite rev_involutive. auto.
  - rewrite app_nil_r. rewrite rev_app_distr. cbn [rev app lstrip_crlf].
    rewrite Cz. cbn [rev]. rewrite rev_involutive. auto.
Qed.

(* ------------------------------------------------------------------ replace *)
Fixpoint has_sub (p s : text) : bool :=
  prefixb p s || match s with [] => false | _ :: s' => has_sub p s' end.
Lemma has_sub_prefixb p s : has_sub p s = prefixb p s || match s with [] => false | _ :: s' => has_sub p s' end.
Proof. destruct s; reflexivity. Qed.

Lemma replace_id pat rep s : has_sub pat s = false -> replace pat rep s = s.
Proof.
  unfold replace. induction s as [|c s IH]; intro H; [reflexivity|].
  rewrite has_sub_prefixb in H. apply orb_false_iff in H as [H1 H2].
  cbn [replace_go]. rewrite H1. rewrite IH by auto. reflexivity.
Qed.

Definition lacks (x : Z) (s : text) : Prop := forallb (fun c => negb (c =? x)) s = true.

Lemma has_sub_lacks x p s : lacks x s -> has_sub (x :: p) s = false.
Proof.
  unfold lacks. induction s as [|c s IH]; intro H; rewrite has_sub_prefixb.
  - reflexivity.
  - cbn [forallb] in H. apply andb_true_iff in H as [H1 H2]. rewrite IH by auto.
    cbn [prefixb]. replace (x =? c) with false by lia. reflexivity.
Qed.

(* the "\n\r" of the replace chain (LF CR) does not occur in a text without CR *)
Lemma has_sub_lfcr s : no_cr s -> has_sub [10;13] s = false.
Proof.
  unfold no_cr. induction s as [|c s IH]; intro H; rewrite has_sub_prefixb; [reflexivity|].
  cbn [forallb] in H. apply andb_true_iff in H as [H1 H2]. rewrite IH by auto. rewrite orb_false_r.
  cbn [prefixb]. destruct s as [|d s]; [apply andb_false_r|].
  cbn [forallb] in H2. apply andb_true_iff in H2 as [H3 _]. replace (13 =? d) with false by lia. cbn [andb]. apply andb_false_r.
Qed.

Lemma rw_id s : lacks 123 s -> no_cr s -> rw s = s.
Proof.
  intros H1 H2. apply has_sub_lfcr in H2. unfold rw. rewrite (replace_id _ _ s H2).
  unfold brace. cbn [app]. repeat (rewrite (replace_id _ _ s) by auto using has_sub_lacks). reflexivity.
Qed.

(* ------------------------------------------------------------------ tokenizer on text without markup *)
Lemma unescape_id s : lacks 38 s -> unescape s = s.
Proof.
  unfold unescape, lacks. induction s as [|c s IH]; intro H; [reflexivity|].
  cbn [forallb] in H. apply andb_true_iff in H as [H1 H2]. cbn [unesc_go].
  replace (c =? 38) with false by lia. rewrite IH by auto. reflexivity.
Qed.

Lemma tok_data s : forall pending, lacks 60 s -> tok O pending s = flush (rev s ++ pending).
Proof.
  unfold lacks. induction s as [|c s IH]; intros pending H; [reflexivity|].
  cbn [forallb] in H. apply andb_true_iff in H as [H1 H2]. cbn [tok].
  replace (c =? 60) with false by lia. rewrite IH by auto. cbn [rev]. rewrite <- app_assoc. reflexivity.
Qed.

Lemma tokenize_data s : s <> [] -> lacks 60 s -> lacks 38 s -> tokenize s = [TData s].
Proof.
  intros Hne H1 H2. unfold tokenize. rewrite tok_data by auto. rewrite app_nil_r.
  unfold flush. destruct (rev s) eqn:E.
  - apply (f_equal (@rev Z)) in E. rewrite rev_involutive in E. cbn in E. congruence.
  - rewrite <- E. rewrite rev_involutive. rewrite unescape_id by auto. reflexivity.
Qed.

(* ------------------------------------------------------------------ handle_data and the flattened view *)
Definition item_of_char (s : sstyle) (c : Z) : list item := if c =? 10 then [Brk] else [Ch c s].
Definition items_of_text (s : sstyle) (t : text) : list item := flat_map (item_of_char s) t.

Lemma flat_data_span inh l : flat inh (ESpan st0 [EText l]) = map (fun c => Ch c inh) l.
Proof.
  cbn [flat]. rewrite app_nil_r. destruct inh as [b i u c]. unfold inherit, st0. cbn [st_b st_i st_u st_c].
  rewrite !orb_false_r. reflexivity.
Qed.

Lemma flat_list_app inh a b : flat_list inh (a ++ b) = flat_list inh a ++ flat_list inh b.
Proof. induction a as [|x a IH]; [reflexivity|]. cbn [app flat_list]. rewrite IH, app_assoc. reflexivity. Qed.

Lemma items_of_text_lf s c t : (c =? 10) = true -> items_of_text s (c :: t) = Brk :: items_of_text s t.
Proof. intro E. unfold items_of_text. cbn [flat_map]. unfold item_of_char at 1. rewrite E. reflexivity. Qed.
Lemma items_of_text_ch s c t : (c =? 10) = false -> items_of_text s (c :: t) = Ch c s :: items_of_text s t.
Proof. intro E. unfold items_of_text. cbn [flat_map]. unfold item_of_char at 1. rewrite E. reflexivity. Qed.

Lemma flat_data_kids inh t : forall first,
  flat_list inh (data_kids first (split_lf t)) = (if first then [] else [Brk]) ++ items_of_text inh t.
Proof.
  induction t as [|c t IH]; intro first.
  - cbn [split_lf data_kids]. rewrite flat_list_app. cbn [flat_list]. rewrite flat_data_span. cbn.
    destruct first; reflexivity.
  - cbn [split_lf]. destruct (c =? 10) eqn:E.
    + cbn [data_kids]. rewrite flat_list_app. cbn [flat_list]. rewrite flat_data_span. cbn [map app].
      rewrite IH. rewrite items_of_text_lf by auto.
      destruct first; reflexivity.
    + destruct (split_lf t) eqn:F; [destruct (split_lf_nonempty t F)|].
      specialize (IH first). cbn [data_kids] in *. rewrite flat_list_app in *. cbn [flat_list] in *.
      rewrite flat_data_span in *. cbn [map].
      rewrite items_of_text_ch by auto.
      destruct first; cbn [flat_list flat app] in *.
      * rewrite <- IH. reflexivity.
      * injection IH as IH. rewrite <- IH. reflexivity.
Qed.

(* ------------------------------------------------------------------ tag-free payloads *)
Lemma plain_print p : forallb plain_node p = true -> forallb wf_node p = true ->
  let t := print_nodes p in
  lacks 60 t /\ lacks 38 t /\ lacks 123 t /\ no_cr t /\ items_list st0 p = items_of_text st0 t.
Proof.
  induction p as [|n p IH]; intros Hp Hw; cbn [forallb] in *.
  - repeat split.
  - apply andb_true_iff in Hp as [Hn Hp]. apply andb_true_iff in Hw as [Wn Wp].
    destruct (IH Hp Wp) as (A & B & C & D & E). clear IH.
    destruct n; try discriminate; cbn [print_nodes print_node app items_list items].
    + (* NChar *) cbn [wf_node] in Wn. unfold plain_char in Wn.
      unfold lacks, no_cr in *. cbn [forallb]. rewrite A, B, C, D.
      repeat split; try (apply andb_true_iff; split; auto; lia).
      rewrite items_of_text_ch by lia. f_equal. exact E.
    + (* NBreak *) unfold lacks, no_cr in *. cbn [forallb]. rewrite A, B, C, D. repeat split.
      rewrite items_of_text_lf by reflexivity. f_equal. exact E.
Qed.

Lemma parse_plain t : t <> [] -> lacks 60 t -> lacks 38 t ->
  parse_text t = Ok (data_kids true (split_lf t)).
Proof.
  intros. unfold parse_text. rewrite tokenize_data by auto. cbn [handle handle_data push_kids close_all app].
  rewrite app_nil_r. reflexivity.
Qed.

(* tag-free text: the paragraph gets one span per line with line breaks between, which flatten to the
   characters of the payload, unstyled, in order *)
Theorem plain_payload_good p :
  forallb plain_node p = true -> forallb wf_node p = true ->
  forallb (fun l => negb (all_ws l)) (payload_lines p) = true ->
  payload_good p /\ no_cr (print_nodes p).
Proof.
  intros Hp Hw Hl. destruct (plain_print p Hp Hw) as (A & B & C & D & E).
  split; auto. unfold payload_good. rewrite rw_id by auto.
  rewrite payload_lines_split in Hl.
  destruct (first_line_nonblank _ Hl) as (a & t1 & E1 & _).
  rewrite parse_plain; auto; [|rewrite E1; discriminate].
  eexists. split; [reflexivity|]. rewrite flat_data_kids. rewrite E. reflexivity.
Qed.
