(* C10, tag scoping: for b/i/u tags in angle syntax (<b> <bold> <B> ...) and <font color=..> tags, nested and
   adjacent at will around plain text, character references and line breaks, with closing tags that close
   nothing anywhere, the children that _TextParser builds flatten to the payload's characters, each with exactly
   the styles of the tags that enclose it. *)
From TT Require Import Base.Prelude Base.SrtTypes Gen.SrtTables Model.SrtReader Spec.SrtCueSpec
  Proofs.C10.Lines Proofs.C10.Text Proofs.C10.Roundtrip Proofs.C10.NoFinalEol Proofs.C10.Font Proofs.C10.Refs.
Local Open Scope Z_scope.

(* ------------------------------------------------------------------ induction over nodes *)
Section NodeInd.
  Variable P : node -> Prop.
  Variable Q : list node -> Prop.
  Hypothesis Hc : forall c, P (NChar c).
  Hypothesis Hr : forall r, P (NRef r).
  Hypothesis Hb : P NBreak.
  Hypothesis Ht : forall k sy body, Q body -> P (NTag k sy body).
  Hypothesis Hf : forall c q body, Q body -> P (NFont c q body).
  Hypothesis Hs : forall k sy, P (NStray k sy).
  Hypothesis Hnil : Q [].
  Hypothesis Hcons : forall x l, P x -> Q l -> Q (x :: l).
  Fixpoint node_ind2 (n : node) : P n :=
    match n with
    | NChar c => Hc c
    | NRef r => Hr r
    | NBreak => Hb
    | NTag k sy body => Ht k sy body ((fix go (l : list node) : Q l := match l with [] => Hnil | x :: l' => Hcons x l' (node_ind2 x) (go l') end) body)
    | NFont c q body => Hf c q body ((fix go (l : list node) : Q l := match l with [] => Hnil | x :: l' => Hcons x l' (node_ind2 x) (go l') end) body)
    | NStray k sy => Hs k sy
    end.
  Definition nodes_ind2 (l : list node) : Q l :=
    (fix go (l : list node) : Q l := match l with [] => Hnil | x :: l' => Hcons x l' (node_ind2 x) (go l') end) l.
End NodeInd.

(* the nested fixes are the list versions *)
Lemma print_tag k sy body : print_node (NTag k sy body) = open_tag k sy ++ print_nodes body ++ close_tag k sy.
Proof. reflexivity. Qed.
Lemma items_tag s k sy body : items s (NTag k sy body) = items_list (with_tag k s) body.
Proof. cbn [items]. induction body as [|x l IH]; [reflexivity|]. cbn [items_list]. rewrite <- IH. reflexivity. Qed.
Lemma angle_tag k sy body : angle_node (NTag k sy body) = negb (is_brace sy) && forallb angle_node body.
Proof. reflexivity. Qed.
Lemma wf_tag k sy body : wf_node (NTag k sy body) = forallb wf_node body.
Proof. cbn [wf_node]. induction body as [|x l IH]; [reflexivity|]. cbn [forallb]. rewrite <- IH. reflexivity. Qed.

Lemma print_font c q body : print_node (NFont c q body) = open_font c q ++ print_nodes body ++ close_font.
Proof. reflexivity. Qed.
Lemma items_font s c q body : items s (NFont c q body) = items_list (with_color (colspec_rgba c) s) body.
Proof. cbn [items]. induction body as [|x l IH]; [reflexivity|]. cbn [items_list]. rewrite <- IH. reflexivity. Qed.
Lemma angle_font c q body : angle_node (NFont c q body) = forallb angle_node body.
Proof. reflexivity. Qed.
Lemma stray_tag ctx k sy body : stray_ok ctx (NTag k sy body) = forallb (stray_ok (Some (k, sy))) body.
Proof. reflexivity. Qed.
Lemma stray_font ctx c q body : stray_ok ctx (NFont c q body) = forallb (stray_ok None) body.
Proof. reflexivity. Qed.
Lemma wf_font c q body : wf_node (NFont c q body) = wf_colspec c && forallb wf_node body.
Proof. reflexivity. Qed.

Lemma flat_span inh s kids : flat inh (ESpan s kids) = flat_list (inherit inh s) kids.
Proof. cbn [flat]. induction kids as [|x l IH]; [reflexivity|]. cbn [flat_list]. rewrite <- IH. reflexivity. Qed.

(* ------------------------------------------------------------------ the zipper's flattened view *)
Definition frames := list frame.
Fixpoint style_of (fs : frames) : sstyle :=
  match fs with [] => st0 | (_, s, _) :: fs' => inherit (style_of fs') s end.
Fixpoint view (fs : frames) (pk : list elem) : list item :=
  match fs with
  | [] => flat_list st0 pk
  | (_, s, k) :: fs' => view fs' pk ++ flat_list (style_of fs) k
  end.
(* what stays the same while children are added: the names and styles of the open spans *)
Definition shape (fs : frames) : list (text * sstyle) := map fst fs.

Lemma close_all_view fs : forall extra pk,
  flat_list st0 (close_all extra fs pk) = view fs pk ++ flat_list (style_of fs) extra.
Proof.
  induction fs as [|[[n s] k] fs IH]; intros extra pk; cbn [close_all view style_of].
  - apply flat_list_app.
  - rewrite IH. cbn [flat_list]. rewrite flat_span, app_nil_r. rewrite flat_list_app, app_assoc. reflexivity.
Qed.

Lemma view_push fs pk es :
  match push_kids fs pk es with
  | CP fs' pk' => view fs' pk' = view fs pk ++ flat_list (style_of fs) es /\ shape fs' = shape fs
  end.
Proof.
  destruct fs as [|[[n s] k] fs]; cbn [push_kids view style_of].
  - rewrite flat_list_app. auto.
  - rewrite flat_list_app, app_assoc. auto.
Qed.

Lemma style_of_shape a : forall b, shape a = shape b -> style_of a = style_of b.
Proof.
  unfold shape. induction a as [|[[n s] k] a IH]; intros [|[[n' s'] k'] b] H; try discriminate; [reflexivity|].
  cbn [map fst] in H. injection H as H1 H2 H3. subst. cbn [style_of]. rewrite (IH b) by auto. reflexivity.
Qed.

(* pending data flushed into the tree *)
Definition pview (pend : text) (fs : frames) (pk : list elem) : list item :=
  view fs pk ++ items_of_text (style_of fs) (unescape (rev pend)).

Lemma items_of_text_app s a b : items_of_text s (a ++ b) = items_of_text s a ++ items_of_text s b.
Proof. unfold items_of_text. apply flat_map_app. Qed.

(* handling the tokens of flushed pending data *)
Lemma handle_flush pend fs pk ts :
  exists fs' pk',
    handle (flush pend ++ ts) (CP fs pk) = handle ts (CP fs' pk') /\
    view fs' pk' = pview pend fs pk /\ shape fs' = shape fs.
Proof.
  unfold flush, pview. destruct pend as [|c pend].
  - exists fs, pk. cbn [app rev]. change (unescape []) with (@nil Z). cbn [items_of_text flat_map]. rewrite app_nil_r. auto.
  - cbn [app handle].
    cbn [handle_data]. pose proof (view_push fs pk (data_kids true (split_lf (unescape (rev (c :: pend)))))) as V.
    destruct (push_kids fs pk _) as [fs' pk'].
    exists fs', pk'. destruct V as (V1 & V2). rewrite V1. rewrite flat_data_kids. cbn [app]. auto.
Qed.

(* ------------------------------------------------------------------ the tokenizer on angle tags *)
Definition low_name (k : tagk) (sy : syn) : text :=
  match k, sy with
  | KB, (AngleShort | AngleUpper | BraceShort) => [98]
  | KI, (AngleShort | AngleUpper | BraceShort) => [105]
  | KU, (AngleShort | AngleUpper | BraceShort) => [117]
  | KB, _ => t_bold
  | KI, _ => t_italic
  | KU, _ => t_underline
  end.

Lemma tok_open k sy pend X : is_brace sy = false ->
  tok O pend (open_tag k sy ++ X) = flush pend ++ TStart (low_name k sy) [] :: tok O [] X.
Proof. intro H. destruct k, sy; try discriminate; reflexivity. Qed.

Lemma tok_close k sy pend X : is_brace sy = false ->
  tok O pend (close_tag k sy ++ X) = flush pend ++ TEnd (low_name k sy) :: tok O [] X.
Proof. intro H. destruct k, sy; try discriminate; reflexivity. Qed.

Lemma tag_style_spec k sy : is_brace sy = false ->
  tag_style (low_name k sy) [] = Ok (match k with KB => mkSt true false false None | KI => mkSt false true false None | KU => mkSt false false true None end).
Proof. intro H. destruct k, sy; try discriminate; reflexivity. Qed.

Lemma inherit_tag k outer :
  inherit outer (match k with KB => mkSt true false false None | KI => mkSt false true false None | KU => mkSt false false true None end)
  = with_tag k outer.
Proof. destruct outer as [b i u c], k; unfold inherit, with_tag; cbn [st_b st_i st_u st_c]; rewrite ?orb_true_r, ?orb_false_r; reflexivity. Qed.

(* ------------------------------------------------------------------ the forest lemma *)
(* the innermost open span is the tag that directly encloses the node (or a font span, or nothing is open) *)
Definition top_ok (ctx : option (tagk * syn)) (fs : frames) : Prop :=
  match fs with
  | [] => True
  | (nm, _, _) :: _ => match ctx with Some (k, sy) => nm = low_name k sy | None => nm = t_font end
  end.
Lemma top_ok_shape ctx a b : shape a = shape b -> top_ok ctx a -> top_ok ctx b.
Proof.
  unfold shape. destruct a as [|[[n s] k] a], b as [|[[n' s'] k'] b]; cbn [map fst]; try discriminate; auto.
  intro H. injection H as H1 _ _. subst. auto.
Qed.

(* a closer that closes nothing is ignored: its name is not the name of the innermost open span *)
Lemma stray_name k sy k' sy' : same_name k sy k' sy' = false -> text_eqb (low_name k' sy') (low_name k sy) = false.
Proof. destruct k, sy, k', sy'; try discriminate; reflexivity. Qed.
Lemma font_name k sy : text_eqb t_font (low_name k sy) = false.
Proof. destruct k, sy; reflexivity. Qed.

Lemma text_eqb_refl a : text_eqb a a = true.
Proof. apply text_eqb_eq. reflexivity. Qed.

Lemma handle_stray ctx k sy fs pk ts : stray_ok ctx (NStray k sy) = true -> top_ok ctx fs ->
  handle (TEnd (low_name k sy) :: ts) (CP fs pk) = handle ts (CP fs pk).
Proof.
  intros S T. cbn [handle handle_end]. destruct fs as [|[[nm s] kk] fs]; [reflexivity|].
  cbn [top_ok] in T. cbn [stray_ok] in S. destruct ctx as [[k' sy']|]; subst nm.
  - apply negb_true_iff in S. rewrite stray_name by auto. reflexivity.
  - rewrite font_name. reflexivity.
Qed.

Definition node_goal (n : node) : Prop :=
  angle_node n = true -> wf_node n = true ->
  forall ctx, stray_ok ctx n = true ->
  forall pend fs pk X, closed (rev pend) -> top_ok ctx fs ->
  exists pend' fs' pk',
    handle (tok O pend (print_node n ++ X)) (CP fs pk) = handle (tok O pend' X) (CP fs' pk') /\
    closed (rev pend') /\ shape fs' = shape fs /\
    pview pend' fs' pk' = pview pend fs pk ++ items (style_of fs) n.
Definition nodes_goal (l : list node) : Prop :=
  forallb angle_node l = true -> forallb wf_node l = true ->
  forall ctx, forallb (stray_ok ctx) l = true ->
  forall pend fs pk X, closed (rev pend) -> top_ok ctx fs ->
  exists pend' fs' pk',
    handle (tok O pend (print_nodes l ++ X)) (CP fs pk) = handle (tok O pend' X) (CP fs' pk') /\
    closed (rev pend') /\ shape fs' = shape fs /\
    pview pend' fs' pk' = pview pend fs pk ++ items_list (style_of fs) l.

Lemma char_step c pend fs pk X : plain_char c = true \/ c = 10 -> closed (rev pend) ->
  tok O pend (c :: X) = tok O (c :: pend) X /\ closed (rev (c :: pend)) /\
  pview (c :: pend) fs pk = pview pend fs pk ++ item_of_char (style_of fs) c.
Proof.
  intros Hc A. assert (c <> 60 /\ c <> 38) as [N1 N2] by (unfold plain_char in Hc; lia).
  destruct (closed_snoc (rev pend) c A N2) as [A' E].
  split; [|split].
  - cbn [tok]. replace (c =? 60) with false by lia. reflexivity.
  - exact A'.
  - unfold pview. cbn [rev]. rewrite E. rewrite items_of_text_app. rewrite app_assoc. f_equal.
    unfold items_of_text. cbn [flat_map]. rewrite app_nil_r. reflexivity.
Qed.

Lemma tok_plain a : forall pend X, lacks 60 a -> tok O pend (a ++ X) = tok O (rev a ++ pend) X.
Proof.
  unfold lacks. induction a as [|c a IH]; intros pend X H; [reflexivity|].
  cbn [forallb] in H. apply andb_true_iff in H as [H1 H2]. cbn [app tok].
  replace (c =? 60) with false by lia. rewrite IH by auto. cbn [rev]. rewrite <- app_assoc. reflexivity.
Qed.

Lemma ref_step r pend fs pk X : wf_cref r = true -> closed (rev pend) ->
  tok O pend (print_cref r ++ X) = tok O (rev (print_cref r) ++ pend) X /\ closed (rev (rev (print_cref r) ++ pend)) /\
  pview (rev (print_cref r) ++ pend) fs pk = pview pend fs pk ++ [Ch (cref_char r) (style_of fs)].
Proof.
  intros W A. destruct (cref_chars r W) as (L60 & _).
  assert (E : unescape (rev pend ++ print_cref r) = unescape (rev pend) ++ [cref_char r]).
  { rewrite A. f_equal. rewrite <- (app_nil_r (print_cref r)). rewrite unescape_ref by auto. reflexivity. }
  split; [apply tok_plain; auto|]. rewrite rev_app_distr, rev_involutive. split.
  - intro x. rewrite <- app_assoc. rewrite A. rewrite unescape_ref by auto. rewrite E. rewrite <- app_assoc. reflexivity.
  - unfold pview. rewrite rev_app_distr, rev_involutive. rewrite E. rewrite items_of_text_app. rewrite app_assoc. f_equal.
    unfold items_of_text. cbn [flat_map]. rewrite app_nil_r. unfold item_of_char.
    pose proof (cref_char_not_lf r W). replace (cref_char r =? 10) with false by lia. reflexivity.
Qed.

Lemma forest_lemma : forall l, nodes_goal l.
Proof.
  apply (nodes_ind2 node_goal nodes_goal); unfold node_goal, nodes_goal.
  - (* NChar *) intros c _ W ctx _ pend fs pk X A _. cbn [wf_node] in W.
    destruct (char_step c pend fs pk X (or_introl W) A) as (T & L & V).
    exists (c :: pend), fs, pk. cbn [print_node app]. rewrite T. repeat split; auto.
    rewrite V. cbn [items]. unfold item_of_char. replace (c =? 10) with false by (unfold plain_char in W; lia). reflexivity.
  - (* NRef *) intros r _ W ctx _ pend fs pk X A _. cbn [wf_node] in W.
    destruct (ref_step r pend fs pk X W A) as (T & L & V).
    exists (rev (print_cref r) ++ pend), fs, pk. cbn [print_node]. rewrite T. repeat split; auto.
  - (* NBreak *) intros _ _ ctx _ pend fs pk X A _.
    destruct (char_step 10 pend fs pk X (or_intror eq_refl) A) as (T & L & V).
    exists (10 :: pend), fs, pk. cbn [print_node app]. rewrite T. repeat split; auto.
  - (* NTag *) intros k sy body IH Ha Hw ctx Hs0 pend fs pk X A T0.
    rewrite angle_tag in Ha. apply andb_true_iff in Ha as [Hs Hb]. apply negb_true_iff in Hs.
    rewrite wf_tag in Hw. rewrite stray_tag in Hs0. rewrite print_tag. repeat rewrite <- app_assoc.
    rewrite tok_open by auto.
    destruct (handle_flush pend fs pk (TStart (low_name k sy) [] :: tok O [] (print_nodes body ++ close_tag k sy ++ X)))
      as (fs1 & pk1 & E1 & V1 & S1).
    rewrite E1. cbn [handle handle_start]. rewrite tag_style_spec by auto.
    set (stk := match k with KB => mkSt true false false None | KI => mkSt false true false None | KU => mkSt false false true None end).
    destruct (IH Hb Hw (Some (k, sy)) Hs0 [] ((low_name k sy, stk, []) :: fs1) pk1 (close_tag k sy ++ X) closed_nil eq_refl)
      as (pend2 & fs2 & pk2 & E2 & A2 & S2 & V2).
    rewrite E2. rewrite tok_close by auto.
    destruct (handle_flush pend2 fs2 pk2 (TEnd (low_name k sy) :: tok O [] X)) as (fs3 & pk3 & E3 & V3 & S3).
    rewrite E3. cbn [handle].
    rewrite S2 in S3. unfold shape in S3. cbn [map fst] in S3.
    destruct fs3 as [|[[n3 s3] k3] fs3']; [discriminate|]. cbn [map fst] in S3. injection S3 as S3n S3a S3b. subst s3 n3.
    cbn [handle_end]. rewrite text_eqb_refl.
    pose proof (view_push fs3' pk3 [ESpan stk k3]) as VP.
    destruct (push_kids fs3' pk3 [ESpan stk k3]) as [fs4 pk4].
    destruct VP as (V4 & S4).
    exists [], fs4, pk4. split; [reflexivity|]. split; [exact closed_nil|].
    split; [unfold shape in *; congruence|].
    unfold pview at 1. cbn [rev]. change (unescape []) with (@nil Z). cbn [items_of_text flat_map]. rewrite app_nil_r.
    rewrite V4. cbn [flat_list]. rewrite flat_span, app_nil_r.
    assert (Sin : inherit (style_of fs3') stk = style_of ((low_name k sy, stk, k3) :: fs3')) by reflexivity.
    rewrite Sin. change (view fs3' pk3 ++ flat_list (style_of ((low_name k sy, stk, k3) :: fs3')) k3) with (view ((low_name k sy, stk, k3) :: fs3') pk3).
    transitivity (pview pend2 fs2 pk2); [exact V3|]. rewrite V2. unfold pview at 1. cbn [rev]. change (unescape []) with (@nil Z). cbn [items_of_text flat_map view flat_list]. rewrite !app_nil_r.
    rewrite V1. rewrite items_tag. f_equal.
    cbn [style_of]. unfold stk. rewrite inherit_tag. rewrite (style_of_shape fs1 fs) by auto. reflexivity.
  - (* NFont *) intros c q body IH Ha Hw ctx Hs0 pend fs pk X A T0.
    rewrite angle_font in Ha. rewrite wf_font in Hw. apply andb_true_iff in Hw as [Wc Hw]. rewrite stray_font in Hs0.
    rewrite print_font. repeat rewrite <- app_assoc.
    rewrite tok_font by auto.
    destruct (handle_flush pend fs pk (TStart t_font [(t_color, Some (print_colspec c))] :: tok O [] (print_nodes body ++ close_font ++ X)))
      as (fs1 & pk1 & E1 & V1 & S1).
    rewrite E1. cbn [handle handle_start]. rewrite font_style_spec by auto.
    set (stk := mkSt false false false (Some (colspec_rgba c))).
    destruct (IH Ha Hw None Hs0 [] ((t_font, stk, []) :: fs1) pk1 (close_font ++ X) closed_nil eq_refl)
      as (pend2 & fs2 & pk2 & E2 & A2 & S2 & V2).
    rewrite E2. rewrite tok_close_font.
    destruct (handle_flush pend2 fs2 pk2 (TEnd t_font :: tok O [] X)) as (fs3 & pk3 & E3 & V3 & S3).
    rewrite E3. cbn [handle].
    rewrite S2 in S3. unfold shape in S3. cbn [map fst] in S3.
    destruct fs3 as [|[[n3 s3] k3] fs3']; [discriminate|]. cbn [map fst] in S3. injection S3 as S3n S3a S3b. subst s3 n3.
    cbn [handle_end]. rewrite text_eqb_refl.
    pose proof (view_push fs3' pk3 [ESpan stk k3]) as VP.
    destruct (push_kids fs3' pk3 [ESpan stk k3]) as [fs4 pk4].
    destruct VP as (V4 & S4).
    exists [], fs4, pk4. split; [reflexivity|]. split; [exact closed_nil|].
    split; [unfold shape in *; congruence|].
    unfold pview at 1. cbn [rev]. change (unescape []) with (@nil Z). cbn [items_of_text flat_map]. rewrite app_nil_r.
    rewrite V4. cbn [flat_list]. rewrite flat_span, app_nil_r.
    assert (Sin : inherit (style_of fs3') stk = style_of ((t_font, stk, k3) :: fs3')) by reflexivity.
    rewrite Sin. change (view fs3' pk3 ++ flat_list (style_of ((t_font, stk, k3) :: fs3')) k3) with (view ((t_font, stk, k3) :: fs3') pk3).
    transitivity (pview pend2 fs2 pk2); [exact V3|]. rewrite V2. unfold pview at 1. cbn [rev]. change (unescape []) with (@nil Z). cbn [items_of_text flat_map view flat_list]. rewrite !app_nil_r.
    rewrite V1. rewrite items_font. f_equal.
    cbn [style_of]. unfold stk. rewrite inherit_color. rewrite (style_of_shape fs1 fs) by auto. reflexivity.
  - (* NStray: flushed data, then an end tag that is ignored *)
    intros k sy Ha _ ctx Hs0 pend fs pk X A T0. cbn [angle_node] in Ha. apply negb_true_iff in Ha.
    cbn [print_node]. rewrite tok_close by auto.
    destruct (handle_flush pend fs pk (TEnd (low_name k sy) :: tok O [] X)) as (fs1 & pk1 & E1 & V1 & S1).
    rewrite E1. rewrite (handle_stray ctx) by (auto; apply (top_ok_shape ctx fs fs1); auto).
    exists [], fs1, pk1. split; [reflexivity|]. split; [exact closed_nil|]. split; [auto|].
    unfold pview at 1. cbn [rev]. change (unescape []) with (@nil Z). cbn [items_of_text flat_map items]. rewrite !app_nil_r. exact V1.
  - (* nil *) intros _ _ ctx _ pend fs pk X A _. exists pend, fs, pk. cbn [print_nodes app items_list]. rewrite app_nil_r. auto.
  - (* cons *) intros x l IHx IHl Ha Hw ctx Hs0 pend fs pk X A T0. cbn [forallb] in *.
    apply andb_true_iff in Ha as [Ha1 Ha2]. apply andb_true_iff in Hw as [Hw1 Hw2]. apply andb_true_iff in Hs0 as [Hs1 Hs2].
    cbn [print_nodes]. rewrite <- app_assoc.
    destruct (IHx Ha1 Hw1 ctx Hs1 pend fs pk (print_nodes l ++ X) A T0) as (p1 & f1 & k1 & E1 & A1 & S1 & V1).
    destruct (IHl Ha2 Hw2 ctx Hs2 p1 f1 k1 X A1 (top_ok_shape ctx fs f1 (eq_sym S1) T0)) as (p2 & f2 & k2 & E2 & A2 & S2 & V2).
    exists p2, f2, k2. rewrite E1, E2. repeat split; auto; try congruence.
    rewrite V2, V1. cbn [items_list]. rewrite (style_of_shape f1 fs) by auto. rewrite app_assoc. reflexivity.
Qed.

(* ------------------------------------------------------------------ printed angle payloads contain no '{' and no CR *)
Lemma lacks_app x a b : lacks x a -> lacks x b -> lacks x (a ++ b).
Proof. unfold lacks. intros. rewrite forallb_app. apply andb_true_iff; auto. Qed.

Lemma angle_print : forall p, forallb angle_node p = true -> forallb wf_node p = true ->
  lacks 123 (print_nodes p) /\ no_cr (print_nodes p).
Proof.
  apply (nodes_ind2
    (fun n => angle_node n = true -> wf_node n = true -> lacks 123 (print_node n) /\ no_cr (print_node n))
    (fun p => forallb angle_node p = true -> forallb wf_node p = true -> lacks 123 (print_nodes p) /\ no_cr (print_nodes p))).
  - intros c _ W. cbn [wf_node] in W. unfold plain_char in W. unfold lacks, no_cr. cbn [print_node forallb].
    split; apply andb_true_iff; split; auto; lia.
  - intros r _ W. cbn [wf_node] in W. destruct (cref_chars r W) as (_ & A & B & _). cbn [print_node]. auto.
  - intros _ _. split; reflexivity.
  - intros k sy body IH Ha Hw. rewrite angle_tag in Ha. apply andb_true_iff in Ha as [Hs Hb]. apply negb_true_iff in Hs.
    rewrite wf_tag in Hw. destruct (IH Hb Hw) as [A B]. rewrite print_tag.
    assert (O : lacks 123 (open_tag k sy) /\ no_cr (open_tag k sy) /\ lacks 123 (close_tag k sy) /\ no_cr (close_tag k sy)).
    { destruct k, sy; try discriminate; repeat split. }
    destruct O as (O1 & O2 & O3 & O4).
    split; repeat (first [assumption | apply lacks_app | apply no_cr_app]).
  - intros c q body IH Ha Hw. rewrite angle_font in Ha. rewrite wf_font in Hw. apply andb_true_iff in Hw as [Wc Hw].
    destruct (IH Ha Hw) as [A B]. rewrite print_font. destruct (font_open_chars c q Wc) as [O1 O2].
    assert (O3 : lacks 123 close_font /\ no_cr close_font) by (split; reflexivity). destruct O3 as [O3 O4].
    split; repeat (first [assumption | apply lacks_app | apply no_cr_app]).
  - intros k sy Ha _. cbn [angle_node] in Ha. apply negb_true_iff in Ha. cbn [print_node].
    destruct k, sy; try discriminate; split; reflexivity.
  - intros _ _. split; reflexivity.
  - intros x l IHx IHl Ha Hw. cbn [forallb] in *.
    apply andb_true_iff in Ha as [Ha1 Ha2]. apply andb_true_iff in Hw as [Hw1 Hw2].
    destruct (IHx Ha1 Hw1), (IHl Ha2 Hw2). cbn [print_nodes]. split; [apply lacks_app|apply no_cr_app]; auto.
Qed.

(* what _TextParser makes of the printed form of an angle-syntax payload *)
Lemma angle_parse p : forallb angle_node p = true -> forallb wf_node p = true -> forallb (stray_ok None) p = true ->
  exists kids, parse_text (print_nodes p) = Ok kids /\ flat_list st0 kids = items_list st0 p.
Proof.
  intros Ha Hw Hs. unfold parse_text, tokenize.
  destruct (forest_lemma p Ha Hw None Hs [] [] [] [] closed_nil I) as (pend & fs & pk & E & L & S & V).
  rewrite app_nil_r in E. rewrite E. cbn [tok].
  destruct (handle_flush pend fs pk []) as (fs2 & pk2 & E2 & V2 & S2).
  rewrite app_nil_r in E2. rewrite E2. cbn [handle].
  rewrite S in S2. unfold shape in S2. cbn [map] in S2. destruct fs2; [|discriminate].
  eexists. split; [reflexivity|].
  cbn [close_all]. rewrite app_nil_r. change (flat_list st0 pk2) with (view [] pk2).
  rewrite V2, V. unfold pview. cbn [view flat_list rev]. change (unescape []) with (@nil Z). cbn [items_of_text flat_map style_of app]. reflexivity.
Qed.

(* C10_tags_scope at the level of one cue, angle syntax *)
Theorem angle_payload_good p :
  forallb angle_node p = true -> forallb wf_node p = true -> forallb (stray_ok None) p = true ->
  payload_good p /\ no_cr (print_nodes p).
Proof.
  intros Ha Hw Hs. destruct (angle_print p Ha Hw) as [A B]. split; auto.
  unfold payload_good. rewrite rw_id by auto. apply angle_parse; auto.
Qed.

(* ------------------------------------------------------------------ tolerance *)

Lemma same_content_cue c c' : same_content c c' -> cue_of c = cue_of c'.
Proof.
  intros ((A1 & A2 & A3 & A4) & (B1 & B2 & B3 & B4) & P). unfold cue_of, clock_seconds.
  rewrite A1, A2, A3, A4, B1, B2, B3, B4, P. reflexivity.
Qed.
Lemma same_content_cues l l' : Forall2 same_content l l' -> map cue_of l = map cue_of l'.
Proof. induction 1 as [|c c' l l' H _ IH]; [reflexivity|]. cbn [map]. rewrite (same_content_cue c c' H), IH. reflexivity. Qed.
