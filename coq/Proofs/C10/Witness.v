(* C10: witnesses of the recorded findings and non-vacuity examples (all by evaluation). *)
From TT Require Import Base.Prelude Base.SrtTypes Gen.SrtTables Model.SrtReader Spec.SrtCueSpec.
From Coq Require Import QArith.
Local Open Scope Z_scope.

Definition k1 : clock := mkClock 0 false 0 1 0.
Definition k2 : clock := mkClock 0 false 0 2 500.
Definition one_cue (p : list node) (crlf : bool) : file_src :=
  mkFile [] [mkCue [49] k1 [32] [32] k2 [] p [[]]] crlf true.

(* {b}x{/b} *)
Definition f_brace : file_src := one_cue [NTag KB BraceShort [NChar 120]] false.
Lemma brace_short_refuted : exists f, wf_file f = true /\ trigger_brace_short f = true /\
  read_cues (print_file f) <> Ok (cues f) /\ read_cues_file (print_file f) <> Ok (cues f).
Proof. exists f_brace. vm_compute. repeat split; discriminate. Qed.

(* a</b>c *)
Definition f_stray : file_src := one_cue [NChar 97; NStray KB AngleShort; NChar 99] false.
Lemma stray_end_refuted : exists f, wf_file f = true /\ trigger_stray_end f = true /\
  read_cues (print_file f) = Raised ETypeError /\ read_cues_file (print_file f) = Raised ETypeError.
Proof. exists f_stray. vm_compute. repeat split. Qed.
(* <b>x</i>y</b> : the closer is not matched against the open element: y is not bold *)
Definition f_mismatch : file_src := one_cue [NTag KB AngleShort [NChar 120; NStray KI AngleShort; NChar 121]] false.
Lemma mismatched_end_refuted : wf_file f_mismatch = true /\ trigger_stray_end f_mismatch = true /\
  read_cues (print_file f_mismatch) <> Ok (cues f_mismatch).
Proof. vm_compute. repeat split; discriminate. Qed.

(* C:\n\r  (backslash n backslash r) *)
Definition f_backslash : file_src := one_cue [NChar 67; NChar 58; NChar 92; NChar 110; NChar 92; NChar 114; NChar 120] false.
Lemma backslash_refuted : exists f, wf_file f = true /\ plain_file f = true /\ trigger_backslash f = true /\
  read_cues (print_file f) <> Ok (cues f) /\ read_cues_file (print_file f) <> Ok (cues f).
Proof. exists f_backslash. vm_compute. repeat split; discriminate. Qed.

(* two lines, CR LF terminators, stream without newline translation *)
Definition f_crlf2 : file_src := one_cue [NChar 97; NBreak; NChar 98] true.
Lemma crlf_untranslated_refuted : exists f, wf_file f = true /\ plain_file f = true /\ trigger_crlf_untranslated f false = true /\
  read_cues (print_file f) <> Ok (cues f) /\ read_cues_file (print_file f) = Ok (cues f).
Proof. exists f_crlf2. vm_compute. repeat split; discriminate. Qed.

(* the exactness clause was false of the code before the fix: 0.28 is not 7/25; now the value is the rational *)
Lemma example_280 : read_cues (print_file (mkFile [] [mkCue [49] (mkClock 0 false 0 0 280) [32] [32] (mkClock 0 false 0 1 70) [] [NChar 120] [[]]] false true))
  = Ok [(Qmake 7 25, Qmake 107 100, [Ch 120 st0])].
Proof. vm_compute. reflexivity. Qed.

(* non-vacuity: a file with leading blank lines, odd counters, a three-digit hour, tabs around the arrow, nested and
   adjacent tags over two lines, several blank lines between cues, CR LF terminators *)
Definition f_example : file_src :=
  mkFile [[]; [32]]
    [mkCue [32;55;55] (mkClock 100 true 59 59 999) [9] [32;32] (mkClock 999 true 99 99 0) [32;88;49]
       [NTag KB AngleShort [NChar 97; NTag KI AngleLong [NChar 98; NBreak; NChar 99]; NTag KU AngleUpper [NChar 100]]; NFont (CHex6 255 0 128 true) QBare [NChar 101; NFont (CNamed 15 false) QDouble [NChar 102]]; NTag KI BraceLong [NRef RAmp; NRef (RDec 8364)]; NChar 92; NChar 62] [[]; [9]; []];
     mkCue [35;50] k1 [32] [32] k2 [] [NChar 8364; NBreak; NChar 120] []]
    true true.
Lemma example_ok : wf_file f_example = true /\ trigger_brace_short f_example = false /\ trigger_stray_end f_example = false /\
  trigger_backslash f_example = false /\
  read_cues_file (print_file f_example) = Ok (cues f_example) /\
  cues f_example = [(Qmake 363599999 1000, Qmake 3602439 1,
                     [Ch 97 (mkSt true false false None); Ch 98 (mkSt true true false None); Brk; Ch 99 (mkSt true true false None);
                      Ch 100 (mkSt true false true None); Ch 101 (mkSt false false false (Some (255, 0, 128, 255)));
                      Ch 102 (mkSt false false false (Some (0, 0, 255, 255))); Ch 38 (mkSt false true false None); Ch 8364 (mkSt false true false None);
                      Ch 92 st0; Ch 62 st0]);
                    (Qmake 1 1, Qmake 5 2, [Ch 8364 st0; Brk; Ch 120 st0])].
Proof. vm_compute. repeat split. Qed.
