(* C10: the witnesses of the repaired findings and non-vacuity examples (all by evaluation). *)
From TT Require Import Base.Prelude Base.SrtTypes Gen.SrtTables Model.SrtReader Spec.SrtCueSpec Spec.SrtWriterOut.
From Coq Require Import QArith.
Local Open Scope Z_scope.

Definition k1 : clock := mkClock 0 2 0 1 0.
Definition k2 : clock := mkClock 0 2 0 2 500.
Definition one_cue (p : list node) (crlf : bool) : file_src :=
  mkFile [] [mkCue [49] k1 [32] [32] k2 [] p [[]]] crlf true.

(* the witnesses of the four findings that were recorded for C10 and have been repaired: each is now read as written,
   through both kinds of stream *)
(* {b}x{/b} *)
Definition f_brace : file_src := one_cue [NTag KB BraceShort [NChar 120]] false.
(* a</b>c *)
Definition f_stray : file_src := one_cue [NChar 97; NStray KB AngleShort; NChar 99] false.
(* <b>x</i>y</b> : the closer does not name the open element and closes nothing: y is bold *)
Definition f_mismatch : file_src := one_cue [NTag KB AngleShort [NChar 120; NStray KI AngleShort; NChar 121]] false.
(* C:\n\rx  (backslash n backslash r) *)
Definition f_backslash : file_src := one_cue [NChar 67; NChar 58; NChar 92; NChar 110; NChar 92; NChar 114; NChar 120] false.
(* two lines, CR LF terminators, stream without newline translation *)
Definition f_crlf2 : file_src := one_cue [NChar 97; NBreak; NChar 98] true.

Definition reads_ok (f : file_src) : Prop :=
  wf_file f = true /\ read_cues (print_file f) = Ok (cues f) /\ read_cues_file (print_file f) = Ok (cues f).
Lemma repaired_witnesses : reads_ok f_brace /\ reads_ok f_stray /\ reads_ok f_mismatch /\ reads_ok f_backslash /\ reads_ok f_crlf2 /\
  cues f_brace = [(Qmake 1 1, Qmake 5 2, [Ch 120 (mkSt true false false None)])] /\
  cues f_mismatch = [(Qmake 1 1, Qmake 5 2, [Ch 120 (mkSt true false false None); Ch 121 (mkSt true false false None)])] /\
  cues f_crlf2 = [(Qmake 1 1, Qmake 5 2, [Ch 97 st0; Brk; Ch 98 st0])].
Proof. vm_compute. repeat split. Qed.

(* a closer that names the directly enclosing tag is not "a closer that closes nothing": the grammar excludes it *)
Lemma ambiguous_stray_excluded :
  wf_file (one_cue [NTag KB AngleShort [NChar 120; NStray KB AngleUpper; NChar 121]] false) = false.
Proof. vm_compute. reflexivity. Qed.

(* the exactness clause was false of the code before the fix: 0.28 is not 7/25; now the value is the rational *)
Lemma example_280 : read_cues (print_file (mkFile [] [mkCue [49] (mkClock 0 2 0 0 280) [32] [32] (mkClock 0 2 0 1 70) [] [NChar 120] [[]]] false true))
  = Ok [(Qmake 7 25, Qmake 107 100, [Ch 120 st0])].
Proof. vm_compute. reflexivity. Qed.

(* non-vacuity: a file with leading blank lines, odd counters, a three-digit hour, tabs around the arrow, nested and
   adjacent tags in angle and brace syntax over two lines, closers that close nothing, several blank lines between cues,
   CR LF terminators *)
Definition f_example : file_src :=
  mkFile [[]; [32]]
    [mkCue [32;55;55] (mkClock 100 3 59 59 999) [9] [32;32] (mkClock 999 3 99 99 0) [32;88;49]
       [NTag KB AngleShort [NChar 97; NTag KI AngleLong [NChar 98; NBreak; NChar 99]; NTag KU AngleUpper [NChar 100]]; NFont (CHex6 255 0 128 true) QBare [NChar 101; NFont (CNamed 15 false) QDouble [NChar 102]]; NTag KI BraceLong [NRef RAmp; NStray KB BraceShort; NRef (RDec 8364)]; NStray KU AngleLong; NChar 92; NChar 62] [[]; [9]; []];
     mkCue [35;50] k1 [32] [32] k2 [] [NChar 8364; NBreak; NChar 120] []]
    true true.
Lemma example_ok : wf_file f_example = true /\
  read_cues_file (print_file f_example) = Ok (cues f_example) /\ read_cues (print_file f_example) = Ok (cues f_example) /\
  cues f_example = [(Qmake 363599999 1000, Qmake 3602439 1,
                     [Ch 97 (mkSt true false false None); Ch 98 (mkSt true true false None); Brk; Ch 99 (mkSt true true false None);
                      Ch 100 (mkSt true false true None); Ch 101 (mkSt false false false (Some (255, 0, 128, 255)));
                      Ch 102 (mkSt false false false (Some (0, 0, 255, 255))); Ch 38 (mkSt false true false None); Ch 8364 (mkSt false true false None);
                      Ch 92 st0; Ch 62 st0]);
                    (Qmake 1 1, Qmake 5 2, [Ch 8364 st0; Brk; Ch 120 st0])].
Proof. vm_compute. repeat split. Qed.

(* ------------------------------------------------------------------ outputs of the SRT writer *)
(* two cues as the writer emits them: nested font / b / i / u tags over two lines, a three-digit hour *)
Definition w_example : list wcue :=
  [mkW [49] 1000 2500 [WFont 255 0 0 255 [WBold [WChar 97; WItalic [WChar 98]]; WBreak; WUnder [WChar 99]]; WChar 33];
   mkW [50] 359999999 360000001 [WChar 120; WBreak; WChar 121]].
Lemma writer_example : wwf w_example = true /\
  wprint w_example =
    [49;10; 48;48;58;48;48;58;48;49;44;48;48;48; 32;45;45;62;32; 48;48;58;48;48;58;48;50;44;53;48;48; 10;
     60;102;111;110;116;32;99;111;108;111;114;61;34;35;102;102;48;48;48;48;102;102;34;62; 60;98;62; 97; 60;105;62; 98; 60;47;105;62; 60;47;98;62; 10;
     60;117;62; 99; 60;47;117;62; 60;47;102;111;110;116;62; 33; 10; 10;
     50;10; 57;57;58;53;57;58;53;57;44;57;57;57; 32;45;45;62;32; 49;48;48;58;48;48;58;48;48;44;48;48;49; 10; 120;10;121;10] /\
  read_cues (wprint w_example) = Ok (map wmeaning w_example) /\
  map wmeaning w_example =
    [(Qmake 1 1, Qmake 5 2, [Ch 97 (mkSt true false false (Some (255, 0, 0, 255))); Ch 98 (mkSt true true false (Some (255, 0, 0, 255))); Brk;
                              Ch 99 (mkSt false false true (Some (255, 0, 0, 255))); Ch 33 st0]);
     (Qmake 359999999 1000, Qmake 360000001 1000, [Ch 120 st0; Brk; Ch 121 st0])].
Proof. vm_compute. repeat split. Qed.

(* the witness of the repaired finding hours-beyond-999-rejected: 999:59:59,000 --> 1000:00:00,000 as the writer prints
   it (a four-digit hour field) is read as written; so is an hour field of thirteen digits *)
Definition w_hours : list wcue := [mkW [49] 3599999000 3600000000 [WChar 120]; mkW [50] 3600000000 4444444444444444444 [WChar 121]].
Lemma writer_hours_read : wwf w_hours = true /\
  wprint w_hours =
    [49;10; 57;57;57;58;53;57;58;53;57;44;48;48;48; 32;45;45;62;32; 49;48;48;48;58;48;48;58;48;48;44;48;48;48; 10; 120;10; 10;
     50;10; 49;48;48;48;58;48;48;58;48;48;44;48;48;48; 32;45;45;62;32;
            49;50;51;52;53;54;55;57;48;49;50;51;52;58;51;52;58;48;52;44;52;52;52; 10; 121;10] /\
  read_cues (wprint w_hours) = Ok (map wmeaning w_hours) /\ read_cues_file (wprint w_hours) = Ok (map wmeaning w_hours) /\
  map wmeaning w_hours = [(Qmake 3599999 1, Qmake 3600000 1, [Ch 120 st0]);
                          (Qmake 3600000 1, Qmake 1111111111111111111 250, [Ch 121 st0])].
Proof. vm_compute. repeat split. Qed.
