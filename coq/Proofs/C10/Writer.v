(* C10, last clause: every text of the form the SRT writer emits (Spec/SrtWriterOut.v) is the printed form of a
   file of the cue grammar, so the round-trip theorem applies to it: reading it returns the cues written. *)
From TT Require Import Base.Prelude Base.SrtTypes Gen.SrtTables Model.SrtReader Spec.SrtCueSpec Spec.SrtWriterOut
  Proofs.C10.Time Proofs.C10.Lines Proofs.C10.Text Proofs.C10.Roundtrip Proofs.C10.NoFinalEol Proofs.C10.Font Proofs.C10.Refs
  Proofs.C10.Tags Proofs.C10.Brace.
From Coq Require Import QArith.
Local Open Scope Z_scope.

(* ------------------------------------------------------------------ induction over written nodes *)
Section WInd.
  Variable P : wnode -> Prop.
  Variable Q : list wnode -> Prop.
  Hypothesis Hc : forall c, P (WChar c).
  Hypothesis Hb : P WBreak.
  Hypothesis Hf : forall r g b a body, Q body -> P (WFont r g b a body).
  Hypothesis Hbo : forall body, Q body -> P (WBold body).
  Hypothesis Hi : forall body, Q body -> P (WItalic body).
  Hypothesis Hu : forall body, Q body -> P (WUnder body).
  Hypothesis Hnil : Q [].
  Hypothesis Hcons : forall x l, P x -> Q l -> Q (x :: l).
  Fixpoint wnode_ind2 (n : wnode) : P n :=
    match n with
    | WChar c => Hc c
    | WBreak => Hb
    | WFont r g b a body => Hf r g b a body ((fix go (l : list wnode) : Q l := match l with [] => Hnil | x :: l' => Hcons x l' (wnode_ind2 x) (go l') end) body)
    | WBold body => Hbo body ((fix go (l : list wnode) : Q l := match l with [] => Hnil | x :: l' => Hcons x l' (wnode_ind2 x) (go l') end) body)
    | WItalic body => Hi body ((fix go (l : list wnode) : Q l := match l with [] => Hnil | x :: l' => Hcons x l' (wnode_ind2 x) (go l') end) body)
    | WUnder body => Hu body ((fix go (l : list wnode) : Q l := match l with [] => Hnil | x :: l' => Hcons x l' (wnode_ind2 x) (go l') end) body)
    end.
  Definition wnodes_ind2 (l : list wnode) : Q l :=
    (fix go (l : list wnode) : Q l := match l with [] => Hnil | x :: l' => Hcons x l' (wnode_ind2 x) (go l') end) l.
End WInd.

(* ------------------------------------------------------------------ written payloads as payloads of the grammar *)
Fixpoint embed (n : wnode) : node :=
  match n with
  | WChar c => NChar c
  | WBreak => NBreak
  | WFont r g b a body => NFont (CHex8 r g b a false) QDouble ((fix go (l : list wnode) : list node := match l with [] => [] | x :: l' => embed x :: go l' end) body)
  | WBold body => NTag KB AngleShort ((fix go (l : list wnode) : list node := match l with [] => [] | x :: l' => embed x :: go l' end) body)
  | WItalic body => NTag KI AngleShort ((fix go (l : list wnode) : list node := match l with [] => [] | x :: l' => embed x :: go l' end) body)
  | WUnder body => NTag KU AngleShort ((fix go (l : list wnode) : list node := match l with [] => [] | x :: l' => embed x :: go l' end) body)
  end.
Definition embed_list (l : list wnode) : list node := map embed l.

Lemma embed_font r g b a body : embed (WFont r g b a body) = NFont (CHex8 r g b a false) QDouble (embed_list body).
Proof. reflexivity. Qed.
Lemma embed_bold body : embed (WBold body) = NTag KB AngleShort (embed_list body).
Proof. reflexivity. Qed.
Lemma embed_italic body : embed (WItalic body) = NTag KI AngleShort (embed_list body).
Proof. reflexivity. Qed.
Lemma embed_under body : embed (WUnder body) = NTag KU AngleShort (embed_list body).
Proof. reflexivity. Qed.

Lemma wprint_inner body :
  (fix go (l : list wnode) : text := match l with [] => [] | x :: l' => wprint_node x ++ go l' end) body = wprint_nodes body.
Proof. induction body as [|x l IH]; [reflexivity|]. cbn [wprint_nodes]. rewrite <- IH. reflexivity. Qed.
Lemma wwf_inner body :
  (fix go (l : list wnode) : bool := match l with [] => true | x :: l' => wwf_node x && go l' end) body = forallb wwf_node body.
Proof. induction body as [|x l IH]; [reflexivity|]. cbn [forallb]. rewrite <- IH. reflexivity. Qed.
Lemma witems_inner (f : sstyle) body :
  (fix go (l : list wnode) : list item := match l with [] => [] | x :: l' => witems f x ++ go l' end) body = witems_list f body.
Proof. induction body as [|x l IH]; [reflexivity|]. cbn [witems_list]. rewrite <- IH. reflexivity. Qed.

Lemma embed_facts : forall p, forallb wwf_node p = true ->
  print_nodes (embed_list p) = wprint_nodes p /\ forallb wf_node (embed_list p) = true /\
  (forall ctx, forallb (stray_ok ctx) (embed_list p) = true) /\
  (forall s, items_list s (embed_list p) = witems_list s p).
Proof.
  apply (wnodes_ind2
    (fun n => wwf_node n = true ->
       print_node (embed n) = wprint_node n /\ wf_node (embed n) = true /\ (forall ctx, stray_ok ctx (embed n) = true) /\
       (forall s, items s (embed n) = witems s n))
    (fun p => forallb wwf_node p = true ->
       print_nodes (embed_list p) = wprint_nodes p /\ forallb wf_node (embed_list p) = true /\
       (forall ctx, forallb (stray_ok ctx) (embed_list p) = true) /\
       (forall s, items_list s (embed_list p) = witems_list s p))).
  - intros c W. cbn [wwf_node] in W. cbn [embed print_node wprint_node wf_node stray_ok items witems]. auto.
  - intros _. cbn [embed print_node wprint_node wf_node stray_ok items witems]. auto.
  - intros r g b a body IH W. cbn [wwf_node] in W. rewrite wwf_inner in W.
    apply andb_true_iff in W as [W1 W2]. destruct (IH W2) as (A & B & C & D).
    rewrite embed_font, print_font, wf_font, B. cbn [wprint_node]. rewrite wprint_inner, A.
    repeat split.
    + cbn [wf_colspec]. rewrite W1. reflexivity.
    + intro ctx. rewrite stray_font. apply C.
    + intro s. rewrite items_font. cbn [witems]. rewrite witems_inner. apply D.
  - intros body IH W. cbn [wwf_node] in W. rewrite wwf_inner in W. destruct (IH W) as (A & B & C & D).
    rewrite embed_bold, print_tag, wf_tag, B. cbn [wprint_node]. rewrite wprint_inner, A.
    repeat split. + intro ctx. rewrite stray_tag. apply C. + intro s. rewrite items_tag. cbn [witems]. rewrite witems_inner. apply D.
  - intros body IH W. cbn [wwf_node] in W. rewrite wwf_inner in W. destruct (IH W) as (A & B & C & D).
    rewrite embed_italic, print_tag, wf_tag, B. cbn [wprint_node]. rewrite wprint_inner, A.
    repeat split. + intro ctx. rewrite stray_tag. apply C. + intro s. rewrite items_tag. cbn [witems]. rewrite witems_inner. apply D.
  - intros body IH W. cbn [wwf_node] in W. rewrite wwf_inner in W. destruct (IH W) as (A & B & C & D).
    rewrite embed_under, print_tag, wf_tag, B. cbn [wprint_node]. rewrite wprint_inner, A.
    repeat split. + intro ctx. rewrite stray_tag. apply C. + intro s. rewrite items_tag. cbn [witems]. rewrite witems_inner. apply D.
  - intros _. repeat split.
  - intros x l IHx IHl W. cbn [forallb] in W. apply andb_true_iff in W as [W1 W2].
    destruct (IHx W1) as (A1 & B1 & C1 & D1). destruct (IHl W2) as (A2 & B2 & C2 & D2).
    cbn [embed_list map print_nodes wprint_nodes forallb items_list witems_list]. fold (embed_list l).
    rewrite A1, A2, B1, B2. repeat split.
    + intro ctx. rewrite C1, C2. reflexivity.
    + intro s. rewrite D1, D2. reflexivity.
Qed.

(* ------------------------------------------------------------------ millisecond counts as clocks *)
(* the hour field is as wide as the writer prints it *)
Definition clock_of (ms : Z) : clock :=
  mkClock (ms / 3600000) (length (whours (ms / 3600000))) ((ms / 60000) mod 60) ((ms / 1000) mod 60) (ms mod 1000).

(* the decimal digits of n, given enough fuel, are n written with w digits for the w that n needs *)
Lemma digits_fuel_padn fuel : forall n acc, (1 <= fuel)%nat -> 0 <= n < 10 ^ Z.of_nat fuel ->
  exists w, (1 <= w)%nat /\ digits_fuel fuel 10 n acc = padn w n ++ acc /\ n < 10 ^ Z.of_nat w /\
            (w = 1%nat \/ 10 ^ (Z.of_nat w - 1) <= n).
Proof.
  induction fuel as [|k IH]; intros n acc F H; [lia|].
  - rewrite Nat2Z.inj_succ, Z.pow_succ_r in H by lia. cbn [digits_fuel].
    replace (n mod 10 <? 10) with true by lia. cbn iota.
    destruct (n / 10 =? 0) eqn:E.
    + exists 1%nat. cbn [padn app]. unfold dig. repeat split; auto. change (Z.of_nat 1) with 1. lia.
    + assert (1 <= k)%nat.
      { destruct k; [|lia]. change (Z.of_nat 0) with 0 in H. rewrite Z.pow_0_r in H. lia. }
      destruct (IH (n / 10) ((48 + n mod 10) :: acc)) as (w & W1 & W2 & W3 & W4); [lia|lia|].
      exists (S w). split; [lia|]. split; [|split].
      * rewrite W2. cbn [padn]. unfold dig. rewrite <- app_assoc. reflexivity.
      * rewrite Nat2Z.inj_succ, Z.pow_succ_r by lia. lia.
      * right. replace (Z.of_nat (S w) - 1) with (Z.of_nat w) by lia.
        destruct W4 as [W4|W4].
        -- subst w. change (Z.of_nat 1) with 1. lia.
        -- replace (Z.of_nat w) with (Z.succ (Z.of_nat w - 1)) by lia. rewrite Z.pow_succ_r by lia. lia.
Qed.

Lemma log2_fuel h : 0 < h -> h < 10 ^ Z.of_nat (S (Z.to_nat (Z.log2 h))).
Proof.
  intro H. pose proof (Z.log2_nonneg h) as L. destruct (Z.log2_spec h H) as [_ U].
  rewrite Nat2Z.inj_succ, Z2Nat.id by lia.
  assert (2 ^ Z.succ (Z.log2 h) <= 10 ^ Z.succ (Z.log2 h)) by (apply Z.pow_le_mono_l; lia). lia.
Qed.

Lemma pow10_small w : (w <= 2)%nat -> 10 ^ Z.of_nat w <= 100.
Proof. intro H. destruct w as [|[|[|w]]]; try lia; vm_compute; discriminate. Qed.

(* what the writer prints for the hour is the hour written with some width w >= 2 that holds it *)
Lemma whours_padn h : 0 <= h ->
  exists w, (2 <= w)%nat /\ whours h = padn w h /\ h < 10 ^ Z.of_nat w.
Proof.
  intro H. unfold whours. destruct (h <? 100) eqn:E.
  - exists 2%nat. split; [lia|]. split.
    + unfold pad2. cbn [padn app]. replace (h / 10 mod 10) with (h / 10) by lia. reflexivity.
    + change (10 ^ Z.of_nat 2) with 100. lia.
  - destruct (digits_fuel_padn (S (Z.to_nat (Z.log2 h))) h []) as (w & W1 & W2 & W3 & W4).
    { lia. } { split; [lia|]. apply log2_fuel. lia. }
    exists w. rewrite W2, app_nil_r.
    assert (2 < w)%nat.
    { destruct (Nat.le_gt_cases w 2) as [S|S]; [|lia]. pose proof (pow10_small w S). lia. }
    split; [lia|]. split; [reflexivity|exact W3].
Qed.

Lemma padn_length w : forall n, length (padn w n) = w.
Proof. induction w as [|w IH]; intro n; cbn [padn]; [reflexivity|]. rewrite app_length, IH. cbn [length]. lia. Qed.

Definition in_range (ms : Z) : Prop := 0 <= ms /\ Z.of_nat (length (whours (ms / 3600000))) <= max_hour_digits.
Lemma wtime_in_range ms : wtime_ok ms = true -> in_range ms.
Proof. unfold wtime_ok, in_range. lia. Qed.

Lemma wclock_print ms : in_range ms -> print_clock (clock_of ms) = wclock ms.
Proof.
  intros [R _]. unfold print_clock, clock_of, wclock. cbn [k_hw k_h k_m k_s k_ms].
  destruct (whours_padn (ms / 3600000)) as (w & _ & W & _); [lia|].
  rewrite W at 1. rewrite padn_length, <- W. reflexivity.
Qed.

Lemma wf_clock_of ms : in_range ms -> wf_clock (clock_of ms) = true.
Proof.
  intros [R B]. unfold wf_clock, clock_shape, clock_of. cbn [k_hw k_h k_m k_s k_ms].
  destruct (whours_padn (ms / 3600000)) as (w & W1 & W & W3); [lia|].
  rewrite W, padn_length in *.
  apply Nat.leb_le in W1. rewrite W1. cbn [andb]. lia.
Qed.

Lemma clock_fields_sum ms : 0 <= ms ->
  (ms / 3600000 * 3600 + (ms / 60000) mod 60 * 60 + (ms / 1000) mod 60) * 1000 + ms mod 1000 = ms.
Proof.
  intro H.
  replace (ms / 60000) with (ms / 1000 / 60) by (rewrite Z.div_div by lia; reflexivity).
  replace (ms / 3600000) with (ms / 1000 / 60 / 60) by (rewrite !Z.div_div by lia; reflexivity).
  lia.
Qed.

Lemma clock_seconds_of ms : 0 <= ms -> clock_seconds (clock_of ms) = Qred (Qmake ms 1000).
Proof.
  intro H. unfold clock_seconds, clock_of. cbn [k_h k_m k_s k_ms]. rewrite clock_fields_sum by auto. reflexivity.
Qed.

(* ------------------------------------------------------------------ written cue lists as files of the grammar *)
Definition embed_cue (last : bool) (c : wcue) : cue_src :=
  mkCue (wc_counter c) (clock_of (wc_begin c)) [32] [32] (clock_of (wc_end c)) [] (embed_list (wc_payload c))
        (if last then [] else [[]]).
Fixpoint embed_cues (cs : list wcue) : list cue_src :=
  match cs with
  | [] => []
  | [c] => [embed_cue true c]
  | c :: cs' => embed_cue false c :: embed_cues cs'
  end.
Definition embed_file (cs : list wcue) : file_src := mkFile [] (embed_cues cs) false true.

Definition cue_in_range (c : wcue) : Prop := in_range (wc_begin c) /\ in_range (wc_end c).

Lemma wwf_cue_fields c : wwf_cue c = true ->
  wc_counter c <> [] /\ forallb is_dec (wc_counter c) = true /\ in_range (wc_begin c) /\ in_range (wc_end c) /\
  forallb wwf_node (wc_payload c) = true /\
  forallb (fun l => negb (all_ws l)) (split_at_lf (wprint_nodes (wc_payload c)) []) = true.
Proof.
  unfold wwf_cue. intro W.
  apply andb_true_iff in W as [W F6]. apply andb_true_iff in W as [W F5]. apply andb_true_iff in W as [W F4].
  apply andb_true_iff in W as [W F3]. apply andb_true_iff in W as [F1 F2].
  split; [destruct (wc_counter c); [discriminate|discriminate]|].
  split; [exact F2|]. split; [apply wtime_in_range; exact F3|]. split; [apply wtime_in_range; exact F4|]. split; assumption.
Qed.

Lemma range_of_wwf cs : wwf cs = true -> Forall cue_in_range cs.
Proof.
  unfold wwf. induction cs as [|c cs IH]; intros W; [constructor|].
  cbn [forallb] in *. apply andb_true_iff in W as [W1 W2].
  constructor; auto. destruct (wwf_cue_fields c W1) as (_ & _ & B1 & B2 & _). split; assumption.
Qed.

Lemma digits_no_eol_dec l : forallb is_dec l = true -> no_eol l = true.
Proof.
  unfold no_eol, is_dec. intro H. rewrite forallb_forall in *. intros x I. specialize (H x I). lia.
Qed.

Lemma embed_cue_wf last c : wwf_cue c = true -> cue_in_range c -> wf_cue last (embed_cue last c) = true.
Proof.
  intros W [R1 R2]. destruct (wwf_cue_fields c W) as (F1 & F2 & F3 & F4 & F5 & F6).
  destruct (embed_facts (wc_payload c) F5) as (A & B & C & D).
  unfold wf_cue, embed_cue. cbn [c_counter c_begin c_ws1 c_ws2 c_end c_tail c_payload c_blank].
  rewrite !wf_clock_of by auto. rewrite B, C. unfold payload_lines. rewrite A.
  rewrite digits_no_eol_dec by auto.
  assert (E : existsb is_dec (wc_counter c) = true).
  { destruct (wc_counter c) as [|x l]; [congruence|]. cbn [forallb existsb] in *.
    apply andb_true_iff in F2 as [H1 _]. rewrite H1. reflexivity. }
  rewrite E, F6.
  destruct last; reflexivity.
Qed.

Lemma embed_cues_wf cs : wwf cs = true -> Forall cue_in_range cs -> wf_cues (embed_cues cs) = true.
Proof.
  unfold wwf. induction cs as [|c cs IH]; intros W R; [reflexivity|].
  cbn [forallb] in W. apply andb_true_iff in W as [W1 W2]. inversion R; subst.
  destruct cs as [|c' cs'].
  - cbn [embed_cues wf_cues]. apply embed_cue_wf; auto.
  - change (embed_cues (c :: c' :: cs')) with (embed_cue false c :: embed_cues (c' :: cs')).
    remember (embed_cues (c' :: cs')) as rest eqn:ER.
    assert (N : rest <> []) by (subst rest; destruct cs'; discriminate).
    destruct rest as [|r rest']; [congruence|].
    change (wf_cues (embed_cue false c :: r :: rest')) with (wf_cue false (embed_cue false c) && wf_cues (r :: rest')).
    rewrite embed_cue_wf by auto. rewrite IH by auto. reflexivity.
Qed.

Lemma embed_file_wf cs : wwf cs = true -> Forall cue_in_range cs -> wf_file (embed_file cs) = true.
Proof. intros. unfold wf_file, embed_file. cbn [f_lead f_cues forallb andb]. apply embed_cues_wf; auto. Qed.

(* ---- the printed form *)
Lemma concat_lines_flat_map (g : cue_src -> list text) l :
  concat (with_lf (flat_map g l)) = concat (map (fun c => concat (with_lf (g c))) l).
Proof.
  induction l as [|c l IH]; [reflexivity|]. cbn [flat_map map concat]. unfold with_lf in *. rewrite with_eol_app, concat_app, IH. reflexivity.
Qed.

Lemma cue_text_print last c : wwf_cue c = true -> cue_in_range c ->
  concat (with_lf (cue_lines (embed_cue last c))) = wprint_cue last c.
Proof.
  intros W [R1 R2]. destruct (wwf_cue_fields c W) as (F1 & F2 & F3 & F4 & F5 & F6).
  destruct (embed_facts (wc_payload c) F5) as (A & _).
  unfold cue_lines, timing_line, embed_cue, wprint_cue. cbn [c_counter c_begin c_ws1 c_ws2 c_end c_tail c_payload c_blank].
  unfold with_lf. rewrite !with_eol_cons, with_eol_app. cbn [concat]. rewrite concat_app.
  fold (with_lf (payload_lines (embed_list (wc_payload c)))).
  rewrite payload_lines_split, concat_split_lf, A. rewrite !wclock_print by auto.
  destruct last; cbn [with_eol map concat]; repeat rewrite <- app_assoc; cbn [app]; reflexivity.
Qed.

Lemma embed_print cs : wwf cs = true -> Forall cue_in_range cs -> print_file (embed_file cs) = wprint cs.
Proof.
  intros W R. unfold print_file, embed_file, file_lines. cbn [f_lead f_cues f_crlf f_final_eol eol app].
  rewrite join_final. fold (with_lf (flat_map cue_lines (embed_cues cs))). rewrite concat_lines_flat_map.
  unfold wwf in W. induction cs as [|c cs IH]; [reflexivity|].
  cbn [forallb] in W. apply andb_true_iff in W as [W1 W2]. inversion R; subst.
  destruct cs as [|c' cs'].
  - cbn [embed_cues map concat wprint]. rewrite app_nil_r. apply cue_text_print; auto.
  - change (embed_cues (c :: c' :: cs')) with (embed_cue false c :: embed_cues (c' :: cs')).
    change (wprint (c :: c' :: cs')) with (wprint_cue false c ++ wprint (c' :: cs')).
    cbn [map concat]. rewrite cue_text_print by auto. rewrite IH by auto. reflexivity.
Qed.

(* ---- the meaning *)
Lemma embed_cue_meaning last c : wwf_cue c = true -> cue_of (embed_cue last c) = wmeaning c.
Proof.
  intro W. destruct (wwf_cue_fields c W) as (F1 & F2 & F3 & F4 & F5 & F6).
  destruct (embed_facts (wc_payload c) F5) as (_ & _ & _ & D).
  unfold cue_of, embed_cue, wmeaning. cbn [c_begin c_end c_payload].
  rewrite !clock_seconds_of by (destruct F3, F4; assumption). rewrite D. reflexivity.
Qed.
Lemma embed_cues_meaning cs : wwf cs = true -> map cue_of (embed_cues cs) = map wmeaning cs.
Proof.
  unfold wwf. induction cs as [|c cs IH]; intro W; [reflexivity|].
  cbn [forallb] in W. apply andb_true_iff in W as [W1 W2].
  destruct cs as [|c' cs'].
  - cbn [embed_cues map]. rewrite embed_cue_meaning by auto. reflexivity.
  - change (embed_cues (c :: c' :: cs')) with (embed_cue false c :: embed_cues (c' :: cs')).
    cbn [map]. rewrite embed_cue_meaning by auto. f_equal. apply IH; auto.
Qed.

(* ------------------------------------------------------------------ reading the writer's output *)
(* no trigger: every text of the form the writer emits, whatever the width of its hour fields *)
Theorem writer_roundtrip cs : wwf cs = true ->
  read_cues (wprint cs) = Ok (map wmeaning cs) /\ read_cues_file (wprint cs) = Ok (map wmeaning cs).
Proof.
  intros W. pose proof (range_of_wwf cs W) as R.
  rewrite <- (embed_print cs W R).
  rewrite roundtrip_stream_full, roundtrip_file_full by (apply embed_file_wf; auto).
  unfold cues, embed_file. cbn [f_cues]. rewrite embed_cues_meaning by auto. auto.
Qed.
