(* C10, lines: readlines / universal newlines on the printed form of a file. *)
From TT Require Import Base.Prelude Base.SrtTypes Model.SrtReader Spec.SrtCueSpec.
Local Open Scope Z_scope.

Definition no_lf (l : text) : Prop := forallb (fun c => negb (c =? 10)) l = true.
Definition no_cr (l : text) : Prop := forallb (fun c => negb (c =? 13)) l = true.

Lemma no_eol_split l : no_eol l = true -> no_lf l /\ no_cr l.
Proof.
  unfold no_eol, no_lf, no_cr. induction l as [|c l IH]; cbn [forallb]; [auto|].
  intro H. apply andb_true_iff in H as [H1 H2]. destruct (IH H2) as [A B]. rewrite A, B.
  split; apply andb_true_iff; split; auto; lia.
Qed.
Lemma no_eol_join l : no_lf l -> no_cr l -> no_eol l = true.
Proof.
  unfold no_eol, no_lf, no_cr. induction l as [|c l IH]; cbn [forallb]; [auto|].
  intros H1 H2. apply andb_true_iff in H1 as [A1 A2]. apply andb_true_iff in H2 as [B1 B2].
  rewrite IH by auto. apply andb_true_iff; split; auto; lia.
Qed.

Lemma readlines_line l rest : no_lf l -> readlines (l ++ 10 :: rest) = (l ++ [10]) :: readlines rest.
Proof.
  unfold no_lf. induction l as [|c l IH]; intro H.
  - reflexivity.
  - cbn [forallb] in H. apply andb_true_iff in H as [H1 H2].
    cbn [app readlines]. destruct (c =? 10) eqn:E; [discriminate|]. rewrite IH by auto. reflexivity.
Qed.

Definition with_lf (ls : list text) : list text := map (fun l => l ++ [10]) ls.

Lemma join_final e ls : join_lines e true ls = concat (map (fun l => l ++ e) ls).
Proof.
  induction ls as [|l ls IH]; [reflexivity|].
  cbn [map concat]. rewrite <- IH. destruct ls as [|l' ls]; cbn [join_lines].
  - rewrite app_nil_r. reflexivity.
  - rewrite app_assoc. reflexivity.
Qed.

Lemma readlines_concat ls : Forall no_lf ls ->
  readlines (concat (map (fun l => l ++ [10]) ls)) = with_lf ls.
Proof.
  induction 1 as [|l ls Hl _ IH]; [reflexivity|].
  cbn [map concat with_lf]. rewrite <- app_assoc. cbn [app]. rewrite readlines_line by auto.
  rewrite IH. reflexivity.
Qed.

Lemma universal_line l rest : no_cr l -> universal (l ++ 13 :: 10 :: rest) = l ++ 10 :: universal rest.
Proof.
  unfold no_cr. induction l as [|c l IH]; intro H.
  - reflexivity.
  - cbn [forallb] in H. apply andb_true_iff in H as [H1 H2].
    cbn [app universal]. destruct (c =? 13) eqn:E; [discriminate|]. rewrite IH by auto. reflexivity.
Qed.

Lemma universal_concat ls : Forall no_cr ls ->
  universal (concat (map (fun l => l ++ [13;10]) ls)) = concat (map (fun l => l ++ [10]) ls).
Proof.
  induction 1 as [|l ls Hl _ IH]; [reflexivity|].
  cbn [map concat]. rewrite <- !app_assoc. cbn [app]. rewrite universal_line by auto. rewrite IH. reflexivity.
Qed.

(* what readlines returns for a printed file that ends with a terminator: every line of the abstract
   file followed by LF; with CR LF terminators the same after the text-mode translation *)
Lemma readlines_print_lf (f : file_src) : f_crlf f = false -> f_final_eol f = true ->
  Forall no_lf (file_lines f) ->
  readlines (print_file f) = with_lf (file_lines f).
Proof.
  intros Hc Hf Hl. unfold print_file. rewrite Hc, Hf. cbn [eol]. rewrite join_final. apply readlines_concat; auto.
Qed.
Lemma readlines_print_crlf (f : file_src) : f_crlf f = true -> f_final_eol f = true ->
  Forall no_lf (file_lines f) -> Forall no_cr (file_lines f) ->
  readlines (universal (print_file f)) = with_lf (file_lines f).
Proof.
  intros Hc Hf Hl Hr. unfold print_file. rewrite Hc, Hf. cbn [eol]. rewrite join_final.
  rewrite universal_concat by auto. apply readlines_concat; auto.
Qed.
