(* C10, lines: readlines / universal newlines on the printed form of a file; LF or CR LF terminators, with or
   without translation by the stream. *)
From TT Require Import Base.Prelude Base.SrtTypes Model.SrtReader Spec.SrtCueSpec.
Local Open Scope Z_scope.

Definition no_lf (l : text) : Prop := forallb (fun c => negb (c =? 10)) l = true.
Definition no_cr (l : text) : Prop := forallb (fun c => negb (c =? 13)) l = true.

Lemma no_eol_split l : no_eol l = true -> no_lf l /\ no_cr l.
Proof.
  unfold no_eol, no_lf, no_cr. induction l as [|c l IH]; cbn [forallb]; [auto|].
  intro H. apply andb_true_iff in H as [H1 H2]. destruct (IH H2) as [A B]. rewrite A, B.
  split; apply andb_true_iff; split; auto; lia.
Qed.
Lemma no_eol_join l : no_lf l -> no_cr l -> no_eol l = true.
Proof.
  unfold no_eol, no_lf, no_cr. induction l as [|c l IH]; cbn [forallb]; [auto|].
  intros H1 H2. apply andb_true_iff in H1 as [A1 A2]. apply andb_true_iff in H2 as [B1 B2].
  rewrite IH by auto. apply andb_true_iff; split; auto; lia.
Qed.
Lemma no_lf_app a b : no_lf a -> no_lf b -> no_lf (a ++ b).
Proof. unfold no_lf. intros. rewrite forallb_app. apply andb_true_iff; auto. Qed.
Lemma no_cr_app a b : no_cr a -> no_cr b -> no_cr (a ++ b).
Proof. unfold no_cr. intros. rewrite forallb_app. apply andb_true_iff; auto. Qed.

(* the two line terminators of the grammar *)
Definition eol_ok (e : text) : Prop := e = [10] \/ e = [13; 10].
Lemma eol_ok_eol crlf : eol_ok (eol crlf).
Proof. destruct crlf; [right|left]; reflexivity. Qed.

Lemma readlines_line l rest : no_lf l -> readlines (l ++ 10 :: rest) = (l ++ [10]) :: readlines rest.
Proof.
  unfold no_lf. induction l as [|c l IH]; intro H.
  - reflexivity.
  - cbn [forallb] in H. apply andb_true_iff in H as [H1 H2].
    cbn [app readlines]. destruct (c =? 10) eqn:E; [discriminate|]. rewrite IH by auto. reflexivity.
Qed.
Lemma readlines_line_e e l rest : eol_ok e -> no_lf l -> readlines (l ++ e ++ rest) = (l ++ e) :: readlines rest.
Proof.
  intros [E|E] H; subst e.
  - apply readlines_line; auto.
  - change (l ++ [13; 10] ++ rest) with (l ++ [13] ++ 10 :: rest). rewrite app_assoc.
    rewrite readlines_line by (apply no_lf_app; auto; reflexivity). rewrite <- app_assoc. reflexivity.
Qed.

Definition with_eol (e : text) (ls : list text) : list text := map (fun l => l ++ e) ls.
Definition with_lf (ls : list text) : list text := with_eol [10] ls.

Lemma with_eol_app e a b : with_eol e (a ++ b) = with_eol e a ++ with_eol e b.
Proof. apply map_app. Qed.
Lemma with_eol_cons e a b : with_eol e (a :: b) = (a ++ e) :: with_eol e b.
Proof. reflexivity. Qed.

Lemma join_final e ls : join_lines e true ls = concat (with_eol e ls).
Proof.
  induction ls as [|l ls IH]; [reflexivity|].
  cbn [with_eol map concat]. fold (with_eol e ls). rewrite <- IH. destruct ls as [|l' ls]; cbn [join_lines].
  - rewrite app_nil_r. reflexivity.
  - rewrite app_assoc. reflexivity.
Qed.

Lemma readlines_concat e ls : eol_ok e -> Forall no_lf ls -> readlines (concat (with_eol e ls)) = with_eol e ls.
Proof.
  intro E. induction 1 as [|l ls Hl _ IH]; [reflexivity|].
  cbn [with_eol map concat]. fold (with_eol e ls). rewrite <- app_assoc. rewrite readlines_line_e by auto.
  rewrite IH. reflexivity.
Qed.

Lemma universal_line l rest : no_cr l -> universal (l ++ 13 :: 10 :: rest) = l ++ 10 :: universal rest.
Proof.
  unfold no_cr. induction l as [|c l IH]; intro H.
  - reflexivity.
  - cbn [forallb] in H. apply andb_true_iff in H as [H1 H2].
    cbn [app universal]. destruct (c =? 13) eqn:E; [discriminate|]. rewrite IH by auto. reflexivity.
Qed.
Lemma universal_lf_line l rest : no_cr l -> universal (l ++ 10 :: rest) = l ++ 10 :: universal rest.
Proof.
  unfold no_cr. induction l as [|c l IH]; intro H.
  - reflexivity.
  - cbn [forallb] in H. apply andb_true_iff in H as [H1 H2].
    cbn [app universal]. destruct (c =? 13) eqn:E; [discriminate|]. rewrite IH by auto. reflexivity.
Qed.

Lemma universal_concat e ls : eol_ok e -> Forall no_cr ls ->
  universal (concat (with_eol e ls)) = concat (with_eol [10] ls).
Proof.
  intro E. induction 1 as [|l ls Hl _ IH]; [reflexivity|].
  cbn [with_eol map concat]. fold (with_eol e ls). fold (with_eol [10] ls). rewrite <- !app_assoc.
  destruct E as [E|E]; subst e; cbn [app].
  - rewrite universal_lf_line by auto. rewrite IH. reflexivity.
  - rewrite universal_line by auto. rewrite IH. reflexivity.
Qed.

(* what readlines returns for a printed file that ends with a terminator: every line of the abstract
   file followed by its terminator; after the text-mode translation every line followed by LF *)
Lemma readlines_print (f : file_src) : f_final_eol f = true -> Forall no_lf (file_lines f) ->
  readlines (print_file f) = with_eol (eol (f_crlf f)) (file_lines f).
Proof.
  intros Hf Hl. unfold print_file. rewrite Hf. rewrite join_final. apply readlines_concat; auto using eol_ok_eol.
Qed.
Lemma readlines_print_universal (f : file_src) : f_final_eol f = true ->
  Forall no_lf (file_lines f) -> Forall no_cr (file_lines f) ->
  readlines (universal (print_file f)) = with_eol [10] (file_lines f).
Proof.
  intros Hf Hl Hr. unfold print_file. rewrite Hf. rewrite join_final.
  rewrite universal_concat by auto using eol_ok_eol. apply readlines_concat; auto. left; reflexivity.
Qed.

(* ---- line.rstrip("\r\n") *)
Lemma lstrip_clean s : no_lf s -> no_cr s -> lstrip_crlf s = s.
Proof.
  unfold no_lf, no_cr. destruct s as [|c s]; [reflexivity|]. cbn [forallb lstrip_crlf]. intros H1 H2.
  apply andb_true_iff in H1 as [A _]. apply andb_true_iff in H2 as [B _].
  unfold is_crlf. replace (c =? 13) with false by lia. replace (c =? 10) with false by lia. reflexivity.
Qed.
Lemma no_lf_rev s : no_lf s -> no_lf (rev s).
Proof. unfold no_lf. intro H. rewrite forallb_forall in *. intros x I. apply H. apply in_rev. exact I. Qed.
Lemma no_cr_rev s : no_cr s -> no_cr (rev s).
Proof. unfold no_cr. intro H. rewrite forallb_forall in *. intros x I. apply H. apply in_rev. exact I. Qed.

(* a line of the file as read (with LF, with CR LF, or without terminator) loses exactly its terminator *)
Lemma rstrip_line l e : no_lf l -> no_cr l -> e = [] \/ eol_ok e -> rstrip_crlf (l ++ e) = l.
Proof.
  intros H1 H2 E. unfold rstrip_crlf. rewrite rev_app_distr.
  assert (R : lstrip_crlf (rev l) = rev l) by (apply lstrip_clean; auto using no_lf_rev, no_cr_rev).
  destruct E as [E|[E|E]]; subst e; cbn [rev app lstrip_crlf is_crlf Z.eqb orb]; rewrite R; apply rev_involutive.
Qed.
