(* C10, <font color=..>: the tokenizer stand-in on the printed tag, and parse_color on the printed colour. *)
From TT Require Import Base.Prelude Base.SrtTypes Gen.SrtTables Model.SrtReader Spec.SrtCueSpec
  Proofs.C10.Lines Proofs.C10.Text.
Local Open Scope Z_scope.

(* ------------------------------------------------------------------ characters of a printed colour *)
(* letters, digits, '#': nothing that ends an attribute value *)
Definition value_char (c : Z) : bool :=
  (c =? 35) || ((48 <=? c) && (c <=? 57)) || ((65 <=? c) && (c <=? 90)) || ((97 <=? c) && (c <=? 122)).

Lemma value_char_facts c : value_char c = true ->
  is_space c = false /\ c <> 62 /\ c <> 34 /\ c <> 39 /\ c <> 38 /\ c <> 123 /\ c <> 13 /\ c <> 10 /\ c < 128.
Proof.
  intro H. unfold value_char in H.
  assert (S : is_space c = false).
  { unfold is_space. destruct (existsb (Z.eqb c) py_space) eqn:E; [|reflexivity].
    apply existsb_exists in E as (x & I & Q). apply Z.eqb_eq in Q. subst x.
    assert (A : forallb (fun x => negb (value_char x)) py_space = true) by (vm_compute; reflexivity).
    rewrite forallb_forall in A. specialize (A c I). unfold value_char in A. exfalso. lia. }
  repeat split; auto; lia.
Qed.

Lemma hexdig_bounds u n : 0 <= n < 16 -> value_char (hexdig u n) = true /\ is_hex (hexdig u n) = true /\ hex_val (hexdig u n) = n.
Proof.
  intro H. unfold hexdig. destruct (n <? 10) eqn:E.
  - unfold value_char, is_hex, hex_val, is_digit. replace ((48 <=? 48 + n) && (48 + n <=? 57)) with true by lia. cbn [orb]. repeat split; lia.
  - destruct u; unfold value_char, is_hex, hex_val, is_digit.
    + replace ((48 <=? 55 + n) && (55 + n <=? 57)) with false by lia. replace (55 + n <=? 70) with true by lia. repeat split; lia.
    + replace ((48 <=? 87 + n) && (87 + n <=? 57)) with false by lia. replace (87 + n <=? 70) with false by lia. repeat split; lia.
Qed.

Lemma hex2_spec u n : 0 <= n <= 255 ->
  exists a b, hex2 u n = [a; b] /\ value_char a = true /\ value_char b = true /\ is_hex a = true /\ is_hex b = true /\
              int_of_hex [a; b] = n.
Proof.
  intro H. unfold hex2. do 2 eexists. split; [reflexivity|].
  destruct (hexdig_bounds u (n / 16)) as (A1 & A2 & A3); [lia|].
  destruct (hexdig_bounds u (n mod 16)) as (B1 & B2 & B3); [lia|].
  repeat split; auto. unfold int_of_hex. cbn [fold_left]. rewrite A3, B3. lia.
Qed.

Lemma upcase_value c : value_char c = true -> value_char (upcase c) = true /\ lower_ascii (upcase c) = lower_ascii c.
Proof.
  intro H. unfold upcase. destruct ((97 <=? c) && (c <=? 122)) eqn:E; [|auto].
  split.
  - unfold value_char. lia.
  - unfold lower_ascii. replace ((65 <=? c - 32) && (c - 32 <=? 90)) with true by lia.
    replace ((65 <=? c) && (c <=? 90)) with false by lia. lia.
Qed.

(* the named colours of S, in either case, are found in the code's table with the value S gives them *)
Definition named_ok (i : nat) : bool :=
  let '(n, v) := nth i spec_colors ([], (0, 0, 0, 0)) in
  forallb value_char n && forallb value_char (map upcase n) &&
  match assoc (lower n) named_colors with Some c => rgba_eqb c v | None => false end &&
  match assoc (lower (map upcase n)) named_colors with Some c => rgba_eqb c v | None => false end.
Lemma named_all_ok : forallb named_ok (seq 0 (length spec_colors)) = true.
Proof. vm_compute. reflexivity. Qed.

Lemma rgba_eqb_eq a b : rgba_eqb a b = true -> a = b.
Proof.
  destruct a as [[[r1 g1] b1] a1], b as [[[r2 g2] b2] a2]. unfold rgba_eqb. intro H.
  repeat (apply andb_true_iff in H as [H ?]). repeat f_equal; lia.
Qed.

Lemma colspec_chars c : wf_colspec c = true -> forallb value_char (print_colspec c) = true.
Proof.
  destruct c as [r g b u|r g b a u|i u]; cbn [wf_colspec print_colspec]; intro W.
  - unfold byte_ok in W.
    destruct (hex2_spec u r) as (a1 & a2 & E1 & ? & ? & _); [lia|].
    destruct (hex2_spec u g) as (b1 & b2 & E2 & ? & ? & _); [lia|].
    destruct (hex2_spec u b) as (c1 & c2 & E3 & ? & ? & _); [lia|].
    rewrite E1, E2, E3. cbn [app forallb]. repeat (apply andb_true_iff; split); auto.
  - unfold byte_ok in W.
    destruct (hex2_spec u r) as (a1 & a2 & E1 & ? & ? & _); [lia|].
    destruct (hex2_spec u g) as (b1 & b2 & E2 & ? & ? & _); [lia|].
    destruct (hex2_spec u b) as (c1 & c2 & E3 & ? & ? & _); [lia|].
    destruct (hex2_spec u a) as (d1 & d2 & E4 & ? & ? & _); [lia|].
    rewrite E1, E2, E3, E4. cbn [app forallb]. repeat (apply andb_true_iff; split); auto.
  - apply Nat.ltb_lt in W. pose proof named_all_ok as A. rewrite forallb_forall in A.
    specialize (A i). rewrite in_seq in A. specialize (A ltac:(lia)). unfold named_ok in A.
    destruct (nth i spec_colors ([], (0, 0, 0, 0))) as [n v]. cbn [fst].
    repeat (apply andb_true_iff in A as [A ?]). destruct u; auto.
Qed.

Lemma assoc_hash v : assoc (35 :: v) named_colors = None.
Proof. reflexivity. Qed.

Lemma lower_hash_hex6 (a b c d e f : Z) : exists x, lower [35; a; b; c; d; e; f] = 35 :: x.
Proof. eexists. reflexivity. Qed.

Lemma ascii_of_value v : forallb value_char v = true -> forallb (fun c => c <? 128) v = true.
Proof.
  intro H. rewrite forallb_forall in *. intros x I. specialize (H x I). apply value_char_facts in H. lia.
Qed.

Lemma lower_key_ascii v : forallb (fun c => c <? 128) v = true -> lower_key v = Some (lower v).
Proof.
  induction v as [|c v IH]; intro H; [reflexivity|].
  cbn [forallb] in H. apply andb_true_iff in H as [H1 H2]. cbn [lower_key]. rewrite H1, IH by auto. reflexivity.
Qed.

Theorem parse_color_spec c : wf_colspec c = true -> parse_color (print_colspec c) = Ok (colspec_rgba c).
Proof.
  intro W. pose proof (colspec_chars c W) as V. unfold parse_color. rewrite (lower_key_ascii _ (ascii_of_value _ V)).
  destruct c as [r g b u|r g b a u|i u]; cbn [wf_colspec print_colspec colspec_rgba] in *.
  - unfold byte_ok in W.
    destruct (hex2_spec u r) as (a1 & a2 & E1 & _ & _ & X1 & X2 & I1); [lia|].
    destruct (hex2_spec u g) as (b1 & b2 & E2 & _ & _ & Y1 & Y2 & I2); [lia|].
    destruct (hex2_spec u b) as (c1 & c2 & E3 & _ & _ & Z1 & Z2 & I3); [lia|].
    rewrite E1, E2, E3. cbn [app]. change (lower (35 :: ?x)) with (35 :: lower x). cbn [lower map].
    change (lower_ascii 35) with 35. rewrite assoc_hash.
    cbn [hex_color]. rewrite X1, X2, Y1, Y2, Z1, Z2. cbn [andb]. rewrite I1, I2, I3. reflexivity.
  - unfold byte_ok in W.
    destruct (hex2_spec u r) as (a1 & a2 & E1 & _ & _ & X1 & X2 & I1); [lia|].
    destruct (hex2_spec u g) as (b1 & b2 & E2 & _ & _ & Y1 & Y2 & I2); [lia|].
    destruct (hex2_spec u b) as (c1 & c2 & E3 & _ & _ & Z1 & Z2 & I3); [lia|].
    destruct (hex2_spec u a) as (d1 & d2 & E4 & _ & _ & W1 & W2 & I4); [lia|].
    rewrite E1, E2, E3, E4. cbn [app lower map]. change (lower_ascii 35) with 35. rewrite assoc_hash.
    cbn [hex_color]. rewrite X1, X2, Y1, Y2, Z1, Z2, W1, W2. cbn [andb]. rewrite I1, I2, I3, I4. reflexivity.
  - apply Nat.ltb_lt in W. pose proof named_all_ok as A. rewrite forallb_forall in A.
    specialize (A i). rewrite in_seq in A. specialize (A ltac:(lia)). unfold named_ok in A.
    destruct (nth i spec_colors ([], (0, 0, 0, 0))) as [n v]. cbn [fst snd] in *.
    repeat (apply andb_true_iff in A as [A ?]).
    destruct u.
    + destruct (assoc (lower (map upcase n)) named_colors); [|discriminate]. f_equal. apply rgba_eqb_eq. auto.
    + destruct (assoc (lower n) named_colors); [|discriminate]. f_equal. apply rgba_eqb_eq. auto.
Qed.

(* ------------------------------------------------------------------ the attribute machine on the printed value *)
Lemma attrs_quoted q name v : forall val acc n rest,
  forallb value_char v = true -> (q = 34 \/ q = 39) ->
  attrs_go (SQ q name val) acc n (v ++ q :: rest) =
  attrs_go SA (mkattr name (Some (rev v ++ val)) :: acc) (S (length v + n)) rest.
Proof.
  induction v as [|c v IH]; intros val acc n rest H Q.
  - cbn [app attrs_go]. rewrite Z.eqb_refl. reflexivity.
  - cbn [forallb] in H. apply andb_true_iff in H as [H1 H2]. apply value_char_facts in H1.
    cbn [app attrs_go]. replace (c =? q) with false by lia. rewrite IH by auto.
    cbn [rev length]. rewrite <- app_assoc. cbn [app]. do 2 f_equal. lia.
Qed.

Lemma attrs_bare name v : forall val acc n rest,
  forallb value_char v = true ->
  attrs_go (SB name val) acc n (v ++ 62 :: rest) =
  Some (rev (mkattr name (Some (rev v ++ val)) :: acc), false, S (length v + n)).
Proof.
  induction v as [|c v IH]; intros val acc n rest H.
  - cbn [app attrs_go]. change (is_space 62) with false. cbn iota. reflexivity.
  - cbn [forallb] in H. apply andb_true_iff in H as [H1 H2]. apply value_char_facts in H1 as (S & G & _).
    cbn [app attrs_go]. rewrite S. replace (c =? 62) with false by lia. rewrite IH by auto.
    cbn [rev length]. rewrite <- app_assoc. cbn [app]. do 3 f_equal. lia.
Qed.

Lemma tok_skip a : forall p X, tok (length a) p (a ++ X) = tok O p X.
Proof. induction a as [|c a IH]; intros p X; [reflexivity|]. cbn [length app tok]. apply IH. Qed.

Lemma unescape_value v : forallb value_char v = true -> unescape v = v.
Proof.
  intro H. apply unescape_id. unfold lacks. rewrite forallb_forall in *. intros x I. specialize (H x I).
  apply value_char_facts in H. lia.
Qed.

Lemma parse_markup_font_prefix rest :
  parse_markup (60 :: 102 :: 111 :: 110 :: 116 :: 32 :: 99 :: 111 :: 108 :: 111 :: 114 :: 61 :: rest) =
  match attrs_go (SEq [114;111;108;111;99] false) [] 7%nat rest with
  | Some (attrs, selfclosing, n) => MToks (TStart t_font attrs :: (if selfclosing then [TEnd t_font] else [])) (1 + 4 + n)
  | None => MBad
  end.
Proof. reflexivity. Qed.

Lemma parse_markup_font c q X : wf_colspec c = true ->
  parse_markup (open_font c q ++ X) = MToks [TStart t_font [(t_color, Some (print_colspec c))]] (length (open_font c q)).
Proof.
  intro W. pose proof (colspec_chars c W) as V. unfold open_font.
  remember (print_colspec c) as v eqn:EV0.
  repeat rewrite <- app_assoc. cbn [app]. rewrite parse_markup_font_prefix.
  destruct q; cbn [quote_chars app].
  - (* double quotes *)
    cbn [attrs_go]. change (34 =? 61) with false. change (is_space 34) with false. change ((34 =? 39) || (34 =? 34)) with true. cbn iota.
    rewrite attrs_quoted by auto. cbn [attrs_go]. change (is_space 62) with false. cbn iota.
    rewrite Z.eqb_refl. unfold mkattr. rewrite app_nil_r, rev_involutive. rewrite unescape_value by auto.
    cbn [rev app lower map]. f_equal; try reflexivity; cbn [length]; rewrite ?app_length; cbn [length]; lia.
  - (* single quotes *)
    cbn [attrs_go]. change (39 =? 61) with false. change (is_space 39) with false. change ((39 =? 39) || (39 =? 34)) with true. cbn iota.
    rewrite attrs_quoted by auto. cbn [attrs_go]. change (is_space 62) with false. cbn iota.
    rewrite Z.eqb_refl. unfold mkattr. rewrite app_nil_r, rev_involutive. rewrite unescape_value by auto.
    cbn [rev app lower map]. f_equal; try reflexivity; cbn [length]; rewrite ?app_length; cbn [length]; lia.
  - (* bare: the value is not empty *)
    destruct v as [|c0 v0] eqn:EV.
    { exfalso. clear - W EV0. destruct c as [r g b u|r g b a u|i u]; cbn in EV0; try discriminate.
      apply Nat.ltb_lt in W. cbn [length spec_colors] in W.
      do 19 (destruct i as [|i]; [destruct u; discriminate|]). lia. }
    cbn [forallb] in V. apply andb_true_iff in V as [V1 V2]. pose proof (value_char_facts _ V1) as (S0 & G0 & Q1 & Q2 & _).
    cbn [app attrs_go]. unfold value_char in V1.
    replace (c0 =? 61) with false by lia. rewrite S0. replace ((c0 =? 39) || (c0 =? 34)) with false by lia.
    replace (c0 =? 62) with false by lia.
    rewrite attrs_bare by auto.
    unfold mkattr. cbn [rev app]. rewrite rev_app_distr, rev_involutive. cbn [rev app].
    rewrite unescape_value by (cbn [forallb]; apply andb_true_iff; split; auto).
    cbn [lower map]. f_equal; try reflexivity; cbn [length]; rewrite ?app_length; cbn [length]; lia.
Qed.

Lemma tok_font c q pend X : wf_colspec c = true ->
  tok O pend (open_font c q ++ X) = flush pend ++ TStart t_font [(t_color, Some (print_colspec c))] :: tok O [] X.
Proof.
  intro W. pose proof (parse_markup_font c q X W) as P.
  remember (open_font c q) as o eqn:EO. destruct o as [|h o]; [unfold open_font in EO; discriminate|].
  assert (h = 60) by (unfold open_font in EO; cbn in EO; congruence). subst h.
  cbn [app tok]. change (60 =? 60) with true. cbn iota.
  change (60 :: o ++ X) with ((60 :: o) ++ X). rewrite P. cbn [length]. rewrite Nat.sub_succ, Nat.sub_0_r.
  rewrite tok_skip. reflexivity.
Qed.

Lemma tok_close_font pend X : tok O pend (close_font ++ X) = flush pend ++ TEnd t_font :: tok O [] X.
Proof. reflexivity. Qed.

Lemma font_style_spec c : wf_colspec c = true ->
  tag_style t_font [(t_color, Some (print_colspec c))] = Ok (mkSt false false false (Some (colspec_rgba c))).
Proof.
  intro W. unfold tag_style. change (lower t_font) with t_font.
  change (text_eqb t_font t_b || text_eqb t_font t_bold) with false.
  change (text_eqb t_font t_i || text_eqb t_font t_italic) with false.
  change (text_eqb t_font t_u || text_eqb t_font t_underline) with false.
  change (text_eqb t_font t_font) with true. cbn iota.
  cbn [find_color]. change (text_eqb t_color t_color) with true. cbn iota.
  rewrite parse_color_spec by auto. reflexivity.
Qed.

Lemma inherit_color c outer : inherit outer (mkSt false false false (Some c)) = with_color c outer.
Proof. destruct outer as [b i u oc]; unfold inherit, with_color; cbn [st_b st_i st_u st_c]; rewrite ?orb_false_r; reflexivity. Qed.

Lemma font_open_chars c q : wf_colspec c = true -> lacks 123 (open_font c q) /\ no_cr (open_font c q).
Proof.
  intro W. pose proof (colspec_chars c W) as V.
  assert (A : lacks 123 (print_colspec c) /\ no_cr (print_colspec c)).
  { unfold lacks, no_cr. split; apply forallb_forall; intros x I; rewrite forallb_forall in V; specialize (V x I);
    apply value_char_facts in V; lia. }
  destruct A as [A1 A2]. unfold open_font, lacks, no_cr in *.
  split; rewrite !forallb_app; rewrite ?A1, ?A2; destruct q; reflexivity.
Qed.
