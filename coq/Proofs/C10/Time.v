(* C10, time syntax: _TIMECODE_RE as transcribed (search_tc) finds the printed clocks of a timing line
   and the value computed from the groups is the positional value of the digits, exactly. *)
From TT Require Import Base.Prelude Base.SrtTypes Gen.SrtTables Model.SrtReader Spec.SrtCueSpec.
From Coq Require Import QArith.
Local Open Scope Z_scope.

(* ---- character facts *)
Lemma digit_cases c : is_digit c = true ->
  c = 48 \/ c = 49 \/ c = 50 \/ c = 51 \/ c = 52 \/ c = 53 \/ c = 54 \/ c = 55 \/ c = 56 \/ c = 57.
Proof. unfold is_digit. lia. Qed.

Lemma digit_not_space c : is_digit c = true -> is_space c = false.
Proof.
  intro H. apply digit_cases in H.
  repeat (destruct H as [H|H]; [subst; vm_compute; reflexivity|]). subst; vm_compute; reflexivity.
Qed.

Lemma dec_digits_forall ds : dec_digits ds = true -> forallb is_digit ds = true.
Proof. unfold dec_digits, is_digit. intro H; exact H. Qed.

(* ---- int(...) of a digit string is its positional value *)
Lemma fold_digits_acc ds : forall a,
  fold_left (fun a c => a * 10 + (c - 48)) ds a = a * 10 ^ Z.of_nat (length ds) + dec_value ds.
Proof.
  induction ds as [|d r IH]; intro a; cbn [fold_left dec_value length].
  - change (Z.of_nat 0) with 0. rewrite Z.pow_0_r. lia.
  - rewrite IH. rewrite Nat2Z.inj_succ, Z.pow_succ_r by lia. ring.
Qed.
Lemma int_of_digits_value ds : int_of_digits ds = dec_value ds.
Proof. unfold int_of_digits. rewrite fold_digits_acc. lia. Qed.

(* ---- take_digits *)
Lemma take_digits_app n : forall ds rest, length ds = n -> forallb is_digit ds = true ->
  take_digits n (ds ++ rest) = Some (ds, rest).
Proof.
  induction n as [|n IH]; intros ds rest Hl Hd.
  - destruct ds; [reflexivity|discriminate].
  - destruct ds as [|d ds]; [discriminate|]. cbn [app take_digits].
    cbn [forallb] in Hd. apply andb_true_iff in Hd as [Hd1 Hd2]. rewrite Hd1.
    rewrite IH; auto.
Qed.

Lemma take_digits_stop n : forall ds c rest, (length ds < n)%nat -> is_digit c = false ->
  take_digits n (ds ++ c :: rest) = None.
Proof.
  induction n as [|n IH]; intros ds c rest Hl Hc; [lia|].
  destruct ds as [|d ds]; cbn [app take_digits].
  - rewrite Hc. reflexivity.
  - destruct (is_digit d); [|reflexivity]. rewrite IH; auto. cbn [length] in Hl. lia.
Qed.

Lemma take_all_digits_app h : forall rest c, forallb is_digit h = true -> is_digit c = false ->
  take_all_digits (h ++ c :: rest) = (h, c :: rest).
Proof.
  induction h as [|d h IH]; intros rest c Hd Hc; cbn [app take_all_digits].
  - rewrite Hc. reflexivity.
  - cbn [forallb] in Hd. apply andb_true_iff in Hd as [Hd1 Hd2]. rewrite Hd1, IH by auto. reflexivity.
Qed.

(* [0-9]{2,} : every width from two digits on *)
Lemma take_hours_app h rest c : (2 <= length h)%nat -> forallb is_digit h = true ->
  is_digit c = false -> take_hours (h ++ c :: rest) = Some (h, c :: rest).
Proof.
  intros Hl Hd Hc. unfold take_hours. rewrite take_all_digits_app by auto.
  destruct h as [|a [|b h]]; cbn [length] in Hl; try lia. reflexivity.
Qed.

Definition clock_text (h m s ms : text) : text := h ++ [58] ++ m ++ [58] ++ s ++ [44] ++ ms.

Record clock_digits (h m s ms : text) : Prop := {
  cd_h : (2 <= length h)%nat; cd_hd : forallb is_digit h = true;
  cd_m : length m = 2%nat; cd_md : forallb is_digit m = true;
  cd_s : length s = 2%nat; cd_sd : forallb is_digit s = true;
  cd_ms : length ms = 3%nat; cd_msd : forallb is_digit ms = true }.

Lemma clock_at_spec h m s ms rest : clock_digits h m s ms ->
  clock_at (clock_text h m s ms ++ rest) = Some (h, m, s, ms, rest).
Proof.
  intros [Hh Hhd Hm Hmd Hs Hsd Hms Hmsd]. unfold clock_at, clock_text.
  repeat rewrite <- app_assoc. cbn [app].
  rewrite take_hours_app by (auto; reflexivity). cbn [bind expect]. rewrite Z.eqb_refl. cbn [bind].
  rewrite take_digits_app by auto. cbn [bind expect]. rewrite Z.eqb_refl. cbn [bind].
  rewrite take_digits_app by auto. cbn [bind expect]. rewrite Z.eqb_refl. cbn [bind].
  rewrite take_digits_app by auto. reflexivity.
Qed.

(* ---- white space around the arrow *)
Lemma skip_spaces_app ws rest : forallb is_space ws = true ->
  skip_spaces (ws ++ rest) = skip_spaces rest.
Proof.
  induction ws as [|c ws IH]; intro H; [reflexivity|].
  cbn [forallb] in H. apply andb_true_iff in H as [H1 H2]. cbn [app skip_spaces]. rewrite H1. auto.
Qed.
Lemma skip_spaces_nonspace c rest : is_space c = false -> skip_spaces (c :: rest) = c :: rest.
Proof. intro H. cbn [skip_spaces]. rewrite H. reflexivity. Qed.
Lemma spaces1_app ws c rest : ws <> [] -> forallb is_space ws = true -> is_space c = false ->
  spaces1 (ws ++ c :: rest) = Some (c :: rest).
Proof.
  intros Hne Hs Hc. destruct ws as [|w ws]; [congruence|].
  cbn [forallb] in Hs. apply andb_true_iff in Hs as [H1 H2].
  cbn [app spaces1]. rewrite H1. rewrite skip_spaces_app by auto. rewrite skip_spaces_nonspace; auto.
Qed.

Definition timing_text (bh bm bs bms ws1 ws2 eh em es ems tail : text) : text :=
  clock_text bh bm bs bms ++ ws1 ++ [45;45;62] ++ ws2 ++ clock_text eh em es ems ++ tail.

Lemma hd_digit h m s ms rest : clock_digits h m s ms ->
  exists c r, clock_text h m s ms ++ rest = c :: r /\ is_digit c = true.
Proof.
  intros [Hh Hhd _ _ _ _ _ _]. destruct h as [|c h]; [cbn [length] in Hh; lia|].
  exists c. eexists. split; [reflexivity|]. cbn [forallb] in Hhd. apply andb_true_iff in Hhd. tauto.
Qed.

Lemma match_tc_at_spec bh bm bs bms ws1 ws2 eh em es ems tail :
  clock_digits bh bm bs bms -> clock_digits eh em es ems ->
  ws1 <> [] -> forallb is_space ws1 = true -> ws2 <> [] -> forallb is_space ws2 = true ->
  match_tc_at (timing_text bh bm bs bms ws1 ws2 eh em es ems tail) = Some (mkTcm bh bm bs bms eh em es ems).
Proof.
  intros Hb He Hw1 Hs1 Hw2 Hs2. unfold match_tc_at, timing_text.
  rewrite clock_at_spec by auto. cbn [bind].
  cbn [app]. rewrite spaces1_app by (auto; vm_compute; reflexivity). cbn [bind expect].
  rewrite !Z.eqb_refl. cbn [bind expect]. rewrite ?Z.eqb_refl. cbn [bind expect]. rewrite ?Z.eqb_refl. cbn [bind].
  destruct (hd_digit eh em es ems tail He) as (c & r & Heq & Hc).
  rewrite Heq. rewrite spaces1_app by (auto using digit_not_space). cbn [bind].
  rewrite <- Heq. rewrite clock_at_spec by auto. reflexivity.
Qed.

Lemma search_tc_spec bh bm bs bms ws1 ws2 eh em es ems tail :
  clock_digits bh bm bs bms -> clock_digits eh em es ems ->
  ws1 <> [] -> forallb is_space ws1 = true -> ws2 <> [] -> forallb is_space ws2 = true ->
  search_tc (timing_text bh bm bs bms ws1 ws2 eh em es ems tail) = Some (mkTcm bh bm bs bms eh em es ems).
Proof.
  intros. destruct (timing_text bh bm bs bms ws1 ws2 eh em es ems tail) eqn:E;
  cbn [search_tc]; rewrite <- E; rewrite match_tc_at_spec; auto.
Qed.

(* ---- the value *)
Lemma seconds_of_value h m s ms :
  seconds_of h m s ms = Qred (printed_seconds h m s ms).
Proof. unfold seconds_of, printed_seconds. rewrite !int_of_digits_value. reflexivity. Qed.

Lemma seconds_of_eq h m s ms :
  Qeq (seconds_of h m s ms) (printed_seconds h m s ms).
Proof. rewrite seconds_of_value. apply Qred_correct. Qed.

(* C10_exact_time: for every timing line made of digit strings of the pattern's widths (two or more
   hour digits - any number of them), whatever the digits, the white space around the arrow and the rest of the line, the
   reader's begin and end are h*3600 + m*60 + s + ms/1000 of the printed digits - as rationals in lowest
   terms (structural equality with Qred of the specification's value), hence equal as rationals. *)
Theorem exact_time bh bm bs bms ws1 ws2 eh em es ems tail :
  clock_digits bh bm bs bms -> clock_digits eh em es ems ->
  ws1 <> [] -> forallb is_space ws1 = true -> ws2 <> [] -> forallb is_space ws2 = true ->
  exists g, search_tc (timing_text bh bm bs bms ws1 ws2 eh em es ems tail) = Some g /\
    seconds_of (g_bh g) (g_bm g) (g_bs g) (g_bms g) = Qred (printed_seconds bh bm bs bms) /\
    seconds_of (g_eh g) (g_em g) (g_es g) (g_ems g) = Qred (printed_seconds eh em es ems) /\
    Qeq (seconds_of (g_bh g) (g_bm g) (g_bs g) (g_bms g)) (printed_seconds bh bm bs bms) /\
    Qeq (seconds_of (g_eh g) (g_em g) (g_es g) (g_ems g)) (printed_seconds eh em es ems).
Proof.
  intros. eexists. split; [apply search_tc_spec; auto|]. cbn [g_bh g_bm g_bs g_bms g_eh g_em g_es g_ems].
  repeat split; auto using seconds_of_value, seconds_of_eq.
Qed.

(* ---- printed clocks of the abstract syntax *)
Lemma is_digit_dig n : 0 <= n <= 9 -> is_digit (dig n) = true.
Proof. unfold is_digit, dig. lia. Qed.

Lemma pad2_digits n : 0 <= n <= 99 -> forallb is_digit (pad2 n) = true /\ length (pad2 n) = 2%nat /\ dec_value (pad2 n) = n.
Proof.
  intro H. unfold pad2. cbn [forallb length dec_value]. rewrite !is_digit_dig by lia.
  repeat split. unfold dig. change (Z.of_nat 1) with 1. change (Z.of_nat 0) with 0. lia.
Qed.
Lemma pad3_digits n : 0 <= n <= 999 -> forallb is_digit (pad3 n) = true /\ length (pad3 n) = 3%nat /\ dec_value (pad3 n) = n.
Proof.
  intro H. unfold pad3. cbn [forallb length dec_value]. rewrite !is_digit_dig by lia.
  repeat split. unfold dig. change (Z.of_nat 2) with 2. change (Z.of_nat 1) with 1. change (Z.of_nat 0) with 0. lia.
Qed.

Definition hours_text (k : clock) : text := padn (k_hw k) (k_h k).

Lemma dec_value_snoc l d : dec_value (l ++ [d]) = dec_value l * 10 + (d - 48).
Proof.
  induction l as [|x l IH]; cbn [app dec_value length].
  - change (Z.of_nat 0) with 0. lia.
  - rewrite IH. rewrite app_length. cbn [length]. rewrite Nat.add_1_r, Nat2Z.inj_succ, Z.pow_succ_r by lia. ring.
Qed.

(* n written with w digits: w digits, and their positional value is n, for every width and every n below 10^w *)
Lemma padn_digits w : forall n, 0 <= n < 10 ^ Z.of_nat w ->
  forallb is_digit (padn w n) = true /\ length (padn w n) = w /\ dec_value (padn w n) = n.
Proof.
  induction w as [|w IH]; intros n H.
  - change (Z.of_nat 0) with 0 in H. rewrite Z.pow_0_r in H. cbn [padn forallb length dec_value]. repeat split. lia.
  - rewrite Nat2Z.inj_succ, Z.pow_succ_r in H by lia. cbn [padn].
    destruct (IH (n / 10)) as (A & B & C); [lia|].
    rewrite forallb_app, A, app_length, B, dec_value_snoc, C. cbn [forallb length].
    rewrite is_digit_dig by lia. repeat split; [lia|]. unfold dig. lia.
Qed.

Lemma clock_shape_bounds k : clock_shape k = true ->
  (2 <= k_hw k)%nat /\ 0 <= k_h k < 10 ^ Z.of_nat (k_hw k) /\ 0 <= k_m k <= 99 /\ 0 <= k_s k <= 99 /\ 0 <= k_ms k <= 999.
Proof.
  unfold clock_shape. intro H. repeat (apply andb_true_iff in H as [H ?]).
  apply Nat.leb_le in H. lia.
Qed.
Lemma wf_clock_shape k : wf_clock k = true -> clock_shape k = true /\ Z.of_nat (k_hw k) <= max_hour_digits.
Proof. unfold wf_clock. intro H. apply andb_true_iff in H as [A B]. split; [exact A|lia]. Qed.

Lemma print_clock_text k : print_clock k = clock_text (hours_text k) (pad2 (k_m k)) (pad2 (k_s k)) (pad3 (k_ms k)).
Proof. reflexivity. Qed.

Lemma hours_digits k : clock_shape k = true ->
  forallb is_digit (hours_text k) = true /\ length (hours_text k) = k_hw k /\ dec_value (hours_text k) = k_h k.
Proof. intro H. apply clock_shape_bounds in H. unfold hours_text. apply padn_digits. lia. Qed.

Lemma clock_digits_shape k : clock_shape k = true ->
  clock_digits (hours_text k) (pad2 (k_m k)) (pad2 (k_s k)) (pad3 (k_ms k)).
Proof.
  intro H. pose proof (hours_digits k H) as (a & b & _). apply clock_shape_bounds in H.
  destruct (pad2_digits (k_m k)) as (a1 & b1 & _); [lia|].
  destruct (pad2_digits (k_s k)) as (a2 & b2 & _); [lia|].
  destruct (pad3_digits (k_ms k)) as (a3 & b3 & _); [lia|].
  constructor; auto. lia.
Qed.
Lemma clock_digits_print k : wf_clock k = true ->
  clock_digits (hours_text k) (pad2 (k_m k)) (pad2 (k_s k)) (pad3 (k_ms k)).
Proof. intro H. apply clock_digits_shape. apply wf_clock_shape in H. tauto. Qed.

(* the hour field of a clock of the grammar is one that int() converts: the generated limit of the interpreter is not
   below the grammar's (fails closed when the interpreter is configured with a lower limit) *)
Lemma max_hour_digits_converts : max_hour_digits <= int_max_str_digits.
Proof. vm_compute. discriminate. Qed.
Lemma hours_convert k : wf_clock k = true -> int_converts (hours_text k) = true.
Proof.
  intro H. apply wf_clock_shape in H as [S B]. pose proof (hours_digits k S) as (_ & L & _).
  unfold int_converts. rewrite L. pose proof max_hour_digits_converts. lia.
Qed.

Lemma clock_value_shape k : clock_shape k = true ->
  seconds_of (hours_text k) (pad2 (k_m k)) (pad2 (k_s k)) (pad3 (k_ms k)) = clock_seconds k.
Proof.
  intro H. rewrite seconds_of_value. unfold printed_seconds, clock_seconds.
  pose proof (hours_digits k H) as (_ & _ & vh). apply clock_shape_bounds in H.
  destruct (pad2_digits (k_m k)) as (_ & _ & vm); [lia|].
  destruct (pad2_digits (k_s k)) as (_ & _ & vs); [lia|].
  destruct (pad3_digits (k_ms k)) as (_ & _ & vms); [lia|].
  rewrite vh, vm, vs, vms. apply Qred_complete.
  unfold Qeq, Qplus, inject_Z. cbn [Qnum Qden]. lia.
Qed.

Lemma clock_value k : wf_clock k = true ->
  seconds_of (hours_text k) (pad2 (k_m k)) (pad2 (k_s k)) (pad3 (k_ms k)) = clock_seconds k.
Proof. intro H. apply clock_value_shape. apply wf_clock_shape in H. tauto. Qed.

(* ---- "conversion to frame-based outputs lands on the intended frame": the time read is the exact rational, so a time
   that is a whole number of frames at an integer or rational frame rate fn/fd multiplies out to exactly that number *)
Definition total_ms (k : clock) : Z := (k_h k * 3600 + k_m k * 60 + k_s k) * 1000 + k_ms k.
Theorem frames_exact k (fn : Z) (fd : positive) n : total_ms k * fn = n * 1000 * Zpos fd ->
  Qeq (Qmult (clock_seconds k) (Qmake fn fd)) (inject_Z n).
Proof.
  intro H. unfold clock_seconds. fold (total_ms k). rewrite Qred_correct.
  unfold Qeq, Qmult, inject_Z. cbn [Qnum Qden]. rewrite Pos2Z.inj_mul. lia.
Qed.
(* the whole path for one timing line: the digits printed for two clocks are read back as the clocks' values, for every
   clock that can be written - an hour field of ANY width from two digits on (no upper bound) holding any hour below
   10^width, minutes and seconds 00-99, milliseconds 000-999 *)
Theorem exact_time_grammar k1 k2 ws1 ws2 tail : clock_shape k1 = true -> clock_shape k2 = true ->
  ws1 <> [] -> forallb is_space ws1 = true -> ws2 <> [] -> forallb is_space ws2 = true ->
  exists g, search_tc (print_clock k1 ++ ws1 ++ [45;45;62] ++ ws2 ++ print_clock k2 ++ tail) = Some g /\
    seconds_of (g_bh g) (g_bm g) (g_bs g) (g_bms g) = clock_seconds k1 /\
    seconds_of (g_eh g) (g_em g) (g_es g) (g_ems g) = clock_seconds k2 /\
    Qeq (clock_seconds k1) (Qmake (total_ms k1) 1000) /\ Qeq (clock_seconds k2) (Qmake (total_ms k2) 1000).
Proof.
  intros W1 W2 N1 S1 N2 S2. rewrite !print_clock_text.
  eexists. split; [apply (search_tc_spec _ _ _ _ ws1 ws2 _ _ _ _ tail); auto using clock_digits_shape|].
  cbn [g_bh g_bm g_bs g_bms g_eh g_em g_es g_ems]. rewrite !clock_value_shape by auto.
  repeat split; unfold clock_seconds; apply Qred_correct.
Qed.
(* non-vacuity and reach: hour fields of two, four and twelve digits *)
Lemma clock_shape_examples :
  clock_shape (mkClock 7 2 0 0 0) = true /\ clock_shape (mkClock 1000 4 0 0 0) = true /\
  clock_shape (mkClock 123456789012 12 59 59 999) = true /\
  print_clock (mkClock 1000 4 0 0 0) = [49;48;48;48;58;48;48;58;48;48;44;48;48;48] /\
  clock_seconds (mkClock 1000 4 0 0 1) = Qmake 3600000001 1000.
Proof. vm_compute. repeat split. Qed.
