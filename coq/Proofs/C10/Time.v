(* C10, time syntax: _TIMECODE_RE as transcribed (search_tc) finds the printed clocks of a timing line
   and the value computed from the groups is the positional value of the digits, exactly. *)
From TT Require Import Base.Prelude Base.SrtTypes Gen.SrtTables Model.SrtReader Spec.SrtCueSpec.
From Coq Require Import QArith.
Local Open Scope Z_scope.

(* ---- character facts *)
Lemma digit_cases c : is_digit c = true ->
  c = 48 \/ c = 49 \/ c = 50 \/ c = 51 \/ c = 52 \/ c = 53 \/ c = 54 \/ c = 55 \/ c = 56 \/ c = 57.
Proof. unfold is_digit. lia. Qed.

Lemma digit_not_space c : is_digit c = true -> is_space c = false.
Proof.
  intro H. apply digit_cases in H.
  repeat (destruct H as [H|H]; [subst; vm_compute; reflexivity|]). subst; vm_compute; reflexivity.
Qed.

Lemma dec_digits_forall ds : dec_digits ds = true -> forallb is_digit ds = true.
Proof. unfold dec_digits, is_digit. intro H; exact H. Qed.

(* ---- int(...) of a digit string is its positional value *)
Lemma fold_digits_acc ds : forall a,
  fold_left (fun a c => a * 10 + (c - 48)) ds a = a * 10 ^ Z.of_nat (length ds) + dec_value ds.
Proof.
  induction ds as [|d r IH]; intro a; cbn [fold_left dec_value length].
  - change (Z.of_nat 0) with 0. rewrite Z.pow_0_r. lia.
  - rewrite IH. rewrite Nat2Z.inj_succ, Z.pow_succ_r by lia. ring.
Qed.
Lemma int_of_digits_value ds : int_of_digits ds = dec_value ds.
Proof. unfold int_of_digits. rewrite fold_digits_acc. lia. Qed.

(* ---- take_digits *)
Lemma take_digits_app n : forall ds rest, length ds = n -> forallb is_digit ds = true ->
  take_digits n (ds ++ rest) = Some (ds, rest).
Proof.
  induction n as [|n IH]; intros ds rest Hl Hd.
  - destruct ds; [reflexivity|discriminate].
  - destruct ds as [|d ds]; [discriminate|]. cbn [app take_digits].
    cbn [forallb] in Hd. apply andb_true_iff in Hd as [Hd1 Hd2]. rewrite Hd1.
    rewrite IH; auto.
Qed.

Lemma take_digits_stop n : forall ds c rest, (length ds < n)%nat -> is_digit c = false ->
  take_digits n (ds ++ c :: rest) = None.
Proof.
  induction n as [|n IH]; intros ds c rest Hl Hc; [lia|].
  destruct ds as [|d ds]; cbn [app take_digits].
  - rewrite Hc. reflexivity.
  - destruct (is_digit d); [|reflexivity]. rewrite IH; auto. cbn [length] in Hl. lia.
Qed.

Lemma take_hours_app h rest c : (length h = 2 \/ length h = 3)%nat -> forallb is_digit h = true ->
  is_digit c = false -> take_hours (h ++ c :: rest) = Some (h, c :: rest).
Proof.
  intros [Hl|Hl] Hd Hc; unfold take_hours.
  - rewrite take_digits_stop by (auto; lia). apply take_digits_app; auto.
  - rewrite take_digits_app; auto.
Qed.

Definition clock_text (h m s ms : text) : text := h ++ [58] ++ m ++ [58] ++ s ++ [44] ++ ms.

Record clock_digits (h m s ms : text) : Prop := {
  cd_h : (length h = 2 \/ length h = 3)%nat; cd_hd : forallb is_digit h = true;
  cd_m : length m = 2%nat; cd_md : forallb is_digit m = true;
  cd_s : length s = 2%nat; cd_sd : forallb is_digit s = true;
  cd_ms : length ms = 3%nat; cd_msd : forallb is_digit ms = true }.

Lemma clock_at_spec h m s ms rest : clock_digits h m s ms ->
  clock_at (clock_text h m s ms ++ rest) = Some (h, m, s, ms, rest).
Proof.
  intros [Hh Hhd Hm Hmd Hs Hsd Hms Hmsd]. unfold clock_at, clock_text.
  repeat rewrite <- app_assoc. cbn [app].
  rewrite take_hours_app by (auto; reflexivity). cbn [bind expect]. rewrite Z.eqb_refl. cbn [bind].
  rewrite take_digits_app by auto. cbn [bind expect]. rewrite Z.eqb_refl. cbn [bind].
  rewrite take_digits_app by auto. cbn [bind expect]. rewrite Z.eqb_refl. cbn [bind].
  rewrite take_digits_app by auto. reflexivity.
Qed.

(* ---- white space around the arrow *)
Lemma skip_spaces_app ws rest : forallb is_space ws = true ->
  skip_spaces (ws ++ rest) = skip_spaces rest.
Proof.
  induction ws as [|c ws IH]; intro H; [reflexivity|].
  cbn [forallb] in H. apply andb_true_iff in H as [H1 H2]. cbn [app skip_spaces]. rewrite H1. auto.
Qed.
Lemma skip_spaces_nonspace c rest : is_space c = false -> skip_spaces (c :: rest) = c :: rest.
Proof. intro H. cbn [skip_spaces]. rewrite H. reflexivity. Qed.
Lemma spaces1_app ws c rest : ws <> [] -> forallb is_space ws = true -> is_space c = false ->
  spaces1 (ws ++ c :: rest) = Some (c :: rest).
Proof.
  intros Hne Hs Hc. destruct ws as [|w ws]; [congruence|].
  cbn [forallb] in Hs. apply andb_true_iff in Hs as [H1 H2].
  cbn [app spaces1]. rewrite H1. rewrite skip_spaces_app by auto. rewrite skip_spaces_nonspace; auto.
Qed.

Definition timing_text (bh bm bs bms ws1 ws2 eh em es ems tail : text) : text :=
  clock_text bh bm bs bms ++ ws1 ++ [45;45;62] ++ ws2 ++ clock_text eh em es ems ++ tail.

Lemma hd_digit h m s ms rest : clock_digits h m s ms ->
  exists c r, clock_text h m s ms ++ rest = c :: r /\ is_digit c = true.
Proof.
  intros [Hh Hhd _ _ _ _ _ _]. destruct h as [|c h]; [destruct Hh; discriminate|].
  exists c. eexists. split; [reflexivity|]. cbn [forallb] in Hhd. apply andb_true_iff in Hhd. tauto.
Qed.

Lemma match_tc_at_spec bh bm bs bms ws1 ws2 eh em es ems tail :
  clock_digits bh bm bs bms -> clock_digits eh em es ems ->
  ws1 <> [] -> forallb is_space ws1 = true -> ws2 <> [] -> forallb is_space ws2 = true ->
  match_tc_at (timing_text bh bm bs bms ws1 ws2 eh em es ems tail) = Some (mkTcm bh bm bs bms eh em es ems).
Proof.
  intros Hb He Hw1 Hs1 Hw2 Hs2. unfold match_tc_at, timing_text.
  rewrite clock_at_spec by auto. cbn [bind].
  cbn [app]. rewrite spaces1_app by (auto; vm_compute; reflexivity). cbn [bind expect].
  rewrite !Z.eqb_refl. cbn [bind expect]. rewrite ?Z.eqb_refl. cbn [bind expect]. rewrite ?Z.eqb_refl. cbn [bind].
  destruct (hd_digit eh em es ems tail He) as (c & r & Heq & Hc).
  rewrite Heq. rewrite spaces1_app by (auto using digit_not_space). cbn [bind].
  rewrite <- Heq. rewrite clock_at_spec by auto. reflexivity.
Qed.

Lemma search_tc_spec bh bm bs bms ws1 ws2 eh em es ems tail :
  clock_digits bh bm bs bms -> clock_digits eh em es ems ->
  ws1 <> [] -> forallb is_space ws1 = true -> ws2 <> [] -> forallb is_space ws2 = true ->
  search_tc (timing_text bh bm bs bms ws1 ws2 eh em es ems tail) = Some (mkTcm bh bm bs bms eh em es ems).
Proof.
  intros. destruct (timing_text bh bm bs bms ws1 ws2 eh em es ems tail) eqn:E;
  cbn [search_tc]; rewrite <- E; rewrite match_tc_at_spec; auto.
Qed.

(* ---- the value *)
Lemma seconds_of_value h m s ms :
  seconds_of h m s ms = Qred (printed_seconds h m s ms).
Proof. unfold seconds_of, printed_seconds. rewrite !int_of_digits_value. reflexivity. Qed.

Lemma seconds_of_eq h m s ms :
  Qeq (seconds_of h m s ms) (printed_seconds h m s ms).
Proof. rewrite seconds_of_value. apply Qred_correct. Qed.

(* C10_exact_time: for every timing line made of digit strings of the pattern's widths (two or three
   hour digits), whatever the digits, the white space around the arrow and the rest of the line, the
   reader's begin and end are h*3600 + m*60 + s + ms/1000 of the printed digits - as rationals in lowest
   terms (structural equality with Qred of the specification's value), hence equal as rationals. *)
Theorem exact_time bh bm bs bms ws1 ws2 eh em es ems tail :
  clock_digits bh bm bs bms -> clock_digits eh em es ems ->
  ws1 <> [] -> forallb is_space ws1 = true -> ws2 <> [] -> forallb is_space ws2 = true ->
  exists g, search_tc (timing_text bh bm bs bms ws1 ws2 eh em es ems tail) = Some g /\
    seconds_of (g_bh g) (g_bm g) (g_bs g) (g_bms g) = Qred (printed_seconds bh bm bs bms) /\
    seconds_of (g_eh g) (g_em g) (g_es g) (g_ems g) = Qred (printed_seconds eh em es ems) /\
    Qeq (seconds_of (g_bh g) (g_bm g) (g_bs g) (g_bms g)) (printed_seconds bh bm bs bms) /\
    Qeq (seconds_of (g_eh g) (g_em g) (g_es g) (g_ems g)) (printed_seconds eh em es ems).
Proof.
  intros. eexists. split; [apply search_tc_spec; auto|]. cbn [g_bh g_bm g_bs g_bms g_eh g_em g_es g_ems].
  repeat split; auto using seconds_of_value, seconds_of_eq.
Qed.

(* ---- printed clocks of the abstract syntax *)
Lemma is_digit_dig n : 0 <= n <= 9 -> is_digit (dig n) = true.
Proof. unfold is_digit, dig. lia. Qed.

Lemma pad2_digits n : 0 <= n <= 99 -> forallb is_digit (pad2 n) = true /\ length (pad2 n) = 2%nat /\ dec_value (pad2 n) = n.
Proof.
  intro H. unfold pad2. cbn [forallb length dec_value]. rewrite !is_digit_dig by lia.
  repeat split. unfold dig. change (Z.of_nat 1) with 1. change (Z.of_nat 0) with 0. lia.
Qed.
Lemma pad3_digits n : 0 <= n <= 999 -> forallb is_digit (pad3 n) = true /\ length (pad3 n) = 3%nat /\ dec_value (pad3 n) = n.
Proof.
  intro H. unfold pad3. cbn [forallb length dec_value]. rewrite !is_digit_dig by lia.
  repeat split. unfold dig. change (Z.of_nat 2) with 2. change (Z.of_nat 1) with 1. change (Z.of_nat 0) with 0. lia.
Qed.

Definition hours_text (k : clock) : text := if k_wide k then pad3 (k_h k) else pad2 (k_h k).

Lemma wf_clock_bounds k : wf_clock k = true ->
  0 <= k_h k /\ (if k_wide k then k_h k <= 999 else k_h k <= 99) /\ 0 <= k_m k <= 99 /\ 0 <= k_s k <= 99 /\ 0 <= k_ms k <= 999.
Proof. unfold wf_clock. destruct (k_wide k); lia. Qed.

Lemma print_clock_text k : print_clock k = clock_text (hours_text k) (pad2 (k_m k)) (pad2 (k_s k)) (pad3 (k_ms k)).
Proof. reflexivity. Qed.

Lemma hours_digits k : wf_clock k = true ->
  forallb is_digit (hours_text k) = true /\ (length (hours_text k) = 2 \/ length (hours_text k) = 3)%nat /\ dec_value (hours_text k) = k_h k.
Proof.
  intro H. apply wf_clock_bounds in H. unfold hours_text. destruct (k_wide k).
  - destruct (pad3_digits (k_h k)) as (a & b & c); [lia|]. auto.
  - destruct (pad2_digits (k_h k)) as (a & b & c); [lia|]. auto.
Qed.

Lemma clock_digits_print k : wf_clock k = true ->
  clock_digits (hours_text k) (pad2 (k_m k)) (pad2 (k_s k)) (pad3 (k_ms k)).
Proof.
  intro H. pose proof (hours_digits k H) as (a & b & _). apply wf_clock_bounds in H.
  destruct (pad2_digits (k_m k)) as (a1 & b1 & _); [lia|].
  destruct (pad2_digits (k_s k)) as (a2 & b2 & _); [lia|].
  destruct (pad3_digits (k_ms k)) as (a3 & b3 & _); [lia|].
  constructor; auto.
Qed.

Lemma clock_value k : wf_clock k = true ->
  seconds_of (hours_text k) (pad2 (k_m k)) (pad2 (k_s k)) (pad3 (k_ms k)) = clock_seconds k.
Proof.
  intro H. rewrite seconds_of_value. unfold printed_seconds, clock_seconds.
  pose proof (hours_digits k H) as (_ & _ & vh). apply wf_clock_bounds in H.
  destruct (pad2_digits (k_m k)) as (_ & _ & vm); [lia|].
  destruct (pad2_digits (k_s k)) as (_ & _ & vs); [lia|].
  destruct (pad3_digits (k_ms k)) as (_ & _ & vms); [lia|].
  rewrite vh, vm, vs, vms. apply Qred_complete.
  unfold Qeq, Qplus, inject_Z. cbn [Qnum Qden]. lia.
Qed.

(* ---- "conversion to frame-based outputs lands on the intended frame": the time read is the exact rational, so a time
   that is a whole number of frames at an integer or rational frame rate fn/fd multiplies out to exactly that number *)
Definition total_ms (k : clock) : Z := (k_h k * 3600 + k_m k * 60 + k_s k) * 1000 + k_ms k.
Theorem frames_exact k (fn : Z) (fd : positive) n : total_ms k * fn = n * 1000 * Zpos fd ->
  Qeq (Qmult (clock_seconds k) (Qmake fn fd)) (inject_Z n).
Proof.
  intro H. unfold clock_seconds. fold (total_ms k). rewrite Qred_correct.
  unfold Qeq, Qmult, inject_Z. cbn [Qnum Qden]. rewrite Pos2Z.inj_mul. lia.
Qed.
(* the whole path for one timing line of the grammar: the digits printed for two clocks are read back as the clocks'
   values, for every clock of the grammar (hours 00-99 or 000-999, minutes and seconds 00-99, milliseconds 000-999) *)
Theorem exact_time_grammar k1 k2 ws1 ws2 tail : wf_clock k1 = true -> wf_clock k2 = true ->
  ws1 <> [] -> forallb is_space ws1 = true -> ws2 <> [] -> forallb is_space ws2 = true ->
  exists g, search_tc (print_clock k1 ++ ws1 ++ [45;45;62] ++ ws2 ++ print_clock k2 ++ tail) = Some g /\
    seconds_of (g_bh g) (g_bm g) (g_bs g) (g_bms g) = clock_seconds k1 /\
    seconds_of (g_eh g) (g_em g) (g_es g) (g_ems g) = clock_seconds k2 /\
    Qeq (clock_seconds k1) (Qmake (total_ms k1) 1000) /\ Qeq (clock_seconds k2) (Qmake (total_ms k2) 1000).
Proof.
  intros W1 W2 N1 S1 N2 S2. rewrite !print_clock_text.
  eexists. split; [apply (search_tc_spec _ _ _ _ ws1 ws2 _ _ _ _ tail); auto using clock_digits_print|].
  cbn [g_bh g_bm g_bs g_bms g_eh g_em g_es g_ems]. rewrite !clock_value by auto.
  repeat split; unfold clock_seconds; apply Qred_correct.
Qed.
