(* C11: the cue-text tokenizer inverts the token printer, for ALL token lists in normal form.
   print_tokens is the WebVTT cue-text syntax of a token list: text with & < > escaped, <tag.class… annotation>,
   </tag>, <timestamp>.  Normal form = what the syntax can express uniquely: non-empty strings, no two adjacent
   strings, tag names / classes / annotations free of their delimiters, annotations white-space-normalised
   and free of `&` (recorded finding annotation-charref-alias). *)
From TT Require Import Base.Prelude Gen.VttTables Model.VttTokenizer Spec.VttSpec.

Definition print_classes (cs : list text) : text := flat_map (fun c => 46 :: c) cs.
Definition print_token (t : token) : text :=
  match t with
  | TString v => escape v
  | TStart tag cls an =>
    [60] ++ tag ++ match cls with Some cs => print_classes cs | None => [] end ++
    match an with Some a => 32 :: a | None => [] end ++ [62]
  | TEnd tag => [60; 47] ++ tag ++ [62]
  | TTs ts => [60] ++ ts ++ [62]
  end.
Definition print_tokens (ts : list token) : text := flat_map print_token ts.

(* ---- normal form *)
Definition name_char (c : Z) : Prop := c <> 9 /\ c <> 10 /\ c <> 12 /\ c <> 32 /\ c <> 46 /\ c <> 62.
Definition first_char (c : Z) : Prop := name_char c /\ c <> 47 /\ is_digit c = false.
Definition annot_char (c : Z) : Prop := c <> 38 /\ c <> 62.
Definition class_ok (c : text) : Prop := Forall name_char c.

Definition nf_token (t : token) : Prop :=
  match t with
  | TString v => v <> []
  | TStart tag cls an =>
    (exists c r, tag = c :: r /\ first_char c /\ Forall name_char r) /\
    match cls, an with
    | None, None => True
    | Some cs, None => cs <> [] /\ Forall class_ok cs
    | Some cs, Some a => Forall class_ok cs /\ Forall annot_char a /\ norm_annot a = a
    | None, Some _ => False
    end
  | TEnd tag => Forall (fun c => c <> 62) tag
  | TTs ts => exists d r, ts = d :: r /\ is_digit d = true /\ Forall (fun c => c <> 62) r
  end.
Definition is_string (t : token) : bool := match t with TString _ => true | _ => false end.
Fixpoint nf_list (ts : list token) : Prop :=
  match ts with
  | [] => True
  | t :: ts' => nf_token t /\ nf_list ts' /\
                match ts' with t' :: _ => is_string t && is_string t' = false | [] => True end
  end.

(* ---- accumulation lemmas, one per scanner state *)
Definition lt_or_nil (s : text) : Prop := s = [] \/ exists r, s = 60 :: r.

Lemma unescape_amp : unescape [38;97;109;112] = [38]. Proof. vm_compute. reflexivity. Qed.
Lemma unescape_lt : unescape [38;108;116] = [60]. Proof. vm_compute. reflexivity. Qed.
Lemma unescape_gt : unescape [38;103;116] = [62]. Proof. vm_compute. reflexivity. Qed.

Lemma app_cons_assoc {A} (l : list A) (x : A) (r : list A) : (l ++ [x]) ++ r = l ++ x :: r.
Proof. rewrite <- app_assoc. reflexivity. Qed.

Lemma scan_data_end res buf cls rest :
  lt_or_nil rest -> res <> [] -> scan SData res buf cls rest = (TString res, rest).
Proof.
  intros [->|[r ->]] Hne.
  - reflexivity.
  - cbn. destruct res; [congruence|reflexivity].
Qed.

Lemma scan_data_escape : forall v res buf cls rest,
  lt_or_nil rest -> res ++ v <> [] ->
  scan SData res buf cls (escape v ++ rest) = (TString (res ++ v), rest).
Proof.
  induction v as [|c v IH]; intros res buf cls rest Hr Hne.
  - cbn [escape flat_map app]. rewrite app_nil_r in *. apply scan_data_end; assumption.
  - assert (Hne' : (res ++ [c]) ++ v <> []) by (rewrite app_cons_assoc; exact Hne).
    unfold escape. cbn [flat_map]. fold (escape v). unfold escape_char.
    destruct (c =? 38) eqn:E38.
    + apply Z.eqb_eq in E38. subst c. cbn [app scan Z.eqb Pos.eqb].
      rewrite unescape_amp. cbn [text_eqb Z.eqb Pos.eqb andb].
      rewrite IH by assumption. rewrite app_cons_assoc. reflexivity.
    + destruct (c =? 60) eqn:E60.
      * apply Z.eqb_eq in E60. subst c. cbn [app scan Z.eqb Pos.eqb].
        rewrite unescape_lt. cbn [text_eqb Z.eqb Pos.eqb andb].
        rewrite IH by assumption. rewrite app_cons_assoc. reflexivity.
      * destruct (c =? 62) eqn:E62.
        -- apply Z.eqb_eq in E62. subst c. cbn [app scan Z.eqb Pos.eqb].
           rewrite unescape_gt. cbn [text_eqb Z.eqb Pos.eqb andb].
           rewrite IH by assumption. rewrite app_cons_assoc. reflexivity.
        -- cbn [app scan]. rewrite E38, E60.
           rewrite IH by assumption. rewrite app_cons_assoc. reflexivity.
Qed.

Lemma name_char_tests c : name_char c ->
  tag_ws c = false /\ (c =? 10) = false /\ (c =? 46) = false /\ (c =? 62) = false.
Proof. unfold name_char, tag_ws. intros. repeat split; lia. Qed.

Lemma scan_start_acc : forall t res buf cls rest, Forall name_char t ->
  scan SStart res buf cls (t ++ rest) = scan SStart (res ++ t) buf cls rest.
Proof.
  induction t as [|c t IH]; intros res buf cls rest H.
  - rewrite app_nil_r. reflexivity.
  - inversion H as [|? ? Hc Ht]; subst. destruct (name_char_tests c Hc) as (A & B & D & E).
    cbn [app scan]. rewrite A, B, D, E. rewrite IH by assumption. rewrite app_cons_assoc. reflexivity.
Qed.
Lemma scan_class_acc : forall t res buf cls rest, Forall name_char t ->
  scan SClass res buf cls (t ++ rest) = scan SClass res (buf ++ t) cls rest.
Proof.
  induction t as [|c t IH]; intros res buf cls rest H.
  - rewrite app_nil_r. reflexivity.
  - inversion H as [|? ? Hc Ht]; subst. destruct (name_char_tests c Hc) as (A & B & D & E).
    cbn [app scan]. rewrite A, B, D, E. rewrite IH by assumption. rewrite app_cons_assoc. reflexivity.
Qed.
Lemma scan_annot_acc : forall t res buf cls rest, Forall annot_char t ->
  scan SAnnot res buf cls (t ++ rest) = scan SAnnot res (buf ++ t) cls rest.
Proof.
  induction t as [|c t IH]; intros res buf cls rest H.
  - rewrite app_nil_r. reflexivity.
  - inversion H as [|? ? [Hc1 Hc2] Ht]; subst.
    cbn [app scan]. replace (c =? 38) with false by lia. replace (c =? 62) with false by lia.
    rewrite IH by assumption. rewrite app_cons_assoc. reflexivity.
Qed.
Lemma scan_end_acc : forall t res buf cls rest, Forall (fun c => c <> 62) t ->
  scan SEnd res buf cls (t ++ rest) = scan SEnd (res ++ t) buf cls rest.
Proof.
  induction t as [|c t IH]; intros res buf cls rest H.
  - rewrite app_nil_r. reflexivity.
  - inversion H as [|? ? Hc Ht]; subst.
    cbn [app scan]. replace (c =? 62) with false by lia.
    rewrite IH by assumption. rewrite app_cons_assoc. reflexivity.
Qed.
Lemma scan_ts_acc : forall t res buf cls rest, Forall (fun c => c <> 62) t ->
  scan STs res buf cls (t ++ rest) = scan STs (res ++ t) buf cls rest.
Proof.
  induction t as [|c t IH]; intros res buf cls rest H.
  - rewrite app_nil_r. reflexivity.
  - inversion H as [|? ? Hc Ht]; subst.
    cbn [app scan]. replace (c =? 62) with false by lia.
    rewrite IH by assumption. rewrite app_cons_assoc. reflexivity.
Qed.

(* the class list: we are in SClass just after a '.', with `done` classes collected *)
Lemma scan_classes_close : forall cs c res done rest, Forall class_ok (c :: cs) ->
  scan SClass res [] done (c ++ print_classes cs ++ 62 :: rest)
  = (TStart res (Some (done ++ c :: cs)) None, rest).
Proof.
  induction cs as [|c' cs IH]; intros c res done rest H; inversion H as [|? ? Hc Hcs]; subst.
  - cbn [print_classes flat_map app]. rewrite scan_class_acc by assumption. cbn. reflexivity.
  - cbn [print_classes flat_map app]. fold (print_classes cs).
    rewrite scan_class_acc by assumption. cbn [app scan tag_ws Z.eqb Pos.eqb orb].
    rewrite <- app_assoc. rewrite IH by assumption. rewrite <- app_assoc. reflexivity.
Qed.
Lemma scan_classes_annot : forall cs c res done a rest, Forall class_ok (c :: cs) -> Forall annot_char a ->
  scan SClass res [] done (c ++ print_classes cs ++ 32 :: a ++ 62 :: rest)
  = (TStart res (Some (done ++ c :: cs)) (Some (norm_annot a)), rest).
Proof.
  induction cs as [|c' cs IH]; intros c res done a rest H Ha; inversion H as [|? ? Hc Hcs]; subst.
  - cbn [print_classes flat_map app]. rewrite scan_class_acc by assumption.
    cbn [app scan tag_ws Z.eqb Pos.eqb orb].
    rewrite scan_annot_acc by assumption. cbn. reflexivity.
  - cbn [print_classes flat_map app]. fold (print_classes cs).
    rewrite scan_class_acc by assumption. cbn [app scan tag_ws Z.eqb Pos.eqb orb].
    rewrite <- app_assoc. rewrite IH by assumption. rewrite <- app_assoc. reflexivity.
Qed.

(* one token *)
Lemma scan_token : forall t rest, nf_token t ->
  (is_string t = true -> lt_or_nil rest) ->
  scan SData [] [] [] (print_token t ++ rest) = (t, rest).
Proof.
  intros [v|tag cls an|tag|ts] rest Hnf Hrest.
  - (* string *)
    cbn [print_token]. rewrite scan_data_escape; [reflexivity|apply Hrest; reflexivity|exact Hnf].
  - (* start tag *)
    destruct Hnf as [(c & r & -> & (Hn & H47 & Hd) & Hr) Hca].
    destruct (name_char_tests c Hn) as (A & B & D & E).
    cbn [print_token app]. cbn [scan Z.eqb Pos.eqb is_nil].
    rewrite A, B, D, Hd, E. replace (c =? 47) with false by lia. cbn [orb].
    rewrite <- !app_assoc.
    rewrite scan_start_acc by assumption. cbn [app].
    destruct cls as [cs|], an as [a|]; try contradiction.
    + destruct Hca as (Hcs & Ha & Hnorm).
      destruct cs as [|c1 cs].
      * cbn [print_classes flat_map app scan tag_ws Z.eqb Pos.eqb orb].
        rewrite scan_annot_acc by assumption. cbn [app scan Z.eqb Pos.eqb]. rewrite Hnorm. reflexivity.
      * cbn [print_classes flat_map app]. fold (print_classes cs). cbn [scan tag_ws Z.eqb Pos.eqb orb].
        rewrite <- !app_assoc. cbn [app].
        rewrite scan_classes_annot by assumption. rewrite Hnorm. reflexivity.
    + destruct Hca as (Hne & Hcs). destruct cs as [|c1 cs]; [congruence|].
      cbn [print_classes flat_map app]. fold (print_classes cs). cbn [scan tag_ws Z.eqb Pos.eqb orb].
      rewrite <- !app_assoc. cbn [app].
      rewrite scan_classes_close by assumption. reflexivity.
    + cbn. reflexivity.
  - (* end tag *)
    cbn [print_token app scan Z.eqb Pos.eqb is_nil tag_ws orb is_digit Z.leb Z.compare Pos.compare Pos.compare_cont andb].
    rewrite <- app_assoc. rewrite scan_end_acc by exact Hnf. cbn. reflexivity.
  - (* timestamp *)
    destruct Hnf as (d & r & -> & Hd & Hr).
    assert (Hd' := Hd). unfold is_digit in Hd'.
    cbn [print_token app]. cbn [scan Z.eqb Pos.eqb is_nil].
    replace (tag_ws d) with false by (unfold tag_ws; lia).
    replace (d =? 10) with false by lia. replace (d =? 46) with false by lia. replace (d =? 47) with false by lia.
    rewrite Hd. cbn [orb]. rewrite <- app_assoc. rewrite scan_ts_acc by assumption. cbn. reflexivity.
Qed.

Lemma print_token_nonempty t : nf_token t -> exists c r, print_token t = c :: r.
Proof.
  destruct t as [v| | |]; cbn [print_token]; intros H; try (eexists; eexists; reflexivity).
  destruct v as [|c v]; [congruence|]. unfold escape. cbn [flat_map]. unfold escape_char.
  destruct (c =? 38); [|destruct (c =? 60); [|destruct (c =? 62)]]; eexists; eexists; reflexivity.
Qed.

Lemma print_tokens_head ts : nf_list ts ->
  match ts with t :: _ => is_string t = false -> lt_or_nil (print_tokens ts) | [] => True end.
Proof.
  destruct ts as [|t ts]; [trivial|]. intros _ Hs. right.
  destruct t; try discriminate; cbn; eexists; reflexivity.
Qed.

Lemma tok_loop_print : forall ts n, nf_list ts -> (length (print_tokens ts) <= n)%nat ->
  tok_loop n (print_tokens ts) = ts.
Proof.
  induction ts as [|t ts IH]; intros n Hnf Hlen.
  - destruct n; reflexivity.
  - destruct Hnf as (Ht & Hts & Hadj).
    cbn [print_tokens flat_map] in *. fold (print_tokens ts) in *.
    destruct (print_token_nonempty t Ht) as (c & r & Hp).
    destruct n as [|n].
    + rewrite Hp in Hlen. cbn in Hlen. lia.
    + cbn [tok_loop].
      destruct (print_token t ++ print_tokens ts) as [|z l] eqn:E.
      { rewrite Hp in E. discriminate. }
      rewrite <- E. rewrite scan_token; [| exact Ht |].
      * f_equal. apply IH; [exact Hts|].
        assert (Hl : (length (print_token t ++ print_tokens ts) <= S n)%nat) by (rewrite E; exact Hlen).
        rewrite app_length, Hp in Hl. cbn in Hl. lia.
      * intros Hs. destruct ts as [|t' ts'].
        -- left. reflexivity.
        -- rewrite Hs in Hadj. cbn in Hadj.
           apply (print_tokens_head (t' :: ts') Hts). exact Hadj.
Qed.

Theorem tokenizer_roundtrip : forall ts, nf_list ts -> tokenize (print_tokens ts) = ts.
Proof. intros ts H. unfold tokenize. apply tok_loop_print; [exact H|lia]. Qed.

(* non-vacuity: a normal-form list with every token kind *)
Example nf_example :
  nf_list [TString [97;38;60]; TStart [99] (Some [[114;101;100];[98;103;95;98;108;117;101]]) None; TString [120];
           TEnd [99]; TStart [118] (Some []) (Some [84;111;109;32;74]); TTs [48;48;58;48;49;46;48;48;48]; TEnd []].
Proof.
  cbn. unfold first_char, name_char, annot_char, class_ok.
  repeat (split || (eexists; eexists; split; [reflexivity|]) || constructor || lia || discriminate || reflexivity || vm_compute).
Qed.
