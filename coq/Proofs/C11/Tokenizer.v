(* C11: the cue-text tokenizer inverts the token printer, for ALL token lists in normal form.
   print_tokens is the WebVTT cue-text syntax of a token list: text with & < > escaped, <tag.class… annotation>,
   </tag>, <timestamp>.  Normal form = what the syntax can express uniquely: non-empty strings, no two adjacent
   strings, tag names / classes free of their delimiters, annotations white-space-normalised (any characters:
   `&`, `<` and `>` are printed as character references, which the annotation state decodes since 541c2c8). *)
From TT Require Import Base.Prelude Gen.VttTables Model.VttTokenizer Spec.VttSpec.

Definition print_classes (cs : list text) : text := flat_map (fun c => 46 :: c) cs.
Definition print_token (t : token) : text :=
  match t with
  | TString v => escape v
  | TStart tag cls an =>
    [60] ++ tag ++ match cls with Some cs => print_classes cs | None => [] end ++
    match an with Some a => 32 :: escape a | None => [] end ++ [62]
  | TEnd tag => [60; 47] ++ tag ++ [62]
  | TTs ts => [60] ++ ts ++ [62]
  end.
Definition print_tokens (ts : list token) : text := flat_map print_token ts.

(* ---- normal form *)
Definition name_char (c : Z) : Prop := c <> 9 /\ c <> 10 /\ c <> 12 /\ c <> 32 /\ c <> 46 /\ c <> 62.
Definition first_char (c : Z) : Prop := name_char c /\ c <> 47 /\ is_digit c = false.
Definition class_ok (c : text) : Prop := Forall name_char c.

Definition nf_token (t : token) : Prop :=
  match t with
  | TString v => v <> []
  | TStart tag cls an =>
    (exists c r, tag = c :: r /\ first_char c /\ Forall name_char r) /\
    match cls, an with
    | None, None => True
    | Some cs, None => cs <> [] /\ Forall class_ok cs
    | Some cs, Some a => Forall class_ok cs /\ norm_annot a = a
    | None, Some _ => False
    end
  | TEnd tag => Forall (fun c => c <> 62) tag
  | TTs ts => exists d r, ts = d :: r /\ is_digit d = true /\ Forall (fun c => c <> 62) r
  end.
Definition is_string (t : token) : bool := match t with TString _ => true | _ => false end.
Fixpoint nf_list (ts : list token) : Prop :=
  match ts with
  | [] => True
  | t :: ts' => nf_token t /\ nf_list ts' /\
                match ts' with t' :: _ => is_string t && is_string t' = false | [] => True end
  end.

(* ---- accumulation lemmas, one per scanner state *)
Definition lt_or_nil (s : text) : Prop := s = [] \/ exists r, s = 60 :: r.

Lemma unescape_amp : unescape [38;97;109;112;59] = [38]. Proof. vm_compute. reflexivity. Qed.
Lemma unescape_lt : unescape [38;108;116;59] = [60]. Proof. vm_compute. reflexivity. Qed.
Lemma unescape_gt : unescape [38;103;116;59] = [62]. Proof. vm_compute. reflexivity. Qed.

Lemma app_cons_assoc {A} (l : list A) (x : A) (r : list A) : (l ++ [x]) ++ r = l ++ x :: r.
Proof. rewrite <- app_assoc. reflexivity. Qed.

Lemma scan_data_end res buf cls rest :
  lt_or_nil rest -> res <> [] -> scan SData res buf cls rest = (TString res, rest).
Proof.
  intros [->|[r ->]] Hne.
  - reflexivity.
  - cbn. destruct res; [congruence|reflexivity].
Qed.

Lemma scan_data_escape : forall v res buf cls rest,
  lt_or_nil rest -> res ++ v <> [] ->
  scan SData res buf cls (escape v ++ rest) = (TString (res ++ v), rest).
Proof.
  induction v as [|c v IH]; intros res buf cls rest Hr Hne.
  - cbn [escape flat_map app]. rewrite app_nil_r in *. apply scan_data_end; assumption.
  - assert (Hne' : (res ++ [c]) ++ v <> []) by (rewrite app_cons_assoc; exact Hne).
    unfold escape. cbn [flat_map]. fold (escape v). unfold escape_char.
    destruct (c =? 38) eqn:E38.
    + apply Z.eqb_eq in E38. subst c. cbn [app scan Z.eqb Pos.eqb].
      rewrite unescape_amp.
      rewrite IH by assumption. rewrite app_cons_assoc. reflexivity.
    + destruct (c =? 60) eqn:E60.
      * apply Z.eqb_eq in E60. subst c. cbn [app scan Z.eqb Pos.eqb].
        rewrite unescape_lt.
        rewrite IH by assumption. rewrite app_cons_assoc. reflexivity.
      * destruct (c =? 62) eqn:E62.
        -- apply Z.eqb_eq in E62. subst c. cbn [app scan Z.eqb Pos.eqb].
           rewrite unescape_gt.
           rewrite IH by assumption. rewrite app_cons_assoc. reflexivity.
        -- cbn [app scan]. rewrite E38, E60.
           rewrite IH by assumption. rewrite app_cons_assoc. reflexivity.
Qed.

Lemma name_char_tests c : name_char c ->
  tag_ws c = false /\ (c =? 10) = false /\ (c =? 46) = false /\ (c =? 62) = false.
Proof. unfold name_char, tag_ws. intros. repeat split; lia. Qed.

Lemma scan_start_acc : forall t res buf cls rest, Forall name_char t ->
  scan SStart res buf cls (t ++ rest) = scan SStart (res ++ t) buf cls rest.
Proof.
  induction t as [|c t IH]; intros res buf cls rest H.
  - rewrite app_nil_r. reflexivity.
  - inversion H as [|? ? Hc Ht]; subst. destruct (name_char_tests c Hc) as (A & B & D & E).
    cbn [app scan]. rewrite A, B, D, E. rewrite IH by assumption. rewrite app_cons_assoc. reflexivity.
Qed.
Lemma scan_class_acc : forall t res buf cls rest, Forall name_char t ->
  scan SClass res buf cls (t ++ rest) = scan SClass res (buf ++ t) cls rest.
Proof.
  induction t as [|c t IH]; intros res buf cls rest H.
  - rewrite app_nil_r. reflexivity.
  - inversion H as [|? ? Hc Ht]; subst. destruct (name_char_tests c Hc) as (A & B & D & E).
    cbn [app scan]. rewrite A, B, D, E. rewrite IH by assumption. rewrite app_cons_assoc. reflexivity.
Qed.
(* the annotation state on an escaped annotation: every `&`, `<`, `>` comes back through annot_cref *)
Lemma scan_annot_escape : forall a res buf cls rest,
  scan SAnnot res buf cls (escape a ++ 62 :: rest) = (TStart res (Some cls) (Some (norm_annot (buf ++ a))), rest).
Proof.
  induction a as [|c a IH]; intros res buf cls rest.
  - cbn. rewrite app_nil_r. reflexivity.
  - unfold escape. cbn [flat_map]. fold (escape a). unfold escape_char.
    destruct (c =? 38) eqn:E38.
    + apply Z.eqb_eq in E38. subst c. cbn [app scan Z.eqb Pos.eqb].
      rewrite unescape_amp. rewrite IH. rewrite app_cons_assoc. reflexivity.
    + destruct (c =? 60) eqn:E60.
      * apply Z.eqb_eq in E60. subst c. cbn [app scan Z.eqb Pos.eqb].
        rewrite unescape_lt. rewrite IH. rewrite app_cons_assoc. reflexivity.
      * destruct (c =? 62) eqn:E62.
        -- apply Z.eqb_eq in E62. subst c. cbn [app scan Z.eqb Pos.eqb].
           rewrite unescape_gt. rewrite IH. rewrite app_cons_assoc. reflexivity.
        -- cbn [app scan]. rewrite E38, E62. rewrite IH. rewrite app_cons_assoc. reflexivity.
Qed.
Lemma scan_end_acc : forall t res buf cls rest, Forall (fun c => c <> 62) t ->
  scan SEnd res buf cls (t ++ rest) = scan SEnd (res ++ t) buf cls rest.
Proof.
  induction t as [|c t IH]; intros res buf cls rest H.
  - rewrite app_nil_r. reflexivity.
  - inversion H as [|? ? Hc Ht]; subst.
    cbn [app scan]. replace (c =? 62) with false by lia.
    rewrite IH by assumption. rewrite app_cons_assoc. reflexivity.
Qed.
Lemma scan_ts_acc : forall t res buf cls rest, Forall (fun c => c <> 62) t ->
  scan STs res buf cls (t ++ rest) = scan STs (res ++ t) buf cls rest.
Proof.
  induction t as [|c t IH]; intros res buf cls rest H.
  - rewrite app_nil_r. reflexivity.
  - inversion H as [|? ? Hc Ht]; subst.
    cbn [app scan]. replace (c =? 62) with false by lia.
    rewrite IH by assumption. rewrite app_cons_assoc. reflexivity.
Qed.

(* the class list: we are in SClass just after a '.', with `done` classes collected *)
Lemma scan_classes_close : forall cs c res done rest, Forall class_ok (c :: cs) ->
  scan SClass res [] done (c ++ print_classes cs ++ 62 :: rest)
  = (TStart res (Some (done ++ c :: cs)) None, rest).
Proof.
  induction cs as [|c' cs IH]; intros c res done rest H; inversion H as [|? ? Hc Hcs]; subst.
  - cbn [print_classes flat_map app]. rewrite scan_class_acc by assumption. cbn. reflexivity.
  - cbn [print_classes flat_map app]. fold (print_classes cs).
    rewrite scan_class_acc by assumption. cbn [app scan tag_ws Z.eqb Pos.eqb orb].
    rewrite <- app_assoc. rewrite IH by assumption. rewrite <- app_assoc. reflexivity.
Qed.
Lemma scan_classes_annot : forall cs c res done a rest, Forall class_ok (c :: cs) ->
  scan SClass res [] done (c ++ print_classes cs ++ 32 :: escape a ++ 62 :: rest)
  = (TStart res (Some (done ++ c :: cs)) (Some (norm_annot a)), rest).
Proof.
  induction cs as [|c' cs IH]; intros c res done a rest H; inversion H as [|? ? Hc Hcs]; subst.
  - cbn [print_classes flat_map app]. rewrite scan_class_acc by assumption.
    cbn [app scan tag_ws Z.eqb Pos.eqb orb].
    rewrite scan_annot_escape. reflexivity.
  - cbn [print_classes flat_map app]. fold (print_classes cs).
    rewrite scan_class_acc by assumption. cbn [app scan tag_ws Z.eqb Pos.eqb orb].
    rewrite <- app_assoc. rewrite IH by assumption. rewrite <- app_assoc. reflexivity.
Qed.

(* one token *)
Lemma scan_token : forall t rest, nf_token t ->
  (is_string t = true -> lt_or_nil rest) ->
  scan SData [] [] [] (print_token t ++ rest) = (t, rest).
Proof.
  intros [v|tag cls an|tag|ts] rest Hnf Hrest.
  - (* string *)
    cbn [print_token]. rewrite scan_data_escape; [reflexivity|apply Hrest; reflexivity|exact Hnf].
  - (* start tag *)
    destruct Hnf as [(c & r & -> & (Hn & H47 & Hd) & Hr) Hca].
    destruct (name_char_tests c Hn) as (A & B & D & E).
    cbn [print_token app]. cbn [scan Z.eqb Pos.eqb is_nil].
    rewrite A, B, D, Hd, E. replace (c =? 47) with false by lia. cbn [orb].
    rewrite <- !app_assoc.
    rewrite scan_start_acc by assumption. cbn [app].
    destruct cls as [cs|], an as [a|]; try contradiction.
    + destruct Hca as (Hcs & Hnorm).
      destruct cs as [|c1 cs].
      * cbn [print_classes flat_map app scan tag_ws Z.eqb Pos.eqb orb].
        rewrite scan_annot_escape. cbn [app]. rewrite Hnorm. reflexivity.
      * cbn [print_classes flat_map app]. fold (print_classes cs). cbn [scan tag_ws Z.eqb Pos.eqb orb].
        rewrite <- !app_assoc. cbn [app].
        rewrite scan_classes_annot by assumption. rewrite Hnorm. reflexivity.
    + destruct Hca as (Hne & Hcs). destruct cs as [|c1 cs]; [congruence|].
      cbn [print_classes flat_map app]. fold (print_classes cs). cbn [scan tag_ws Z.eqb Pos.eqb orb].
      rewrite <- !app_assoc. cbn [app].
      rewrite scan_classes_close by assumption. reflexivity.
    + cbn. reflexivity.
  - (* end tag *)
    cbn [print_token app scan Z.eqb Pos.eqb is_nil tag_ws orb is_digit Z.leb Z.compare Pos.compare Pos.compare_cont andb].
    rewrite <- app_assoc. rewrite scan_end_acc by exact Hnf. cbn. reflexivity.
  - (* timestamp *)
    destruct Hnf as (d & r & -> & Hd & Hr).
    assert (Hd' := Hd). unfold is_digit in Hd'.
    cbn [print_token app]. cbn [scan Z.eqb Pos.eqb is_nil].
    replace (tag_ws d) with false by (unfold tag_ws; lia).
    replace (d =? 10) with false by lia. replace (d =? 46) with false by lia. replace (d =? 47) with false by lia.
    rewrite Hd. cbn [orb]. rewrite <- app_assoc. rewrite scan_ts_acc by assumption. cbn. reflexivity.
Qed.

Lemma print_token_nonempty t : nf_token t -> exists c r, print_token t = c :: r.
Proof.
  destruct t as [v| | |]; cbn [print_token]; intros H; try (eexists; eexists; reflexivity).
  destruct v as [|c v]; [congruence|]. unfold escape. cbn [flat_map]. unfold escape_char.
  destruct (c =? 38); [|destruct (c =? 60); [|destruct (c =? 62)]]; eexists; eexists; reflexivity.
Qed.

Lemma print_tokens_head ts : nf_list ts ->
  match ts with t :: _ => is_string t = false -> lt_or_nil (print_tokens ts) | [] => True end.
Proof.
  destruct ts as [|t ts]; [trivial|]. intros _ Hs. right.
  destruct t; try discriminate; cbn; eexists; reflexivity.
Qed.

Lemma tok_loop_print : forall ts n, nf_list ts -> (length (print_tokens ts) <= n)%nat ->
  tok_loop n (print_tokens ts) = ts.
Proof.
  induction ts as [|t ts IH]; intros n Hnf Hlen.
  - destruct n; reflexivity.
  - destruct Hnf as (Ht & Hts & Hadj).
    cbn [print_tokens flat_map] in *. fold (print_tokens ts) in *.
    destruct (print_token_nonempty t Ht) as (c & r & Hp).
    destruct n as [|n].
    + rewrite Hp in Hlen. cbn in Hlen. lia.
    + cbn [tok_loop].
      destruct (print_token t ++ print_tokens ts) as [|z l] eqn:E.
      { rewrite Hp in E. discriminate. }
      rewrite <- E. rewrite scan_token; [| exact Ht |].
      * f_equal. apply IH; [exact Hts|].
        assert (Hl : (length (print_token t ++ print_tokens ts) <= S n)%nat) by (rewrite E; exact Hlen).
        rewrite app_length, Hp in Hl. cbn in Hl. lia.
      * intros Hs. destruct ts as [|t' ts'].
        -- left. reflexivity.
        -- rewrite Hs in Hadj. cbn in Hadj.
           apply (print_tokens_head (t' :: ts') Hts). exact Hadj.
Qed.

Theorem tokenizer_roundtrip : forall ts, nf_list ts -> tokenize (print_tokens ts) = ts.
Proof. intros ts H. unfold tokenize. apply tok_loop_print; [exact H|lia]. Qed.

(* non-vacuity: a normal-form list with every token kind *)
Example nf_example :
  nf_list [TString [97;38;60]; TStart [99] (Some [[114;101;100];[98;103;95;98;108;117;101]]) None; TString [120];
           TEnd [99]; TStart [118] (Some []) (Some [84;111;109;32;38;32;74]); TTs [48;48;58;48;49;46;48;48;48]; TEnd []].
Proof.
  cbn. unfold first_char, name_char, class_ok.
  repeat (split || (eexists; eexists; split; [reflexivity|]) || constructor || lia || discriminate || reflexivity || vm_compute).
Qed.

(* ================================================================ strings spelled with character references
   A string token may be spelled with any mix of literal characters (escaped) and character references `&…;`.
   An item is such a spelled string or any other token; the tokenizer returns the string's VALUE: literal
   characters as they are, each reference as html.unescape decodes it. *)
Inductive piece := PLit (t : text) | PRef (r : cref).
Definition piece_print (p : piece) : text := match p with PLit t => escape t | PRef r => print_cref r end.
Definition piece_value (p : piece) : text := match p with PLit t => t | PRef r => unescape (print_cref r) end.
Definition pieces_print (ps : list piece) : text := flat_map piece_print ps.
Definition pieces_value (ps : list piece) : text := flat_map piece_value ps.
(* a reference is `&`, a body without `;`, and `;` *)
Definition ref_ok (r : cref) : Prop := exists body, print_cref r = 38 :: body ++ [59] /\ Forall (fun c => c <> 59) body.
Definition piece_ok (p : piece) : Prop := match p with PLit t => t <> [] | PRef r => ref_ok r end.

Inductive item := IStr (ps : list piece) | ITok (t : token).
Definition item_print (i : item) : text := match i with IStr ps => pieces_print ps | ITok t => print_token t end.
Definition item_token (i : item) : token := match i with IStr ps => TString (pieces_value ps) | ITok t => t end.
Definition items_print (l : list item) : text := flat_map item_print l.
Definition nf_item (i : item) : Prop :=
  match i with
  | IStr ps => ps <> [] /\ Forall piece_ok ps /\ pieces_value ps <> []
  | ITok t => nf_token t /\ is_string t = false
  end.
Definition is_istr (i : item) : bool := match i with IStr _ => true | ITok _ => false end.
Fixpoint nf_items (l : list item) : Prop :=
  match l with
  | [] => True
  | i :: l' => nf_item i /\ nf_items l' /\ match l' with i' :: _ => is_istr i && is_istr i' = false | [] => True end
  end.

(* the data state passes over an escaped literal / a reference, accumulating its value; `buffer` is whatever the
   last reference left in it *)
Lemma scan_data_lit : forall v res buf cls more,
  exists buf', scan SData res buf cls (escape v ++ more) = scan SData (res ++ v) buf' cls more.
Proof.
  induction v as [|c v IH]; intros res buf cls more.
  - exists buf. cbn [escape flat_map app]. rewrite app_nil_r. reflexivity.
  - unfold escape. cbn [flat_map]. fold (escape v). unfold escape_char.
    destruct (c =? 38) eqn:E38; [|destruct (c =? 60) eqn:E60; [|destruct (c =? 62) eqn:E62]].
    + apply Z.eqb_eq in E38. subst c. cbn [app scan Z.eqb Pos.eqb]. rewrite unescape_amp.
      destruct (IH (res ++ [38]) [38;97;109;112] cls more) as [b' E]. exists b'. rewrite E, app_cons_assoc. reflexivity.
    + apply Z.eqb_eq in E60. subst c. cbn [app scan Z.eqb Pos.eqb]. rewrite unescape_lt.
      destruct (IH (res ++ [60]) [38;108;116] cls more) as [b' E]. exists b'. rewrite E, app_cons_assoc. reflexivity.
    + apply Z.eqb_eq in E62. subst c. cbn [app scan Z.eqb Pos.eqb]. rewrite unescape_gt.
      destruct (IH (res ++ [62]) [38;103;116] cls more) as [b' E]. exists b'. rewrite E, app_cons_assoc. reflexivity.
    + cbn [app scan]. rewrite E38, E60.
      destruct (IH (res ++ [c]) buf cls more) as [b' E]. exists b'. rewrite E, app_cons_assoc. reflexivity.
Qed.
Lemma scan_cref_acc : forall body res buf cls more, Forall (fun c => c <> 59) body ->
  scan SCref res buf cls (body ++ more) = scan SCref res (buf ++ body) cls more.
Proof.
  induction body as [|c body IH]; intros res buf cls more H; [rewrite app_nil_r; reflexivity|].
  inversion H; subst. cbn [app scan]. replace (c =? 59) with false by lia.
  rewrite IH by assumption. rewrite app_cons_assoc. reflexivity.
Qed.
Lemma scan_data_ref r res buf cls more : ref_ok r ->
  exists buf', scan SData res buf cls (print_cref r ++ more) = scan SData (res ++ unescape (print_cref r)) buf' cls more.
Proof.
  intros (body & E & Hb). rewrite E. exists (38 :: body).
  cbn [app scan Z.eqb Pos.eqb]. rewrite <- app_assoc. rewrite scan_cref_acc by exact Hb.
  cbn [app scan Z.eqb Pos.eqb]. reflexivity.
Qed.
Lemma scan_data_pieces : forall ps res buf cls more, Forall piece_ok ps ->
  exists buf', scan SData res buf cls (pieces_print ps ++ more) = scan SData (res ++ pieces_value ps) buf' cls more.
Proof.
  induction ps as [|p ps IH]; intros res buf cls more H.
  - exists buf. cbn. rewrite app_nil_r. reflexivity.
  - inversion H as [|? ? Hp Hps]; subst. unfold pieces_print, pieces_value. cbn [flat_map].
    fold (pieces_print ps). fold (pieces_value ps). rewrite <- app_assoc.
    destruct p as [t|r]; cbn [piece_print piece_value piece_ok] in *.
    + destruct (scan_data_lit t res buf cls (pieces_print ps ++ more)) as [b1 E1]. rewrite E1.
      destruct (IH (res ++ t) b1 cls more Hps) as [b2 E2]. exists b2. rewrite E2, app_assoc. reflexivity.
    + destruct (scan_data_ref r res buf cls (pieces_print ps ++ more) Hp) as [b1 E1]. rewrite E1.
      destruct (IH (res ++ unescape (print_cref r)) b1 cls more Hps) as [b2 E2]. exists b2. rewrite E2, app_assoc. reflexivity.
Qed.

Lemma scan_item : forall i rest, nf_item i -> (is_istr i = true -> lt_or_nil rest) ->
  scan SData [] [] [] (item_print i ++ rest) = (item_token i, rest).
Proof.
  intros [ps|t] rest Hnf Hrest; cbn [item_print item_token].
  - destruct Hnf as (_ & Hps & Hv).
    destruct (scan_data_pieces ps [] [] [] rest Hps) as [b E]. rewrite E. cbn [app].
    apply scan_data_end; [apply Hrest; reflexivity|exact Hv].
  - destruct Hnf as [Hn Hs]. apply scan_token; [exact Hn|]. rewrite Hs. discriminate.
Qed.

Lemma piece_print_nonempty p : piece_ok p -> exists c r, piece_print p = c :: r.
Proof.
  destruct p as [t|r]; cbn [piece_ok piece_print].
  - intros H. destruct t as [|c t]; [congruence|]. unfold escape. cbn [flat_map]. unfold escape_char.
    destruct (c =? 38); [|destruct (c =? 60); [|destruct (c =? 62)]]; eexists; eexists; reflexivity.
  - intros (body & E & _). rewrite E. eexists; eexists; reflexivity.
Qed.
Lemma item_print_nonempty i : nf_item i -> exists c r, item_print i = c :: r.
Proof.
  destruct i as [ps|t]; cbn [nf_item item_print].
  - intros (Hne & Hps & _). destruct ps as [|p ps]; [congruence|]. inversion Hps; subst.
    destruct (piece_print_nonempty p H1) as (c & r & E). unfold pieces_print. cbn [flat_map]. rewrite E. eexists; eexists; reflexivity.
  - intros [H _]. apply print_token_nonempty. exact H.
Qed.
Lemma items_print_head l : nf_items l ->
  match l with i :: _ => is_istr i = false -> lt_or_nil (items_print l) | [] => True end.
Proof.
  destruct l as [|i l]; [trivial|]. intros (Hi & _) Hs. right.
  destruct i as [ps|t]; [discriminate|]. destruct Hi as [_ Ht]. destruct t; try discriminate; cbn; eexists; reflexivity.
Qed.

Lemma tok_loop_items : forall l n, nf_items l -> (length (items_print l) <= n)%nat ->
  tok_loop n (items_print l) = map item_token l.
Proof.
  induction l as [|i l IH]; intros n Hnf Hlen.
  - destruct n; reflexivity.
  - destruct Hnf as (Hi & Hl & Hadj).
    unfold items_print in *. cbn [flat_map map] in *. fold (items_print l) in *.
    destruct (item_print_nonempty i Hi) as (c & r & Hp).
    destruct n as [|n].
    + rewrite Hp in Hlen. cbn in Hlen. lia.
    + cbn [tok_loop].
      destruct (item_print i ++ items_print l) as [|z w] eqn:E.
      { rewrite Hp in E. discriminate. }
      rewrite <- E. rewrite scan_item; [| exact Hi |].
      * f_equal. apply IH; [exact Hl|].
        assert (Hw : (length (item_print i ++ items_print l) <= S n)%nat) by (rewrite E; exact Hlen).
        rewrite app_length, Hp in Hw. cbn in Hw. lia.
      * intros Hs. destruct l as [|i' l'].
        -- left. reflexivity.
        -- rewrite Hs in Hadj. cbn in Hadj.
           apply (items_print_head (i' :: l') Hl). exact Hadj.
Qed.

(* the tokenizer returns the VALUE of every string however it is spelled, and every other token as printed *)
Theorem tokenizer_items : forall l, nf_items l -> tokenize (items_print l) = map item_token l.
Proof. intros l H. unfold tokenize. apply tok_loop_items; [exact H|lia]. Qed.

(* the references WebVTT allows by name decode to the characters the standard gives them *)
Lemma webvtt_named_refs :
  map (fun n => unescape (print_cref (RefNamed n))) [[97;109;112]; [108;116]; [103;116]; [108;114;109]; [114;108;109]; [110;98;115;112]]
  = [[38]; [60]; [62]; [8206]; [8207]; [160]].
Proof. vm_compute. reflexivity. Qed.
Lemma named_ref_ok n : Forall (fun c => c <> 59) n -> ref_ok (RefNamed n).
Proof. intros H. exists n. split; [reflexivity|exact H]. Qed.

Example items_example :
  nf_items [IStr [PLit [97]; PRef (RefNamed [108;114;109]); PRef (RefDec 233); PRef (RefHex 128512); PLit [38;60]];
            ITok (TStart [98] None None); IStr [PRef (RefNamed [110;98;115;112])]; ITok (TEnd [98])].
Proof.
  assert (R1 : ref_ok (RefNamed [108;114;109])) by (apply named_ref_ok; repeat constructor; lia).
  assert (R2 : ref_ok (RefDec 233)) by (exists [35;50;51;51]; split; [reflexivity|repeat constructor; lia]).
  assert (R3 : ref_ok (RefHex 128512)) by (exists [35;120;49;102;54;48;48]; split; [reflexivity|repeat constructor; lia]).
  assert (R4 : ref_ok (RefNamed [110;98;115;112])) by (apply named_ref_ok; repeat constructor; lia).
  cbn [nf_items nf_item is_istr andb is_string].
  repeat split; try discriminate; try reflexivity; try (repeat constructor; assumption || discriminate).
  all: try (intros H; vm_compute in H; discriminate).
  all: try (exists 98, []; unfold first_char, name_char; repeat split; try lia; constructor).
  all: try (repeat constructor; lia).
Qed.
