(* C11: which exceptions the WebVTT reader can still raise.  Since an end tag closes only what it names (2ddde69) the
   parent never leaves the paragraph, and ruby_rbc / ruby_rtc are set exactly while a Ruby element is open; for EVERY
   cue text the only exceptions of _parse_cue_text are the TypeError / RuntimeError of push_child (recorded finding
   ruby-structure), and for EVERY file text these are the only exceptions of to_model: AttributeError,
   UnboundLocalError and ValueError are gone from the outcome (the constructors stay in the type so that the check can
   still name what the code raised). *)
From Coq Require Import QArith.
From TT Require Import Base.Prelude Gen.VttTables Model.VttTokenizer Model.VttReader.
Local Open Scope Z_scope.

Definition push_exn (e : exn) : Prop := e = ExType \/ e = ExRuntime.

(* number of Ruby elements among the open elements *)
Fixpoint nruby (st : list frame) : nat :=
  match st with [] => O | FRuby _ _ _ :: st' => S (nruby st') | FNode _ _ _ _ :: st' => nruby st' end.
(* ruby_rbc / ruby_rtc are set iff a Ruby is open, and at most one is *)
Definition inv (s : pstate) : Prop := nruby (p_stack s) = if p_ruby s then 1%nat else 0%nat.

Lemma attach_nruby e r st : nruby (snd (attach e r st)) = nruby st.
Proof. destruct st as [|[tg k a d|tg b t] st]; reflexivity. Qed.
Lemma fill_rt_nruby e : forall st, nruby (fill_rt e st) = nruby st.
Proof. induction st as [|[tg k a d|tg b t] st IH]; cbn [fill_rt nruby]; [reflexivity|exact IH|reflexivity]. Qed.
Lemma attach_closed_nruby f r st : nruby (snd (attach_closed f r st)) = nruby st.
Proof.
  destruct f as [tg [| |] a d|tg b t]; unfold attach_closed; try apply attach_nruby. cbn [snd]. apply fill_rt_nruby.
Qed.
Lemma add_rt_slot_some : forall st, (0 < nruby st)%nat -> exists st', add_rt_slot st = Some st' /\ nruby st' = nruby st.
Proof.
  induction st as [|[tg k a d|tg b t] st IH]; cbn [nruby add_rt_slot]; intros H; [lia| |eexists; split; reflexivity].
  destruct (IH H) as (st' & E & N). rewrite E. eexists; split; [reflexivity|]. cbn [nruby]. exact N.
Qed.

Lemma pop_inv s : inv s -> inv (pop s).
Proof.
  unfold inv, pop. destruct s as [r st rb bg]. cbn [p_stack p_ruby p_root p_begin].
  destruct st as [|f st]; [auto|]. intros H.
  pose proof (attach_closed_nruby f r st) as N. destruct (attach_closed f r st) as [r' st']. cbn [snd] in N.
  cbn [p_stack p_ruby]. rewrite N. destruct f as [tg k a d|tg b t]; cbn [nruby] in H; [exact H|].
  destruct rb; lia.
Qed.
Lemma handle_end_inv tag s : inv s -> inv (handle_end tag s).
Proof.
  intros H. unfold handle_end. destruct (p_stack s) as [|f st]; [exact H|].
  destruct (text_eqb (frame_tag f) (lower tag)); [apply pop_inv; exact H|].
  destruct f as [tg [| |] a d|tg b t]; try exact H.
  destruct st as [|[tg2 k2 a2 d2|tg2 b2 t2] st]; try exact H.
  destruct (text_eqb tg2 (lower tag)); [apply pop_inv, pop_inv; exact H|exact H].
Qed.
Lemma add_leaf_inv e s : inv s -> inv (add_leaf e s).
Proof.
  unfold inv, add_leaf. destruct s as [r st rb bg]. cbn [p_stack p_ruby p_root p_begin]. intros H.
  pose proof (attach_nruby e r st) as N. destruct (attach e r st) as [r' st']. cbn [snd] in N. cbn [p_stack p_ruby]. rewrite N. exact H.
Qed.
Lemma push_check_exn s c e : push_check s c = Some e -> push_exn e.
Proof.
  unfold push_check, push_exn. destruct (p_stack s) as [|[tg [| |] a d|tg b t] st]; destruct c; intros E; inversion E; auto.
Qed.

Lemma handle_start_ok tag cls an s : inv s ->
  match handle_start tag cls an s with inl s' => inv s' | inr e => push_exn e end.
Proof.
  intros H. unfold handle_start.
  destruct (starts_with s_ruby (lower tag)).
  - destruct (p_ruby s) eqn:Rb; [right; reflexivity|].
    destruct (push_check s CRuby) eqn:Pc; [eapply push_check_exn; exact Pc|].
    unfold inv in *. cbn [p_stack p_ruby nruby]. rewrite Rb in H. rewrite H. reflexivity.
  - destruct (starts_with s_rt (lower tag) && p_ruby s) eqn:C.
    + apply andb_true_iff in C as [_ Rb]. unfold inv in H. rewrite Rb in H.
      destruct (add_rt_slot_some (p_stack s)) as (st' & E & N); [lia|]. rewrite E.
      unfold inv. cbn [p_stack p_ruby nruby]. rewrite N, Rb. exact H.
    + destruct (push_check s CSpan) eqn:Pc; [eapply push_check_exn; exact Pc|]. exact H.
Qed.
Lemma push_text_line_ok l s : inv s ->
  match push_text_line l s with inl s' => inv s' | inr e => push_exn e end.
Proof.
  intros H. unfold push_text_line.
  destruct (p_stack s) as [|[tg k a d|tg b t] st] eqn:Es.
  - destruct (push_check s CSpan) eqn:Pc; [eapply push_check_exn; exact Pc|apply add_leaf_inv; exact H].
  - destruct (push_check s CSpan) eqn:Pc; [eapply push_check_exn; exact Pc|apply add_leaf_inv; exact H].
  - unfold inv in H. rewrite Es in H. cbn [nruby] in H. destruct (p_ruby s) eqn:Rb; [|lia].
    unfold inv. cbn [p_stack p_ruby nruby]. exact H.
Qed.
Lemma push_text_lines_ok : forall ls first s, inv s ->
  match push_text_lines first ls s with inl s' => inv s' | inr e => push_exn e end.
Proof.
  induction ls as [|l ls IH]; intros first s H; [exact H|]. cbn [push_text_lines].
  assert (H1 : match (if first then inl s else match push_check s CBr with Some e => inr e | None => inl (add_leaf EBr s) end)
               with inl s1 => inv s1 | inr e => push_exn e end).
  { destruct first; [exact H|]. destruct (push_check s CBr) eqn:Pc; [eapply push_check_exn; exact Pc|apply add_leaf_inv; exact H]. }
  destruct (if first then inl s else match push_check s CBr with Some e => inr e | None => inl (add_leaf EBr s) end) as [s1|e]; [|exact H1].
  pose proof (push_text_line_ok l s1 H1) as H2. destruct (push_text_line l s1) as [s2|e]; [|exact H2].
  apply IH. exact H2.
Qed.
Lemma handle_token_ok pb t s : inv s ->
  match handle_token pb t s with inl s' => inv s' | inr e => push_exn e end.
Proof.
  intros H. destruct t as [v|tag cls an|tag|ts]; cbn [handle_token].
  - apply push_text_lines_ok. exact H.
  - apply handle_start_ok. exact H.
  - apply handle_end_inv. exact H.
  - unfold handle_ts. destruct (vtt_timestamp_to_secs ts); [|exact H]. destruct (Qle_bool pb q); exact H.
Qed.
Lemma handle_tokens_ok pb : forall ts s, inv s ->
  match handle_tokens pb ts s with inl s' => inv s' | inr e => push_exn e end.
Proof.
  induction ts as [|t ts IH]; intros s H; [exact H|]. cbn [handle_tokens].
  pose proof (handle_token_ok pb t s H) as H1. destruct (handle_token pb t s) as [s1|e]; [apply IH; exact H1|exact H1].
Qed.

(* every cue text: _parse_cue_text returns the children of the paragraph or raises TypeError / RuntimeError *)
Theorem cue_text_exceptions pb txt e : parse_cue_text pb txt = inr e -> e = ExType \/ e = ExRuntime.
Proof.
  unfold parse_cue_text. intros E.
  pose proof (handle_tokens_ok pb (tokenize txt) (mkP [] [] false None) eq_refl) as H.
  destruct (handle_tokens pb (tokenize txt) (mkP [] [] false None)) as [s|e']; [discriminate|]. inversion E; subst. exact H.
Qed.

(* ---- the whole file *)
Definition good_r (s : rstate) : Prop :=
  match rs_state s with LText | LTextMore => rs_text s <> None /\ rs_cur s <> None | _ => True end.
Lemma looking_good l s : rs_state s = LLooking -> good_r (looking l s).
Proof.
  intros St. unfold looking.
  assert (G : good_r s) by (unfold good_r; rewrite St; exact I).
  destruct (is_blank l); [exact G|]. destruct (starts_with s_NOTE_ l); [exact I|]. destruct (starts_with s_STYLE l); [exact I|].
  destruct (negb (contains s_arrow l)); [exact G|]. destruct (length (split_ws l) <? 3)%nat; [exact G|].
  destruct (vtt_timestamp_to_secs (nth_text 0 (split_ws l))); [|exact G].
  destruct (vtt_timestamp_to_secs (nth_text 2 (split_ws l))); [|exact G].
  destruct (get_or_make_region (rs_regions s) (skipn 3 (split_ws l))) as [rg ri].
  unfold good_r. cbn [rs_state rs_text rs_cur]. split; discriminate.
Qed.
Theorem run_lines_exceptions : forall items s e, good_r s -> run_lines items s = Raised e -> e = ExType \/ e = ExRuntime.
Proof.
  induction items as [|line rest IH]; intros s e G; [discriminate|]. cbn [run_lines].
  destruct (rs_state s) eqn:St.
  - destruct line; [|discriminate]. apply IH. exact I.
  - destruct line as [l|]; [|discriminate]. apply IH. apply looking_good. exact St.
  - unfold good_r in G. rewrite St in G. destruct G as [Gt Gc].
    destruct (match line with None => true | Some l => is_blank l end).
    + destruct (rs_text s) as [t|]; [|congruence]. destruct (rs_cur s) as [p|]; [|congruence].
      destruct (parse_cue_text (pa_begin p) (replace_raw (strip_crlf t))) as [cs|e'] eqn:Ep.
      * apply IH. exact I.
      * intros E. inversion E; subst. eapply cue_text_exceptions. exact Ep.
    + destruct (rs_cur s) as [p|] eqn:Ec; [|congruence]. apply IH.
      unfold good_r. cbn [rs_state rs_text rs_cur]. split; discriminate.
  - unfold good_r in G. rewrite St in G. destruct G as [Gt Gc].
    destruct (match line with None => true | Some l => is_blank l end).
    + destruct (rs_text s) as [t|]; [|congruence]. destruct (rs_cur s) as [p|]; [|congruence].
      destruct (parse_cue_text (pa_begin p) (replace_raw (strip_crlf t))) as [cs|e'] eqn:Ep.
      * apply IH. exact I.
      * intros E. inversion E; subst. eapply cue_text_exceptions. exact Ep.
    + destruct (rs_cur s) as [p|] eqn:Ec; [|congruence]. apply IH.
      unfold good_r. cbn [rs_state rs_text rs_cur]. split; discriminate.
  - destruct line as [l|]; [|discriminate]. destruct (is_blank l); apply IH; [exact I|exact G].
  - destruct line as [l|]; [|discriminate]. destruct (is_blank l); apply IH; [exact I|exact G].
Qed.
(* every file text: to_model returns a document or raises TypeError / RuntimeError *)
Theorem to_model_exceptions file e : to_model file = Raised e -> e = ExType \/ e = ExRuntime.
Proof. unfold to_model. apply run_lines_exceptions. exact I. Qed.

(* ---- S on M: a cue text with an end tag that has nothing to close, a ruby whose last </rt> is omitted, a stray </ruby>,
   an unclosed b element holding an i element with a misnested </b>: the specification (Spec/VttSpec.v, every clause of
   the judge the check applies to the code) accepts what the model reads.
   </b><ruby>a<rt>b</ruby>c</ruby><b><i>x</b>y</i>z *)
From TT Require Import Spec.VttSpec Model.VttCases.
Definition unmatched_example : vfile :=
  mkFile [] [BCue (mkCue None (mkTs None 0 1 0) (mkTs None 0 9 0) []
                         [CEnd [98]; CRubyOmit [([CText [97]], [CText [98]])]; CText [99]; CEnd [114;117;98;121];
                          COpen TgB [CTag TgI [CText [120]; CEnd [98]; CText [121]]; CText [122]]])].
Lemma unmatched_example_judged :
  cue_text_valid (c_payload (match f_blocks unmatched_example with BCue c :: _ => c | _ => mkCue None (mkTs None 0 0 0) (mkTs None 0 0 0) [] [] end)) = true /\
  judge unmatched_example (print_file unmatched_example) (to_model (print_file unmatched_example)) = [].
Proof. split; vm_compute; reflexivity. Qed.
