(* C11: timestamps are read exactly.  For every well-formed timestamp (hours optional, any number >= 2 of hour
   digits) the reader's vtt_timestamp_to_secs returns exactly value/1000 as a rational - no rounding. *)
From Coq Require Import QArith.
From TT Require Import Base.Prelude Gen.VttTables Model.VttTokenizer Model.VttReader Spec.VttSpec.
Local Open Scope Z_scope.

Lemma split_aux_acc : forall sep t cur rest, Forall (fun c => c <> sep) t ->
  split_on_aux sep cur (t ++ rest) = split_on_aux sep (cur ++ t) rest.
Proof.
  induction t as [|c t IH]; intros cur rest H.
  - rewrite app_nil_r. reflexivity.
  - inversion H; subst. cbn [app split_on_aux]. replace (c =? sep) with false by lia.
    rewrite IH by assumption. rewrite <- app_assoc. reflexivity.
Qed.
Lemma split_aux_sep sep cur rest : split_on_aux sep cur (sep :: rest) = cur :: split_on_aux sep [] rest.
Proof. cbn. rewrite Z.eqb_refl. reflexivity. Qed.
Lemma split_aux_end : forall sep t cur, Forall (fun c => c <> sep) t -> split_on_aux sep cur t = [cur ++ t].
Proof.
  intros sep t cur H. rewrite <- (app_nil_r t) at 1. rewrite split_aux_acc by assumption. reflexivity.
Qed.

Definition dig (c : Z) : Prop := 48 <= c <= 57.
Lemma dig_is_digit c : dig c -> is_digit c = true. Proof. unfold dig, is_digit. lia. Qed.
Lemma forall_dig_all_digits l : Forall dig l -> all_digits l = true.
Proof. induction 1; cbn; [reflexivity|]. rewrite dig_is_digit by assumption. assumption. Qed.
Lemma forall_dig_ne l x : (x < 48 \/ 57 < x) -> Forall dig l -> Forall (fun c => c <> x) l.
Proof. intros Hx H. induction H; constructor; [unfold dig in *; lia|assumption]. Qed.

Lemma pad2_dig n : 0 <= n < 100 -> Forall dig (pad2 n).
Proof. intros. unfold pad2, dig. repeat constructor; lia. Qed.
Lemma pad3_dig n : 0 <= n < 1000 -> Forall dig (pad3 n).
Proof. intros. unfold pad3, dig. repeat constructor; lia. Qed.
Lemma pad2_value n : 0 <= n < 100 -> dec_value (pad2 n) = n.
Proof. intros. unfold pad2, dec_value. cbn [fold_left]. lia. Qed.
Lemma pad3_value n : 0 <= n < 1000 -> dec_value (pad3 n) = n.
Proof. intros. unfold pad3, dec_value. cbn [fold_left]. lia. Qed.

Lemma two_digits_pad2 n : 0 <= n < 100 -> two_digits (pad2 n) = true.
Proof. intros. unfold two_digits. rewrite (forall_dig_all_digits (pad2 n)) by (apply pad2_dig; lia). reflexivity. Qed.
Lemma hours_fold : forall hd a, fold_left (fun a c => a * 10 + (c - 48)) (map (fun d => 48 + d) hd) a
                               = a * 10 ^ Z.of_nat (length hd) + digits_value hd.
Proof.
  induction hd as [|d hd IH]; intros a.
  - cbn. lia.
  - cbn [map fold_left digits_value length]. rewrite IH.
    rewrite Nat2Z.inj_succ, Z.pow_succ_r by lia. lia.
Qed.
Lemma hours_value hd : dec_value (map (fun d => 48 + d) hd) = digits_value hd.
Proof. unfold dec_value. rewrite hours_fold. lia. Qed.
Lemma hours_dig hd : Forall digit_ok hd -> Forall dig (map (fun d => 48 + d) hd).
Proof.
  intros H. induction hd as [|d hd IH]; cbn [map].
  - apply Forall_nil.
  - inversion H; subst. apply Forall_cons; [unfold digit_ok, dig in *; lia|apply IH; assumption].
Qed.

Lemma sec_ms_print s f : 0 <= s < 60 -> 0 <= f < 1000 ->
  sec_ms (pad2 s ++ 46 :: pad3 f) = Some (s, f).
Proof.
  intros Hs Hf. change (pad2 s ++ 46 :: pad3 f) with (pad2 s ++ [46] ++ pad3 f). unfold sec_ms, split_on.
  rewrite split_aux_acc by (apply forall_dig_ne; [lia|apply pad2_dig; lia]).
  cbn [app]. rewrite split_aux_sep.
  rewrite split_aux_end by (apply forall_dig_ne; [lia|apply pad3_dig; lia]).
  cbn [app]. rewrite two_digits_pad2 by lia.
  rewrite (forall_dig_all_digits (pad3 f)) by (apply pad3_dig; lia).
  replace (length (pad3 f) =? 3)%nat with true by reflexivity. cbn [andb].
  rewrite pad2_value, pad3_value by lia. reflexivity.
Qed.

Lemma timestamp_ms_exact t : wf_ts t -> timestamp_ms (print_ts t) = Some (ts_ms t).
Proof.
  destruct t as [h m s f]. unfold wf_ts, print_ts, ts_ms. cbn [ts_hours ts_min ts_sec ts_frac].
  intros (Hh & Hm & Hs & Hf).
  assert (Hrest : Forall (fun c => c <> 58) (pad2 s ++ [46] ++ pad3 f)).
  { apply Forall_app; split; [apply forall_dig_ne; [lia|apply pad2_dig; lia]|].
    constructor; [lia|]. apply forall_dig_ne; [lia|apply pad3_dig; lia]. }
  destruct h as [hd|].
  - destruct Hh as (Hlen & Hd).
    unfold timestamp_ms, split_on. rewrite <- !app_assoc.
    rewrite split_aux_acc by (apply forall_dig_ne; [lia|apply hours_dig; assumption]).
    cbn [app]. rewrite split_aux_sep.
    rewrite split_aux_acc by (apply forall_dig_ne; [lia|apply pad2_dig; lia]).
    cbn [app]. rewrite split_aux_sep.
    rewrite split_aux_end by exact Hrest.
    cbn [app]. rewrite two_digits_pad2 by lia.
    rewrite (forall_dig_all_digits (map _ hd)) by (apply hours_dig; assumption).
    rewrite map_length.
    replace (2 <=? length hd)%nat with true by (symmetry; apply Nat.leb_le; exact Hlen).
    cbn [andb].
    rewrite sec_ms_print by lia. rewrite hours_value, pad2_value by lia. f_equal. lia.
  - unfold timestamp_ms, split_on. cbn [app].
    change (pad2 m ++ 58 :: pad2 s ++ 46 :: pad3 f) with (pad2 m ++ [58] ++ pad2 s ++ [46] ++ pad3 f).
    rewrite split_aux_acc by (apply forall_dig_ne; [lia|apply pad2_dig; lia]).
    cbn [app]. rewrite split_aux_sep.
    change (pad2 s ++ 46 :: pad3 f) with (pad2 s ++ [46] ++ pad3 f).
    rewrite split_aux_end by exact Hrest.
    cbn [app]. rewrite two_digits_pad2 by lia.
    rewrite sec_ms_print by lia. rewrite pad2_value by lia. f_equal; try lia.
Qed.

Theorem exact_time t : wf_ts t -> vtt_timestamp_to_secs (print_ts t) = Some (Qmake (ts_ms t) 1000).
Proof. intros H. unfold vtt_timestamp_to_secs. rewrite timestamp_ms_exact by exact H. reflexivity. Qed.

(* the value is the conventional one: hours*3600 + minutes*60 + seconds + ms/1000 *)
Lemma ts_ms_seconds t :
  (Qmake (ts_ms t) 1000 ==
   inject_Z (match ts_hours t with Some hd => digits_value hd | None => 0 end) * 3600 +
   inject_Z (ts_min t) * 60 + inject_Z (ts_sec t) + Qmake (ts_frac t) 1000)%Q.
Proof.
  unfold ts_ms, Qeq, Qplus, Qmult, inject_Z. cbn [Qnum Qden]. lia.
Qed.

Example exact_time_example :
  vtt_timestamp_to_secs (print_ts (mkTs (Some [1;0;2]) 3 4 280)) = Some (Qmake 367384280 1000).
Proof. reflexivity. Qed.
