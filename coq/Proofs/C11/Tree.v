(* C11: cue tree round trip.  For every tree of text and b / i / u / c.classes / lang / v elements, nested to
   any depth, parsing its printed WebVTT cue text (tokenizer, then _TextCueParser) yields exactly one span
   per element carrying that element's style, around exactly the spans of its content, with one span per
   text line and a br between lines.  By induction on the tree, on top of the tokenizer round trip. *)
From Coq Require Import QArith.
From TT Require Import Base.Prelude Gen.VttTables Model.VttTokenizer Model.VttReader Spec.VttSpec.
From TT Require Import Proofs.C11.Tokenizer.
Local Open Scope Z_scope.

Inductive snode := SText (t : text) | STag (k : ctag) (cs : list snode).

Lemma snode_ind' (P : snode -> Prop) :
  (forall t, P (SText t)) -> (forall k cs, Forall P cs -> P (STag k cs)) -> forall n, P n.
Proof.
  intros Ht Hg. fix IH 1. intros [t|k cs]; [apply Ht|]. apply Hg.
  induction cs as [|c cs IHcs]; constructor; [apply IH|exact IHcs].
Qed.

Fixpoint node_of (n : snode) : cnode :=
  match n with SText t => CText t | STag k cs => CTag k (map node_of cs) end.

(* ---- well-formed trees: what the WebVTT syntax can express uniquely *)
Definition annot_ok (a : text) : Prop :=
  Forall (fun c => c <> 38 /\ c <> 60 /\ c <> 62) a /\ norm_annot a = a.
Definition tag_ok (k : ctag) : Prop :=
  match k with TgC cls => Forall class_ok cls | TgLang l => annot_ok l | TgV n => annot_ok n | _ => True end.
Definition is_text (n : snode) : bool := match n with SText _ => true | _ => false end.
Fixpoint no_adj (l : list snode) : Prop :=
  match l with
  | x :: l' => match l' with y :: _ => is_text x && is_text y = false | [] => True end /\ no_adj l'
  | [] => True
  end.
Inductive wf_node : snode -> Prop :=
| wf_text t : t <> [] -> wf_node (SText t)
| wf_tag k cs : tag_ok k -> Forall wf_node cs -> no_adj cs -> wf_node (STag k cs).
Definition wf_nodes (ns : list snode) : Prop := Forall wf_node ns /\ no_adj ns.

(* ---- the expected tree *)
Definition bg_attrs : attrs := mkAttrs None (Some default_bg_color) None false false false None.
Definition base_attrs (top : bool) : attrs := if top then bg_attrs else no_attrs.
Definition expected_attrs (k : ctag) (a : attrs) : attrs :=
  match k with
  | TgB => mkAttrs (a_begin a) (a_bg a) (a_color a) true (a_italic a) (a_under a) (a_lang a)
  | TgI => mkAttrs (a_begin a) (a_bg a) (a_color a) (a_bold a) true (a_under a) (a_lang a)
  | TgU => mkAttrs (a_begin a) (a_bg a) (a_color a) (a_bold a) (a_italic a) true (a_lang a)
  | TgC cls => fold_left apply_class cls a
  | TgLang l => mkAttrs (a_begin a) (a_bg a) (a_color a) (a_bold a) (a_italic a) (a_under a) (Some l)
  | TgV _ => a
  end.
Fixpoint lines_elems (top first : bool) (ls : list text) : list elem :=
  match ls with
  | [] => []
  | l :: ls' => (if first then [] else [EBr]) ++ ENode KSpan (base_attrs top) [EText l] :: lines_elems top false ls'
  end.
Fixpoint span_of (top : bool) (n : snode) : list elem :=
  match n with
  | SText t => lines_elems top true (split_on 10 t)
  | STag k cs => [ENode KSpan (expected_attrs k (base_attrs top)) (flat_map (span_of false) cs)]
  end.
Definition spans_of (top : bool) (ns : list snode) : list elem := flat_map (span_of top) ns.

(* ---- tokens of a tree *)
Definition start_token (k : ctag) : token :=
  match k with
  | TgB => TStart [98] None None
  | TgI => TStart [105] None None
  | TgU => TStart [117] None None
  | TgC [] => TStart [99] None None
  | TgC cls => TStart [99] (Some cls) None
  | TgLang l => TStart [108;97;110;103] (Some []) (Some l)
  | TgV n => TStart [118] (Some []) (Some n)
  end.
Fixpoint tokens_of (n : snode) : list token :=
  match n with
  | SText t => [TString t]
  | STag k cs => start_token k :: flat_map tokens_of cs ++ [TEnd (tag_name k)]
  end.

Lemma escape_id a : Forall (fun c => c <> 38 /\ c <> 60 /\ c <> 62) a -> escape a = a.
Proof.
  induction 1 as [|c a (H1 & H2 & H3) _ IH]; [reflexivity|].
  change (escape (c :: a)) with (escape_char c ++ escape a). rewrite IH. unfold escape_char.
  replace (c =? 38) with false by lia. replace (c =? 60) with false by lia. replace (c =? 62) with false by lia.
  reflexivity.
Qed.

Lemma print_start k : tag_ok k -> print_token (start_token k) = print_open k.
Proof.
  destruct k as [| | |cls|l|n]; cbn [tag_ok]; intros H; try reflexivity.
  - destruct cls; cbn; rewrite ?app_nil_r; reflexivity.
  - destruct H as [H _]. cbn. rewrite (escape_id _ H). reflexivity.
  - destruct H as [H _]. cbn. rewrite (escape_id _ H). reflexivity.
Qed.
Lemma print_end k : print_token (TEnd (tag_name k)) = print_close k.
Proof. reflexivity. Qed.

Lemma print_tokens_app a b : print_tokens (a ++ b) = print_tokens a ++ print_tokens b.
Proof. unfold print_tokens. apply flat_map_app. Qed.

Lemma print_tree : forall n, wf_node n -> print_node (node_of n) = print_tokens (tokens_of n).
Proof.
  induction n as [t|k cs IH] using snode_ind'; intros W.
  - cbn. rewrite app_nil_r. reflexivity.
  - inversion W as [|? ? Hk Hcs Hadj]; subst.
    cbn [node_of print_node tokens_of]. unfold print_tokens at 1. cbn [flat_map]. fold (print_tokens (flat_map tokens_of cs ++ [TEnd (tag_name k)])).
    rewrite print_tokens_app, print_start by exact Hk. cbn [print_tokens flat_map]. rewrite print_end, app_nil_r.
    f_equal. f_equal.
    clear Hadj Hk W. induction cs as [|c cs IHcs]; [reflexivity|].
    inversion IH; subst. inversion Hcs; subst.
    cbn [map flat_map]. rewrite print_tokens_app. f_equal; [auto|apply IHcs; assumption].
Qed.
Lemma print_trees ns : Forall wf_node ns ->
  print_cue_text (map node_of ns) = print_tokens (flat_map tokens_of ns).
Proof.
  induction 1 as [|n ns Hn _ IH]; [reflexivity|].
  unfold print_cue_text in *. cbn [map flat_map]. rewrite print_tokens_app, IH, print_tree by exact Hn. reflexivity.
Qed.

(* ---- the token list of a well-formed tree is in normal form *)
Definition head_string (ts : list token) : bool := match ts with t :: _ => is_string t | [] => false end.
Fixpoint last_string (ts : list token) : bool :=
  match ts with [] => false | t :: ts' => match ts' with [] => is_string t | _ => last_string ts' end end.

Lemma nf_app : forall a b, nf_list a -> nf_list b -> last_string a && head_string b = false -> nf_list (a ++ b).
Proof.
  induction a as [|x a IH]; intros b Ha Hb Hl; [exact Hb|].
  destruct Ha as (Hx & Ha & Hadj). cbn [app nf_list]. split; [exact Hx|]. split.
  - apply IH; [exact Ha|exact Hb|]. destruct a as [|y a]; [reflexivity|exact Hl].
  - destruct a as [|y a]; cbn [app].
    + destruct b as [|z b]; [exact I|]. exact Hl.
    + exact Hadj.
Qed.

Lemma nf_start k : tag_ok k -> nf_token (start_token k).
Proof.
  unfold first_char, name_char.
  destruct k as [| | |cls|l|n]; cbn [tag_ok start_token nf_token]; intros H.
  1-3: split; [eexists; eexists; split; [reflexivity|split; [cbn; repeat split; lia|constructor]]|exact I].
  - destruct cls as [|c cls]; (split; [eexists; eexists; split; [reflexivity|split; [cbn; repeat split; lia|constructor]]|]);
      [exact I|split; [discriminate|exact H]].
  - destruct H as [H1 H2]. split.
    + eexists; eexists; split; [reflexivity|split; [cbn; repeat split; lia|]]. repeat constructor; lia.
    + split; [constructor|]. split; [|exact H2]. eapply Forall_impl; [|exact H1]. unfold annot_char. cbn. intros; lia.
  - destruct H as [H1 H2]. split.
    + eexists; eexists; split; [reflexivity|split; [cbn; repeat split; lia|constructor]].
    + split; [constructor|]. split; [|exact H2]. eapply Forall_impl; [|exact H1]. unfold annot_char. cbn. intros; lia.
Qed.
Lemma nf_end k : nf_token (TEnd (tag_name k)).
Proof. destruct k; cbn; repeat constructor; lia. Qed.

Lemma tokens_head n : head_string (tokens_of n) = is_text n.
Proof. destruct n as [t|k cs]; [reflexivity|]. destruct k as [| | |[|]| |]; reflexivity. Qed.
Lemma last_string_app : forall a b, b <> [] -> last_string (a ++ b) = last_string b.
Proof.
  induction a as [|x a IH]; intros b Hb; [reflexivity|].
  cbn [app]. specialize (IH b Hb). destruct (a ++ b) eqn:E.
  - destruct a; [cbn in E; contradiction|discriminate].
  - cbn [last_string] in *. exact IH.
Qed.
Lemma tokens_last n : last_string (tokens_of n) = is_text n.
Proof.
  destruct n as [t|k cs]; [reflexivity|]. cbn [tokens_of is_text].
  change (start_token k :: flat_map tokens_of cs ++ [TEnd (tag_name k)])
    with ((start_token k :: flat_map tokens_of cs) ++ [TEnd (tag_name k)]).
  rewrite last_string_app by discriminate. reflexivity.
Qed.
Lemma tokens_nonempty n : tokens_of n <> [].
Proof. destruct n; discriminate. Qed.

Lemma nf_nodes : forall ns, Forall (fun n => wf_node n -> nf_list (tokens_of n)) ns ->
  Forall wf_node ns -> no_adj ns ->
  nf_list (flat_map tokens_of ns) /\
  head_string (flat_map tokens_of ns) = match ns with n :: _ => is_text n | [] => false end.
Proof.
  induction ns as [|n ns IH]; intros HP Hw Hadj; [split; [exact I|reflexivity]|].
  inversion HP; subst. inversion Hw; subst. destruct Hadj as [Hxy Hadj].
  destruct (IH H2 H4 Hadj) as [Hnf Hhead]. cbn [flat_map]. split.
  - apply nf_app; [auto|exact Hnf|]. rewrite tokens_last, Hhead. destruct ns; [apply andb_false_r|exact Hxy].
  - pose proof (tokens_nonempty n) as Hne. pose proof (tokens_head n) as Hh.
    destruct (tokens_of n) eqn:E; [contradiction|]. exact Hh.
Qed.

Lemma nf_tree : forall n, wf_node n -> nf_list (tokens_of n).
Proof.
  induction n as [t|k cs IH] using snode_ind'; intros W; inversion W as [? Ht|? ? Hk Hcs Hadj]; subst.
  - cbn. repeat split; assumption.
  - cbn [tokens_of].
    destruct (nf_nodes cs IH Hcs Hadj) as [Hnf _].
    change (start_token k :: flat_map tokens_of cs ++ [TEnd (tag_name k)])
      with ([start_token k] ++ flat_map tokens_of cs ++ [TEnd (tag_name k)]).
    apply nf_app.
    + cbn. split; [apply nf_start; exact Hk|split; exact I].
    + apply nf_app; [exact Hnf|cbn; split; [apply nf_end|split; exact I]|apply andb_false_r].
    + assert (is_string (start_token k) = false) by (destruct k as [| | |[|]| |]; reflexivity).
      cbn [last_string]. rewrite H. reflexivity.
Qed.
Lemma nf_trees ns : wf_nodes ns -> nf_list (flat_map tokens_of ns).
Proof.
  intros [Hw Hadj]. apply nf_nodes; [|exact Hw|exact Hadj].
  apply Forall_forall. intros n _. apply nf_tree.
Qed.

(* ---- the parser on the tokens of a tree *)
Definition span_frame (f : frame) : Prop := match f with FNode KSpan _ _ => True | _ => False end.
Definition regular (s : pstate) : Prop := p_above s = 0 /\ p_ruby s = false /\ Forall span_frame (p_stack s).
Definition add_all (es : list elem) (s : pstate) : pstate := fold_left (fun s e => add_leaf e s) es s.

Lemma regular_add_leaf e s : regular s -> regular (add_leaf e s) /\ parent_is_p (add_leaf e s) = parent_is_p s.
Proof.
  destruct s as [root st ab rb]. unfold regular, add_leaf, attach, parent_is_p. cbn [p_above p_ruby p_stack p_root].
  intros (A & B & F). destruct st as [|[k a d|b t] st]; cbn [p_above p_ruby p_stack].
  - repeat split; auto.
  - inversion F; subst. repeat split; auto; try (constructor; assumption).
  - inversion F; subst. contradiction.
Qed.
Lemma regular_add_all es : forall s, regular s -> regular (add_all es s) /\ parent_is_p (add_all es s) = parent_is_p s.
Proof.
  induction es as [|e es IH]; intros s R; [split; [exact R|reflexivity]|].
  cbn [add_all fold_left]. destruct (regular_add_leaf e s R) as [R1 P1].
  destruct (IH _ R1) as [R2 P2]. split; [exact R2|]. unfold add_all in P2. rewrite P2. exact P1.
Qed.
Lemma add_all_app a b s : add_all (a ++ b) s = add_all b (add_all a s).
Proof. unfold add_all. apply fold_left_app. Qed.

Lemma push_check_regular s c : regular s -> c <> VttReader.CRuby -> push_check s c = None.
Proof.
  destruct s as [root st ab rb]. unfold regular, push_check. cbn [p_above p_ruby p_stack].
  intros (-> & _ & F) Hc. cbn. destruct st as [|[[| |] a d|b t] st]; try reflexivity; inversion F; subst; try contradiction.
  destruct c; try reflexivity. contradiction.
Qed.

Lemma make_span_attrs_regular s : regular s -> make_span_attrs s = base_attrs (parent_is_p s).
Proof. intros _. unfold make_span_attrs, base_attrs. destruct (parent_is_p s); reflexivity. Qed.

Lemma push_lines : forall ls first s, regular s ->
  push_text_lines first ls s = inl (add_all (lines_elems (parent_is_p s) first ls) s).
Proof.
  induction ls as [|l ls IH]; intros first s R; [reflexivity|].
  cbn [push_text_lines lines_elems].
  assert (Hab : p_above s =? 3 = false) by (destruct R as (-> & _); reflexivity).
  destruct first.
  - unfold push_text_line. rewrite Hab.
    destruct (p_stack s) as [|[k a d|b t] st] eqn:Es.
    + rewrite push_check_regular by (auto; discriminate).
      destruct (regular_add_leaf (ENode KSpan (make_span_attrs s) [EText l]) s R) as [R1 P1].
      rewrite IH by exact R1. rewrite P1. rewrite make_span_attrs_regular by exact R. reflexivity.
    + rewrite push_check_regular by (auto; discriminate).
      destruct (regular_add_leaf (ENode KSpan (make_span_attrs s) [EText l]) s R) as [R1 P1].
      rewrite IH by exact R1. rewrite P1. rewrite make_span_attrs_regular by exact R. reflexivity.
    + destruct R as (_ & _ & F). rewrite Es in F. inversion F; subst. contradiction.
  - rewrite push_check_regular by (auto; discriminate).
    destruct (regular_add_leaf EBr s R) as [R0 P0].
    unfold push_text_line. replace (p_above (add_leaf EBr s) =? 3) with false by (destruct R0 as (-> & _); reflexivity).
    destruct (p_stack (add_leaf EBr s)) as [|[k a d|b t] st] eqn:Es.
    + rewrite push_check_regular by (auto; discriminate).
      destruct (regular_add_leaf (ENode KSpan (make_span_attrs (add_leaf EBr s)) [EText l]) _ R0) as [R1 P1].
      rewrite IH by exact R1. rewrite P1, P0. rewrite make_span_attrs_regular by exact R0. rewrite P0. reflexivity.
    + rewrite push_check_regular by (auto; discriminate).
      destruct (regular_add_leaf (ENode KSpan (make_span_attrs (add_leaf EBr s)) [EText l]) _ R0) as [R1 P1].
      rewrite IH by exact R1. rewrite P1, P0. rewrite make_span_attrs_regular by exact R0. rewrite P0. reflexivity.
    + destruct R0 as (_ & _ & F). rewrite Es in F. inversion F; subst. contradiction.
Qed.

Lemma handle_tokens_app pb att : forall a b s,
  handle_tokens pb att (a ++ b) s =
  match handle_tokens pb att a s with inr e => inr e | inl s' => handle_tokens pb att b s' end.
Proof.
  induction a as [|t a IH]; intros b s; [reflexivity|]. cbn [app handle_tokens].
  destruct (handle_token pb att t s); [apply IH|reflexivity].
Qed.

Lemma add_all_top es : forall r k a d st ab rb,
  add_all es (mkP r (FNode k a d :: st) ab rb) = mkP r (FNode k a (d ++ es) :: st) ab rb.
Proof.
  induction es as [|e es IH]; intros; [rewrite app_nil_r; reflexivity|].
  cbn [add_all fold_left]. unfold add_leaf at 2. cbn [attach p_root p_stack p_above p_ruby].
  fold (add_all es (mkP r (FNode k a (d ++ [e]) :: st) ab rb)). rewrite IH, <- app_assoc. reflexivity.
Qed.
Lemma pop_open es k a s : pop (add_all es (open_node k a s)) = add_leaf (ENode k a es) s.
Proof.
  destruct s as [r st ab rb]. unfold open_node. cbn [p_root p_stack p_above p_ruby].
  rewrite add_all_top. reflexivity.
Qed.

Lemma style_tag_expected k a :
  match start_token k with
  | TStart tag cls an => style_tag (lower tag) cls an a = expected_attrs k a
  | _ => False
  end.
Proof. destruct k as [| | |[|c cls]|l|n]; reflexivity. Qed.

Lemma handle_start_tag k s : regular s ->
  match start_token k with
  | TStart tag cls an =>
    handle_start tag cls an s = inl (open_node KSpan (expected_attrs k (base_attrs (parent_is_p s))) s)
  | _ => False
  end.
Proof.
  intros R. pose proof (style_tag_expected k (make_span_attrs s)) as H.
  rewrite make_span_attrs_regular in H by exact R.
  destruct k as [| | |[|c cls]|l|n]; cbn [start_token] in *; unfold handle_start;
    (replace (starts_with s_ruby (lower _)) with false by reflexivity);
    (replace (starts_with s_rt (lower _)) with false by reflexivity);
    rewrite push_check_regular by (auto; discriminate); rewrite make_span_attrs_regular by exact R; rewrite H; reflexivity.
Qed.

Lemma regular_open k a s : regular s -> k = KSpan -> regular (open_node k a s) /\ parent_is_p (open_node k a s) = false.
Proof.
  intros (A & B & F) ->. unfold regular, open_node, parent_is_p. cbn [p_above p_ruby p_stack].
  repeat split; auto. - constructor; [exact I|exact F]. - rewrite A. reflexivity.
Qed.

Lemma parse_tree pb att : forall n, wf_node n -> forall rest s, regular s ->
  handle_tokens pb att (tokens_of n ++ rest) s =
  handle_tokens pb att rest (add_all (span_of (parent_is_p s) n) s).
Proof.
  induction n as [t|k cs IH] using snode_ind'; intros W rest s R.
  - cbn [tokens_of app handle_tokens handle_token span_of]. unfold handle_string.
    rewrite push_lines by exact R. reflexivity.
  - inversion W as [|? ? Hk Hcs Hadj]; subst.
    cbn [tokens_of app handle_tokens]. pose proof (handle_start_tag k s R) as Hs.
    destruct (start_token k) as [|tag cls an| |] eqn:Et; try contradiction.
    cbn [handle_token]. rewrite Hs.
    set (a := expected_attrs k (base_attrs (parent_is_p s))).
    destruct (regular_open KSpan a s R eq_refl) as [R1 P1].
    (* children *)
    assert (Hch : forall cs', Forall (fun n => wf_node n -> forall rest s, regular s ->
                     handle_tokens pb att (tokens_of n ++ rest) s =
                     handle_tokens pb att rest (add_all (span_of (parent_is_p s) n) s)) cs' ->
                   Forall wf_node cs' -> forall rest s, regular s -> parent_is_p s = false ->
                   handle_tokens pb att (flat_map tokens_of cs' ++ rest) s =
                   handle_tokens pb att rest (add_all (flat_map (span_of false) cs') s)).
    { clear. induction cs' as [|c cs' IHc]; intros HP Hw rest s R P; [reflexivity|].
      inversion HP; subst. inversion Hw; subst.
      cbn [flat_map]. rewrite <- app_assoc. rewrite H1 by assumption. rewrite P.
      destruct (regular_add_all (span_of false c) s R) as [R' P'].
      rewrite IHc; [|assumption|assumption|exact R'|rewrite P'; exact P].
      rewrite add_all_app. reflexivity. }
    rewrite <- app_assoc. rewrite (Hch cs IH Hcs _ _ R1 P1).
    cbn [app handle_tokens handle_token].
    destruct (regular_add_all (flat_map (span_of false) cs) _ R1) as [R2 _].
    unfold handle_end.
    replace (p_above (add_all (flat_map (span_of false) cs) (open_node KSpan a s)) =? 3) with false
      by (destruct R2 as (-> & _); reflexivity).
    replace (0 <? p_above (add_all (flat_map (span_of false) cs) (open_node KSpan a s))) with false
      by (destruct R2 as (-> & _); reflexivity).
    pose proof (pop_open (flat_map (span_of false) cs) KSpan a s) as Hp.
    destruct s as [r st ab rb]. unfold open_node in *. cbn [p_root p_stack p_above p_ruby] in *.
    rewrite add_all_top in *. cbn [p_stack]. rewrite Hp. cbn [span_of add_all fold_left]. reflexivity.
Qed.

Lemma parse_trees pb att : forall ns, Forall wf_node ns -> forall s, regular s ->
  handle_tokens pb att (flat_map tokens_of ns) s = inl (add_all (spans_of (parent_is_p s) ns) s).
Proof.
  induction ns as [|n ns IH]; intros Hw s R; [reflexivity|]. inversion Hw; subst.
  cbn [flat_map]. rewrite parse_tree by assumption.
  destruct (regular_add_all (span_of (parent_is_p s) n) s R) as [R' P'].
  rewrite IH by assumption. rewrite P'. unfold spans_of. cbn [flat_map]. rewrite add_all_app. reflexivity.
Qed.

Lemma add_all_root es : forall r, add_all es (mkP r [] 0 false) = mkP (r ++ es) [] 0 false.
Proof.
  induction es as [|e es IH]; intros r; [rewrite app_nil_r; reflexivity|].
  cbn [add_all fold_left]. unfold add_leaf at 2. cbn [attach p_root p_stack p_above p_ruby].
  fold (add_all es (mkP (r ++ [e]) [] 0 false)). rewrite IH, <- app_assoc. reflexivity.
Qed.

Theorem tree_roundtrip pb att ns : wf_nodes ns ->
  parse_cue_text pb att (print_cue_text (map node_of ns)) = inl (spans_of true ns).
Proof.
  intros W. unfold parse_cue_text. rewrite print_trees by (apply W).
  rewrite tokenizer_roundtrip by (apply nf_trees; exact W).
  rewrite parse_trees; [|apply W|repeat split; constructor].
  rewrite add_all_root. reflexivity.
Qed.

(* the WebVTT default colour classes mean the same colours in the reader's table (finite check) *)
Lemma default_classes_agree :
  forallb (fun nc : text * Z => match assoc_tz (fst nc) named_colors with Some c => c =? snd nc | None => false end)
          webvtt_colors = true.
Proof. vm_compute. reflexivity. Qed.

Example tree_example :
  wf_nodes [SText [97;10;98]; STag TgB [STag (TgC [[114;101;100]]) [SText [120]]; SText [121]]; STag (TgLang [101;110]) []].
Proof.
  split.
  - repeat constructor; try discriminate; try exact I; cbn; try lia; try (vm_compute; reflexivity).
  - cbn. repeat split; reflexivity.
Qed.
