(* C11: cue tree round trip.  For every tree of text (spelled with literal characters and character references),
   inline timestamps, b / i / u / c.classes / lang / v elements (annotations with any characters) nested to any depth
   and END TAGS THAT CLOSE NOTHING (SEnd: an end tag that does not name, in lower case, the element it sits in - any end
   tag at the top level of the cue text), parsing its printed WebVTT cue text (tokenizer, then _TextCueParser) yields
   exactly one span per element carrying that element's style, around exactly the spans of its content, with one span
   per text line and a br between lines, every text span carrying the begin (relative to the cue) of the last timestamp
   that precedes it in the cue text, whatever the nesting; an ignored end tag adds nothing and ends nothing
   (tree_roundtrip).  Cue texts in which end tags are missing (tree_unclosed_roundtrip): every unclosed element lasts
   to the end of the cue text.  With ruby (tree_ruby_roundtrip): the same for cue texts that also hold ruby elements
   outside the recorded finding ruby-structure - at the top level of the cue, every base one line of text, no line
   break directly inside rt, the last </rt> present or omitted.  By induction on the tree, on top of the tokenizer
   round trip. *)
From Coq Require Import QArith.
From TT Require Import Base.Prelude Gen.VttTables Model.VttTokenizer Model.VttReader Spec.VttSpec.
From TT Require Import Proofs.C11.Tokenizer Proofs.C11.Time Proofs.C11.Lines.
Local Open Scope Z_scope.

(* SEnd: an end tag that closes nothing (it does not name the innermost open element) *)
Inductive snode := SText (ps : list piece) | STs (t : tstamp) | STag (k : ctag) (cs : list snode) | SEnd (name : text).

Lemma snode_ind' (P : snode -> Prop) :
  (forall t, P (SText t)) -> (forall t, P (STs t)) -> (forall k cs, Forall P cs -> P (STag k cs)) ->
  (forall name, P (SEnd name)) -> forall n, P n.
Proof.
  intros Ht Hs Hg He. fix IH 1. intros [t|t|k cs|name]; [apply Ht|apply Hs| |apply He]. apply Hg.
  induction cs as [|c cs IHcs]; constructor; [apply IH|exact IHcs].
Qed.

(* the grammar derivation (Spec.VttSpec.cnode) of a tree *)
Definition piece_node (p : piece) : cnode := match p with PLit t => CText t | PRef r => CRef r end.
Fixpoint nodes_of (n : snode) : list cnode :=
  match n with
  | SText ps => map piece_node ps
  | STs t => [CTs t]
  | STag k cs => [CTag k (flat_map nodes_of cs)]
  | SEnd name => [CEnd name]
  end.

(* ---- well-formed trees: what the WebVTT syntax can express uniquely *)
(* a reference means what S says it means (the six names WebVTT lists; numeric references of scalar values) *)
Definition ref_good (r : cref) : Prop := ref_ok r /\ unescape (print_cref r) = cref_value r.
Definition piece_good (p : piece) : Prop := match p with PLit t => t <> [] | PRef r => ref_good r end.
(* the characters a spelled text shows, by S's reading of the references *)
Definition piece_svalue (p : piece) : text := match p with PLit t => t | PRef r => cref_value r end.
Definition pieces_svalue (ps : list piece) : text := flat_map piece_svalue ps.
Definition text_ok (ps : list piece) : Prop := ps <> [] /\ Forall piece_good ps /\ pieces_svalue ps <> [].

Definition annot_ok (a : text) : Prop := norm_annot a = a.
Definition tag_ok (k : ctag) : Prop :=
  match k with TgC cls => Forall class_ok cls | TgLang l => annot_ok l | TgV n => annot_ok n | _ => True end.
Definition is_text (n : snode) : bool := match n with SText _ => true | _ => false end.
Fixpoint no_adj (l : list snode) : Prop :=
  match l with
  | x :: l' => match l' with y :: _ => is_text x && is_text y = false | [] => True end /\ no_adj l'
  | [] => True
  end.
(* an end tag is ignored where it does not name (in lower case, as the reader compares) the element it sits in;
   `enc` is the name of that element, None at the top level of the cue text, where every end tag is ignored *)
Definition ignored_end (enc : option text) (name : text) : Prop :=
  Forall (fun c => c <> 62) name /\ match enc with Some t => lower name <> t | None => True end.
Inductive wf_node : option text -> snode -> Prop :=
| wf_text enc ps : text_ok ps -> wf_node enc (SText ps)
| wf_tsn enc t : wf_ts t -> wf_node enc (STs t)
| wf_tag enc k cs : tag_ok k -> Forall (wf_node (Some (tag_name k))) cs -> no_adj cs -> wf_node enc (STag k cs)
| wf_end enc name : ignored_end enc name -> wf_node enc (SEnd name).
Definition wf_nodes (ns : list snode) : Prop := Forall (wf_node None) ns /\ no_adj ns.

Lemma pieces_value_svalue ps : Forall piece_good ps -> pieces_value ps = pieces_svalue ps.
Proof.
  induction 1 as [|p ps Hp _ IH]; [reflexivity|]. unfold pieces_value, pieces_svalue in *. cbn [flat_map]. rewrite IH.
  destruct p as [t|r]; [reflexivity|]. destruct Hp as [_ E]. cbn [piece_value piece_svalue]. rewrite E. reflexivity.
Qed.
Lemma piece_good_ok p : piece_good p -> piece_ok p.
Proof. destruct p; cbn; [auto|intros [H _]; exact H]. Qed.

(* ---- the expected tree *)
Definition bg_attrs : attrs := mkAttrs None (Some default_bg_color) None false false false None.
Definition base_attrs (top : bool) : attrs := if top then bg_attrs else no_attrs.
Definition expected_attrs (k : ctag) (a : attrs) : attrs :=
  match k with
  | TgB => mkAttrs (a_begin a) (a_bg a) (a_color a) true (a_italic a) (a_under a) (a_lang a)
  | TgI => mkAttrs (a_begin a) (a_bg a) (a_color a) (a_bold a) true (a_under a) (a_lang a)
  | TgU => mkAttrs (a_begin a) (a_bg a) (a_color a) (a_bold a) (a_italic a) true (a_lang a)
  | TgC cls => fold_left apply_class cls a
  | TgLang l => mkAttrs (a_begin a) (a_bg a) (a_color a) (a_bold a) (a_italic a) (a_under a) (Some l)
  | TgV _ => a
  end.
(* the relative begin after a timestamp tag: a timestamp before the cue's begin is ignored *)
Definition ts_begin (pb : Q) (now : option Q) (t : tstamp) : option Q :=
  let ts := Qmake (ts_ms t) 1000 in if Qle_bool pb ts then Some (ts - pb)%Q else now.
Fixpoint lines_elems (top : bool) (now : option Q) (first : bool) (ls : list text) : list elem :=
  match ls with
  | [] => []
  | l :: ls' => (if first then [] else [EBr]) ++ ENode KSpan (with_begin now (base_attrs top)) [EText l] :: lines_elems top now false ls'
  end.
(* `now` (the relative begin set by the last timestamp) is threaded left to right through the whole tree *)
Fixpoint span_of (pb : Q) (top : bool) (now : option Q) (n : snode) {struct n} : list elem * option Q :=
  match n with
  | SText ps => (lines_elems top now true (split_on 10 (pieces_svalue ps)), now)
  | STs t => ([], ts_begin pb now t)
  | STag k cs =>
    let fix go (now : option Q) (cs : list snode) {struct cs} : list elem * option Q :=
      match cs with
      | [] => ([], now)
      | c :: cs' => let '(e1, n1) := span_of pb false now c in let '(e2, n2) := go n1 cs' in (e1 ++ e2, n2)
      end in
    let '(es, now') := go now cs in ([ENode KSpan (expected_attrs k (base_attrs top)) es], now')
  | SEnd _ => ([], now)                        (* ignored: no element, no effect on what follows *)
  end.
Fixpoint spans_of (pb : Q) (top : bool) (now : option Q) (ns : list snode) : list elem * option Q :=
  match ns with
  | [] => ([], now)
  | n :: ns' => let '(e1, n1) := span_of pb top now n in let '(e2, n2) := spans_of pb top n1 ns' in (e1 ++ e2, n2)
  end.
Lemma span_of_tag pb top now k cs :
  span_of pb top now (STag k cs) =
  let '(es, now') := spans_of pb false now cs in ([ENode KSpan (expected_attrs k (base_attrs top)) es], now').
Proof.
  cbn [span_of].
  match goal with |- (let '(es, now') := ?g now cs in _) = _ => assert (E : forall cs now, g now cs = spans_of pb false now cs) end.
  { induction cs0 as [|c cs0 IH]; intros now0; [reflexivity|]. cbn [spans_of]. cbn -[span_of].
    destruct (span_of pb false now0 c) as [e1 n1]. rewrite IH. reflexivity. }
  rewrite E. reflexivity.
Qed.

(* ---- items (printing side) and tokens (parsing side) of a tree *)
Definition start_token (k : ctag) : token :=
  match k with
  | TgB => TStart [98] None None
  | TgI => TStart [105] None None
  | TgU => TStart [117] None None
  | TgC [] => TStart [99] None None
  | TgC cls => TStart [99] (Some cls) None
  | TgLang l => TStart [108;97;110;103] (Some []) (Some l)
  | TgV n => TStart [118] (Some []) (Some n)
  end.
Fixpoint items_of (n : snode) : list item :=
  match n with
  | SText ps => [IStr ps]
  | STs t => [ITok (TTs (print_ts t))]
  | STag k cs => ITok (start_token k) :: flat_map items_of cs ++ [ITok (TEnd (tag_name k))]
  | SEnd name => [ITok (TEnd name)]
  end.
Definition tokens_of (n : snode) : list token := map item_token (items_of n).
Definition tokens_of_list (ns : list snode) : list token := map item_token (flat_map items_of ns).
Lemma tokens_of_list_cons n ns : tokens_of_list (n :: ns) = tokens_of n ++ tokens_of_list ns.
Proof. unfold tokens_of_list, tokens_of. cbn [flat_map]. apply map_app. Qed.
Lemma tokens_of_tag k cs : tokens_of (STag k cs) = start_token k :: tokens_of_list cs ++ [TEnd (tag_name k)].
Proof. unfold tokens_of, tokens_of_list. cbn [items_of map item_token]. rewrite map_app. reflexivity. Qed.

Lemma print_start k : tag_ok k -> print_token (start_token k) = print_open k.
Proof.
  destruct k as [| | |cls|l|n]; cbn [tag_ok]; intros H; try reflexivity.
  destruct cls; cbn; rewrite ?app_nil_r; reflexivity.
Qed.

Lemma items_print_app a b : items_print (a ++ b) = items_print a ++ items_print b.
Proof. unfold items_print. apply flat_map_app. Qed.
Lemma print_pieces ps : flat_map print_node (map piece_node ps) = pieces_print ps.
Proof.
  induction ps as [|p ps IH]; [reflexivity|]. unfold pieces_print in *. cbn [map flat_map]. rewrite IH.
  destruct p; reflexivity.
Qed.

Lemma print_tree : forall n enc, wf_node enc n -> flat_map print_node (nodes_of n) = items_print (items_of n).
Proof.
  induction n as [ps|t|k cs IH|name] using snode_ind'; intros enc W.
  - cbn [nodes_of items_of]. rewrite print_pieces. unfold items_print. cbn. rewrite app_nil_r. reflexivity.
  - cbn. rewrite !app_nil_r. reflexivity.
  - inversion W as [| |? ? ? Hk Hcs Hadj|]; subst.
    cbn [nodes_of items_of flat_map print_node]. rewrite app_nil_r.
    change (ITok (start_token k) :: flat_map items_of cs ++ [ITok (TEnd (tag_name k))])
      with ([ITok (start_token k)] ++ flat_map items_of cs ++ [ITok (TEnd (tag_name k))]).
    rewrite !items_print_app. unfold items_print at 1 3. cbn [flat_map item_print]. rewrite !app_nil_r.
    rewrite print_start by exact Hk. f_equal. f_equal.
    clear Hadj Hk W. induction cs as [|c cs IHcs]; [reflexivity|].
    inversion IH; subst. inversion Hcs; subst.
    cbn [flat_map]. rewrite flat_map_app, items_print_app. f_equal; [eauto|apply IHcs; assumption].
  - cbn. rewrite !app_nil_r. reflexivity.
Qed.
Lemma print_trees enc ns : Forall (wf_node enc) ns ->
  print_cue_text (flat_map nodes_of ns) = items_print (flat_map items_of ns).
Proof.
  induction 1 as [|n ns Hn _ IH]; [reflexivity|].
  unfold print_cue_text in *. cbn [flat_map]. rewrite flat_map_app, items_print_app, IH, (print_tree n enc) by exact Hn. reflexivity.
Qed.

(* ---- the item list of a well-formed tree is in normal form *)
Definition head_istr (l : list item) : bool := match l with i :: _ => is_istr i | [] => false end.
Fixpoint last_istr (l : list item) : bool :=
  match l with [] => false | i :: l' => match l' with [] => is_istr i | _ => last_istr l' end end.

Lemma nf_app : forall a b, nf_items a -> nf_items b -> last_istr a && head_istr b = false -> nf_items (a ++ b).
Proof.
  induction a as [|x a IH]; intros b Ha Hb Hl; [exact Hb|].
  destruct Ha as (Hx & Ha & Hadj). cbn [app nf_items]. split; [exact Hx|]. split.
  - apply IH; [exact Ha|exact Hb|]. destruct a as [|y a]; [reflexivity|exact Hl].
  - destruct a as [|y a]; cbn [app].
    + destruct b as [|z b]; [exact I|]. exact Hl.
    + exact Hadj.
Qed.

Lemma nf_start k : tag_ok k -> nf_token (start_token k).
Proof.
  unfold first_char, name_char.
  destruct k as [| | |cls|l|n]; cbn [tag_ok start_token nf_token]; intros H.
  1-3: split; [eexists; eexists; split; [reflexivity|split; [cbn; repeat split; lia|constructor]]|exact I].
  - destruct cls as [|c cls]; (split; [eexists; eexists; split; [reflexivity|split; [cbn; repeat split; lia|constructor]]|]);
      [exact I|split; [discriminate|exact H]].
  - unfold annot_ok in H. split.
    + eexists; eexists; split; [reflexivity|split; [cbn; repeat split; lia|]]. repeat constructor; lia.
    + split; [constructor|exact H].
  - unfold annot_ok in H. split.
    + eexists; eexists; split; [reflexivity|split; [cbn; repeat split; lia|constructor]].
    + split; [constructor|exact H].
Qed.
Lemma start_not_string k : is_string (start_token k) = false.
Proof. destruct k as [| | |[|]| |]; reflexivity. Qed.
Lemma nf_ts t : wf_ts t -> nf_token (TTs (print_ts t)).
Proof.
  intros W. destruct (print_ts_head t W) as (c & r & E & D). cbn [nf_token]. exists c, r. split; [exact E|].
  split; [apply dig_is_digit; exact D|].
  pose proof (print_ts_chars t W) as F. rewrite E in F. inversion F as [|? ? _ Fr]; subst.
  eapply Forall_impl; [|exact Fr]. cbn. unfold dig. intros a [Ha|[Ha|Ha]]; lia.
Qed.
Lemma nf_end_tag tag : Forall (fun c => c <> 62) tag -> nf_item (ITok (TEnd tag)).
Proof. intros H. split; [exact H|reflexivity]. Qed.
Lemma nf_end k : nf_item (ITok (TEnd (tag_name k))).
Proof. apply nf_end_tag. destruct k; cbn; repeat constructor; lia. Qed.
Lemma nf_text ps : text_ok ps -> nf_item (IStr ps).
Proof.
  intros (Hne & Hg & Hv). split; [exact Hne|]. split.
  - eapply Forall_impl; [|exact Hg]. apply piece_good_ok.
  - rewrite pieces_value_svalue by exact Hg. exact Hv.
Qed.

Lemma items_head n : head_istr (items_of n) = is_text n.
Proof. destruct n as [t|t|k cs|name]; reflexivity. Qed.
Lemma last_istr_app : forall a b, b <> [] -> last_istr (a ++ b) = last_istr b.
Proof.
  induction a as [|x a IH]; intros b Hb; [reflexivity|].
  cbn [app]. specialize (IH b Hb). destruct (a ++ b) eqn:E.
  - destruct a; [cbn in E; contradiction|discriminate].
  - cbn [last_istr] in *. exact IH.
Qed.
Lemma items_last n : last_istr (items_of n) = is_text n.
Proof.
  destruct n as [t|t|k cs|name]; [reflexivity|reflexivity| |reflexivity]. cbn [items_of is_text].
  change (ITok (start_token k) :: flat_map items_of cs ++ [ITok (TEnd (tag_name k))])
    with ((ITok (start_token k) :: flat_map items_of cs) ++ [ITok (TEnd (tag_name k))]).
  rewrite last_istr_app by discriminate. reflexivity.
Qed.
Lemma items_nonempty n : items_of n <> [].
Proof. destruct n; discriminate. Qed.

Lemma nf_nodes : forall enc ns, Forall (fun n => forall enc, wf_node enc n -> nf_items (items_of n)) ns ->
  Forall (wf_node enc) ns -> no_adj ns ->
  nf_items (flat_map items_of ns) /\
  head_istr (flat_map items_of ns) = match ns with n :: _ => is_text n | [] => false end.
Proof.
  intros enc. induction ns as [|n ns IH]; intros HP Hw Hadj; [split; [exact I|reflexivity]|].
  inversion HP; subst. inversion Hw; subst. destruct Hadj as [Hxy Hadj].
  destruct (IH H2 H4 Hadj) as [Hnf Hhead]. cbn [flat_map]. split.
  - apply nf_app; [eauto|exact Hnf|]. rewrite items_last, Hhead. destruct ns; [apply andb_false_r|exact Hxy].
  - pose proof (items_nonempty n) as Hne. pose proof (items_head n) as Hh.
    destruct (items_of n) eqn:E; [contradiction|]. exact Hh.
Qed.

Lemma nf_tree : forall n enc, wf_node enc n -> nf_items (items_of n).
Proof.
  induction n as [t|t|k cs IH|name] using snode_ind'; intros enc W; inversion W as [? ? Ht|? ? Ht|? ? ? Hk Hcs Hadj|? ? Hn]; subst.
  - cbn [items_of nf_items]. split; [apply nf_text; exact Ht|split; exact I].
  - cbn [items_of nf_items]. split; [split; [apply nf_ts; exact Ht|reflexivity]|split; exact I].
  - cbn [items_of].
    destruct (nf_nodes _ cs IH Hcs Hadj) as [Hnf _].
    change (ITok (start_token k) :: flat_map items_of cs ++ [ITok (TEnd (tag_name k))])
      with ([ITok (start_token k)] ++ flat_map items_of cs ++ [ITok (TEnd (tag_name k))]).
    apply nf_app.
    + cbn. split; [split; [apply nf_start; exact Hk|apply start_not_string]|split; exact I].
    + apply nf_app; [exact Hnf|cbn; split; [apply nf_end|split; exact I]|apply andb_false_r].
    + reflexivity.
  - cbn [items_of nf_items]. split; [apply nf_end_tag; apply Hn|split; exact I].
Qed.
Lemma nf_forest enc ns : Forall (wf_node enc) ns -> no_adj ns -> nf_items (flat_map items_of ns).
Proof.
  intros Hw Hadj. apply (nf_nodes enc); [|exact Hw|exact Hadj].
  apply Forall_forall. intros n _. apply nf_tree.
Qed.
Lemma nf_trees ns : wf_nodes ns -> nf_items (flat_map items_of ns).
Proof. intros [Hw Hadj]. apply (nf_forest None); assumption. Qed.

(* ---- the parser on the tokens of a tree *)
(* the name of the innermost open tag (self.open_tags[-1][0]) *)
Definition top_tag (s : pstate) : option text := match p_stack s with [] => None | f :: _ => Some (frame_tag f) end.
(* the current parent is the paragraph or a span *)
Definition regular (s : pstate) : Prop :=
  match p_stack s with [] => True | FNode _ KSpan _ _ :: _ => True | _ => False end.
(* the current parent is the rt element of the open ruby, opened by <rt> directly inside <ruby> *)
Definition in_rt (s : pstate) : Prop :=
  match p_stack s with FNode tg KRt _ _ :: FRuby tg2 _ _ :: _ => tg = s_rt /\ tg2 = s_ruby | _ => False end.
Definition add_all (es : list elem) (s : pstate) : pstate := fold_left (fun s e => add_leaf e s) es s.
Definition set_begin (b : option Q) (s : pstate) : pstate := mkP (p_root s) (p_stack s) (p_ruby s) b.
(* the effect of a parsed forest: its elements are appended to the current parent, self.begin becomes its last time *)
Definition apply_res (r : list elem * option Q) (s : pstate) : pstate := set_begin (snd r) (add_all (fst r) s).

Lemma add_leaf_facts e s :
  parent_is_p (add_leaf e s) = parent_is_p s /\ p_begin (add_leaf e s) = p_begin s /\
  p_ruby (add_leaf e s) = p_ruby s /\ top_tag (add_leaf e s) = top_tag s /\
  match p_stack s with
  | [] => p_stack (add_leaf e s) = []
  | FNode tg k a d :: st => p_stack (add_leaf e s) = FNode tg k a (d ++ [e]) :: st
  | FRuby tg b t :: st => p_stack (add_leaf e s) = FRuby tg b t :: st
  end.
Proof.
  destruct s as [root st rb bg]. unfold add_leaf, attach, parent_is_p, top_tag. cbn [p_ruby p_stack p_root p_begin].
  destruct st as [|[tg k a d|tg b t] st]; cbn [p_ruby p_stack p_begin is_nil frame_tag]; repeat split; reflexivity.
Qed.
Lemma regular_add_leaf e s : regular s -> regular (add_leaf e s).
Proof.
  unfold regular. intros T. destruct (add_leaf_facts e s) as (_ & _ & _ & _ & S').
  destruct (p_stack s) as [|[tg [| |] a d|tg b t] st]; try contradiction; rewrite S'; exact I.
Qed.
Lemma in_rt_add_leaf e s : in_rt s -> in_rt (add_leaf e s).
Proof.
  unfold in_rt. intros T. destruct (add_leaf_facts e s) as (_ & _ & _ & _ & S').
  destruct (p_stack s) as [|[tg [| |] a d|tg b t] st]; try contradiction; rewrite S'; exact T.
Qed.
Lemma add_all_facts es : forall s,
  parent_is_p (add_all es s) = parent_is_p s /\ p_begin (add_all es s) = p_begin s /\
  p_ruby (add_all es s) = p_ruby s /\ top_tag (add_all es s) = top_tag s.
Proof.
  induction es as [|e es IH]; intros s; [repeat split; reflexivity|].
  cbn [add_all fold_left]. destruct (add_leaf_facts e s) as (P & B & R & T & _).
  destruct (IH (add_leaf e s)) as (P2 & B2 & R2 & T2). unfold add_all in *. rewrite P2, B2, R2, T2. repeat split; assumption.
Qed.
Lemma regular_add_all es : forall s, regular s -> regular (add_all es s).
Proof. induction es as [|e es IH]; intros s R; [exact R|]. cbn [add_all fold_left]. apply IH. apply regular_add_leaf. exact R. Qed.
Lemma in_rt_add_all es : forall s, in_rt s -> in_rt (add_all es s).
Proof. induction es as [|e es IH]; intros s R; [exact R|]. cbn [add_all fold_left]. apply IH. apply in_rt_add_leaf. exact R. Qed.
Lemma add_all_app a b s : add_all (a ++ b) s = add_all b (add_all a s).
Proof. unfold add_all. apply fold_left_app. Qed.
Lemma set_begin_same s : set_begin (p_begin s) s = s.
Proof. destruct s; reflexivity. Qed.
Lemma add_leaf_set_begin e b s : add_leaf e (set_begin b s) = set_begin b (add_leaf e s).
Proof. destruct s as [r st rb bg]. unfold add_leaf, set_begin. cbn [p_root p_stack p_ruby p_begin]. destruct (attach e r st). reflexivity. Qed.
Lemma add_all_set_begin es : forall b s, add_all es (set_begin b s) = set_begin b (add_all es s).
Proof.
  induction es as [|e es IH]; intros b s; [reflexivity|]. cbn [add_all fold_left].
  rewrite add_leaf_set_begin. apply IH.
Qed.
Lemma apply_facts r s :
  parent_is_p (apply_res r s) = parent_is_p s /\ p_begin (apply_res r s) = snd r /\ top_tag (apply_res r s) = top_tag s.
Proof. unfold apply_res. destruct (add_all_facts (fst r) s) as (P & _ & _ & T). repeat split; [exact P|exact T]. Qed.
Lemma regular_apply r s : regular s -> regular (apply_res r s).
Proof. intros R. apply (regular_add_all (fst r)) in R. exact R. Qed.
Lemma in_rt_apply r s : in_rt s -> in_rt (apply_res r s).
Proof. intros R. apply (in_rt_add_all (fst r)) in R. exact R. Qed.
Lemma apply_res_app e1 n1 e2 n2 s : apply_res (e2, n2) (apply_res (e1, n1) s) = apply_res (e1 ++ e2, n2) s.
Proof.
  unfold apply_res. cbn [fst snd]. rewrite add_all_set_begin, add_all_app.
  destruct (add_all e2 (add_all e1 s)); reflexivity.
Qed.
Lemma apply_res_nil s : apply_res ([], p_begin s) s = s.
Proof. unfold apply_res. cbn [fst snd add_all fold_left]. apply set_begin_same. Qed.

(* the parent is the paragraph or a span, and the innermost open tag is `enc` *)
Definition at_tag (enc : option text) (s : pstate) : Prop := regular s /\ top_tag s = enc.
Lemma at_tag_apply enc r s : at_tag enc s -> at_tag enc (apply_res r s).
Proof. intros [R T]. split; [apply regular_apply; exact R|]. destruct (apply_facts r s) as (_ & _ & T'). rewrite T'. exact T. Qed.

(* a span may be added to the paragraph, a span or an rt *)
Lemma push_span_ok s : regular s \/ in_rt s -> push_check s CSpan = None.
Proof.
  destruct s as [root st rb bg]. unfold regular, in_rt, push_check. cbn [p_ruby p_stack].
  intros [T|T]; destruct st as [|[tg [| |] a d|tg b t] st]; try reflexivity; contradiction.
Qed.
Lemma push_br_ok s : regular s -> push_check s CBr = None.
Proof.
  destruct s as [root st rb bg]. unfold regular, push_check. cbn [p_ruby p_stack].
  intros T; destruct st as [|[tg [| |] a d|tg b t] st]; try reflexivity; contradiction.
Qed.

Lemma make_span_attrs_eq s : make_span_attrs s = base_attrs (parent_is_p s).
Proof. unfold make_span_attrs, base_attrs. destruct (parent_is_p s); reflexivity. Qed.

Lemma push_line_ok l s : regular s \/ in_rt s ->
  push_text_line l s = inl (add_leaf (ENode KSpan (with_begin (p_begin s) (base_attrs (parent_is_p s))) [EText l]) s).
Proof.
  intros R. unfold push_text_line.
  rewrite make_span_attrs_eq. rewrite (push_span_ok s R).
  destruct (p_stack s) as [|[tg k a d|tg b t] st] eqn:Es; try reflexivity.
  exfalso. destruct R as [T|T]; [unfold regular in T|unfold in_rt in T]; rewrite Es in T; exact T.
Qed.

Lemma push_lines : forall ls first s, regular s ->
  push_text_lines first ls s = inl (add_all (lines_elems (parent_is_p s) (p_begin s) first ls) s).
Proof.
  induction ls as [|l ls IH]; intros first s R; [reflexivity|].
  cbn [push_text_lines lines_elems].
  destruct first.
  - rewrite push_line_ok by (left; exact R).
    pose proof (regular_add_leaf (ENode KSpan (with_begin (p_begin s) (base_attrs (parent_is_p s))) [EText l]) s R) as R1.
    destruct (add_leaf_facts (ENode KSpan (with_begin (p_begin s) (base_attrs (parent_is_p s))) [EText l]) s) as (P1 & B1 & _).
    rewrite IH by exact R1. rewrite P1, B1. reflexivity.
  - rewrite push_br_ok by exact R.
    pose proof (regular_add_leaf EBr s R) as R0. destruct (add_leaf_facts EBr s) as (P0 & B0 & _).
    rewrite push_line_ok by (left; exact R0). rewrite P0, B0.
    pose proof (regular_add_leaf (ENode KSpan (with_begin (p_begin s) (base_attrs (parent_is_p s))) [EText l]) _ R0) as R1.
    destruct (add_leaf_facts (ENode KSpan (with_begin (p_begin s) (base_attrs (parent_is_p s))) [EText l]) (add_leaf EBr s)) as (P1 & B1 & _).
    rewrite IH by exact R1. rewrite P1, B1, P0, B0. reflexivity.
Qed.

Lemma split_no_lf : forall t cur, mem_z 10 t = false -> split_on_aux 10 cur t = [cur ++ t].
Proof.
  induction t as [|c t IH]; intros cur H; [rewrite app_nil_r; reflexivity|].
  unfold mem_z in H. cbn [existsb] in H. apply orb_false_iff in H as [Hc Ht].
  cbn [split_on_aux]. replace (c =? 10) with false by lia. rewrite IH by exact Ht. rewrite <- app_assoc. reflexivity.
Qed.

Lemma handle_tokens_app pb : forall a b s,
  handle_tokens pb (a ++ b) s =
  match handle_tokens pb a s with inr e => inr e | inl s' => handle_tokens pb b s' end.
Proof.
  induction a as [|t a IH]; intros b s; [reflexivity|]. cbn [app handle_tokens].
  destruct (handle_token pb t s); [apply IH|reflexivity].
Qed.

Lemma add_all_top es : forall r tg k a d st rb bg,
  add_all es (mkP r (FNode tg k a d :: st) rb bg) = mkP r (FNode tg k a (d ++ es) :: st) rb bg.
Proof.
  induction es as [|e es IH]; intros; [rewrite app_nil_r; reflexivity|].
  cbn [add_all fold_left]. unfold add_leaf at 2. cbn [attach p_root p_stack p_ruby p_begin].
  fold (add_all es (mkP r (FNode tg k a (d ++ [e]) :: st) rb bg)). rewrite IH, <- app_assoc. reflexivity.
Qed.
(* closing a span whose content was the forest r: the element is appended to its parent, self.begin stays *)
Lemma pop_open r tg a s : pop (apply_res r (open_node tg KSpan a s)) = apply_res ([ENode KSpan a (fst r)], snd r) s.
Proof.
  destruct s as [rt st rb bg]. unfold apply_res, open_node, set_begin. cbn [p_root p_stack p_ruby p_begin fst snd].
  rewrite add_all_top. cbn [add_all fold_left]. unfold pop, add_leaf, attach_closed. cbn [p_root p_stack p_ruby p_begin close_frame app].
  destruct (attach (ENode KSpan a (fst r)) rt st). reflexivity.
Qed.
Lemma open_stack r tg k a s : p_stack (apply_res r (open_node tg k a s)) = FNode tg k a (fst r) :: p_stack s.
Proof.
  destruct s as [rt st rb bg]. unfold apply_res, open_node, set_begin. cbn [p_root p_stack p_ruby p_begin fst snd].
  rewrite add_all_top. reflexivity.
Qed.

Lemma text_eqb_refl t : text_eqb t t = true.
Proof. apply text_eqb_eq. reflexivity. Qed.
Lemma text_eqb_neq a b : a <> b -> text_eqb a b = false.
Proof. intros H. destruct (text_eqb a b) eqn:E; [|reflexivity]. apply text_eqb_eq in E. contradiction. Qed.

Lemma lower_tag_name k : lower (tag_name k) = tag_name k.
Proof. destruct k; reflexivity. Qed.
Lemma start_token_tag k : match start_token k with TStart tag _ _ => lower tag = tag_name k | _ => False end.
Proof. destruct k as [| | |[|c cls]|l|n]; reflexivity. Qed.

Lemma style_tag_expected k a :
  match start_token k with
  | TStart tag cls an => style_tag (lower tag) cls an a = expected_attrs k a
  | _ => False
  end.
Proof. destruct k as [| | |[|c cls]|l|n]; reflexivity. Qed.

Lemma handle_start_tag k s : push_check s CSpan = None ->
  match start_token k with
  | TStart tag cls an =>
    handle_start tag cls an s = inl (open_node (tag_name k) KSpan (expected_attrs k (base_attrs (parent_is_p s))) s)
  | _ => False
  end.
Proof.
  intros R. pose proof (style_tag_expected k (make_span_attrs s)) as H. pose proof (start_token_tag k) as Ht.
  rewrite make_span_attrs_eq in H.
  destruct (start_token k) as [|tag cls an| |] eqn:E; try contradiction.
  unfold handle_start. rewrite Ht.
  replace (starts_with s_ruby (tag_name k)) with false by (destruct k; reflexivity).
  replace (starts_with s_rt (tag_name k)) with false by (destruct k; reflexivity). cbn [andb].
  rewrite R. rewrite make_span_attrs_eq. rewrite <- Ht at 2. rewrite H. reflexivity.
Qed.

Lemma regular_open tg a s :
  at_tag (Some tg) (open_node tg KSpan a s) /\ parent_is_p (open_node tg KSpan a s) = false /\
  p_begin (open_node tg KSpan a s) = p_begin s.
Proof. unfold at_tag, regular, top_tag, open_node, parent_is_p. cbn [p_ruby p_stack p_begin frame_tag is_nil]. repeat split; auto. Qed.

Lemma handle_ts_print pb t s : wf_ts t ->
  handle_ts pb (print_ts t) s = inl (apply_res ([], ts_begin pb (p_begin s) t) s).
Proof.
  intros W. unfold handle_ts, apply_res, ts_begin. rewrite exact_time by exact W. cbn [fst snd add_all fold_left].
  destruct (Qle_bool pb (Qmake (ts_ms t) 1000)); [reflexivity|]. rewrite set_begin_same. reflexivity.
Qed.

(* an end tag that does not name the innermost open tag is ignored *)
Lemma handle_end_ignored enc name s : at_tag enc s -> ignored_end enc name -> handle_end name s = s.
Proof.
  intros [R T] [_ Hn]. unfold handle_end. unfold regular in R. unfold top_tag in T.
  destruct (p_stack s) as [|[tg [| |] a d|tg b t] st]; try contradiction; [reflexivity|].
  subst enc. cbn [frame_tag]. rewrite text_eqb_neq by (intros E; apply Hn; symmetry; exact E). reflexivity.
Qed.

(* what one node does to the parser state, the innermost open tag being enc *)
Definition node_eqn (pb : Q) (enc : option text) (n : snode) : Prop := forall rest s, at_tag enc s ->
  handle_tokens pb (tokens_of n ++ rest) s =
  handle_tokens pb rest (apply_res (span_of pb (parent_is_p s) (p_begin s) n) s).

(* a list of nodes, over any class of states that is closed under appending parsed forests *)
Lemma parse_list pb (oks : pstate -> Prop) (okn : snode -> Prop) :
  (forall r s, oks s -> oks (apply_res r s)) ->
  forall cs, Forall (fun n => okn n -> forall rest s, oks s ->
                       handle_tokens pb (tokens_of n ++ rest) s =
                       handle_tokens pb rest (apply_res (span_of pb (parent_is_p s) (p_begin s) n) s)) cs ->
  Forall okn cs -> forall rest s, oks s ->
  handle_tokens pb (tokens_of_list cs ++ rest) s =
  handle_tokens pb rest (apply_res (spans_of pb (parent_is_p s) (p_begin s) cs) s).
Proof.
  intros Hclosed. induction cs as [|c cs IHc]; intros HP Hw rest s R.
  - cbn [tokens_of_list flat_map map app spans_of]. rewrite apply_res_nil. reflexivity.
  - inversion HP; subst. inversion Hw; subst.
    rewrite tokens_of_list_cons. cbn [spans_of]. rewrite <- app_assoc. rewrite H1 by assumption.
    destruct (span_of pb (parent_is_p s) (p_begin s) c) as [e1 n1] eqn:E1.
    destruct (apply_facts (e1, n1) s) as (P' & B' & _).
    rewrite IHc; [|assumption|assumption|apply Hclosed; exact R].
    rewrite P', B'. cbn [snd]. destruct (spans_of pb (parent_is_p s) n1 cs) as [e2 n2].
    rewrite apply_res_app. reflexivity.
Qed.

(* an element: from any state whose current parent accepts a span; its own end tag closes it *)
Lemma parse_tag pb k cs : tag_ok k -> Forall (wf_node (Some (tag_name k))) cs ->
  Forall (fun n => wf_node (Some (tag_name k)) n -> node_eqn pb (Some (tag_name k)) n) cs ->
  forall rest s, push_check s CSpan = None ->
  handle_tokens pb (tokens_of (STag k cs) ++ rest) s =
  handle_tokens pb rest (apply_res (span_of pb (parent_is_p s) (p_begin s) (STag k cs)) s).
Proof.
  intros Hk Hcs IH rest s Hpush.
  rewrite tokens_of_tag. cbn [app handle_tokens]. pose proof (handle_start_tag k s Hpush) as Hs.
  destruct (start_token k) as [|tag cls an| |] eqn:Et; try contradiction.
  cbn [handle_token]. rewrite Hs.
  set (a := expected_attrs k (base_attrs (parent_is_p s))).
  destruct (regular_open (tag_name k) a s) as (R1 & P1 & B1).
  rewrite <- app_assoc.
  rewrite (parse_list pb (at_tag (Some (tag_name k))) (wf_node (Some (tag_name k))) (at_tag_apply _) cs IH Hcs _ _ R1). rewrite P1, B1.
  cbn [app handle_tokens handle_token].
  rewrite span_of_tag. destruct (spans_of pb false (p_begin s) cs) as [es now'] eqn:Es.
  unfold handle_end. rewrite open_stack. cbn [frame_tag fst]. rewrite lower_tag_name, text_eqb_refl.
  rewrite pop_open. reflexivity.
Qed.

Lemma parse_tree pb : forall n enc, wf_node enc n -> node_eqn pb enc n.
Proof.
  induction n as [ps|t|k cs IH|name] using snode_ind'; intros enc W rest s R.
  - inversion W as [? ? (Hne & Hg & Hv)| | |]; subst.
    unfold tokens_of. cbn [items_of map item_token app handle_tokens handle_token span_of]. unfold handle_string.
    rewrite pieces_value_svalue by exact Hg.
    rewrite push_lines by (apply R). unfold apply_res. cbn [fst snd].
    rewrite <- add_all_set_begin, set_begin_same. reflexivity.
  - inversion W as [|? ? Ht| |]; subst.
    unfold tokens_of. cbn [items_of map item_token app handle_tokens handle_token span_of].
    rewrite handle_ts_print by exact Ht. reflexivity.
  - inversion W as [| |? ? ? Hk Hcs Hadj|]; subst.
    apply parse_tag; [exact Hk|exact Hcs| |apply push_span_ok; left; apply R].
    eapply Forall_impl; [|exact IH]. cbn. intros n Hn Wn. apply Hn. exact Wn.
  - inversion W as [| | |? ? Hn]; subst.
    unfold tokens_of. cbn [items_of map item_token app handle_tokens handle_token span_of].
    rewrite (handle_end_ignored enc name s R Hn). rewrite apply_res_nil. reflexivity.
Qed.

Lemma parse_trees pb enc : forall ns, Forall (wf_node enc) ns -> forall rest s, at_tag enc s ->
  handle_tokens pb (tokens_of_list ns ++ rest) s =
  handle_tokens pb rest (apply_res (spans_of pb (parent_is_p s) (p_begin s) ns) s).
Proof.
  intros ns Hw. apply (parse_list pb (at_tag enc) (wf_node enc) (at_tag_apply enc)); [|exact Hw].
  apply Forall_forall. intros n _ W. apply parse_tree. exact W.
Qed.

Lemma add_all_root es : forall r bg, add_all es (mkP r [] false bg) = mkP (r ++ es) [] false bg.
Proof.
  induction es as [|e es IH]; intros r bg; [rewrite app_nil_r; reflexivity|].
  cbn [add_all fold_left]. unfold add_leaf at 2. cbn [attach p_root p_stack p_ruby p_begin].
  fold (add_all es (mkP (r ++ [e]) [] false bg)). rewrite IH, <- app_assoc. reflexivity.
Qed.

(* the cue tree theorem for every tree without ruby, end tags that close nothing included *)
Theorem tree_roundtrip pb ns : wf_nodes ns ->
  parse_cue_text pb (print_cue_text (flat_map nodes_of ns)) = inl (fst (spans_of pb true None ns)).
Proof.
  intros W. unfold parse_cue_text. rewrite (print_trees None) by (apply W).
  rewrite tokenizer_items by (apply nf_trees; exact W).
  fold (tokens_of_list ns). rewrite <- (app_nil_r (tokens_of_list ns)).
  rewrite (parse_trees pb None); [|apply W|split; [exact I|reflexivity]].
  cbn [handle_tokens]. unfold apply_res. cbn [parent_is_p p_stack p_begin is_nil].
  rewrite add_all_root. reflexivity.
Qed.


(* ================================================================ elements whose end tag is missing
   A cue text that ends inside elements: a forest, then optionally a start tag that nothing closes followed by the
   same again.  (An end tag that names an outer element while an inner one is open is ignored - SEnd - so the outer
   one is not closed either: this is the general shape of a cue text of text, timestamps, b/i/u/c/lang/v tags and end
   tags in which some end tags are missing.)  Every unclosed element lasts to the end of the cue text. *)
Inductive otree := ODone (ns : list snode) | OOpen (ns : list snode) (k : ctag) (inner : otree).
Fixpoint onodes (t : otree) : list cnode :=
  match t with
  | ODone ns => flat_map nodes_of ns
  | OOpen ns k inner => flat_map nodes_of ns ++ [COpen k (onodes inner)]
  end.
Fixpoint oitems (t : otree) : list item :=
  match t with
  | ODone ns => flat_map items_of ns
  | OOpen ns k inner => flat_map items_of ns ++ ITok (start_token k) :: oitems inner
  end.
Fixpoint wf_otree (enc : option text) (t : otree) : Prop :=
  match t with
  | ODone ns => Forall (wf_node enc) ns /\ no_adj ns
  | OOpen ns k inner => Forall (wf_node enc) ns /\ no_adj ns /\ tag_ok k /\ wf_otree (Some (tag_name k)) inner
  end.
Fixpoint ospans (pb : Q) (top : bool) (now : option Q) (t : otree) : list elem :=
  match t with
  | ODone ns => fst (spans_of pb top now ns)
  | OOpen ns k inner =>
    let '(es, n1) := spans_of pb top now ns in
    es ++ [ENode KSpan (expected_attrs k (base_attrs top)) (ospans pb false n1 inner)]
  end.

Lemma print_otree : forall t enc, wf_otree enc t -> print_cue_text (onodes t) = items_print (oitems t).
Proof.
  induction t as [ns|ns k inner IH]; intros enc W.
  - apply (print_trees enc). apply W.
  - destruct W as (Hw & _ & Hk & Hi). cbn [onodes oitems]. unfold print_cue_text in *.
    rewrite flat_map_app, items_print_app. fold (print_cue_text (flat_map nodes_of ns)). rewrite (print_trees enc) by exact Hw.
    f_equal. cbn [flat_map print_node]. rewrite app_nil_r. rewrite (IH _ Hi).
    rewrite <- print_start by exact Hk. reflexivity.
Qed.
Lemma nf_otree : forall t enc, wf_otree enc t -> nf_items (oitems t).
Proof.
  induction t as [ns|ns k inner IH]; intros enc W.
  - apply (nf_forest enc); apply W.
  - destruct W as (Hw & Hadj & Hk & Hi). cbn [oitems].
    apply nf_app; [apply (nf_forest enc); assumption| |apply andb_false_r].
    change (ITok (start_token k) :: oitems inner) with ([ITok (start_token k)] ++ oitems inner).
    apply nf_app; [|apply (IH _ Hi)|reflexivity].
    cbn. split; [split; [apply nf_start; exact Hk|apply start_not_string]|split; exact I].
Qed.

(* the end of the cue text: every open element is closed, innermost first *)
Definition finish (s : pstate) : list elem := p_root (close_all (length (p_stack s)) s).
Lemma pop_set_begin b s : pop (set_begin b s) = set_begin b (pop s).
Proof.
  destruct s as [r st rb bg]. unfold pop, set_begin. cbn [p_root p_stack p_ruby p_begin].
  destruct st as [|f st]; [reflexivity|]. destruct (attach_closed f r st). reflexivity.
Qed.
Lemma close_all_set_begin b : forall n s, close_all n (set_begin b s) = set_begin b (close_all n s).
Proof.
  induction n as [|n IH]; intros s; [reflexivity|]. cbn [close_all].
  change (p_stack (set_begin b s)) with (p_stack s). destruct (p_stack s); [reflexivity|].
  rewrite pop_set_begin. apply IH.
Qed.
Lemma finish_set_begin b s : finish (set_begin b s) = finish s.
Proof. unfold finish. change (p_stack (set_begin b s)) with (p_stack s). rewrite close_all_set_begin. reflexivity. Qed.
Lemma add_leaf_length e s : length (p_stack (add_leaf e s)) = length (p_stack s).
Proof.
  destruct (add_leaf_facts e s) as (_ & _ & _ & _ & S'). destruct (p_stack s) as [|[tg k a d|tg b t] st]; rewrite S'; reflexivity.
Qed.
Lemma add_all_length es : forall s, length (p_stack (add_all es s)) = length (p_stack s).
Proof.
  induction es as [|e es IH]; intros s; [reflexivity|]. cbn [add_all fold_left].
  fold (add_all es (add_leaf e s)). rewrite IH. apply add_leaf_length.
Qed.
(* an unclosed span with content es' ends at the end of the text like a closed one *)
Lemma finish_open es' tg a s :
  finish (add_all es' (open_node tg KSpan a s)) = finish (add_all [ENode KSpan a es'] s).
Proof.
  unfold finish at 1. rewrite add_all_length. cbn [open_node p_stack length close_all].
  pose proof (open_stack (es', p_begin s) tg KSpan a s) as Es. unfold apply_res in Es. cbn [fst snd] in Es.
  change (p_stack (set_begin (p_begin s) (add_all es' (open_node tg KSpan a s)))) with (p_stack (add_all es' (open_node tg KSpan a s))) in Es.
  rewrite Es.
  pose proof (pop_open (es', p_begin s) tg a s) as Ep. unfold apply_res in Ep. cbn [fst snd] in Ep.
  rewrite pop_set_begin in Ep.
  assert (E2 : pop (add_all es' (open_node tg KSpan a s)) = add_all [ENode KSpan a es'] s).
  { destruct (add_all_facts es' (open_node tg KSpan a s)) as (_ & B & _).
    rewrite <- (set_begin_same (pop (add_all es' (open_node tg KSpan a s)))).
    replace (p_begin (pop (add_all es' (open_node tg KSpan a s)))) with (p_begin s).
    - rewrite Ep. destruct (add_all_facts [ENode KSpan a es'] s) as (_ & B2 & _).
      rewrite <- B2 at 1. apply set_begin_same.
    - unfold pop. rewrite Es. destruct (attach_closed _ _ _). cbn [p_begin]. rewrite B. reflexivity. }
  rewrite E2. unfold finish. rewrite add_all_length. reflexivity.
Qed.

Lemma parse_otree pb : forall t enc, wf_otree enc t -> forall s, at_tag enc s ->
  exists s', handle_tokens pb (map item_token (oitems t)) s = inl s' /\
             finish s' = finish (add_all (ospans pb (parent_is_p s) (p_begin s) t) s).
Proof.
  induction t as [ns|ns k inner IH]; intros enc W s R.
  - destruct W as [Hw _]. cbn [oitems ospans]. fold (tokens_of_list ns). rewrite <- (app_nil_r (tokens_of_list ns)).
    rewrite (parse_trees pb enc ns Hw [] s R). cbn [handle_tokens]. eexists. split; [reflexivity|].
    unfold apply_res. apply finish_set_begin.
  - destruct W as (Hw & _ & Hk & Hi). cbn [oitems ospans]. rewrite map_app. fold (tokens_of_list ns).
    rewrite (parse_trees pb enc ns Hw _ s R).
    destruct (spans_of pb (parent_is_p s) (p_begin s) ns) as [es n1].
    set (s1 := apply_res (es, n1) s).
    destruct (apply_facts (es, n1) s) as (P1 & B1 & _). fold s1 in P1, B1. cbn [snd] in B1.
    pose proof (at_tag_apply enc (es, n1) s R) as R1. fold s1 in R1.
    cbn [map item_token handle_tokens].
    pose proof (handle_start_tag k s1 (push_span_ok s1 (or_introl (proj1 R1)))) as Hs.
    destruct (start_token k) as [|tag cls an| |] eqn:Et; try contradiction.
    cbn [handle_token]. rewrite Hs. rewrite P1.
    set (a := expected_attrs k (base_attrs (parent_is_p s))).
    destruct (regular_open (tag_name k) a s1) as (R2 & P2 & B2).
    destruct (IH _ Hi _ R2) as (s' & E & F). exists s'. split; [exact E|].
    rewrite F, P2, B2, B1. rewrite finish_open. unfold s1, apply_res. cbn [fst snd].
    rewrite add_all_set_begin, finish_set_begin. rewrite add_all_app. reflexivity.
Qed.

(* the cue tree theorem for cue texts in which end tags are missing *)
Theorem tree_unclosed_roundtrip pb t : wf_otree None t ->
  parse_cue_text pb (print_cue_text (onodes t)) = inl (ospans pb true None t).
Proof.
  intros W. unfold parse_cue_text. rewrite (print_otree t None W).
  rewrite tokenizer_items by (apply (nf_otree t None W)).
  destruct (parse_otree pb t None W (mkP [] [] false None)) as (s' & E & F); [split; [exact I|reflexivity]|].
  rewrite E. fold (finish s'). rewrite F. cbn [parent_is_p p_stack p_begin is_nil].
  rewrite add_all_root. reflexivity.
Qed.

(* the WebVTT default colour classes mean the same colours in the reader's table (finite check) *)
Lemma default_classes_agree :
  forallb (fun nc : text * Z => match assoc_tz (fst nc) named_colors with Some c => c =? snd nc | None => false end)
          webvtt_colors = true.
Proof. vm_compute. reflexivity. Qed.

(* the six references WebVTT allows by name are good *)
Lemma webvtt_refs_good :
  Forall ref_good (map RefNamed [[97;109;112]; [108;116]; [103;116]; [108;114;109]; [114;108;109]; [110;98;115;112]]).
Proof.
  repeat constructor; try (apply named_ref_ok; repeat constructor; lia); vm_compute; reflexivity.
Qed.

(* ================================================================ ruby (outside the recorded finding ruby-structure)
   A ruby element at the top level of the cue: <ruby> base <rt> annotation </rt> base <rt> … </rt> </ruby>, every base
   one line of text (literal characters and references), every annotation a forest of text, timestamps, elements and
   ignored end tags with no line break directly inside rt; the last </rt> may be omitted (TRubyOmit: </ruby> then ends
   the ruby text as well).  What the finding covers is excluded by construction: ruby inside another element,
   markup / timestamps / line breaks in a base, a line break directly in rt. *)
Definition seg := (list piece * list snode)%type.
Inductive tnode := TPlain (n : snode) | TRuby (segs : list seg) | TRubyOmit (segs : list seg) (last : seg).

Definition seg_node (sg : seg) : list cnode * list cnode :=
  (map piece_node (fst sg), flat_map nodes_of (snd sg)).
Definition tnodes_of (n : tnode) : list cnode :=
  match n with
  | TPlain n => nodes_of n
  | TRuby segs => [CRuby (map seg_node segs)]
  | TRubyOmit segs last => [CRubyOmit (map seg_node (segs ++ [last]))]
  end.

Definition ruby_tok : token := TStart s_ruby None None.
Definition rt_tok : token := TStart s_rt None None.
Definition seg_open_items (sg : seg) : list item := IStr (fst sg) :: ITok rt_tok :: flat_map items_of (snd sg).
Definition seg_items (sg : seg) : list item :=
  IStr (fst sg) :: ITok rt_tok :: flat_map items_of (snd sg) ++ [ITok (TEnd s_rt)].
Definition titems_of (n : tnode) : list item :=
  match n with
  | TPlain n => items_of n
  | TRuby segs => ITok ruby_tok :: flat_map seg_items segs ++ [ITok (TEnd s_ruby)]
  | TRubyOmit segs last => ITok ruby_tok :: flat_map seg_items segs ++ seg_open_items last ++ [ITok (TEnd s_ruby)]
  end.

Definition one_line (ps : list piece) : Prop := mem_z 10 (pieces_svalue ps) = false.
(* directly inside rt: text is one line; an ignored end tag is not </ruby> either (that one ends the ruby) *)
Definition rt_ok (n : snode) : Prop :=
  match n with SText ps => one_line ps | SEnd name => lower name <> s_ruby | _ => True end.
Definition seg_ok (sg : seg) : Prop :=
  text_ok (fst sg) /\ one_line (fst sg) /\ Forall (wf_node (Some s_rt)) (snd sg) /\ no_adj (snd sg) /\ Forall rt_ok (snd sg).
Definition wf_tnode (n : tnode) : Prop :=
  match n with
  | TPlain n => wf_node None n
  | TRuby segs => Forall seg_ok segs
  | TRubyOmit segs last => Forall seg_ok segs /\ seg_ok last
  end.
Definition is_ttext (n : tnode) : bool := match n with TPlain n => is_text n | _ => false end.
Fixpoint no_tadj (l : list tnode) : Prop :=
  match l with
  | x :: l' => match l' with y :: _ => is_ttext x && is_ttext y = false | [] => True end /\ no_tadj l'
  | [] => True
  end.
Definition wf_tnodes (ns : list tnode) : Prop := Forall wf_tnode ns /\ no_tadj ns.

(* the expected ruby: Rbc holds one Rb per base, Rtc one Rt per annotation; the time is threaded base, annotation, … *)
Fixpoint segs_elems (pb : Q) (now : option Q) (segs : list seg) : list elem * list elem * option Q :=
  match segs with
  | [] => ([], [], now)
  | sg :: segs' =>
    let rb := ENode KRb no_attrs [ENode KSpan (with_begin now no_attrs) [EText (pieces_svalue (fst sg))]] in
    let '(es, n1) := spans_of pb false now (snd sg) in
    let '(rbs, rts, n2) := segs_elems pb n1 segs' in
    (rb :: rbs, ENode KRt no_attrs es :: rts, n2)
  end.
Definition tspan_of (pb : Q) (now : option Q) (n : tnode) : list elem * option Q :=
  match n with
  | TPlain n => span_of pb true now n
  | TRuby segs => let '(rbs, rts, now') := segs_elems pb now segs in ([ERuby rbs rts], now')
  | TRubyOmit segs last => let '(rbs, rts, now') := segs_elems pb now (segs ++ [last]) in ([ERuby rbs rts], now')
  end.
Fixpoint tspans_of (pb : Q) (now : option Q) (ns : list tnode) : list elem * option Q :=
  match ns with
  | [] => ([], now)
  | n :: ns' => let '(e1, n1) := tspan_of pb now n in let '(e2, n2) := tspans_of pb n1 ns' in (e1 ++ e2, n2)
  end.

(* ---- printing *)
Lemma print_seg_open (sg : seg) : Forall (wf_node (Some s_rt)) (snd sg) ->
  flat_map print_node (fst (seg_node sg)) ++ [60;114;116;62] ++ flat_map print_node (snd (seg_node sg))
  = items_print (seg_open_items sg).
Proof.
  intros W. unfold seg_node, seg_open_items. cbn [fst snd].
  change (IStr (fst sg) :: ITok rt_tok :: flat_map items_of (snd sg))
    with ([IStr (fst sg); ITok rt_tok] ++ flat_map items_of (snd sg)).
  rewrite !items_print_app. rewrite print_pieces.
  fold (print_cue_text (flat_map nodes_of (snd sg))). rewrite (print_trees (Some s_rt)) by exact W.
  unfold items_print. cbn [flat_map item_print]. rewrite ?app_nil_r, <- ?app_assoc. reflexivity.
Qed.
Lemma seg_items_open sg : seg_items sg = seg_open_items sg ++ [ITok (TEnd s_rt)].
Proof. reflexivity. Qed.
Lemma print_seg (sg : seg) : Forall (wf_node (Some s_rt)) (snd sg) ->
  flat_map print_node (fst (seg_node sg)) ++ [60;114;116;62] ++ flat_map print_node (snd (seg_node sg)) ++ [60;47;114;116;62]
  = items_print (seg_items sg).
Proof.
  intros W. rewrite seg_items_open, items_print_app, <- (print_seg_open sg W). rewrite <- !app_assoc.
  unfold items_print. cbn [flat_map item_print print_token s_rt app]. reflexivity.
Qed.
Lemma print_segs_closed segs : Forall seg_ok segs ->
  flat_map (fun sg : list cnode * list cnode =>
              flat_map print_node (fst sg) ++ [60;114;116;62] ++ flat_map print_node (snd sg) ++ [60;47;114;116;62]) (map seg_node segs)
  = items_print (flat_map seg_items segs).
Proof.
  induction 1 as [|sg segs Hsg _ IH]; [reflexivity|].
  cbn [map flat_map]. rewrite items_print_app, <- IH.
  destruct Hsg as (_ & _ & Hw & _). rewrite <- (print_seg sg Hw). rewrite <- !app_assoc. reflexivity.
Qed.
Lemma print_segs_omit_cons pn sg sg' :
  print_segs_omit pn (sg :: sg') =
  pn (fst sg) ++ [60;114;116;62] ++ pn (snd sg) ++ match sg' with [] => [] | _ => [60;47;114;116;62] ++ print_segs_omit pn sg' end.
Proof. reflexivity. Qed.
Lemma print_segs_omitted segs last : Forall seg_ok segs -> seg_ok last ->
  print_segs_omit (flat_map print_node) (map seg_node (segs ++ [last]))
  = items_print (flat_map seg_items segs ++ seg_open_items last).
Proof.
  intros Hs (_ & _ & Hl & _). induction Hs as [|sg segs Hsg _ IH].
  - cbn [app map flat_map]. rewrite print_segs_omit_cons. rewrite app_nil_r. apply print_seg_open. exact Hl.
  - cbn [app map flat_map]. rewrite print_segs_omit_cons.
    destruct (map seg_node (segs ++ [last])) as [|x l] eqn:E; [destruct segs; discriminate|].
    rewrite IH. rewrite !items_print_app.
    destruct Hsg as (_ & _ & Hw & _). rewrite <- (print_seg sg Hw). rewrite <- !app_assoc. reflexivity.
Qed.
Lemma print_ttree n : wf_tnode n -> flat_map print_node (tnodes_of n) = items_print (titems_of n).
Proof.
  destruct n as [n|segs|segs last]; cbn [wf_tnode tnodes_of titems_of]; [apply print_tree| |]; intros W.
  - cbn [flat_map print_node]. rewrite app_nil_r.
    change (ITok ruby_tok :: flat_map seg_items segs ++ [ITok (TEnd s_ruby)])
      with ([ITok ruby_tok] ++ flat_map seg_items segs ++ [ITok (TEnd s_ruby)]).
    rewrite !items_print_app. unfold items_print at 1 3. cbn [flat_map item_print]. rewrite ?app_nil_r.
    change (print_token ruby_tok) with [60;114;117;98;121;62]. change (print_token (TEnd s_ruby)) with [60;47;114;117;98;121;62].
    f_equal. f_equal. apply print_segs_closed. exact W.
  - destruct W as [Ws Wl]. cbn [flat_map print_node]. rewrite app_nil_r.
    replace (ITok ruby_tok :: flat_map seg_items segs ++ seg_open_items last ++ [ITok (TEnd s_ruby)])
      with ([ITok ruby_tok] ++ (flat_map seg_items segs ++ seg_open_items last) ++ [ITok (TEnd s_ruby)])
      by (cbn [app]; rewrite <- app_assoc; reflexivity).
    rewrite !items_print_app. unfold items_print at 1 4. cbn [flat_map item_print]. rewrite ?app_nil_r.
    change (print_token ruby_tok) with [60;114;117;98;121;62]. change (print_token (TEnd s_ruby)) with [60;47;114;117;98;121;62].
    f_equal. f_equal. rewrite <- items_print_app. apply print_segs_omitted; assumption.
Qed.
Lemma print_ttrees ns : Forall wf_tnode ns ->
  print_cue_text (flat_map tnodes_of ns) = items_print (flat_map titems_of ns).
Proof.
  induction 1 as [|n ns Hn _ IH]; [reflexivity|].
  unfold print_cue_text in *. cbn [flat_map]. rewrite flat_map_app, items_print_app, IH, print_ttree by exact Hn. reflexivity.
Qed.

(* ---- normal form *)
Lemma nf_plain_tok tag : (exists c r, tag = c :: r /\ first_char c /\ Forall name_char r) -> nf_item (ITok (TStart tag None None)).
Proof. intros H. split; [split; [exact H|exact I]|reflexivity]. Qed.
Lemma nf_ruby_tok : nf_item (ITok ruby_tok).
Proof.
  apply nf_plain_tok. exists 114, [117;98;121]. unfold first_char, name_char. repeat split; try lia; repeat constructor; lia.
Qed.
Lemma nf_rt_tok : nf_item (ITok rt_tok).
Proof.
  apply nf_plain_tok. exists 114, [116]. unfold first_char, name_char. repeat split; try lia; repeat constructor; lia.
Qed.
Lemma nf_seg_open sg : seg_ok sg -> nf_items (seg_open_items sg).
Proof.
  intros (Hb & _ & Hw & Hadj & _). unfold seg_open_items.
  change (IStr (fst sg) :: ITok rt_tok :: flat_map items_of (snd sg))
    with ([IStr (fst sg); ITok rt_tok] ++ flat_map items_of (snd sg)).
  apply nf_app.
  - cbn [nf_items]. split; [apply nf_text; exact Hb|]. split; [|reflexivity]. split; [apply nf_rt_tok|split; exact I].
  - apply (nf_forest (Some s_rt)); assumption.
  - reflexivity.
Qed.
Lemma nf_seg sg : seg_ok sg -> nf_items (seg_items sg) /\ last_istr (seg_items sg) = false.
Proof.
  intros H. rewrite seg_items_open. split.
  - apply nf_app; [apply nf_seg_open; exact H| |apply andb_false_r].
    cbn [nf_items]. split; [apply nf_end_tag; repeat constructor; lia|split; exact I].
  - rewrite last_istr_app by discriminate. reflexivity.
Qed.
Lemma last_istr_false_app a b : last_istr a = false -> last_istr b = false -> last_istr (a ++ b) = false.
Proof.
  intros Ha Hb. destruct b as [|y b]; [rewrite app_nil_r; exact Ha|]. rewrite last_istr_app by discriminate. exact Hb.
Qed.
Lemma nf_segs segs : Forall seg_ok segs -> nf_items (flat_map seg_items segs) /\ last_istr (flat_map seg_items segs) = false.
Proof.
  induction 1 as [|sg segs Hsg _ [IH1 IH2]]; [split; [exact I|reflexivity]|].
  destruct (nf_seg sg Hsg) as [N L]. cbn [flat_map]. split.
  - apply nf_app; [exact N|exact IH1|]. rewrite L. reflexivity.
  - apply last_istr_false_app; assumption.
Qed.
Lemma nf_end_ruby : nf_items [ITok (TEnd s_ruby)].
Proof. cbn [nf_items]. split; [apply nf_end_tag; repeat constructor; lia|split; exact I]. Qed.
Lemma nf_ttree n : wf_tnode n -> nf_items (titems_of n).
Proof.
  destruct n as [n|segs|segs last]; cbn [wf_tnode titems_of]; [apply nf_tree| |]; intros W.
  - destruct (nf_segs segs W) as [N L].
    change (ITok ruby_tok :: flat_map seg_items segs ++ [ITok (TEnd s_ruby)])
      with ([ITok ruby_tok] ++ flat_map seg_items segs ++ [ITok (TEnd s_ruby)]).
    apply nf_app; [cbn; split; [apply nf_ruby_tok|split; exact I]| |reflexivity].
    apply nf_app; [exact N|apply nf_end_ruby|rewrite L; reflexivity].
  - destruct W as [Ws Wl]. destruct (nf_segs segs Ws) as [N L].
    change (ITok ruby_tok :: flat_map seg_items segs ++ seg_open_items last ++ [ITok (TEnd s_ruby)])
      with ([ITok ruby_tok] ++ flat_map seg_items segs ++ seg_open_items last ++ [ITok (TEnd s_ruby)]).
    apply nf_app; [cbn; split; [apply nf_ruby_tok|split; exact I]| |reflexivity].
    apply nf_app; [exact N| |rewrite L; reflexivity].
    apply nf_app; [apply nf_seg_open; exact Wl|apply nf_end_ruby|apply andb_false_r].
Qed.
Lemma titems_head n : head_istr (titems_of n) = is_ttext n.
Proof. destruct n as [n|segs|segs last]; [apply items_head|reflexivity|reflexivity]. Qed.
Lemma titems_last n : last_istr (titems_of n) = is_ttext n.
Proof.
  destruct n as [n|segs|segs last]; [apply items_last| |]; cbn [titems_of is_ttext].
  - change (ITok ruby_tok :: flat_map seg_items segs ++ [ITok (TEnd s_ruby)])
      with ((ITok ruby_tok :: flat_map seg_items segs) ++ [ITok (TEnd s_ruby)]).
    rewrite last_istr_app by discriminate. reflexivity.
  - replace (ITok ruby_tok :: flat_map seg_items segs ++ seg_open_items last ++ [ITok (TEnd s_ruby)])
      with ((ITok ruby_tok :: flat_map seg_items segs ++ seg_open_items last) ++ [ITok (TEnd s_ruby)])
      by (cbn [app]; rewrite <- app_assoc; reflexivity).
    rewrite last_istr_app by discriminate. reflexivity.
Qed.
Lemma titems_nonempty n : titems_of n <> [].
Proof. destruct n as [n|segs|segs last]; [apply items_nonempty|discriminate|discriminate]. Qed.
Lemma nf_ttrees : forall ns, Forall wf_tnode ns -> no_tadj ns ->
  nf_items (flat_map titems_of ns) /\
  head_istr (flat_map titems_of ns) = match ns with n :: _ => is_ttext n | [] => false end.
Proof.
  induction ns as [|n ns IH]; intros Hw Hadj; [split; [exact I|reflexivity]|].
  inversion Hw; subst. destruct Hadj as [Hxy Hadj].
  destruct (IH H2 Hadj) as [Hnf Hhead]. cbn [flat_map]. split.
  - apply nf_app; [apply nf_ttree; assumption|exact Hnf|]. rewrite titems_last, Hhead. destruct ns; [apply andb_false_r|exact Hxy].
  - pose proof (titems_nonempty n) as Hne. pose proof (titems_head n) as Hh.
    destruct (titems_of n) eqn:E; [contradiction|]. exact Hh.
Qed.

(* ---- the parser *)
Lemma in_rt_parent s : in_rt s -> parent_is_p s = false.
Proof. unfold in_rt, parent_is_p. destruct (p_stack s); [contradiction|reflexivity]. Qed.
(* inside rt an end tag other than </rt> and </ruby> is ignored *)
Lemma handle_end_in_rt name s : in_rt s -> lower name <> s_rt -> lower name <> s_ruby -> handle_end name s = s.
Proof.
  unfold in_rt, handle_end. intros T H1 H2.
  destruct (p_stack s) as [|[tg [| |] a d|tg b t] [|[tg2 k2 a2 d2|tg2 b2 t2] st]]; try contradiction.
  destruct T as [-> ->]. cbn [frame_tag].
  rewrite text_eqb_neq by (intros E; apply H1; symmetry; exact E).
  rewrite text_eqb_neq by (intros E; apply H2; symmetry; exact E). reflexivity.
Qed.
(* a node of an annotation, the current parent being the rt element *)
Lemma parse_rt_node pb n : wf_node (Some s_rt) n -> rt_ok n -> forall rest s, in_rt s ->
  handle_tokens pb (tokens_of n ++ rest) s =
  handle_tokens pb rest (apply_res (span_of pb (parent_is_p s) (p_begin s) n) s).
Proof.
  intros W Hrt rest s R. destruct n as [ps|t|k cs|name].
  - inversion W as [? ? (Hne & Hg & Hv)| | |]; subst. cbn [rt_ok] in Hrt. unfold one_line in Hrt.
    unfold tokens_of. cbn [items_of map item_token app handle_tokens handle_token span_of]. unfold handle_string.
    rewrite pieces_value_svalue by exact Hg. unfold split_on. rewrite split_no_lf by exact Hrt. cbn [app].
    cbn [push_text_lines lines_elems]. rewrite push_line_ok by (right; exact R).
    unfold apply_res. cbn [fst snd app add_all fold_left].
    destruct (add_leaf_facts (ENode KSpan (with_begin (p_begin s) (base_attrs (parent_is_p s))) [EText (pieces_svalue ps)]) s) as (_ & B & _).
    rewrite <- B at 2. rewrite set_begin_same. reflexivity.
  - inversion W as [|? ? Ht| |]; subst.
    unfold tokens_of. cbn [items_of map item_token app handle_tokens handle_token span_of].
    rewrite handle_ts_print by exact Ht. reflexivity.
  - inversion W as [| |? ? ? Hk Hcs Hadj|]; subst.
    apply parse_tag; [exact Hk|exact Hcs| |apply push_span_ok; right; exact R].
    apply Forall_forall. intros n _ Wn. apply parse_tree. exact Wn.
  - inversion W as [| | |? ? [_ Hn]]; subst. cbn [rt_ok] in Hrt.
    unfold tokens_of. cbn [items_of map item_token app handle_tokens handle_token span_of].
    rewrite (handle_end_in_rt name s R Hn Hrt). rewrite apply_res_nil. reflexivity.
Qed.
Lemma parse_rt_nodes pb cs : Forall (wf_node (Some s_rt)) cs -> Forall rt_ok cs -> forall rest s, in_rt s ->
  handle_tokens pb (tokens_of_list cs ++ rest) s =
  handle_tokens pb rest (apply_res (spans_of pb false (p_begin s) cs) s).
Proof.
  intros Hw Hrt rest s R. rewrite <- (in_rt_parent s R).
  apply (parse_list pb in_rt (fun n => wf_node (Some s_rt) n /\ rt_ok n) in_rt_apply); [| |exact R].
  - apply Forall_forall. intros n _ [Wn Rn]. apply parse_rt_node; assumption.
  - clear -Hw Hrt. induction Hw; inversion Hrt; subst; constructor; [split; assumption|auto].
Qed.

Definition seg_tokens (sg : seg) : list token := map item_token (seg_items sg).
Definition seg_open_tokens (sg : seg) : list token := map item_token (seg_open_items sg).
Lemma seg_open_tokens_eq sg : seg_open_tokens sg = TString (pieces_value (fst sg)) :: rt_tok :: tokens_of_list (snd sg).
Proof. reflexivity. Qed.
Lemma seg_tokens_eq sg : seg_tokens sg = seg_open_tokens sg ++ [TEnd s_rt].
Proof. unfold seg_tokens, seg_open_tokens. rewrite seg_items_open, map_app. reflexivity. Qed.
Lemma segs_tokens_flat segs : map item_token (flat_map seg_items segs) = flat_map seg_tokens segs.
Proof. unfold seg_tokens. induction segs as [|x l IHl]; [reflexivity|]. cbn [flat_map]. rewrite map_app, IHl. reflexivity. Qed.

Lemma has_none_somes (t : list elem) : has_none (map Some t) = false.
Proof. induction t; [reflexivity|exact IHt]. Qed.
Lemma fill_last_slot e (t : list elem) : fill_last e (map Some t ++ [None]) = map Some (t ++ [e]).
Proof.
  induction t as [|x t IH]; [reflexivity|]. cbn [map app fill_last].
  replace (has_none (map Some t ++ [None])) with true; [rewrite IH; reflexivity|].
  clear. induction t; [reflexivity|exact IHt].
Qed.
Lemma some_elems_somes (t : list elem) : some_elems (map Some t) = t.
Proof. unfold some_elems. induction t as [|x t IH]; [reflexivity|]. cbn [map flat_map app]. rewrite IH. reflexivity. Qed.

(* one base and the annotation that follows <rt>, the current parent being the ruby element; the rt stays open *)
Lemma parse_seg_open pb sg : seg_ok sg -> forall rest r b (t : list elem) st bg,
  handle_tokens pb (seg_open_tokens sg ++ rest) (mkP r (FRuby s_ruby b (map Some t) :: st) true bg) =
  let '(es, n1) := spans_of pb false bg (snd sg) in
  handle_tokens pb rest
    (mkP r (FNode s_rt KRt no_attrs es ::
            FRuby s_ruby (b ++ [ENode KRb no_attrs [ENode KSpan (with_begin bg no_attrs) [EText (pieces_svalue (fst sg))]]])
                  (map Some t ++ [None]) :: st) true n1).
Proof.
  intros ((Hne & Hg & Hv) & Hone & Hw & Hadj & Hrt) rest r b t st bg.
  rewrite seg_open_tokens_eq. cbn [app handle_tokens handle_token]. unfold handle_string.
  rewrite pieces_value_svalue by exact Hg. unfold split_on. rewrite split_no_lf by exact Hone. cbn [app].
  cbn [push_text_lines]. unfold push_text_line. cbn [p_stack p_ruby p_root p_begin].
  replace (make_span_attrs (mkP r (FRuby s_ruby b (map Some t) :: st) true bg)) with no_attrs by reflexivity.
  (* <rt> *)
  set (b1 := b ++ [ENode KRb no_attrs [ENode KSpan (with_begin bg no_attrs) [EText (pieces_svalue (fst sg))]]]).
  set (s1 := mkP r (FNode s_rt KRt no_attrs [] :: FRuby s_ruby b1 (map Some t ++ [None]) :: st) true bg).
  replace (handle_token pb rt_tok (mkP r (FRuby s_ruby b1 (map Some t) :: st) true bg)) with (@inl pstate exn s1) by reflexivity.
  assert (R1 : in_rt s1) by (split; reflexivity).
  rewrite parse_rt_nodes by assumption.
  change (p_begin s1) with bg.
  destruct (spans_of pb false bg (snd sg)) as [es n1].
  unfold apply_res, s1, set_begin. cbn [fst snd]. rewrite add_all_top. reflexivity.
Qed.
(* … and its end tag </rt> *)
Lemma parse_seg pb sg : seg_ok sg -> forall rest r b (t : list elem) st bg,
  handle_tokens pb (seg_tokens sg ++ rest) (mkP r (FRuby s_ruby b (map Some t) :: st) true bg) =
  let '(es, n1) := spans_of pb false bg (snd sg) in
  handle_tokens pb rest
    (mkP r (FRuby s_ruby (b ++ [ENode KRb no_attrs [ENode KSpan (with_begin bg no_attrs) [EText (pieces_svalue (fst sg))]]])
                  (map Some (t ++ [ENode KRt no_attrs es])) :: st) true n1).
Proof.
  intros Hsg rest r b t st bg. rewrite seg_tokens_eq, <- app_assoc. rewrite parse_seg_open by exact Hsg.
  destruct (spans_of pb false bg (snd sg)) as [es n1].
  cbn [app handle_tokens handle_token]. unfold handle_end. cbn [p_stack frame_tag].
  change (lower s_rt) with s_rt. rewrite text_eqb_refl.
  unfold pop, attach_closed. cbn [p_stack p_root p_ruby p_begin fill_rt]. rewrite fill_last_slot. reflexivity.
Qed.
Lemma parse_segs pb : forall segs, Forall seg_ok segs -> forall rest r b (t : list elem) st bg,
  handle_tokens pb (flat_map seg_tokens segs ++ rest) (mkP r (FRuby s_ruby b (map Some t) :: st) true bg) =
  let '(rbs, rts, n2) := segs_elems pb bg segs in
  handle_tokens pb rest (mkP r (FRuby s_ruby (b ++ rbs) (map Some (t ++ rts)) :: st) true n2).
Proof.
  induction 1 as [|sg segs Hsg _ IH]; intros rest r b t st bg.
  - cbn [flat_map app segs_elems]. rewrite ?app_nil_r. reflexivity.
  - cbn [flat_map segs_elems]. rewrite <- app_assoc. rewrite parse_seg by exact Hsg.
    destruct (spans_of pb false bg (snd sg)) as [es n1]. rewrite IH.
    destruct (segs_elems pb n1 segs) as [[rbs rts] n2]. rewrite <- !app_assoc. reflexivity.
Qed.
Lemma segs_elems_app pb : forall a b now,
  segs_elems pb now (a ++ b) =
  let '(rb1, rt1, n1) := segs_elems pb now a in
  let '(rb2, rt2, n2) := segs_elems pb n1 b in (rb1 ++ rb2, rt1 ++ rt2, n2).
Proof.
  induction a as [|sg a IH]; intros b now.
  - cbn [app segs_elems]. destruct (segs_elems pb now b) as [[rb2 rt2] n2]. reflexivity.
  - cbn [app segs_elems]. destruct (spans_of pb false now (snd sg)) as [es n1]. rewrite IH.
    destruct (segs_elems pb n1 a) as [[rb1 rt1] n1']. destruct (segs_elems pb n1' b) as [[rb2 rt2] n2]. reflexivity.
Qed.

(* the paragraph is the current parent and no ruby is open *)
Definition at_p (s : pstate) : Prop := p_stack s = [] /\ p_ruby s = false.
Lemma at_p_at_tag s : at_p s -> at_tag None s.
Proof. intros (S & _). unfold at_tag, regular, top_tag. rewrite S. split; [exact I|reflexivity]. Qed.
Lemma at_p_apply r s : at_p s -> at_p (apply_res r s).
Proof.
  intros (S & Rb). unfold apply_res, at_p. cbn [p_stack p_ruby set_begin].
  destruct (add_all_facts (fst r) s) as (_ & _ & R' & _). rewrite R'. split; [|exact Rb].
  clear -S. revert s S. induction (fst r) as [|e es IH]; intros s S; [exact S|]. cbn [add_all fold_left]. apply IH.
  destruct (add_leaf_facts e s) as (_ & _ & _ & _ & S'). rewrite S in S'. exact S'.
Qed.

Definition ttokens_of (n : tnode) : list token := map item_token (titems_of n).
Lemma parse_tnode pb n : wf_tnode n -> forall rest s, at_p s ->
  handle_tokens pb (ttokens_of n ++ rest) s =
  handle_tokens pb rest (apply_res (tspan_of pb (p_begin s) n) s).
Proof.
  intros W rest s P. destruct n as [n|segs|segs last]; cbn [wf_tnode] in W.
  - pose proof (parse_tree pb n None W rest s (at_p_at_tag s P)) as E. unfold ttokens_of. cbn [titems_of tspan_of].
    fold (tokens_of n). rewrite E.
    replace (parent_is_p s) with true; [reflexivity|]. destruct P as (S & _). unfold parent_is_p. rewrite S. reflexivity.
  - destruct s as [r st rb bg]. destruct P as (S & Rb). cbn [p_stack p_ruby] in S, Rb. subst.
    unfold ttokens_of. cbn [titems_of map item_token]. rewrite map_app. cbn [map item_token app handle_tokens handle_token].
    rewrite <- app_assoc. rewrite segs_tokens_flat.
    replace (handle_token pb ruby_tok (mkP r [] false bg)) with (@inl pstate exn (mkP r [FRuby s_ruby [] (map Some [])] true bg)) by reflexivity.
    rewrite parse_segs by exact W. cbn [tspan_of p_begin].
    destruct (segs_elems pb bg segs) as [[rbs rts] n2].
    cbn [app handle_tokens handle_token]. unfold handle_end. cbn [p_stack frame_tag].
    change (lower s_ruby) with s_ruby. rewrite text_eqb_refl.
    unfold pop, attach_closed. cbn [p_stack p_root p_ruby p_begin close_frame attach]. rewrite some_elems_somes.
    unfold apply_res, add_all, add_leaf, set_begin. cbn [fold_left fst snd attach p_root p_stack p_ruby p_begin]. reflexivity.
  - destruct W as [Ws Wl]. destruct s as [r st rb bg]. destruct P as (S & Rb). cbn [p_stack p_ruby] in S, Rb. subst.
    unfold ttokens_of. cbn [titems_of map item_token]. rewrite !map_app. cbn [map item_token app handle_tokens handle_token].
    rewrite <- !app_assoc. rewrite segs_tokens_flat. fold (seg_open_tokens last).
    replace (handle_token pb ruby_tok (mkP r [] false bg)) with (@inl pstate exn (mkP r [FRuby s_ruby [] (map Some [])] true bg)) by reflexivity.
    rewrite parse_segs by exact Ws. cbn [tspan_of p_begin]. rewrite segs_elems_app.
    destruct (segs_elems pb bg segs) as [[rbs rts] n2].
    rewrite parse_seg_open by exact Wl. cbn [segs_elems].
    destruct (spans_of pb false n2 (snd last)) as [es n3].
    (* </ruby> ends the open rt and the ruby *)
    cbn [app handle_tokens handle_token]. unfold handle_end. cbn [p_stack frame_tag].
    change (lower s_ruby) with s_ruby. change (text_eqb s_rt s_ruby) with false. cbn iota. rewrite text_eqb_refl.
    unfold pop at 2. unfold attach_closed. cbn [p_stack p_root p_ruby p_begin fill_rt]. rewrite fill_last_slot.
    unfold pop, attach_closed. cbn [p_stack p_root p_ruby p_begin close_frame attach]. rewrite some_elems_somes.
    unfold apply_res, add_all, add_leaf, set_begin. cbn [fold_left fst snd attach p_root p_stack p_ruby p_begin app].
    rewrite ?app_nil_r. reflexivity.
Qed.

Lemma parse_tnodes pb : forall ns, Forall wf_tnode ns -> forall rest s, at_p s ->
  handle_tokens pb (map item_token (flat_map titems_of ns) ++ rest) s =
  handle_tokens pb rest (apply_res (tspans_of pb (p_begin s) ns) s).
Proof.
  induction 1 as [|n ns Hn _ IH]; intros rest s P.
  - cbn [flat_map map app tspans_of]. rewrite apply_res_nil. reflexivity.
  - cbn [flat_map tspans_of]. rewrite map_app, <- app_assoc. fold (ttokens_of n). rewrite parse_tnode by assumption.
    destruct (tspan_of pb (p_begin s) n) as [e1 n1]. destruct (apply_facts (e1, n1) s) as (_ & B' & _).
    rewrite IH by (apply at_p_apply; exact P). rewrite B'. cbn [snd].
    destruct (tspans_of pb n1 ns) as [e2 n2]. rewrite apply_res_app. reflexivity.
Qed.

(* the cue tree theorem with ruby: every cue text of the grammar outside the recorded finding *)
Theorem tree_ruby_roundtrip pb ns : wf_tnodes ns ->
  parse_cue_text pb (print_cue_text (flat_map tnodes_of ns)) = inl (fst (tspans_of pb None ns)).
Proof.
  intros [Hw Hadj]. unfold parse_cue_text. rewrite print_ttrees by exact Hw.
  rewrite tokenizer_items by (apply nf_ttrees; assumption).
  rewrite <- (app_nil_r (map item_token (flat_map titems_of ns))).
  rewrite parse_tnodes; [|exact Hw|repeat split].
  cbn [handle_tokens]. unfold apply_res. cbn [p_begin]. rewrite add_all_root. reflexivity.
Qed.

(* ---- non-vacuity *)
Lemma lit_ok t : t <> [] -> text_ok [PLit t].
Proof.
  intros H. split; [discriminate|]. split; [constructor; [exact H|constructor]|].
  unfold pieces_svalue. cbn. rewrite app_nil_r. exact H.
Qed.
Ltac wf_tac G :=
  repeat (first [exact G | exact I | apply lit_ok; discriminate | discriminate | reflexivity
                | (let E := fresh "E" in intro E; vm_compute in E; discriminate E)
                | (unfold pieces_svalue; cbn; discriminate) | (unfold class_ok, name_char; repeat constructor; lia)
                | (unfold one_line, pieces_svalue; cbn; reflexivity)
                | (cbn; unfold digit_ok; lia) | constructor]).
(* a<LF>b</b><b><c.red>x</c></i><00:12.000></I>y</b></b><v Tom & J>z&lrm;</v><lang en></lang>
   (the first </b> has nothing to close, </i> and </I> sit in a b element, the last </b> follows the end of that element) *)
Example tree_example :
  wf_nodes [SText [PLit [97;10;98]]; SEnd [98];
            STag TgB [STag (TgC [[114;101;100]]) [SText [PLit [120]]]; SEnd [105]; STs (mkTs None 0 12 0); SEnd [73]; SText [PLit [121]]];
            SEnd [98];
            STag (TgV [84;111;109;32;38;32;74]) [SText [PLit [122]; PRef (RefNamed [108;114;109])]]; STag (TgLang [101;110]) []].
Proof.
  assert (G : ref_good (RefNamed [108;114;109]))
    by (split; [apply named_ref_ok; repeat constructor; lia|vm_compute; reflexivity]).
  split; [|cbn; repeat split; reflexivity]. wf_tac G.
Qed.
(* a<b>x<i>y</b>z : </b> is ignored inside the i element, so neither element is closed *)
Example tree_unclosed_example :
  wf_otree None (OOpen [SText [PLit [97]]] TgB (OOpen [SText [PLit [120]]] TgI
                   (ODone [SText [PLit [121]]; SEnd [98]; SText [PLit [122]]]))).
Proof. cbn [wf_otree no_adj is_text andb]. wf_tac I. Qed.
(* x <ruby>base<rt>an<b>n</b></x></rt>b2<rt></rt></ruby> y <ruby>b3<rt>c</ruby> *)
Example tree_ruby_example :
  wf_tnodes [TPlain (SText [PLit [120]]);
             TRuby [([PLit [98;97;115;101]], [SText [PLit [97;110]]; STag TgB [SText [PLit [110]]]; SEnd [120]]); ([PLit [98;50]], [])];
             TPlain (SText [PLit [121]]);
             TRubyOmit [] ([PLit [98;51]], [SText [PLit [99]]])].
Proof.
  split; [|cbn; repeat split; reflexivity].
  repeat (first [exact I | apply lit_ok; discriminate | discriminate | reflexivity
                | (let E := fresh "E" in intro E; vm_compute in E; discriminate E)
                | (unfold one_line, pieces_svalue; cbn; reflexivity) | (cbn; repeat split; reflexivity) | constructor]).
Qed.

(* ================================================================ numeric character references, as a class
   &#D…; and &#xH…; of ANY number n below 10^40 that html.unescape maps to itself (numeric_charref n = [n]: a scalar
   value outside html's remapping and removal tables - an executable condition) are good references. *)
Lemma fold_dec_shift : forall l a, fold_left (fun a c => a * 10 + (c - 48)) l a =
  a * 10 ^ Z.of_nat (length l) + fold_left (fun a c => a * 10 + (c - 48)) l 0.
Proof.
  induction l as [|c l IH]; intros a; [cbn; lia|].
  cbn [fold_left length]. rewrite IH. rewrite (IH (0 * 10 + (c - 48))).
  rewrite Nat2Z.inj_succ, Z.pow_succ_r by lia. ring.
Qed.
Lemma dec_value_snoc ds d : dec_value (ds ++ [d]) = dec_value ds * 10 + (d - 48).
Proof. unfold dec_value. rewrite fold_left_app. reflexivity. Qed.
Lemma fold_hex_shift : forall l a, fold_left (fun a c => a * 16 + hexval c) l a =
  a * 16 ^ Z.of_nat (length l) + fold_left (fun a c => a * 16 + hexval c) l 0.
Proof.
  induction l as [|c l IH]; intros a; [cbn; lia|].
  cbn [fold_left length]. rewrite IH. rewrite (IH (0 * 16 + hexval c)).
  rewrite Nat2Z.inj_succ, Z.pow_succ_r by lia. ring.
Qed.
Lemma hex_value_snoc ds d : hex_value (ds ++ [d]) = hex_value ds * 16 + hexval d.
Proof. unfold hex_value. rewrite fold_left_app. reflexivity. Qed.

Lemma print_nat_digits_spec : forall fuel n acc, (0 < fuel)%nat -> 0 <= n < 10 ^ Z.of_nat fuel ->
  exists ds, print_nat_digits fuel n acc = ds ++ acc /\ ds <> [] /\ Forall (fun c => is_digit c = true) ds /\ dec_value ds = n.
Proof.
  induction fuel as [|f IH]; intros n acc Hf H; [lia|].
  cbn [print_nat_digits]. destruct (n <? 10) eqn:E.
  - destruct H as [H0 _]. apply Z.ltb_lt in E.
    exists [48 + n]. split; [reflexivity|]. split; [discriminate|]. split; [|unfold dec_value; cbn [fold_left]; lia].
    apply Forall_cons; [|apply Forall_nil]. unfold is_digit. apply andb_true_iff. split; apply Z.leb_le; lia.
  - rewrite Nat2Z.inj_succ, Z.pow_succ_r in H by lia.
    assert (Hf' : (0 < f)%nat) by (destruct f; [cbn in H; lia|lia]).
    assert (Hq : 0 <= n / 10 < 10 ^ Z.of_nat f) by (split; [apply Z.div_pos; lia|apply Z.div_lt_upper_bound; lia]).
    destruct (IH (n / 10) ((48 + n mod 10) :: acc) Hf' Hq) as (ds & E1 & Hne & Hd & Hv).
    exists (ds ++ [48 + n mod 10]). rewrite E1, <- app_assoc. split; [reflexivity|]. split; [|split].
    + destruct ds; discriminate.
    + apply Forall_app. split; [exact Hd|]. constructor; [|constructor]. unfold is_digit. pose proof (Z.mod_pos_bound n 10). lia.
    + rewrite dec_value_snoc, Hv. pose proof (Z.div_mod n 10). lia.
Qed.
Lemma hex_digit_ok d : 0 <= d < 16 -> is_hexdigit (hex_digit d) = true /\ hexval (hex_digit d) = d /\ hex_digit d <> 59.
Proof.
  intros H. unfold hex_digit, is_hexdigit, hexval, is_digit. destruct (d <? 10) eqn:E.
  - replace ((48 <=? 48 + d) && (48 + d <=? 57)) with true by lia. cbn [orb]. repeat split; lia.
  - replace ((48 <=? 87 + d) && (87 + d <=? 57)) with false by lia.
    replace ((65 <=? 87 + d) && (87 + d <=? 70)) with false by lia. repeat split; lia.
Qed.
Lemma print_hex_digits_spec : forall fuel n acc, (0 < fuel)%nat -> 0 <= n < 16 ^ Z.of_nat fuel ->
  exists ds, print_hex_digits fuel n acc = ds ++ acc /\ ds <> [] /\ Forall (fun c => is_hexdigit c = true /\ c <> 59) ds /\ hex_value ds = n.
Proof.
  induction fuel as [|f IH]; intros n acc Hf H; [lia|].
  cbn [print_hex_digits]. destruct (n <? 16) eqn:E.
  - destruct (hex_digit_ok n) as (A & B & C); [lia|].
    exists [hex_digit n]. split; [reflexivity|]. split; [discriminate|]. split; [constructor; [split; assumption|constructor]|unfold hex_value; cbn [fold_left]; lia].
  - rewrite Nat2Z.inj_succ, Z.pow_succ_r in H by lia.
    assert (Hf' : (0 < f)%nat) by (destruct f; [cbn in H; lia|lia]).
    assert (Hq : 0 <= n / 16 < 16 ^ Z.of_nat f) by (split; [apply Z.div_pos; lia|apply Z.div_lt_upper_bound; lia]).
    destruct (IH (n / 16) (hex_digit (n mod 16) :: acc) Hf' Hq) as (ds & E1 & Hne & Hd & Hv).
    destruct (hex_digit_ok (n mod 16)) as (A & B & C); [apply Z.mod_pos_bound; lia|].
    exists (ds ++ [hex_digit (n mod 16)]). rewrite E1, <- app_assoc. split; [reflexivity|]. split; [|split].
    + destruct ds; discriminate.
    + apply Forall_app. split; [exact Hd|]. constructor; [split; assumption|constructor].
    + rewrite hex_value_snoc, Hv, B. pose proof (Z.div_mod n 16). lia.
Qed.

Lemma take_drop_stop (p : Z -> bool) : forall ds c rest, Forall (fun x => p x = true) ds -> p c = false ->
  take_while p (ds ++ c :: rest) = ds /\ drop_while p (ds ++ c :: rest) = c :: rest.
Proof.
  induction ds as [|d ds IH]; intros c rest H Hc; cbn [app take_while drop_while].
  - rewrite Hc. split; reflexivity.
  - inversion H; subst. rewrite H2. destruct (IH c rest H3 Hc) as [A B]. rewrite A, B. split; reflexivity.
Qed.

Lemma unescape_fuel_nil f : unescape_fuel f [] = [].
Proof. destruct f; reflexivity. Qed.
Lemma unescape_fuel_dec_step f ds : ds <> [] -> Forall (fun c => is_digit c = true) ds ->
  unescape_fuel (S f) (38 :: 35 :: ds ++ [59]) = numeric_charref (dec_value ds) ++ unescape_fuel f [].
Proof.
  intros Hne Hd. cbn [unescape_fuel].
  destruct (take_drop_stop is_digit ds 59 [] Hd eq_refl) as [A B]. rewrite A, B.
  destruct ds as [|d ds']; [congruence|]. reflexivity.
Qed.
Lemma unescape_dec ds : ds <> [] -> Forall (fun c => is_digit c = true) ds ->
  unescape ([38;35] ++ ds ++ [59]) = numeric_charref (dec_value ds).
Proof.
  intros Hne Hd. unfold unescape. change ([38;35] ++ ds ++ [59]) with (38 :: 35 :: ds ++ [59]).
  rewrite unescape_fuel_dec_step by assumption. rewrite unescape_fuel_nil. apply app_nil_r.
Qed.
Lemma unescape_fuel_hex_step f ds : ds <> [] -> Forall (fun c => is_hexdigit c = true /\ c <> 59) ds ->
  unescape_fuel (S f) (38 :: 35 :: 120 :: ds ++ [59]) = numeric_charref (hex_value ds) ++ unescape_fuel f [].
Proof.
  intros Hne Hd. cbn [unescape_fuel].
  change (take_while is_digit (120 :: ds ++ [59])) with (@nil Z). cbn [is_nil negb].
  assert (Hd' : Forall (fun c => is_hexdigit c = true) ds) by (eapply Forall_impl; [|exact Hd]; cbn; tauto).
  destruct (take_drop_stop is_hexdigit ds 59 [] Hd' eq_refl) as [A B]. rewrite A, B.
  destruct ds as [|d ds']; [congruence|]. reflexivity.
Qed.
Lemma unescape_hex ds : ds <> [] -> Forall (fun c => is_hexdigit c = true /\ c <> 59) ds ->
  unescape ([38;35;120] ++ ds ++ [59]) = numeric_charref (hex_value ds).
Proof.
  intros Hne Hd. unfold unescape. change ([38;35;120] ++ ds ++ [59]) with (38 :: 35 :: 120 :: ds ++ [59]).
  rewrite unescape_fuel_hex_step by assumption. rewrite unescape_fuel_nil. apply app_nil_r.
Qed.

Theorem dec_ref_good n : 0 <= n < 10 ^ 40 -> numeric_charref n = [n] -> ref_good (RefDec n).
Proof.
  intros Hn Hv. destruct (print_nat_digits_spec 40 n [] ltac:(lia) Hn) as (ds & E & Hne & Hd & Hval). rewrite app_nil_r in E.
  split.
  - exists (35 :: ds). cbn [print_cref]. unfold print_dec. rewrite E. split; [reflexivity|].
    constructor; [lia|]. eapply Forall_impl; [|exact Hd]. cbn. unfold is_digit. intros; lia.
  - cbn [print_cref cref_value]. unfold print_dec. rewrite E. rewrite unescape_dec by assumption. rewrite Hval. exact Hv.
Qed.
Theorem hex_ref_good n : 0 <= n < 16 ^ 40 -> numeric_charref n = [n] -> ref_good (RefHex n).
Proof.
  intros Hn Hv. destruct (print_hex_digits_spec 40 n [] ltac:(lia) Hn) as (ds & E & Hne & Hd & Hval). rewrite app_nil_r in E.
  split.
  - exists (35 :: 120 :: ds). cbn [print_cref]. rewrite E. split; [reflexivity|].
    constructor; [lia|]. constructor; [lia|]. eapply Forall_impl; [|exact Hd]. cbn. tauto.
  - cbn [print_cref cref_value]. rewrite E. rewrite unescape_hex by assumption. rewrite Hval. exact Hv.
Qed.
Example numeric_refs_example : ref_good (RefDec 233) /\ ref_good (RefHex 128512) /\ ref_good (RefDec 60).
Proof.
  assert (B : forall n, 0 <= n < 1000000 -> 0 <= n < 10 ^ 40 /\ 0 <= n < 16 ^ 40).
  { intros n H. assert (1000000 < 10 ^ 40) by reflexivity. assert (1000000 < 16 ^ 40) by reflexivity. lia. }
  split; [apply dec_ref_good; [apply B; lia|reflexivity]|].
  split; [apply hex_ref_good; [apply B; lia|reflexivity]|apply dec_ref_good; [apply B; lia|reflexivity]].
Qed.
