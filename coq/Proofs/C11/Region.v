(* C11: cue settings -> region.
   - region_sharing: once a cue's settings have produced (or found) region i, every later cue with the same
     settings list finds the same region i and creates nothing, whatever regions were added in between;
   - region_inside_partial: for EVERY list of setting strings outside the recorded triggers the region lies
     inside the root container [0,100]x[0,100] with non-negative extent (exact rational arithmetic);
   - the triggers are real: Findings/C11.v exhibits a setting list for each. *)
From Coq Require Import QArith Qminmax Lqa.
From TT Require Import Base.Prelude Gen.VttTables Model.VttTokenizer Model.VttReader.
Local Open Scope Z_scope.

(* ================================================================ sharing *)
Lemma wmode_eqb_refl w : wmode_eqb w w = true. Proof. destruct w; reflexivity. Qed.
Lemma talign_eqb_refl w : talign_eqb w w = true. Proof. destruct w; reflexivity. Qed.
Lemma dalign_eqb_refl w : dalign_eqb w w = true. Proof. destruct w; reflexivity. Qed.
Lemma region_eqb_refl r : region_eqb r r = true.
Proof.
  unfold region_eqb. rewrite wmode_eqb_refl, talign_eqb_refl, dalign_eqb_refl, !Qeq_bool_refl. reflexivity.
Qed.

Lemma find_app_some : forall rs r i k ext, find_region r i rs = Some k -> find_region r i (rs ++ ext) = Some k.
Proof.
  induction rs as [|x rs IH]; intros r i k ext H; cbn in *; [discriminate|].
  destruct (region_eqb x r); [exact H|apply IH; exact H].
Qed.
Lemma find_app_none : forall rs r i ext, find_region r i rs = None ->
  find_region r i (rs ++ r :: ext) = Some (i + Z.of_nat (length rs)).
Proof.
  induction rs as [|x rs IH]; intros r i ext H; cbn [app find_region length] in *.
  - rewrite region_eqb_refl. f_equal. cbn. lia.
  - destruct (region_eqb x r); [discriminate|]. rewrite IH by exact H. f_equal. lia.
Qed.

Theorem region_sharing : forall rs l rs1 i, get_or_make_region rs l = (rs1, i) ->
  (exists added, rs1 = rs ++ added) /\
  (exists r, nth_error rs1 (Z.to_nat i) = Some r /\ region_eqb r (compute_region l) = true) /\
  forall ext, get_or_make_region (rs1 ++ ext) l = (rs1 ++ ext, i).
Proof.
  intros rs l rs1 i. unfold get_or_make_region.
  destruct (find_region (compute_region l) 0 rs) as [k|] eqn:F; intros E; inversion E; subst; clear E.
  - split; [exists []; rewrite app_nil_r; reflexivity|]. split.
    + 
      assert (G : forall rs j k, find_region (compute_region l) j rs = Some k ->
                  j <= k /\ exists r, nth_error rs (Z.to_nat (k - j)) = Some r /\ region_eqb r (compute_region l) = true).
      { clear. induction rs as [|x rs IH]; intros j k H; cbn in H; [discriminate|].
        destruct (region_eqb x (compute_region l)) eqn:E.
        - inversion H; subst. split; [lia|]. exists x. rewrite Z.sub_diag. split; [reflexivity|exact E].
        - destruct (IH _ _ H) as (Hle & r & Hn & Hr). split; [lia|]. exists r. split; [|exact Hr].
          replace (Z.to_nat (k - j)) with (S (Z.to_nat (k - (j + 1)))) by lia. exact Hn. }
      destruct (G _ _ _ F) as (_ & r & Hn & Hr). exists r. split; [|exact Hr].
      rewrite Z.sub_0_r in Hn. exact Hn.
    + intros ext. rewrite (find_app_some _ _ _ _ ext F). reflexivity.
  - split; [exists [compute_region l]; reflexivity|]. split.
    + exists (compute_region l). rewrite Nat2Z.id. split; [|apply region_eqb_refl].
      rewrite nth_error_app2 by lia. rewrite Nat.sub_diag. reflexivity.
    + intros ext. rewrite <- app_assoc. cbn [app]. rewrite (find_app_none _ _ _ ext F). reflexivity.
Qed.

(* ================================================================ containment *)
Local Open Scope Q_scope.
Definition inside_root (r : region) : Prop :=
  0 <= r_ew r /\ 0 <= r_eh r /\ 0 <= r_ox r /\ 0 <= r_oy r /\ r_ox r + r_ew r <= 100 /\ r_oy r + r_eh r <= 100.
Local Open Scope Z_scope.

Definition is_some {A} (o : option A) : bool := match o with Some _ => true | None => false end.
(* the line value is a percentage above 100, or a line number that is not in 1..rows (1..cols when vertical) *)
Definition offset_trigger (wm : wmode) (v0 : text) : bool :=
  match parse_vtt_pct v0 with
  | Some p => 100 <? p
  | None =>
    match parse_vtt_int v0 with
    | Some n => (n <=? 0) || ((if horizontal wm then default_rows else default_cols) <? n)
    | None => false
    end
  end.
Definition line_trigger (cs : list text) (wm : wmode) : bool :=
  match setting s_line cs with
  | Some v =>
    let value := split_on 44 v in
    let la := if (1 <? length value)%nat then nth_text 1 value else s_start in
    offset_trigger wm (nth_text 0 value) || (negb (horizontal wm) && text_eqb la s_center)
  | None => false
  end.
(* the recorded findings: region-not-clamped (position / size present), line-number-nonpositive (and other
   out-of-range line values), vertical-line-center *)
Definition region_trigger (cs : list text) : bool :=
  is_some (setting s_position cs) || is_some (setting s_size cs) || line_trigger cs (stage_vertical cs).

Lemma take_while_forall p s : Forall (fun c => p c = true) (take_while p s).
Proof. induction s as [|c s IH]; cbn; [constructor|]. destruct (p c) eqn:E; constructor; assumption. Qed.
Lemma dec_fold_nonneg : forall ds a, Forall (fun c => is_digit c = true) ds -> 0 <= a ->
  0 <= fold_left (fun a c => a * 10 + (c - 48)) ds a.
Proof.
  induction ds as [|c ds IH]; intros a H Ha; cbn; [exact Ha|].
  inversion H as [|? ? Hc Hd]; subst. apply IH; [exact Hd|]. unfold is_digit in Hc. lia.
Qed.
Lemma round_he_nonneg n d : 0 <= n -> 0 < d -> 0 <= round_he n d.
Proof.
  intros. unfold round_he. assert (0 <= n / d) by (apply Z.div_pos; lia).
  destruct (2 * (n mod d) <? d); [lia|]. destruct (d <? 2 * (n mod d)); [lia|]. destruct (Z.even (n / d)); lia.
Qed.
Lemma parse_pct_nonneg v p : parse_vtt_pct v = Some p -> 0 <= p.
Proof.
  unfold parse_vtt_pct.
  destruct (is_nil (take_while is_digit v)); [discriminate|].
  set (r2 := match drop_while is_digit v with 46 :: r => r | _ => drop_while is_digit v end).
  destruct (text_eqb (drop_while is_digit r2) [37]); [|discriminate].
  intros H; inversion H; subst. apply round_he_nonneg.
  - apply dec_fold_nonneg; [apply Forall_app; split; apply take_while_forall|lia].
  - apply Z.pow_pos_nonneg; lia.
Qed.

Lemma offset_bounds wm v0 lo : line_offset_of wm v0 = Some lo -> offset_trigger wm v0 = false ->
  (0 <= lo /\ lo <= 100)%Q.
Proof.
  unfold line_offset_of, offset_trigger.
  destruct (parse_vtt_pct v0) as [p|] eqn:P.
  - intros E T. inversion E; subst. apply parse_pct_nonneg in P.
    unfold qz. split; [change 0%Q with (inject_Z 0)|change 100%Q with (inject_Z 100)]; rewrite <- Zle_Qle; lia.
  - destruct (parse_vtt_int v0) as [n|]; [|discriminate].
    intros E T. apply orb_false_iff in T as [T1 T2].
    assert (Hn : 0 < n) by lia. replace (0 <? n)%Z with true in E by lia. cbv beta iota in E.
    unfold rows_q, cols_q, qz, default_rows, default_cols in *.
    destruct (horizontal wm); inversion E; subst; clear E.
    + assert (H1 : (inject_Z 0 <= inject_Z n)%Q) by (rewrite <- Zle_Qle; lia).
      assert (H2 : (inject_Z n <= inject_Z 23)%Q) by (rewrite <- Zle_Qle; lia).
      change (inject_Z 0) with 0%Q in H1. change (inject_Z 23) with 23%Q in *.
      set (x := inject_Z n) in *. clearbody x.
      assert (Eq : (100 * x / 23 == (100 # 23) * x)%Q) by field. rewrite Eq. split; lra.
    + assert (H1 : (inject_Z 0 <= inject_Z n)%Q) by (rewrite <- Zle_Qle; lia).
      assert (H2 : (inject_Z n <= inject_Z 40)%Q) by (rewrite <- Zle_Qle; lia).
      change (inject_Z 0) with 0%Q in H1. change (inject_Z 40) with 40%Q in *.
      set (x := inject_Z n) in *. clearbody x.
      assert (Eq : (100 * x / 40 == (100 # 40) * x)%Q) by field. rewrite Eq. split; lra.
Qed.

Lemma defaults_inside :
  (0 <= default_ew /\ 0 <= default_eh /\ 0 <= default_ox /\ 0 <= default_oy /\
   default_ox + default_ew <= 100 /\ default_oy + default_eh <= 100)%Q.
Proof. repeat split; unfold Qle; vm_compute; discriminate. Qed.

Lemma stage_line_inside cs wm eh ew ox oy da :
  line_trigger cs wm = false ->
  stage_line cs wm default_eh default_ew = (eh, ew, ox, oy, da) ->
  (0 <= ew /\ 0 <= eh /\ 0 <= ox /\ 0 <= oy /\ ox + ew <= 100 /\ oy + eh <= 100)%Q.
Proof.
  destruct defaults_inside as (D1 & D2 & D3 & D4 & D5 & D6).
  unfold line_trigger, stage_line.
  destruct (setting s_line cs) as [v|]; [|intros _ E; inversion E; subst; repeat split; assumption].
  cbv zeta.
  set (value := split_on 44 v).
  set (la := if (1 <? length value)%nat then nth_text 1 value else s_start).
  intros T. apply orb_false_iff in T as [T1 T2].
  destruct (line_offset_of wm (nth_text 0 value)) as [lo|] eqn:L;
    [|intros E; inversion E; subst; repeat split; assumption].
  destruct (offset_bounds _ _ _ L T1) as [L0 L100].
  pose proof (Q.le_min_l lo (100 - lo)) as M1. pose proof (Q.le_min_r lo (100 - lo)) as M2.
  assert (M0 : (0 <= Qmin lo (100 - lo))%Q) by (apply Q.min_glb; lra).
  set (mn := Qmin lo (100 - lo)) in *.
  destruct (horizontal wm) eqn:Hh; cbn [negb andb] in T2.
  - assert (Eq : (mn * 2 / 2 == mn)%Q) by field.
    destruct (text_eqb la s_center); [|destruct (text_eqb la s_start); [|destruct (text_eqb la s_end)]];
      intros E; inversion E; subst; clear E; rewrite ?Eq; repeat split; try assumption; lra.
  - rewrite T2.
    destruct (text_eqb la s_start); [|destruct (text_eqb la s_end)];
      intros E; inversion E; subst; clear E; repeat split; try assumption; lra.
Qed.

Theorem region_inside_partial cs : region_trigger cs = false -> inside_root (compute_region cs).
Proof.
  unfold region_trigger. intros H.
  apply orb_false_iff in H as [H Hl]. apply orb_false_iff in H as [Hp Hs].
  unfold compute_region.
  assert (Hsize : stage_size cs (stage_vertical cs) = (default_eh, default_ew)).
  { unfold stage_size. destruct (setting s_size cs); [discriminate|reflexivity]. }
  rewrite Hsize.
  destruct (stage_line cs (stage_vertical cs) default_eh default_ew) as [[[[eh ew] ox] oy] da] eqn:E.
  assert (Hpos : stage_position cs (stage_vertical cs) (stage_align cs (stage_vertical cs)) eh ew ox oy = (ox, oy)).
  { unfold stage_position. destruct (setting s_position cs); [discriminate|reflexivity]. }
  rewrite Hpos. unfold inside_root. cbn [r_ew r_eh r_ox r_oy].
  exact (stage_line_inside _ _ _ _ _ _ _ Hl E).
Qed.

(* the hypotheses are satisfiable and the theorem says something: a bottom-aligned cue at line 20 of 23 *)
Example region_inside_example :
  region_trigger [[108;105;110;101;58;50;48;44;101;110;100]; [97;108;105;103;110;58;108;101;102;116]] = false.
Proof. vm_compute. reflexivity. Qed.

(* ---- what fails inside the triggers (used by Findings/C11.v) *)
Definition inside_root_b (r : region) : bool :=
  Qle_bool 0 (r_ew r) && Qle_bool 0 (r_eh r) && Qle_bool 0 (r_ox r) && Qle_bool 0 (r_oy r) &&
  Qle_bool (r_ox r + r_ew r) 100 && Qle_bool (r_oy r + r_eh r) 100.
Lemma inside_root_b_spec r : inside_root r -> inside_root_b r = true.
Proof.
  unfold inside_root, inside_root_b. intros (A & B & C & D & E & F).
  rewrite <- Qle_bool_iff in A, B, C, D, E, F. rewrite A, B, C, D, E, F. reflexivity.
Qed.
