(* C11: cue settings -> region.
   - region_sharing: once a cue's settings have produced (or found) region i, every later cue with the same
     settings list finds the same region i and creates nothing, whatever regions were added in between;
   - region_inside: for EVERY list of setting strings the region lies inside the root container [0,100]x[0,100]
     with non-negative extent (exact rational arithmetic) - no trigger is left after the repairs e725a80
     (size limited by the position), 39537f7 (line numbers beyond the grid), ffa7cc9 (percentages above 100),
     5598a49 (non-positive line numbers), b972272 (vertical centre);
   - region_sharing_iff: over any sequence of cues read into one document, two cues get the same region
     if and only if their settings compute the same region (box, writing mode, alignments). *)
From Coq Require Import QArith Qminmax Lqa.
From TT Require Import Base.Prelude Gen.VttTables Model.VttTokenizer Model.VttReader.
From TT Require Spec.VttSpec Model.VttCases.
Local Open Scope Z_scope.

(* ================================================================ sharing *)
Lemma wmode_eqb_refl w : wmode_eqb w w = true. Proof. destruct w; reflexivity. Qed.
Lemma talign_eqb_refl w : talign_eqb w w = true. Proof. destruct w; reflexivity. Qed.
Lemma dalign_eqb_refl w : dalign_eqb w w = true. Proof. destruct w; reflexivity. Qed.
Lemma region_eqb_refl r : region_eqb r r = true.
Proof.
  unfold region_eqb. rewrite wmode_eqb_refl, talign_eqb_refl, dalign_eqb_refl, !Qeq_bool_refl. reflexivity.
Qed.

Lemma find_app_some : forall rs r i k ext, find_region r i rs = Some k -> find_region r i (rs ++ ext) = Some k.
Proof.
  induction rs as [|x rs IH]; intros r i k ext H; cbn in *; [discriminate|].
  destruct (region_eqb x r); [exact H|apply IH; exact H].
Qed.
Lemma find_app_none : forall rs r i ext, find_region r i rs = None ->
  find_region r i (rs ++ r :: ext) = Some (i + Z.of_nat (length rs)).
Proof.
  induction rs as [|x rs IH]; intros r i ext H; cbn [app find_region length] in *.
  - rewrite region_eqb_refl. f_equal. cbn. lia.
  - destruct (region_eqb x r); [discriminate|]. rewrite IH by exact H. f_equal. lia.
Qed.

Theorem region_sharing : forall rs l rs1 i, get_or_make_region rs l = (rs1, i) ->
  (exists added, rs1 = rs ++ added) /\
  (exists r, nth_error rs1 (Z.to_nat i) = Some r /\ region_eqb r (compute_region l) = true) /\
  forall ext, get_or_make_region (rs1 ++ ext) l = (rs1 ++ ext, i).
Proof.
  intros rs l rs1 i. unfold get_or_make_region.
  destruct (find_region (compute_region l) 0 rs) as [k|] eqn:F; intros E; inversion E; subst; clear E.
  - split; [exists []; rewrite app_nil_r; reflexivity|]. split.
    + 
      assert (G : forall rs j k, find_region (compute_region l) j rs = Some k ->
                  j <= k /\ exists r, nth_error rs (Z.to_nat (k - j)) = Some r /\ region_eqb r (compute_region l) = true).
      { clear. induction rs as [|x rs IH]; intros j k H; cbn in H; [discriminate|].
        destruct (region_eqb x (compute_region l)) eqn:E.
        - inversion H; subst. split; [lia|]. exists x. rewrite Z.sub_diag. split; [reflexivity|exact E].
        - destruct (IH _ _ H) as (Hle & r & Hn & Hr). split; [lia|]. exists r. split; [|exact Hr].
          replace (Z.to_nat (k - j)) with (S (Z.to_nat (k - (j + 1)))) by lia. exact Hn. }
      destruct (G _ _ _ F) as (_ & r & Hn & Hr). exists r. split; [|exact Hr].
      rewrite Z.sub_0_r in Hn. exact Hn.
    + intros ext. rewrite (find_app_some _ _ _ _ ext F). reflexivity.
  - split; [exists [compute_region l]; reflexivity|]. split.
    + exists (compute_region l). rewrite Nat2Z.id. split; [|apply region_eqb_refl].
      rewrite nth_error_app2 by lia. rewrite Nat.sub_diag. reflexivity.
    + intros ext. rewrite <- app_assoc. cbn [app]. rewrite (find_app_none _ _ _ ext F). reflexivity.
Qed.

(* ================================================================ sharing iff same region value *)
Lemma region_eqb_true a b : region_eqb a b = true <->
  r_wm a = r_wm b /\ (r_ew a == r_ew b)%Q /\ (r_eh a == r_eh b)%Q /\ (r_ox a == r_ox b)%Q /\ (r_oy a == r_oy b)%Q /\
  r_ta a = r_ta b /\ r_da a = r_da b.
Proof.
  unfold region_eqb. rewrite !andb_true_iff, !Qeq_bool_iff.
  assert (W : forall x y, wmode_eqb x y = true <-> x = y) by (intros [] []; cbn; split; congruence).
  assert (T : forall x y, talign_eqb x y = true <-> x = y) by (intros [] []; cbn; split; congruence).
  assert (D : forall x y, dalign_eqb x y = true <-> x = y) by (intros [] []; cbn; split; congruence).
  rewrite W, T, D. tauto.
Qed.
Lemma region_eqb_sym a b : region_eqb a b = true -> region_eqb b a = true.
Proof.
  rewrite !region_eqb_true. intros (A & B & C & D & E & F & G).
  repeat split; try (symmetry; assumption).
Qed.
Lemma region_eqb_trans a b c : region_eqb a b = true -> region_eqb b c = true -> region_eqb a c = true.
Proof.
  rewrite !region_eqb_true. intros (A & B & C & D & E & F & G) (A' & B' & C' & D' & E' & F' & G').
  repeat split; try congruence; etransitivity; eassumption.
Qed.

(* the regions of a document, cue after cue (file order), and the region index each cue receives *)
Fixpoint assign (rs : list region) (ls : list (list text)) : list region * list Z :=
  match ls with
  | [] => (rs, [])
  | l :: ls' =>
    let '(rs1, i) := get_or_make_region rs l in
    let '(rs2, ids) := assign rs1 ls' in (rs2, i :: ids)
  end.

Fixpoint distinct (rs : list region) : Prop :=
  match rs with [] => True | r :: t => Forall (fun x => region_eqb r x = false) t /\ distinct t end.

Lemma find_none_forall : forall rs r i, find_region r i rs = None -> Forall (fun x => region_eqb x r = false) rs.
Proof.
  induction rs as [|x rs IH]; intros r i H; [constructor|]. cbn in H.
  destruct (region_eqb x r) eqn:E; [discriminate|]. constructor; [exact E|eapply IH; exact H].
Qed.
Lemma find_some_nth : forall rs r j k, find_region r j rs = Some k ->
  j <= k /\ exists x, nth_error rs (Z.to_nat (k - j)) = Some x /\ region_eqb x r = true.
Proof.
  induction rs as [|x rs IH]; intros r j k H; cbn in H; [discriminate|].
  destruct (region_eqb x r) eqn:E.
  - inversion H; subst. split; [lia|]. exists x. rewrite Z.sub_diag. split; [reflexivity|exact E].
  - destruct (IH _ _ _ H) as (Hle & y & Hn & Hr). split; [lia|]. exists y. split; [|exact Hr].
    replace (Z.to_nat (k - j)) with (S (Z.to_nat (k - (j + 1)))) by lia. exact Hn.
Qed.
Lemma distinct_snoc : forall rs r, distinct rs -> Forall (fun x => region_eqb x r = false) rs -> distinct (rs ++ [r]).
Proof.
  induction rs as [|x rs IH]; intros r D F; cbn; [split; constructor|].
  destruct D as [Dx Dt]. inversion F as [|? ? Fx Ft]; subst. split.
  - apply Forall_app. split; [exact Dx|constructor; [exact Fx|constructor]].
  - apply IH; assumption.
Qed.
Lemma distinct_nth : forall rs i j x y, distinct rs -> (i < j)%nat ->
  nth_error rs i = Some x -> nth_error rs j = Some y -> region_eqb x y = false.
Proof.
  induction rs as [|r rs IH]; intros i j x y D Hij Hi Hj; [destruct i; discriminate|].
  destruct D as [Dr Dt]. destruct j as [|j]; [lia|]. cbn in Hj. destruct i as [|i].
  - cbn in Hi. inversion Hi; subst. rewrite Forall_forall in Dr. apply Dr. eapply nth_error_In. exact Hj.
  - cbn in Hi. eapply IH; [exact Dt| |exact Hi|exact Hj]. lia.
Qed.

Lemma get_or_make_spec rs l rs1 i : distinct rs -> get_or_make_region rs l = (rs1, i) ->
  distinct rs1 /\ (exists added, rs1 = rs ++ added) /\ 0 <= i /\
  exists r, nth_error rs1 (Z.to_nat i) = Some r /\ region_eqb r (compute_region l) = true.
Proof.
  intros D. unfold get_or_make_region.
  destruct (find_region (compute_region l) 0 rs) as [k|] eqn:F; intros E; inversion E; subst; clear E.
  - destruct (find_some_nth _ _ _ _ F) as (Hk & x & Hn & Hx). rewrite Z.sub_0_r in Hn.
    split; [exact D|]. split; [exists []; rewrite app_nil_r; reflexivity|]. split; [exact Hk|]. exists x. split; assumption.
  - split; [apply distinct_snoc; [exact D|eapply find_none_forall; exact F]|].
    split; [eexists; reflexivity|]. split; [lia|]. exists (compute_region l). rewrite Nat2Z.id. split; [|apply region_eqb_refl].
    rewrite nth_error_app2 by lia. rewrite Nat.sub_diag. reflexivity.
Qed.

Lemma assign_spec : forall ls rs rs' ids, distinct rs -> assign rs ls = (rs', ids) ->
  distinct rs' /\ (exists added, rs' = rs ++ added) /\
  forall a la ia, nth_error ls a = Some la -> nth_error ids a = Some ia ->
    0 <= ia /\ exists r, nth_error rs' (Z.to_nat ia) = Some r /\ region_eqb r (compute_region la) = true.
Proof.
  induction ls as [|l ls IH]; intros rs rs' ids D E; cbn [assign] in E.
  - inversion E; subst. split; [exact D|]. split; [exists []; rewrite app_nil_r; reflexivity|].
    intros a la ia H. destruct a; discriminate.
  - destruct (get_or_make_region rs l) as [rs1 i] eqn:G.
    destruct (assign rs1 ls) as [rs2 ids2] eqn:A. inversion E; subst; clear E.
    destruct (get_or_make_spec _ _ _ _ D G) as (D1 & (ad1 & ->) & Hi & r & Hr & Hrc).
    destruct (IH _ _ _ D1 A) as (D2 & (ad2 & ->) & Hall).
    split; [exact D2|]. split; [exists (ad1 ++ ad2); rewrite app_assoc; reflexivity|].
    intros a la ia Hl Hid. destruct a as [|a]; cbn in Hl, Hid.
    + inversion Hl; inversion Hid; subst. split; [exact Hi|]. exists r. split; [|exact Hrc].
      rewrite nth_error_app1; [exact Hr|]. apply nth_error_Some. rewrite Hr. discriminate.
    + exact (Hall _ _ _ Hl Hid).
Qed.

(* two cues of one file get the same region if and only if their settings compute the same region value *)
Theorem region_sharing_iff : forall ls rs ids a b la lb ia ib, assign [] ls = (rs, ids) ->
  nth_error ls a = Some la -> nth_error ls b = Some lb ->
  nth_error ids a = Some ia -> nth_error ids b = Some ib ->
  (ia = ib <-> region_eqb (compute_region la) (compute_region lb) = true).
Proof.
  intros ls rs ids a b la lb ia ib A Hla Hlb Hia Hib.
  destruct (assign_spec ls [] rs ids I A) as (D & _ & Hall).
  destruct (Hall _ _ _ Hla Hia) as (Ha0 & ra & Hra & Ea).
  destruct (Hall _ _ _ Hlb Hib) as (Hb0 & rb & Hrb & Eb).
  split.
  - intros ->. rewrite Hra in Hrb. inversion Hrb; subst.
    eapply region_eqb_trans; [apply region_eqb_sym; exact Ea|exact Eb].
  - intros Hab.
    assert (Hrr : region_eqb ra rb = true).
    { eapply region_eqb_trans; [exact Ea|]. eapply region_eqb_trans; [exact Hab|apply region_eqb_sym; exact Eb]. }
    destruct (Z.lt_trichotomy ia ib) as [Hlt|[Heq|Hgt]]; [|exact Heq|].
    + rewrite (distinct_nth rs (Z.to_nat ia) (Z.to_nat ib) ra rb D) in Hrr; [discriminate|lia|exact Hra|exact Hrb].
    + apply region_eqb_sym in Hrr.
      rewrite (distinct_nth rs (Z.to_nat ib) (Z.to_nat ia) rb ra D) in Hrr; [discriminate|lia|exact Hrb|exact Hra].
Qed.

(* ================================================================ containment *)
Local Open Scope Q_scope.
Definition inside_root (r : region) : Prop :=
  0 <= r_ew r /\ 0 <= r_eh r /\ 0 <= r_ox r /\ 0 <= r_oy r /\ r_ox r + r_ew r <= 100 /\ r_oy r + r_eh r <= 100.
Local Open Scope Z_scope.

Lemma take_while_forall p s : Forall (fun c => p c = true) (take_while p s).
Proof. induction s as [|c s IH]; cbn; [constructor|]. destruct (p c) eqn:E; constructor; assumption. Qed.
Lemma dec_fold_nonneg : forall ds a, Forall (fun c => is_digit c = true) ds -> 0 <= a ->
  0 <= fold_left (fun a c => a * 10 + (c - 48)) ds a.
Proof.
  induction ds as [|c ds IH]; intros a H Ha; cbn; [exact Ha|].
  inversion H as [|? ? Hc Hd]; subst. apply IH; [exact Hd|]. unfold is_digit in Hc. lia.
Qed.
Lemma round_he_nonneg n d : 0 <= n -> 0 < d -> 0 <= round_he n d.
Proof.
  intros. unfold round_he. assert (0 <= n / d) by (apply Z.div_pos; lia).
  destruct (2 * (n mod d) <? d); [lia|]. destruct (d <? 2 * (n mod d)); [lia|]. destruct (Z.even (n / d)); lia.
Qed.
(* a parsed percentage is in 0..100 *)
Lemma parse_pct_bounds v p : parse_vtt_pct v = Some p -> 0 <= p <= 100.
Proof.
  unfold parse_vtt_pct.
  destruct (is_nil (take_while is_digit v)); [discriminate|].
  set (r2 := match drop_while is_digit v with 46 :: r => r | _ => drop_while is_digit v end).
  destruct (text_eqb (drop_while is_digit r2) [37]); [|discriminate].
  cbv zeta.
  set (pct := round_he _ _).
  assert (Hp : 0 <= pct).
  { apply round_he_nonneg.
    - apply dec_fold_nonneg; [apply Forall_app; split; apply take_while_forall|lia].
    - apply Z.pow_pos_nonneg; lia. }
  destruct (pct <=? 100) eqn:E; [|discriminate]. intros H; inversion H; subst. lia.
Qed.

Local Open Scope Q_scope.
Lemma qz_bounds p : (0 <= p <= 100)%Z -> 0 <= qz p /\ qz p <= 100.
Proof.
  intros [A B]. unfold qz. split; [change 0 with (inject_Z 0)|change 100 with (inject_Z 100)]; rewrite <- Zle_Qle; assumption.
Qed.
Lemma clamp100_bounds x : 0 <= clamp100 x /\ clamp100 x <= 100.
Proof.
  unfold clamp100. split.
  - apply Q.min_glb; [apply Q.le_max_r|unfold Qle; vm_compute; discriminate].
  - apply Q.le_min_r.
Qed.
Lemma offset_bounds wm v0 lo : line_offset_of wm v0 = Some lo -> 0 <= lo /\ lo <= 100.
Proof.
  unfold line_offset_of.
  destruct (parse_vtt_pct v0) as [p|] eqn:P.
  - intros E. inversion E; subst. apply qz_bounds. eapply parse_pct_bounds. exact P.
  - destruct (parse_vtt_int v0) as [n|]; [|discriminate]. cbv zeta. intros E. inversion E; subst. apply clamp100_bounds.
Qed.

Lemma default_bounds :
  0 <= default_ew /\ 0 <= default_eh /\ 0 <= default_ox /\ default_ox <= 100 /\ 0 <= default_oy /\ default_oy <= 100.
Proof. repeat split; unfold Qle; vm_compute; discriminate. Qed.

(* what holds before the final limit: extents non-negative, origin inside the root container *)
Definition pre_box (eh ew ox oy : Q) : Prop := 0 <= eh /\ 0 <= ew /\ 0 <= ox /\ ox <= 100 /\ 0 <= oy /\ oy <= 100.

Lemma stage_size_bounds cs wm eh ew : stage_size cs wm = (eh, ew) -> 0 <= eh /\ 0 <= ew.
Proof.
  destruct default_bounds as (D1 & D2 & _).
  unfold stage_size. destruct (setting s_size cs) as [v|]; [|intros E; inversion E; subst; split; assumption].
  destruct (parse_vtt_pct v) as [p|] eqn:P; [|intros E; inversion E; subst; split; assumption].
  destruct (qz_bounds p (parse_pct_bounds _ _ P)) as [Q0 _].
  destruct (negb (horizontal wm)); intros E; inversion E; subst; split; assumption.
Qed.

Lemma half x : x / 2 == x * (1 # 2).
Proof. reflexivity. Qed.

Lemma stage_line_bounds cs wm eh0 ew0 eh ew ox oy da : 0 <= eh0 -> 0 <= ew0 ->
  stage_line cs wm eh0 ew0 = (eh, ew, ox, oy, da) -> pre_box eh ew ox oy.
Proof.
  intros H0 W0. destruct default_bounds as (_ & _ & D3 & D4 & D5 & D6).
  unfold stage_line, pre_box.
  destruct (setting s_line cs) as [v|]; [|intros E; inversion E; subst; repeat split; assumption].
  cbv zeta.
  set (value := split_on 44 v).
  set (la := if (1 <? length value)%nat then nth_text 1 value else s_start).
  destruct (line_offset_of wm (nth_text 0 value)) as [lo|] eqn:L;
    [|intros E; inversion E; subst; repeat split; assumption].
  destruct (offset_bounds _ _ _ L) as [L0 L100].
  pose proof (Q.le_min_l lo (100 - lo)) as M1. pose proof (Q.le_min_r lo (100 - lo)) as M2.
  assert (M0 : 0 <= Qmin lo (100 - lo)) by (apply Q.min_glb; lra).
  set (mn := Qmin lo (100 - lo)) in *. clearbody mn.
  destruct (text_eqb la s_center); [|destruct (text_eqb la s_start); [|destruct (text_eqb la s_end)]];
    destruct (horizontal wm); intros E; inversion E; subst; clear E; rewrite ?half; repeat split; try assumption; lra.
Qed.

Lemma stage_position_bounds cs wm ta eh0 ew0 ox0 oy0 eh ew ox oy : pre_box eh0 ew0 ox0 oy0 ->
  stage_position cs wm ta eh0 ew0 ox0 oy0 = (eh, ew, ox, oy) -> pre_box eh ew ox oy.
Proof.
  intros B. pose proof B as (H0 & W0 & X0 & X1 & Y0 & Y1). unfold stage_position. cbv zeta.
  destruct (setting s_position cs) as [v|]; [|intros E; inversion E; subst; exact B].
  set (value := split_on 44 v).
  match goal with |- context [text_eqb ?x s_center] => set (la := x); clearbody la end.
  destruct (parse_vtt_pct (nth_text 0 value)) as [p|] eqn:P; [|intros E; inversion E; subst; exact B].
  destruct (qz_bounds p (parse_pct_bounds _ _ P)) as [P0 P100].
  set (pos := qz p) in *. clearbody pos.
  pose proof (Q.le_min_l pos (100 - pos)) as M1. pose proof (Q.le_min_r pos (100 - pos)) as M2.
  assert (M0 : 0 <= Qmin pos (100 - pos)) by (apply Q.min_glb; lra).
  set (mn := Qmin pos (100 - pos)) in *. clearbody mn.
  unfold pre_box.
  destruct (text_eqb la s_center); [|destruct (text_eqb la s_line_left)];
    destruct (horizontal wm);
    match goal with
    | |- context [Qmin ?a ?b] =>
      pose proof (Q.le_min_l a b) as N1; pose proof (Q.le_min_r a b) as N2;
      assert (N0 : 0 <= Qmin a b) by (apply Q.min_glb; lra);
      set (sz := Qmin a b) in *; clearbody sz
    end;
    intros E; inversion E; subst; clear E; rewrite ?half; repeat split; try assumption; lra.
Qed.

(* the region selected by ANY list of setting strings lies inside the root container with non-negative extent *)
Theorem region_inside cs : inside_root (compute_region cs).
Proof.
  unfold compute_region.
  destruct (stage_size cs (stage_vertical cs)) as [eh0 ew0] eqn:E0.
  destruct (stage_size_bounds _ _ _ _ E0) as [A0 A1].
  destruct (stage_line cs (stage_vertical cs) eh0 ew0) as [[[[eh1 ew1] ox1] oy1] da] eqn:E1.
  pose proof (stage_line_bounds _ _ _ _ _ _ _ _ _ A0 A1 E1) as B1.
  destruct (stage_position cs (stage_vertical cs) (stage_align cs (stage_vertical cs)) eh1 ew1 ox1 oy1) as [[[eh ew] ox] oy] eqn:E2.
  destruct (stage_position_bounds _ _ _ _ _ _ _ _ _ _ _ B1 E2) as (H0 & W0 & X0 & X1 & Y0 & Y1).
  unfold inside_root. cbn [r_ew r_eh r_ox r_oy].
  pose proof (Q.le_min_r ew (100 - ox)) as N1. pose proof (Q.le_min_r eh (100 - oy)) as N2.
  assert (N3 : 0 <= Qmin ew (100 - ox)) by (apply Q.min_glb; lra).
  assert (N4 : 0 <= Qmin eh (100 - oy)) by (apply Q.min_glb; lra).
  repeat split; try assumption; lra.
Qed.

(* executable form, for the case files and examples *)
Definition inside_root_b (r : region) : bool :=
  Qle_bool 0 (r_ew r) && Qle_bool 0 (r_eh r) && Qle_bool 0 (r_ox r) && Qle_bool 0 (r_oy r) &&
  Qle_bool (r_ox r + r_ew r) 100 && Qle_bool (r_oy r + r_eh r) 100.
Lemma inside_root_b_spec r : inside_root r -> inside_root_b r = true.
Proof.
  unfold inside_root, inside_root_b. intros (A & B & C & D & E & F).
  rewrite <- Qle_bool_iff in A, B, C, D, E, F. rewrite A, B, C, D, E, F. reflexivity.
Qed.

(* the same in the words of the specification: S's containment clause (Spec.VttSpec.region_inside, the clause the
   check evaluates on the code's regions as clause 20) accepts the region of every list of setting strings *)
Theorem region_inside_spec cs : VttSpec.region_inside (VttCases.view_region (compute_region cs)) = true.
Proof.
  destruct (region_inside cs) as (A & B & C & D & E & F).
  assert (L : forall a b, (a <= b)%Q -> VttSpec.qle a b = true).
  { intros a b H. unfold VttSpec.qle. apply Qle_bool_iff. unfold VttSpec.eps.
    assert (0 <= 1 # 1000000)%Q by (unfold Qle; cbn; lia). lra. }
  unfold VttSpec.region_inside, VttCases.view_region. cbn [VttSpec.rv_w VttSpec.rv_h VttSpec.rv_x VttSpec.rv_y].
  rewrite !L by assumption. reflexivity.
Qed.
