(* C11: the file-level line machine.  For every WebVTT file made of a header line and cue blocks (optional
   identifier line, timing line with any setting words, zero or more non-blank payload lines), separated by one
   blank line, to_model isolates exactly the cue blocks: one paragraph per cue that has a payload, in order, with
   exactly the printed begin and end, the region its settings select, and the tree parsed from its payload lines
   joined by line feeds; a cue without payload lines yields no paragraph (its region is still created) and does
   not disturb its neighbours.  By induction on the list of cues. *)
From Coq Require Import QArith.
From TT Require Import Base.Prelude Gen.VttTables Model.VttTokenizer Model.VttReader Spec.VttSpec.
From TT Require Import Proofs.C11.Time Proofs.C11.Region.
Local Open Scope Z_scope.

Record rcue := mkRcue {
  rc_id : option text;
  rc_begin : tstamp; rc_end : tstamp;
  rc_settings : list text;        (* setting words, any strings without white space *)
  rc_lines : list text            (* payload lines, without their line terminator *)
}.

Definition nl (l : text) : text := l ++ [10].
Definition arrow : text := [32;45;45;62;32].
Definition timing_line (c : rcue) : text :=
  nl (print_ts (rc_begin c) ++ arrow ++ print_ts (rc_end c) ++ flat_map (fun s => 32 :: s) (rc_settings c)).
Definition cue_lines (c : rcue) : list text :=
  match rc_id c with Some i => [nl i] | None => [] end ++ timing_line c :: map nl (rc_lines c).
Definition file_lines (hdr : text) (cs : list rcue) : list text :=
  nl (s_WEBVTT ++ hdr) :: flat_map (fun c => [10] :: cue_lines c) cs.
Definition file_text (hdr : text) (cs : list rcue) : text := concat (file_lines hdr cs).

(* ---- well-formedness (all executable) *)
Definition no_lf (l : text) : bool := negb (mem_z 10 l).
Definition word_ok (w : text) : bool := negb (is_nil w) && forallb (fun c => negb (is_space c)) w.
Definition id_ok (i : text) : bool :=
  no_lf i && negb (is_blank (nl i)) && negb (starts_with s_NOTE_ (nl i)) && negb (starts_with s_STYLE (nl i)) &&
  negb (contains s_arrow (nl i)).
Definition line_ok (l : text) : bool := no_lf l && negb (is_blank (nl l)).
Definition rcue_ok (c : rcue) : Prop :=
  match rc_id c with Some i => id_ok i = true | None => True end /\
  wf_ts (rc_begin c) /\ wf_ts (rc_end c) /\
  forallb word_ok (rc_settings c) = true /\
  forallb line_ok (rc_lines c) = true.

(* ---- what the file means *)
Definition cue_text (c : rcue) : text := replace_raw (strip_crlf (concat (map nl (rc_lines c)))).
Fixpoint read_cues (cs : list rcue) (regions : list region) (paras : list para) : outcome :=
  match cs with
  | [] => OkDoc regions paras
  | c :: cs' =>
    let '(regions', ri) := get_or_make_region regions (rc_settings c) in
    let b := Qmake (ts_ms (rc_begin c)) 1000 in
    match rc_lines c with
    | [] => read_cues cs' regions' paras            (* no payload: nothing is shown, nothing is attached *)
    | _ =>
      match parse_cue_text b (cue_text c) with
      | inr e => Raised e
      | inl children => read_cues cs' regions' (paras ++ [mkPara b (Qmake (ts_ms (rc_end c)) 1000) ri children])
      end
    end
  end.

(* ================================================================ readlines *)
Lemma readlines_aux_acc : forall l cur rest, no_lf l = true ->
  readlines_aux cur (l ++ rest) = readlines_aux (cur ++ l) rest.
Proof.
  induction l as [|c l IH]; intros cur rest H; [rewrite app_nil_r; reflexivity|].
  unfold no_lf in H. cbn [mem_z existsb] in H. apply negb_true_iff in H. apply orb_false_iff in H as [H1 H2].
  cbn [app readlines_aux]. replace (c =? 10) with false by lia.
  rewrite IH by (unfold no_lf, mem_z; rewrite H2; reflexivity). rewrite <- app_assoc. reflexivity.
Qed.
Lemma readlines_line l rest : no_lf l = true -> readlines_aux [] (nl l ++ rest) = nl l :: readlines_aux [] rest.
Proof.
  intros H. unfold nl. rewrite <- app_assoc. rewrite readlines_aux_acc by exact H. cbn. reflexivity.
Qed.
Lemma readlines_lines : forall ls, forallb no_lf ls = true -> readlines (concat (map nl ls)) = map nl ls.
Proof.
  unfold readlines. induction ls as [|l ls IH]; intros H; [reflexivity|].
  cbn [forallb] in H. apply andb_true_iff in H as [H1 H2].
  cbn [map concat]. rewrite readlines_line by exact H1. rewrite IH by exact H2. reflexivity.
Qed.

(* ================================================================ character facts *)
Lemma dig_not_space c : dig c -> is_space c = false.
Proof. unfold dig, is_space, mem_z, unicode_space. cbn [existsb]. lia. Qed.
Lemma print_ts_chars t : wf_ts t -> Forall (fun c => dig c \/ c = 58 \/ c = 46) (print_ts t).
Proof.
  destruct t as [h m s f]. unfold wf_ts, print_ts. cbn [ts_hours ts_min ts_sec ts_frac].
  intros (Hh & Hm & Hs & Hf).
  assert (L : forall l, Forall dig l -> Forall (fun c => dig c \/ c = 58 \/ c = 46) l)
    by (intros l Hl; eapply Forall_impl; [|exact Hl]; cbn; auto).
  apply Forall_app; split.
  - destruct h as [hd|]; [|constructor]. destruct Hh as [_ Hd].
    apply Forall_app; split; [apply L; apply hours_dig; exact Hd|constructor; [right; left; reflexivity|constructor]].
  - apply Forall_app; split; [apply L; apply pad2_dig; lia|].
    apply Forall_app; split; [constructor; [right; left; reflexivity|constructor]|].
    apply Forall_app; split; [apply L; apply pad2_dig; lia|].
    apply Forall_app; split; [constructor; [right; right; reflexivity|constructor]|apply L; apply pad3_dig; lia].
Qed.
Lemma print_ts_word t : wf_ts t -> Forall (fun c => is_space c = false) (print_ts t).
Proof.
  intros H. eapply Forall_impl; [|apply print_ts_chars; exact H].
  cbn. intros c [D|[->| ->]]; [apply dig_not_space; exact D|reflexivity|reflexivity].
Qed.
Lemma print_ts_head t : wf_ts t -> exists c r, print_ts t = c :: r /\ dig c.
Proof.
  destruct t as [h m s f]. unfold wf_ts, print_ts. cbn [ts_hours ts_min ts_sec ts_frac].
  intros (Hh & Hm & _). destruct h as [[|d hd]|].
  - destruct Hh as [Hl _]. cbn in Hl. lia.
  - destruct Hh as [_ Hd]. inversion Hd; subst. cbn [map app]. eexists; eexists; split; [reflexivity|]. unfold digit_ok, dig in *. lia.
  - unfold pad2. cbn [app]. eexists; eexists; split; [reflexivity|]. unfold dig. lia.
Qed.

(* ================================================================ the timing line *)
Lemma split_ws_word : forall w cur rest, Forall (fun c => is_space c = false) w ->
  split_ws_aux cur (w ++ rest) = split_ws_aux (cur ++ w) rest.
Proof.
  induction w as [|c w IH]; intros cur rest H; [rewrite app_nil_r; reflexivity|].
  inversion H; subst. cbn [app split_ws_aux]. rewrite H2. rewrite IH by assumption. rewrite <- app_assoc. reflexivity.
Qed.
Lemma split_ws_sep cur c rest : is_space c = true -> cur <> [] ->
  split_ws_aux cur (c :: rest) = cur :: split_ws_aux [] rest.
Proof. intros H Hc. cbn [split_ws_aux]. rewrite H. destruct cur; [congruence|reflexivity]. Qed.

Lemma split_ws_settings : forall ss, forallb word_ok ss = true ->
  split_ws_aux [] (flat_map (fun s => 32 :: s) ss ++ [10]) = ss /\
  forall cur, cur <> [] -> split_ws_aux cur (flat_map (fun s => 32 :: s) ss ++ [10]) = cur :: ss.
Proof.
  induction ss as [|s ss IH]; intros H.
  - split; [reflexivity|]. intros cur Hc. cbn. destruct cur; [congruence|reflexivity].
  - cbn [forallb] in H. apply andb_true_iff in H as [Hs Hss]. destruct (IH Hss) as [IH1 IH2].
    unfold word_ok in Hs. apply andb_true_iff in Hs as [Hne Hw].
    assert (Hw' : Forall (fun c => is_space c = false) s).
    { apply Forall_forall. intros c Hin. rewrite forallb_forall in Hw. specialize (Hw c Hin).
      apply negb_true_iff in Hw. exact Hw. }
    assert (Hs' : s <> []) by (destruct s; [discriminate|discriminate]).
    assert (E : split_ws_aux [] (s ++ flat_map (fun s0 => 32 :: s0) ss ++ [10]) = s :: ss).
    { rewrite split_ws_word by exact Hw'. cbn [app]. apply IH2. exact Hs'. }
    cbn [flat_map]. rewrite <- app_assoc. cbn [app]. split.
    + cbn [split_ws_aux]. replace (is_space 32) with true by reflexivity. cbn [is_nil]. exact E.
    + intros cur Hc. rewrite split_ws_sep by (auto; reflexivity). rewrite E. reflexivity.
Qed.

Lemma timing_split c : wf_ts (rc_begin c) -> wf_ts (rc_end c) -> forallb word_ok (rc_settings c) = true ->
  split_ws (timing_line c) = print_ts (rc_begin c) :: s_arrow :: print_ts (rc_end c) :: rc_settings c.
Proof.
  intros Hb He Hs. unfold split_ws, timing_line, nl, arrow.
  destruct (print_ts_head _ Hb) as (cb & rb & Eb & _). destruct (print_ts_head _ He) as (ce & re & Ee & _).
  rewrite <- !app_assoc. rewrite split_ws_word by (apply print_ts_word; exact Hb).
  cbn [app]. rewrite split_ws_sep by (try reflexivity; rewrite Eb; discriminate).
  change (45 :: 45 :: 62 :: 32 :: print_ts (rc_end c) ++ flat_map (fun s => 32 :: s) (rc_settings c) ++ [10])
    with ([45;45;62] ++ 32 :: print_ts (rc_end c) ++ flat_map (fun s => 32 :: s) (rc_settings c) ++ [10]).
  rewrite split_ws_word by (repeat constructor).
  rewrite split_ws_sep by (try reflexivity; discriminate).
  rewrite split_ws_word by (apply print_ts_word; exact He). cbn [app].
  destruct (split_ws_settings _ Hs) as [_ H2]. rewrite H2 by (rewrite Ee; discriminate). reflexivity.
Qed.

Lemma contains_app : forall a p b, contains p (a ++ p ++ b) = true.
Proof.
  assert (S : forall p b, starts_with p (p ++ b) = true)
    by (induction p as [|x p IH]; intros b; [reflexivity|cbn; rewrite Z.eqb_refl; apply IH]).
  induction a as [|x a IH]; intros p b.
  - cbn [app]. destruct (p ++ b) eqn:E; cbn [contains]; rewrite <- ?E, S; reflexivity.
  - cbn [app contains]. rewrite IH. apply orb_true_r.
Qed.

Lemma timing_looking c s : rcue_ok c ->
  looking (timing_line c) s =
  let '(regions, ri) := get_or_make_region (rs_regions s) (rc_settings c) in
  mkR LText regions (rs_paras s)
      (Some (mkPara (Qmake (ts_ms (rc_begin c)) 1000) (Qmake (ts_ms (rc_end c)) 1000) ri [])) false (Some []).
Proof.
  intros (_ & Hb & He & Hs & _). unfold looking.
  destruct (print_ts_head _ Hb) as (cb & rb & Eb & Db).
  assert (Hhd : exists r, timing_line c = cb :: r).
  { unfold timing_line, nl. rewrite Eb. cbn [app]. eexists; reflexivity. }
  destruct Hhd as [r Er].
  assert (B : is_blank (timing_line c) = false).
  { rewrite Er. unfold is_blank. cbn [is_nil negb forallb]. rewrite dig_not_space by exact Db. reflexivity. }
  assert (N : starts_with s_NOTE_ (timing_line c) = false).
  { rewrite Er. unfold s_NOTE_. cbn [starts_with]. unfold dig in Db. replace (78 =? cb) with false by lia. reflexivity. }
  assert (St : starts_with s_STYLE (timing_line c) = false).
  { rewrite Er. unfold s_STYLE. cbn [starts_with]. unfold dig in Db. replace (83 =? cb) with false by lia. reflexivity. }
  assert (A : contains s_arrow (timing_line c) = true).
  { unfold timing_line, nl, arrow.
    change (print_ts (rc_begin c) ++ [32;45;45;62;32] ++ print_ts (rc_end c) ++ flat_map (fun s0 => 32 :: s0) (rc_settings c))
      with (print_ts (rc_begin c) ++ [32] ++ s_arrow ++ 32 :: print_ts (rc_end c) ++ flat_map (fun s0 => 32 :: s0) (rc_settings c)).
    rewrite <- !app_assoc. rewrite (app_assoc (print_ts (rc_begin c)) [32]). apply contains_app. }
  rewrite B, N, St, A. cbn [negb].
  rewrite timing_split by assumption. cbn [length Nat.ltb Nat.leb nth_text nth skipn].
  replace (S (S (S (length (rc_settings c)))) <? 3)%nat with false by (symmetry; apply Nat.ltb_ge; lia).
  rewrite !exact_time by assumption. reflexivity.
Qed.

(* ================================================================ one cue block *)
Definition looking_state (s : rstate) : Prop := rs_state s = LLooking.

Lemma run_text_more : forall ls rest rg ps cur att txt, forallb line_ok ls = true ->
  run_lines (map Some (map nl ls) ++ rest) (mkR LTextMore rg ps (Some cur) att (Some txt)) =
  run_lines rest (mkR LTextMore rg ps (Some cur) att (Some (txt ++ concat (map nl ls)))).
Proof.
  induction ls as [|l ls IH]; intros rest rg ps cur att txt H; [cbn; rewrite app_nil_r; reflexivity|].
  cbn [forallb] in H. apply andb_true_iff in H as [Hl Hls]. unfold line_ok in Hl. apply andb_true_iff in Hl as [_ Hl].
  apply negb_true_iff in Hl.
  cbn [map app run_lines rs_state]. rewrite Hl. cbn [rs_cur rs_regions rs_paras rs_attached rs_text].
  rewrite IH by exact Hls. cbn [concat]. rewrite app_assoc. reflexivity.
Qed.

Lemma replace_last_app : forall l p q, replace_last (l ++ [p]) q = l ++ [q].
Proof.
  induction l as [|x l IH]; intros p q; [reflexivity|].
  change ((x :: l) ++ [p]) with (x :: (l ++ [p])).
  destruct (l ++ [p]) as [|y r] eqn:E.
  - destruct l; discriminate.
  - change (replace_last (x :: y :: r) q) with (x :: replace_last (y :: r) q).
    rewrite <- E, IH. reflexivity.
Qed.

Definition terminator (t : option text) : Prop := t = None \/ t = Some [10].

Lemma run_cue c t rest s : rcue_ok c -> terminator t -> rs_state s = LLooking ->
  run_lines (map Some (cue_lines c) ++ t :: rest) s =
  let '(regions, ri) := get_or_make_region (rs_regions s) (rc_settings c) in
  let b := Qmake (ts_ms (rc_begin c)) 1000 in
  let p := mkPara b (Qmake (ts_ms (rc_end c)) 1000) ri in
  match rc_lines c with
  | [] => run_lines rest (mkR LLooking regions (rs_paras s) (Some (p [])) false (Some []))
  | _ =>
    match parse_cue_text b (cue_text c) with
    | inr e => Raised e
    | inl children =>
      run_lines rest (mkR LLooking regions (rs_paras s ++ [p children]) (Some (p [])) true
                          (Some (concat (map nl (rc_lines c)))))
    end
  end.
Proof.
  intros W T L. pose proof W as (Hid & Hb & He & Hs & Hl).
  unfold cue_lines.
  (* the identifier line is skipped *)
  assert (Skip : forall items, run_lines (map Some (match rc_id c with Some i => [nl i] | None => [] end) ++ items) s = run_lines items s).
  { intros items. destruct (rc_id c) as [i|]; [|reflexivity].
    cbn [map app run_lines]. rewrite L. unfold looking.
    unfold id_ok in Hid. repeat (apply andb_true_iff in Hid as [Hid ?]).
    repeat match goal with H : negb _ = true |- _ => apply negb_true_iff in H end.
    rewrite H2, H1, H0, H. reflexivity. }
  rewrite map_app, <- app_assoc. rewrite Skip.
  cbn [map app run_lines]. rewrite L. rewrite timing_looking by exact W.
  destruct (get_or_make_region (rs_regions s) (rc_settings c)) as [rg ri].
  assert (TB : match t with None => true | Some l => is_blank l end = true) by (destruct T as [-> | ->]; reflexivity).
  destruct (rc_lines c) as [|l1 ls] eqn:El.
  - (* no payload: subtitle_text is "", the paragraph is never attached *)
    cbn [map app run_lines rs_state]. rewrite TB.
    cbn [rs_text rs_cur rs_attached rs_paras rs_regions pa_begin pa_end pa_region]. reflexivity.
  - cbn [forallb] in Hl. apply andb_true_iff in Hl as [Hl1 Hls].
    pose proof Hl1 as Hl1'. unfold line_ok in Hl1'. apply andb_true_iff in Hl1' as [_ Hb1]. apply negb_true_iff in Hb1.
    cbn [map app run_lines rs_state]. rewrite Hb1. cbn [rs_cur rs_state rs_regions rs_paras rs_attached rs_text].
    rewrite run_text_more by exact Hls.
    cbn [run_lines rs_state]. rewrite TB. cbn [rs_text rs_cur rs_attached rs_paras rs_regions pa_begin pa_end pa_region].
    unfold cue_text. rewrite El. cbn [map concat].
    destruct (parse_cue_text _ _) as [ch|e]; [|reflexivity].
    rewrite replace_last_app. reflexivity.
Qed.

(* ================================================================ the whole file *)
Fixpoint items_of (cs : list rcue) : list (option text) :=
  match cs with
  | [] => [None]
  | c :: cs' => map Some (cue_lines c) ++ match cs' with [] => [None] | _ => Some [10] :: items_of cs' end
  end.

Lemma run_cues : forall cs s, cs <> [] -> Forall rcue_ok cs -> rs_state s = LLooking ->
  run_lines (items_of cs) s = read_cues cs (rs_regions s) (rs_paras s).
Proof.
  induction cs as [|c cs IH]; intros s Hne W L; [congruence|]. inversion W; subst.
  cbn [items_of read_cues]. destruct cs as [|c2 cs].
  - rewrite run_cue; [|assumption|left; reflexivity|exact L].
    destruct (get_or_make_region _ _) as [rg ri]. cbv zeta.
    destruct (rc_lines c); [reflexivity|].
    destruct (parse_cue_text _ _); reflexivity.
  - rewrite run_cue; [|assumption|right; reflexivity|exact L].
    destruct (get_or_make_region _ _) as [rg ri]. cbv zeta.
    destruct (rc_lines c).
    + rewrite IH; [reflexivity|discriminate|assumption|reflexivity].
    + destruct (parse_cue_text _ _) as [ch|e]; [|reflexivity].
      rewrite IH; [reflexivity|discriminate|assumption|reflexivity].
Qed.

Lemma file_items hdr cs :
  map Some (file_lines hdr cs) ++ [None] =
  Some (nl (s_WEBVTT ++ hdr)) :: match cs with [] => [None] | _ => Some [10] :: items_of cs end.
Proof.
  unfold file_lines. cbn [map app]. f_equal.
  induction cs as [|c cs IH]; [reflexivity|].
  cbn [flat_map map app items_of]. f_equal. rewrite map_app, <- app_assoc. f_equal.
  destruct cs as [|c2 cs]; [reflexivity|]. exact IH.
Qed.

Definition nl_line (l : text) : Prop := exists r, l = nl r /\ no_lf r = true.
Lemma readlines_nl_lines : forall ls, Forall nl_line ls -> readlines (concat ls) = ls.
Proof.
  unfold readlines. induction 1 as [|l ls (r & -> & Hr) _ IH]; [reflexivity|].
  cbn [concat]. rewrite readlines_line by exact Hr. rewrite IH. reflexivity.
Qed.

Lemma no_lf_app a b : no_lf a = true -> no_lf b = true -> no_lf (a ++ b) = true.
Proof.
  unfold no_lf, mem_z. rewrite existsb_app. intros Ha Hb.
  apply negb_true_iff in Ha. apply negb_true_iff in Hb. rewrite Ha, Hb. reflexivity.
Qed.
Lemma no_space_no_lf w : Forall (fun c => is_space c = false) w -> no_lf w = true.
Proof.
  unfold no_lf, mem_z. induction 1 as [|c w Hc _ IH]; [reflexivity|].
  cbn [existsb]. apply negb_true_iff. apply orb_false_iff. split.
  - destruct (10 =? c) eqn:E; [|reflexivity]. apply Z.eqb_eq in E. subst c. discriminate.
  - apply negb_true_iff in IH. exact IH.
Qed.
Lemma settings_no_lf : forall ss, forallb word_ok ss = true -> no_lf (flat_map (fun s => 32 :: s) ss) = true.
Proof.
  induction ss as [|s ss IH]; intros H; [reflexivity|].
  cbn [forallb] in H. apply andb_true_iff in H as [Hs Hss]. cbn [flat_map].
  change (32 :: s) with ([32] ++ s). rewrite <- app_assoc. apply no_lf_app; [reflexivity|]. apply no_lf_app; [|apply IH; exact Hss].
  unfold word_ok in Hs. apply andb_true_iff in Hs as [_ Hw]. apply no_space_no_lf.
  apply Forall_forall. intros c Hin. rewrite forallb_forall in Hw. specialize (Hw c Hin). apply negb_true_iff in Hw. exact Hw.
Qed.

Lemma cue_lines_nl c : rcue_ok c -> Forall nl_line (cue_lines c).
Proof.
  intros (Hid & Hb & He & Hs & Hl). unfold cue_lines. apply Forall_app; split.
  - destruct (rc_id c) as [i|]; [|constructor]. constructor; [|constructor].
    exists i. split; [reflexivity|]. unfold id_ok in Hid. repeat (apply andb_true_iff in Hid as [Hid ?]). exact Hid.
  - constructor.
    + eexists. split; [reflexivity|].
      apply no_lf_app; [apply no_space_no_lf; apply print_ts_word; exact Hb|].
      apply no_lf_app; [reflexivity|].
      apply no_lf_app; [apply no_space_no_lf; apply print_ts_word; exact He|apply settings_no_lf; exact Hs].
    + clear -Hl. induction (rc_lines c) as [|l ls IH]; [constructor|].
      cbn [forallb] in Hl. apply andb_true_iff in Hl as [H1 H2]. cbn [map]. constructor; [|apply IH; exact H2].
      exists l. split; [reflexivity|]. unfold line_ok in H1. apply andb_true_iff in H1 as [H1 _]. exact H1.
Qed.

Lemma file_lines_nl hdr cs : no_lf hdr = true -> Forall rcue_ok cs -> Forall nl_line (file_lines hdr cs).
Proof.
  intros Hh W. unfold file_lines. constructor.
  - eexists. split; [reflexivity|]. apply no_lf_app; [reflexivity|exact Hh].
  - induction W as [|c cs Hc _ IH]; [constructor|]. cbn [flat_map].
    constructor; [exists []; split; reflexivity|]. apply Forall_app; split; [apply cue_lines_nl; exact Hc|exact IH].
Qed.

Theorem file_cues hdr cs : no_lf hdr = true -> Forall rcue_ok cs ->
  to_model (file_text hdr cs) = read_cues cs [] [].
Proof.
  intros Hh W. unfold to_model, file_text.
  rewrite readlines_nl_lines by (apply file_lines_nl; assumption).
  rewrite file_items. cbn [run_lines rs_state].
  destruct cs as [|c cs]; [reflexivity|].
  cbn [run_lines rs_state set_state]. change (looking [10] _) with (mkR LLooking [] [] None false None).
  apply (run_cues (c :: cs) (mkR LLooking [] [] None false None)); [discriminate|exact W|reflexivity].
Qed.

(* ================================================================ blocks: cues and what must be skipped
   A WebVTT file is a header and blocks separated by blank lines.  Besides cue blocks there are blocks the reader
   must skip: comments (first line starts with "NOTE "), style blocks (first line starts with "STYLE") - whatever
   non-blank lines follow, lines holding "-->" included - and any other block none of whose lines holds "-->"
   (REGION blocks, a bare NOTE line with a comment below it, stray identifiers).  For EVERY such line list the line
   machine leaves regions and paragraphs untouched and resumes looking for the next block. *)
Inductive rblock := RCue (c : rcue) | RSkip (ls : list text).       (* lines without their terminator *)

Definition note_or_style (l : text) : bool := starts_with s_NOTE_ (nl l) || starts_with s_STYLE (nl l).
Fixpoint skip_lines_ok (ls : list text) : bool :=
  match ls with
  | [] => true
  | l :: ls' =>
    line_ok l && (if note_or_style l then forallb line_ok ls' else negb (contains s_arrow (nl l)) && skip_lines_ok ls')
  end.
Definition rblock_ok (b : rblock) : Prop :=
  match b with RCue c => rcue_ok c | RSkip ls => ls <> [] /\ skip_lines_ok ls = true end.

Definition block_lines (b : rblock) : list text := match b with RCue c => cue_lines c | RSkip ls => map nl ls end.
Definition file_lines_b (hdr : text) (bs : list rblock) : list text :=
  nl (s_WEBVTT ++ hdr) :: flat_map (fun b => [10] :: block_lines b) bs.
Definition file_text_b (hdr : text) (bs : list rblock) : text := concat (file_lines_b hdr bs).
Definition cues_of_blocks (bs : list rblock) : list rcue :=
  flat_map (fun b => match b with RCue c => [c] | RSkip _ => [] end) bs.

(* what follows a block: the blank separator line, or the end of the file *)
Definition after_block (t : option text) (rest : list (option text)) (s : rstate) : outcome :=
  match t with None => OkDoc (rs_regions s) (rs_paras s) | Some _ => run_lines rest s end.

Lemma set_looking s : rs_state s = LLooking -> forall st, set_state LLooking (set_state st s) = s.
Proof. destruct s as [st0 rg ps cur att txt]. cbn. intros -> st. reflexivity. Qed.

(* inside a comment or style block every non-blank line is skipped *)
Lemma run_note_lines : forall ls t rest s, (rs_state s = LNote \/ rs_state s = LStyle) -> terminator t ->
  forallb line_ok ls = true ->
  run_lines (map Some (map nl ls) ++ t :: rest) s = after_block t rest (set_state LLooking s).
Proof.
  induction ls as [|l ls IH]; intros t rest s St T H.
  - cbn [map app run_lines]. destruct St as [-> | ->]; destruct T as [-> | ->]; reflexivity.
  - cbn [forallb] in H. apply andb_true_iff in H as [Hl Hls]. unfold line_ok in Hl. apply andb_true_iff in Hl as [_ Hl].
    apply negb_true_iff in Hl. cbn [map app run_lines].
    destruct St as [E | E]; rewrite E, Hl; (rewrite IH; [reflexivity|rewrite E; auto|exact T|exact Hls]).
Qed.

Lemma run_skip : forall ls t rest s, skip_lines_ok ls = true -> terminator t -> rs_state s = LLooking ->
  run_lines (map Some (map nl ls) ++ t :: rest) s = after_block t rest s.
Proof.
  induction ls as [|l ls IH]; intros t rest s H T L.
  - cbn [map app run_lines]. rewrite L. destruct T as [-> | ->]; [reflexivity|].
    cbn [after_block]. change (looking [10] s) with s. reflexivity.
  - cbn [skip_lines_ok] in H. apply andb_true_iff in H as [Hl H]. unfold line_ok in Hl. apply andb_true_iff in Hl as [_ Hl].
    apply negb_true_iff in Hl. cbn [map app run_lines]. rewrite L. unfold looking. rewrite Hl.
    unfold note_or_style in H.
    destruct (starts_with s_NOTE_ (nl l)) eqn:N.
    + cbn [orb] in H. rewrite run_note_lines; [|left; reflexivity|exact T|exact H].
      rewrite set_looking by exact L. reflexivity.
    + destruct (starts_with s_STYLE (nl l)) eqn:St.
      * cbn [orb] in H. rewrite run_note_lines; [|right; reflexivity|exact T|exact H].
        rewrite set_looking by exact L. reflexivity.
      * cbn [orb] in H. apply andb_true_iff in H as [Ha H]. rewrite Ha. apply IH; assumption.
Qed.

Fixpoint items_of_b (bs : list rblock) : list (option text) :=
  match bs with
  | [] => [None]
  | b :: bs' => map Some (block_lines b) ++ match bs' with [] => [None] | _ => Some [10] :: items_of_b bs' end
  end.

Lemma run_blocks : forall bs s, bs <> [] -> Forall rblock_ok bs -> rs_state s = LLooking ->
  run_lines (items_of_b bs) s = read_cues (cues_of_blocks bs) (rs_regions s) (rs_paras s).
Proof.
  induction bs as [|b bs IH]; intros s Hne W L; [congruence|]. inversion W as [|? ? Hb Hbs]; subst.
  cbn [items_of_b cues_of_blocks flat_map]. fold (cues_of_blocks bs).
  destruct b as [c|ls]; cbn [block_lines rblock_ok app] in *.
  - (* a cue block *)
    cbn [read_cues]. destruct bs as [|b2 bs].
    + rewrite run_cue; [|assumption|left; reflexivity|exact L].
      destruct (get_or_make_region _ _) as [rg ri]. cbv zeta.
      destruct (rc_lines c); [reflexivity|].
      destruct (parse_cue_text _ _); reflexivity.
    + rewrite run_cue; [|assumption|right; reflexivity|exact L].
      destruct (get_or_make_region _ _) as [rg ri]. cbv zeta.
      destruct (rc_lines c).
      * rewrite IH; [reflexivity|discriminate|assumption|reflexivity].
      * destruct (parse_cue_text _ _) as [ch|e]; [|reflexivity].
        rewrite IH; [reflexivity|discriminate|assumption|reflexivity].
  - (* a block to skip: nothing changes *)
    destruct Hb as [_ Hok]. destruct bs as [|b2 bs].
    + rewrite run_skip; [|exact Hok|left; reflexivity|exact L]. reflexivity.
    + rewrite run_skip; [|exact Hok|right; reflexivity|exact L]. cbn [after_block].
      apply IH; [discriminate|assumption|exact L].
Qed.

Lemma file_items_b hdr bs :
  map Some (file_lines_b hdr bs) ++ [None] =
  Some (nl (s_WEBVTT ++ hdr)) :: match bs with [] => [None] | _ => Some [10] :: items_of_b bs end.
Proof.
  unfold file_lines_b. cbn [map app]. f_equal.
  induction bs as [|b bs IH]; [reflexivity|].
  cbn [flat_map map app items_of_b]. f_equal. rewrite map_app, <- app_assoc. f_equal.
  destruct bs as [|b2 bs]; [reflexivity|]. exact IH.
Qed.

Lemma skip_lines_line_ok : forall ls, skip_lines_ok ls = true -> forallb line_ok ls = true.
Proof.
  induction ls as [|l ls IH]; intros H; [reflexivity|]. cbn [skip_lines_ok] in H. apply andb_true_iff in H as [Hl H].
  cbn [forallb]. rewrite Hl. destruct (note_or_style l); [exact H|]. apply andb_true_iff in H as [_ H]. apply IH. exact H.
Qed.
Lemma block_lines_nl b : rblock_ok b -> Forall nl_line (block_lines b).
Proof.
  destruct b as [c|ls]; cbn [rblock_ok block_lines]; [apply cue_lines_nl|]. intros [_ H].
  apply skip_lines_line_ok in H. induction ls as [|l ls IH]; [constructor|].
  cbn [forallb] in H. apply andb_true_iff in H as [H1 H2]. cbn [map]. constructor; [|apply IH; exact H2].
  exists l. split; [reflexivity|]. unfold line_ok in H1. apply andb_true_iff in H1 as [H1 _]. exact H1.
Qed.
Lemma file_lines_b_nl hdr bs : no_lf hdr = true -> Forall rblock_ok bs -> Forall nl_line (file_lines_b hdr bs).
Proof.
  intros Hh W. unfold file_lines_b. constructor.
  - eexists. split; [reflexivity|]. apply no_lf_app; [reflexivity|exact Hh].
  - induction W as [|b bs Hb _ IH]; [constructor|]. cbn [flat_map].
    constructor; [exists []; split; reflexivity|]. apply Forall_app; split; [apply block_lines_nl; exact Hb|exact IH].
Qed.

(* NOTE / STYLE / REGION blocks are skipped: a file of cue blocks and blocks to skip, in any order, reads exactly as
   the file of its cue blocks *)
Theorem file_blocks hdr bs : no_lf hdr = true -> Forall rblock_ok bs ->
  to_model (file_text_b hdr bs) = read_cues (cues_of_blocks bs) [] [].
Proof.
  intros Hh W. unfold to_model, file_text_b.
  rewrite readlines_nl_lines by (apply file_lines_b_nl; assumption).
  rewrite file_items_b. cbn [run_lines rs_state].
  destruct bs as [|b bs]; [reflexivity|].
  cbn [run_lines rs_state set_state]. change (looking [10] _) with (mkR LLooking [] [] None false None).
  apply (run_blocks (b :: bs) (mkR LLooking [] [] None false None)); [discriminate|exact W|reflexivity].
Qed.
Corollary skipped_blocks_invisible hdr bs : no_lf hdr = true -> Forall rblock_ok bs ->
  to_model (file_text_b hdr bs) = to_model (file_text hdr (cues_of_blocks bs)).
Proof.
  intros Hh W. rewrite file_blocks by assumption. rewrite file_cues; [reflexivity|exact Hh|].
  induction W as [|b bs Hb _ IH]; [constructor|]. destruct b; cbn [cues_of_blocks flat_map app]; [constructor; assumption|exact IH].
Qed.

(* the three kinds of block the WebVTT syntax defines, with ANY body lines *)
Lemma note_block_ok first body : line_ok (s_NOTE_ ++ first) = true -> forallb line_ok body = true ->
  rblock_ok (RSkip ((s_NOTE_ ++ first) :: body)).
Proof.
  intros H1 H2. split; [discriminate|]. cbn [skip_lines_ok]. rewrite H1.
  replace (note_or_style (s_NOTE_ ++ first)) with true by reflexivity. exact H2.
Qed.
Lemma style_block_ok first body : line_ok (s_STYLE ++ first) = true -> forallb line_ok body = true ->
  rblock_ok (RSkip ((s_STYLE ++ first) :: body)).
Proof.
  intros H1 H2. split; [discriminate|]. cbn [skip_lines_ok]. rewrite H1.
  assert (E : note_or_style (s_STYLE ++ first) = true).
  { unfold note_or_style. replace (starts_with s_STYLE (nl (s_STYLE ++ first))) with true by reflexivity. apply orb_true_r. }
  rewrite E. exact H2.
Qed.
Definition s_REGION : text := [82;69;71;73;79;78].
Lemma region_block_ok body : forallb (fun l => line_ok l && negb (note_or_style l) && negb (contains s_arrow (nl l))) body = true ->
  rblock_ok (RSkip (s_REGION :: body)).
Proof.
  intros H. split; [discriminate|]. cbn [skip_lines_ok]. replace (line_ok s_REGION) with true by reflexivity.
  replace (note_or_style s_REGION) with false by reflexivity. replace (contains s_arrow (nl s_REGION)) with false by reflexivity.
  cbn [negb andb]. induction body as [|l body IH]; [reflexivity|].
  cbn [forallb] in H. apply andb_true_iff in H as [Hl H]. apply andb_true_iff in Hl as [Hl Ha]. apply andb_true_iff in Hl as [Hl Hn].
  apply negb_true_iff in Hn. cbn [skip_lines_ok]. rewrite Hl, Hn, Ha. cbn [andb]. apply IH. exact H.
Qed.

Example blocks_example :
  Forall rblock_ok
    [RSkip [[78;79;84;69;32;97]; [48;48;58;48;49;46;48;48;48;32;45;45;62;32;120]];       (* NOTE a / 00:01.000 --> x *)
     RCue (mkRcue None (mkTs None 0 1 0) (mkTs None 0 2 0) [] [[97]]);
     RSkip [[83;84;89;76;69]; [58;58;99;117;101;32;123;125]];                           (* STYLE / ::cue {} *)
     RSkip [s_REGION; [105;100;58;102;114;101;100]];                                    (* REGION / id:fred *)
     RCue (mkRcue (Some [105;100]) (mkTs None 0 3 0) (mkTs None 0 4 0) [] [[98]])].
Proof.
  repeat constructor; cbn; try lia; try discriminate; try reflexivity; unfold digit_ok; try lia.
Qed.

(* ================================================================ region sharing over a file
   the paragraphs of a file whose cues all have a payload carry the region indices `assign` computes, hence
   (region_sharing_iff) two cues share a region iff their settings compute the same region value *)
Lemma read_cues_assign : forall cs rs ps rs' ps', Forall (fun c => rc_lines c <> []) cs ->
  read_cues cs rs ps = OkDoc rs' ps' ->
  exists qs, ps' = ps ++ qs /\ assign rs (map rc_settings cs) = (rs', map pa_region qs).
Proof.
  induction cs as [|c cs IH]; intros rs ps rs' ps' Hp H; cbn [read_cues map assign] in *.
  - inversion H; subst. exists []. rewrite app_nil_r. split; reflexivity.
  - inversion Hp as [|? ? Hc Hcs]; subst.
    destruct (get_or_make_region rs (rc_settings c)) as [rs1 i] eqn:G.
    destruct (rc_lines c) as [|l1 ls] eqn:El; [congruence|].
    destruct (parse_cue_text _ _) as [ch|e]; [|discriminate].
    destruct (IH _ _ _ _ Hcs H) as (qs & -> & A). rewrite A.
    eexists (_ :: qs). rewrite <- app_assoc. split; reflexivity.
Qed.
Theorem cues_share_region_iff : forall cs rs ps a b ca cb pa pb, Forall (fun c => rc_lines c <> []) cs ->
  read_cues cs [] [] = OkDoc rs ps ->
  nth_error cs a = Some ca -> nth_error cs b = Some cb -> nth_error ps a = Some pa -> nth_error ps b = Some pb ->
  (pa_region pa = pa_region pb <->
   region_eqb (compute_region (rc_settings ca)) (compute_region (rc_settings cb)) = true).
Proof.
  intros cs rs ps a b ca cb pa pb Hp H Ha Hb Hpa Hpb.
  destruct (read_cues_assign _ _ _ _ _ Hp H) as (qs & E & A). cbn [app] in E. subst qs.
  eapply region_sharing_iff; [exact A| | | |].
  - rewrite nth_error_map, Ha. reflexivity.
  - rewrite nth_error_map, Hb. reflexivity.
  - rewrite nth_error_map, Hpa. reflexivity.
  - rewrite nth_error_map, Hpb. reflexivity.
Qed.

(* when the payload lines neither begin nor end with CR/LF and contain no literal backslash-n-backslash-r, the
   text handed to the cue parser is the lines joined by LF *)
Fixpoint join_lf (ls : list text) : text :=
  match ls with [] => [] | [l] => l | l :: ls' => l ++ 10 :: join_lf ls' end.

Definition first_ok (s : text) : bool := match s with c :: _ => negb (is_crlf c) | [] => false end.
Definition plain_payload (ls : list text) : bool :=
  first_ok (join_lf ls) && first_ok (rev (join_lf ls)) && negb (mem_z 92 (join_lf ls)).

Lemma drop_first_ok s : first_ok s = true -> drop_while is_crlf s = s.
Proof. destruct s as [|c s]; [discriminate|]. cbn. intros H. apply negb_true_iff in H. rewrite H. reflexivity. Qed.
Lemma strip_line s : first_ok s = true -> first_ok (rev s) = true -> strip_crlf (s ++ [10]) = s.
Proof.
  intros H1 H2. unfold strip_crlf.
  assert (E : drop_while is_crlf (s ++ [10]) = s ++ [10]).
  { destruct s as [|c s]; [discriminate|]. cbn [app]. apply drop_first_ok. exact H1. }
  rewrite E, rev_app_distr. cbn [rev app drop_while is_crlf Z.eqb Pos.eqb orb].
  rewrite drop_first_ok by exact H2. apply rev_involutive.
Qed.
Lemma replace_raw_id : forall s, mem_z 92 s = false -> replace_raw s = s.
Proof.
  induction s as [|c s IH]; intros H; [reflexivity|].
  unfold mem_z in H. cbn [existsb] in H. apply orb_false_iff in H as [Hc Hs].
  assert (c <> 92) by lia.
  assert (E : replace_raw (c :: s) = c :: replace_raw s).
  { destruct c as [|p|p]; try reflexivity.
    do 7 (destruct p as [p|p|]; try reflexivity). contradiction. }
  rewrite E, IH by exact Hs. reflexivity.
Qed.
Lemma concat_join : forall ls, ls <> [] -> concat (map nl ls) = join_lf ls ++ [10].
Proof.
  induction ls as [|l ls IH]; intros H; [congruence|]. destruct ls as [|l2 ls].
  - cbn. rewrite app_nil_r. reflexivity.
  - change (concat (map nl (l :: l2 :: ls))) with (nl l ++ concat (map nl (l2 :: ls))).
    rewrite IH by discriminate.
    change (join_lf (l :: l2 :: ls)) with (l ++ 10 :: join_lf (l2 :: ls)).
    unfold nl. rewrite <- !app_assoc. reflexivity.
Qed.
Lemma cue_text_plain c : rc_lines c <> [] -> plain_payload (rc_lines c) = true -> cue_text c = join_lf (rc_lines c).
Proof.
  intros Hne H. unfold plain_payload in H. apply andb_true_iff in H as [H H3]. apply andb_true_iff in H as [H1 H2].
  unfold cue_text. rewrite concat_join by exact Hne. rewrite strip_line by assumption.
  apply replace_raw_id. apply negb_true_iff in H3. exact H3.
Qed.

(* the empty file is an empty document *)
Lemma empty_file : to_model [] = OkDoc [] [].
Proof. reflexivity. Qed.

(* non-vacuity: a three-cue file, the second cue without payload *)
Example file_example :
  Forall rcue_ok [mkRcue (Some [105;100]) (mkTs None 0 1 0) (mkTs (Some [0;0]) 0 2 500) [[108;105;110;101;58;48]] [[97];[98;32;99]];
                  mkRcue None (mkTs None 0 2 600) (mkTs None 0 2 900) [] [];
                  mkRcue None (mkTs None 0 3 0) (mkTs None 0 4 0) [] [[60;98;62;120]]].
Proof.
  repeat constructor; cbn; try lia; try discriminate; try reflexivity; unfold digit_ok; try lia.
Qed.
