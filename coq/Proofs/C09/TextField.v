(* C09_tf: the one-pass machine of tf.to_model (buffer, look-ahead, look-behind, span bookkeeping) computes
   exactly the staged interpretation of the specification (cut at the first unused-space byte; tokens decided
   by the neighbours of each position; runs between attribute codes and row ends), for every list of integers
   (not only bytes), for both teletext and open subtitles and for any character decoder.  Induction on the
   byte list with the `_Context` record as invariant. *)
From TT Require Import Base.Prelude Gen.StlTables Model.StlTf Model.StlTriggers Spec.Ebu3264Spec.

(* how the two output vocabularies correspond: Model/StlTriggers.v attrs_of, piece_of_leaf *)

(* classifiers: literally the same range tests *)
Lemma character_graphic c : is_character_code c = graphic c.  Proof. reflexivity. Qed.
Lemma printable_printable c : is_printable_code c = printable c.  Proof. reflexivity. Qed.
Lemma control_attribute c : is_control_code c = attribute_code c.  Proof. reflexivity. Qed.

Lemma initial_attrs tele : attrs_of (initial_style tele) = default_attrs tele.
Proof. destruct tele; reflexivity. Qed.

Lemma apply_control_attrs ch c :
  attrs_of (c_style (apply_control ch c)) = apply_attribute ch (attrs_of (c_style c)) /\
  c_span (apply_control ch c) = c_span c /\ c_buf (apply_control ch c) = c_buf c.
Proof.
  unfold apply_control.
  destruct (ch =? 28) eqn:E28; [apply Z.eqb_eq in E28; subst; repeat split|].
  destruct (ch =? 133) eqn:E133; [apply Z.eqb_eq in E133; subst; repeat split|].
  destruct (ch =? 29) eqn:E29; [apply Z.eqb_eq in E29; subst; repeat split|].
  destruct (ch =? 0) eqn:E0; [apply Z.eqb_eq in E0; subst; repeat split|].
  destruct (ch =? 1) eqn:E1; [apply Z.eqb_eq in E1; subst; repeat split|].
  destruct (ch =? 2) eqn:E2; [apply Z.eqb_eq in E2; subst; repeat split|].
  destruct (ch =? 3) eqn:E3; [apply Z.eqb_eq in E3; subst; repeat split|].
  destruct (ch =? 4) eqn:E4; [apply Z.eqb_eq in E4; subst; repeat split|].
  destruct (ch =? 5) eqn:E5; [apply Z.eqb_eq in E5; subst; repeat split|].
  destruct (ch =? 6) eqn:E6; [apply Z.eqb_eq in E6; subst; repeat split|].
  destruct (ch =? 7) eqn:E7; [apply Z.eqb_eq in E7; subst; repeat split|].
  destruct (ch =? 128) eqn:E128; [apply Z.eqb_eq in E128; subst; repeat split|].
  destruct (ch =? 129) eqn:E129; [apply Z.eqb_eq in E129; subst; repeat split|].
  destruct (ch =? 130) eqn:E130; [apply Z.eqb_eq in E130; subst; repeat split|].
  destruct (ch =? 131) eqn:E131; [apply Z.eqb_eq in E131; subst; repeat split|].
  repeat split. unfold apply_attribute.
  assert (Hr : in_range 0 7 ch = false) by (unfold in_range; lia). rewrite Hr.
  change 0x1C with 28. change 0x1D with 29. change 0x80 with 128. change 0x81 with 129. change 0x82 with 130.
  change 0x83 with 131. change 0x85 with 133.
  rewrite E28, E29, E128, E129, E130, E131, E133. destruct (c_style c); reflexivity.
Qed.

(* the suffix form of the specification's tokenisation: position-by-position with the left neighbour carried *)
Definition tokens_from (dh : bool) (prev : Z) (t : list Z) : list token :=
  flat_map (token_at dh) (combine (combine (prev :: t) t) (tl t ++ [filler])).

Lemma tokens_from_start t : tokens t = tokens_from (double_height t) filler t.
Proof. reflexivity. Qed.

Definition next_of (t : list Z) : Z := match t with [] => filler | n :: _ => n end.

Lemma tokens_from_cons dh prev c t : tokens_from dh prev (c :: t) = token_at dh (prev, c, next_of t) ++ tokens_from dh c t.
Proof.
  unfold tokens_from. destruct t as [|n t']; cbn [tl app combine flat_map next_of]; [rewrite app_nil_r|]; reflexivity.
Qed.

Lemma next_of_text rest : next_of (text_of_field rest) = peek rest.
Proof.
  destruct rest as [|n r]; [reflexivity|]. cbn [text_of_field peek].
  destruct (n =? filler) eqn:E; [apply Z.eqb_eq in E; subst; reflexivity | reflexivity].
Qed.

(* the invariant tying `_Context` to the specification's (attributes, pending run) *)
Definition ctx_rel (c : ctx) (a : attrs) (run : list Z) : Prop :=
  attrs_of (c_style c) = a /\ c_buf c = run /\
  ((c_span c = None /\ run = []) \/ (c_span c = Some (c_style c) /\ run <> [])).

Lemma end_span_rel dec c a run : ctx_rel c a run ->
  map piece_of_leaf (fst (end_span dec c)) = flush dec a run /\
  ctx_rel (snd (end_span dec c)) a [] /\ c_style (snd (end_span dec c)) = c_style c.
Proof.
  intros (Ha & Hb & [[Hs Hr]|[Hs Hr]]); unfold end_span; rewrite Hb, Hs.
  - rewrite Hr in *. cbn [fst snd flush map]. split; [reflexivity|]. split; [|reflexivity].
    unfold ctx_rel. split; [assumption|]. split; [assumption|]. left; auto.
  - destruct run as [|x r]; [congruence|]. cbn [fst snd flush map piece_of_leaf c_style c_span c_buf]. rewrite Ha.
    split; [reflexivity|]. split; [|reflexivity].
    unfold ctx_rel. cbn [c_style c_span c_buf]. split; [assumption|]. split; [reflexivity|]. left; auto.
Qed.

Lemma append_rel c a run ch : ctx_rel c a run -> ctx_rel (append_character c ch) a (run ++ [ch]).
Proof.
  intros (Ha & Hb & Hs). unfold ctx_rel, append_character. cbn. repeat split; auto; [rewrite Hb; reflexivity|].
  right. split; [|destruct run; discriminate].
  destruct Hs as [[Hs _]|[Hs _]]; rewrite Hs; reflexivity.
Qed.

(* bytes.partition(b'\x8f')[0] is the specification's "text": everything before the first unused-space byte *)
Lemma before_8f_text bs : before_8f bs = text_of_field bs.
Proof. induction bs as [|b r IH]; [reflexivity|]. cbn [before_8f text_of_field]. change filler with 143. rewrite IH. reflexivity. Qed.

Lemma tf_loop_spec dec tele dh : forall bs prev c a run, ctx_rel c a run ->
  map piece_of_leaf (tf_loop dec tele dh prev bs c) = interpret dec tele a run (tokens_from dh prev (text_of_field bs)).
Proof.
  induction bs as [|ch rest IH]; intros prev c a run Hrel.
  - cbn [tf_loop text_of_field]. apply (end_span_rel dec) in Hrel as (H & _). exact H.
  - cbn [tf_loop text_of_field]. unfold is_unused_space_code. change 143 with filler.
    destruct (ch =? filler) eqn:Efill.
    { apply (end_span_rel dec) in Hrel as (H & _). exact H. }
    rewrite tokens_from_cons, next_of_text.
    change is_printable_code with printable. change is_character_code with graphic. change is_control_code with attribute_code.
    unfold token_at.
    assert (Hng : printable ch = true -> graphic ch = true) by (unfold printable; intros H; apply andb_true_iff in H; tauto).
    destruct (printable ch) eqn:Epr.
    { rewrite (Hng eq_refl). cbn [orb app interpret]. apply IH. apply append_rel, Hrel. }
    destruct (graphic ch) eqn:Egr.
    { (* a space *)
      assert (Hsp : ch =? 32 = true) by (unfold printable in Epr; rewrite Egr in Epr; destruct (ch =? 32); [reflexivity|discriminate]).
      change 0x20 with 32. rewrite Hsp. cbn [orb].
      rewrite (andb_comm (printable (peek rest))).
      destruct (printable prev && printable (peek rest)); cbn [app interpret]; [apply IH; apply append_rel, Hrel | apply IH; exact Hrel]. }
    assert (Hns : ch =? 0x20 = false).
    { destruct (ch =? 0x20) eqn:E; [|reflexivity]. apply Z.eqb_eq in E; subst ch. discriminate. }
    rewrite Hns. unfold is_newline_code. change 138 with newline_code.
    destruct (ch =? newline_code) eqn:Enl.
    { change 143 with filler.
      assert (Hc : negb (dh && (peek rest =? newline_code)) && negb (peek rest =? filler) =
                   negb ((peek rest =? filler) || dh && (peek rest =? newline_code)))
        by (destruct (dh && (peek rest =? newline_code)), (peek rest =? filler); reflexivity).
      rewrite Hc.
      destruct ((peek rest =? filler) || dh && (peek rest =? newline_code)) eqn:Enx; cbn [negb].
      - cbn [app]. apply IH. exact Hrel.
      - cbn [app interpret].
        destruct (end_span dec c) as [out c1] eqn:Ees.
        pose proof (end_span_rel dec c a run Hrel) as (Hout & Hr1 & Hst). rewrite Ees in Hout, Hr1, Hst. cbn [fst snd] in Hout, Hr1, Hst.
        rewrite map_app. cbn [map piece_of_leaf]. rewrite Hout. f_equal. f_equal.
        apply IH. destruct tele.
        + destruct Hr1 as (_ & Hb1 & Hs1). unfold ctx_rel, reset_styles. cbn. repeat split; auto.
          destruct Hs1 as [[Hs1 _]|[_ Hs1]]; [left; auto | congruence].
        + exact Hr1. }
    destruct (attribute_code ch) eqn:Eat.
    { cbn [app interpret].
      destruct (end_span dec c) as [out c1] eqn:Ees.
      pose proof (end_span_rel dec c a run Hrel) as (Hout & Hr1 & Hst). rewrite Ees in Hout, Hr1, Hst. cbn [fst snd] in Hout, Hr1, Hst.
      rewrite map_app, Hout. f_equal.
      rewrite (andb_comm (printable (peek rest))).
      pose proof (apply_control_attrs ch c1) as (Hac & Hsp & Hbf).
      destruct Hr1 as (Ha1 & Hb1 & Hs1).
      assert (Hrel2 : ctx_rel (apply_control ch c1) (apply_attribute ch a) []).
      { unfold ctx_rel. rewrite Hac, Ha1, Hsp, Hbf. repeat split; auto.
        destruct Hs1 as [[Hs1 _]|[_ Hs1]]; [left; auto | congruence]. }
      destruct (printable prev && printable (peek rest)).
      - apply IH. apply (append_rel _ _ [] 32) in Hrel2. exact Hrel2.
      - apply IH. exact Hrel2. }
    cbn [app]. apply IH. exact Hrel.
Qed.

(* the whole text field, for every list of integers: no hypothesis is left (blank-row-dropped was repaired) *)
Lemma tf_refines dec tele bs : map piece_of_leaf (tf_model dec tele bs) = tf_spec dec tele bs.
Proof.
  unfold tf_model, tf_spec. rewrite tokens_from_start, before_8f_text. change 143 with filler.
  change (has_double_height_char (text_of_field bs)) with (double_height (text_of_field bs)). apply tf_loop_spec.
  unfold ctx_rel, ctx_init. cbn. rewrite initial_attrs. repeat split. left; auto.
Qed.

(* with the decoders: the implementation's decoder of the CCT may be replaced by the standard's, provided they
   agree on every run that is decoded.  Runs consist of bytes of the field and spaces. *)
Lemma interpret_ext dec1 dec2 tele : forall ts a run,
  (forall r, dec1 r = dec2 r) -> interpret dec1 tele a run ts = interpret dec2 tele a run ts.
Proof.
  induction ts as [|t ts IH]; intros a run H; cbn [interpret]; unfold flush.
  - destruct run; [reflexivity | rewrite H; reflexivity].
  - destruct t; [apply IH, H | | ]; (destruct run; [|rewrite H]); rewrite (IH _ _ H); reflexivity.
Qed.

(* ---- with the decoders ------------------------------------------------------------------------------------- *)
(* every run that is decoded consists of bytes of the field and of spaces, so two decoders that agree on such strings
   give the same pieces *)
Section Decoders.
  Variable P : Z -> Prop.
  Variables dec1 dec2 : list Z -> text.
  Hypothesis Hdec : forall l, Forall P l -> dec1 l = dec2 l.
  Hypothesis Hsp : P 32.

  Definition token_ok (t : token) : Prop := match t with TChar c => P c | _ => True end.

  Lemma interpret_agree tele : forall ts a run, Forall token_ok ts -> Forall P run ->
    interpret dec1 tele a run ts = interpret dec2 tele a run ts.
  Proof.
    induction ts as [|t ts IH]; intros a run Hts Hrun; cbn [interpret]; unfold flush.
    - destruct run; [reflexivity | rewrite (Hdec _ Hrun); reflexivity].
    - inversion Hts as [|? ? Ht Hts']; subst. destruct t as [c| |c sp].
      + apply IH; [exact Hts'|]. apply Forall_app. split; [exact Hrun | constructor; [exact Ht | constructor]].
      + rewrite (IH _ [] Hts' (Forall_nil _)). destruct run; [reflexivity | rewrite (Hdec _ Hrun); reflexivity].
      + assert (Hn : Forall P (if sp then [32] else [])) by (destruct sp; [constructor; [exact Hsp | constructor] | constructor]).
        rewrite (IH _ _ Hts' Hn). destruct run; [reflexivity | rewrite (Hdec _ Hrun); reflexivity].
  Qed.

  Lemma token_at_ok dh p c n : P c -> Forall token_ok (token_at dh (p, c, n)).
  Proof.
    intros Hc. unfold token_at.
    destruct (printable c); [constructor; [exact Hc | constructor]|].
    destruct (c =? 32); [destruct (printable p && printable n); [constructor; [exact Hc | constructor] | constructor]|].
    destruct (c =? newline_code); [destruct ((n =? filler) || (dh && (n =? newline_code))); [constructor | constructor; [exact I | constructor]]|].
    destruct (attribute_code c); [constructor; [exact I | constructor] | constructor].
  Qed.

  Lemma tokens_from_ok dh : forall t prev, Forall P t -> Forall token_ok (tokens_from dh prev t).
  Proof.
    induction t as [|c t IH]; intros prev Ht; [constructor|].
    inversion Ht as [|? ? Hc Ht']; subst. rewrite tokens_from_cons. apply Forall_app. split; [apply token_at_ok, Hc | apply IH, Ht'].
  Qed.

  Lemma text_of_field_forall bs : Forall P bs -> Forall P (text_of_field bs).
  Proof.
    induction 1 as [|b bs Hb _ IH]; [constructor|]. cbn [text_of_field]. destruct (b =? filler); [constructor | constructor; assumption].
  Qed.

  Lemma tf_spec_agree tele bs : Forall P bs -> tf_spec dec1 tele bs = tf_spec dec2 tele bs.
  Proof.
    intros Hb. unfold tf_spec. apply interpret_agree; [|constructor].
    rewrite tokens_from_start. apply tokens_from_ok, text_of_field_forall, Hb.
  Qed.
End Decoders.
